(* Proofs/RoundtripConverseProofs.v — completing wire -> value -> wire for the
   field codecs of Model/Rdata.v:
   1. what the decoders return is canonical in the sense of [canon] /
      [field_canon] of RoundtripFieldProofs.v (with the two exceptions found:
      APL addresses with bits beyond the prefix, SVCB alpn values holding an
      empty id), hence unpack (pack (unpack w)) = unpack w;
   2. the converse (octets accepted by unpack_field re-pack to exactly
      msg[off:off']) for the kinds RoundtripFieldProofs.v leaves out: type
      bitmaps, lists of names, the gateway union, APL, EDNS0 options and SVCB
      parameters, each under the canonicity condition of the wire form that
      makes it true, with refuting octets where an accepted wire form does not
      re-pack to itself. *)
From Dns Require Import Gen.Layouts Gen.Registry.
From Dns Require Import Base.ListX Model.Msg Spec.NameSpec
  Proofs.EscapeProofs Proofs.NameWireProofs Proofs.NameRoundtripProofs Proofs.DecodeNameProofs
  Proofs.LayoutProofs Proofs.DecodeFieldsProofs Proofs.RoundtripFieldProofs Proofs.RoundtripRRProofs.
From Coq Require Import Lia ZifyN ZifyNat ZifyBool.
Open Scope list_scope.
Open Scope N_scope.

Ltac Zify.zify_post_hook ::= Z.div_mod_to_equations.

(* keep the kernel from unfolding the 400-step name recursion when it re-checks proofs *)
Local Opaque un_go.
Local Strategy opaque [unpack_name_fuel un_go].

(* ================================================================== *)
(* octets *)
Lemma nthN_wfb (msg : bytes) off : wfb msg -> off < lenN msg -> nthN msg off 0 < 256.
Proof.
  intros Hw H. unfold nthN. unfold wfb in Hw. rewrite Forall_forall in Hw. apply Hw, nth_In. unfold lenN in H. lia.
Qed.

Lemma be2_bound (msg : bytes) off : wfb msg -> off + 2 <= lenN msg -> be (take_at msg off 2) 0 < 65536.
Proof.
  intros Hw H. pose proof (be_bound (take_at msg off 2) (wfb_take_at msg off 2 Hw)) as Hb.
  rewrite lenN_take_at in Hb by lia. exact Hb.
Qed.

(* ================================================================== *)
(* PART 1: what the decoders return is canonical *)

(* ------------------------------------------------------------------ *)
(* type bitmaps: the decoded list is strictly increasing and below 2^16 *)
Lemma sorted_from_weaken l : forall lo lo', lo' <= lo -> sorted_from lo l -> sorted_from lo' l.
Proof. destruct l as [|t r]; intros lo lo' H Hs; [exact I|]. cbn in *. split; [lia|tauto]. Qed.

Lemma sorted_from_app a : forall lo mid b, lo <= mid ->
  sorted_from lo a -> Forall (fun t => t < mid) a -> sorted_from mid b -> sorted_from lo (a ++ b).
Proof.
  induction a as [|t a IH]; intros lo mid b Hle Ha Hb Hs; cbn [app].
  - eapply sorted_from_weaken; eauto.
  - cbn [sorted_from] in *. destruct Ha as [H1 H2]. split; [exact H1|].
    pose proof (Forall_inv Hb) as Ht. cbn beta in Ht.
    apply (IH (t + 1) mid); [lia|exact H2|now apply Forall_inv_tail in Hb|exact Hs].
Qed.

Lemma bits_sorted base b ks : forall k0, sorted_from k0 ks -> Forall (fun k => k < 8) ks ->
  sorted_from (base + k0) (flat_map (fun k => if N.testbit b (7 - k) then [base + k] else []) ks) /\
  Forall (fun t => t < base + 8) (flat_map (fun k => if N.testbit b (7 - k) then [base + k] else []) ks).
Proof.
  induction ks as [|k ks IH]; intros k0 Hs Hb; cbn [flat_map]; [split; [exact I|constructor]|].
  cbn [sorted_from] in Hs. destruct Hs as [Hk Hs]. pose proof (Forall_inv Hb) as Hk8. cbn beta in Hk8. apply Forall_inv_tail in Hb.
  destruct (IH (k + 1) Hs Hb) as [I1 I2].
  destruct (N.testbit b (7 - k)); cbn [app].
  - split; [cbn [sorted_from]; split; [lia|]|constructor; [lia|exact I2]].
    replace (base + k + 1) with (base + (k + 1)) by lia. exact I1.
  - split; [|exact I2]. eapply sorted_from_weaken; [|exact I1]. lia.
Qed.

Lemma bits_of_sorted w j b :
  sorted_from (w * 256 + j * 8) (bits_of w j b) /\ Forall (fun t => t < w * 256 + j * 8 + 8) (bits_of w j b).
Proof.
  unfold bits_of.
  destruct (bits_sorted (w * 256 + j * 8) b [0;1;2;3;4;5;6;7] 0) as [H1 H2].
  - cbn. lia.
  - repeat constructor.
  - rewrite N.add_0_r in H1. split; assumption.
Qed.

Lemma block_types_sorted w d : forall j,
  sorted_from (w * 256 + j * 8) (block_types w j d) /\
  Forall (fun t => t < w * 256 + (j + lenN d) * 8) (block_types w j d).
Proof.
  induction d as [|b d IH]; intro j; cbn [block_types]; [split; [exact I|constructor]|].
  destruct (bits_of_sorted w j b) as [B1 B2]. destruct (IH (j + 1)) as [I1 I2]. rewrite lenN_cons.
  split.
  - apply (sorted_from_app _ _ (w * 256 + (j + 1) * 8)); [lia|exact B1| |exact I1].
    eapply Forall_impl; [|exact B2]. cbn beta. intros; lia.
  - apply Forall_app. split.
    + eapply Forall_impl; [|exact B2]. cbn beta. intros; lia.
    + eapply Forall_impl; [|exact I2]. cbn beta. intros; lia.
Qed.

Lemma unpack_nsec_go_sorted fuel : forall msg off lw acc l off',
  wfb msg -> (-1 <= lw < 256)%Z ->
  sorted_from 0 acc -> Forall (fun t => (Z.of_N t < (lw + 1) * 256)%Z) acc ->
  unpack_nsec_go fuel msg off lw acc = Ok (l, off') ->
  sorted_from 0 l /\ Forall (fun t => t < 65536) l.
Proof.
  induction fuel as [|f IH]; intros msg off lw acc l off' Hw Hlw Hs Hb H; [discriminate|].
  cbn [unpack_nsec_go] in H.
  destruct (off <? lenN msg) eqn:E.
  - destruct (lenN msg <? off + 2) eqn:E2; [discriminate|].
    destruct (_ <=? lw)%Z eqn:E3; [discriminate|].
    destruct (nthN msg (off + 1) 0 =? 0) eqn:E4; [discriminate|].
    destruct (32 <? nthN msg (off + 1) 0) eqn:E5; [discriminate|].
    destruct (lenN msg <? off + 2 + nthN msg (off + 1) 0) eqn:E6; [discriminate|].
    set (w := nthN msg off 0) in *. set (n := nthN msg (off + 1) 0) in *.
    assert (Hw256 : w < 256) by (apply nthN_wfb; [exact Hw|lia]).
    destruct (block_types_sorted w (take_at msg (off + 2) n) 0) as [B1 B2].
    rewrite lenN_take_at in B2 by lia.
    apply IH in H; [exact H|exact Hw|lia| |].
    + apply (sorted_from_app _ _ (w * 256 + 0 * 8)); [lia|exact Hs| |exact B1].
      eapply Forall_impl; [|exact Hb]. cbn beta. intros; lia.
    + apply Forall_app. split.
      * eapply Forall_impl; [|exact Hb]. cbn beta. intros; lia.
      * eapply Forall_impl; [|exact B2]. cbn beta. intros; lia.
  - injection H as <- <-. split; [exact Hs|].
    eapply Forall_impl; [|exact Hb]. cbn beta. intros; lia.
Qed.

Lemma unpack_nsec_canon msg off l off' :
  wfb msg -> unpack_nsec msg off = Ok (l, off') -> sorted_from 0 l /\ Forall (fun t => t < 65536) l.
Proof.
  intros Hw H. unfold unpack_nsec in H.
  eapply unpack_nsec_go_sorted; [exact Hw| | | |exact H]; [lia|exact I|constructor].
Qed.

(* ------------------------------------------------------------------ *)
(* address masks *)
Lemma pad_zero_right l : forall n, pad_zero l n = pad_right l n.
Proof. induction l as [|x l IH]; intro n; induction n as [|n IHn]; cbn; try reflexivity; f_equal; auto. Qed.

Lemma pad_right_length a : forall n, length (pad_right a n) = n.
Proof. intros n; revert a; induction n as [|n IH]; intro a; [reflexivity|]. destruct a; cbn; now rewrite IH. Qed.

Lemma mask_idem x : forall m, mask_bytes (mask_bytes x m) m = mask_bytes x m.
Proof.
  induction x as [|b r IH]; intro m; cbn [mask_bytes]; [reflexivity|].
  destruct (8 <=? m) eqn:E; cbn [mask_bytes]; rewrite E.
  - now rewrite IH.
  - rewrite IH. f_equal. rewrite <- N.land_assoc, N.land_diag. reflexivity.
Qed.

(* the leading (m+7)/8 octets of a masked address determine it *)
Lemma mask_take_idem X m :
  mask_bytes (pad_right (takeN ((m + 7) / 8) (mask_bytes X m)) (length X)) m = mask_bytes X m.
Proof.
  set (M := mask_bytes X m). set (n := N.to_nat ((m + 7) / 8)).
  assert (HM : length M = length X) by apply mask_bytes_length.
  assert (Hid : mask_bytes M m = M) by apply mask_idem.
  pose proof (masked_tail M m Hid) as Ht. fold n in Ht.
  assert (E : pad_right (takeN ((m + 7) / 8) M) (length X) = M).
  { unfold takeN. fold n. destruct (le_lt_dec n (length M)) as [Hle|Hgt].
    - rewrite pad_right_spec by (rewrite firstn_length; lia).
      rewrite firstn_length, Nat.min_l by exact Hle. rewrite <- HM, <- Ht. apply firstn_skipn.
    - rewrite firstn_all2 by lia. rewrite pad_right_spec by lia. rewrite HM, Nat.sub_diag. apply app_nil_r. }
  rewrite E. exact Hid.
Qed.

(* ------------------------------------------------------------------ *)
(* EDNS0 options: the view of an option is a fixed point of the view *)
Lemma subnet_view_4 a0 a1 m s T : subnet_view (a0 :: a1 :: m :: s :: T) =
  let fam := be [a0; a1] 0 in
  if fam =? 0 then (if m =? 0 then Some [0; 0; 0; s] else None)
  else if fam =? 1 then
    if (32 <? m) || (32 <? s) then None
    else Some ([0; 1; m; s] ++ takeN ((m + 7) / 8) (mask_bytes (pad_zero T 4) m))
  else if fam =? 2 then
    if (128 <? m) || (128 <? s) then None
    else Some ([0; 2; m; s] ++ takeN ((m + 7) / 8) (mask_bytes (pad_zero T 16) m))
  else None.
Proof.
  unfold subnet_view. rewrite !lenN_cons. bfalse (1 + (1 + (1 + (1 + lenN T))) <? 4). reflexivity.
Qed.

Lemma subnet_view_fam1 a0 a1 m s T : be [a0; a1] 0 = 1 -> subnet_view (a0 :: a1 :: m :: s :: T) =
  if (32 <? m) || (32 <? s) then None
  else Some ([0; 1; m; s] ++ takeN ((m + 7) / 8) (mask_bytes (pad_zero T 4) m)).
Proof. intro H. rewrite subnet_view_4. cbv zeta. rewrite H. reflexivity. Qed.
Lemma subnet_view_fam2 a0 a1 m s T : be [a0; a1] 0 = 2 -> subnet_view (a0 :: a1 :: m :: s :: T) =
  if (128 <? m) || (128 <? s) then None
  else Some ([0; 2; m; s] ++ takeN ((m + 7) / 8) (mask_bytes (pad_zero T 16) m)).
Proof. intro H. rewrite subnet_view_4. cbv zeta. rewrite H. reflexivity. Qed.

Lemma Some_inj {A} (a b : A) : Some a = Some b -> a = b.
Proof. congruence. Qed.

Lemma Some_pair_inj {A B} (a c : A) (b d : B) : Some (a, b) = Some (c, d) -> a = c /\ b = d.
Proof. intro H. split; congruence. Qed.
Ltac spi H := apply Some_pair_inj in H; destruct H as [<- <-].
Lemma Ok_pair_inj {A B} (a c : A) (b d : B) : Ok (a, b) = Ok (c, d) -> a = c /\ b = d.
Proof. intro H. split; congruence. Qed.

Lemma lenN_takeN_le {A} (l : list A) n : lenN (takeN n l) <= n.
Proof. unfold lenN, takeN. rewrite firstn_length. lia. Qed.

Lemma subnet_view_idem data b : subnet_view data = Some b -> subnet_view b = Some b /\ lenN b <= 20.
Proof.
  intro H. destruct data as [|a0 [|a1 [|m [|s T]]]]; try (cbn in H; discriminate).
  rewrite subnet_view_4 in H. cbv zeta in H.
  destruct (be [a0; a1] 0 =? 0).
  { destruct (m =? 0) eqn:Em; [|discriminate]. injection H as <-. split; [|cbn; lia]. reflexivity. }
  destruct (be [a0; a1] 0 =? 1).
  { destruct ((32 <? m) || (32 <? s)) eqn:Ec; [discriminate|]. apply Some_inj in H. subst b.
    split.
    - cbn [app]. rewrite subnet_view_fam1 by reflexivity. rewrite Ec.
      rewrite (pad_zero_right T), (pad_zero_right (takeN _ _)).
      pose proof (mask_take_idem (pad_right T 4) m) as Hm. rewrite pad_right_length in Hm. now rewrite Hm.
    - cbn [app]. rewrite !lenN_cons. pose proof (lenN_takeN_le (mask_bytes (pad_zero T 4) m) ((m + 7) / 8)). lia. }
  destruct (be [a0; a1] 0 =? 2); [|discriminate].
  destruct ((128 <? m) || (128 <? s)) eqn:Ec; [discriminate|]. apply Some_inj in H. subst b.
  split.
  - cbn [app]. rewrite subnet_view_fam2 by reflexivity. rewrite Ec.
    rewrite (pad_zero_right T), (pad_zero_right (takeN _ _)).
    pose proof (mask_take_idem (pad_right T 16) m) as Hm. rewrite pad_right_length in Hm. now rewrite Hm.
  - cbn [app]. rewrite !lenN_cons. pose proof (lenN_takeN_le (mask_bytes (pad_zero T 16) m) ((m + 7) / 8)). lia.
Qed.

Lemma lenN_firstn_ge {A} (l : list A) n : N.of_nat n <= lenN l -> lenN (firstn n l) = N.of_nat n.
Proof. intro H. unfold lenN in *. rewrite firstn_length. lia. Qed.

Lemma opt_view_idem code data b l :
  wfb data -> opt_view code data = Some (b, l) ->
  opt_view code b = Some (b, l) /\ (lenN b <= lenN data \/ lenN b <= 255).
Proof.
  intros Hw H. pose proof H as H0. unfold opt_view in H |- *.
  destruct (code =? 1) eqn:E1.
  { destruct (lenN data <? 18) eqn:En; [discriminate|]. spi H.
    assert (Hl : lenN (firstn 18 data) = 18) by (apply (lenN_firstn_ge data 18); lia).
    bfalse (lenN (firstn 18 data) <? 18). rewrite firstn_firstn.
    split; [reflexivity|left; lia]. }
  destruct (code =? 2) eqn:E2.
  { destruct (lenN data =? 4) eqn:E4.
    { spi H. rewrite E4. split; [reflexivity|left; lia]. }
    destruct (lenN data =? 8) eqn:E8; [|discriminate].
    destruct (Options.all_zero (skipn 4 data)) eqn:Ez.
    - spi H.
      assert (Hl : lenN (firstn 4 data) = 4) by (apply (lenN_firstn_ge data 4); lia).
      btrue (lenN (firstn 4 data) =? 4). split; [reflexivity|left; lia].
    - spi H. rewrite E4, E8, Ez. split; [reflexivity|left; lia]. }
  destruct (code =? 8) eqn:E8.
  { destruct (subnet_view data) as [b0|] eqn:Es; [|discriminate]. spi H.
    destruct (subnet_view_idem data b0 Es) as [Hi Hl]. rewrite Hi. split; [reflexivity|right; lia]. }
  destruct (code =? 9) eqn:E9.
  { destruct (lenN data =? 0) eqn:Ez.
    { spi H. split; [reflexivity|left; cbn; lia]. }
    destruct (lenN data <? 4) eqn:E4; [discriminate|]. spi H.
    assert (Hl : lenN (firstn 4 data) = 4) by (apply (lenN_firstn_ge data 4); lia).
    bfalse (lenN (firstn 4 data) =? 0). bfalse (lenN (firstn 4 data) <? 4). rewrite firstn_firstn.
    split; [reflexivity|left; lia]. }
  destruct (code =? 11) eqn:E11.
  { destruct (lenN data =? 0) eqn:Ez.
    { spi H. split; [reflexivity|left; cbn; lia]. }
    destruct (lenN data =? 2) eqn:E2'; [|discriminate].
    destruct (Options.all_zero data) eqn:Eaz.
    - spi H. split; [reflexivity|left; cbn; lia].
    - spi H. rewrite Ez, E2', Eaz. split; [reflexivity|left; lia]. }
  destruct (code =? 15) eqn:E15.
  { destruct (lenN data <? 2) eqn:En; [discriminate|]. spi H. rewrite En. split; [reflexivity|left; lia]. }
  destruct (code =? 18) eqn:E18.
  { destruct (unpack_name data 0) as [[name o]| | |] eqn:Eu; try discriminate.
    destruct (pack_name_plain name 255) as [w| | |] eqn:Ep; try discriminate. spi H.
    destruct (unpack_name_accepts_only_valid data 0 (name, o) Hw Eu) as [ls [Hls [En _]]]. cbn [fst] in En. subst name.
    assert (Ew : w = wire_name ls).
    { unfold pack_name_plain in Ep.
      destruct (pack_name (show_name ls) 255 false {| pn_out := []; pn_cm := None |}) as [st| | |] eqn:Epn; try discriminate.
      cbn [bind] in Ep. injection Ep as <-.
      change {| pn_out := []; pn_cm := None |} with (st0 []) in Epn.
      apply pack_name_show in Epn; [|exact Hls]. subst st. reflexivity. }
    subst w. pose proof (unpack_wire_name ls [] Hls) as Hu. rewrite app_nil_r in Hu. rewrite Hu, Ep.
    split; [reflexivity|right]. unfold valid_wire, wire_len in Hls. apply andb_prop in Hls. lia. }
  destruct (code =? 19) eqn:E19.
  { destruct (lenN data <? 2) eqn:En; [discriminate|]. spi H. rewrite En. split; [reflexivity|left; lia]. }
  spi H. split; [reflexivity|left; lia].
Qed.

Lemma unpack_opts_go_canon fuel : forall msg off acc l off',
  wfb msg -> Forall opt_ok acc -> unpack_opts_go fuel msg off acc = Ok (l, off') -> Forall opt_ok l.
Proof.
  induction fuel as [|f IH]; intros msg off acc l off' Hw Ha H; [discriminate|].
  cbn [unpack_opts_go] in H. destruct (off <? lenN msg) eqn:E; [|injection H as <- <-; exact Ha].
  destruct (lenN msg <? off + 4) eqn:E4; [discriminate|].
  set (code := be (take_at msg off 2) 0) in *. set (n := be (take_at msg (off + 2) 2) 0) in *.
  destruct (lenN msg <? off + 4 + n) eqn:E5; [discriminate|].
  destruct (opt_view code (take_at msg (off + 4) n)) as [[b lb]|] eqn:Ev; [|discriminate].
  apply IH in H; [exact H|exact Hw|]. apply Forall_app. split; [exact Ha|]. constructor; [|constructor].
  assert (Hc : code < 65536) by (apply be2_bound; [exact Hw|lia]).
  assert (Hn : n < 65536) by (apply be2_bound; [exact Hw|lia]).
  destruct (opt_view_idem code _ b lb (wfb_take_at msg (off + 4) n Hw) Ev) as [Hi Hl].
  rewrite lenN_take_at in Hl by lia.
  unfold opt_ok, pkey. cbn [fst snd]. split; [exact Hc|]. split; [lia|exact Hi].
Qed.

(* ------------------------------------------------------------------ *)
(* SVCB parameters *)
(* the stable insertion sort of the mandatory key list *)
Fixpoint ndec (l : list N) : Prop :=
  match l with [] => True | x :: r => Forall (fun y => x <= y) r /\ ndec r end.

Lemma ins_n_Forall (P : N -> Prop) x l : P x -> Forall P l -> Forall P (ins_n x l).
Proof.
  intros Hx Hl. induction l as [|y l IH]; cbn [ins_n]; [repeat constructor; exact Hx|].
  pose proof (Forall_inv Hl) as Hy. apply Forall_inv_tail in Hl.
  destruct (y <=? x); constructor; auto.
Qed.
Lemma ins_n_length x l : length (ins_n x l) = S (length l).
Proof. induction l as [|y l IH]; cbn [ins_n]; [reflexivity|]. destruct (y <=? x); cbn [length]; [now rewrite IH|reflexivity]. Qed.
Lemma ins_n_ndec x l : ndec l -> ndec (ins_n x l).
Proof.
  induction l as [|y l IH]; intro H; cbn [ins_n]; [split; [constructor|exact I]|].
  destruct H as [H1 H2]. destruct (y <=? x) eqn:E; cbn [ndec].
  - split; [apply ins_n_Forall; [lia|exact H1]|apply IH, H2].
  - split; [|split; assumption]. constructor; [lia|]. eapply Forall_impl; [|exact H1]. cbn beta. intros; lia.
Qed.
Lemma ins_n_last x l : Forall (fun y => y <= x) l -> ins_n x l = l ++ [x].
Proof.
  induction l as [|y l IH]; intro H; [reflexivity|]. cbn [ins_n].
  pose proof (Forall_inv H) as Hy. cbn beta in Hy. apply Forall_inv_tail in H.
  btrue (y <=? x). rewrite IH by exact H. reflexivity.
Qed.
Lemma fold_ins_Forall (P : N -> Prop) l : forall acc, Forall P l -> Forall P acc ->
  Forall P (fold_left (fun a x => ins_n x a) l acc).
Proof.
  induction l as [|x l IH]; intros acc Hl Ha; cbn [fold_left]; [exact Ha|].
  apply IH; [now apply Forall_inv_tail in Hl|]. apply ins_n_Forall; [now apply Forall_inv in Hl|exact Ha].
Qed.
Lemma fold_ins_length l : forall acc, length (fold_left (fun a x => ins_n x a) l acc) = (length acc + length l)%nat.
Proof. induction l as [|x l IH]; intro acc; cbn [fold_left length]; [lia|]. rewrite IH, ins_n_length. lia. Qed.
Lemma fold_ins_ndec l : forall acc, ndec acc -> ndec (fold_left (fun a x => ins_n x a) l acc).
Proof. induction l as [|x l IH]; intros acc Ha; cbn [fold_left]; [exact Ha|]. apply IH, ins_n_ndec, Ha. Qed.
Lemma fold_ins_sorted l : forall acc, ndec l -> Forall (fun a => Forall (fun y => a <= y) l) acc ->
  fold_left (fun a x => ins_n x a) l acc = acc ++ l.
Proof.
  induction l as [|x l IH]; intros acc Hl Ha; cbn [fold_left]; [now rewrite app_nil_r|].
  destruct Hl as [H1 H2].
  rewrite ins_n_last.
  - rewrite IH; [now rewrite <- app_assoc|exact H2|].
    apply Forall_app. split; [|constructor; [exact H1|constructor]].
    eapply Forall_impl; [|exact Ha]. cbn beta. intros a Hx. now apply Forall_inv_tail in Hx.
  - eapply Forall_impl; [|exact Ha]. cbn beta. intros a Hx. now apply Forall_inv in Hx.
Qed.
Lemma sort_n_idem l : sort_n (sort_n l) = sort_n l.
Proof.
  unfold sort_n at 1. rewrite fold_ins_sorted; [reflexivity| |constructor].
  unfold sort_n. apply fold_ins_ndec. exact I.
Qed.
Lemma sort_n_length l : length (sort_n l) = length l.
Proof. unfold sort_n. now rewrite fold_ins_length. Qed.
Lemma sort_n_Forall (P : N -> Prop) l : Forall P l -> Forall P (sort_n l).
Proof. intro H. unfold sort_n. apply fold_ins_Forall; [exact H|constructor]. Qed.

Lemma pairs16_u16 l : Forall (fun x => x < 65536) l -> pairs16 (flat_map u16 l) = l.
Proof.
  induction 1 as [|x l Hx _ IH]; [reflexivity|]. cbn [flat_map]. unfold u16 at 1. cbn [app pairs16].
  rewrite IH. f_equal. lia.
Qed.
Lemma pairs16_spec d : forall n, (length d <= n)%nat -> wfb d ->
  Forall (fun x => x < 65536) (pairs16 d) /\ (2 * length (pairs16 d) = length d - Nat.modulo (length d) 2)%nat.
Proof.
  intros n; revert d; induction n as [|n IH]; intros d Hn Hw.
  - destruct d; [|cbn in Hn; lia]. split; [constructor|reflexivity].
  - destruct d as [|x [|y r]]; [split; [constructor|reflexivity]|split; [constructor|reflexivity]|].
    cbn [pairs16 length]. inversion Hw as [|? ? Hx Hw1]; subst. inversion Hw1 as [|? ? Hy Hw2]; subst.
    destruct (IH r) as [I1 I2]; [cbn in Hn; lia|exact Hw2|].
    split; [constructor; [lia|exact I1]|].
    replace (S (S (length r))) with (length r + 1 * 2)%nat by lia. rewrite Nat.mod_add by lia. lia.
Qed.
Lemma len_flat_u16 l : lenN (flat_map u16 l) = 2 * lenN l.
Proof. induction l as [|x l IH]; [reflexivity|]. cbn [flat_map]. rewrite lenN_app, lenN_cons, IH. change (lenN (u16 x)) with 2. lia. Qed.

(* [alpn_len_ok]: the decoded alpn value reports the length of its packed form;
   it does not when the wire value holds an empty id (packed form empty) *)
Definition alpn_len_ok (p : N * bytes * N) : Prop := pkey p = 1 -> snd p = lenN (snd (fst p)).

Lemma svcb_view_idem key data b l :
  wfb data -> svcb_view key data = Some (b, l) -> alpn_len_ok (key, b, l) ->
  svcb_view key b = Some (b, l) /\ lenN b <= lenN data.
Proof.
  intros Hw H Halpn. pose proof H as H0. unfold svcb_view in H.
  destruct (key =? 65535) eqn:E65; [discriminate|].
  destruct (key =? 0) eqn:E0.
  { destruct (lenN data mod 2 =? 0) eqn:Em; [|discriminate]. spi H.
    destruct (pairs16_spec data (length data) (le_n _) Hw) as [P1 P2].
    assert (Hlen : lenN (flat_map u16 (sort_n (pairs16 data))) = lenN data).
    { rewrite len_flat_u16. unfold lenN in *. rewrite sort_n_length.
      assert (Nat.modulo (length data) 2 = 0)%nat; [|lia].
      assert (N.of_nat (length data) mod 2 = 0) by lia. lia. }
    split; [|lia]. unfold svcb_view. rewrite E65, E0, Hlen, Em.
    rewrite pairs16_u16 by (apply sort_n_Forall, P1). now rewrite sort_n_idem. }
  destruct (key =? 1) eqn:E1.
  { destruct (alpn_scan (S (length data)) data) as [he|] eqn:Ea; [|discriminate].
    destruct he; [discriminate|]. spi H. split; [exact H0|lia]. }
  destruct (key =? 2) eqn:E2.
  { destruct (lenN data =? 0) eqn:En; [|discriminate]. spi H.
    assert (data = []) by (apply lenN_0; lia). subst data. split; [exact H0|lia]. }
  destruct (key =? 3) eqn:E3.
  { destruct (lenN data =? 2) eqn:En; [|discriminate]. spi H. split; [exact H0|lia]. }
  destruct (key =? 4) eqn:E4.
  { destruct ((lenN data =? 0) || negb (lenN data mod 4 =? 0)); [discriminate|]. spi H. split; [exact H0|lia]. }
  destruct (key =? 6) eqn:E6.
  { destruct ((lenN data =? 0) || negb (lenN data mod 16 =? 0) || chunks16_has_v4 (S (length data)) data); [discriminate|].
    spi H. split; [exact H0|lia]. }
  destruct (key =? 8) eqn:E8.
  { destruct (lenN data =? 0) eqn:En; [|discriminate]. spi H.
    assert (data = []) by (apply lenN_0; lia). subst data. split; [exact H0|lia]. }
  spi H. split; [exact H0|lia].
Qed.

Lemma unpack_svcb_go_canon fuel : forall msg off last acc l off',
  wfb msg -> Forall svcb_ok acc -> sorted_from 0 (map pkey acc) ->
  Forall (fun p => (Z.of_N (pkey p) <= last)%Z) acc ->
  unpack_svcb_go fuel msg off last acc = Ok (l, off') -> Forall alpn_len_ok l ->
  Forall svcb_ok l /\ sorted_from 0 (map pkey l).
Proof.
  induction fuel as [|f IH]; intros msg off last acc l off' Hw Ha Hs Hb H Hal; [discriminate|].
  cbn [unpack_svcb_go] in H. destruct (off <? lenN msg) eqn:E.
  2:{ apply Ok_pair_inj in H. destruct H as [<- <-]. split; assumption. }
  destruct (lenN msg <? off + 2) eqn:E2; [discriminate|].
  destruct (lenN msg <? off + 2 + 2) eqn:E3; [discriminate|].
  set (code := be (take_at msg off 2) 0) in *. set (n := be (take_at msg (off + 2) 2) 0) in *.
  destruct (lenN msg <? off + 2 + 2 + n) eqn:E4; [discriminate|].
  destruct (svcb_view code (take_at msg (off + 2 + 2) n)) as [[b lb]|] eqn:Ev; [|discriminate].
  destruct (Z.of_N code <=? last)%Z eqn:Ez; [discriminate|].
  assert (Hin : forall p, In p (acc ++ [(code, b, lb)]) -> In p l).
  { clear - H. revert H. generalize (acc ++ [(code, b, lb)]) as a0, (off + 2 + 2 + n) as o0, (Z.of_N code) as z0.
    clear. revert msg l off'. induction f as [|f IHf]; intros msg l off' a0 o0 z0 H p Hp; [discriminate|].
    cbn [unpack_svcb_go] in H. destruct (o0 <? lenN msg).
    - destruct (lenN msg <? o0 + 2); [discriminate|]. destruct (lenN msg <? o0 + 2 + 2); [discriminate|].
      destruct (lenN msg <? _); [discriminate|]. destruct (svcb_view _ _) as [[b' l']|]; [|discriminate].
      destruct (_ <=? z0)%Z; [discriminate|]. eapply IHf; [exact H|]. apply in_app_iff. now left.
    - apply Ok_pair_inj in H. destruct H as [<- <-]. exact Hp. }
  assert (Hc : code < 65536) by (apply be2_bound; [exact Hw|lia]).
  assert (Hn : n < 65536) by (apply be2_bound; [exact Hw|lia]).
  assert (Hthis : alpn_len_ok (code, b, lb)).
  { rewrite Forall_forall in Hal. apply Hal, Hin, in_app_iff. right. now left. }
  destruct (svcb_view_idem code _ b lb (wfb_take_at msg (off + 2 + 2) n Hw) Ev Hthis) as [Hi Hl].
  rewrite lenN_take_at in Hl by lia.
  apply IH in H; [exact H|exact Hw| | | |exact Hal].
  - apply Forall_app. split; [exact Ha|]. constructor; [|constructor].
    unfold svcb_ok, pkey. cbn [fst snd]. split; [exact Hc|]. split; [lia|exact Hi].
  - rewrite map_app. cbn [map]. apply (sorted_from_app _ _ code); [lia|exact Hs| |cbn; unfold pkey; cbn; lia].
    rewrite Forall_forall in *. intros k Hk. apply in_map_iff in Hk. destruct Hk as [p [<- Hp]].
    specialize (Hb p Hp). cbn beta in Hb. lia.
  - apply Forall_app. split; [|constructor; [unfold pkey; cbn; lia|constructor]].
    eapply Forall_impl; [|exact Hb]. cbn beta. intros; lia.
Qed.

(* ------------------------------------------------------------------ *)
(* APL: the decoded address has the family's length and a prefix in range; it
   is canonical when it has no bits beyond the prefix *)
Definition apl_masked (p : bool * N * bytes) : Prop := let '(_, prefix, ip) := p in mask_bytes ip prefix = ip.

Lemma unpack_apl_prefix_shape msg off p off' :
  unpack_apl_prefix msg off = Ok (p, off') ->
  let '(_, prefix, ip) := p in (lenN ip = 4 \/ lenN ip = 16) /\ prefix <= 8 * lenN ip.
Proof.
  unfold unpack_apl_prefix. intro H.
  destruct (lenN msg <? off + 2); [discriminate|]. destruct (lenN msg <? off + 2 + 1); [discriminate|].
  destruct (lenN msg <? off + 2 + 1 + 1); [discriminate|].
  set (fam := be (take_at msg off 2) 0) in *.
  assert (Hil : exists il, (if fam =? 1 then Some 4 else if fam =? 2 then Some 16 else None) = Some il /\ (il = 4 \/ il = 16)).
  { destruct (fam =? 1); [exists 4; auto|]. destruct (fam =? 2); [exists 16; auto|]. discriminate. }
  destruct Hil as [il [Eil Hil]]. rewrite Eil in H.
  destruct (8 * il <? nthN msg (off + 2) 0) eqn:E8; [discriminate|].
  destruct (il <? _); [discriminate|]. destruct (lenN msg <? _); [discriminate|].
  destruct (_ && _); [discriminate|]. apply Ok_pair_inj in H. destruct H as [<- _].
  assert (Hl : lenN (pad_right (take_at msg (off + 2 + 1 + 1) (nthN msg (off + 2 + 1) 0 mod 128)) (N.to_nat il)) = il).
  { unfold lenN. rewrite pad_right_length. lia. }
  rewrite Hl. split; [exact Hil|lia].
Qed.

Lemma unpack_apl_prefix_canon msg off p off' :
  unpack_apl_prefix msg off = Ok (p, off') -> apl_masked p -> apl_ok p.
Proof.
  intros H Hm. apply unpack_apl_prefix_shape in H. destruct p as [[neg prefix] ip]. destruct H as [H1 H2].
  apply masked_apl_ok; assumption.
Qed.

(* ------------------------------------------------------------------ *)
(* the repeat-until-exhausted decoders: every item satisfies what one step guarantees *)
Lemma loop_forall {A} (step : bytes -> N -> res (A * N)) (msg : bytes) (P : A -> Prop) :
  (forall off a o, step msg off = Ok (a, o) -> P a) ->
  forall fuel off acc l off', Forall P acc -> loop step msg fuel off acc = Ok (l, off') -> Forall P l.
Proof.
  intros Hstep. induction fuel as [|f IH]; intros off acc l off' Ha H; [discriminate|].
  cbn [loop] in H. destruct (off <? lenN msg).
  - destruct (step msg off) as [[a o]| | |] eqn:Es; try discriminate. cbn [bind fst snd] in H.
    apply IH in H; [exact H|]. apply Forall_app. split; [exact Ha|]. constructor; [|constructor]. eapply Hstep, Es.
  - apply Ok_pair_inj in H. destruct H as [<- _]. exact Ha.
Qed.

(* the items the loop returns are exactly the accepted items (used with a
   condition on the result list) *)
Lemma loop_acc_in {A} (step : bytes -> N -> res (A * N)) (msg : bytes) :
  forall fuel off acc l off', loop step msg fuel off acc = Ok (l, off') -> forall a, In a acc -> In a l.
Proof.
  induction fuel as [|f IH]; intros off acc l off' H a Ha; [discriminate|].
  cbn [loop] in H. destruct (off <? lenN msg).
  - destruct (step msg off) as [[a1 o]| | |] eqn:Es; try discriminate. cbn [bind fst snd] in H.
    eapply IH; [exact H|]. apply in_app_iff. now left.
  - apply Ok_pair_inj in H. destruct H as [<- _]. exact Ha.
Qed.
Lemma loop_forall_cond {A} (step : bytes -> N -> res (A * N)) (msg : bytes) (P Q : A -> Prop) :
  (forall off a o, step msg off = Ok (a, o) -> Q a -> P a) ->
  forall fuel off acc l off', Forall P acc -> loop step msg fuel off acc = Ok (l, off') -> Forall Q l -> Forall P l.
Proof.
  intros Hstep. induction fuel as [|f IH]; intros off acc l off' Ha H HQ; [discriminate|].
  cbn [loop] in H. destruct (off <? lenN msg).
  - destruct (step msg off) as [[a o]| | |] eqn:Es; try discriminate. cbn [bind fst snd] in H.
    pose proof (loop_acc_in step msg f o (acc ++ [a]) l off' H a) as Hin.
    apply IH in H; [exact H| |exact HQ]. apply Forall_app. split; [exact Ha|]. constructor; [|constructor].
    eapply Hstep; [exact Es|]. rewrite Forall_forall in HQ. apply HQ, Hin, in_app_iff. right. now left.
  - apply Ok_pair_inj in H. destruct H as [<- _]. exact Ha.
Qed.

Lemma Forall_exists_map {A B} (f : B -> A) (P : B -> Prop) (l : list A) :
  Forall (fun a => exists b, a = f b /\ P b) l -> exists bs, l = map f bs /\ Forall P bs.
Proof.
  induction 1 as [|a l [b [-> Hb]] _ [bs [-> Hbs]]]; [exists []; split; [reflexivity|constructor]|].
  exists (b :: bs). split; [reflexivity|constructor; assumption].
Qed.

Lemma unpack_string_canon msg off s off' : wfb msg ->
  unpack_string msg off = Ok (s, off') -> exists d, s = show_txt d /\ str_ok d.
Proof.
  intros Hw H. unfold unpack_string in H.
  destruct (lenN msg <? off + 1) eqn:E1; [discriminate|].
  destruct (lenN msg <? off + 1 + nthN msg off 0) eqn:E2; [discriminate|].
  apply Ok_pair_inj in H. destruct H as [<- _]. eexists. split; [reflexivity|].
  split; [apply wfb_take_at, Hw|]. rewrite lenN_take_at by lia.
  pose proof (nthN_wfb msg off Hw ltac:(lia)). lia.
Qed.

Lemma unpack_name_canon msg off s off' : wfb msg ->
  unpack_name msg off = Ok (s, off') -> exists ls, s = show_name ls /\ valid_wire ls = true.
Proof.
  intros Hw H. destruct (unpack_name_accepts_only_valid msg off (s, off') Hw H) as [ls [Hls [E _]]].
  exists ls. split; [exact E|exact Hls].
Qed.

(* ------------------------------------------------------------------ *)
(* one statement: what unpack_field returns is canonical for the agreeing pack
   kind.  Two kinds need a condition on the decoded value ([value_ok]): an APL
   address must have no bits beyond its prefix, an SVCB alpn value must report
   the length of its packed form (no empty id); see the refutations below. *)
Definition value_ok (k : fkind) (x : fval) : Prop :=
  match k, x with
  | K_apl, V_apl l => Forall apl_masked l
  | K_svcb, V_pairs l => Forall alpn_len_ok l
  | _, _ => True
  end.

Lemma unpack_fixed_inv n msg off a o : unpack_fixed n msg off = Ok (a, o) ->
  off + n <= lenN msg /\ a = take_at msg off n /\ o = off + n.
Proof.
  unfold unpack_fixed. destruct (lenN msg <? off + n) eqn:E; [discriminate|]. intro H.
  apply Ok_pair_inj in H. destruct H as [<- <-]. repeat split. lia.
Qed.

Lemma be_take_bound msg off n : wfb msg -> off + n <= lenN msg -> be (take_at msg off n) 0 < 256 ^ n.
Proof.
  intros Hw H. pose proof (be_bound (take_at msg off n) (wfb_take_at msg off n Hw)) as Hb.
  now rewrite lenN_take_at in Hb by lia.
Qed.

Ltac one_inv H Ed :=
  cbn [unpack_field] in H; cbv zeta in H;
  match type of H with
  | bind (bind ?r _) _ = _ => destruct r as [[?a ?o]| | |] eqn:Ed; try discriminate H
  end;
  cbn [bind fst snd] in H; apply Ok_pair_inj in H; destruct H as [<- <-].

Ltac f2_inv HF :=
  cbn [knames] in HF; inversion HF as [|? ? ? ? Hv HF']; subst; inversion HF'; subst; clear HF HF'.

Ltac num_canon H HF Hw w :=
  let Ed := fresh "Ed" in
  one_inv H Ed; apply unpack_fixed_inv in Ed; destruct Ed as [Hr [-> ->]];
  f2_inv HF; eexists; split; [eassumption|]; eexists; split; [reflexivity|];
  exact (be_take_bound _ _ w Hw Hr).

Lemma enc_canon got e msg off a o v :
  unpack_to_end msg off (end_of e got msg off) = Ok (a, o) ->
  (forall s, fend_sized e = Some s -> vget_n v s = vget_n got s) ->
  size_agrees v e a.
Proof.
  unfold unpack_to_end. intros H Hdep.
  destruct (lenN msg <? _) eqn:E1; [discriminate|]. destruct (_ <? off) eqn:E2; [discriminate|].
  apply Ok_pair_inj in H. destruct H as [<- _].
  destruct e as [|s]; cbn [size_agrees end_of] in *; [exact I|].
  rewrite (Hdep s eq_refl). rewrite lenN_take_at by lia. lia.
Qed.

Lemma unpack_field_canon got k k' msg off vals off' :
  wfb msg -> off <= lenN msg -> kind_agree k k' = true ->
  unpack_field got k' msg off = Ok (vals, off') ->
  Forall (value_ok k) vals ->
  forall v f, Forall2 (fun g y => vget v g = Some y) (knames f k) vals ->
    names_distinct (knames f k) = true ->
    (forall s, depends_on k = Some s -> vget_n v s = vget_n got s) ->
    field_canon v f k.
Proof.
  intros Hw Hoff Ha H Hval v f HF Hnd Hdep.
  destruct k; destruct k'; cbn [kind_agree] in Ha; try discriminate Ha; cbn [field_canon canon].
  - num_canon H HF Hw 1.
  - num_canon H HF Hw 2.
  - num_canon H HF Hw 4.
  - num_canon H HF Hw 6.
  - num_canon H HF Hw 8.
  - (* name *)
    one_inv H Ed. f2_inv HF. eexists. split; [eassumption|].
    destruct (unpack_name_canon msg off a o Hw Ed) as [ls [-> Hls]]. exists ls. split; [reflexivity|exact Hls].
  - (* character-string *)
    one_inv H Ed. f2_inv HF. eexists. split; [eassumption|].
    destruct (unpack_string_canon msg off a o Hw Ed) as [d [-> Hd]]. exists d. split; [reflexivity|exact Hd].
  - (* []string *)
    cbn [unpack_field] in H. cbv zeta in H.
    destruct (unpack_txt msg off) as [[a o]| | |] eqn:Ed; try discriminate H.
    cbn [bind fst snd] in H. apply Ok_pair_inj in H. destruct H as [<- <-].
    f2_inv HF. eexists. split; [eassumption|].
    unfold unpack_txt in Ed. rewrite unpack_txts_is_loop in Ed.
    apply (loop_forall unpack_string msg (fun s => exists d, s = show_txt d /\ str_ok d)) in Ed;
      [|intros ? ? ?; apply unpack_string_canon, Hw|constructor].
    apply Forall_exists_map in Ed. destruct Ed as [ds [-> Hds]]. exists ds. split; [reflexivity|exact Hds].
  - (* octet string *)
    cbn [unpack_field] in H. cbv zeta in H. destruct (lenN msg <? off); [discriminate|].
    cbn [bind fst snd] in H. apply Ok_pair_inj in H. destruct H as [<- <-].
    f2_inv HF. eexists. split; [eassumption|]. exists (dropN off msg). reflexivity.
  - (* any *)
    one_inv H Ed. f2_inv HF. eexists. split; [eassumption|]. eexists. reflexivity.
  - (* hex *)
    apply fend_eqb_eq in Ha. subst e0.
    one_inv H Ed. f2_inv HF. eexists. split; [eassumption|]. eexists. split; [reflexivity|].
    eapply enc_canon; [exact Ed|]. intros s Es. apply Hdep. cbn [depends_on sized_by]. exact Es.
  - (* hexdash / hex *)
    apply fend_eqb_eq in Ha. subst e0.
    one_inv H Ed. f2_inv HF. eexists. split; [eassumption|]. eexists. split; [reflexivity|].
    eapply enc_canon; [exact Ed|]. intros s Es. apply Hdep. cbn [depends_on sized_by]. exact Es.
  - (* b64 *)
    apply fend_eqb_eq in Ha. subst e0.
    one_inv H Ed. f2_inv HF. eexists. split; [eassumption|]. eexists. split; [reflexivity|].
    eapply enc_canon; [exact Ed|]. intros s Es. apply Hdep. cbn [depends_on sized_by]. exact Es.
  - (* b32 *)
    apply fend_eqb_eq in Ha. subst e0.
    one_inv H Ed. f2_inv HF. eexists. split; [eassumption|]. eexists. split; [reflexivity|].
    eapply enc_canon; [exact Ed|]. intros s Es. apply Hdep. cbn [depends_on sized_by]. exact Es.
  - (* A *)
    one_inv H Ed. apply unpack_fixed_inv in Ed. destruct Ed as [Hr [-> ->]].
    f2_inv HF. eexists. split; [eassumption|]. eexists. split; [reflexivity|]. apply lenN_take_at. lia.
  - (* AAAA *)
    one_inv H Ed. apply unpack_fixed_inv in Ed. destruct Ed as [Hr [-> ->]].
    f2_inv HF. eexists. split; [eassumption|]. eexists. split; [reflexivity|]. apply lenN_take_at. lia.
  - (* type bitmap *)
    one_inv H Ed. f2_inv HF. eexists. split; [eassumption|]. eexists. split; [reflexivity|].
    eapply unpack_nsec_canon; [exact Hw|exact Ed].
  - (* EDNS0 options *)
    one_inv H Ed. f2_inv HF. eexists. split; [eassumption|]. eexists. split; [reflexivity|].
    unfold unpack_opts in Ed. eapply unpack_opts_go_canon; [exact Hw| |exact Ed]. constructor.
  - (* SVCB parameters *)
    one_inv H Ed. apply Forall_inv in Hval. cbn [value_ok] in Hval.
    f2_inv HF. eexists. split; [eassumption|]. eexists. split; [reflexivity|].
    unfold unpack_svcb in Ed.
    eapply unpack_svcb_go_canon; [exact Hw| | | |exact Ed|exact Hval]; [constructor|exact I|constructor].
  - (* APL *)
    one_inv H Ed. apply Forall_inv in Hval. cbn [value_ok] in Hval.
    f2_inv HF. eexists. split; [eassumption|]. eexists. split; [reflexivity|].
    unfold unpack_apl in Ed. rewrite unpack_apl_is_loop in Ed.
    eapply (loop_forall_cond unpack_apl_prefix msg apl_ok apl_masked); [|constructor|exact Ed|exact Hval].
    intros ? ? ?. apply unpack_apl_prefix_canon.
  - (* list of names *)
    one_inv H Ed. f2_inv HF. eexists. split; [eassumption|].
    unfold unpack_names in Ed. rewrite unpack_names_is_loop in Ed.
    apply (loop_forall unpack_name msg (fun s => exists ls, s = show_name ls /\ valid_wire ls = true)) in Ed;
      [|intros ? ? ?; apply unpack_name_canon, Hw|constructor].
    apply Forall_exists_map in Ed. destruct Ed as [lss [-> Hl]]. exists lss. split; [reflexivity|exact Hl].
  - (* the gateway union *)
    repeat (apply andb_prop in Ha; destruct Ha as [Ha ?]).
    repeat match goal with H : String.eqb _ _ = true |- _ => apply String.eqb_eq in H end.
    match goal with H : (_ =? _) = true |- _ => apply N.eqb_eq in H end. subst.
    cbn [knames names_distinct] in *.
    split. { intro E. subst. rewrite String.eqb_refl in Hnd. discriminate. }
    rewrite (Hdep _ eq_refl). cbn [unpack_field] in H.
    destruct (N.land (vget_n got tyf0) mask0 =? gw_v4) eqn:E4.
    { destruct (unpack_fixed 4 msg off) as [[a o]| | |] eqn:Ed; try discriminate H.
      cbn [bind fst snd] in H. apply Ok_pair_inj in H. destruct H as [<- <-].
      apply unpack_fixed_inv in Ed. destruct Ed as [Hr [-> ->]].
      inversion HF as [|? ? ? ? Hv1 HF1]; subst. inversion HF1 as [|? ? ? ? Hv2 HF2]; subst.
      eexists. eexists. split; [exact Hv1|]. split; [exact Hv2|]. left.
      split; [lia|]. split; [apply lenN_take_at; lia|reflexivity]. }
    destruct (N.land (vget_n got tyf0) mask0 =? gw_v6) eqn:E6.
    { destruct (unpack_fixed 16 msg off) as [[a o]| | |] eqn:Ed; try discriminate H.
      cbn [bind fst snd] in H. apply Ok_pair_inj in H. destruct H as [<- <-].
      apply unpack_fixed_inv in Ed. destruct Ed as [Hr [-> ->]].
      inversion HF as [|? ? ? ? Hv1 HF1]; subst. inversion HF1 as [|? ? ? ? Hv2 HF2]; subst.
      eexists. eexists. split; [exact Hv1|]. split; [exact Hv2|]. right. left.
      split; [lia|]. split; [apply lenN_take_at; lia|reflexivity]. }
    destruct (N.land (vget_n got tyf0) mask0 =? gw_host) eqn:Eh.
    { destruct (unpack_name msg off) as [[a o]| | |] eqn:Ed; try discriminate H.
      cbn [bind fst snd] in H. apply Ok_pair_inj in H. destruct H as [<- <-].
      destruct (unpack_name_canon msg off a o Hw Ed) as [ls [-> Hls]].
      inversion HF as [|? ? ? ? Hv1 HF1]; subst. inversion HF1 as [|? ? ? ? Hv2 HF2]; subst.
      eexists. eexists. split; [exact Hv1|]. split; [exact Hv2|]. right. right. left.
      split; [lia|]. split; [reflexivity|]. exists ls. split; [reflexivity|exact Hls]. }
    apply Ok_pair_inj in H. destruct H as [<- <-].
    inversion HF as [|? ? ? ? Hv1 HF1]; subst. inversion HF1 as [|? ? ? ? Hv2 HF2]; subst.
    eexists. eexists. split; [exact Hv1|]. split; [exact Hv2|]. right. right. right.
    repeat split; lia.
Qed.

(* ------------------------------------------------------------------ *)
(* field sequences *)
Definition present (ps : list pfield) (v : rdata) : Prop :=
  Forall (fun fk : pfield => Forall (fun g => vget v g <> None) (knames (fst fk) (snd fk))) ps.
Definition values_ok (v : rdata) (ps : list pfield) : Prop :=
  Forall (fun fk : pfield => forall x, vget v (fst fk) = Some x -> value_ok (snd fk) x) ps.

Lemma unpack_field_arity got k k' msg off vals o f :
  kind_agree k k' = true -> unpack_field got k' msg off = Ok (vals, o) -> length vals = length (knames f k).
Proof.
  intros Ha H.
  assert (Hone : forall (r : res (fval * N)), bind r (fun p => Ok ([fst p], snd p)) = Ok (vals, o) -> length vals = 1%nat).
  { intros r Hr. destruct r as [[x o1]| | |]; try discriminate. cbn in Hr. apply Ok_pair_inj in Hr. destruct Hr as [<- _]. reflexivity. }
  destruct k; destruct k'; cbn [kind_agree] in Ha; try discriminate Ha; cbn [knames length];
    try (cbn [unpack_field] in H; cbv zeta in H; eapply Hone; exact H).
  cbn [unpack_field] in H.
  destruct (_ =? gw_v4).
  { destruct (unpack_fixed 4 msg off) as [[a o1]| | |]; try discriminate. cbn in H. apply Ok_pair_inj in H. destruct H as [<- _]. reflexivity. }
  destruct (_ =? gw_v6).
  { destruct (unpack_fixed 16 msg off) as [[a o1]| | |]; try discriminate. cbn in H. apply Ok_pair_inj in H. destruct H as [<- _]. reflexivity. }
  destruct (_ =? gw_host).
  { destruct (unpack_name msg off) as [[a o1]| | |]; try discriminate. cbn in H. apply Ok_pair_inj in H. destruct H as [<- _]. reflexivity. }
  apply Ok_pair_inj in H. destruct H as [<- _]. reflexivity.
Qed.

Lemma vget_cons_other (C : rdata) g y0 ns vs :
  Forall2 (fun h y => vget C h = Some y) ns vs -> (forall h, In h ns -> h <> g) ->
  Forall2 (fun h y => vget ((g, y0) :: C) h = Some y) ns vs.
Proof.
  induction 1 as [|h y ns vs Hh _ IH]; intro Hall; constructor.
  - cbn. destruct (String.eqb_spec h g) as [E|_]; [exfalso; apply (Hall h (or_introl eq_refl) E)|exact Hh].
  - apply IH. intros h' Hh'. apply Hall. now right.
Qed.

Lemma vget_combine names : forall vals, NoDup names -> length vals = length names ->
  Forall2 (fun g y => vget (combine names vals) g = Some y) names vals.
Proof.
  induction names as [|g names IH]; intros vals Hnd Hl; destruct vals as [|y vals]; try discriminate Hl; [constructor|].
  inversion Hnd as [|? ? Hng Hnd']; subst. cbn [combine]. constructor.
  - cbn. now rewrite String.eqb_refl.
  - apply vget_cons_other; [apply IH; [exact Hnd'|cbn in Hl; lia]|].
    intros h Hh E. subst. contradiction.
Qed.

Lemma forall2_in_some (C : rdata) ns vs g :
  Forall2 (fun h y => vget C h = Some y) ns vs -> In g ns -> vget C g <> None.
Proof. induction 1 as [|h y ns vs Hh _ IH]; intro Hg; [destruct Hg|]. destruct Hg as [<-|Hg]; [congruence|now apply IH]. Qed.
Lemma forall2_extend (got C ext : rdata) ns vs :
  Forall2 (fun h y => vget C h = Some y) ns vs -> (forall g, In g ns -> vget got g = None) ->
  Forall2 (fun h y => vget ((got ++ C) ++ ext) h = Some y) ns vs.
Proof.
  induction 1 as [|h y ns vs Hh _ IH]; intro Hsub; constructor.
  - rewrite !vget_app, (Hsub h (or_introl eq_refl)), Hh. reflexivity.
  - apply IH. intros g Hg. apply Hsub. now right.
Qed.

Lemma vget_some_in (l : rdata) g : vget l g <> None -> In g (map fst l).
Proof.
  induction l as [|[h y] l IH]; cbn; [congruence|].
  destruct (String.eqb_spec g h); [left; congruence|]. intro H. right. now apply IH.
Qed.
Lemma combine_keys {A B} (a : list A) : forall (b : list B), forall x, In x (map fst (combine a b)) -> In x a.
Proof.
  induction a as [|y a IH]; intros b x H; [destruct H|]. destruct b as [|z b]; [destruct H|].
  cbn in H. destruct H as [<-|H]; [now left|right; eapply IH; exact H].
Qed.

Lemma knames_nonempty f k : exists g, In g (knames f k).
Proof. destruct k; cbn [knames]; eexists; left; reflexivity. Qed.

Lemma value_ok_vals k vals f (v : rdata) :
  length vals = length (knames f k) ->
  Forall2 (fun g y => vget v g = Some y) (knames f k) vals ->
  (forall x, vget v f = Some x -> value_ok k x) -> Forall (value_ok k) vals.
Proof.
  intros Hl HF Hv.
  destruct k; try (apply Forall_forall; intros; exact I);
    cbn [knames] in HF; inversion HF as [|? ? ? ? Hx HF']; subst; inversion HF'; subst;
    constructor; [|constructor| |constructor]; apply Hv, Hx.
Qed.

Definition keys_are (seen : list string) (got : rdata) : Prop := forall g, In g seen <-> vget got g <> None.

Lemma unpack_fields_canon ps : forall us seen got msg off gotF off',
  wfb msg -> sides_agree ps us = true -> layout_ok seen ps = true -> off <= lenN msg ->
  keys_are seen got ->
  unpack_fields us got msg off = Ok (gotF, off') ->
  present ps gotF -> values_ok gotF ps ->
  (exists ext, gotF = got ++ ext) /\ fields_canon gotF ps.
Proof.
  induction ps as [|[f k] ps IH]; intros us seen got msg off gotF off' Hw Hs Hl Hoff Hkeys Hun Hpres Hval.
  - destruct us; [|discriminate]. cbn in Hun. apply Ok_pair_inj in Hun. destruct Hun as [<- _].
    split; [exists []; now rewrite app_nil_r|constructor].
  - destruct us as [|u us]; [discriminate|]. cbn [sides_agree] in Hs.
    apply andb_prop in Hs. destruct Hs as [Hs Hs']. apply andb_prop in Hs. destruct Hs as [Hname Hk].
    apply String.eqb_eq in Hname.
    cbn [layout_ok] in Hl. apply andb_prop in Hl. destruct Hl as [Hl Hl'].
    apply andb_prop in Hl. destruct Hl as [Hl Hlast]. apply andb_prop in Hl. destruct Hl as [Hl Hsz].
    apply andb_prop in Hl. destruct Hl as [Hfresh Hdist].
    set (names := knames f k) in *.
    assert (Hnf : forall g, In g names -> ~ In g seen).
    { intros g Hg. rewrite forallb_forall in Hfresh. specialize (Hfresh g Hg).
      apply existsb_eqb_notin. now destruct (existsb _ seen). }
    assert (Hnd : NoDup names) by (apply names_distinct_nodup, Hdist).
    cbn [unpack_fields] in Hun.
    destruct (unpack_field got (uf_kind u) msg off) as [[vals o]| | |] eqn:Eu; try discriminate.
    cbn [bind fst snd] in Hun. rewrite (assigned_knames u f k Hk Hname) in Hun. fold names in Hun.
    pose proof (unpack_field_arity got k (uf_kind u) msg off vals o f Hk Eu) as Har. fold names in Har.
    pose proof (unpack_field_safe got (uf_kind u) msg off Hw Hoff) as Hsafe. rewrite Eu in Hsafe. cbn in Hsafe.
    set (got' := got ++ combine names vals) in *.
    assert (Hkeys' : keys_are (names ++ seen) got').
    { intro g. unfold got'. rewrite vget_app, in_app_iff. split.
      - intros [Hg|Hg].
        + assert (vget got g = None).
          { destruct (vget got g) eqn:Eg; [|reflexivity]. exfalso. apply (Hnf g Hg), Hkeys. congruence. }
          rewrite H. exact (forall2_in_some _ _ _ g (vget_combine names vals Hnd Har) Hg).
        + apply Hkeys in Hg. destruct (vget got g); congruence.
      - destruct (vget got g) eqn:Eg; [intros _; right; apply Hkeys; congruence|].
        intro Hc. left. apply vget_some_in, combine_keys in Hc. exact Hc. }
    assert (Hfin : forall ext, gotF = got' ++ ext -> fields_canon gotF ps -> 
                   (exists ext0, gotF = got ++ ext0) /\ fields_canon gotF ((f, k) :: ps)).
    { intros ext -> Hc. split; [exists (combine names vals ++ ext); unfold got'; now rewrite app_assoc|].
      constructor; [|exact Hc]. cbn [fst snd].
      assert (HF : Forall2 (fun g y => vget (got' ++ ext) g = Some y) names vals).
      { unfold got'. apply forall2_extend; [exact (vget_combine names vals Hnd Har)|].
        intros g Hg. destruct (vget got g) eqn:Eg; [|reflexivity]. exfalso. apply (Hnf g Hg), Hkeys. congruence. }
      apply (unpack_field_canon got k (uf_kind u) msg off vals o Hw Hoff Hk Eu); [|exact HF|exact Hdist|].
      - apply (value_ok_vals k vals f (got' ++ ext)); [exact Har|exact HF|].
        apply Forall_inv in Hval. exact Hval.
      - intros s Es. rewrite Es in Hsz. apply existsb_eqb_in in Hsz. apply Hkeys in Hsz.
        unfold vget_n, got'. rewrite !vget_app. destruct (vget got s); [reflexivity|congruence]. }
    destruct (uf_exit u && (o =? lenN msg)) eqn:Hex.
    + apply Ok_pair_inj in Hun. destruct Hun as [<- _].
      assert (ps = []).
      { destruct ps as [|[f' k'] ps']; [reflexivity|]. exfalso.
        pose proof (Forall_inv (Forall_inv_tail Hpres)) as Hp. cbn [fst snd] in Hp.
        destruct (knames_nonempty f' k') as [g Hg]. rewrite Forall_forall in Hp. apply (Hp g Hg).
        destruct (vget got' g) eqn:Eg; [|reflexivity]. exfalso.
        apply (layout_ok_fresh _ _ f' k' g Hl' (or_introl eq_refl) Hg). apply Hkeys'. congruence. }
      subst ps. apply (Hfin []); [now rewrite app_nil_r|constructor].
    + destruct (IH us (names ++ seen) got' msg o gotF off') as [[ext Hext] Hc]; try assumption; try lia.
      * now apply Forall_inv_tail in Hpres.
      * now apply Forall_inv_tail in Hval.
      * apply (Hfin ext); assumption.
Qed.

(* what a generated unpack() returns is canonical, from an empty record *)
Theorem unpack_fields_canon_top ps us msg off gotF off' :
  wfb msg -> sides_agree ps us = true -> layout_ok [] ps = true -> off <= lenN msg ->
  unpack_fields us [] msg off = Ok (gotF, off') ->
  present ps gotF -> values_ok gotF ps -> fields_canon gotF ps.
Proof.
  intros Hw Hs Hl Hoff Hun Hp Hv.
  destruct (unpack_fields_canon ps us [] [] msg off gotF off') as [_ H]; try assumption.
  intro g. cbn. split; [intros []|congruence].
Qed.

(* unpack (pack (unpack w)) = unpack w, field by field *)
Theorem fields_reunpack ps us msg off gotF off' cap pre out st' :
  wfb msg -> sides_agree ps us = true -> layout_ok [] ps = true -> off <= lenN msg ->
  unpack_fields us [] msg off = Ok (gotF, off') ->
  present ps gotF -> values_ok gotF ps ->
  pack_fields gotF ps cap (st0 out) = Ok st' ->
  exists b got', st' = st0 (out ++ b) /\
    unpack_fields us [] (pre ++ b) (lenN pre) = Ok (got', lenN pre + lenN b) /\
    all_same ps got' gotF.
Proof.
  intros Hw Hs Hl Hoff Hun Hp Hv Hpack.
  pose proof (unpack_fields_canon_top ps us msg off gotF off' Hw Hs Hl Hoff Hun Hp Hv) as Hc.
  destruct (fields_roundtrip_top gotF cap ps us pre out st' Hs Hl Hc Hpack) as [b [got' [H1 [H2 [_ H3]]]]].
  exists b, got'. auto.
Qed.

(* ------------------------------------------------------------------ *)
(* records: what UnpackRR returns (with a non-empty RDATA that ran through all
   statements of the layout) meets the hypotheses of the record round-trip theorem *)
Lemma layout_ok_of L k : find_layout layouts k = Some L -> layout_ok [] (tl_pack L) = true.
Proof.
  intro Hfind. pose proof all_layouts_supported as H. rewrite forallb_forall in H.
  apply H. eapply find_layout_in; eauto.
Qed.
Lemma sides_agree_of L k : find_layout layouts k = Some L -> sides_agree (tl_pack L) (tl_unpack L) = true.
Proof.
  intro Hfind. pose proof pack_unpack_sides_agree as H. rewrite forallb_forall in H.
  apply H. eapply find_layout_in; eauto.
Qed.

Lemma unpack_rr_canon msg off r off' L :
  wfb msg -> unpack_rr msg off = Ok (r, off') ->
  find_layout layouts (rr_kind r) = Some L -> rr_rdlength r <> 0 ->
  present (tl_pack L) (rr_data r) -> values_ok (rr_data r) (tl_pack L) ->
  exists ls, rr_ok r ls /\ fields_canon (rr_data r) (tl_pack L).
Proof.
  intros Hw H Hfind Hrdl Hpres Hval.
  unfold unpack_rr in H. inv_bind H. destruct a as [[hd off1] tmsg].
  unfold unpack_rr_header in Ha.
  destruct (off =? lenN msg) eqn:E0.
  { apply Ok_pair_inj in Ha. destruct Ha as [Ha <-].
    assert (Ea1 : hd = fst (hd, off1)) by reflexivity. rewrite <- Ha in Ea1. cbn [fst] in Ea1. subst hd.
    unfold unpack_rr_with_header in H. cbn [h_rdlength h_type h_name h_class h_ttl] in H.
    destruct (lenN msg <? off1); [discriminate|]. destruct (lenN msg <? off1 + 0); [discriminate|].
    cbn [N.eqb] in H. apply Ok_pair_inj in H. destruct H as [<- _]. cbn in Hrdl. congruence. }
  destruct (unpack_name msg off) as [[nm o1]| | |] eqn:En; try discriminate. cbn [bind fst snd] in Ha.
  destruct (unpack_fixed 2 msg o1) as [[T o2]| | |] eqn:E1; try discriminate. cbn [bind fst snd] in Ha.
  destruct (unpack_fixed 2 msg o2) as [[C o3]| | |] eqn:E2; try discriminate. cbn [bind fst snd] in Ha.
  destruct (unpack_fixed 4 msg o3) as [[TT o4]| | |] eqn:E3; try discriminate. cbn [bind fst snd] in Ha.
  destruct (unpack_fixed 2 msg o4) as [[RL o5]| | |] eqn:E4; try discriminate. cbn [bind fst snd] in Ha.
  destruct (lenN msg <? o5 + be RL 0) eqn:E5; [discriminate|].
  apply Ok_pair_inj in Ha. destruct Ha as [Ha <-].
  assert (Ea1 : hd = fst (hd, off1)) by reflexivity. assert (Ea2 : off1 = snd (hd, off1)) by reflexivity.
  rewrite <- Ha in Ea1, Ea2. cbn [fst snd] in Ea1, Ea2. subst hd off1. clear Ha.
  apply unpack_fixed_inv in E1, E2, E3, E4.
  destruct E1 as [R1 [-> ->]]. destruct E2 as [R2 [-> ->]]. destruct E3 as [R3 [-> ->]]. destruct E4 as [R4 [-> ->]].
  destruct (unpack_name_canon msg off nm o1 Hw En) as [ls [-> Hls]].
  set (rdl := be (take_at msg (o1 + 2 + 2 + 4) 2) 0) in *. set (o5 := o1 + 2 + 2 + 4 + 2) in *.
  unfold unpack_rr_with_header in H. cbn [h_type h_name h_class h_ttl h_rdlength] in H.
  set (tmsg := takeN (o5 + rdl) msg) in *.
  destruct (lenN tmsg <? o5); [discriminate|]. destruct (lenN tmsg <? o5 + rdl); [discriminate|].
  destruct (rdl =? 0) eqn:Er0.
  { apply Ok_pair_inj in H. destruct H as [<- _]. cbn [rr_rdlength] in Hrdl. lia. }
  destruct (find_layout layouts (kind_of_type (be (take_at msg o1 2) 0))) as [L'|] eqn:EL; [|discriminate].
  inv_bind H. destruct a as [gotF e]. cbn [fst snd] in H.
  destruct (e =? o5 + rdl); [|discriminate]. apply Ok_pair_inj in H. destruct H as [<- _].
  cbn [rr_kind rr_data rr_rdlength rr_name rr_type rr_class rr_ttl] in *. rewrite EL in Hfind.
  apply Some_inj in Hfind. subst L'.
  exists ls. split.
  - unfold rr_ok. cbn [rr_kind rr_data rr_rdlength rr_name rr_type rr_class rr_ttl].
    split; [reflexivity|]. split; [exact Hls|].
    split; [exact (be_take_bound msg o1 2 Hw R1)|]. split; [exact (be_take_bound msg (o1 + 2) 2 Hw R2)|].
    split; [exact (be_take_bound msg (o1 + 2 + 2) 4 Hw R3)|reflexivity].
  - assert (Htl : lenN tmsg = o5 + rdl) by (apply lenN_takeN'; lia).
    eapply (unpack_fields_canon_top (tl_pack L) (tl_unpack L) tmsg o5 gotF e);
      [apply wfb_takeN, Hw|eapply sides_agree_of, EL|eapply layout_ok_of, EL|lia|exact Ha|exact Hpres|exact Hval].
Qed.

(* UnpackRR (packRR (UnpackRR w)) = UnpackRR w *)
Theorem rr_reunpack msg off r off' L cap out st' post :
  wfb msg -> unpack_rr msg off = Ok (r, off') ->
  find_layout layouts (rr_kind r) = Some L -> rr_rdlength r <> 0 ->
  present (tl_pack L) (rr_data r) -> values_ok (rr_data r) (tl_pack L) ->
  lenN out < cap -> pack_rr r cap false (st0 out) = Ok st' ->
  exists ls rd r',
    rr_ok r ls /\ st' = st0 (out ++ rr_wire ls r rd) /\
    unpack_rr (out ++ rr_wire ls r rd ++ post) (lenN out) = Ok (r', lenN out + lenN (rr_wire ls r rd)) /\
    rr_rdlength r' = lenN rd /\ rr_same L r' r.
Proof.
  intros Hw Hun Hfind Hrdl Hpres Hval Hcap Hpack.
  destruct (unpack_rr_canon msg off r off' L Hw Hun Hfind Hrdl Hpres Hval) as [ls [Hok Hc]].
  destruct (rr_roundtrip_all r L ls cap out st' post Hfind Hok Hc Hcap Hpack) as [rd [r' [H1 [H2 [H3 H4]]]]].
  exists ls, rd, r'. auto.
Qed.

(* ================================================================== *)
(* PART 2: the converse for the remaining kinds *)

(* ------------------------------------------------------------------ *)
(* type bitmaps.  packDataNsec, as a function from the type list to the octets
   it writes, or None when it reports an error other than lack of room *)
Fixpoint nsec_run (l : list N) (lw : N) (cur : bytes) : option bytes :=
  match l with
  | [] => Some (lw :: lenN cur :: cur)
  | t :: r =>
    let w := t / 256 in
    let len := (t - w * 256) / 8 + 1 in
    if (lw <? w) && negb (lenN cur =? 0)
    then option_map (app (lw :: lenN cur :: cur)) (nsec_run r w (or_last (pad_to [] (N.to_nat len)) (t mod 8)))
    else if (w <? lw) || (len <? lenN cur) then None
         else nsec_run r w (or_last (pad_to cur (N.to_nat len)) (t mod 8))
  end.

Lemma nsec_run_len l : forall lw cur b, nsec_run l lw cur = Some b -> 2 <= lenN b.
Proof.
  induction l as [|t r IH]; intros lw cur b H.
  - cbn in H. apply Some_inj in H. subst b. rewrite !lenN_cons. lia.
  - cbn [nsec_run] in H. cbv zeta in H. destruct (_ && _).
    + destruct (nsec_run r _ _) as [b'|]; [|discriminate]. cbn in H. apply Some_inj in H. subst b.
      rewrite !lenN_cons. lia.
    + destruct (_ || _); [discriminate|]. eapply IH, H.
Qed.

Lemma nsec_go_run l : forall lw cur cap out b,
  nsec_run l lw cur = Some b -> lenN out + lenN b + 34 <= cap ->
  nsec_go l lw cur cap (st0 out) = Ok (st0 (out ++ b)).
Proof.
  induction l as [|t r IH]; intros lw cur cap out b H Hcap.
  - cbn in H. apply Some_inj in H. subst b. reflexivity.
  - cbn [nsec_run nsec_go] in *. cbv zeta in H.
    set (w := t / 256) in *. set (len := (t - w * 256) / 8 + 1) in *.
    assert (Hlen : len <= 32) by (unfold len, w; lia).
    destruct ((lw <? w) && negb (lenN cur =? 0)) eqn:Ef.
    + destruct (nsec_run r w (or_last (pad_to [] (N.to_nat len)) (t mod 8))) as [b'|] eqn:Er; [|discriminate].
      cbn [option_map] in H. apply Some_inj in H. subst b.
      rewrite pemit_st0, poff_st0. rewrite lenN_app in Hcap.
      rewrite lenN_nil. bfalse ((w <? lw) || (len <? 0)).
      rewrite (lenN_app out). bfalse (cap <? lenN out + lenN (lw :: lenN cur :: cur) + 2 + len).
      rewrite (IH w _ cap (out ++ lw :: lenN cur :: cur) b' Er) by (rewrite lenN_app; lia).
      now rewrite <- app_assoc.
    + destruct ((w <? lw) || (len <? lenN cur)); [discriminate|]. rewrite poff_st0.
      pose proof (nsec_run_len _ _ _ _ H) as Hb.
      bfalse (cap <? lenN out + 2 + len). apply IH; assumption.
Qed.

Lemma fold_set_bit_sweep : forallb (fun c => fold_left set_bit (setbits c) 0 =? c) all_octets = true.
Proof. vm_compute. reflexivity. Qed.
Lemma fold_set_bit c : c < 256 -> fold_left set_bit (setbits c) 0 = c.
Proof.
  intro H. pose proof fold_set_bit_sweep as Hs. rewrite forallb_forall in Hs.
  specialize (Hs c (in_all_octets c H)). lia.
Qed.
Lemma setbits_lt8 c : Forall (fun k => k < 8) (setbits c).
Proof.
  unfold setbits. apply Forall_forall. intros k Hk. apply filter_In in Hk. destruct Hk as [Hk _].
  cbn in Hk. lia.
Qed.

Lemma pad_to_succ cur n : (length cur <= n)%nat -> pad_to cur (S n) = pad_to cur n ++ [0].
Proof.
  intro H. rewrite !pad_to_spec by lia. replace (S n - length cur)%nat with (S (n - length cur)) by lia.
  cbn [repeat]. rewrite <- repeat_snoc, app_assoc. reflexivity.
Qed.
Lemma pad_to_full cur n : length cur = n -> pad_to cur n = cur.
Proof. intro H. rewrite pad_to_spec by lia. rewrite H, Nat.sub_diag. apply app_nil_r. Qed.

(* the remaining bits of the octet being filled *)
Lemma run_octet_bits w j a ks : forall x rest, lenN a = j -> j < 32 -> Forall (fun k => k < 8) ks ->
  nsec_run (map (fun k => w * 256 + j * 8 + k) ks ++ rest) w (a ++ [x]) =
  nsec_run rest w (a ++ [fold_left set_bit ks x]).
Proof.
  induction ks as [|k ks IH]; intros x rest Ha Hj Hk; [reflexivity|].
  pose proof (Forall_inv Hk) as Hk8. cbn beta in Hk8. apply Forall_inv_tail in Hk.
  cbn [map app fold_left nsec_run]. cbv zeta.
  set (t := w * 256 + j * 8 + k).
  assert (E1 : t / 256 = w) by (unfold t; lia). rewrite E1.
  assert (E2 : (t - w * 256) / 8 + 1 = j + 1) by (unfold t; lia). rewrite E2.
  assert (E3 : t mod 8 = k) by (unfold t; lia). rewrite E3.
  assert (El : lenN (a ++ [x]) = j + 1) by (rewrite lenN_app, lenN_cons, lenN_nil; lia). rewrite El.
  bfalse ((w <? w) && negb (j + 1 =? 0)). bfalse ((w <? w) || (j + 1 <? j + 1)).
  rewrite pad_to_full by (rewrite app_length; cbn [length]; unfold lenN in Ha; lia).
  rewrite or_last_snoc. apply IH; assumption.
Qed.

(* [no_flush lw w cur]: the next type of window w does not close a block *)
Definition no_flush (lw w : N) (cur : bytes) : Prop := lw = w \/ (cur = [] /\ lw <= w).

Lemma run_first_bit w j k lw cur rest :
  no_flush lw w cur -> (length cur <= N.to_nat j)%nat -> j < 32 -> k < 8 ->
  nsec_run ((w * 256 + j * 8 + k) :: rest) lw cur =
  nsec_run rest w (pad_to cur (N.to_nat j) ++ [set_bit 0 k]).
Proof.
  intros Hnf Hl Hj Hk. cbn [nsec_run]. cbv zeta.
  set (t := w * 256 + j * 8 + k).
  assert (E1 : t / 256 = w) by (unfold t; lia). rewrite E1.
  assert (E2 : (t - w * 256) / 8 + 1 = j + 1) by (unfold t; lia). rewrite E2.
  assert (E3 : t mod 8 = k) by (unfold t; lia). rewrite E3.
  assert (Ef : (lw <? w) && negb (lenN cur =? 0) = false).
  { destruct Hnf as [->|[-> _]]; [bfalse (w <? w); reflexivity|]. rewrite lenN_nil. cbn. apply andb_false_r. }
  rewrite Ef.
  assert (Ec : (w <? lw) || (j + 1 <? lenN cur) = false).
  { unfold lenN. destruct Hnf as [->|[-> Hle]]; cbn [length]; lia. }
  rewrite Ec.
  replace (N.to_nat (j + 1)) with (S (N.to_nat j)) by lia. rewrite pad_to_succ by exact Hl.
  now rewrite or_last_snoc.
Qed.

Lemma pad_to_length cur n : (length cur <= n)%nat -> length (pad_to cur n) = n.
Proof. intro H. rewrite pad_to_spec by exact H. rewrite app_length, repeat_length. lia. Qed.

(* one whole octet c of the block *)
Lemma run_octet w j c lw cur rest :
  no_flush lw w cur -> (length cur <= N.to_nat j)%nat -> j < 32 -> c < 256 -> c <> 0 ->
  nsec_run (bits_of w j c ++ rest) lw cur = nsec_run rest w (pad_to cur (N.to_nat j) ++ [c]).
Proof.
  intros Hnf Hl Hj Hc Hc0. rewrite bits_of_map.
  pose proof (fold_set_bit c Hc) as Hf. pose proof (setbits_lt8 c) as H8.
  destruct (setbits c) as [|k ks]; [cbn in Hf; congruence|].
  cbn [map app]. rewrite run_first_bit; [|exact Hnf|exact Hl|exact Hj|now apply Forall_inv in H8].
  rewrite run_octet_bits; [|unfold lenN; rewrite pad_to_length by exact Hl; lia|exact Hj|now apply Forall_inv_tail in H8].
  cbn [fold_left] in Hf. now rewrite Hf.
Qed.
Lemma bits_of_zero w j : bits_of w j 0 = [].
Proof. reflexivity. Qed.

(* the octets b of a block that follow the octets a already accounted for *)
Lemma run_block_tail w b : forall j a lw cur rest,
  no_flush lw w cur -> (length cur <= N.to_nat j)%nat -> a = pad_to cur (N.to_nat j) ->
  wfb b -> j + lenN b <= 32 -> last b 0 <> 0 ->
  nsec_run (block_types w j b ++ rest) lw cur = nsec_run rest w (a ++ b).
Proof.
  induction b as [|c b IH]; intros j a lw cur rest Hnf Hl Ha Hw H32 Hlast; [cbn in Hlast; congruence|].
  inversion Hw as [|? ? Hc Hw']; subst. rewrite lenN_cons in H32.
  cbn [block_types]. rewrite <- app_assoc.
  destruct (N.eq_dec c 0) as [->|Hc0].
  - rewrite bits_of_zero. cbn [app].
    destruct b as [|c' b']; [cbn in Hlast; congruence|].
    rewrite (IH (j + 1) (pad_to cur (N.to_nat j) ++ [0]) lw cur rest); try assumption.
    + now rewrite <- app_assoc.
    + lia.
    + replace (N.to_nat (j + 1)) with (S (N.to_nat j)) by lia. now rewrite pad_to_succ.
    + lia.
  - rewrite run_octet; try assumption; try lia.
    destruct b as [|c' b']; [reflexivity|].
    set (a1 := pad_to cur (N.to_nat j) ++ [c]).
    assert (Hl1 : length a1 = N.to_nat (j + 1)).
    { unfold a1. rewrite app_length, pad_to_length by exact Hl. cbn [length]. lia. }
    rewrite (IH (j + 1) a1 w a1 rest); try assumption.
    + unfold a1. now rewrite <- app_assoc.
    + now left.
    + lia.
    + symmetry. apply pad_to_full, Hl1.
    + lia.
Qed.

Lemma run_block w d lw rest :
  lw <= w -> wfb d -> lenN d <= 32 -> last d 0 <> 0 ->
  nsec_run (block_types w 0 d ++ rest) lw [] = nsec_run rest w d.
Proof.
  intros Hle Hw H32 Hlast.
  apply (run_block_tail w d 0 [] lw [] rest); try assumption; try lia.
  - right. split; [reflexivity|exact Hle].
  - cbn. lia.
  - reflexivity.
Qed.

Lemma block_types_nonempty w d : forall j, wfb d -> last d 0 <> 0 -> block_types w j d <> [].
Proof.
  induction d as [|c d IH]; intros j Hw Hlast; [cbn in Hlast; congruence|].
  inversion Hw as [|? ? Hc Hw']; subst. cbn [block_types]. intro E. apply app_eq_nil in E. destruct E as [E1 E2].
  destruct d as [|c' d'].
  - cbn in Hlast. rewrite bits_of_map in E1. pose proof (fold_set_bit c Hc) as Hf.
    destruct (setbits c); [cbn in Hf; congruence|discriminate].
  - apply (IH (j + 1)); assumption.
Qed.

Lemma block_types_hd w d : wfb d -> lenN d <= 32 -> last d 0 <> 0 ->
  exists t r, block_types w 0 d = t :: r /\ t / 256 = w.
Proof.
  intros Hw H32 Hlast. pose proof (block_types_nonempty w d 0 Hw Hlast) as Hne.
  destruct (block_types_sorted w d 0) as [Hs Hb].
  destruct (block_types w 0 d) as [|t r]; [congruence|]. exists t, r. split; [reflexivity|].
  cbn [sorted_from] in Hs. apply Forall_inv in Hb. cbn beta in Hb. lia.
Qed.

Lemma run_flush t r lw cur :
  lw < t / 256 -> cur <> [] ->
  nsec_run (t :: r) lw cur = option_map (app (lw :: lenN cur :: cur)) (nsec_run (t :: r) (t / 256) []).
Proof.
  intros Hlt Hne. cbn [nsec_run]. cbv zeta.
  assert (Hc : lenN cur <> 0). { destruct cur; [congruence|]. rewrite lenN_cons. lia. }
  btrue ((lw <? t / 256) && negb (lenN cur =? 0)).
  rewrite lenN_nil. bfalse ((t / 256 <? t / 256) && negb (0 =? 0)).
  bfalse ((t / 256 <? t / 256) || ((t - t / 256 * 256) / 8 + 1 <? 0)). reflexivity.
Qed.

(* the blocks of a bitmap: window and data octets *)
Definition types_of (bl : list (N * bytes)) : list N := flat_map (fun wd => block_types (fst wd) 0 (snd wd)) bl.
Definition enc_blocks (bl : list (N * bytes)) : bytes := flat_map (fun wd => fst wd :: lenN (snd wd) :: snd wd) bl.
Fixpoint blocks_ok (lo : N) (bl : list (N * bytes)) : Prop :=
  match bl with
  | [] => True
  | (w, d) :: r => lo <= w /\ wfb d /\ lenN d <= 32 /\ last d 0 <> 0 /\ blocks_ok (w + 1) r
  end.

Lemma run_blocks bl : forall lw, blocks_ok lw bl -> bl <> [] -> nsec_run (types_of bl) lw [] = Some (enc_blocks bl).
Proof.
  induction bl as [|[w d] bl IH]; intros lw Hok Hne; [congruence|].
  cbn [blocks_ok] in Hok. destruct Hok as [Hle [Hw [H32 [Hlast Hok]]]].
  unfold types_of, enc_blocks. cbn [flat_map fst snd]. fold (types_of bl). fold (enc_blocks bl).
  rewrite run_block by assumption.
  destruct bl as [|[w' d'] bl'].
  - cbn. now rewrite app_nil_r.
  - pose proof Hok as Hok'. cbn [blocks_ok] in Hok. destruct Hok as [Hle' [Hw' [H32' [Hlast' _]]]].
    destruct (block_types_hd w' d' Hw' H32' Hlast') as [t [r [Et Ew]]].
    assert (Etypes : types_of ((w', d') :: bl') = t :: (r ++ types_of bl')).
    { unfold types_of. cbn [flat_map fst snd]. now rewrite Et. }
    rewrite Etypes, run_flush; [|lia|intro E; subst d; cbn in Hlast; congruence].
    rewrite Ew, <- Etypes, (IH w'); [reflexivity| |discriminate].
    cbn [blocks_ok] in *. intuition lia.
Qed.

(* [nsec_plain]: in every block of the bitmap at off the last data octet is not zero *)
Fixpoint nsec_plain (fuel : nat) (msg : bytes) (off : N) : Prop :=
  match fuel with
  | O => True
  | S f =>
    if off <? lenN msg then
      let n := nthN msg (off + 1) 0 in
      last (take_at msg (off + 2) n) 0 <> 0 /\ nsec_plain f msg (off + 2 + n)
    else True
  end.

Lemma unpack_nsec_go_blocks fuel : forall msg off lw acc l off',
  wfb msg -> off <= lenN msg -> (-1 <= lw)%Z ->
  unpack_nsec_go fuel msg off lw acc = Ok (l, off') -> nsec_plain fuel msg off ->
  exists bl, l = acc ++ types_of bl /\ off <= off' <= lenN msg /\
    take_at msg off (off' - off) = enc_blocks bl /\ blocks_ok (Z.to_N (lw + 1)) bl.
Proof.
  induction fuel as [|f IH]; intros msg off lw acc l off' Hw Hoff Hlw H Hp; [discriminate|].
  cbn [unpack_nsec_go nsec_plain] in H, Hp.
  destruct (off <? lenN msg) eqn:E.
  - destruct (lenN msg <? off + 2) eqn:E2; [discriminate|].
    destruct (_ <=? lw)%Z eqn:E3; [discriminate|].
    destruct (nthN msg (off + 1) 0 =? 0) eqn:E4; [discriminate|].
    destruct (32 <? nthN msg (off + 1) 0) eqn:E5; [discriminate|].
    destruct (lenN msg <? off + 2 + nthN msg (off + 1) 0) eqn:E6; [discriminate|].
    cbv zeta in Hp. destruct Hp as [Hlast Hp].
    set (w := nthN msg off 0) in *. set (n := nthN msg (off + 1) 0) in *.
    destruct (IH msg (off + 2 + n) (Z.of_N w) _ l off' Hw ltac:(lia) ltac:(lia) H Hp) as [bl [El [Hr [Et Hok]]]].
    exists ((w, take_at msg (off + 2) n) :: bl). split; [|split; [lia|split]].
    + rewrite El, <- app_assoc. reflexivity.
    + unfold enc_blocks. cbn [flat_map fst snd]. fold (enc_blocks bl). rewrite <- Et.
      rewrite lenN_take_at by lia.
      replace (off' - off) with (1 + (1 + (n + (off' - (off + 2 + n))))) by lia.
      rewrite (take_at_split msg off 1) by lia. rewrite take_at_1 by lia. cbn [app]. f_equal.
      rewrite (take_at_split msg (off + 1) 1) by lia. rewrite take_at_1 by lia. cbn [app]. f_equal.
      replace (off + 1 + 1) with (off + 2) by lia.
      rewrite (take_at_split msg (off + 2) n) by lia. reflexivity.
    + cbn [blocks_ok]. split; [lia|]. split; [apply wfb_take_at, Hw|].
      rewrite lenN_take_at by lia. split; [lia|]. split; [exact Hlast|].
      replace (w + 1) with (Z.to_N (Z.of_N w + 1)) by lia. exact Hok.
  - apply Ok_pair_inj in H. destruct H as [<- <-]. exists []. cbn [types_of enc_blocks flat_map blocks_ok].
    rewrite app_nil_r, N.sub_diag. repeat split; try lia.
Qed.

Lemma nsec_converse msg off l off' cap out :
  wfb msg -> off <= lenN msg -> lenN msg + 320 <= cap -> lenN out = off ->
  unpack_nsec msg off = Ok (l, off') -> nsec_plain (S (length msg)) msg off ->
  off <= off' <= lenN msg /\
  pack_nsec l cap (st0 out) = Ok (st0 (out ++ take_at msg off (off' - off))).
Proof.
  intros Hw Hoff Hcap Ho H Hp. unfold unpack_nsec in H.
  destruct (unpack_nsec_go_blocks _ msg off (-1)%Z [] l off' Hw Hoff ltac:(lia) H Hp) as [bl [El [Hr [Et Hok]]]].
  split; [exact Hr|]. cbn [app] in El. change (Z.to_N (-1 + 1)) with 0 in Hok.
  destruct bl as [|wd bl'].
  - subst l. cbn in Et. rewrite Et, app_nil_r. reflexivity.
  - pose proof (run_blocks (wd :: bl') 0 Hok ltac:(discriminate)) as Hrun. rewrite <- El, <- Et in Hrun.
    assert (Hlen : lenN (take_at msg off (off' - off)) = off' - off) by (apply lenN_take_at; lia).
    unfold pack_nsec. destruct l as [|t r].
    { cbn in Hrun. apply Some_inj in Hrun. apply (f_equal lenN) in Hrun. rewrite Hlen, !lenN_cons, lenN_nil in Hrun.
      exfalso. destruct wd as [w d]. cbn [blocks_ok] in Hok. destruct Hok as [_ [_ [_ [Hlast _]]]].
      unfold enc_blocks in Et. cbn [flat_map fst snd] in Et. apply (f_equal lenN) in Et.
      rewrite Hlen, lenN_app, !lenN_cons in Et.
      destruct d; [cbn in Hlast; congruence|]. rewrite lenN_cons in Et. lia. }
    rewrite poff_st0. bfalse (cap <? lenN out). apply nsec_go_run; [exact Hrun|lia].
Qed.

(* ------------------------------------------------------------------ *)
(* the repeat-until-exhausted decoders against the repeat-for-every-item packers *)
Section LoopConverse.
  Context {A : Type}.
  Variable step : bytes -> N -> res (A * N).
  Variable packi : A -> N -> pn_state -> res pn_state.
  Variable msg : bytes.
  Variable cap : N.
  (* the condition on one item: where it was read, the value, where it ended *)
  Variable P : N -> A -> N -> Prop.

  Fixpoint pack_list (l : list A) (st : pn_state) : res pn_state :=
    match l with
    | [] => Ok st
    | p :: r => do st' <- packi p cap st; pack_list r st'
    end.

  Fixpoint loop_plain (fuel : nat) (off : N) : Prop :=
    match fuel with
    | O => True
    | S f =>
      if off <? lenN msg then
        match step msg off with
        | Ok (a, o) => P off a o /\ loop_plain f o
        | _ => True
        end
      else True
    end.

  Hypothesis step_conv : forall off a o out,
    off < lenN msg -> step msg off = Ok (a, o) -> P off a o -> lenN out = off ->
    off <= o <= lenN msg /\ packi a cap (st0 out) = Ok (st0 (out ++ take_at msg off (o - off))).

  Lemma loop_converse fuel : forall off acc l off' out,
    off <= lenN msg -> lenN out = off ->
    loop step msg fuel off acc = Ok (l, off') -> loop_plain fuel off ->
    off <= off' <= lenN msg /\
    exists l', l = acc ++ l' /\ pack_list l' (st0 out) = Ok (st0 (out ++ take_at msg off (off' - off))).
  Proof.
    induction fuel as [|f IH]; intros off acc l off' out Hoff Ho H Hp; [discriminate|].
    cbn [loop loop_plain] in H, Hp. destruct (off <? lenN msg) eqn:E.
    - destruct (step msg off) as [[a o]| | |] eqn:Es; try discriminate. cbn [bind fst snd] in H.
      destruct Hp as [Hpa Hp].
      destruct (step_conv off a o out ltac:(lia) Es Hpa Ho) as [Hr Hpk].
      destruct (IH o (acc ++ [a]) l off' (out ++ take_at msg off (o - off)) ltac:(lia)
                   ltac:(rewrite lenN_app, lenN_take_at by lia; lia) H Hp) as [Hr2 [l' [-> Hpl]]].
      split; [lia|]. exists (a :: l'). split; [now rewrite <- app_assoc|].
      cbn [pack_list]. rewrite Hpk. cbn [bind]. rewrite Hpl. f_equal. f_equal. rewrite <- app_assoc. f_equal.
      replace (off' - off) with ((o - off) + (off' - o)) by lia.
      rewrite take_at_split by lia. f_equal. f_equal. lia.
    - apply Ok_pair_inj in H. destruct H as [<- <-]. split; [lia|]. exists []. split; [now rewrite app_nil_r|].
      cbn [pack_list]. rewrite N.sub_diag. unfold take_at, takeN. cbn. now rewrite app_nil_r.
  Qed.
End LoopConverse.

(* a condition on the decoded items is a condition of this form *)
Lemma loop_plain_of_forall {A} (step : bytes -> N -> res (A * N)) (msg : bytes) (Q : A -> Prop) :
  forall fuel off acc l off', loop step msg fuel off acc = Ok (l, off') -> Forall Q l ->
  loop_plain step msg (fun _ a _ => Q a) fuel off.
Proof.
  induction fuel as [|f IH]; intros off acc l off' H HQ; [exact I|].
  cbn [loop loop_plain] in *. destruct (off <? lenN msg); [|exact I].
  destruct (step msg off) as [[a o]| | |] eqn:Es; try exact I. cbn [bind fst snd] in H. split.
  - rewrite Forall_forall in HQ. apply HQ. eapply loop_acc_in; [exact H|]. apply in_app_iff. right. now left.
  - eapply IH; [exact H|exact HQ].
Qed.

(* ------------------------------------------------------------------ *)
(* lists of names: every name written out in full *)
Definition name_plain (msg : bytes) (off : N) (o : N) : Prop :=
  exists ls, valid_wire ls = true /\ take_at msg off (o - off) = wire_name ls.

Lemma name_converse msg off s o cap c out :
  wfb msg -> off <= lenN msg -> unpack_name msg off = Ok (s, o) -> name_plain msg off o ->
  lenN msg + 320 <= cap -> lenN out = off ->
  off <= o <= lenN msg /\ pack_name s cap c (st0 out) = Ok (st0 (out ++ take_at msg off (o - off))).
Proof.
  intros Hw Hoff H [ls [Hls Ewire]] Hcap Ho.
  pose proof (unpack_name_safe msg off Hw) as Hsafe. rewrite H in Hsafe. cbn in Hsafe.
  split; [lia|].
  assert (Hlen : lenN (wire_name ls) = o - off) by (rewrite <- Ewire; apply lenN_take_at; lia).
  assert (Emsg : msg = takeN off msg ++ wire_name ls ++ dropN o msg).
  { rewrite <- Ewire. rewrite app_assoc. replace o with (off + (o - off)) at 2 by lia.
    rewrite <- takeN_split by lia. replace (off + (o - off)) with o by lia.
    symmetry. apply firstn_skipn. }
  assert (Hun : unpack_name msg off = Ok (show_name ls, off + lenN (wire_name ls))).
  { set (pre := takeN off msg) in *. set (post := dropN o msg) in *.
    assert (Eoff : lenN pre = off) by (apply lenN_takeN'; lia).
    rewrite Emsg, <- Eoff. apply unpack_name_exact, Hls. }
  rewrite Hun in H. apply Ok_pair_inj in H. destruct H as [<- _].
  rewrite (pack_name_at (show_name ls) ls).
  - now rewrite Ewire.
  - apply is_fqdn_show_name, Hls.
  - apply parse_show_name, Hls.
  - apply valid_wire_len_ok, Hls.
  - lia.
Qed.

Lemma pack_names_list c l cap st : pack_names l cap c st = pack_list (fun s cap st => pack_name s cap c st) cap l st.
Proof. revert st; induction l as [|s l IH]; intro st; cbn; [reflexivity|]. destruct (pack_name s cap c st); cbn; auto. Qed.

Definition names_plain (msg : bytes) (off : N) : Prop :=
  loop_plain unpack_name msg (fun off _ o => name_plain msg off o) (S (length msg)) off.

Lemma names_converse msg off l off' cap c out :
  wfb msg -> off <= lenN msg -> lenN msg + 320 <= cap -> lenN out = off ->
  unpack_names msg off = Ok (l, off') -> names_plain msg off ->
  off <= off' <= lenN msg /\
  pack_names l cap c (st0 out) = Ok (st0 (out ++ take_at msg off (off' - off))).
Proof.
  intros Hw Hoff Hcap Ho H Hp. unfold unpack_names in H. rewrite unpack_names_is_loop in H.
  destruct (loop_converse unpack_name (fun s cap st => pack_name s cap c st) msg cap
              (fun off _ o => name_plain msg off o)) with (fuel := S (length msg)) (off := off) (acc := @nil bytes)
              (l := l) (off' := off') (out := out) as [Hr [l' [-> Hpl]]]; try assumption.
  { intros off0 a o out0 Hlt Hs Hpl Hout. apply name_converse; try assumption. lia. }
  split; [exact Hr|]. cbn [app]. now rewrite pack_names_list.
Qed.

(* ------------------------------------------------------------------ *)
(* APL: an accepted prefix whose address has no bits beyond the prefix length *)
Lemma tzr_zeros j : forall x, trim_zeros_rev (repeat 0 j ++ x) = trim_zeros_rev x.
Proof. induction j as [|j IH]; intro x; [reflexivity|]. cbn [repeat app trim_zeros_rev]. apply IH. Qed.

Lemma trim_app_zeros a j : last a 1 <> 0 -> trim_trailing_zeros (a ++ repeat 0 j) = a.
Proof.
  intro Hlast. unfold trim_trailing_zeros. rewrite rev_app_distr, rev_repeat, tzr_zeros.
  destruct (list_eq_dec N.eq_dec a []) as [->|Hne]; [reflexivity|].
  destruct (exists_last Hne) as [a' [c ->]]. rewrite last_last in Hlast.
  rewrite rev_app_distr. cbn [rev app]. destruct c; [congruence|]. cbn [trim_zeros_rev].
  cbn [rev]. now rewrite rev_involutive.
Qed.

Lemma firstn_repeat0 k : forall m, firstn k (repeat 0 m) = repeat 0 (Nat.min k m).
Proof. induction k as [|k IH]; intro m; [reflexivity|]. destruct m as [|m]; [reflexivity|]. cbn. now rewrite IH. Qed.
Lemma last_repeat0 (x : bytes) m : last (x ++ repeat 0 (S m)) 1 = 0.
Proof. cbn [repeat]. rewrite <- repeat_snoc, app_assoc. apply last_last. Qed.

Lemma apl_addr_masked a il prefix :
  (length a <= il)%nat -> last a 1 <> 0 -> prefix <= 8 * N.of_nat il ->
  mask_bytes (pad_right a il) prefix = pad_right a il ->
  apl_addr prefix (pad_right a il) = a.
Proof.
  intros Hl Hlast Hpre Hm. unfold apl_addr. rewrite Hm.
  pose proof (masked_tail _ _ Hm) as Ht. rewrite pad_right_length in Ht.
  rewrite pad_right_spec in * by exact Hl.
  set (ip := a ++ repeat 0 (il - length a)) in *. set (n := N.to_nat ((prefix + 7) / 8)) in *.
  assert (Hn : (n <= il)%nat) by (unfold n; lia).
  assert (Hipl : length ip = il) by (unfold ip; rewrite app_length, repeat_length; lia).
  assert (Hle : (length a <= n)%nat).
  { destruct (le_lt_dec (length a) n) as [H|H]; [exact H|]. exfalso. apply Hlast.
    assert (Ea : a = firstn n ip ++ repeat 0 (length a - n)).
    { assert (E1 : firstn (length a) ip = a) by (unfold ip; apply firstn_app_exact).
      rewrite <- E1 at 1. rewrite <- (firstn_skipn n ip) at 1. rewrite Ht.
      rewrite firstn_app, firstn_length, Nat.min_l by lia. rewrite firstn_firstn, Nat.min_r by lia.
      rewrite firstn_repeat0. f_equal. f_equal. lia. }
    rewrite Ea. replace (length a - n)%nat with (S (length a - n - 1)) by lia. apply last_repeat0. }
  unfold takeN. fold n. unfold ip. rewrite firstn_app, firstn_all2 by exact Hle.
  rewrite firstn_repeat0. apply trim_app_zeros, Hlast.
Qed.

Lemma last_nthN (a : bytes) : a <> [] -> last a 1 = nthN a (lenN a - 1) 0.
Proof.
  intro Hne. destruct (exists_last Hne) as [a' [c ->]]. rewrite last_last.
  unfold nthN, lenN. rewrite app_length. cbn [length].
  replace (N.to_nat (N.of_nat (length a' + 1) - 1)) with (length a') by lia.
  rewrite app_nth2, Nat.sub_diag by lia. reflexivity.
Qed.

Lemma apl_prefix_converse msg off p o cap out :
  wfb msg -> unpack_apl_prefix msg off = Ok (p, o) -> apl_masked p ->
  lenN msg <= cap -> lenN out = off ->
  off <= o <= lenN msg /\ pack_apl_prefix p cap (st0 out) = Ok (st0 (out ++ take_at msg off (o - off))).
Proof.
  intros Hw H Hm Hcap Ho. unfold unpack_apl_prefix in H.
  destruct (lenN msg <? off + 2) eqn:E1; [discriminate|].
  destruct (lenN msg <? off + 2 + 1) eqn:E2; [discriminate|].
  destruct (lenN msg <? off + 2 + 1 + 1) eqn:E3; [discriminate|].
  set (fam := be (take_at msg off 2) 0) in *. set (prefix := nthN msg (off + 2) 0) in *.
  set (nlen := nthN msg (off + 2 + 1) 0) in *.
  assert (Hil : exists il, (if fam =? 1 then Some 4 else if fam =? 2 then Some 16 else None) = Some il /\
                           ((il = 4 /\ fam = 1) \/ (il = 16 /\ fam = 2))).
  { destruct (fam =? 1) eqn:F1; [exists 4; split; [reflexivity|left; lia]|].
    destruct (fam =? 2) eqn:F2; [exists 16; split; [reflexivity|right; lia]|]. discriminate. }
  destruct Hil as [il [Eil Hil]]. rewrite Eil in H.
  destruct (8 * il <? prefix) eqn:E8; [discriminate|].
  destruct (il <? nlen mod 128) eqn:E9; [discriminate|].
  destruct (lenN msg <? off + 2 + 1 + 1 + nlen mod 128) eqn:E10; [discriminate|].
  set (afd := nlen mod 128) in *. set (a := take_at msg (off + 2 + 1 + 1) afd) in *.
  destruct ((0 <? afd) && (nthN a (afd - 1) 0 =? 0)) eqn:Ez; [discriminate|].
  apply Ok_pair_inj in H. destruct H as [<- <-]. cbn [apl_masked] in Hm.
  split; [lia|].
  assert (Hal : lenN a = afd) by (apply lenN_take_at; lia).
  assert (Hlast : last a 1 <> 0).
  { destruct (list_eq_dec N.eq_dec a []) as [->|Hne]; [cbn; lia|].
    rewrite last_nthN by exact Hne. rewrite Hal. destruct a; [congruence|]. rewrite lenN_cons in Hal. lia. }
  assert (Hnl : nlen < 256) by (apply nthN_wfb; [exact Hw|lia]).
  assert (Hpf : prefix < 256) by (apply nthN_wfb; [exact Hw|lia]).
  assert (Haddr : apl_addr prefix (pad_right a (N.to_nat il)) = a).
  { apply apl_addr_masked; [unfold lenN in Hal; lia|exact Hlast|lia|exact Hm]. }
  unfold pack_apl_prefix.
  assert (Hlip : lenN (pad_right a (N.to_nat il)) = il) by (unfold lenN; rewrite pad_right_length; lia).
  rewrite Hlip.
  assert (Ef : match il with 4 => Some 1 | 16 => Some 2 | _ => None end = Some fam).
  { destruct Hil as [[-> ->]|[-> ->]]; reflexivity. }
  rewrite Ef.
  assert (Eu16 : u16 fam = take_at msg off 2).
  { unfold fam. apply u16_be; [apply wfb_take_at, Hw|apply lenN_take_at; lia]. }
  rewrite Eu16.
  rewrite pack_fixed_room by (rewrite lenN_take_at by lia; lia). cbn [bind].
  rewrite pack_fixed_room by (rewrite lenN_app, lenN_take_at by lia; cbn [u8 lenN length N.of_nat]; lia). cbn [bind].
  fold (apl_addr prefix (pad_right a (N.to_nat il))). rewrite Haddr, Hal.
  rewrite pack_fixed_room by (rewrite !lenN_app, lenN_take_at by lia; cbn [u8 lenN length N.of_nat]; lia). cbn [bind].
  rewrite pack_fixed_room by (rewrite !lenN_app, lenN_take_at by lia; cbn [u8 lenN length N.of_nat]; lia).
  f_equal. f_equal. rewrite <- !app_assoc. f_equal.
  replace (off + 2 + 1 + 1 + afd - off) with (2 + (1 + (1 + afd))) by lia.
  rewrite (take_at_split msg off 2) by lia. f_equal.
  rewrite (take_at_split msg (off + 2) 1) by lia. rewrite take_at_1 by lia. f_equal.
  { unfold u8. fold prefix. f_equal. lia. }
  rewrite (take_at_split msg (off + 2 + 1) 1) by lia. rewrite take_at_1 by lia. f_equal.
  unfold u8. fold nlen. f_equal. unfold afd. destruct (128 <=? nlen) eqn:En; lia.
Qed.

Lemma pack_apl_list l cap st : pack_apl l cap st = pack_list pack_apl_prefix cap l st.
Proof. revert st; induction l as [|p l IH]; intro st; cbn [pack_apl pack_list]; [reflexivity|]. destruct (pack_apl_prefix p cap st); cbn; auto. Qed.

Lemma apl_converse msg off l off' cap out :
  wfb msg -> off <= lenN msg -> lenN msg <= cap -> lenN out = off ->
  unpack_apl msg off = Ok (l, off') -> Forall apl_masked l ->
  off <= off' <= lenN msg /\
  pack_apl l cap (st0 out) = Ok (st0 (out ++ take_at msg off (off' - off))).
Proof.
  intros Hw Hoff Hcap Ho H Hm. unfold unpack_apl in H. rewrite unpack_apl_is_loop in H.
  pose proof (loop_plain_of_forall unpack_apl_prefix msg apl_masked _ _ _ _ _ H Hm) as Hp.
  destruct (loop_converse unpack_apl_prefix pack_apl_prefix msg cap (fun _ a _ => apl_masked a))
    with (fuel := S (length msg)) (off := off) (acc := @nil (bool * N * bytes))
         (l := l) (off' := off') (out := out) as [Hr [l' [-> Hpl]]]; try assumption.
  { intros off0 a o out0 Hlt Hs Hpa Hout. apply apl_prefix_converse; assumption. }
  split; [exact Hr|]. cbn [app]. now rewrite pack_apl_list.
Qed.

(* ------------------------------------------------------------------ *)
(* EDNS0 options and SVCB parameters: every value is what its own codec packs
   again ([view_id]: the view returns the octets it was given) *)
Definition view_id (o : option (bytes * N)) (data : bytes) : Prop :=
  match o with Some (b, _) => b = data | None => True end.

Fixpoint opts_plain (fuel : nat) (msg : bytes) (off : N) : Prop :=
  match fuel with
  | O => True
  | S f =>
    if off <? lenN msg then
      let code := be (take_at msg off 2) 0 in
      let n := be (take_at msg (off + 2) 2) 0 in
      view_id (opt_view code (take_at msg (off + 4) n)) (take_at msg (off + 4) n) /\ opts_plain f msg (off + 4 + n)
    else True
  end.
Fixpoint svcb_plain (fuel : nat) (msg : bytes) (off : N) : Prop :=
  match fuel with
  | O => True
  | S f =>
    if off <? lenN msg then
      let code := be (take_at msg off 2) 0 in
      let n := be (take_at msg (off + 2) 2) 0 in
      view_id (svcb_view code (take_at msg (off + 2 + 2) n)) (take_at msg (off + 2 + 2) n) /\
      svcb_plain f msg (off + 2 + 2 + n)
    else True
  end.

Lemma pair_wire msg off code n lb rest :
  wfb msg -> off + 4 + n + rest <= lenN msg ->
  code = be (take_at msg off 2) 0 -> n = be (take_at msg (off + 2) 2) 0 ->
  enc_pair (code, take_at msg (off + 4) n, lb) ++ take_at msg (off + 4 + n) rest = take_at msg off (4 + n + rest).
Proof.
  intros Hw Hl -> En. unfold enc_pair, pkey. cbn [fst snd].
  rewrite lenN_take_at by lia. rewrite En at 1.
  rewrite !u16_be by (try apply wfb_take_at; try apply lenN_take_at; assumption || lia).
  replace (4 + n + rest) with (2 + (2 + (n + rest))) by lia.
  rewrite (take_at_split msg off 2) by lia. rewrite <- !app_assoc. f_equal.
  rewrite (take_at_split msg (off + 2) 2) by lia. f_equal.
  replace (off + 2 + 2) with (off + 4) by lia.
  rewrite (take_at_split msg (off + 4) n) by lia. reflexivity.
Qed.

Lemma opts_wire fuel : forall msg off acc l off',
  wfb msg -> off <= lenN msg -> unpack_opts_go fuel msg off acc = Ok (l, off') -> opts_plain fuel msg off ->
  off <= off' <= lenN msg /\ exists l', l = acc ++ l' /\ concat (map enc_pair l') = take_at msg off (off' - off).
Proof.
  induction fuel as [|f IH]; intros msg off acc l off' Hw Hoff H Hp; [discriminate|].
  cbn [unpack_opts_go opts_plain] in H, Hp. destruct (off <? lenN msg) eqn:E.
  - destruct (lenN msg <? off + 4) eqn:E4; [discriminate|]. cbv zeta in Hp.
    set (code := be (take_at msg off 2) 0) in *. set (n := be (take_at msg (off + 2) 2) 0) in *.
    destruct (lenN msg <? off + 4 + n) eqn:E5; [discriminate|]. destruct Hp as [Hv Hp].
    destruct (opt_view code (take_at msg (off + 4) n)) as [[b lb]|] eqn:Ev; [|discriminate].
    cbn [view_id] in Hv. subst b.
    destruct (IH msg (off + 4 + n) _ l off' Hw ltac:(lia) H Hp) as [Hr [l' [-> El]]].
    split; [lia|]. exists ((code, take_at msg (off + 4) n, lb) :: l'). split; [now rewrite <- app_assoc|].
    cbn [map concat]. rewrite El.
    replace (off' - off) with (4 + n + (off' - (off + 4 + n))) by lia.
    apply pair_wire; [exact Hw|lia|reflexivity|reflexivity].
  - apply Ok_pair_inj in H. destruct H as [<- <-]. split; [lia|]. exists []. split; [now rewrite app_nil_r|].
    rewrite N.sub_diag. reflexivity.
Qed.

Lemma pack_opts_room l : forall cap out,
  lenN out + lenN (concat (map enc_pair l)) <= cap ->
  pack_opts l cap (st0 out) = Ok (st0 (out ++ concat (map enc_pair l))).
Proof.
  induction l as [|[[k b] n] l IH]; intros cap out Hcap; [cbn; now rewrite app_nil_r|].
  cbn [map concat] in *. rewrite lenN_app, len_enc_pair in Hcap. cbn [fst snd] in Hcap.
  cbn [pack_opts]. rewrite poff_st0. bfalse (cap <? lenN out + 4). bfalse (cap <? lenN out + 4 + lenN b).
  rewrite pemit_st0.
  change (u16 k ++ u16 (lenN b) ++ b) with (enc_pair (k, b, n)).
  rewrite IH by (rewrite lenN_app, len_enc_pair; cbn [fst snd]; lia). now rewrite <- app_assoc.
Qed.

Lemma opts_converse msg off l off' cap out :
  wfb msg -> off <= lenN msg -> lenN msg <= cap -> lenN out = off ->
  unpack_opts msg off = Ok (l, off') -> opts_plain (S (length msg)) msg off ->
  off <= off' <= lenN msg /\
  pack_opts l cap (st0 out) = Ok (st0 (out ++ take_at msg off (off' - off))).
Proof.
  intros Hw Hoff Hcap Ho H Hp. unfold unpack_opts in H.
  destruct (opts_wire _ msg off [] l off' Hw Hoff H Hp) as [Hr [l' [-> El]]]. cbn [app].
  split; [exact Hr|]. rewrite <- El. apply pack_opts_room. rewrite El, lenN_take_at by lia. lia.
Qed.

Lemma svcb_wire fuel : forall msg off last acc l off',
  wfb msg -> off <= lenN msg -> (-1 <= last)%Z ->
  unpack_svcb_go fuel msg off last acc = Ok (l, off') -> svcb_plain fuel msg off ->
  off <= off' <= lenN msg /\ exists l', l = acc ++ l' /\
    concat (map enc_pair l') = take_at msg off (off' - off) /\
    sorted_from (Z.to_N (last + 1)) (map pkey l') /\ Forall (fun p => pkey p <> 65535) l'.
Proof.
  induction fuel as [|f IH]; intros msg off last acc l off' Hw Hoff Hlast H Hp; [discriminate|].
  cbn [unpack_svcb_go svcb_plain] in H, Hp. destruct (off <? lenN msg) eqn:E.
  - destruct (lenN msg <? off + 2) eqn:E2; [discriminate|].
    destruct (lenN msg <? off + 2 + 2) eqn:E4; [discriminate|]. cbv zeta in Hp.
    set (code := be (take_at msg off 2) 0) in *. set (n := be (take_at msg (off + 2) 2) 0) in *.
    destruct (lenN msg <? off + 2 + 2 + n) eqn:E5; [discriminate|]. destruct Hp as [Hv Hp].
    destruct (svcb_view code (take_at msg (off + 2 + 2) n)) as [[b lb]|] eqn:Ev; [|discriminate].
    cbn [view_id] in Hv. subst b.
    destruct (Z.of_N code <=? last)%Z eqn:Ez; [discriminate|].
    assert (Hc : code <> 65535).
    { intro Ec. unfold svcb_view in Ev. rewrite Ec in Ev. cbn [N.eqb Pos.eqb] in Ev. discriminate. }
    destruct (IH msg (off + 2 + 2 + n) (Z.of_N code) _ l off' Hw ltac:(lia) ltac:(lia) H Hp) as [Hr [l' [-> [El [Hs Hne]]]]].
    split; [lia|]. exists ((code, take_at msg (off + 2 + 2) n, lb) :: l'). split; [now rewrite <- app_assoc|].
    split; [|split].
    + cbn [map concat]. rewrite El.
      replace (off' - off) with (4 + n + (off' - (off + 4 + n))) by lia.
      replace (off + 2 + 2) with (off + 4) by lia.
      apply pair_wire; [exact Hw|lia|reflexivity|reflexivity].
    + cbn [map sorted_from]. unfold pkey at 1 2. cbn [fst]. split; [lia|].
      replace (code + 1) with (Z.to_N (Z.of_N code + 1)) by lia. exact Hs.
    + constructor; [exact Hc|exact Hne].
  - apply Ok_pair_inj in H. destruct H as [<- <-]. split; [lia|]. exists []. split; [now rewrite app_nil_r|].
    rewrite N.sub_diag. repeat split. constructor.
Qed.

Lemma pack_pairs_room l : forall prev lo cap out,
  sorted_from lo (map pkey l) -> match l with [] => True | p :: _ => pkey p <> prev end ->
  lenN out + lenN (concat (map enc_pair l)) <= cap ->
  pack_pairs_go l prev cap (st0 out) = Ok (st0 (out ++ concat (map enc_pair l))).
Proof.
  induction l as [|[[k b] n] l IH]; intros prev lo cap out Hs Hne Hcap; [cbn; now rewrite app_nil_r|].
  cbn [map concat] in *. rewrite lenN_app, len_enc_pair in Hcap. cbn [fst snd] in Hcap.
  unfold pkey in Hne. cbn [fst] in Hne.
  cbn [pack_pairs_go]. rewrite poff_st0. bfalse (k =? prev).
  bfalse (cap <? lenN out + 2). bfalse (cap <? lenN out + 4). bfalse (cap <? lenN out + 4 + lenN b).
  rewrite pemit_st0.
  change (u16 k ++ u16 (lenN b) ++ b) with (enc_pair (k, b, n)).
  cbn [sorted_from] in Hs. destruct Hs as [_ Hs]. unfold pkey in Hs at 1. cbn [fst] in Hs.
  rewrite (IH k (k + 1)); [now rewrite <- app_assoc|exact Hs| |rewrite lenN_app, len_enc_pair; cbn [fst snd]; lia].
  destruct l as [|p l']; [exact I|]. cbn [map sorted_from] in Hs. lia.
Qed.

Lemma svcb_converse msg off l off' cap out :
  wfb msg -> off <= lenN msg -> lenN msg <= cap -> lenN out = off ->
  unpack_svcb msg off = Ok (l, off') -> svcb_plain (S (length msg)) msg off ->
  off <= off' <= lenN msg /\
  pack_svcb l cap (st0 out) = Ok (st0 (out ++ take_at msg off (off' - off))).
Proof.
  intros Hw Hoff Hcap Ho H Hp. unfold unpack_svcb in H.
  destruct (svcb_wire _ msg off (-1)%Z [] l off' Hw Hoff ltac:(lia) H Hp) as [Hr [l' [-> [El [Hs Hne]]]]]. cbn [app].
  change (Z.to_N (-1 + 1)) with 0 in Hs.
  split; [exact Hr|]. unfold pack_svcb, sort_pairs. rewrite (sort_pairs_sorted l' 0 []) by (exact Hs || constructor).
  cbn [app]. rewrite <- El. apply (pack_pairs_room l' _ 0); [exact Hs| |rewrite El, lenN_take_at by lia; lia].
  destruct l' as [|p l'']; [exact I|]. now apply Forall_inv in Hne.
Qed.

(* for which option codes / parameter keys the view is the identity *)
Lemma opt_view_transparent code data b l :
  opt_view code data = Some (b, l) -> ~ In code [1; 2; 8; 9; 11; 18] -> b = data.
Proof.
  intros H Hn. unfold opt_view in H.
  destruct (code =? 1) eqn:E1; [exfalso; apply Hn; cbn; lia|].
  destruct (code =? 2) eqn:E2; [exfalso; apply Hn; cbn; lia|].
  destruct (code =? 8) eqn:E8; [exfalso; apply Hn; cbn; lia|].
  destruct (code =? 9) eqn:E9; [exfalso; apply Hn; cbn; lia|].
  destruct (code =? 11) eqn:E11; [exfalso; apply Hn; cbn; lia|].
  destruct (code =? 15). { destruct (lenN data <? 2); [discriminate|]. now spi H. }
  destruct (code =? 18) eqn:E18; [exfalso; apply Hn; cbn; lia|].
  destruct (code =? 19). { destruct (lenN data <? 2); [discriminate|]. now spi H. }
  now spi H.
Qed.

Lemma firstn_id_iff {A} n (l : list A) : firstn n l = l <-> (length l <= n)%nat.
Proof.
  split; [|apply firstn_all2]. intro H. apply (f_equal (@length A)) in H. rewrite firstn_length in H. lia.
Qed.

(* LLQ, UL, EXPIRE, TCP-KEEPALIVE: exactly when the accepted value is kept *)
Lemma opt_view_id_iff code data b l :
  opt_view code data = Some (b, l) -> code <> 8 -> code <> 18 ->
  (b = data <->
   (code = 1 -> lenN data = 18) /\
   (code = 2 -> lenN data = 4 \/ Options.all_zero (skipn 4 data) = false) /\
   (code = 9 -> lenN data = 0 \/ lenN data = 4) /\
   (code = 11 -> lenN data = 0 \/ Options.all_zero data = false)).
Proof.
  intros H N8 N18. pose proof H as H0. unfold opt_view in H.
  destruct (code =? 1) eqn:E1.
  { destruct (lenN data <? 18) eqn:En; [discriminate|]. spi H. destruct (firstn_id_iff 18 data) as [Hf1 Hf2]. unfold lenN in *.
    split; [intro E; apply Hf1 in E; repeat split; intros; lia|intros [Hc _]; specialize (Hc ltac:(lia)); apply Hf2; lia]. }
  destruct (code =? 2) eqn:E2.
  { destruct (lenN data =? 4) eqn:E4.
    { spi H. split; [intros _; repeat split; intros; try lia; left; lia|reflexivity]. }
    destruct (lenN data =? 8) eqn:E8; [|discriminate].
    destruct (Options.all_zero (skipn 4 data)) eqn:Ez; spi H.
    - destruct (firstn_id_iff 4 data) as [Hf1 Hf2]. unfold lenN in *. split; [intro E; apply Hf1 in E; lia|].
      intros [_ [Hc _]]. destruct (Hc ltac:(lia)); [lia|discriminate].
    - split; [intros _; repeat split; intros; try lia; now right|reflexivity]. }
  destruct (code =? 8) eqn:E8; [lia|].
  destruct (code =? 9) eqn:E9.
  { destruct (lenN data =? 0) eqn:Ez.
    { spi H. assert (data = []) by (apply lenN_0; lia). subst data.
      split; [intros _; repeat split; intros; try lia; left; reflexivity|reflexivity]. }
    destruct (lenN data <? 4) eqn:E4; [discriminate|]. spi H. destruct (firstn_id_iff 4 data) as [Hf1 Hf2]. unfold lenN in *.
    split; [intro E; apply Hf1 in E; repeat split; intros; lia|intros [_ [_ [Hc _]]]; apply Hf2; destruct (Hc ltac:(lia)); lia]. }
  destruct (code =? 11) eqn:E11.
  { destruct (lenN data =? 0) eqn:Ez.
    { spi H. assert (data = []) by (apply lenN_0; lia). subst data.
      split; [intros _; repeat split; intros; try lia; left; reflexivity|reflexivity]. }
    destruct (lenN data =? 2) eqn:E2'; [|discriminate].
    destruct (Options.all_zero data) eqn:Eaz; spi H.
    - split; [intro; subst data; cbn in Ez; discriminate|].
      intros [_ [_ [_ Hc]]]. destruct (Hc ltac:(lia)); [lia|discriminate].
    - split; [intros _; repeat split; intros; try lia; now right|reflexivity]. }
  assert (b = data) by (apply (opt_view_transparent code data b l H0); cbn; lia).
  split; [intros _; repeat split; intros; lia|intros _; assumption].
Qed.

Lemma svcb_view_transparent key data b l :
  svcb_view key data = Some (b, l) -> key <> 0 -> key <> 1 -> b = data.
Proof.
  intros H N0 N1. unfold svcb_view in H.
  destruct (key =? 65535); [discriminate|].
  destruct (key =? 0) eqn:E0; [lia|]. destruct (key =? 1) eqn:E1; [lia|].
  destruct (key =? 2). { destruct (lenN data =? 0) eqn:En; [|discriminate]. spi H. symmetry. apply lenN_0. lia. }
  destruct (key =? 3). { destruct (lenN data =? 2); [|discriminate]. now spi H. }
  destruct (key =? 4). { destruct (_ || _); [discriminate|]. now spi H. }
  destruct (key =? 6). { destruct (_ || _); [discriminate|]. now spi H. }
  destruct (key =? 8). { destruct (lenN data =? 0) eqn:En; [|discriminate]. spi H. symmetry. apply lenN_0. lia. }
  now spi H.
Qed.

(* mandatory: kept when the key list is already in non-decreasing order;
   alpn: kept when no id is empty *)
Lemma svcb_view_id_iff key data b l :
  wfb data -> svcb_view key data = Some (b, l) ->
  (b = data <->
   (key = 0 -> sort_n (pairs16 data) = pairs16 data) /\
   (key = 1 -> alpn_scan (S (length data)) data = Some false)).
Proof.
  intros Hw H. pose proof H as H0. unfold svcb_view in H.
  destruct (key =? 65535); [discriminate|].
  destruct (key =? 0) eqn:E0.
  { destruct (lenN data mod 2 =? 0) eqn:Em; [|discriminate]. spi H.
    destruct (pairs16_spec data (length data) (le_n _) Hw) as [P1 P2].
    split.
    - intro E. split; [intros _|intro; lia]. rewrite <- E at 2.
      rewrite pairs16_u16 by (apply sort_n_Forall, P1). reflexivity.
    - intros [Hc _]. rewrite (Hc ltac:(lia)).
      assert (Hev : Nat.modulo (length data) 2 = 0%nat).
      { assert (N.of_nat (length data) mod 2 = 0) by (unfold lenN in Em; lia). lia. }
      clear - Hw Hev. remember (length data) as n eqn:Hn. revert data Hw Hn Hev.
      induction n as [n IH] using lt_wf_ind. intros data Hw Hn Hev.
      destruct data as [|x [|y r]]; [reflexivity|cbn in Hn; subst n; cbn in Hev; discriminate|].
      cbn [pairs16 flat_map]. inversion Hw as [|? ? Hx Hw1]; subst. inversion Hw1 as [|? ? Hy Hw2]; subst.
      rewrite (IH (length r)); [|cbn; lia|exact Hw2|reflexivity|].
      + unfold u16. cbn [app]. f_equal; [lia|f_equal; lia].
      + cbn [length] in Hev. replace (S (S (length r))) with (length r + 1 * 2)%nat in Hev by lia.
        now rewrite Nat.mod_add in Hev by lia. }
  destruct (key =? 1) eqn:E1.
  { destruct (alpn_scan (S (length data)) data) as [he|] eqn:Ea; [|discriminate]. destruct he; [discriminate|]. spi H.
    split; [intros _; split; [intro; lia|reflexivity]|reflexivity]. }
  assert (b = data) by (apply (svcb_view_transparent key data b l H0); lia).
  split; [intros _; split; intro; lia|intros _; assumption].
Qed.

(* ------------------------------------------------------------------ *)
(* one statement, every kind *)
(* [plain2 got k msg off off' vals]: the canonicity condition of the wire form
   msg[off:off'] (decoded as vals) under which packing the decoded value writes
   the same octets again:
   names (also inside lists and the gateway union) written out in full;
   octet strings within packStringOctet's limit; in a type bitmap no block ends
   in a zero octet; APL addresses without bits beyond the prefix; every EDNS0
   option / SVCB parameter value is what its own codec packs again. *)
Definition plain2 (got : rdata) (k : fkind) (msg : bytes) (off off' : N) (vals : list fval) : Prop :=
  match k with
  | K_names _ => names_plain msg off
  | K_gateway tyf _ _ mask _ => N.land (vget_n got tyf) mask = gw_host -> name_plain msg off off'
  | K_nsec => nsec_plain (S (length msg)) msg off
  | K_apl => Forall (value_ok K_apl) vals
  | K_opt => opts_plain (S (length msg)) msg off
  | K_svcb => svcb_plain (S (length msg)) msg off
  | _ => plain_at k msg off off'
  end.

Ltac conv_case Hw Ha Hoff H Hplain Hcap :=
  cbn [plain2] in Hplain;
  match type of H with
  | unpack_field ?got ?k' ?msg ?off = Ok (?vals, ?off') =>
    match type of Ha with
    | kind_agree ?k _ = true =>
      let Hr := fresh "Hr" in let x := fresh "x" in let Hpk := fresh "Hpk" in
      destruct (field_converse got k k' msg off vals off' _ Hw eq_refl Ha Hoff H Hplain Hcap) as [Hr [x [-> Hpk]]];
      split; [exact Hr|];
      let HF := fresh "HF" in
      intros ? ? ? HF _ ?; cbn [knames] in HF; inversion HF; subst; apply Hpk; first [assumption|reflexivity]
    end
  end.

Ltac one_inv2 H Ed :=
  cbn [unpack_field] in H; cbv zeta in H;
  match type of H with
  | bind (bind ?r _) _ = _ => destruct r as [[?a ?o]| | |] eqn:Ed; try discriminate H
  end;
  cbn [bind fst snd] in H; apply Ok_pair_inj in H; destruct H as [<- <-].

Lemma field_converse_all got k k' msg off vals off' cap :
  wfb msg -> kind_agree k k' = true -> off <= lenN msg ->
  unpack_field got k' msg off = Ok (vals, off') -> plain2 got k msg off off' vals ->
  lenN msg + 320 <= cap ->
  off <= off' <= lenN msg /\
  forall v f out, Forall2 (fun g y => vget v g = Some y) (knames f k) vals ->
    (forall s, depends_on k = Some s -> vget_n v s = vget_n got s) -> lenN out = off ->
    pack_field v f k cap (st0 out) = Ok (st0 (out ++ take_at msg off (off' - off))).
Proof.
  intros Hw Ha Hoff H Hplain Hcap.
  destruct k; try solve [conv_case Hw Ha Hoff H Hplain Hcap];
    destruct k'; cbn [kind_agree] in Ha; try discriminate Ha; cbn [plain2] in Hplain.
  - (* type bitmap *)
    one_inv2 H Ed.
    split; [exact (proj1 (nsec_converse msg off a o cap (takeN off msg) Hw Hoff Hcap (lenN_takeN' msg off Hoff) Ed Hplain))|].
    intros v f out HF _ Ho. cbn [knames] in HF. inversion HF as [|? ? ? ? Hv HF']; subst.
    cbn [pack_field]. rewrite Hv. cbn [as_ns].
    exact (proj2 (nsec_converse msg (lenN out) a o cap out Hw Hoff Hcap eq_refl Ed Hplain)).
  - (* EDNS0 options *)
    one_inv2 H Ed.
    split; [exact (proj1 (opts_converse msg off a o cap (takeN off msg) Hw Hoff ltac:(lia) (lenN_takeN' msg off Hoff) Ed Hplain))|].
    intros v f out HF _ Ho. cbn [knames] in HF. inversion HF as [|? ? ? ? Hv HF']; subst.
    cbn [pack_field]. rewrite Hv. cbn [as_pairs].
    exact (proj2 (opts_converse msg (lenN out) a o cap out Hw Hoff ltac:(lia) eq_refl Ed Hplain)).
  - (* SVCB parameters *)
    one_inv2 H Ed.
    split; [exact (proj1 (svcb_converse msg off a o cap (takeN off msg) Hw Hoff ltac:(lia) (lenN_takeN' msg off Hoff) Ed Hplain))|].
    intros v f out HF _ Ho. cbn [knames] in HF. inversion HF as [|? ? ? ? Hv HF']; subst.
    cbn [pack_field]. rewrite Hv. cbn [as_pairs].
    exact (proj2 (svcb_converse msg (lenN out) a o cap out Hw Hoff ltac:(lia) eq_refl Ed Hplain)).
  - (* APL *)
    one_inv2 H Ed. apply Forall_inv in Hplain. cbn [value_ok] in Hplain.
    split; [exact (proj1 (apl_converse msg off a o cap (takeN off msg) Hw Hoff ltac:(lia) (lenN_takeN' msg off Hoff) Ed Hplain))|].
    intros v f out HF _ Ho. cbn [knames] in HF. inversion HF as [|? ? ? ? Hv HF']; subst.
    cbn [pack_field]. rewrite Hv. cbn [as_apl].
    exact (proj2 (apl_converse msg (lenN out) a o cap out Hw Hoff ltac:(lia) eq_refl Ed Hplain)).
  - (* list of names *)
    one_inv2 H Ed.
    split; [exact (proj1 (names_converse msg off a o cap compress (takeN off msg) Hw Hoff Hcap (lenN_takeN' msg off Hoff) Ed Hplain))|].
    intros v f out HF _ Ho. cbn [knames] in HF. inversion HF as [|? ? ? ? Hv HF']; subst.
    cbn [pack_field]. rewrite Hv. cbn [as_ss].
    exact (proj2 (names_converse msg (lenN out) a o cap compress out Hw Hoff Hcap eq_refl Ed Hplain)).
  - (* the gateway union *)
    repeat (apply andb_prop in Ha; destruct Ha as [Ha ?]).
    repeat match goal with H : String.eqb _ _ = true |- _ => apply String.eqb_eq in H end.
    match goal with H : (_ =? _) = true |- _ => apply N.eqb_eq in H end. subst.
    cbn [unpack_field] in H. cbn [knames depends_on pack_field].
    destruct (N.land (vget_n got tyf0) mask0 =? gw_v4) eqn:E4.
    { destruct (unpack_fixed 4 msg off) as [[a o]| | |] eqn:Ed; try discriminate H.
      cbn [bind fst snd] in H. apply Ok_pair_inj in H. destruct H as [<- <-].
      apply unpack_fixed_inv in Ed. destruct Ed as [Hr [-> ->]]. split; [lia|].
      intros v f out HF Hdep Ho. inversion HF as [|? ? ? ? Hv1 HF1]; subst.
      rewrite (Hdep _ eq_refl), E4, Hv1. cbn [as_b]. unfold pack_a.
      rewrite lenN_take_at by lia. replace (lenN out + 4 - lenN out) with 4 by lia.
      apply pack_fixed_room. rewrite lenN_take_at by lia. lia. }
    destruct (N.land (vget_n got tyf0) mask0 =? gw_v6) eqn:E6.
    { destruct (unpack_fixed 16 msg off) as [[a o]| | |] eqn:Ed; try discriminate H.
      cbn [bind fst snd] in H. apply Ok_pair_inj in H. destruct H as [<- <-].
      apply unpack_fixed_inv in Ed. destruct Ed as [Hr [-> ->]]. split; [lia|].
      intros v f out HF Hdep Ho. inversion HF as [|? ? ? ? Hv1 HF1]; subst.
      rewrite (Hdep _ eq_refl), E4, E6, Hv1. cbn [as_b]. unfold pack_aaaa.
      rewrite lenN_take_at by lia. replace (lenN out + 16 - lenN out) with 16 by lia.
      apply pack_fixed_room. rewrite lenN_take_at by lia. lia. }
    destruct (N.land (vget_n got tyf0) mask0 =? gw_host) eqn:Eh.
    { destruct (unpack_name msg off) as [[a o]| | |] eqn:Ed; try discriminate H.
      cbn [bind fst snd] in H. apply Ok_pair_inj in H. destruct H as [<- <-].
      specialize (Hplain ltac:(lia)).
      split; [exact (proj1 (name_converse msg off a o cap false (takeN off msg) Hw Hoff Ed Hplain Hcap (lenN_takeN' msg off Hoff)))|].
      intros v f out HF Hdep Ho. inversion HF as [|? ? ? ? Hv1 HF1]; subst. inversion HF1 as [|? ? ? ? Hv2 HF2]; subst.
      rewrite (Hdep _ eq_refl), E4, E6, Eh, Hv2. cbn [as_s].
      exact (proj2 (name_converse msg (lenN out) a o cap _ out Hw Hoff Ed Hplain Hcap eq_refl)). }
    apply Ok_pair_inj in H. destruct H as [<- <-]. split; [lia|].
    intros v f out HF Hdep Ho. rewrite (Hdep _ eq_refl), E4, E6, Eh.
    rewrite N.sub_diag. unfold take_at, takeN. cbn. now rewrite app_nil_r.
Qed.

(* ------------------------------------------------------------------ *)
(* field sequences, every layout *)
Fixpoint plain_fields2 (ps : list pfield) (us : list ufield) (got : rdata) (msg : bytes) (off : N) : Prop :=
  match ps, us with
  | (f, k) :: ps', u :: us' =>
    match unpack_field got (uf_kind u) msg off with
    | Ok (vals, off') =>
      plain2 got k msg off off' vals /\ plain_fields2 ps' us' (got ++ combine (assigned u) vals) msg off'
    | _ => False
    end
  | _, _ => True
  end.

Lemma fields_converse_all cap ps : forall us seen got msg off gotF off' out,
  wfb msg -> sides_agree ps us = true -> layout_ok seen ps = true -> off <= lenN msg ->
  keys_are seen got ->
  unpack_fields us got msg off = Ok (gotF, off') ->
  plain_fields2 ps us got msg off ->
  present ps gotF ->
  lenN msg + 320 <= cap -> lenN out = off ->
  off <= off' <= lenN msg /\ (exists ext, gotF = got ++ ext) /\
  pack_fields gotF ps cap (st0 out) = Ok (st0 (out ++ take_at msg off (off' - off))).
Proof.
  induction ps as [|[f k] ps IH]; intros us seen got msg off gotF off' out Hw Hs Hl Hoff Hkeys Hun Hplain Hpres Hcap Ho.
  - destruct us; [|discriminate]. cbn in Hun. apply Ok_pair_inj in Hun. destruct Hun as [<- <-]. split; [lia|].
    split; [exists []; now rewrite app_nil_r|]. cbn [pack_fields]. rewrite N.sub_diag.
    unfold take_at, takeN. cbn. now rewrite app_nil_r.
  - destruct us as [|u us]; [discriminate|]. cbn [sides_agree] in Hs.
    apply andb_prop in Hs. destruct Hs as [Hs Hs']. apply andb_prop in Hs. destruct Hs as [Hname Hk].
    apply String.eqb_eq in Hname.
    cbn [layout_ok] in Hl. apply andb_prop in Hl. destruct Hl as [Hl Hl'].
    apply andb_prop in Hl. destruct Hl as [Hl Hlast]. apply andb_prop in Hl. destruct Hl as [Hl Hsz].
    apply andb_prop in Hl. destruct Hl as [Hfresh Hdist].
    set (names := knames f k) in *.
    assert (Hnf : forall g, In g names -> ~ In g seen).
    { intros g Hg. rewrite forallb_forall in Hfresh. specialize (Hfresh g Hg).
      apply existsb_eqb_notin. now destruct (existsb _ seen). }
    assert (Hnd : NoDup names) by (apply names_distinct_nodup, Hdist).
    cbn [unpack_fields] in Hun. cbn [plain_fields2] in Hplain.
    destruct (unpack_field got (uf_kind u) msg off) as [[vals o]| | |] eqn:Eu; try contradiction.
    destruct Hplain as [Hpl Hplain]. cbn [bind fst snd] in Hun.
    rewrite (assigned_knames u f k Hk Hname) in Hun, Hplain. fold names in Hun, Hplain.
    pose proof (unpack_field_arity got k (uf_kind u) msg off vals o f Hk Eu) as Har. fold names in Har.
    destruct (field_converse_all got k (uf_kind u) msg off vals o cap Hw Hk Hoff Eu Hpl Hcap) as [Hro Hpack].
    set (got' := got ++ combine names vals) in *.
    assert (Hsub : forall g, In g names -> vget got g = None).
    { intros g Hg. destruct (vget got g) eqn:Eg; [|reflexivity]. exfalso. apply (Hnf g Hg), Hkeys. congruence. }
    assert (Hkeys' : keys_are (names ++ seen) got').
    { intro g. unfold got'. rewrite vget_app, in_app_iff. split.
      - intros [Hg|Hg].
        + rewrite (Hsub g Hg). exact (forall2_in_some _ _ _ g (vget_combine names vals Hnd Har) Hg).
        + apply Hkeys in Hg. destruct (vget got g); congruence.
      - destruct (vget got g) eqn:Eg; [intros _; right; apply Hkeys; congruence|].
        intro Hc. left. apply vget_some_in, combine_keys in Hc. exact Hc. }
    assert (Hthis : forall ext, pack_field (got' ++ ext) f k cap (st0 out) = Ok (st0 (out ++ take_at msg off (o - off)))).
    { intro ext. apply Hpack; [|intros s Es|exact Ho].
      - unfold got'. apply forall2_extend; [exact (vget_combine names vals Hnd Har)|exact Hsub].
      - rewrite Es in Hsz. apply existsb_eqb_in in Hsz. apply Hkeys in Hsz.
        unfold vget_n, got'. rewrite !vget_app. destruct (vget got s); [reflexivity|congruence]. }
    destruct (uf_exit u && (o =? lenN msg)) eqn:Hex.
    + apply Ok_pair_inj in Hun. destruct Hun as [<- <-].
      assert (ps = []).
      { destruct ps as [|[f' k'] ps']; [reflexivity|]. exfalso.
        pose proof (Forall_inv (Forall_inv_tail Hpres)) as Hp. cbn [fst snd] in Hp.
        destruct (knames_nonempty f' k') as [g Hg]. rewrite Forall_forall in Hp. apply (Hp g Hg).
        destruct (vget got' g) eqn:Eg; [|reflexivity]. exfalso.
        apply (layout_ok_fresh _ _ f' k' g Hl' (or_introl eq_refl) Hg). apply Hkeys'. congruence. }
      subst ps. split; [lia|]. split; [exists (combine names vals); reflexivity|].
      cbn [pack_fields]. specialize (Hthis []). rewrite app_nil_r in Hthis. rewrite Hthis. reflexivity.
    + destruct (IH us (names ++ seen) got' msg o gotF off' (out ++ take_at msg off (o - off)))
        as [Hr2 [[ext ->] Hp2]]; try assumption; try lia.
      { now apply Forall_inv_tail in Hpres. }
      { rewrite lenN_app, lenN_take_at by lia. lia. }
      split; [lia|]. split; [exists (combine names vals ++ ext); unfold got'; now rewrite app_assoc|].
      cbn [pack_fields]. rewrite Hthis. cbn [bind].
      rewrite Hp2. f_equal. f_equal. rewrite <- app_assoc. f_equal.
      replace (off' - off) with ((o - off) + (off' - o)) by lia.
      rewrite take_at_split by lia. f_equal. unfold take_at. f_equal. f_equal. lia.
Qed.

Theorem fields_converse_all_top cap ps us msg off gotF off' out :
  wfb msg -> sides_agree ps us = true -> layout_ok [] ps = true -> off <= lenN msg ->
  unpack_fields us [] msg off = Ok (gotF, off') ->
  plain_fields2 ps us [] msg off -> present ps gotF ->
  lenN msg + 320 <= cap -> lenN out = off ->
  off <= off' <= lenN msg /\
  pack_fields gotF ps cap (st0 out) = Ok (st0 (out ++ take_at msg off (off' - off))).
Proof.
  intros Hw Hs Hl Hoff Hun Hpl Hpr Hcap Ho.
  destruct (fields_converse_all cap ps us [] [] msg off gotF off' out) as [H1 [_ H2]]; try assumption.
  { intro g. cbn. split; [intros []|congruence]. }
  split; assumption.
Qed.

(* ------------------------------------------------------------------ *)
(* records, every type: what UnpackRR reads from canonical octets msg[off:off']
   with a non-empty RDATA, packRR writes back as the same octets *)
Theorem rr_converse_all msg off r off' L ls cap out :
  wfb msg -> unpack_rr msg off = Ok (r, off') ->
  find_layout layouts (rr_kind r) = Some L ->
  rr_rdlength r <> 0 ->
  valid_wire ls = true -> off + lenN (wire_name ls) <= lenN msg ->
  take_at msg off (lenN (wire_name ls)) = wire_name ls ->
  plain_fields2 (tl_pack L) (tl_unpack L) [] (takeN off' msg) (off + lenN (wire_name ls) + 10) ->
  present (tl_pack L) (rr_data r) ->
  lenN msg + 320 <= cap -> lenN out = off ->
  off < off' <= lenN msg /\
  pack_rr r cap false (st0 out) = Ok (st0 (out ++ take_at msg off (off' - off))).
Proof.
  intros Hw H Hfind Hrdl Hls Hwl Ewire Hplain Hpres Hcap Ho.
  pose proof (wire_name_len_pos ls) as Hwn1.
  unfold unpack_rr in H. inv_bind H. destruct a as [[hd off1] tmsg].
  unfold unpack_rr_header in Ha.
  destruct (off =? lenN msg) eqn:E0; [lia|].
  assert (Hun : unpack_name msg off = Ok (show_name ls, off + lenN (wire_name ls))).
  { assert (Emsg : msg = takeN off msg ++ wire_name ls ++ dropN (off + lenN (wire_name ls)) msg).
    { rewrite <- Ewire at 1. rewrite app_assoc, <- takeN_split by lia. symmetry. apply firstn_skipn. }
    set (pre := takeN off msg) in *. set (post := dropN (off + lenN (wire_name ls)) msg) in *.
    assert (Eoff : lenN pre = off) by (apply lenN_takeN'; lia).
    rewrite Emsg, <- Eoff. apply unpack_name_exact, Hls. }
  rewrite Hun in Ha. cbn [bind fst snd] in Ha.
  set (o1 := off + lenN (wire_name ls)) in *.
  unfold unpack_fixed in Ha.
  destruct (lenN msg <? o1 + 2) eqn:E1; [discriminate|]. cbn [bind fst snd] in Ha.
  destruct (lenN msg <? o1 + 2 + 2) eqn:E2; [discriminate|]. cbn [bind fst snd] in Ha.
  destruct (lenN msg <? o1 + 2 + 2 + 4) eqn:E3; [discriminate|]. cbn [bind fst snd] in Ha.
  destruct (lenN msg <? o1 + 2 + 2 + 4 + 2) eqn:E4; [discriminate|]. cbn [bind fst snd] in Ha.
  set (T := take_at msg o1 2) in *. set (C := take_at msg (o1 + 2) 2) in *.
  set (TT := take_at msg (o1 + 2 + 2) 4) in *. set (RL := take_at msg (o1 + 2 + 2 + 4) 2) in *.
  set (rdl := be RL 0) in *.
  destruct (lenN msg <? o1 + 2 + 2 + 4 + 2 + rdl) eqn:E5; [discriminate|].
  injection Ha as <- <- <-.
  assert (HT : wfb T /\ lenN T = 2) by (split; [apply wfb_take_at, Hw|apply lenN_take_at; lia]).
  assert (HC : wfb C /\ lenN C = 2) by (split; [apply wfb_take_at, Hw|apply lenN_take_at; lia]).
  assert (HTT : wfb TT /\ lenN TT = 4) by (split; [apply wfb_take_at, Hw|apply lenN_take_at; lia]).
  assert (HRL : wfb RL /\ lenN RL = 2) by (split; [apply wfb_take_at, Hw|apply lenN_take_at; lia]).
  assert (Hrdl16 : rdl < 65536).
  { unfold rdl. pose proof (be_bound RL (proj1 HRL)) as Hb. rewrite (proj2 HRL) in Hb. exact Hb. }
  set (off1 := o1 + 2 + 2 + 4 + 2) in *.
  set (tmsg := takeN (off1 + rdl) msg) in *.
  assert (Htl : lenN tmsg = off1 + rdl) by (apply lenN_takeN'; lia).
  unfold unpack_rr_with_header in H. cbn [h_type h_name h_class h_ttl h_rdlength] in H.
  rewrite Htl in H.
  replace (off1 + rdl <? off1) with false in H by lia.
  replace (off1 + rdl <? off1 + rdl) with false in H by lia.
  destruct (rdl =? 0) eqn:Er0.
  { injection H as <- <-. cbn [rr_rdlength] in Hrdl. lia. }
  destruct (find_layout layouts (kind_of_type (be T 0))) as [L'|] eqn:EL; [|discriminate].
  inv_bind H. destruct a as [gotF e]. cbn [fst snd] in H.
  destruct (e =? off1 + rdl) eqn:Ee; [|discriminate]. injection H as <- <-.
  cbn [rr_kind rr_data rr_rdlength] in *. rewrite EL in Hfind. injection Hfind as ->.
  assert (Ee' : e = off1 + rdl) by lia. subst e.
  split; [lia|].
  (* the packer *)
  unfold pack_rr. cbn [rr_kind rr_data rr_name rr_type rr_class rr_ttl]. rewrite EL.
  unfold pack_header. cbn [rr_name rr_type rr_class rr_ttl]. rewrite poff_st0, Ho.
  bfalse (off =? cap).
  rewrite (pack_name_at (show_name ls) ls);
    [|apply is_fqdn_show_name, Hls|apply parse_show_name, Hls|apply valid_wire_len_ok, Hls|lia].
  cbn [bind]. rewrite !u16_be, u32_be by tauto.
  rewrite pack_fixed_room by (rewrite lenN_app; lia). cbn [bind].
  rewrite pack_fixed_room by (rewrite !lenN_app; lia). cbn [bind].
  rewrite pack_fixed_room by (rewrite !lenN_app; lia). cbn [bind].
  rewrite pack_fixed_room by (rewrite !lenN_app; cbn [u16 lenN length N.of_nat]; lia). cbn [bind].
  set (P := (((out ++ wire_name ls) ++ T) ++ C) ++ TT).
  assert (HP : lenN P = off1 - 2). { unfold P. rewrite !lenN_app. lia. }
  assert (Hplain' : plain_fields2 (tl_pack L) (tl_unpack L) [] tmsg off1).
  { unfold tmsg. replace off1 with (off + lenN (wire_name ls) + 10) at 2 by lia. exact Hplain. }
  destruct (fields_converse_all_top cap (tl_pack L) (tl_unpack L) tmsg off1 gotF (off1 + rdl) (P ++ u16 0))
    as [_ Hpf]; try assumption; try lia.
  { apply wfb_takeN, Hw. }
  { eapply sides_agree_of, EL. }
  { eapply layout_ok_of, EL. }
  { rewrite lenN_app, HP. cbn [u16 lenN length N.of_nat]. lia. }
  rewrite Hpf. cbn [bind].
  set (RD := take_at tmsg off1 (off1 + rdl - off1)).
  assert (HRD : lenN RD = rdl). { unfold RD. rewrite lenN_take_at by lia. lia. }
  unfold poff. cbn [st0 pn_out pn_cm].
  replace (lenN ((P ++ u16 0) ++ RD) - lenN (P ++ u16 0)) with rdl by (rewrite !lenN_app; lia).
  replace (lenN (P ++ u16 0)) with (lenN P + 2) by (rewrite lenN_app; reflexivity).
  bfalse (65535 <? rdl). bfalse (lenN P + 2 <? 2).
  f_equal. unfold st0. f_equal.
  replace (N.to_nat (lenN P + 2 - 2)) with (length P) by (unfold lenN; lia).
  replace (N.to_nat (lenN P + 2 - 1)) with (length (P ++ [rdl / 256]))
    by (rewrite app_length; unfold lenN; cbn [length]; lia).
  change (u16 0) with [0; 0]. rewrite <- app_assoc. cbn [app]. rewrite set_at_exact.
  replace (P ++ rdl / 256 :: 0 :: RD) with ((P ++ [rdl / 256]) ++ 0 :: RD)
    by (rewrite <- app_assoc; reflexivity).
  rewrite set_at_exact. rewrite <- app_assoc. cbn [app].
  change (rdl / 256 :: rdl mod 256 :: RD) with ([rdl / 256; rdl mod 256] ++ RD).
  rewrite (u16_small rdl) by lia. unfold rdl at 1. rewrite u16_be by tauto.
  unfold P. rewrite <- !app_assoc. f_equal.
  assert (ERD : RD = take_at msg off1 rdl).
  { unfold RD, tmsg. replace (off1 + rdl - off1) with rdl by lia. apply take_at_takeN. lia. }
  rewrite ERD, <- Ewire. unfold T, C, TT, RL.
  replace (off1 + rdl - off) with (lenN (wire_name ls) + (2 + (2 + (4 + (2 + rdl))))) by lia.
  rewrite take_at_split by lia. f_equal. fold o1.
  rewrite take_at_split by lia. f_equal.
  rewrite take_at_split by lia. f_equal.
  rewrite take_at_split by lia. f_equal.
  rewrite take_at_split by lia. f_equal.
Qed.

(* ================================================================== *)
(* non-vacuity: concrete records of the kinds added here, between other octets *)
Definition ex_hdr (t rdl : N) : bytes := [7; 7; 7] ++ wire_name ex_owner ++ [0; t; 0; 1; 0; 0; 14; 16; 0; rdl].
Definition ex_nsec_wire : bytes := ex_hdr 47 14 ++ [1; 97; 0; 0; 6; 64; 1; 0; 0; 0; 3; 1; 1; 64] ++ [9; 9].
Definition ex_https_wire : bytes :=
  ex_hdr 65 35 ++ [0; 1; 0; 0; 0; 0; 4; 0; 1; 0; 3; 0; 1; 0; 6; 2; 104; 50; 2; 104; 51; 0; 3; 0; 2; 1; 187;
                   0; 4; 0; 4; 192; 0; 2; 1] ++ [9; 9].
Definition ex_opt_wire : bytes :=
  ex_hdr 41 38 ++ [0; 8; 0; 7; 0; 1; 24; 0; 10; 1; 2; 0; 10; 0; 8; 1; 2; 3; 4; 5; 6; 7; 8; 0; 15; 0; 4; 0; 23; 104; 105;
                   0; 18; 0; 3; 1; 97; 0] ++ [9; 9].
Definition ex_apl_wire : bytes :=
  ex_hdr 42 19 ++ [0; 1; 20; 3; 10; 1; 16; 0; 2; 64; 136; 32; 1; 13; 184; 0; 0; 0; 1] ++ [9; 9].
Definition ex_ipseckey_wire : bytes := ex_hdr 45 10 ++ [10; 3; 2; 2; 103; 119; 0; 1; 2; 3] ++ [9; 9].
Definition ex_hip_wire : bytes := ex_hdr 55 17 ++ [2; 2; 0; 3; 9; 9; 1; 2; 3; 1; 97; 0; 1; 98; 1; 99; 0] ++ [9; 9].

(* the hypotheses of [rr_converse_all] and [rr_reunpack] and the conclusion of the former *)
Definition converse_example (w : bytes) (n : N) : Prop :=
  exists r L,
    wfb w /\ unpack_rr w 3 = Ok (r, n) /\
    find_layout layouts (rr_kind r) = Some L /\ rr_rdlength r <> 0 /\ valid_wire ex_owner = true /\
    take_at w 3 (lenN (wire_name ex_owner)) = wire_name ex_owner /\
    plain_fields2 (tl_pack L) (tl_unpack L) [] (takeN n w) (3 + lenN (wire_name ex_owner) + 10) /\
    present (tl_pack L) (rr_data r) /\ values_ok (rr_data r) (tl_pack L) /\
    pack_rr r 400 false (st0 [7; 7; 7]) = Ok (st0 (takeN n w)).

Ltac ex_start :=
  unfold converse_example; eexists; eexists;
  split; [unfold wfb; vm_compute; repeat constructor|];
  split; [vm_compute; reflexivity|]; split; [vm_compute; reflexivity|];
  split; [cbn; lia|]; split; [reflexivity|]; split; [vm_compute; reflexivity|].

Ltac ex_plain :=
  repeat (vm_compute;
          match goal with
          | |- _ /\ _ => split
          | |- True => exact I
          | |- _ = _ => reflexivity
          | |- _ = _ -> False => let H := fresh in intro H; discriminate H
          | |- _ = _ -> _ = _ => let H := fresh in intro H; first [discriminate H|reflexivity]
          | |- Forall _ _ => constructor
          | |- forall x, Some _ = Some x -> _ => let x := fresh in let H := fresh in intros x H; apply Some_inj in H; subst x
          | |- forall x, None = Some x -> _ => let x := fresh in let H := fresh in intros x H; discriminate H
          end).

Example nsec_converse_example : converse_example ex_nsec_wire 35.
Proof.
  ex_start. split. { ex_plain. exists [[97]]. split; reflexivity. }
  split; [solve [ex_plain]|]. split; [solve [ex_plain]|]. vm_compute. reflexivity.
Qed.

Example https_converse_example : converse_example ex_https_wire 56.
Proof.
  ex_start. split. { ex_plain. exists []. split; reflexivity. }
  split; [solve [ex_plain]|]. split; [solve [ex_plain]|]. vm_compute. reflexivity.
Qed.

Example opt_converse_example : converse_example ex_opt_wire 59.
Proof.
  ex_start. split; [solve [ex_plain]|].
  split; [solve [ex_plain]|]. split; [solve [ex_plain]|]. vm_compute. reflexivity.
Qed.

Example apl_converse_example : converse_example ex_apl_wire 40.
Proof.
  ex_start. split; [solve [ex_plain]|].
  split; [solve [ex_plain]|]. split; [solve [ex_plain]|]. vm_compute. reflexivity.
Qed.

Example ipseckey_converse_example : converse_example ex_ipseckey_wire 31.
Proof.
  ex_start. split. { ex_plain. intros _. exists [[103; 119]]. split; reflexivity. }
  split; [solve [ex_plain]|]. split; [solve [ex_plain]|]. vm_compute. reflexivity.
Qed.

Example hip_converse_example : converse_example ex_hip_wire 38.
Proof.
  ex_start. split. { ex_plain. - exists [[97]]. split; reflexivity. - exists [[98]; [99]]. split; reflexivity. }
  split; [solve [ex_plain]|]. split; [solve [ex_plain]|]. vm_compute. reflexivity.
Qed.

(* ================================================================== *)
(* accepted wire forms that do NOT re-pack to themselves.  [repack k w]: decode
   the octets w as one field of kind k, pack the value into an empty buffer. *)
Definition decoded (k : fkind) (w : bytes) : option (list fval) :=
  match unpack_field [] k w 0 with Ok (v, _) => Some v | _ => None end.
Definition repack (k : fkind) (w : bytes) : option bytes :=
  match unpack_field [] k w 0 with
  | Ok ([x], _) =>
    match pack_field [("F"%string, x)] "F" k 5000 (st0 []) with Ok st => Some (pn_out st) | _ => None end
  | _ => None
  end.
Definition reunpack (k : fkind) (w : bytes) : option (list fval) :=
  match repack k w with Some w' => decoded k w' | None => None end.

(* a bitmap block that ends in a zero octet (RFC 4034 4.1.2 forbids it, the
   decoder accepts it): the block is written back shorter, an all-zero block
   not at all *)
Lemma nsec_trailing_zero_refuted :
  decoded K_nsec [0; 2; 64; 0] = Some [V_ns [1]] /\ repack K_nsec [0; 2; 64; 0] = Some [0; 1; 64] /\
  ~ nsec_plain 5 [0; 2; 64; 0] 0 /\
  decoded K_nsec [0; 1; 0] = Some [V_ns []] /\ repack K_nsec [0; 1; 0] = Some [].
Proof.
  split; [vm_compute; reflexivity|]. split; [vm_compute; reflexivity|]. split.
  - intro H. vm_compute in H. destruct H as [H _]. apply H. reflexivity.
  - split; vm_compute; reflexivity.
Qed.

(* APL 1:10.1.1.1/8 with all four address octets present: accepted; packed as
   the masked, trimmed 10/8; and the re-packed octets decode to another value *)
Lemma apl_bits_beyond_prefix_refuted :
  decoded K_apl [0; 1; 8; 4; 10; 1; 1; 1] = Some [V_apl [(false, 8, [10; 1; 1; 1])]] /\
  repack K_apl [0; 1; 8; 4; 10; 1; 1; 1] = Some [0; 1; 8; 1; 10] /\
  reunpack K_apl [0; 1; 8; 4; 10; 1; 1; 1] = Some [V_apl [(false, 8, [10; 0; 0; 0])]] /\
  ~ apl_masked (false, 8, [10; 1; 1; 1]).
Proof.
  split; [vm_compute; reflexivity|]. split; [vm_compute; reflexivity|]. split; [vm_compute; reflexivity|].
  intro H. vm_compute in H. discriminate H.
Qed.

(* EDNS0 options the option codecs normalise: LLQ longer than 18 octets, UL with
   a zero key lease, SUBNET family 0 with trailing octets, SUBNET with address
   bits beyond the source prefix, EXPIRE longer than 4 octets, TCP-KEEPALIVE
   with timeout 0, REPORTING with octets after the name, REPORTING with a
   compression pointer inside the option *)
Lemma opt_normalised_refuted :
  map (repack K_opt)
    [ [0; 1; 0; 19; 7; 7; 7; 7; 7; 7; 7; 7; 7; 7; 7; 7; 7; 7; 7; 7; 7; 7; 7];
      [0; 2; 0; 8; 0; 0; 0; 5; 0; 0; 0; 0];
      [0; 8; 0; 5; 0; 0; 0; 0; 9];
      [0; 8; 0; 8; 0; 1; 8; 0; 10; 1; 1; 1];
      [0; 9; 0; 5; 1; 2; 3; 4; 5];
      [0; 11; 0; 2; 0; 0];
      [0; 18; 0; 5; 1; 97; 0; 9; 9];
      [0; 18; 0; 7; 1; 97; 192; 4; 1; 98; 0] ] =
    [ Some [0; 1; 0; 18; 7; 7; 7; 7; 7; 7; 7; 7; 7; 7; 7; 7; 7; 7; 7; 7; 7; 7];
      Some [0; 2; 0; 4; 0; 0; 0; 5];
      Some [0; 8; 0; 4; 0; 0; 0; 0];
      Some [0; 8; 0; 5; 0; 1; 8; 0; 10];
      Some [0; 9; 0; 4; 1; 2; 3; 4];
      Some [0; 11; 0; 0];
      Some [0; 18; 0; 3; 1; 97; 0];
      Some [0; 18; 0; 5; 1; 97; 1; 98; 0] ].
Proof. vm_compute. reflexivity. Qed.

(* SVCB: a mandatory list that is not sorted is written back sorted; an alpn
   value holding an empty id is refused by the decoder (since fix 59da914 of
   the library: before, it was accepted although neither the zone parser nor
   pack() accept it, so the record could not be packed again) *)
Lemma svcb_normalised_refuted :
  repack K_svcb [0; 0; 0; 4; 0; 4; 0; 1] = Some [0; 0; 0; 4; 0; 1; 0; 4] /\
  decoded K_svcb [0; 1; 0; 1; 0] = None /\
  decoded K_svcb [0; 1; 0; 2; 1; 104] = Some [V_pairs [(1, [1; 104], 2)]].
Proof. split; [vm_compute; reflexivity|]. split; vm_compute; reflexivity. Qed.

(* a compression pointer inside RDATA is followed by the decoder; the packer
   (without a compression map) writes the name in full *)
Lemma names_pointer_refuted :
  decoded (K_names false) [1; 97; 0; 192; 0] = Some [V_ss [[97; 46]; [97; 46]]] /\
  repack (K_names false) [1; 97; 0; 192; 0] = Some [1; 97; 0; 1; 97; 0].
Proof. split; vm_compute; reflexivity. Qed.

(* an octet string whose text exceeds packStringOctet's 1025 octets is decoded
   but cannot be packed again *)
Lemma octet_too_long_refuted :
  decoded K_octet (repeat 92 520) <> None /\ repack K_octet (repeat 92 520) = None.
Proof. split; [vm_compute; discriminate|vm_compute; reflexivity]. Qed.

(* records.  [rr_repack w]: UnpackRR at offset 0, packRR into an empty buffer *)
Definition rr_repack (w : bytes) : option bytes :=
  match unpack_rr w 0 with
  | Ok (r, _) => match pack_rr r 400 false (st0 []) with Ok st => Some (pn_out st) | _ => None end
  | _ => None
  end.
(* an MX with RDLENGTH 0: UnpackRR returns it without RDATA fields, packRR
   writes the zero preference (hypothesis rr_rdlength r <> 0);
   an SOA cut after its two names: unpack() returns early, pack() writes the
   five absent integers as zeros (hypothesis present);
   an NSEC whose bitmap block ends in a zero octet *)
Lemma record_repack_refuted :
  rr_repack [0; 0; 15; 0; 1; 0; 0; 0; 0; 0; 0] = Some [0; 0; 15; 0; 1; 0; 0; 0; 0; 0; 2; 0; 0] /\
  rr_repack [0; 0; 6; 0; 1; 0; 0; 0; 0; 0; 2; 0; 0] =
    Some [0; 0; 6; 0; 1; 0; 0; 0; 0; 0; 22; 0; 0; 0; 0; 0; 0; 0; 0; 0; 0; 0; 0; 0; 0; 0; 0; 0; 0; 0; 0; 0; 0] /\
  rr_repack [0; 0; 47; 0; 1; 0; 0; 0; 0; 0; 5; 0; 0; 2; 64; 0] = Some [0; 0; 47; 0; 1; 0; 0; 0; 0; 0; 4; 0; 0; 1; 64].
Proof. split; [vm_compute; reflexivity|]. split; vm_compute; reflexivity. Qed.

(* the number of record types the theorems range over *)
Lemma layouts_count : length layouts = 81%nat.
Proof. vm_compute. reflexivity. Qed.

(* ================================================================== *)
(* the conditions are exact: when the packer writes back the octets that were
   read, the condition holds *)
Lemma st0_inj a b : st0 a = st0 b -> a = b.
Proof. intro H. exact (f_equal pn_out H). Qed.
Lemma Ok_st0_inj a b : @Ok pn_state (st0 a) = Ok (st0 b) -> a = b.
Proof. intro H. apply st0_inj. congruence. Qed.

Lemma app_eq_len {A} (a b c d : list A) : length a = length b -> a ++ c = b ++ d -> a = b /\ c = d.
Proof.
  revert b; induction a as [|x a IH]; intros b Hl H; destruct b as [|y b]; try discriminate Hl.
  - split; [reflexivity|exact H].
  - cbn in H. injection H as -> H. destruct (IH b ltac:(cbn in Hl; lia) H) as [-> ->]. split; reflexivity.
Qed.

(* one (code, length, value) triple *)
Lemma pair_item_nec msg off code n b lb C r :
  wfb msg -> off + 4 + n + r <= lenN msg ->
  code = be (take_at msg off 2) 0 -> n = be (take_at msg (off + 2) 2) 0 -> lenN b < 65536 ->
  enc_pair (code, b, lb) ++ C = take_at msg off (4 + n + r) ->
  b = take_at msg (off + 4) n /\ C = take_at msg (off + 4 + n) r.
Proof.
  intros Hw Hl Ec En Hb H.
  assert (Hn : n < 65536) by (subst n; apply be2_bound; [exact Hw|lia]).
  rewrite <- (pair_wire msg off code n lb r Hw Hl Ec En) in H.
  unfold enc_pair, pkey in H. cbn [fst snd] in H. rewrite <- !app_assoc in H.
  apply app_inv_head in H. rewrite lenN_take_at in H by lia.
  unfold u16 in H. cbn [app] in H. injection H as H1 H2 H.
  assert (Elen : lenN b = n) by lia.
  apply app_eq_len in H; [exact H|]. rewrite <- Elen. unfold take_at, takeN, dropN, lenN in *.
  rewrite firstn_length, skipn_length. lia.
Qed.

Lemma opts_acc_prefix fuel : forall msg off acc l off',
  unpack_opts_go fuel msg off acc = Ok (l, off') -> exists l', l = acc ++ l'.
Proof.
  induction fuel as [|f IH]; intros msg off acc l off' H; [discriminate|].
  cbn [unpack_opts_go] in H. destruct (off <? lenN msg).
  - destruct (lenN msg <? off + 4); [discriminate|]. destruct (lenN msg <? _); [discriminate|].
    destruct (opt_view _ _) as [[b lb]|]; [|discriminate].
    apply IH in H. destruct H as [l' ->]. eexists. rewrite <- app_assoc. reflexivity.
  - apply Ok_pair_inj in H. destruct H as [<- _]. exists []. now rewrite app_nil_r.
Qed.

Lemma opts_plain_nec fuel : forall msg off acc l' off',
  wfb msg -> off <= lenN msg -> (N.to_nat (lenN msg - off) < fuel)%nat ->
  unpack_opts_go fuel msg off acc = Ok (acc ++ l', off') ->
  concat (map enc_pair l') = take_at msg off (off' - off) ->
  opts_plain fuel msg off.
Proof.
  induction fuel as [|f IH]; intros msg off acc l' off' Hw Hoff Hf H Henc; [exact I|].
  cbn [unpack_opts_go opts_plain] in *. destruct (off <? lenN msg) eqn:E; [|exact I].
  destruct (lenN msg <? off + 4) eqn:E4; [discriminate|]. cbv zeta.
  set (code := be (take_at msg off 2) 0) in *. set (n := be (take_at msg (off + 2) 2) 0) in *.
  destruct (lenN msg <? off + 4 + n) eqn:E5; [discriminate|].
  destruct (opt_view code (take_at msg (off + 4) n)) as [[b lb]|] eqn:Ev; [|discriminate].
  pose proof (unpack_opts_go_safe f msg (off + 4 + n) (acc ++ [(code, b, lb)]) ltac:(lia) ltac:(lia)) as Hsafe.
  rewrite H in Hsafe. cbn [safe] in Hsafe.
  destruct (opts_acc_prefix _ _ _ _ _ _ H) as [l'' El].
  rewrite <- app_assoc in El. apply app_inv_head in El. cbn [app] in El. subst l'.
  cbn [map concat] in Henc.
  replace (off' - off) with (4 + n + (off' - (off + 4 + n))) in Henc by lia.
  destruct (opt_view_idem code _ b lb (wfb_take_at msg (off + 4) n Hw) Ev) as [_ Hbl].
  rewrite lenN_take_at in Hbl by lia.
  assert (Hn : n < 65536) by (apply be2_bound; [exact Hw|lia]).
  destruct (pair_item_nec msg off code n b lb _ (off' - (off + 4 + n)) Hw ltac:(lia) eq_refl eq_refl ltac:(lia) Henc) as [Eb EC].
  split; [cbn [view_id]; exact Eb|].
  apply (IH msg (off + 4 + n) (acc ++ [(code, b, lb)]) l'' off' Hw ltac:(lia) ltac:(lia)); [now rewrite <- app_assoc|exact EC].
Qed.

Theorem opts_converse_iff msg off l off' cap out :
  wfb msg -> off <= lenN msg -> lenN msg <= cap -> lenN out = off ->
  unpack_opts msg off = Ok (l, off') ->
  (pack_opts l cap (st0 out) = Ok (st0 (out ++ take_at msg off (off' - off))) <->
   opts_plain (S (length msg)) msg off).
Proof.
  intros Hw Hoff Hcap Ho H. split.
  - intro Hp. apply pack_opts_ok in Hp. apply st0_inj in Hp. apply app_inv_head in Hp.
    unfold unpack_opts in H. apply (opts_plain_nec _ msg off [] l off' Hw Hoff (fuel_enough msg off) H). now symmetry.
  - intro Hp. exact (proj2 (opts_converse msg off l off' cap out Hw Hoff Hcap Ho H Hp)).
Qed.

(* SVCB parameters *)
Lemma svcb_view_len key data b l : wfb data -> svcb_view key data = Some (b, l) -> lenN b <= lenN data.
Proof.
  intros Hw H. unfold svcb_view in H.
  destruct (key =? 65535); [discriminate|].
  destruct (key =? 0).
  { destruct (lenN data mod 2 =? 0) eqn:Em; [|discriminate]. spi H.
    destruct (pairs16_spec data (length data) (le_n _) Hw) as [P1 P2].
    rewrite len_flat_u16. unfold lenN in *. rewrite sort_n_length. lia. }
  destruct (key =? 1).
  { destruct (alpn_scan _ _) as [he|]; [|discriminate]. destruct he; [discriminate|]. spi H. lia. }
  destruct (key =? 2). { destruct (lenN data =? 0); [|discriminate]. spi H. cbn. lia. }
  destruct (key =? 3). { destruct (lenN data =? 2); [|discriminate]. spi H. lia. }
  destruct (key =? 4). { destruct (_ || _); [discriminate|]. spi H. lia. }
  destruct (key =? 6). { destruct (_ || _); [discriminate|]. spi H. lia. }
  destruct (key =? 8). { destruct (lenN data =? 0); [|discriminate]. spi H. cbn. lia. }
  spi H. lia.
Qed.

Lemma svcb_acc_prefix fuel : forall msg off last acc l off',
  unpack_svcb_go fuel msg off last acc = Ok (l, off') -> exists l', l = acc ++ l'.
Proof.
  induction fuel as [|f IH]; intros msg off last acc l off' H; [discriminate|].
  cbn [unpack_svcb_go] in H. destruct (off <? lenN msg).
  - destruct (lenN msg <? off + 2); [discriminate|]. destruct (lenN msg <? off + 2 + 2); [discriminate|].
    destruct (lenN msg <? _); [discriminate|].
    destruct (svcb_view _ _) as [[b lb]|]; [|discriminate]. destruct (_ <=? last)%Z; [discriminate|].
    apply IH in H. destruct H as [l' ->]. eexists. rewrite <- app_assoc. reflexivity.
  - apply Ok_pair_inj in H. destruct H as [<- _]. exists []. now rewrite app_nil_r.
Qed.

Lemma svcb_plain_nec fuel : forall msg off last acc l' off',
  wfb msg -> off <= lenN msg -> (N.to_nat (lenN msg - off) < fuel)%nat ->
  unpack_svcb_go fuel msg off last acc = Ok (acc ++ l', off') ->
  concat (map enc_pair l') = take_at msg off (off' - off) ->
  svcb_plain fuel msg off.
Proof.
  induction fuel as [|f IH]; intros msg off last acc l' off' Hw Hoff Hf H Henc; [exact I|].
  cbn [unpack_svcb_go svcb_plain] in *. destruct (off <? lenN msg) eqn:E; [|exact I].
  destruct (lenN msg <? off + 2) eqn:E2; [discriminate|].
  destruct (lenN msg <? off + 2 + 2) eqn:E4; [discriminate|]. cbv zeta.
  set (code := be (take_at msg off 2) 0) in *. set (n := be (take_at msg (off + 2) 2) 0) in *.
  destruct (lenN msg <? off + 2 + 2 + n) eqn:E5; [discriminate|].
  destruct (svcb_view code (take_at msg (off + 2 + 2) n)) as [[b lb]|] eqn:Ev; [|discriminate].
  destruct (Z.of_N code <=? last)%Z; [discriminate|].
  pose proof (unpack_svcb_go_safe f msg (off + 2 + 2 + n) (Z.of_N code) (acc ++ [(code, b, lb)]) ltac:(lia) ltac:(lia)) as Hsafe.
  rewrite H in Hsafe. cbn [safe] in Hsafe.
  destruct (svcb_acc_prefix _ _ _ _ _ _ _ H) as [l'' El].
  rewrite <- app_assoc in El. apply app_inv_head in El. cbn [app] in El. subst l'.
  cbn [map concat] in Henc.
  replace (off' - off) with (4 + n + (off' - (off + 4 + n))) in Henc by lia.
  pose proof (svcb_view_len code _ b lb (wfb_take_at msg (off + 2 + 2) n Hw) Ev) as Hbl.
  rewrite lenN_take_at in Hbl by lia.
  assert (Hn : n < 65536) by (apply be2_bound; [exact Hw|lia]).
  destruct (pair_item_nec msg off code n b lb _ (off' - (off + 4 + n)) Hw ltac:(lia) eq_refl eq_refl ltac:(lia) Henc) as [Eb EC].
  replace (off + 2 + 2) with (off + 4) in * by lia.
  split; [cbn [view_id]; exact Eb|].
  apply (IH msg (off + 4 + n) (Z.of_N code) (acc ++ [(code, b, lb)]) l'' off' Hw ltac:(lia) ltac:(lia)); [now rewrite <- app_assoc|exact EC].
Qed.

Lemma svcb_keys_sorted fuel : forall msg off last acc l off',
  (-1 <= last)%Z -> unpack_svcb_go fuel msg off last acc = Ok (l, off') ->
  exists l', l = acc ++ l' /\ sorted_from (Z.to_N (last + 1)) (map pkey l').
Proof.
  induction fuel as [|f IH]; intros msg off last acc l off' Hlast H; [discriminate|].
  cbn [unpack_svcb_go] in H. destruct (off <? lenN msg).
  - destruct (lenN msg <? off + 2); [discriminate|]. destruct (lenN msg <? off + 2 + 2); [discriminate|].
    destruct (lenN msg <? _); [discriminate|].
    set (code := be (take_at msg off 2) 0) in *.
    destruct (svcb_view _ _) as [[b lb]|]; [|discriminate]. destruct (Z.of_N code <=? last)%Z eqn:Ez; [discriminate|].
    assert (Hc : (-1 <= Z.of_N code)%Z) by (clearbody code; lia).
    destruct (IH _ _ (Z.of_N code) _ _ _ Hc H) as [l' [-> Hs]]. exists ((code, b, lb) :: l'). split; [now rewrite <- app_assoc|].
    cbn [map sorted_from]. unfold pkey at 1 2. cbn [fst]. split; [lia|].
    replace (code + 1) with (Z.to_N (Z.of_N code + 1)) by lia. exact Hs.
  - apply Ok_pair_inj in H. destruct H as [<- _]. exists []. split; [now rewrite app_nil_r|exact I].
Qed.

Theorem svcb_converse_iff msg off l off' cap out :
  wfb msg -> off <= lenN msg -> lenN msg <= cap -> lenN out = off ->
  unpack_svcb msg off = Ok (l, off') ->
  (pack_svcb l cap (st0 out) = Ok (st0 (out ++ take_at msg off (off' - off))) <->
   svcb_plain (S (length msg)) msg off).
Proof.
  intros Hw Hoff Hcap Ho H. split.
  - intro Hp. unfold unpack_svcb in H.
    destruct (svcb_keys_sorted _ msg off (-1)%Z [] l off' ltac:(lia) H) as [l' [El Hs]]. cbn [app] in El. subst l'.
    change (Z.to_N (-1 + 1)) with 0 in Hs.
    unfold pack_svcb, sort_pairs in Hp. rewrite (sort_pairs_sorted l 0 []) in Hp by (exact Hs || constructor).
    cbn [app] in Hp. apply pack_pairs_go_ok in Hp. apply st0_inj in Hp. apply app_inv_head in Hp.
    apply (svcb_plain_nec _ msg off (-1)%Z [] l off' Hw Hoff (fuel_enough msg off) H). now symmetry.
  - intro Hp. exact (proj2 (svcb_converse msg off l off' cap out Hw Hoff Hcap Ho H Hp)).
Qed.

(* the loops stop at the end of the message *)
Lemma loop_end {A} (step : bytes -> N -> res (A * N)) (msg : bytes) : forall fuel off acc l off',
  loop step msg fuel off acc = Ok (l, off') -> (off' <? lenN msg) = false.
Proof.
  induction fuel as [|f IH]; intros off acc l off' H; [discriminate|].
  cbn [loop] in H. destruct (off <? lenN msg) eqn:E.
  - destruct (step msg off) as [[a o]| | |]; try discriminate. cbn [bind fst snd] in H. eapply IH, H.
  - apply Ok_pair_inj in H. destruct H as [_ <-]. exact E.
Qed.
Lemma loop_acc_prefix {A} (step : bytes -> N -> res (A * N)) (msg : bytes) : forall fuel off acc l off',
  loop step msg fuel off acc = Ok (l, off') -> exists l', l = acc ++ l'.
Proof.
  induction fuel as [|f IH]; intros off acc l off' H; [discriminate|].
  cbn [loop] in H. destruct (off <? lenN msg).
  - destruct (step msg off) as [[a o]| | |]; try discriminate. cbn [bind fst snd] in H.
    apply IH in H. destruct H as [l' ->]. eexists. rewrite <- app_assoc. reflexivity.
  - apply Ok_pair_inj in H. destruct H as [<- _]. exists []. now rewrite app_nil_r.
Qed.

(* a message that ends in the encodings of items meets a per-item condition *)
Lemma loop_plain_items {A} (step : bytes -> N -> res (A * N)) (PM : bytes -> N -> A -> N -> Prop)
      (items : list (A * bytes)) :
  (forall x b, In (x, b) items -> b <> [] /\
     forall pre post, step (pre ++ b ++ post) (lenN pre) = Ok (x, lenN pre + lenN b) /\
                      PM (pre ++ b ++ post) (lenN pre) x (lenN pre + lenN b)) ->
  forall fuel pre,
    loop_plain step (pre ++ concat (map snd items)) (PM (pre ++ concat (map snd items))) fuel (lenN pre).
Proof.
  induction items as [|[x b] items IH]; intros Hst fuel pre; (destruct fuel as [|f]; [exact I|]).
  - cbn [map concat loop_plain]. rewrite app_nil_r. bfalse (lenN pre <? lenN pre). exact I.
  - cbn [map concat loop_plain snd]. destruct (Hst x b (or_introl eq_refl)) as [Hne Hstep].
    assert (Hpos : 1 <= lenN b). { destruct b; [congruence|]. rewrite lenN_cons. lia. }
    rewrite !lenN_app. btrue (lenN pre <? lenN pre + (lenN b + lenN (concat (map snd items)))).
    destruct (Hstep pre (concat (map snd items))) as [Hs HP]. rewrite Hs. split; [exact HP|].
    specialize (IH ltac:(intros; apply Hst; right; assumption) f (pre ++ b)).
    rewrite <- app_assoc, lenN_app in IH. exact IH.
Qed.

Theorem names_converse_iff msg off l off' cap c out :
  wfb msg -> off <= lenN msg -> lenN msg + 320 <= cap -> lenN out = off ->
  unpack_names msg off = Ok (l, off') ->
  (pack_names l cap c (st0 out) = Ok (st0 (out ++ take_at msg off (off' - off))) <-> names_plain msg off).
Proof.
  intros Hw Hoff Hcap Ho H. split.
  - intro Hp. unfold unpack_names in H. rewrite unpack_names_is_loop in H.
    pose proof (loop_end _ _ _ _ _ _ _ H) as Hend.
    pose proof (unpack_names_safe msg off Hw Hoff) as Hsafe. unfold unpack_names in Hsafe.
    rewrite unpack_names_is_loop, H in Hsafe. cbn [safe] in Hsafe.
    assert (Eoff' : off' = lenN msg) by lia. subst off'.
    pose proof H as Hc.
    apply (loop_forall unpack_name msg (fun s => exists ls, s = show_name ls /\ valid_wire ls = true)) in Hc;
      [|intros ? ? ?; apply unpack_name_canon, Hw|constructor].
    apply Forall_exists_map in Hc. destruct Hc as [lss [-> Hl]].
    apply pack_names_show in Hp; [|exact Hl]. apply st0_inj in Hp. apply app_inv_head in Hp.
    rewrite take_at_to_end in Hp.
    assert (Emsg : msg = takeN off msg ++ concat (map wire_name lss)) by (rewrite <- Hp; symmetry; apply firstn_skipn).
    set (pre := takeN off msg) in *. assert (Epre : lenN pre = off) by (apply lenN_takeN'; exact Hoff).
    unfold names_plain. rewrite <- Epre.
    pose (items := map (fun ls => (show_name ls, wire_name ls)) lss).
    assert (Hgen : forall m, m = pre ++ concat (map snd items) ->
              loop_plain unpack_name m (fun off _ o => name_plain m off o) (S (length m)) (lenN pre)).
    2:{ apply Hgen. rewrite Emsg at 1. f_equal. f_equal. unfold items. symmetry. apply map_snd_pair. }
    intros m ->.
    apply (loop_plain_items unpack_name (fun m off _ o => name_plain m off o)).
    intros x b Hin. unfold items in Hin. apply in_map_iff in Hin. destruct Hin as [ls [E Hin]].
    injection E as <- <-. rewrite Forall_forall in Hl. specialize (Hl ls Hin).
    split; [apply wire_name_nonempty|]. intros pre0 post. split; [apply unpack_name_exact, Hl|].
    exists ls. split; [exact Hl|]. apply take_at_exact'; [reflexivity|lia].
  - intro Hp. exact (proj2 (names_converse msg off l off' cap c out Hw Hoff Hcap Ho H Hp)).
Qed.

(* APL *)
Lemma pack_apl_prefix_enc p cap out st' :
  (let '(_, _, ip) := p in lenN ip = 4 \/ lenN ip = 16) ->
  pack_apl_prefix p cap (st0 out) = Ok st' -> st' = st0 (out ++ enc_apl p).
Proof.
  destruct p as [[neg prefix] ip]. intros Hlen H. unfold pack_apl_prefix in H.
  assert (Hf : match lenN ip with 4 => Some 1 | 16 => Some 2 | _ => None end = Some (apl_fam ip)).
  { unfold apl_fam. destruct Hlen as [E|E]; rewrite E; reflexivity. }
  rewrite Hf in H. clear Hf.
  inv_bind H. apply pack_fixed_ok in Ha. subst a.
  inv_bind H. apply pack_fixed_ok in Ha. subst a.
  inv_bind H. apply pack_fixed_ok in Ha. subst a.
  apply pack_fixed_ok in H. subst st'. unfold enc_apl, apl_addr. rewrite <- !app_assoc. reflexivity.
Qed.

Lemma pack_apl_enc l : forall cap out st',
  Forall (fun p : bool * N * bytes => let '(_, _, ip) := p in lenN ip = 4 \/ lenN ip = 16) l ->
  pack_apl l cap (st0 out) = Ok st' -> st' = st0 (out ++ concat (map enc_apl l)).
Proof.
  induction l as [|p l IH]; intros cap out st' Hok H.
  - cbn in H. injection H as <-. cbn. now rewrite app_nil_r.
  - pose proof (Forall_inv Hok) as Hp. apply Forall_inv_tail in Hok.
    cbn [pack_apl] in H. inv_bind H. apply pack_apl_prefix_enc in Ha; [|exact Hp]. subst a.
    apply IH in H; [|exact Hok]. rewrite H. cbn [map concat]. now rewrite <- app_assoc.
Qed.

Lemma pad_trim_firstn (M : bytes) n il :
  length M = il -> skipn n M = repeat 0 (il - n) -> pad_right (trim_trailing_zeros (firstn n M)) il = M.
Proof.
  intros HM Hs. destruct (trim_repeat (firstn n M)) as [j Ej].
  set (t := trim_trailing_zeros (firstn n M)) in *.
  assert (Hl : (length t + j = Nat.min n il)%nat).
  { apply (f_equal (@length N)) in Ej. rewrite app_length, repeat_length, firstn_length, HM in Ej. lia. }
  rewrite pad_right_spec by lia.
  rewrite <- (firstn_skipn n M) at 1. rewrite Hs, Ej, <- app_assoc. f_equal. rewrite <- repeat_app. f_equal. lia.
Qed.

(* one prefix: when the packed form is what was read, the address is masked *)
Lemma apl_item_nec msg off p o C r :
  wfb msg -> unpack_apl_prefix msg off = Ok (p, o) -> o + r <= lenN msg ->
  enc_apl p ++ C = take_at msg off (o - off + r) ->
  apl_masked p /\ C = take_at msg o r.
Proof.
  intros Hw H Hr Henc. pose proof H as Hshape. apply unpack_apl_prefix_shape in Hshape.
  unfold unpack_apl_prefix in H.
  destruct (lenN msg <? off + 2) eqn:E1; [discriminate|].
  destruct (lenN msg <? off + 2 + 1) eqn:E2; [discriminate|].
  destruct (lenN msg <? off + 2 + 1 + 1) eqn:E3; [discriminate|].
  set (fam := be (take_at msg off 2) 0) in *. set (prefix := nthN msg (off + 2) 0) in *.
  set (nlen := nthN msg (off + 2 + 1) 0) in *.
  destruct (if fam =? 1 then Some 4 else if fam =? 2 then Some 16 else None) as [il|] eqn:Eil; [|discriminate].
  assert (Hil : il = 4 \/ il = 16).
  { destruct (fam =? 1); [left; congruence|]. destruct (fam =? 2); [right; congruence|discriminate]. }
  destruct (8 * il <? prefix) eqn:E8; [discriminate|].
  destruct (il <? nlen mod 128) eqn:E9; [discriminate|].
  destruct (lenN msg <? off + 2 + 1 + 1 + nlen mod 128) eqn:E10; [discriminate|].
  set (afd := nlen mod 128) in *. set (a := take_at msg (off + 2 + 1 + 1) afd) in *.
  destruct ((0 <? afd) && (nthN a (afd - 1) 0 =? 0)) eqn:Ez; [discriminate|].
  apply Ok_pair_inj in H. destruct H as [<- <-]. cbn [apl_masked].
  set (ip := pad_right a (N.to_nat il)) in *. destruct Hshape as [Hlip _].
  assert (Hal : lenN a = afd) by (apply lenN_take_at; lia).
  assert (Hipl : length ip = N.to_nat il) by (unfold ip; apply pad_right_length).
  assert (Hnl : nlen < 256) by (apply nthN_wfb; [exact Hw|lia]).
  pose proof (apl_addr_len prefix ip) as Haddr. set (addr := apl_addr prefix ip) in *.
  assert (Hlip' : lenN ip = il) by (unfold lenN; lia).
  (* split the octets read *)
  replace (off + 2 + 1 + 1 + afd - off + r) with (2 + (1 + (1 + (afd + r)))) in Henc by lia.
  rewrite (take_at_split msg off 2) in Henc by lia.
  rewrite (take_at_split msg (off + 2) 1), take_at_1 in Henc by lia.
  rewrite (take_at_split msg (off + 2 + 1) 1), take_at_1 in Henc by lia.
  rewrite (take_at_split msg (off + 2 + 1 + 1) afd) in Henc by lia.
  fold prefix nlen a in Henc. cbn [enc_apl] in Henc. fold addr in Henc. rewrite <- !app_assoc in Henc.
  pose proof (lenN_take_at msg off 2 ltac:(lia)) as Hx.
  apply app_eq_len in Henc; [|unfold lenN in Hx; cbn [u16 length]; lia].
  destruct Henc as [_ Henc]. unfold u8 in Henc. cbn [app] in Henc. injection Henc as _ En Henc.
  assert (Elen : lenN addr = afd).
  { unfold afd. destruct (128 <=? nlen) eqn:E128; lia. }
  apply app_eq_len in Henc; [|unfold lenN in *; lia]. destruct Henc as [Ea EC].
  split; [|exact EC].
  (* addr = a: the address is its own masked form *)
  unfold addr, apl_addr, takeN in Ea.
  pose proof (mask_idem ip prefix) as Hid. pose proof (masked_tail _ _ Hid) as Ht.
  rewrite mask_bytes_length in Ht.
  pose proof (pad_trim_firstn (mask_bytes ip prefix) (N.to_nat ((prefix + 7) / 8)) (length ip)
                (mask_bytes_length ip prefix) Ht) as Hpt.
  rewrite Ea in Hpt. rewrite Hipl in Hpt. symmetry. exact Hpt.
Qed.

Lemma apl_masked_nec fuel : forall msg off acc l' off',
  wfb msg -> off <= lenN msg -> (N.to_nat (lenN msg - off) < fuel)%nat ->
  loop unpack_apl_prefix msg fuel off acc = Ok (acc ++ l', off') ->
  concat (map enc_apl l') = take_at msg off (off' - off) ->
  Forall apl_masked l'.
Proof.
  induction fuel as [|f IH]; intros msg off acc l' off' Hw Hoff Hf H Henc; [discriminate|].
  cbn [loop] in H. destruct (off <? lenN msg) eqn:E.
  - destruct (unpack_apl_prefix msg off) as [[p o]| | |] eqn:Es; try discriminate. cbn [bind fst snd] in H.
    pose proof (unpack_apl_prefix_safe msg off) as Hsp. rewrite Es in Hsp. cbn in Hsp.
    pose proof (loop_safe unpack_apl_prefix msg (fun o _ => unpack_apl_prefix_safe msg o) f o (acc ++ [p])
                  ltac:(lia) ltac:(lia)) as Hsafe.
    rewrite H in Hsafe. cbn [safe] in Hsafe.
    destruct (loop_acc_prefix _ _ _ _ _ _ _ H) as [l'' El].
    rewrite <- app_assoc in El. apply app_inv_head in El. cbn [app] in El. subst l'.
    cbn [map concat] in Henc.
    replace (off' - off) with (o - off + (off' - o)) in Henc by lia.
    destruct (apl_item_nec msg off p o _ (off' - o) Hw Es ltac:(lia) Henc) as [Hm EC].
    constructor; [exact Hm|].
    apply (IH msg o (acc ++ [p]) l'' off' Hw ltac:(lia) ltac:(lia)); [now rewrite <- app_assoc|exact EC].
  - apply Ok_pair_inj in H. destruct H as [H _].
    rewrite <- (app_nil_r acc) in H at 1. apply app_inv_head in H. subst l'. constructor.
Qed.

Theorem apl_converse_iff msg off l off' cap out :
  wfb msg -> off <= lenN msg -> lenN msg <= cap -> lenN out = off ->
  unpack_apl msg off = Ok (l, off') ->
  (pack_apl l cap (st0 out) = Ok (st0 (out ++ take_at msg off (off' - off))) <-> Forall apl_masked l).
Proof.
  intros Hw Hoff Hcap Ho H. split.
  - intro Hp. unfold unpack_apl in H. rewrite unpack_apl_is_loop in H.
    assert (Hshape : Forall (fun p : bool * N * bytes => let '(_, _, ip) := p in lenN ip = 4 \/ lenN ip = 16) l).
    { apply (loop_forall unpack_apl_prefix msg _) with (fuel := S (length msg)) (off := off) (acc := @nil (bool * N * bytes)) (off' := off');
        [|constructor|exact H].
      intros o0 p o1 Hs. apply unpack_apl_prefix_shape in Hs. destruct p as [[? ?] ?]. tauto. }
    apply pack_apl_enc in Hp; [|exact Hshape]. apply st0_inj in Hp. apply app_inv_head in Hp.
    apply (apl_masked_nec _ msg off [] l off' Hw Hoff (fuel_enough msg off) H). now symmetry.
  - intro Hp. exact (proj2 (apl_converse msg off l off' cap out Hw Hoff Hcap Ho H Hp)).
Qed.

(* type bitmaps: what packDataNsec writes never ends a block in a zero octet *)
Lemma set_bit_nonzero x k : set_bit x k <> 0.
Proof.
  unfold set_bit. intro E. apply N.lor_eq_0_iff in E. destruct E as [_ E].
  apply N.shiftl_eq_0_iff in E. discriminate E.
Qed.
Lemma last_or_last cur len k : (1 <= len)%nat -> (length cur <= len)%nat ->
  last (or_last (pad_to cur len) k) 0 <> 0.
Proof.
  intros H1 Hl. pose proof (pad_to_length cur len Hl) as HP.
  destruct (exists_last (l := pad_to cur len)) as [init [c E]]. { intro E. rewrite E in HP. cbn in HP. lia. }
  rewrite E, or_last_snoc, last_last. apply set_bit_nonzero.
Qed.

Lemma nsec_plain_block fuel pre w cur post :
  1 <= lenN cur -> last cur 0 <> 0 ->
  nsec_plain fuel (pre ++ (w :: lenN cur :: cur) ++ post) (lenN pre + 2 + lenN cur) ->
  nsec_plain (S fuel) (pre ++ (w :: lenN cur :: cur) ++ post) (lenN pre).
Proof.
  intros Hc Hlast Hrest. cbn [nsec_plain].
  set (msg := pre ++ (w :: lenN cur :: cur) ++ post) in *.
  assert (Hlen : lenN msg = lenN pre + (2 + lenN cur) + lenN post).
  { unfold msg. rewrite !lenN_app, !lenN_cons. lia. }
  rewrite Hlen. btrue (lenN pre <? lenN pre + (2 + lenN cur) + lenN post). cbv zeta.
  assert (E2 : nthN msg (lenN pre + 1) 0 = lenN cur).
  { unfold msg. cbn [app]. replace (pre ++ w :: lenN cur :: cur ++ post) with ((pre ++ [w]) ++ lenN cur :: cur ++ post)
      by (rewrite <- app_assoc; reflexivity).
    apply nthN_exact. rewrite lenN_app, lenN_cons, lenN_nil. lia. }
  rewrite E2.
  assert (E3 : take_at msg (lenN pre + 2) (lenN cur) = cur).
  { unfold msg. cbn [app]. replace (pre ++ w :: lenN cur :: cur ++ post) with ((pre ++ [w; lenN cur]) ++ cur ++ post)
      by (rewrite <- app_assoc; reflexivity).
    apply take_at_exact. rewrite lenN_app, !lenN_cons, lenN_nil. lia. }
  rewrite E3. split; [exact Hlast|exact Hrest].
Qed.

Lemma nsec_plain_spec l : forall lw cur lo pre fuel,
  sorted_from lo l -> Forall (fun t => t < 65536) l ->
  lw * 256 <= lo -> wfb cur -> lenN cur <= 32 ->
  (cur <> [] -> lw * 256 + (lenN cur - 1) * 8 < lo) ->
  Forall (fun u => u < lo) (block_types lw 0 cur) ->
  (l <> [] \/ cur <> []) -> (cur <> [] -> last cur 0 <> 0) ->
  nsec_plain fuel (pre ++ nsec_spec l lw cur) (lenN pre).
Proof.
  induction l as [|t r IH]; intros lw cur lo pre fuel Hs Hb I1 Hw H32 I3 Hlt I5 Hlast.
  - assert (Hc : cur <> []) by (destruct I5; congruence).
    assert (Hc1 : 1 <= lenN cur). { destruct cur; [congruence|]. rewrite lenN_cons. lia. }
    cbn [nsec_spec]. destruct fuel as [|fuel]; [exact I|].
    pose proof (nsec_plain_block fuel pre lw cur [] Hc1 (Hlast Hc)) as Hblk. rewrite app_nil_r in Hblk.
    apply Hblk. destruct fuel as [|fuel]; [exact I|]. cbn [nsec_plain].
    rewrite lenN_app, !lenN_cons. bfalse (lenN pre + 2 + lenN cur <? lenN pre + (1 + (1 + lenN cur))). exact I.
  - destruct Hs as [Hlo Hs]. pose proof (Forall_inv Hb) as Ht. apply Forall_inv_tail in Hb.
    cbn [nsec_spec].
    set (w := t / 256) in *. set (len := (t - w * 256) / 8 + 1) in *.
    assert (Hw1 : lw <= w) by (unfold w; lia).
    assert (Hlen : 1 <= len <= 32) by (unfold len, w; lia).
    assert (Etk : t = w * 256 + (N.of_nat (N.to_nat len) - 1) * 8 + t mod 8) by (unfold len, w; lia).
    assert (Hk : t mod 8 < 8) by lia.
    destruct ((lw <? w) && negb (lenN cur =? 0)) eqn:Hcase.
    + assert (Hc1 : 1 <= lenN cur) by lia.
      assert (Hc : cur <> []) by (intro E; subst cur; cbn in Hc1; lia).
      destruct (bitmap_add w [] (N.to_nat len) (t mod 8) t) as [B1 [B2 B3]]; try assumption; try constructor; try (cbn; lia).
      set (cur2 := or_last (pad_to [] (N.to_nat len)) (t mod 8)) in *.
      destruct fuel as [|fuel]; [exact I|].
      apply nsec_plain_block; [exact Hc1|exact (Hlast Hc)|].
      replace (pre ++ (lw :: lenN cur :: cur) ++ nsec_spec r w cur2)
        with ((pre ++ lw :: lenN cur :: cur) ++ nsec_spec r w cur2) by (rewrite <- app_assoc; reflexivity).
      replace (lenN pre + 2 + lenN cur) with (lenN (pre ++ lw :: lenN cur :: cur))
        by (rewrite lenN_app, !lenN_cons; lia).
      apply (IH w cur2 (t + 1)); try assumption.
      * lia.
      * unfold lenN. rewrite B3. lia.
      * intros _. unfold lenN. rewrite B3. lia.
      * rewrite B1. constructor; [lia|constructor].
      * right. intro E. rewrite E in B3. cbn in B3. lia.
      * intros _. apply last_or_last; cbn [length]; lia.
    + assert (Hor : w = lw \/ cur = []).
      { apply andb_false_iff in Hcase. destruct Hcase as [Hc|Hc]; [left; lia|right; apply lenN_0; lia]. }
      assert (Hcl : (length cur <= N.to_nat len)%nat).
      { destruct cur as [|c0 cur']; [cbn; lia|]. specialize (I3 ltac:(discriminate)).
        destruct Hor as [Hor|Hor]; [|discriminate]. unfold lenN in I3. unfold len. subst lw.
        cbn [length] in *. lia. }
      assert (Hbt : block_types lw 0 cur ++ [t] =
                    block_types w 0 (or_last (pad_to cur (N.to_nat len)) (t mod 8)) /\
                    wfb (or_last (pad_to cur (N.to_nat len)) (t mod 8)) /\
                    length (or_last (pad_to cur (N.to_nat len)) (t mod 8)) = N.to_nat len).
      { destruct (bitmap_add w cur (N.to_nat len) (t mod 8) t) as [B1 [B2 B3]]; try assumption; try lia.
        - destruct Hor as [->| ->]; [|constructor].
          eapply Forall_impl; [|exact Hlt]. cbn beta. intros; lia.
        - split; [|split; assumption]. rewrite B1. destruct Hor as [->| ->]; reflexivity. }
      destruct Hbt as [B1 [B2 B3]].
      set (cur2 := or_last (pad_to cur (N.to_nat len)) (t mod 8)) in *.
      apply (IH w cur2 (t + 1)); try assumption.
      * lia.
      * unfold lenN. rewrite B3. lia.
      * intros _. unfold lenN. rewrite B3. lia.
      * rewrite <- B1. apply Forall_app. split; [|constructor; [lia|constructor]].
        eapply Forall_impl; [|exact Hlt]. cbn beta. intros; lia.
      * right. intro E. rewrite E in B3. cbn in B3. lia.
      * intros _. apply last_or_last; lia.
Qed.

Lemma unpack_nsec_go_end fuel : forall msg off lw acc l off',
  unpack_nsec_go fuel msg off lw acc = Ok (l, off') -> (off' <? lenN msg) = false.
Proof.
  induction fuel as [|f IH]; intros msg off lw acc l off' H; [discriminate|].
  cbn [unpack_nsec_go] in H. destruct (off <? lenN msg) eqn:E.
  - destruct (lenN msg <? off + 2); [discriminate|]. destruct (_ <=? lw)%Z; [discriminate|].
    destruct (_ =? 0); [discriminate|]. destruct (32 <? _); [discriminate|]. destruct (lenN msg <? _); [discriminate|].
    eapply IH, H.
  - apply Ok_pair_inj in H. destruct H as [_ <-]. exact E.
Qed.

Theorem nsec_converse_iff msg off l off' cap out :
  wfb msg -> off <= lenN msg -> lenN msg + 320 <= cap -> lenN out = off ->
  unpack_nsec msg off = Ok (l, off') ->
  (pack_nsec l cap (st0 out) = Ok (st0 (out ++ take_at msg off (off' - off))) <->
   nsec_plain (S (length msg)) msg off).
Proof.
  intros Hw Hoff Hcap Ho H. split.
  - intro Hp.
    destruct (unpack_nsec_canon msg off l off' Hw H) as [Hs Hb].
    pose proof (unpack_nsec_safe msg off Hoff) as Hsafe. rewrite H in Hsafe. cbn [safe] in Hsafe.
    unfold unpack_nsec in H. pose proof (unpack_nsec_go_end _ _ _ _ _ _ _ H) as Hend.
    assert (Eoff' : off' = lenN msg) by lia. subst off'. rewrite take_at_to_end in Hp.
    destruct l as [|t r].
    + cbn [pack_nsec] in Hp. apply Ok_st0_inj in Hp. rewrite <- (app_nil_r out) in Hp at 1.
      apply app_inv_head in Hp.
      assert (off = lenN msg).
      { apply (f_equal (@length N)) in Hp. unfold dropN in Hp. rewrite skipn_length in Hp. cbn in Hp. unfold lenN in *. lia. }
      cbn [nsec_plain]. bfalse (off <? lenN msg). exact I.
    + unfold pack_nsec in Hp. destruct (cap <? poff (st0 out)); [discriminate|].
      apply nsec_go_spec in Hp. apply st0_inj in Hp. apply app_inv_head in Hp.
      assert (Emsg : msg = takeN off msg ++ nsec_spec (t :: r) 0 []) by (rewrite <- Hp; symmetry; apply firstn_skipn).
      set (pre := takeN off msg) in *. assert (Epre : lenN pre = off) by (apply lenN_takeN'; exact Hoff).
      rewrite <- Epre. rewrite Emsg at 2.
      generalize (S (length msg)) as fuel. intro fuel.
      apply (nsec_plain_spec (t :: r) 0 [] 0); try assumption.
      * lia.
      * constructor.
      * cbn. lia.
      * congruence.
      * constructor.
      * left. discriminate.
      * congruence.
  - intro Hp. exact (proj2 (nsec_converse msg off l off' cap out Hw Hoff Hcap Ho H Hp)).
Qed.

(* a single name (K_name, the gateway host) *)
Theorem name_converse_iff msg off s o cap c out :
  wfb msg -> off <= lenN msg -> unpack_name msg off = Ok (s, o) ->
  lenN msg + 320 <= cap -> lenN out = off ->
  (pack_name s cap c (st0 out) = Ok (st0 (out ++ take_at msg off (o - off))) <-> name_plain msg off o).
Proof.
  intros Hw Hoff H Hcap Ho. split.
  - intro Hp. destruct (unpack_name_canon msg off s o Hw H) as [ls [-> Hls]].
    apply pack_name_show in Hp; [|exact Hls]. apply st0_inj, app_inv_head in Hp.
    exists ls. split; [exact Hls|exact Hp].
  - intro Hp. exact (proj2 (name_converse msg off s o cap c out Hw Hoff H Hp Hcap Ho)).
Qed.
