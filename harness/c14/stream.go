package main

// C14, stream histories under every segmentation of the byte stream.
//
// A stream message is the two-octet length prefix followed by that many octets,
// however the transport happens to cut the byte stream into reads. The histories
// here (1..n messages of every admission class on one connection, optionally
// followed by an incomplete frame) are delivered to the REAL serveTCP ->
// serveTCPConn -> readTCP -> serveDNS loop through a scripted net.Conn whose
// Read calls return exactly the segments of a chosen segmentation: everything at
// once, octet by octet, cut in two at every offset (so also between the two
// octets of every length prefix and between prefix and body), cut at BOTH
// octets of every prefix at once, fixed segment sizes, random cuts (several
// messages per segment). The property's per-message clauses are evaluated for
// every message of every delivery (handler exactly once for an admitted
// decodable message, exactly one FORMERR/NOTIMP for a rejected one, the invalid
// callback only for an invalid one and with that message's octets, nothing for
// an ignored one), nothing may be left over that no message accounts for, and
// the log must not depend on the segmentation. One model case per history ties
// the framing to Model/Serve.v (read_frames / serve_stream).

import (
	"bytes"
	"encoding/binary"
	"fmt"
	"strings"

	"github.com/miekg/dns"
	. "verif/harness/common"
)

type streamIn struct {
	Policy string   `json:"policy"`
	Msgs   []string `json:"messages_hex"`
	Tail   string   `json:"incomplete_tail_hex,omitempty"`
	Segs   []int    `json:"segment_lengths"`
	Events string   `json:"events"`
}

func frameOf(m []byte) []byte {
	return append(binary.BigEndian.AppendUint16(nil, uint16(len(m))), m...)
}

// cutAt splits s at the given ascending offsets (offsets outside 1..len-1 and
// duplicates are dropped).
func cutAt(s []byte, offs []int) [][]byte {
	var out [][]byte
	prev := 0
	for _, o := range offs {
		if o <= prev || o >= len(s) {
			continue
		}
		out = append(out, s[prev:o])
		prev = o
	}
	return append(out, s[prev:])
}

func fixedCuts(n, size int) []int {
	var o []int
	for k := size; k < n; k += size {
		o = append(o, k)
	}
	return o
}

// expectedEvents: how many events (handler call, library reply, invalid
// callback) the property allots to the message m under policy pol.
func expectedEvents(pol string, m []byte) int {
	h, hok := hdrOf(m)
	if !hok {
		return 1 // reported
	}
	switch policyAction(pol, h) {
	case dns.MsgIgnore:
		return 0
	case dns.MsgReject, dns.MsgRejectNotImplemented:
		return 1 // one reply
	}
	if _, _, err := unpackOracle(m); err != nil {
		return 2 // reported and answered FORMERR
	}
	return 1 // handler
}

// streamDeliver serves one delivery of the history and returns the event log
// (handler's own writes dropped, invalid callbacks marked when their octets are
// not the message's). All per-message oracles are applied.
func streamDeliver(pol string, ms [][]byte, tail []byte, limit int, segs [][]byte, what string) (log string, ok bool) {
	rec := &recorder{multi: true}
	srv := newServer(pol, rec)
	srv.MaxTCPQueries = limit
	var sl []int
	for _, s := range segs {
		sl = append(sl, len(s))
	}
	mkIn := func(ev []string) streamIn {
		in := streamIn{Policy: pol, Tail: Hx(tail), Segs: sl, Events: strings.Join(ev, ";")}
		for _, m := range ms {
			in.Msgs = append(in.Msgs, Hx(m))
		}
		return in
	}
	good := false
	if !decoderSafe("tcp", pol, ms...) {
		return "", false
	}
	if Protect(func() string { good = serveLoopChunks(srv, segs, rec); return "" }) == "panic" {
		Viol("C14/Serve/panic", "server panicked ("+what+")", mkIn(nil))
		return "", false
	}
	if !good {
		stat["infra_timeout"]++
		return "", false
	}
	stat["stream_deliveries_checked"]++
	var ev []string
	var evInv []int // index into rec.invs, or -1
	var evReq []int // index into rec.reqs, or -1
	ni, nr := 0, 0
	for _, e := range rec.ev {
		if strings.HasPrefix(e, "hw:") {
			continue
		}
		ii, ri := -1, -1
		if strings.HasPrefix(e, "inv:") {
			ii = ni
			ni++
		}
		if strings.HasPrefix(e, "h:") {
			ri = nr
			nr++
		}
		ev = append(ev, e)
		evInv = append(evInv, ii)
		evReq = append(evReq, ri)
	}
	served := ms
	if limit > 0 && len(served) > limit {
		served = served[:limit] // the connection is closed after MaxTCPQueries messages
	}
	in := mkIn(ev)
	pos := 0
	var outEv []string
	for i, m := range served {
		n := expectedEvents(pol, m)
		end := pos + n
		if end > len(ev) {
			end = len(ev)
		}
		sub := &recorder{in: m}
		var slice []string
		for k := pos; k < end; k++ {
			e := ev[k]
			if evInv[k] >= 0 && !bytes.Equal(rec.invs[evInv[k]], m) {
				e += ":OTHERBYTES"
			}
			if evReq[k] >= 0 && evReq[k] < len(rec.reqs) {
				sub.reqs = append(sub.reqs, rec.reqs[evReq[k]])
			}
			slice = append(slice, e)
		}
		outEv = append(outEv, slice...)
		serveOracleIn("tcp", pol, m, slice, sub, fmt.Sprintf("stream message %d of %d, %s", i+1, len(ms), what), in)
		pos = end
	}
	// what is left over belongs to no message of the stream
	for k := pos; k < len(ev); k++ {
		e := ev[k]
		if evInv[k] >= 0 {
			e += ":OTHERBYTES"
		}
		outEv = append(outEv, e)
		if len(served) == len(ms) && len(tail) > 0 && evInv[k] >= 0 {
			continue // an incomplete frame may be reported; it is not a message
		}
		Viol("C14/Serve/stream-extra-event", "event "+ev[k]+" is accounted for by no message of the stream ("+what+")", in)
	}
	if len(outEv) == 0 {
		return "none", true
	}
	return strings.Join(outEv, ";"), true
}

// segmentations of a stream whose frames start at the offsets starts
// (exhaustive two-cuts when all is set, else two-cuts around every frame start).
func segmentations(r *Rng, stream []byte, starts []int, all bool) (out [][][]byte, names []string) {
	add := func(name string, offs []int) {
		out = append(out, cutAt(stream, offs))
		names = append(names, name)
	}
	n := len(stream)
	add("one segment", nil)
	add("octet by octet", fixedCuts(n, 1))
	// every length prefix cut in the middle and separated from its body
	var pre, mid []int
	for _, s := range starts {
		pre = append(pre, s, s+1, s+2)
		mid = append(mid, s+1)
	}
	add("every length prefix cut in two and cut off its body", pre)
	add("every length prefix cut in two", mid)
	for _, sz := range []int{2, 3, 5, 7, 13} {
		add(fmt.Sprintf("segments of %d octets", sz), fixedCuts(n, sz))
	}
	if all {
		for k := 1; k < n; k++ {
			add(fmt.Sprintf("two segments cut at %d", k), []int{k})
		}
	} else {
		seen := map[int]bool{}
		for _, s := range starts {
			for k := s - 2; k <= s+4; k++ {
				if k >= 1 && k < n && !seen[k] {
					seen[k] = true
					add(fmt.Sprintf("two segments cut at %d", k), []int{k})
				}
			}
		}
		for j := 0; j < 4 && n > 1; j++ {
			k := 1 + r.Intn(n-1)
			if !seen[k] {
				seen[k] = true
				add(fmt.Sprintf("two segments cut at %d", k), []int{k})
			}
		}
	}
	for j := 0; j < 3 && n > 2; j++ { // random cuts, several messages per segment
		var offs []int
		k := 0
		for {
			if r.Intn(3) == 0 {
				k += 1 + r.Intn(3)
			} else {
				k += 1 + r.Intn(2*n/(len(starts)+1)+2)
			}
			if k >= n {
				break
			}
			offs = append(offs, k)
		}
		add("random cuts", offs)
	}
	return
}

func streamHistory(r *Rng, pol string, ms [][]byte, tail []byte, limit int, all, emit bool) {
	var stream []byte
	var starts []int
	for _, m := range ms {
		starts = append(starts, len(stream))
		stream = append(stream, frameOf(m)...)
	}
	if len(tail) > 0 {
		starts = append(starts, len(stream))
		stream = append(stream, tail...)
	}
	if len(stream) == 0 {
		return
	}
	stat["stream_histories"]++
	if len(tail) > 0 {
		stat["stream_histories_incomplete_tail"]++
	}
	if len(stream) <= 700 {
		all = true // cheap enough: cut in two at every offset
	}
	segs, names := segmentations(r, stream, starts, all)
	ref, refOK := "", false
	for i, sg := range segs {
		log, ok := streamDeliver(pol, ms, tail, limit, sg, names[i])
		if !ok {
			continue
		}
		if !refOK {
			ref, refOK = log, true
			continue
		}
		if log != ref {
			in := streamIn{Policy: pol, Tail: Hx(tail), Events: log}
			for _, m := range ms {
				in.Msgs = append(in.Msgs, Hx(m))
			}
			for _, s := range sg {
				in.Segs = append(in.Segs, len(s))
			}
			Viol("C14/Serve/stream-segmentation", "what the server does with the messages of a stream depends on how the stream is cut into reads ("+names[i]+"): "+log+" against "+ref+" when delivered at once", in)
		}
	}
	if emit && refOK {
		args := []string{pol, Itoa(limit), Hx(stream)}
		for _, m := range ms {
			u, _, _ := unpackOracle(m)
			args = append(args, u)
		}
		Emit("stream", args, ref)
		stat["stream_cases"]++
	}
}

// paddedQuery: an acceptable query of exactly n octets (EDNS0 padding).
func paddedQuery(r *Rng, n int) []byte {
	m := new(dns.Msg)
	m.Id = uint16(r.Next())
	m.Question = []dns.Question{{Name: "pad.example.", Qtype: dns.TypeA, Qclass: 1}}
	m.RecursionDesired = true
	m.SetEdns0(4096, false)
	opt := m.IsEdns0()
	pad := &dns.EDNS0_PADDING{Padding: []byte{}}
	opt.Option = append(opt.Option, pad)
	base := len(mustPack(m))
	if n < base {
		n = base
	}
	pad.Padding = make([]byte, n-base)
	return mustPack(m)
}

func runStreams(r *Rng, tier string) {
	// one message of every admission class
	q := baseQuery(r)
	okq := mustPack(q)
	rq := *q
	rq.Question = append([]dns.Question(nil), q.Question...)
	rq.Question = append(rq.Question, dns.Question{Name: "two.example.", Qtype: 1, Qclass: 1})
	rejected := mustPack(&rq)
	nq := *q
	nq.Opcode = dns.OpcodeUpdate
	notimp := mustPack(&nq)
	iq := *q
	iq.Response = true
	ignored := mustPack(&iq)
	malformed := append([]byte(nil), okq[:len(okq)-3]...)
	short := append([]byte(nil), okq[:7]...)
	classes := [][]byte{okq, rejected, notimp, ignored, malformed, short, {}}
	for _, m := range classes {
		streamHistory(r, "default", [][]byte{m}, nil, 0, true, true)
	}
	// every ordered pair of classes
	for i, a := range classes {
		for j, b := range classes {
			streamHistory(r, "default", [][]byte{a, b}, nil, 0, false, (i*7+j)%3 == 0)
		}
	}
	// messages whose length prefix has a non-zero high octet / a zero low octet
	for _, n := range []int{255, 256, 257, 300, 511, 512, 513, 1024, 4096} {
		big := paddedQuery(r, n)
		streamHistory(r, "default", [][]byte{big}, nil, 0, n <= 300, n <= 300)
		streamHistory(r, "default", [][]byte{okq, big, notimp, big, short}, nil, 0, false, false)
	}
	// random histories from the message pool of runServe
	pool := genMessages(r, 12)
	nh := 60
	if tier == "thorough" {
		nh = 400
	}
	pols := []string{"default", "default", "accept", "reject", "ignore", "notimp"}
	for k := 0; k < nh; k++ {
		var ms [][]byte
		for j := 1 + r.Intn(6); j > 0; j-- {
			m := pool[r.Intn(len(pool))]
			if r.Intn(3) == 0 {
				m = classes[r.Intn(len(classes))]
			}
			if len(m) > 300 {
				continue
			}
			ms = append(ms, m)
		}
		var tail []byte
		if k%3 == 0 { // the connection ends inside a frame
			f := frameOf(pool[r.Intn(len(pool))])
			tail = f[:1+r.Intn(len(f)-1)]
			if k%6 == 0 {
				tail = f[:1]
			}
		}
		streamHistory(r, pols[k%len(pols)], ms, tail, 0, false, k%2 == 0)
	}
	// an incomplete frame after each class, cut inside the prefix, after it, inside the body
	for _, m := range classes[:5] {
		f := frameOf(okq)
		for _, c := range []int{1, 2, 3, len(f) - 1} {
			streamHistory(r, "default", [][]byte{m}, f[:c], 0, false, c == 1)
		}
	}
	// many messages on one connection: up to the per-connection limit every one
	// is a message of the stream; the configured limit and the default of 128
	hdr := func(bits uint16) []byte {
		b := make([]byte, 12)
		binary.BigEndian.PutUint16(b, uint16(r.Next()))
		binary.BigEndian.PutUint16(b[2:], bits)
		return b
	}
	var many [][]byte
	for k := 0; k < 128; k++ {
		switch k % 4 {
		case 0:
			many = append(many, hdr(0x2800)) // UPDATE: NOTIMP
		case 1:
			many = append(many, hdr(0x8000)) // QR
		case 2:
			many = append(many, hdr(0)) // no question: FORMERR
		default:
			many = append(many, short)
		}
	}
	streamHistory(r, "default", many, nil, 0, false, true)
	streamHistory(r, "default", many[:9], nil, 9, false, true)
	streamHistory(r, "default", many[:40], nil, -1, false, false)
}
