(* Proofs/CompressProofs.v — the compression map of packDomainName, name level.

   [laysn out p ls h e]: reading [out] at offset p and following compression
   pointers yields exactly the labels ls (raw octets, root = []), using h pointer
   hops; e is the offset just after the contiguous encoding that starts at p
   (after the root octet, or after the first pointer).  Every pointer targets an
   earlier offset that holds a label-length octet (never another pointer).

   The step theorems say what pack_name does to the output and to the map; they
   are stated for every buffer content of the same length (forall pre) so that
   octets patched later (RDLENGTH) cannot matter. *)
From Dns Require Import Base.ListX Model.NameWire Spec.NameSpec Proofs.EscapeProofs
  Proofs.TokenProofs Proofs.LabelsProofs Proofs.NameWireProofs Proofs.NameRoundtripProofs.
From Coq Require Import Lia ZifyN ZifyNat ZifyBool.
Open Scope N_scope.

(* ================= A. a name laid at an offset ================= *)
Definition lab_ok (l : label) : Prop := l <> [] /\ lenN l < 64.

Inductive laysn (out : bytes) : N -> list label -> nat -> N -> Prop :=
| L_root p pre rest :
    out = pre ++ 0 :: rest -> p = lenN pre ->
    laysn out p [] O (p + 1)
| L_label p pre l rest ls h e :
    lab_ok l -> out = pre ++ lenN l :: l ++ rest -> p = lenN pre ->
    laysn out (p + 1 + lenN l) ls h e ->
    laysn out p (l :: ls) h e
| L_ptr p pre c c1 rest ls h e :
    out = pre ++ c :: c1 :: rest -> p = lenN pre -> 192 <= c ->
    (c - 192) * 256 + c1 < p -> (c - 192) * 256 + c1 < max_compression_offset ->
    1 <= nthN out ((c - 192) * 256 + c1) 0 < 64 -> ls <> [] ->
    laysn out ((c - 192) * 256 + c1) ls h e ->
    laysn out p ls (S h) (p + 2).

Definition lays (out : bytes) (p : N) (ls : list label) : Prop := exists h e, laysn out p ls h e.

(* ---------- list helpers ---------- *)
Lemma nthN_app_l {A} (a b : list A) i d : i < lenN a -> nthN (a ++ b) i d = nthN a i d.
Proof. unfold nthN, lenN. intro H. apply app_nth1. lia. Qed.

Lemma split_at {A} (l : list A) p d : p < lenN l ->
  l = takeN p l ++ nthN l p d :: dropN (p + 1) l /\ lenN (takeN p l) = p.
Proof.
  unfold lenN, takeN, dropN, nthN. intro H.
  replace (N.to_nat (p + 1)) with (S (N.to_nat p)) by lia.
  set (n := N.to_nat p). assert (Hn : (n < length l)%nat) by lia.
  split.
  - clearbody n. clear H. revert l Hn. induction n as [|n IH]; intros l Hn.
    + destruct l; [cbn in Hn; lia|reflexivity].
    + destruct l as [|x l]; [cbn in Hn; lia|]. cbn [firstn nth skipn app]. f_equal.
      apply IH. cbn in Hn. lia.
  - rewrite firstn_length. lia.
Qed.

Lemma take_drop {A} (l : list A) n : l = takeN n l ++ dropN n l.
Proof. unfold takeN, dropN. now rewrite firstn_skipn. Qed.

Lemma lenN_takeN {A} (l : list A) n : n <= lenN l -> lenN (takeN n l) = n.
Proof. unfold lenN, takeN. intro H. rewrite firstn_length. lia. Qed.

(* ---------- introduction rules by octets (the reading of the brief) ---------- *)
Lemma laysn_root_at out p : p < lenN out -> nthN out p 0 = 0 -> laysn out p [] O (p + 1).
Proof.
  intros Hp H0. destruct (split_at out p 0 Hp) as [E L]. rewrite H0 in E.
  eapply L_root; [exact E|now rewrite L].
Qed.

Lemma laysn_label_at out p l ls h e :
  lab_ok l -> p + 1 + lenN l <= lenN out -> nthN out p 0 = lenN l ->
  takeN (lenN l) (dropN (p + 1) out) = l ->
  laysn out (p + 1 + lenN l) ls h e -> laysn out p (l :: ls) h e.
Proof.
  intros Hok Hlen Hc Hl H. assert (Hp : p < lenN out) by lia.
  destruct (split_at out p 0 Hp) as [E L]. rewrite Hc in E.
  rewrite (take_drop (dropN (p + 1) out) (lenN l)), Hl in E.
  eapply L_label; [exact Hok|exact E|now rewrite L|exact H].
Qed.

Lemma laysn_ptr_at out p ls h e :
  p + 1 < lenN out -> 192 <= nthN out p 0 ->
  (nthN out p 0 - 192) * 256 + nthN out (p + 1) 0 < p ->
  (nthN out p 0 - 192) * 256 + nthN out (p + 1) 0 < max_compression_offset ->
  1 <= nthN out ((nthN out p 0 - 192) * 256 + nthN out (p + 1) 0) 0 < 64 -> ls <> [] ->
  laysn out ((nthN out p 0 - 192) * 256 + nthN out (p + 1) 0) ls h e ->
  laysn out p ls (S h) (p + 2).
Proof.
  intros Hp Hc Hq Hm Hlab Hne H. assert (Hp0 : p < lenN out) by lia.
  destruct (split_at out p 0 Hp0) as [E L].
  assert (Hd : dropN (p + 1) out = nthN out (p + 1) 0 :: dropN (p + 1 + 1) out).
  { destruct (split_at out (p + 1) 0 Hp) as [E1 L1].
    rewrite E1 at 1. rewrite <- L1 at 1. apply dropN_app_exact. }
  rewrite Hd in E.
  eapply L_ptr; [exact E|now rewrite L|exact Hc|exact Hq|exact Hm|exact Hlab|exact Hne|exact H].
Qed.

(* ---------- a fuelled boolean reader (used by the examples) ---------- *)
Fixpoint laysb (fuel : nat) (out : bytes) (p : N) (ls : list label) : bool :=
  match fuel with
  | O => false
  | S f =>
    if lenN out <=? p then false
    else
      let c := nthN out p 0 in
      if c =? 0 then match ls with [] => true | _ => false end
      else if c <? 64 then
        match ls with
        | l :: ls' => (lenN l =? c) && (p + 1 + c <=? lenN out)
                      && bytes_eqb (takeN c (dropN (p + 1) out)) l && laysb f out (p + 1 + c) ls'
        | [] => false
        end
      else if 192 <=? c then
        let q := (c - 192) * 256 + nthN out (p + 1) 0 in
        (p + 1 <? lenN out) && (q <? p) && (q <? max_compression_offset)
        && (1 <=? nthN out q 0) && (nthN out q 0 <? 64)
        && negb (match ls with [] => true | _ => false end) && laysb f out q ls
      else false
  end.

Lemma laysb_sound fuel : forall out p ls, laysb fuel out p ls = true -> lays out p ls.
Proof.
  induction fuel as [|f IH]; intros out p ls H; [discriminate|]. cbn [laysb] in H.
  destruct (lenN out <=? p) eqn:Hp; [discriminate|].
  destruct (nthN out p 0 =? 0) eqn:H0.
  - destruct ls; [|discriminate]. exists O, (p + 1). apply laysn_root_at; lia.
  - destruct (nthN out p 0 <? 64) eqn:H64.
    + destruct ls as [|l ls]; [discriminate|].
      apply andb_prop in H. destruct H as [H H4]. apply andb_prop in H. destruct H as [H H3].
      apply andb_prop in H. destruct H as [H1 H2]. apply bytes_eqb_eq in H3.
      apply IH in H4. destruct H4 as [h [e H4]].
      assert (Hc : nthN out p 0 = lenN l) by lia. rewrite Hc in *.
      exists h, e. apply laysn_label_at; auto; try lia.
      split; [|lia]. intro E. subst l. cbn in H0. discriminate.
    + destruct (192 <=? nthN out p 0) eqn:H192; [|discriminate].
      apply andb_prop in H. destruct H as [H H5]. apply andb_prop in H. destruct H as [H H4].
      apply andb_prop in H. destruct H as [H H3]. apply andb_prop in H. destruct H as [H H3'].
      apply andb_prop in H. destruct H as [H H3'']. apply andb_prop in H. destruct H as [H1 H2].
      apply IH in H5. destruct H5 as [h [e H5]].
      exists (S h), (p + 2). apply (laysn_ptr_at out p ls h e); auto; try lia.
      destruct ls; [discriminate|discriminate].
Qed.

(* ---------- monotone under append ---------- *)
Lemma laysn_app out p ls h e b : laysn out p ls h e -> laysn (out ++ b) p ls h e.
Proof.
  induction 1 as [p pre rest E P | p pre l rest ls h e Hok E P _ IH | p pre c c1 rest ls h e E P Hc Hq Hm Hl Hne _ IH].
  - eapply L_root; [|exact P]. rewrite E, <- app_assoc. reflexivity.
  - eapply L_label; [exact Hok| |exact P|exact IH].
    rewrite E, <- app_assoc. cbn [app]. rewrite <- app_assoc. reflexivity.
  - eapply L_ptr; [|exact P|exact Hc|exact Hq|exact Hm| |exact Hne|exact IH].
    + rewrite E, <- app_assoc. reflexivity.
    + rewrite nthN_app_l; [exact Hl|]. rewrite E, lenN_app. lia.
Qed.

Lemma laysn_bound out p ls h e : laysn out p ls h e -> p < lenN out /\ e <= lenN out.
Proof.
  induction 1 as [p pre rest E P | p pre l rest ls h e Hok E P _ IH | p pre c c1 rest ls h e E P Hc Hq Hm Hl Hne _ IH].
  - rewrite E, lenN_app, lenN_cons. lia.
  - split; [|tauto]. rewrite E, lenN_app, lenN_cons. lia.
  - rewrite E, lenN_app, !lenN_cons. lia.
Qed.

Lemma laysn_labels_ok out p ls h e : laysn out p ls h e -> Forall lab_ok ls.
Proof. induction 1; auto. Qed.

(* the octet at the start of a laid non-root name that is not a pointer *)
Lemma laysn_head out p ls h e : laysn out p ls h e ->
  match ls with
  | [] => nthN out p 0 = 0
  | l :: _ => nthN out p 0 = lenN l \/ 192 <= nthN out p 0
  end.
Proof.
  destruct 1 as [p pre rest E P | p pre l rest ls h e Hok E P _ | p pre c c1 rest ls h e E P Hc Hq Hm Hl Hne _].
  - subst. apply nthN_app_exact.
  - left. subst. apply nthN_app_exact.
  - destruct ls; [congruence|]. right. subst p. rewrite E, nthN_app_exact. exact Hc.
Qed.

(* walking a laid name: at a label octet the label is read and the walk goes on
   behind it; at a pointer the target is an earlier offset below the limit that
   holds a label octet, and the walk goes on there with the same labels left *)
Lemma laysn_label_inv out p ls h e : laysn out p ls h e -> 1 <= nthN out p 0 < 64 ->
  exists l ls', ls = l :: ls' /\ nthN out p 0 = lenN l /\
    takeN (lenN l) (dropN (p + 1) out) = l /\ laysn out (p + 1 + lenN l) ls' h e.
Proof.
  destruct 1 as [p pre rest E P | p pre l rest ls h e Hok E P H | p pre c c1 rest ls h e E P Hc Hq Hm Hl Hne _];
    intro Hr.
  - exfalso. subst. rewrite nthN_app_exact in Hr. lia.
  - exists l, ls. split; [reflexivity|]. subst p. split; [rewrite E; apply nthN_app_exact|]. split; [|exact H].
    rewrite E.
    replace (pre ++ lenN l :: l ++ rest) with ((pre ++ [lenN l]) ++ l ++ rest)
      by (rewrite <- app_assoc; reflexivity).
    replace (lenN pre + 1) with (lenN (pre ++ [lenN l])) by (rewrite lenN_app, lenN_cons, lenN_nil; lia).
    now rewrite dropN_app_exact, takeN_app_exact.
  - exfalso. subst p. rewrite E, nthN_app_exact in Hr. lia.
Qed.

Lemma laysn_ptr_inv out p ls h e : laysn out p ls h e -> 192 <= nthN out p 0 ->
  (nthN out p 0 - 192) * 256 + nthN out (p + 1) 0 < p /\
  (nthN out p 0 - 192) * 256 + nthN out (p + 1) 0 < max_compression_offset /\
  1 <= nthN out ((nthN out p 0 - 192) * 256 + nthN out (p + 1) 0) 0 < 64 /\ ls <> [] /\
  exists h' e', h = S h' /\ e = p + 2 /\
    laysn out ((nthN out p 0 - 192) * 256 + nthN out (p + 1) 0) ls h' e'.
Proof.
  destruct 1 as [p pre rest E P | p pre l rest ls h e Hok E P H | p pre c c1 rest ls h e E P Hc Hq Hm Hl Hne H];
    intro Hr.
  - exfalso. subst. rewrite nthN_app_exact in Hr. lia.
  - exfalso. destruct Hok as [_ H64]. subst p. rewrite E, nthN_app_exact in Hr. lia.
  - assert (Hn0 : nthN out p 0 = c). { subst p. rewrite E. apply nthN_app_exact. }
    assert (Hn1 : nthN out (p + 1) 0 = c1).
    { subst p. rewrite E.
      replace (pre ++ c :: c1 :: rest) with ((pre ++ [c]) ++ c1 :: rest) by (rewrite <- app_assoc; reflexivity).
      replace (lenN pre + 1) with (lenN (pre ++ [c])) by (rewrite lenN_app, lenN_cons, lenN_nil; lia).
      apply nthN_app_exact. }
    rewrite Hn0, Hn1. repeat split; auto; try lia. exists h, e. auto.
Qed.

(* the positions visited while reading a name, with the labels still to come *)
Inductive reach (out : bytes) : N -> list label -> N -> list label -> Prop :=
| R_here p ls : reach out p ls p ls
| R_label p l ls p' ls' :
    nthN out p 0 = lenN l -> 1 <= lenN l < 64 ->
    reach out (p + 1 + lenN l) ls p' ls' -> reach out p (l :: ls) p' ls'
| R_ptr p ls p' ls' :
    192 <= nthN out p 0 ->
    reach out ((nthN out p 0 - 192) * 256 + nthN out (p + 1) 0) ls p' ls' -> reach out p ls p' ls'.

Lemma reach_lays out p ls p' ls' : reach out p ls p' ls' -> forall h e, laysn out p ls h e ->
  (exists h' e', laysn out p' ls' h' e') /\ exists pre, ls = pre ++ ls'.
Proof.
  induction 1 as [p ls | p l ls p' ls' Hn Hl _ IH | p ls p' ls' Hc _ IH]; intros h e H.
  - split; [now exists h, e|now exists []].
  - destruct (laysn_label_inv _ _ _ _ _ H ltac:(lia)) as [l0 [ls0 [E [_ [_ H']]]]].
    injection E as <- <-. destruct (IH _ _ H') as [A [pre B]]. split; [exact A|].
    exists (l :: pre). now rewrite B.
  - destruct (laysn_ptr_inv _ _ _ _ _ H Hc) as [_ [_ [_ [_ [h' [e' [_ [_ H']]]]]]]].
    exact (IH _ _ H').
Qed.

(* every pointer met while reading a laid name targets an earlier offset below
   the limit that holds a label octet, where a non-empty suffix of the name is laid *)
Theorem laid_pointers_valid out p ls p' ls' :
  lays out p ls -> reach out p ls p' ls' -> 192 <= nthN out p' 0 ->
  (nthN out p' 0 - 192) * 256 + nthN out (p' + 1) 0 < p' /\
  (nthN out p' 0 - 192) * 256 + nthN out (p' + 1) 0 < max_compression_offset /\
  1 <= nthN out ((nthN out p' 0 - 192) * 256 + nthN out (p' + 1) 0) 0 < 64 /\
  ls' <> [] /\ lays out ((nthN out p' 0 - 192) * 256 + nthN out (p' + 1) 0) ls' /\
  exists pre, ls = pre ++ ls'.
Proof.
  intros [h [e H]] Hr Hc. destruct (reach_lays _ _ _ _ _ Hr _ _ H) as [[h' [e' H']] Hpre].
  destruct (laysn_ptr_inv _ _ _ _ _ H' Hc) as [A [B [C [D [h2 [e2 [_ [_ E]]]]]]]].
  repeat split; auto; try lia. now exists h2, e2.
Qed.

(* hops: every hop lands on a label, so there are at most as many hops as labels *)
Lemma laysn_hops out p ls h e : laysn out p ls h e ->
  (h <= length ls)%nat /\ (nthN out p 0 < 64 -> (h < length ls)%nat \/ h = O).
Proof.
  induction 1 as [p pre rest E P | p pre l rest ls h e Hok E P _ IH | p pre c c1 rest ls h e E P Hc Hq Hm Hl Hne _ IH].
  - cbn. lia.
  - cbn [length]. lia.
  - assert (Hpos : (0 < length ls)%nat) by (destruct ls; [congruence|cbn; lia]).
    destruct IH as [IH1 IH2]. specialize (IH2 (proj2 Hl)). split; [lia|].
    intro H. exfalso. subst p. rewrite E, nthN_app_exact in H. lia.
Qed.

(* ================= C5. the real decoder reads a laid name ================= *)
Lemma un_go_laysn out p ls h e : laysn out p ls h e ->
  forall fuel s off1 budget ptr,
  (length ls + h < fuel)%nat -> (Z.of_N (lenN (wire_labels ls)) < budget)%Z ->
  ptr + N.of_nat h <= max_pointers ->
  un_go fuel out p s off1 budget ptr =
  Ok (match s ++ show_labels ls with [] => [46] | x => x end, if ptr =? 0 then e else off1).
Proof.
  induction 1 as [p pre rest E P | p pre l rest ls h e Hok E P _ IH | p pre c c1 rest ls h e E P Hc Hq Hm Hl Hne _ IH];
    intros fuel s off1 budget ptr Hfuel Hbud Hptr.
  - destruct fuel as [|fuel]; [cbn [length] in Hfuel; lia|]. cbn [un_go]. subst out p.
    rewrite lenN_app, lenN_cons. bfalse (lenN pre + (1 + lenN rest) <=? lenN pre).
    rewrite nthN_app_exact. cbn [N.ltb N.eqb N.compare]. cbn [show_labels flat_map]. rewrite app_nil_r.
    destruct s; reflexivity.
  - destruct fuel as [|fuel]; [cbn [length] in Hfuel; lia|]. cbn [un_go].
    destruct Hok as [Hne Hl64].
    assert (Hl1 : 1 <= lenN l). { destruct l; [congruence|]. rewrite lenN_cons. lia. }
    assert (Hlen : lenN out = lenN pre + 1 + lenN l + lenN rest).
    { rewrite E, lenN_app, lenN_cons, lenN_app. lia. }
    assert (Hn0 : nthN out p 0 = lenN l). { subst p. rewrite E. apply nthN_app_exact. }
    rewrite Hn0. subst p. bfalse (lenN out <=? lenN pre).
    btrue (lenN l <? 64). bfalse (lenN l =? 0).
    bfalse (lenN out <? lenN pre + 1 + lenN l).
    rewrite wire_labels_cons, lenN_cons, lenN_app in Hbud.
    match goal with |- context [(?b <=? 0)%Z] => bfalse (b <=? 0)%Z end.
    assert (Hlab : takeN (lenN l) (dropN (lenN pre + 1) out) = l).
    { rewrite E.
      replace (pre ++ lenN l :: l ++ rest) with ((pre ++ [lenN l]) ++ l ++ rest)
        by (rewrite <- app_assoc; reflexivity).
      replace (lenN pre + 1) with (lenN (pre ++ [lenN l])) by (rewrite lenN_app, lenN_cons, lenN_nil; lia).
      now rewrite dropN_app_exact, takeN_app_exact. }
    rewrite Hlab.
    rewrite IH; [|cbn [length] in Hfuel; lia|clear - Hbud; lia|exact Hptr].
    rewrite show_labels_cons, <- !app_assoc. cbn [app]. reflexivity.
  - destruct fuel as [|fuel]; [lia|]. cbn [un_go].
    assert (Hlen : lenN out = lenN pre + 2 + lenN rest).
    { rewrite E, lenN_app, !lenN_cons. lia. }
    assert (Hn0 : nthN out p 0 = c). { subst p. rewrite E. apply nthN_app_exact. }
    assert (Hn1 : nthN out (p + 1) 0 = c1).
    { subst p. rewrite E.
      replace (pre ++ c :: c1 :: rest) with ((pre ++ [c]) ++ c1 :: rest) by (rewrite <- app_assoc; reflexivity).
      replace (lenN pre + 1) with (lenN (pre ++ [c])) by (rewrite lenN_app, lenN_cons, lenN_nil; lia).
      apply nthN_app_exact. }
    rewrite Hn0, Hn1. bfalse (lenN out <=? p). bfalse (c <? 64). btrue (192 <=? c).
    bfalse (lenN out <=? p + 1). bfalse (max_pointers <? ptr + 1).
    rewrite IH; [|lia|exact Hbud|lia].
    bfalse (ptr + 1 =? 0). destruct (ptr =? 0); f_equal; f_equal; lia.
Qed.

(* ... and more hops than max_pointers are refused (un_go level; for names of at
   most 255 wire octets this cannot happen, see laysn_hops_127) *)
Lemma un_go_laysn_err out p ls h e : laysn out p ls h e ->
  forall fuel s off1 budget ptr,
  (length ls + h < fuel)%nat -> (Z.of_N (lenN (wire_labels ls)) < budget)%Z ->
  ptr <= max_pointers -> max_pointers < ptr + N.of_nat h ->
  un_go fuel out p s off1 budget ptr = Err "pointers".
Proof.
  induction 1 as [p pre rest E P | p pre l rest ls h e Hok E P _ IH | p pre c c1 rest ls h e E P Hc Hq Hm Hl Hne _ IH];
    intros fuel s off1 budget ptr Hfuel Hbud Hptr Hover.
  - lia.
  - destruct fuel as [|fuel]; [cbn [length] in Hfuel; lia|]. cbn [un_go].
    destruct Hok as [Hne Hl64].
    assert (Hl1 : 1 <= lenN l). { destruct l; [congruence|]. rewrite lenN_cons. lia. }
    assert (Hlen : lenN out = lenN pre + 1 + lenN l + lenN rest).
    { rewrite E, lenN_app, lenN_cons, lenN_app. lia. }
    assert (Hn0 : nthN out p 0 = lenN l). { subst p. rewrite E. apply nthN_app_exact. }
    rewrite Hn0. subst p. bfalse (lenN out <=? lenN pre).
    btrue (lenN l <? 64). bfalse (lenN l =? 0).
    bfalse (lenN out <? lenN pre + 1 + lenN l).
    rewrite wire_labels_cons, lenN_cons, lenN_app in Hbud.
    match goal with |- context [(?b <=? 0)%Z] => bfalse (b <=? 0)%Z end.
    apply IH; [cbn [length] in Hfuel; lia|clear - Hbud; lia|exact Hptr|exact Hover].
  - destruct fuel as [|fuel]; [lia|]. cbn [un_go].
    assert (Hlen : lenN out = lenN pre + 2 + lenN rest).
    { rewrite E, lenN_app, !lenN_cons. lia. }
    assert (Hn0 : nthN out p 0 = c). { subst p. rewrite E. apply nthN_app_exact. }
    assert (Hn1 : nthN out (p + 1) 0 = c1).
    { subst p. rewrite E.
      replace (pre ++ c :: c1 :: rest) with ((pre ++ [c]) ++ c1 :: rest) by (rewrite <- app_assoc; reflexivity).
      replace (lenN pre + 1) with (lenN (pre ++ [c])) by (rewrite lenN_app, lenN_cons, lenN_nil; lia).
      apply nthN_app_exact. }
    rewrite Hn0, Hn1. bfalse (lenN out <=? p). bfalse (c <? 64). btrue (192 <=? c).
    bfalse (lenN out <=? p + 1).
    destruct (max_pointers <? ptr + 1) eqn:Hmp; [reflexivity|].
    apply IH; [lia|exact Hbud|lia|lia].
Qed.

Lemma lab_ok_wire_len ls : Forall lab_ok ls -> 2 * N.of_nat (length ls) <= lenN (wire_labels ls).
Proof.
  induction 1 as [|l ls [Hne _] _ IH]; [cbn; lia|].
  rewrite wire_labels_cons, lenN_cons, lenN_app. cbn [length].
  assert (1 <= lenN l). { destruct l; [congruence|]. rewrite lenN_cons. lia. }
  lia.
Qed.

Lemma unpack_fuel_enough n h : 2 * N.of_nat n <= 254 -> (h <= 127)%nat -> (n + h < unpack_name_fuel)%nat.
Proof. unfold unpack_name_fuel. lia. Qed.

Lemma unpack_fuel_enough2 n h : 2 * N.of_nat n <= 254 -> (h <= n)%nat -> (n + h < unpack_name_fuel)%nat.
Proof. unfold unpack_name_fuel. lia. Qed.

Local Opaque un_go.
Local Strategy opaque [unpack_name_fuel].

(* C5: a laid name of at most 255 wire octets reached through at most 127 hops is
   read by UnpackDomainName as the presentation form of exactly those labels,
   and the decoder reports the end of the contiguous encoding *)
Theorem lays_unpack out p ls h e :
  laysn out p ls h e -> wire_len ls <= 255 -> (h <= 127)%nat ->
  unpack_name out p = Ok (show_name ls, e).
Proof.
  intros H Hlen Hh. unfold unpack_name.
  unfold wire_len, wire_name in Hlen. rewrite lenN_app, lenN_cons, lenN_nil in Hlen.
  pose proof (lab_ok_wire_len ls (laysn_labels_ok _ _ _ _ _ H)) as Hn.
  rewrite (un_go_laysn out p ls h e H).
  - cbn [app N.eqb]. unfold show_name. destruct ls as [|l ls]; [reflexivity|].
    pose proof (show_labels_nonempty l ls). destruct (show_labels (l :: ls)); [congruence|reflexivity].
  - apply unpack_fuel_enough; lia.
  - unfold max_name_wire. lia.
  - unfold max_pointers. lia.
Qed.

(* a name of at most 255 wire octets has at most 127 labels, and every hop lands
   on a label: at most 127 hops, which is the decoder's limit *)
Theorem laysn_hops_127 out p ls h e :
  laysn out p ls h e -> wire_len ls <= 255 -> (length ls <= 127)%nat /\ (h <= 127)%nat.
Proof.
  intros H Hlen. unfold wire_len, wire_name in Hlen. rewrite lenN_app, lenN_cons, lenN_nil in Hlen.
  pose proof (lab_ok_wire_len ls (laysn_labels_ok _ _ _ _ _ H)) as Hn.
  pose proof (laysn_hops _ _ _ _ _ H) as [Hh _]. lia.
Qed.

(* hence every laid name within the 255-octet limit is decodable *)
Theorem lays_unpack_labels out p ls h e :
  laysn out p ls h e -> wire_len ls <= 255 ->
  unpack_name out p = Ok (show_name ls, e).
Proof.
  intros H Hlen. apply (lays_unpack out p ls h e H Hlen).
  exact (proj2 (laysn_hops_127 _ _ _ _ _ H Hlen)).
Qed.

(* ================= B. the compression map ================= *)
Definition opt_all {A} (P : A -> Prop) (o : option A) : Prop :=
  match o with Some a => P a | None => True end.

(* content-independent part: every key is the text of a non-root name and every
   offset is below the pointer limit *)
Definition cm_keys (cm : cmap) : Prop :=
  forall k p, In (k, p) cm ->
    p < max_compression_offset /\ exists ls, parse_go k [] [] = Some ls /\ ls <> [].

(* content part: the labels of the key are laid at the recorded offset, which
   holds a label-length octet (1..63), never a pointer *)
Definition cm_laid (out : bytes) (cm : cmap) : Prop :=
  forall k p ls, In (k, p) cm -> parse_go k [] [] = Some ls ->
    p < lenN out /\ 1 <= nthN out p 0 < 64 /\ lays out p ls.

Lemma cm_find_in cm k p : cm_find cm k = Some p -> In (k, p) cm.
Proof.
  induction cm as [|[k' v] cm IH]; [discriminate|]. cbn [cm_find].
  destruct (bytes_eqb k' k) eqn:E.
  - intro H. injection H as ->. apply bytes_eqb_eq in E. subst. now left.
  - intro H. right. auto.
Qed.

Lemma cm_laid_app out b cm : cm_laid out cm -> cm_laid (out ++ b) cm.
Proof.
  intros H k p ls Hin Hp. destruct (H k p ls Hin Hp) as [H1 [H2 [h [e H3]]]].
  split; [rewrite lenN_app; lia|]. split; [now rewrite nthN_app_l|].
  exists h, e. now apply laysn_app.
Qed.

Lemma opt_cm_laid_app out b o : opt_all (cm_laid out) o -> opt_all (cm_laid (out ++ b)) o.
Proof. destruct o; [apply cm_laid_app|auto]. Qed.

Definition end_st (e : pn_end) : pn_state := match e with PnDone st => st | PnPointer st _ => st end.

(* the dot step of the scan loop, with the three map cases spelled out *)
Lemma pn_go_dot r lab lstart nl cap cp st : lab <> [] ->
  pn_go (46 :: r) false lab lstart false nl cap cp st =
  if 64 <=? lenN lab then Err "rdata"
  else if cap <? lenN (pn_out st) + 1 + lenN lab then Err "buf"
  else
    let emit cmo :=
      if max_name_wire <? nl + 1 + lenN lab + 1 then Err "longdomain"
      else pn_go r false [] r true (nl + 1 + lenN lab) cap cp
             {| pn_out := pn_out st ++ lenN lab :: lab; pn_cm := cmo |} in
    match pn_cm st with
    | None => emit None
    | Some cm =>
      match cm_find cm lstart with
      | Some p =>
        if cp then (if max_name_wire <? nl + escaped_name_len lstart + 1 then Err "longdomain"
                    else Ok (PnPointer st p))
        else emit (Some cm)
      | None =>
        if lenN (pn_out st) <? max_compression_offset
        then emit (Some ((lstart, lenN (pn_out st)) :: cm)) else emit (Some cm)
      end
    end.
Proof.
  intro Hl. destruct lab as [|x lab]; [congruence|]. cbn [pn_go andb].
  destruct (64 <=? lenN (x :: lab)); [reflexivity|].
  destruct (cap <? lenN (pn_out st) + 1 + lenN (x :: lab)); [reflexivity|].
  destruct st as [out [cm|]]; cbn [pn_cm pn_out]; [|reflexivity].
  destruct (cm_find cm lstart); [destruct cp; reflexivity|].
  destruct (lenN out <? max_compression_offset); reflexivity.
Qed.

Lemma wire_labels_app a b : wire_labels (a ++ b) = wire_labels a ++ wire_labels b.
Proof. unfold wire_labels. apply flat_map_app. Qed.

(* escapedNameLen is exact: the length check made when a pointer is emitted is
   the check on the wire length of the suffix that is not written *)
Lemma escaped_name_len_wire k : forall lab ls, parse_go k lab [] = Some ls ->
  lenN lab + escaped_name_len k = lenN (wire_labels ls).
Proof.
  induction k as [| a b c r3 Hd IH | a r1 Hd IH | | r IH | x r H1 H2 IH] using tok_ind; intros lab ls H.
  - cbn in H. destruct lab; [|discriminate]. injection H as <-. reflexivity.
  - rewrite parse_go_ddd in H by auto. apply IH in H. rewrite lenN_app, lenN_cons, lenN_nil in H.
    cbn [escaped_name_len]. unfold ddd3 in Hd. rewrite Hd. lia.
  - rewrite parse_go_esc in H by auto. apply IH in H. rewrite lenN_app, lenN_cons, lenN_nil in H.
    assert (E : escaped_name_len (92 :: a :: r1) = 1 + escaped_name_len r1).
    { destruct r1 as [|b [|c r3]]; try reflexivity. cbn [escaped_name_len]. unfold is_ddd in Hd. now rewrite Hd. }
    rewrite E. lia.
  - discriminate.
  - cbn [parse_go] in H. rewrite parse_go_acc in H. cbn [rev app] in H.
    destruct (parse_go r [] []) as [ls'|] eqn:Hp; [|discriminate]. cbn in H. injection H as <-.
    apply IH in Hp. rewrite lenN_nil in Hp. rewrite wire_labels_cons, lenN_cons, lenN_app.
    cbn [escaped_name_len]. lia.
  - rewrite parse_go_plain in H by auto. apply IH in H. rewrite lenN_app, lenN_cons, lenN_nil in H.
    assert (E : escaped_name_len (x :: r) = 1 + escaped_name_len r) by (plain_octet x).
    rewrite E. lia.
Qed.

Lemma pn_go_cm s : forall lab lstart wd nl cap cp st e,
  lid s wd = true -> (wd = true <-> lab = []) ->
  parse_go lstart [] [] = parse_go s lab [] ->
  opt_all cm_keys (pn_cm st) -> nl <= 254 ->
  pn_go s false lab lstart wd nl cap cp st = Ok e ->
  exists ls1 lsT,
    parse_go s lab [] = Some (ls1 ++ lsT) /\ Forall lab_ok ls1 /\
    pn_out (end_st e) = pn_out st ++ wire_labels ls1 /\
    opt_all cm_keys (pn_cm (end_st e)) /\
    (pn_cm st = None -> pn_cm (end_st e) = None) /\
    nl + lenN (wire_labels ls1) + lenN (wire_labels lsT) <= 254 /\
    match e with
    | PnDone _ => lsT = []
    | PnPointer _ q =>
      cp = true /\ exists cm k, pn_cm st = Some cm /\ In (k, q) cm /\ q < max_compression_offset /\
                               parse_go k [] [] = Some lsT /\ lsT <> []
    end /\
    forall pre post hT eT, lenN pre = lenN (pn_out st) ->
      laysn (pre ++ wire_labels ls1 ++ post) (lenN pre + lenN (wire_labels ls1)) lsT hT eT ->
      laysn (pre ++ wire_labels ls1 ++ post) (lenN pre) (ls1 ++ lsT) hT eT /\
      (opt_all (cm_laid (pre ++ wire_labels ls1 ++ post)) (pn_cm st) ->
       opt_all (cm_laid (pre ++ wire_labels ls1 ++ post)) (pn_cm (end_st e))).
Proof.
  induction s as [| a b c r3 Hd IH | a r1 Hd IH | | r IH | x r H1 H2 IH] using tok_ind;
    intros lab lstart wd nl cap cp st e Hlid Hwd Hkey Hkeys Hnl H.
  - (* end of text *)
    cbn in Hlid. subst wd. assert (lab = []) as -> by now apply Hwd.
    cbn [pn_go] in H. injection H as <-. exists [], []. cbn [end_st app wire_labels flat_map].
    split; [reflexivity|]. split; [constructor|]. split; [now rewrite app_nil_r|].
    split; [exact Hkeys|]. split; [auto|]. split; [rewrite lenN_nil; lia|]. split; [reflexivity|].
    intros pre post hT eT _ T. change (lenN (@nil N)) with 0 in T.
    replace (lenN pre + 0) with (lenN pre) in T by lia. split; [exact T|auto].
  - rewrite lid_ddd in Hlid by auto. rewrite pn_go_ddd in H by auto.
    destruct (cap <? lenN (pn_out st) + 1); [discriminate|].
    rewrite parse_go_ddd in * by auto.
    apply (IH _ lstart false nl cap cp st e); auto.
    split; [discriminate|]. intro E. destruct lab; discriminate.
  - rewrite lid_esc in Hlid by auto. rewrite pn_go_esc in H by auto.
    destruct (cap <? lenN (pn_out st) + 1); [discriminate|].
    rewrite parse_go_esc in * by auto.
    apply (IH _ lstart false nl cap cp st e); auto.
    split; [discriminate|]. intro E. destruct lab; discriminate.
  - discriminate.
  - (* an unescaped dot: the label ends *)
    cbn [lid] in Hlid.
    destruct wd.
    { assert (lab = []) as -> by now apply Hwd. cbn [pn_go andb] in H. discriminate. }
    assert (Hlab : lab <> []). { intro E. apply Hwd in E. discriminate. }
    assert (Hlen1 : 1 <= lenN lab). { destruct lab; [congruence|]. rewrite lenN_cons. lia. }
    rewrite pn_go_dot in H by exact Hlab.
    destruct (64 <=? lenN lab) eqn:H64; [discriminate|].
    destruct (cap <? lenN (pn_out st) + 1 + lenN lab) eqn:Hcap; [discriminate|].
    cbn zeta in H.
    assert (Hparse : parse_go (46 :: r) lab [] = option_map (app [lab]) (parse_go r [] [])).
    { cbn [parse_go]. rewrite parse_go_acc. reflexivity. }
    destruct (lid_parse_some r [] true Hlid wd_nil) as [lsr Hlsr].
    assert (Hkl : parse_go lstart [] [] = Some (lab :: lsr)).
    { rewrite Hkey, Hparse, Hlsr. reflexivity. }
    (* emitting the label and going on, with the map possibly extended *)
    assert (Hemit : forall cmo,
      opt_all cm_keys cmo ->
      (cmo = pn_cm st \/
       exists cm, pn_cm st = Some cm /\ cmo = Some ((lstart, lenN (pn_out st)) :: cm)) ->
      (if max_name_wire <? nl + 1 + lenN lab + 1 then Err "longdomain"
       else pn_go r false [] r true (nl + 1 + lenN lab) cap cp
              {| pn_out := pn_out st ++ lenN lab :: lab; pn_cm := cmo |}) = Ok e ->
      exists ls1 lsT,
        parse_go (46 :: r) lab [] = Some (ls1 ++ lsT) /\ Forall lab_ok ls1 /\
        pn_out (end_st e) = pn_out st ++ wire_labels ls1 /\
        opt_all cm_keys (pn_cm (end_st e)) /\
        (pn_cm st = None -> pn_cm (end_st e) = None) /\
        nl + lenN (wire_labels ls1) + lenN (wire_labels lsT) <= 254 /\
        match e with
        | PnDone _ => lsT = []
        | PnPointer _ q =>
          cp = true /\ exists cm k, pn_cm st = Some cm /\ In (k, q) cm /\ q < max_compression_offset /\
                                   parse_go k [] [] = Some lsT /\ lsT <> []
        end /\
        forall pre post hT eT, lenN pre = lenN (pn_out st) ->
          laysn (pre ++ wire_labels ls1 ++ post) (lenN pre + lenN (wire_labels ls1)) lsT hT eT ->
          laysn (pre ++ wire_labels ls1 ++ post) (lenN pre) (ls1 ++ lsT) hT eT /\
          (opt_all (cm_laid (pre ++ wire_labels ls1 ++ post)) (pn_cm st) ->
           opt_all (cm_laid (pre ++ wire_labels ls1 ++ post)) (pn_cm (end_st e)))).
    { intros cmo Hcmo Hor H'.
      destruct (max_name_wire <? nl + 1 + lenN lab + 1) eqn:Hlong; [discriminate|].
      unfold max_name_wire in Hlong.
      assert (Hnl' : nl + 1 + lenN lab <= 254) by lia.
      destruct (IH [] r true (nl + 1 + lenN lab) cap cp
                  {| pn_out := pn_out st ++ lenN lab :: lab; pn_cm := cmo |} e Hlid wd_nil eq_refl Hcmo Hnl' H')
        as [ls1 [lsT [P1 [P2 [P3 [P4 [P5 [PL [P6 P7]]]]]]]]].
      cbn [pn_out pn_cm] in P3, P5, P6.
      exists (lab :: ls1), lsT.
      split. { rewrite Hparse, P1. reflexivity. }
      split. { constructor; [split; [exact Hlab|lia]|exact P2]. }
      split. { rewrite P3, wire_labels_cons, <- app_assoc. reflexivity. }
      split; [exact P4|].
      split. { intro Hn. apply P5. destruct Hor as [->|[cm [E _]]]; [exact Hn|congruence]. }
      split. { rewrite wire_labels_cons, lenN_cons, lenN_app. lia. }
      split.
      { destruct e as [st'|st' q]; [exact P6|]. destruct P6 as [Hcp [cm2 [k [E2 [Hin [Hq [Hk Hne]]]]]]].
        split; [exact Hcp|].
        destruct Hor as [->|[cm [Ecm ->]]].
        - exists cm2, k. auto.
        - injection E2 as <-. exists cm, k. split; [exact Ecm|]. split; [|auto].
          destruct Hin as [E|Hin]; [|exact Hin]. exfalso. injection E as <- _.
          rewrite Hkl in Hk. rewrite Hlsr in P1. injection P1 as ->. injection Hk as Hk.
          apply (f_equal (@length label)) in Hk. cbn [length] in Hk. rewrite !app_length in Hk. lia. }
      intros pre post hT eT Hpre T.
      assert (EF : pre ++ wire_labels (lab :: ls1) ++ post
                   = (pre ++ lenN lab :: lab) ++ wire_labels ls1 ++ post).
      { rewrite wire_labels_cons, <- !app_assoc. cbn [app]. rewrite <- app_assoc. reflexivity. }
      assert (Hpre2 : lenN (pre ++ lenN lab :: lab) = lenN (pn_out st ++ lenN lab :: lab)).
      { rewrite !lenN_app, Hpre. reflexivity. }
      assert (Hpos : lenN pre + lenN (wire_labels (lab :: ls1))
                     = lenN (pre ++ lenN lab :: lab) + lenN (wire_labels ls1)).
      { rewrite wire_labels_cons, lenN_app, !lenN_cons, lenN_app. lia. }
      rewrite Hpos, EF in T.
      destruct (P7 (pre ++ lenN lab :: lab) post hT eT Hpre2 T) as [A B].
      rewrite <- EF in A, B.
      assert (A' : laysn (pre ++ wire_labels (lab :: ls1) ++ post) (lenN pre) ((lab :: ls1) ++ lsT) hT eT).
      { cbn [app]. eapply (L_label _ (lenN pre) pre lab (wire_labels ls1 ++ post)).
        - split; [exact Hlab|lia].
        - rewrite wire_labels_cons. cbn [app]. rewrite <- app_assoc. reflexivity.
        - reflexivity.
        - replace (lenN pre + 1 + lenN lab) with (lenN (pre ++ lenN lab :: lab))
            by (rewrite lenN_app, lenN_cons; lia).
          exact A. }
      split; [exact A'|].
      intro Hold. apply B.
      destruct Hor as [->|[cm [Ecm ->]]]; [exact Hold|].
      rewrite Ecm in Hold. cbn [opt_all] in *.
      intros k p ls Hin Hp. destruct Hin as [E|Hin]; [|exact (Hold k p ls Hin Hp)].
      injection E as <- <-. rewrite Hkl in Hp. rewrite Hlsr in P1. injection P1 as ->.
      injection Hp as <-. rewrite <- Hpre.
      destruct (laysn_bound _ _ _ _ _ A') as [Hb _].
      split; [exact Hb|]. split.
      - rewrite wire_labels_cons. cbn [app]. rewrite nthN_app_exact. lia.
      - exists hT, eT. exact A'. }
    destruct (pn_cm st) as [cm|] eqn:Hcm.
    2:{ apply (Hemit None); [exact I|now left|exact H]. }
    destruct (cm_find cm lstart) as [p|] eqn:Hfind.
    + destruct cp.
      * (* the suffix is in the map: stop and point at it *)
        destruct (max_name_wire <? nl + escaped_name_len lstart + 1) eqn:Hlong; [discriminate|].
        unfold max_name_wire in Hlong.
        injection H as <-. apply cm_find_in in Hfind.
        destruct (Hkeys lstart p Hfind) as [Hp [ls [Hls Hne]]].
        pose proof (escaped_name_len_wire lstart [] ls Hls) as Henl. rewrite lenN_nil in Henl.
        exists [], ls. cbn [end_st app wire_labels flat_map].
        split. { rewrite <- Hkey. exact Hls. }
        split; [constructor|]. split; [now rewrite app_nil_r|].
        split. { rewrite Hcm. exact Hkeys. }
        split; [congruence|]. split; [rewrite lenN_nil; lia|].
        split. { split; [reflexivity|]. exists cm, lstart. auto. }
        intros pre post hT eT _ T. change (lenN (@nil N)) with 0 in T.
        replace (lenN pre + 0) with (lenN pre) in T by lia. split; [exact T|]. rewrite Hcm. auto.
      * apply (Hemit (Some cm)); [exact Hkeys|now left|exact H].
    + destruct (lenN (pn_out st) <? max_compression_offset) eqn:Hoff.
      * apply (Hemit (Some ((lstart, lenN (pn_out st)) :: cm))); [| |exact H].
        -- intros k p [E|Hin]; [|exact (Hkeys k p Hin)]. injection E as <- <-.
           split; [lia|]. exists (lab :: lsr). split; [exact Hkl|discriminate].
        -- right. exists cm. auto.
      * apply (Hemit (Some cm)); [exact Hkeys|now left|exact H].
  - rewrite lid_plain in Hlid by auto. rewrite pn_go_plain in H by auto.
    rewrite parse_go_plain in * by auto.
    apply (IH _ lstart false nl cap cp st e); auto.
    split; [discriminate|]. intro E. destruct lab; discriminate.
Qed.

(* ================= C. pack_name ================= *)
Lemma pn_go_root cap cp st e :
  pn_go [46] true [] [46] false 0 cap cp st = Ok e ->
  e = PnDone {| pn_out := pn_out st ++ [0]; pn_cm := pn_cm st |} /\ lenN (pn_out st) + 1 <= cap.
Proof.
  cbn [pn_go andb negb]. change (lenN (@nil N)) with 0.
  change (64 <=? 0) with false. cbn iota.
  destruct (cap <? lenN (pn_out st) + 1 + 0) eqn:Hc; [discriminate|].
  change (max_name_wire <? 0 + 1 + 0 + 1) with false. cbn iota.
  destruct st as [out [cm|]]; cbn [pn_cm pn_out] in *; intro H; injection H as <-; (split; [reflexivity|lia]).
Qed.

Lemma u16_pointer q : q < max_compression_offset ->
  exists c c1, u16 (q + 49152) = [c; c1] /\ 192 <= c /\ (c - 192) * 256 + c1 = q.
Proof.
  unfold max_compression_offset, u16. intro H.
  exists (((q + 49152) / 256) mod 256), ((q + 49152) mod 256). split; [reflexivity|]. lia.
Qed.

(* what one call of packDomainName does.  The last clause is stated for every
   buffer content [pre] of the same length as the octets written so far. *)
Lemma pack_name_step s cap cp st st' :
  s <> [] -> opt_all cm_keys (pn_cm st) -> pack_name s cap cp st = Ok st' ->
  exists ls b,
    parse_name s = Some ls /\ wire_len ls <= 255 /\ pn_out st' = pn_out st ++ b /\
    lenN (pn_out st') <= cap /\
    opt_all cm_keys (pn_cm st') /\ (pn_cm st = None -> pn_cm st' = None) /\
    (b = wire_name ls \/
     exists ls1 lsT q k cm, ls = ls1 ++ lsT /\ lsT <> [] /\ b = wire_labels ls1 ++ u16 (q + 49152) /\
       cp = true /\ q < max_compression_offset /\ pn_cm st = Some cm /\ In (k, q) cm /\
       parse_go k [] [] = Some lsT) /\
    forall pre, lenN pre = lenN (pn_out st) -> opt_all (cm_laid pre) (pn_cm st) ->
      (exists h, laysn (pre ++ b) (lenN pre) ls h (lenN pre + lenN b)) /\
      opt_all (cm_laid (pre ++ b)) (pn_cm st').
Proof.
  intros Hs Hkeys H. unfold pack_name in H.
  destruct s as [|x r] eqn:Es; [congruence|]. rewrite <- Es in *. clear Hs.
  destruct (is_fqdn s) eqn:Hf; cbn [negb] in H; [|discriminate].
  destruct (list_eq_dec N.eq_dec s [46]) as [E|E].
  - (* the root name *)
    rewrite E in *.
    destruct (pn_go [46] true [] [46] false 0 cap cp st) as [e| | |] eqn:Hgo; cbn [bind] in H; try discriminate.
    apply pn_go_root in Hgo. destruct Hgo as [-> Hcapr]. cbn in H. injection H as <-. cbn [pn_out pn_cm].
    exists [], [0]. split; [reflexivity|]. split; [cbn; lia|]. split; [reflexivity|].
    split; [rewrite lenN_app, lenN_cons, lenN_nil; lia|]. split; [exact Hkeys|].
    split; [auto|]. split; [now left|].
    intros pre Hpre Hold. split; [|now apply opt_cm_laid_app].
    exists O. replace (lenN pre + lenN [0]) with (lenN pre + 1) by (cbn; lia).
    eapply L_root; reflexivity.
  - rewrite pn_go_first in H by exact E.
    assert (Hlid : lid s true = true). { apply lid_first_equiv; [exact E|]. now apply is_fqdn_lid. }
    assert (Hb : bytes_eqb s [46] = false).
    { destruct (bytes_eqb s [46]) eqn:B; [|reflexivity]. apply bytes_eqb_eq in B. congruence. }
    rewrite Hb in H.
    assert (Hpn : parse_name s = parse_go s [] []).
    { apply parse_name_nonroot; [rewrite Es; discriminate|exact E]. }
    destruct (pn_go s false [] s true 0 cap cp st) as [e| | |] eqn:Hgo; cbn [bind] in H; try discriminate.
    destruct (pn_go_cm s [] s true 0 cap cp st e Hlid wd_nil eq_refl Hkeys ltac:(lia) Hgo)
      as [ls1 [lsT [P1 [P2 [P3 [P4 [P5 [PL [P6 P7]]]]]]]]].
    destruct e as [st1|st1 q]; cbn [end_st] in *.
    + (* the whole name was written: terminate it with the root octet *)
      subst lsT. rewrite app_nil_r in *.
      destruct (lenN (pn_out st1) <? cap) eqn:Hcap1; [|discriminate]. injection H as <-. cbn [pn_out pn_cm].
      exists ls1, (wire_name ls1). split; [now rewrite Hpn|].
      split. { unfold wire_len, wire_name. change (lenN (wire_labels [])) with 0 in PL. rewrite lenN_app, lenN_cons, lenN_nil. lia. }
      split. { rewrite P3. unfold wire_name. now rewrite app_assoc. }
      split; [rewrite lenN_app, lenN_cons, lenN_nil; lia|].
      split; [exact P4|]. split; [exact P5|]. split; [now left|].
      intros pre Hpre Hold. unfold wire_name.
      assert (T : laysn (pre ++ wire_labels ls1 ++ [0]) (lenN pre + lenN (wire_labels ls1)) [] O
                        (lenN pre + lenN (wire_labels ls1) + 1)).
      { eapply (L_root _ _ (pre ++ wire_labels ls1) []).
        - now rewrite <- app_assoc.
        - rewrite lenN_app. reflexivity. }
      destruct (P7 pre [0] O _ Hpre T) as [A B]. split.
      * exists O. replace (lenN pre + lenN (wire_labels ls1 ++ [0])) with (lenN pre + lenN (wire_labels ls1) + 1)
          by (rewrite lenN_app, lenN_cons, lenN_nil; lia).
        exact A.
      * apply B. now apply opt_cm_laid_app.
    + (* the rest of the name is in the map: terminate with a pointer *)
      destruct P6 as [Hcp [cm [k [Ecm [Hin [Hq [Hk HneT]]]]]]].
      destruct (cap <? lenN (pn_out st1) + 2) eqn:Hcap1; [discriminate|]. injection H as <-. cbn [pn_out pn_cm].
      exists (ls1 ++ lsT), (wire_labels ls1 ++ u16 (q + 49152)). split; [now rewrite Hpn|].
      split. { unfold wire_len, wire_name. rewrite wire_labels_app, !lenN_app, lenN_cons, lenN_nil. lia. }
      split. { rewrite P3. now rewrite app_assoc. }
      split; [unfold u16; rewrite lenN_app, !lenN_cons, lenN_nil; lia|].
      split; [exact P4|]. split; [exact P5|].
      split. { right. exists ls1, lsT, q, k, cm. repeat split; auto. }
      intros pre Hpre Hold. rewrite Ecm in Hold. cbn [opt_all] in Hold.
      destruct (Hold k q lsT Hin Hk) as [Hqlt [Hoct [hq [eq Hlq]]]].
      destruct (u16_pointer q Hq) as [c [c1 [Eu [Hc Hdec]]]]. rewrite Eu.
      assert (T : laysn (pre ++ wire_labels ls1 ++ [c; c1]) (lenN pre + lenN (wire_labels ls1)) lsT (S hq)
                        (lenN pre + lenN (wire_labels ls1) + 2)).
      { eapply (L_ptr _ _ (pre ++ wire_labels ls1) c c1 [] lsT hq eq).
        - now rewrite <- app_assoc.
        - rewrite lenN_app. reflexivity.
        - exact Hc.
        - rewrite Hdec. lia.
        - rewrite Hdec. exact Hq.
        - rewrite Hdec, nthN_app_l by exact Hqlt. exact Hoct.
        - exact HneT.
        - rewrite Hdec. now apply laysn_app. }
      destruct (P7 pre [c; c1] (S hq) _ Hpre T) as [A B]. split.
      * exists (S hq).
        replace (lenN pre + lenN (wire_labels ls1 ++ [c; c1])) with (lenN pre + lenN (wire_labels ls1) + 2)
          by (rewrite lenN_app, !lenN_cons, lenN_nil; lia).
        exact A.
      * apply B. rewrite Ecm. cbn [opt_all]. now apply cm_laid_app.
Qed.

(* ---------- the invariant and the step theorems in their final form ---------- *)
Definition cm_inv (out : bytes) (cm : cmap) : Prop := cm_keys cm /\ cm_laid out cm.
Definition st_inv (st : pn_state) : Prop := opt_all (cm_inv (pn_out st)) (pn_cm st).

Lemma st_inv_split st : st_inv st <-> opt_all cm_keys (pn_cm st) /\ opt_all (cm_laid (pn_out st)) (pn_cm st).
Proof. unfold st_inv, cm_inv. destruct (pn_cm st); cbn; tauto. Qed.

Lemma parse_go_key_name k ls : parse_go k [] [] = Some ls -> ls <> [] -> Forall lab_ok ls ->
  parse_name k = Some ls.
Proof.
  intros Hp Hne Hok. rewrite parse_name_nonroot; [exact Hp| |].
  - intro E. subst k. cbn in Hp. congruence.
  - intro E. subst k. cbn in Hp. injection Hp as <-. inversion Hok as [|? ? [H _] _]. congruence.
Qed.

(* B, as the brief words it *)
Theorem cm_inv_entry out cm k p : cm_inv out cm -> In (k, p) cm ->
  exists ls, parse_name k = Some ls /\ ls <> [] /\ p < max_compression_offset /\ p < lenN out /\
             1 <= nthN out p 0 < 64 /\ lays out p ls.
Proof.
  intros [Hk Hl] Hin. destruct (Hk k p Hin) as [Hp [ls [Hls Hne]]].
  destruct (Hl k p ls Hin Hls) as [Hlt [Hoct [h [e Hlay]]]].
  exists ls. split; [|split; [exact Hne|split; [exact Hp|split; [exact Hlt|split; [exact Hoct|now exists h, e]]]]].
  apply parse_go_key_name; auto. eapply laysn_labels_ok; eauto.
Qed.

Lemma st_inv_empty_map out : st_inv {| pn_out := out; pn_cm := Some [] |}.
Proof. split; intros k p; intros; contradiction. Qed.
Lemma st_inv_no_map out : st_inv {| pn_out := out; pn_cm := None |}.
Proof. exact I. Qed.

Lemma pack_name_fqdn s cap cp st st' : s <> [] -> pack_name s cap cp st = Ok st' -> is_fqdn s = true.
Proof.
  intros Hs H. unfold pack_name in H. destruct s; [congruence|].
  destruct (is_fqdn (n :: s)); [reflexivity|discriminate].
Qed.

Lemma lab_ok_len_ok ls : Forall lab_ok ls -> forallb label_len_ok ls = true.
Proof.
  intro H. apply forallb_forall. rewrite Forall_forall in H. intros l Hl. destruct (H l Hl) as [Hne H64].
  unfold label_len_ok. destruct l; [congruence|]. rewrite lenN_cons in *. lia.
Qed.

(* everything about one successful pack_name on a state satisfying the invariant *)
Theorem pack_name_spec s cap cp st st' :
  s <> [] -> st_inv st -> pack_name s cap cp st = Ok st' ->
  exists ls b h,
    parse_name s = Some ls /\ name_len_ok ls = true /\
    pn_out st' = pn_out st ++ b /\ st_inv st' /\
    laysn (pn_out st') (lenN (pn_out st)) ls h (lenN (pn_out st')) /\ (h <= length ls)%nat /\
    lenN b <= lenN (wire_name ls) /\
    ((cp = false \/ pn_cm st = None) -> b = wire_name ls) /\
    (b = wire_name ls \/
     exists ls1 lsT q, ls = ls1 ++ lsT /\ lsT <> [] /\ b = wire_labels ls1 ++ u16 (q + 49152) /\
       q < lenN (pn_out st) /\ q < max_compression_offset /\
       1 <= nthN (pn_out st) q 0 < 64 /\ lays (pn_out st) q lsT).
Proof.
  intros Hs Hinv H. apply st_inv_split in Hinv. destruct Hinv as [Hkeys Hlaid].
  destruct (pack_name_step s cap cp st st' Hs Hkeys H) as [ls [b [Hp [Hlen [Hout [_ [Hk' [Hnone [Hb Hc]]]]]]]]].
  destruct (Hc (pn_out st) eq_refl Hlaid) as [[h Hlay] Hlaid'].
  rewrite <- Hout in Hlay, Hlaid'.
  replace (lenN (pn_out st) + lenN b) with (lenN (pn_out st')) in Hlay by (rewrite Hout, lenN_app; reflexivity).
  pose proof (laysn_labels_ok _ _ _ _ _ Hlay) as Hok.
  exists ls, b, h. split; [exact Hp|].
  split. { unfold name_len_ok. rewrite (lab_ok_len_ok ls Hok). cbn [andb].
           unfold wire_len, wire_name in Hlen. rewrite lenN_app, lenN_cons, lenN_nil in Hlen. lia. }
  split; [exact Hout|]. split; [apply st_inv_split; now split|]. split; [exact Hlay|].
  split. { pose proof (laysn_hops _ _ _ _ _ Hlay). lia. }
  assert (Hnl : lenN b <= lenN (wire_name ls)).
  { destruct Hb as [->|[ls1 [lsT [q [k [cm [-> [HneT [-> _]]]]]]]]]; [lia|].
    unfold wire_name, u16. rewrite wire_labels_app, !lenN_app, !lenN_cons, lenN_nil.
    destruct lsT as [|l lsT]; [congruence|]. pose proof (wire_labels_len_pos l lsT). lia. }
  split; [exact Hnl|].
  split.
  { intros Hor. destruct Hb as [->|[ls1 [lsT [q [k [cm [_ [_ [_ [Hcp [_ [Ecm _]]]]]]]]]]]]; [reflexivity|].
    destruct Hor; congruence. }
  destruct Hb as [->|[ls1 [lsT [q [k [cm [E1 [HneT [E2 [Hcp [Hq [Ecm [Hin Hk]]]]]]]]]]]]]; [now left|].
  right. exists ls1, lsT, q. rewrite Ecm in Hlaid. cbn [opt_all] in Hlaid.
  destruct (Hlaid k q lsT Hin Hk) as [A [B C]]. repeat split; auto; lia.
Qed.

(* the empty string is not a name: packDomainName writes nothing for it *)
Lemma pack_name_empty cap cp st : pack_name [] cap cp st = Ok st.
Proof. reflexivity. Qed.

(* C1 *)
Theorem pack_name_extends s cap cp st st' :
  st_inv st -> pack_name s cap cp st = Ok st' ->
  (exists b, pn_out st' = pn_out st ++ b) /\ st_inv st'.
Proof.
  intros Hinv H. destruct s as [|x r] eqn:Es.
  - cbn in H. injection H as <-. split; [exists []; now rewrite app_nil_r|exact Hinv].
  - rewrite <- Es in *. assert (Hs : s <> []) by (rewrite Es; discriminate).
    destruct (pack_name_spec s cap cp st st' Hs Hinv H) as [ls [b [h [_ [_ [Hout [Hinv' _]]]]]]].
    split; [now exists b|exact Hinv'].
Qed.

(* C2, with the real decoder: the packed name always decodes *)
Theorem pack_name_lays s cap cp st st' :
  s <> [] -> st_inv st -> pack_name s cap cp st = Ok st' ->
  exists ls, parse_name s = Some ls /\ lays (pn_out st') (lenN (pn_out st)) ls /\
    unpack_name (pn_out st') (lenN (pn_out st)) = Ok (show_name ls, lenN (pn_out st')).
Proof.
  intros Hs Hinv H.
  destruct (pack_name_spec s cap cp st st' Hs Hinv H) as [ls [b [h [Hp [Hlen [_ [_ [Hlay [Hh _]]]]]]]]].
  exists ls. split; [exact Hp|]. split; [now exists h, (lenN (pn_out st'))|].
  apply (lays_unpack_labels _ _ _ h _ Hlay).
  unfold name_len_ok in Hlen. apply andb_prop in Hlen. destruct Hlen as [_ Hlen].
  unfold wire_len, wire_name. rewrite lenN_app, lenN_cons, lenN_nil. lia.
Qed.

(* C3 *)
Theorem pack_name_pointer_valid s cap cp st st' :
  s <> [] -> st_inv st -> pack_name s cap cp st = Ok st' ->
  exists ls b, parse_name s = Some ls /\ pn_out st' = pn_out st ++ b /\
    (b = wire_name ls \/
     exists ls1 lsT q, ls = ls1 ++ lsT /\ lsT <> [] /\ b = wire_labels ls1 ++ u16 (q + 49152) /\
       q < lenN (pn_out st) /\ q < max_compression_offset /\
       1 <= nthN (pn_out st) q 0 < 64 /\ lays (pn_out st) q lsT).
Proof.
  intros Hs Hinv H.
  destruct (pack_name_spec s cap cp st st' Hs Hinv H) as [ls [b [h [Hp [_ [Hout [_ [_ [_ [_ [_ Hb]]]]]]]]]]].
  exists ls, b. auto.
Qed.

(* C4 *)
Theorem pack_name_never_longer s cap cp st st' cap' :
  s <> [] -> st_inv st -> pack_name s cap cp st = Ok st' -> 320 <= cap' ->
  exists ls b, parse_name s = Some ls /\ pn_out st' = pn_out st ++ b /\
    pack_name_plain s cap' = Ok (wire_name ls) /\ lenN b <= lenN (wire_name ls) /\
    ((cp = false \/ pn_cm st = None) -> b = wire_name ls).
Proof.
  intros Hs Hinv H Hcap.
  destruct (pack_name_spec s cap cp st st' Hs Hinv H) as [ls [b [h [Hp [Hlen [Hout [_ [_ [_ [Hnl [Hpl _]]]]]]]]]]].
  exists ls, b. split; [exact Hp|]. split; [exact Hout|]. split; [|split; [exact Hnl|exact Hpl]].
  destruct (pack_name_plain_spec s ls cap' (pack_name_fqdn s cap cp st st' Hs H) Hp Hcap) as [Hok _].
  exact (Hok Hlen).
Qed.

(* ================= non-vacuity and the 127-label finding ================= *)
(* three names packed after a 12-octet header: the second is compressed against
   the first (same case), the third shares only com. with it because the map
   is keyed by the presentation text, case included *)
Definition ex_st0 : pn_state := {| pn_out := repeat 0 12; pn_cm := Some [] |}.
Definition ex_n1 : bytes := bytes_of_string "www.Example.com.".
Definition ex_n2 : bytes := bytes_of_string "ftp.Example.com.".
Definition ex_n3 : bytes := bytes_of_string "x.example.com.".
Definition ex_l (s : string) : label := bytes_of_string s.

Example compress_example :
  match pack_name ex_n1 100 true ex_st0 with
  | Ok a =>
    match pack_name ex_n2 100 true a with
    | Ok b =>
      match pack_name ex_n3 100 true b with
      | Ok c =>
        pn_out c = repeat 0 12 ++ wire_name [ex_l "www"; ex_l "Example"; ex_l "com"]
                   ++ (3 :: ex_l "ftp") ++ [192; 16]
                   ++ (1 :: ex_l "x") ++ (7 :: ex_l "example") ++ [192; 24] /\
        pn_cm b = Some [(ex_n2, 29); (bytes_of_string "com.", 24);
                        (bytes_of_string "Example.com.", 16); (ex_n1, 12)] /\
        laysb 9 (pn_out c) 12 [ex_l "www"; ex_l "Example"; ex_l "com"] = true /\
        laysb 9 (pn_out c) 29 [ex_l "ftp"; ex_l "Example"; ex_l "com"] = true /\
        laysb 9 (pn_out c) 35 [ex_l "x"; ex_l "example"; ex_l "com"] = true /\
        laysb 9 (pn_out c) 35 [ex_l "x"; ex_l "Example"; ex_l "com"] = false /\
        unpack_name (pn_out c) 29 = Ok (ex_n2, 35) /\
        unpack_name (pn_out c) 35 = Ok (ex_n3, 47)
      | _ => False end
    | _ => False end
  | _ => False end.
Proof. vm_compute. repeat split. Qed.

(* the hypotheses of the step theorems hold of that run *)
Example compress_example_inv :
  st_inv ex_st0 /\ ex_n2 <> [] /\
  exists a b, pack_name ex_n1 100 true ex_st0 = Ok a /\ pack_name ex_n2 100 true a = Ok b /\ st_inv b.
Proof.
  split; [apply st_inv_empty_map|]. split; [discriminate|].
  destruct (pack_name ex_n1 100 true ex_st0) as [a| | |] eqn:Ha; try (vm_compute in Ha; discriminate).
  destruct (pack_name ex_n2 100 true a) as [b| | |] eqn:Hb.
  - exists a, b. split; [reflexivity|]. split; [exact Hb|].
    pose proof (pack_name_extends _ _ _ _ _ (st_inv_empty_map _) Ha) as [_ Ia].
    exact (proj2 (pack_name_extends _ _ _ _ _ Ia Hb)).
  - exfalso. vm_compute in Ha. injection Ha as <-. vm_compute in Hb. discriminate.
  - exfalso. vm_compute in Ha. injection Ha as <-. vm_compute in Hb. discriminate.
  - exfalso. vm_compute in Ha. injection Ha as <-. vm_compute in Hb. discriminate.
Qed.

(* The edge of the hop limit (the finding that led to the repair of
   maxCompressionPointers to 127): pack a., a.a., ..., (a.)^127 — each is one label
   and a pointer to the previous one — and then (a.)^127 again, which is emitted
   as a bare pointer and is read back through 127 hops.  With the limit at 127
   every one of these names decodes. *)
Fixpoint pack_all (l : list bytes) (st : pn_state) : res pn_state :=
  match l with
  | [] => Ok st
  | s :: r => do st' <- pack_name s 4096 true st; pack_all r st'
  end.
Definition chain_name (k : nat) : bytes := concat (repeat [97; 46] k).
Definition chain_names : list bytes := map chain_name (seq 1 127) ++ [chain_name 127].
Definition chain_labels : list label := repeat [97] 127.

Example chain_decodes :
  match pack_all chain_names {| pn_out := []; pn_cm := Some [] |} with
  | Ok st =>
    let p := lenN (pn_out st) - 2 in
    parse_name (chain_name 127) = Some chain_labels /\
    valid_wire chain_labels = true /\ length chain_labels = 127%nat /\
    laysb 400 (pn_out st) p chain_labels = true /\
    laysb 400 (pn_out st) (p - 4) chain_labels = true /\
    unpack_name (pn_out st) (p - 4) = Ok (chain_name 127, p) /\
    unpack_name (pn_out st) p = Ok (chain_name 127, p + 2)
  | _ => False
  end.
Proof. vm_compute. repeat split. Qed.
