(* Proofs/Sig0Proofs.v — lemmas about Model/Sig0.v *)
From Coq Require Import Lia ZifyN ZifyNat ZifyBool.
From Dns Require Import Base.ListX Model.Sig0 Model.Tsig Proofs.WireProofs Proofs.TsigProofs.
Open Scope N_scope.

Ltac Zify.zify_post_hook ::= Z.div_mod_to_equations.

(* ---------- safety: neither a Go panic nor the model's fuel ---------- *)
Definition safe {A} (r : res A) : Prop := r <> Panic /\ r <> OutOfFuel.

Lemma safe_ok {A} (a : A) : safe (Ok a). Proof. split; discriminate. Qed.
Lemma safe_err {A} c : safe (@Err A c). Proof. split; discriminate. Qed.
Lemma safe_bind {A B} (r : res A) (f : A -> res B) :
  safe r -> (forall a, r = Ok a -> safe (f a)) -> safe (bind r f).
Proof.
  intros [H1 H2] Hf. destruct r; cbn; try contradiction.
  - now apply Hf.
  - apply safe_err.
Qed.

Lemma name_loop_no_panic f : forall msg off b p o1 acc, name_loop f msg off b p o1 acc <> Panic.
Proof.
  induction f as [|f IH]; intros msg off b p o1 acc; [discriminate|].
  cbn [name_loop].
  destruct (lenN msg <=? off); [discriminate|].
  destruct (nthN msg off 0 <? 64).
  - destruct (nthN msg off 0 =? 0); [discriminate|].
    destruct (lenN msg <? off + 1 + nthN msg off 0); [discriminate|].
    destruct (b <=? nthN msg off 0 + 1); [discriminate|]. apply IH.
  - destruct ((192 <=? nthN msg off 0) && (nthN msg off 0 <? 256)); [|discriminate].
    destruct (lenN msg <=? off + 1); [discriminate|].
    destruct (max_ptrs <? p + 1); [discriminate|]. apply IH.
Qed.

Lemma unpack_name_safe msg off : safe (unpack_name msg off).
Proof. split; [unfold unpack_name; apply name_loop_no_panic|apply unpack_name_total]. Qed.

Lemma be_at_ok n buf off : off + n <= lenN buf -> exists v, be_at n buf off = Ok v.
Proof.
  intros H. unfold be_at. replace (off + n <=? lenN buf) with true by (symmetry; now apply N.leb_le). eauto.
Qed.
Lemma be_at_safe n buf off : off + n <= lenN buf -> safe (be_at n buf off).
Proof. intros H. destruct (be_at_ok n buf off H) as [v ->]. apply safe_ok. Qed.
Lemma slice_safe {A} (l : list A) a b : a <= b -> b <= lenN l -> safe (slice l a b).
Proof.
  intros H1 H2. unfold slice.
  replace ((a <=? b) && (b <=? lenN l)) with true
    by (symmetry; apply andb_true_intro; split; now apply N.leb_le).
  apply safe_ok.
Qed.

Section Safety.
  Variable sig_sign : N -> bytes -> res bytes.
  Variable sig_check : N -> bytes -> bytes -> res unit.

  Lemma q_loop_S n buf off :
    q_loop (S n) buf off =
    if lenN buf <=? off then Ok off
    else bind (unpack_name buf off) (fun p => let '(_, o) := p in q_loop n buf (o + 4)).
  Proof. reflexivity. Qed.
  Lemma rr_loop_S n buf off :
    rr_loop (S n) buf off =
    if lenN buf <=? off then Ok off
    else bind (unpack_name buf off) (fun p => let '(_, o) := p in
           if lenN buf <=? o + 8 + 1 then rr_loop n buf (o + 8)
           else bind (be_at 2 buf (o + 8)) (fun rdlen => rr_loop n buf (o + 8 + 2 + rdlen))).
  Proof. reflexivity. Qed.

  Lemma q_loop_safe n : forall buf off, safe (q_loop n buf off).
  Proof.
    induction n as [|n IH]; intros buf off; [apply safe_ok|].
    rewrite q_loop_S. destruct (lenN buf <=? off); [apply safe_ok|].
    apply safe_bind; [apply unpack_name_safe|]. intros [ls o] _. apply IH.
  Qed.
  Lemma q_loop_mono n : forall buf off o, q_loop n buf off = Ok o -> off <= o.
  Proof.
    induction n as [|n IH]; intros buf off o H.
    - cbn in H. inversion H. lia.
    - rewrite q_loop_S in H. destruct (lenN buf <=? off); [inversion H; lia|].
      apply bind_ok in H. destruct H as ([ls o1] & U & H).
      apply unpack_name_bounds in U. apply IH in H. lia.
  Qed.

  Lemma rr_loop_safe n : forall buf off, safe (rr_loop n buf off).
  Proof.
    induction n as [|n IH]; intros buf off; [apply safe_ok|].
    rewrite rr_loop_S. destruct (lenN buf <=? off); [apply safe_ok|].
    apply safe_bind; [apply unpack_name_safe|]. intros [ls o] _.
    destruct (lenN buf <=? o + 8 + 1) eqn:E; [apply IH|]. apply N.leb_gt in E.
    apply safe_bind; [apply be_at_safe; lia|]. intros rdlen _. apply IH.
  Qed.
  Lemma rr_loop_mono n : forall buf off o, rr_loop n buf off = Ok o -> off <= o.
  Proof.
    induction n as [|n IH]; intros buf off o H.
    - cbn in H. inversion H. lia.
    - rewrite rr_loop_S in H. destruct (lenN buf <=? off); [inversion H; lia|].
      apply bind_ok in H. destruct H as ([ls o1] & U & H).
      apply unpack_name_bounds in U.
      destruct (lenN buf <=? o1 + 8 + 1).
      + apply IH in H. lia.
      + apply bind_ok in H. destruct H as (rdlen & _ & H). apply IH in H. lia.
  Qed.

  (* SIG.Verify on any buffer of at least header size: an error or a verdict,
     never a panic (and never the model's own fuel), provided the signature
     check itself does not panic *)
  Theorem verify_safe r kname buf now :
    12 <= lenN buf -> (forall a d s, safe (sig_check a d s)) ->
    safe (sig0_verify sig_check r kname buf now).
  Proof.
    intros Hlen Hsc. unfold sig0_verify.
    destruct (key_fields_bad r); [apply safe_err|].
    destruct (negb (has_hash (s_alg r))); [apply safe_err|].
    apply safe_bind; [apply be_at_safe; lia|]. intros qdc _.
    apply safe_bind; [apply be_at_safe; lia|]. intros anc _.
    apply safe_bind; [apply be_at_safe; lia|]. intros auc _.
    apply safe_bind; [apply be_at_safe; lia|]. intros adc _.
    apply safe_bind; [apply q_loop_safe|]. intros o1 Hq. apply q_loop_mono in Hq.
    apply safe_bind; [apply rr_loop_safe|]. intros bodyend Hr. apply rr_loop_mono in Hr.
    destruct (lenN buf <=? bodyend) eqn:E1; [apply safe_err|]. apply N.leb_gt in E1.
    apply safe_bind; [apply unpack_name_safe|]. intros [ls1 o2] U1. apply unpack_name_bounds in U1.
    destruct (lenN buf <=? o2 + 10 + 8 + 8) eqn:E2; [apply safe_err|]. apply N.leb_gt in E2.
    apply safe_bind; [apply be_at_safe; lia|]. intros expire _.
    apply safe_bind; [apply be_at_safe; lia|]. intros incept _.
    destruct ((now <? incept) || (expire <? now)); [apply safe_err|].
    apply safe_bind; [apply unpack_name_safe|]. intros [signer sigend] U2. apply unpack_name_bounds in U2.
    destruct (negb (name_equal signer kname)); [apply safe_err|].
    apply safe_bind.
    - unfold verify_data.
      apply safe_bind; [apply slice_safe; lia|]. intros rd _.
      apply safe_bind; [apply slice_safe; lia|]. intros h10 _.
      apply safe_bind; [apply slice_safe; lia|]. intros body _. apply safe_ok.
    - intros data _. apply safe_bind; [apply slice_safe; lia|]. intros sg _. apply Hsc.
  Qed.
End Safety.

(* ---------- SIG.Sign ---------- *)
Lemma put_u16_mid (a b : bytes) x v : put_u16 (a ++ u16 x ++ b) (lenN a) v = Ok (a ++ u16 v ++ b).
Proof.
  unfold put_u16. rewrite lenN_app, lenN_app, len_u16.
  replace (lenN a + 2 <=? lenN a + (2 + lenN b)) with true by (symmetry; apply N.leb_le; lia).
  rewrite takeN_app_exact. f_equal. f_equal. f_equal.
  rewrite dropN_add, dropN_app_exact. reflexivity.
Qed.
Lemma be_at_mid (a b : bytes) x : be_at 2 (a ++ u16 x ++ b) (lenN a) = Ok (x mod 65536).
Proof.
  unfold be_at. rewrite lenN_app, lenN_app, len_u16.
  replace (lenN a + 2 <=? lenN a + (2 + lenN b)) with true by (symmetry; apply N.leb_le; lia).
  f_equal. unfold get. rewrite dropN_app_exact.
  change 2 with (lenN (u16 x)). rewrite takeN_app_exact. apply be_u16.
Qed.

Lemma put_u16_len b off v b' : put_u16 b off v = Ok b' -> lenN b' = lenN b.
Proof.
  unfold put_u16. destruct (off + 2 <=? lenN b) eqn:E; [|discriminate]. apply N.leb_le in E.
  intros H. assert (E' : b' = takeN off b ++ u16 v ++ dropN (off + 2) b) by congruence.
  rewrite E'. rewrite !lenN_app, len_u16, lenN_takeN, lenN_dropN by lia. lia.
Qed.

Lemma put_u16_ok b off v : off + 2 <= lenN b -> exists b', put_u16 b off v = Ok b'.
Proof.
  intros H. unfold put_u16. replace (off + 2 <=? lenN b) with true by (symmetry; now apply N.leb_le). eauto.
Qed.

Definition sig_pre : bytes := [0] ++ u16 TypeSIG ++ u16 255 ++ u32 0.   (* owner . type class TTL *)

Lemma sig_rr_hdr_split L : sig_rr_hdr L = sig_pre ++ u16 L.
Proof. reflexivity. Qed.

Section SignFacts.
  Variable sig_sign : N -> bytes -> res bytes.

  Lemma sign_spec ulen h body r out :
    sig0_sign sig_sign ulen (hdr_wire h ++ body) r = Ok out ->
    exists sg,
      key_fields_bad r = false /\ valid_wire (s_signer r) = true /\ has_hash (s_alg r) = true /\
      sig_sign (s_alg r) (sig_rdata r ++ hdr_wire h ++ body) = Ok sg /\
      lenN out <= 65535 /\
      out = hdr_wire (set_ar h ((h_ar h mod 65536 + 1) mod 65536)) ++ body ++
            sig_rr_hdr ((lenN (sig_rdata r) mod 65536 + lenN sg) mod 65536) ++ sig_rdata r ++ sg.
  Proof.
    unfold sig0_sign. intros H.
    destruct (key_fields_bad r) eqn:Ek; [discriminate|].
    destruct (ulen + 1 + lenN (sig_rr_wire r) <? ulen + 1) eqn:Eb; [discriminate|].
    destruct (valid_wire (s_signer r)) eqn:Ev; [|discriminate]. cbn [negb] in H.
    destruct (ulen + 1 + lenN (sig_rr_wire r) <? lenN (hdr_wire h ++ body) + lenN (sig_rr_wire r)); [discriminate|].
    destruct (has_hash (s_alg r)) eqn:Eh; [|discriminate]. cbn [negb] in H.
    apply bind_ok in H. destruct H as (sg & Hs & H).
    destruct (65535 <? _) eqn:El; [discriminate|]. apply N.ltb_ge in El.
    exists sg. repeat split; try assumption; try lia.
    - (* length of the result = length before the two patches *)
      apply bind_ok in H. destruct H as (rdlen & _ & H).
      apply bind_ok in H. destruct H as (o1 & P1 & H).
      apply bind_ok in H. destruct H as (adc & _ & P2).
      apply put_u16_len in P1. apply put_u16_len in P2. lia.
    - unfold sig_rr_wire in H. rewrite sig_rr_hdr_split in H.
      set (mbuf := hdr_wire h ++ body) in *.
      replace (mbuf ++ ((sig_pre ++ u16 (lenN (sig_rdata r))) ++ sig_rdata r) ++ sg)
        with ((mbuf ++ sig_pre) ++ u16 (lenN (sig_rdata r)) ++ (sig_rdata r ++ sg)) in H
        by (rewrite <- !app_assoc; reflexivity).
      replace (lenN mbuf + 1 + 2 + 2 + 4) with (lenN (mbuf ++ sig_pre)) in H
        by (rewrite lenN_app; change (lenN sig_pre) with 9; lia).
      rewrite be_at_mid in H. cbn [bind] in H.
      rewrite put_u16_mid in H. cbn [bind] in H.
      unfold mbuf in H. rewrite <- !app_assoc in H.
      rewrite be_ar_wire in H. cbn [bind] in H.
      rewrite put_ar_wire in H.
      assert (E : out = hdr_wire (set_ar h ((h_ar h mod 65536 + 1) mod 65536)) ++ body ++ sig_pre ++
                        u16 ((lenN (sig_rdata r) mod 65536 + lenN sg) mod 65536) ++ sig_rdata r ++ sg)
        by congruence.
      rewrite E. rewrite sig_rr_hdr_split. rewrite <- !app_assoc. reflexivity.
  Qed.

  (* The buffer holds the uncompressed message, one more octet and the SIG: the
     reallocation test of PackBuffer never fires and PackRR has room, for any
     message whose packed form is not longer than its uncompressed length + 1
     (compression only shortens).  What remains is the 65535 limit. *)
  Lemma sign_succeeds ulen mbuf r sg :
    key_fields_bad r = false -> valid_wire (s_signer r) = true -> has_hash (s_alg r) = true ->
    12 <= lenN mbuf -> lenN mbuf <= ulen + 1 ->
    sig_sign (s_alg r) (sig_rdata r ++ mbuf) = Ok sg ->
    lenN mbuf + lenN (sig_rr_wire r) + lenN sg <= 65535 ->
    exists out, sig0_sign sig_sign ulen mbuf r = Ok out.
  Proof.
    intros Hk Hv Hh Hl Hc Hs Ht. unfold sig0_sign.
    rewrite Hk, Hv, Hh. cbn [negb].
    replace (ulen + 1 + lenN (sig_rr_wire r) <? ulen + 1) with false by (symmetry; apply N.ltb_ge; lia).
    replace (ulen + 1 + lenN (sig_rr_wire r) <? lenN mbuf + lenN (sig_rr_wire r)) with false
      by (symmetry; apply N.ltb_ge; lia).
    rewrite Hs. cbn [bind].
    replace (65535 <? lenN (mbuf ++ sig_rr_wire r ++ sg)) with false
      by (symmetry; apply N.ltb_ge; lens; lia).
    assert (Lr : 11 <= lenN (sig_rr_wire r)) by (unfold sig_rr_wire, sig_rr_hdr; lens; lia).
    assert (Lo : lenN (mbuf ++ sig_rr_wire r ++ sg) = lenN mbuf + lenN (sig_rr_wire r) + lenN sg) by (lens; lia).
    destruct (be_at_ok 2 (mbuf ++ sig_rr_wire r ++ sg) (lenN mbuf + 1 + 2 + 2 + 4)) as [rdlen ->]; [lia|].
    cbn [bind].
    destruct (put_u16_ok (mbuf ++ sig_rr_wire r ++ sg) (lenN mbuf + 1 + 2 + 2 + 4)
                         ((rdlen + lenN sg) mod 65536)) as [o1 P1]; [lia|].
    rewrite P1. cbn [bind]. pose proof (put_u16_len _ _ _ _ P1) as L1.
    destruct (be_at_ok 2 o1 10) as [adc ->]; [lia|]. cbn [bind].
    destruct (put_u16_ok o1 10 ((adc + 1) mod 65536)) as [o2 P2]; [lia|]. eauto.
  Qed.
End SignFacts.

(* ErrBuf can only mean: the signed message would exceed 65535 octets (or the
   signer itself reported that class) *)
Lemma sign_errbuf_cause ss ulen mbuf r :
  sig0_sign ss ulen mbuf r = Err "buf" ->
  ss (s_alg r) (sig_rdata r ++ mbuf) = Err "buf" \/
  exists sg, ss (s_alg r) (sig_rdata r ++ mbuf) = Ok sg /\
             65535 < lenN mbuf + lenN (sig_rr_wire r) + lenN sg.
Proof.
  unfold sig0_sign. intros H.
  destruct (key_fields_bad r); [discriminate|].
  destruct (ulen + 1 + lenN (sig_rr_wire r) <? ulen + 1) eqn:Eb; [apply N.ltb_lt in Eb; lia|].
  destruct (negb (valid_wire (s_signer r))); [discriminate|].
  destruct (ulen + 1 + lenN (sig_rr_wire r) <? lenN mbuf + lenN (sig_rr_wire r)); [discriminate|].
  destruct (negb (has_hash (s_alg r))); [discriminate|].
  destruct (ss (s_alg r) (sig_rdata r ++ mbuf)) as [sg|c| |] eqn:Es; cbn [bind] in H; try discriminate.
  - right. exists sg. split; [reflexivity|].
    destruct (65535 <? lenN (mbuf ++ sig_rr_wire r ++ sg)) eqn:El.
    + apply N.ltb_lt in El. rewrite !lenN_app in El. lia.
    + exfalso.
      assert (Lo : lenN (mbuf ++ sig_rr_wire r ++ sg) = lenN mbuf + lenN (sig_rr_wire r) + lenN sg)
        by (rewrite !lenN_app; lia).
      assert (Lr : 11 <= lenN (sig_rr_wire r)) by (unfold sig_rr_wire, sig_rr_hdr; lens; lia).
      destruct (be_at 2 (mbuf ++ sig_rr_wire r ++ sg) (lenN mbuf + 1 + 2 + 2 + 4)) as [rdlen|c| |] eqn:E1;
        cbn [bind] in H; try discriminate.
      * destruct (put_u16 (mbuf ++ sig_rr_wire r ++ sg) (lenN mbuf + 1 + 2 + 2 + 4) ((rdlen + lenN sg) mod 65536))
          as [o1|c| |] eqn:E2; cbn [bind] in H; try discriminate.
        -- destruct (be_at 2 o1 10) as [adc|c| |] eqn:E3; cbn [bind] in H; try discriminate.
           ++ unfold put_u16 in H. destruct (10 + 2 <=? lenN o1); discriminate.
           ++ unfold be_at in E3. destruct (10 + 2 <=? lenN o1); discriminate.
        -- unfold put_u16 in E2. destruct (_ <=? _) in E2; discriminate.
      * unfold be_at in E1. destruct (_ <=? _) in E1; discriminate.
  - left. congruence.
Qed.

(* ---------- SIG.Verify's raw skipping agrees with strict framing ---------- *)
Lemma unpack_question_skip msg off o :
  unpack_question true msg off = Ok o ->
  exists ls on, unpack_name msg off = Ok (ls, on) /\ o = on + 4 /\ o <= lenN msg /\ off < lenN msg.
Proof.
  unfold unpack_question. cbn [negb andb]. intros H.
  apply bind_ok in H. destruct H as ([ls on] & U & H).
  apply bind_ok in H. destruct H as ([ty o2] & R1 & H).
  apply bind_ok in H. destruct H as ([cl o3] & R2 & H).
  apply rd_bounds in R1. apply rd_bounds in R2. pose proof (unpack_name_bounds _ _ _ _ U).
  exists ls, on. inversion H. repeat split; try assumption; lia.
Qed.

Section Skip.
  Variable chk : N -> bytes -> N -> res N.

  Lemma unpack_rr_skip msg off r o :
    unpack_rr chk true msg off = Ok (r, o) ->
    exists ls on, unpack_name msg off = Ok (ls, on) /\ on + 10 <= lenN msg /\
                  o = on + 8 + 2 + be (get msg (on + 8) 2) 0 /\ o <= lenN msg /\ off < lenN msg.
  Proof.
    unfold unpack_rr. cbn [negb andb]. intros H.
    apply bind_ok in H. destruct H as ([ls on] & U & H).
    apply bind_ok in H. destruct H as ([ty o2] & R1 & H).
    apply bind_ok in H. destruct H as ([cl o3] & R2 & H).
    apply bind_ok in H. destruct H as ([ttl o4] & R3 & H).
    apply bind_ok in H. destruct H as ([rdlen o5] & R4 & H).
    pose proof (unpack_name_bounds _ _ _ _ U).
    destruct (rd_bounds _ _ _ _ _ R1) as [E1 _]. destruct (rd_bounds _ _ _ _ _ R2) as [E2 _].
    destruct (rd_bounds _ _ _ _ _ R3) as [E3 _]. destruct (rd_bounds _ _ _ _ _ R4) as [E4 B4].
    assert (Eo4 : o4 = on + 8) by lia. rewrite Eo4 in R4.
    assert (Erd : rdlen = be (get msg (on + 8) 2) 0).
    { unfold rd in R4. destruct (lenN msg <? on + 8 + 2); [discriminate|]. now inversion R4. }
    destruct (lenN msg <? o5 + rdlen) eqn:E; [discriminate|]. apply N.ltb_ge in E.
    exists ls, on. split; [assumption|]. split; [lia|].
    assert (Ho : o = o5 + rdlen).
    { destruct (rdlen =? 0) eqn:E0.
      - apply N.eqb_eq in E0. inversion H. lia.
      - destruct (ty =? TypeTSIG).
        + apply bind_ok in H. destruct H as ([t o'] & _ & H).
          destruct (o' =? o5 + rdlen) eqn:Eo; [|discriminate]. apply N.eqb_eq in Eo. inversion H. lia.
        + apply bind_ok in H. destruct H as (o' & _ & H).
          destruct (o' =? o5 + rdlen) eqn:Eo; [|discriminate]. apply N.eqb_eq in Eo. inversion H. lia. }
    split; [lia|]. split; lia.
  Qed.

  Lemma q_loop_strict n : forall msg s off o,
    skip_questions n true msg off = Ok o -> q_loop n (msg ++ s) off = Ok o.
  Proof.
    induction n as [|n IH]; intros msg s off o H; [exact H|].
    rewrite skip_questions_S in H. apply bind_ok in H. destruct H as (o1 & Q & H).
    apply unpack_question_skip in Q. destruct Q as (ls & on & U & -> & B & Boff).
    rewrite q_loop_S, lenN_app.
    replace (lenN msg + lenN s <=? off) with false by (symmetry; apply N.leb_gt; lia).
    rewrite (unpack_name_app _ s _ _ U). cbn [bind]. now apply IH.
  Qed.

  Lemma rr_step msg s off r o n :
    unpack_rr chk true msg off = Ok (r, o) ->
    rr_loop (S n) (msg ++ s) off = rr_loop n (msg ++ s) o.
  Proof.
    intros U. apply unpack_rr_skip in U. destruct U as (ls & on & U & B1 & -> & B2 & Boff).
    rewrite rr_loop_S, lenN_app.
    replace (lenN msg + lenN s <=? off) with false by (symmetry; apply N.leb_gt; lia).
    rewrite (unpack_name_app _ s _ _ U). cbn [bind].
    replace (lenN msg + lenN s <=? on + 8 + 1) with false by (symmetry; apply N.leb_gt; lia).
    unfold be_at. rewrite lenN_app.
    replace (on + 8 + 2 <=? lenN msg + lenN s) with true by (symmetry; apply N.leb_le; lia).
    cbn [bind]. rewrite get_app_l by lia. reflexivity.
  Qed.

  Lemma rr_loop_strict n : forall msg s off o,
    skip_rrs chk n true msg off = Ok o -> rr_loop n (msg ++ s) off = Ok o.
  Proof.
    induction n as [|n IH]; intros msg s off o H; [exact H|].
    rewrite skip_rrs_S in H. apply bind_ok in H. destruct H as ([r o1] & U & H).
    rewrite (rr_step _ s _ _ _ n U).
    destruct (unpack_rr_ext chk true _ [] _ _ _ U) as [_ B].
    replace (o1 =? off) with false in H by (symmetry; apply N.eqb_neq; lia).
    now apply IH.
  Qed.

  Lemma rr_loop_plain n : forall msg s off o,
    skip_plain chk n msg off = Ok o -> rr_loop n (msg ++ s) off = Ok o.
  Proof.
    induction n as [|n IH]; intros msg s off o H; [exact H|].
    rewrite skip_plain_S in H. apply bind_ok in H. destruct H as ([r o1] & U & H).
    rewrite (rr_step _ s _ _ _ n U).
    destruct (rv_type r =? TypeTSIG); [discriminate|]. now apply IH.
  Qed.
End Skip.

Lemma rr_loop_end n buf off : lenN buf <= off -> rr_loop n buf off = Ok off.
Proof.
  intros H. destruct n; [reflexivity|]. rewrite rr_loop_S.
  replace (lenN buf <=? off) with true by (symmetry; now apply N.leb_le). reflexivity.
Qed.

Lemma rr_loop_add a : forall b buf off,
  rr_loop (a + b) buf off = bind (rr_loop a buf off) (fun o => rr_loop b buf o).
Proof.
  induction a as [|a IH]; intros b buf off; [reflexivity|].
  change (S a + b)%nat with (S (a + b)). rewrite !rr_loop_S.
  destruct (lenN buf <=? off) eqn:E.
  - cbn [bind]. apply N.leb_le in E. now rewrite rr_loop_end.
  - destruct (unpack_name buf off) as [[ls on]| | |]; cbn [bind]; try reflexivity.
    destruct (lenN buf <=? on + 8 + 1); [apply IH|].
    destruct (be_at 2 buf (on + 8)); cbn [bind]; try reflexivity. apply IH.
Qed.

(* ---------- a signed message verifies ---------- *)
Lemma be_at_view n (m : bytes) off enc rest :
  off <= lenN m -> dropN off m = enc ++ rest -> lenN enc = n ->
  be_at n m off = Ok (be enc 0) /\ off + n <= lenN m /\ dropN (off + n) m = rest.
Proof.
  intros Hoff Hd Hn. destruct (rd_view n m off enc rest Hoff Hd Hn) as (R & B & D).
  split; [|split; assumption]. unfold be_at.
  replace (off + n <=? lenN m) with true by (symmetry; now apply N.leb_le).
  unfold rd in R. destruct (lenN m <? off + n); [discriminate|]. congruence.
Qed.

Lemma slice_view (m : bytes) off x rest :
  off <= lenN m -> dropN off m = x ++ rest -> slice m off (off + lenN x) = Ok x.
Proof.
  intros Hoff Hd. unfold slice.
  assert (L : lenN m - off = lenN x + lenN rest) by (rewrite <- lenN_dropN, Hd; apply lenN_app).
  replace ((off <=? off + lenN x) && (off + lenN x <=? lenN m)) with true
    by (symmetry; apply andb_true_intro; split; apply N.leb_le; lia).
  replace (off + lenN x - off) with (lenN x) by lia. rewrite Hd. now rewrite takeN_app_exact.
Qed.

Lemma be_qd_wire h rest : be_at 2 (hdr_wire h ++ rest) 4 = Ok (h_qd h mod 65536).
Proof.
  unfold be_at. rewrite lenN_app, len_hdr_wire.
  replace (4 + 2 <=? 12 + lenN rest) with true by (symmetry; apply N.leb_le; lia).
  destruct h as [id bits qd an ns ar]. f_equal.
  change (get (hdr_wire (Build_hdr id bits qd an ns ar) ++ rest) 4 2) with (u16 qd). apply be_u16.
Qed.
Lemma be_an_wire h rest : be_at 2 (hdr_wire h ++ rest) 6 = Ok (h_an h mod 65536).
Proof.
  unfold be_at. rewrite lenN_app, len_hdr_wire.
  replace (6 + 2 <=? 12 + lenN rest) with true by (symmetry; apply N.leb_le; lia).
  destruct h as [id bits qd an ns ar]. f_equal.
  change (get (hdr_wire (Build_hdr id bits qd an ns ar) ++ rest) 6 2) with (u16 an). apply be_u16.
Qed.
Lemma be_ns_wire h rest : be_at 2 (hdr_wire h ++ rest) 8 = Ok (h_ns h mod 65536).
Proof.
  unfold be_at. rewrite lenN_app, len_hdr_wire.
  replace (8 + 2 <=? 12 + lenN rest) with true by (symmetry; apply N.leb_le; lia).
  destruct h as [id bits qd an ns ar]. f_equal.
  change (get (hdr_wire (Build_hdr id bits qd an ns ar) ++ rest) 8 2) with (u16 ns). apply be_u16.
Qed.

(* the header octets SIG.Sign hashed: octets 0..9 and the original ARCOUNT *)
Lemma hdr_split h : h_ar h < 65536 ->
  hdr_wire h = takeN 10 (hdr_wire h) ++ [h_ar h / 256; h_ar h mod 256].
Proof.
  intros H. destruct h as [id bits qd an ns ar]. cbn [h_ar] in H.
  unfold hdr_wire, u16. cbn [h_id h_bits h_qd h_an h_ns h_ar app takeN N.to_nat Pos.to_nat Pos.iter_op Nat.add firstn].
  do 10 f_equal. replace ((ar / 256) mod 256) with (ar / 256) by lia. reflexivity.
Qed.

Section RoundTrip.
  Variable ss : N -> bytes -> res bytes.
  Variable sc : N -> bytes -> bytes -> res unit.
  Variable chk : N -> bytes -> N -> res N.

  Theorem sign_verify_ok h body r kname ulen out now :
    hdr_ok h -> h_an h + h_ns h + h_ar h + 1 < 65536 -> wf_body chk h body ->
    s_expire r < 4294967296 -> s_incept r < 4294967296 -> s_keytag r < 65536 ->
    (forall d s, ss (s_alg r) d = Ok s -> sc (s_alg r) d s = Ok tt) ->
    sig0_sign ss ulen (hdr_wire h ++ body) r = Ok out ->
    s_incept r <= now <= s_expire r -> name_equal (s_signer r) kname = true ->
    sig0_verify sc r kname out now = Ok tt.
  Proof.
    intros Hh Hsum Hwf Bx Bi Bk Hsound Hsign Hwin Hname.
    apply sign_spec in Hsign.
    destruct Hsign as (sg & Hk & Hv & Hhash & Hss & Hlen & Eout).
    destruct Hh as (H1 & H2 & H3 & H4 & H5 & H6).
    replace ((h_ar h mod 65536 + 1) mod 65536) with (h_ar h + 1) in Eout by lia.
    set (h' := set_ar h (h_ar h + 1)) in *.
    set (L := (lenN (sig_rdata r) mod 65536 + lenN sg) mod 65536) in *.
    set (M := hdr_wire h' ++ body).
    set (S := sig_rr_hdr L ++ sig_rdata r ++ sg).
    assert (Eo : out = M ++ S) by (unfold M, S; rewrite Eout, <- app_assoc; reflexivity).
    assert (LM : lenN M = 12 + lenN body) by (unfold M; rewrite lenN_app; reflexivity).
    assert (LS : lenN S = 11 + lenN (sig_rdata r) + lenN sg)
      by (unfold S, sig_rr_hdr; lens; lia).
    assert (Lrd : lenN (sig_rdata r) = 18 + lenN (wire_name (s_signer r)))
      by (unfold sig_rdata, u8; lens; lia).
    unfold sig0_verify. rewrite Hk, Hhash. cbn [negb].
    rewrite Eout. rewrite be_qd_wire, be_an_wire, be_ns_wire, be_ar_wire. cbn [bind].
    rewrite <- Eout, Eo.
    replace (h_qd h' mod 65536) with (h_qd h) by (unfold h'; cbn; lia).
    replace (h_an h' mod 65536) with (h_an h) by (unfold h'; cbn; lia).
    replace (h_ns h' mod 65536) with (h_ns h) by (unfold h'; cbn; lia).
    replace (h_ar h' mod 65536) with (h_ar h + 1) by (unfold h'; cbn; lia).
    specialize (Hwf (hdr_wire h') (len_hdr_wire h')). fold M in Hwf. unfold walk_strict in Hwf.
    apply bind_ok in Hwf. destruct Hwf as (o1 & W1 & Hwf).
    apply bind_ok in Hwf. destruct Hwf as (o2 & W2 & Hwf).
    apply bind_ok in Hwf. destruct Hwf as (o3 & W3 & W4).
    rewrite (q_loop_strict chk _ _ S _ _ W1). cbn [bind].
    replace (N.to_nat ((h_an h + h_ns h + (h_ar h + 1)) mod 65536 - 1))
      with (N.to_nat (h_an h) + (N.to_nat (h_ns h) + N.to_nat (h_ar h)))%nat by lia.
    rewrite rr_loop_add, (rr_loop_strict chk _ _ S _ _ W2). cbn [bind].
    rewrite rr_loop_add, (rr_loop_strict chk _ _ S _ _ W3). cbn [bind].
    rewrite (rr_loop_plain chk _ _ S _ _ W4). cbn [bind].
    set (be0 := 12 + lenN body).
    assert (Lout : lenN (M ++ S) = be0 + lenN S) by (rewrite lenN_app, LM; reflexivity).
    replace (lenN (M ++ S) <=? be0) with false by (symmetry; apply N.leb_gt; lia).
    (* the SIG record at be0 *)
    assert (B0 : be0 <= lenN (M ++ S)) by lia.
    assert (D0 : dropN be0 (M ++ S) =
                 wire_name [] ++ (u16 TypeSIG ++ u16 255 ++ u32 0 ++ u16 L) ++ sig_rdata r ++ sg).
    { unfold be0. rewrite <- LM, dropN_app_exact. unfold S, sig_rr_hdr. rewrite <- !app_assoc. reflexivity. }
    destruct (name_view _ _ [] _ B0 D0 eq_refl) as (U1 & B1 & D1). rewrite U1. cbn [bind].
    change (lenN (wire_name [])) with 1 in *.
    assert (D2 : dropN (be0 + 1 + 10) (M ++ S) = sig_rdata r ++ sg).
    { rewrite dropN_add, D1. change 10 with (lenN (u16 TypeSIG ++ u16 255 ++ u32 0 ++ u16 L)).
      apply dropN_app_exact. }
    replace (lenN (M ++ S) <=? be0 + 1 + 10 + 8 + 8) with false by (symmetry; apply N.leb_gt; lia).
    assert (D3 : dropN (be0 + 1 + 10 + 8) (M ++ S) =
                 u32 (s_expire r) ++ u32 (s_incept r) ++ u16 (s_keytag r) ++ wire_name (s_signer r) ++ sg).
    { rewrite dropN_add, D2. unfold sig_rdata.
      replace ((u16 0 ++ u8 (s_alg r) ++ u8 0 ++ u32 0 ++ u32 (s_expire r) ++ u32 (s_incept r) ++
                u16 (s_keytag r) ++ wire_name (s_signer r)) ++ sg)
        with ((u16 0 ++ u8 (s_alg r) ++ u8 0 ++ u32 0) ++ u32 (s_expire r) ++ u32 (s_incept r) ++
              u16 (s_keytag r) ++ wire_name (s_signer r) ++ sg) by (rewrite <- !app_assoc; reflexivity).
      change 8 with (lenN (u16 0 ++ u8 (s_alg r) ++ u8 0 ++ u32 0)). apply dropN_app_exact. }
    assert (B3 : be0 + 1 + 10 + 8 <= lenN (M ++ S)) by lia.
    destruct (be_at_view 4 _ _ _ _ B3 D3 (len_u32 _)) as (R4 & B4 & D4). rewrite R4. cbn [bind].
    destruct (be_at_view 4 _ _ _ _ B4 D4 (len_u32 _)) as (R5 & B5 & D5). rewrite R5. cbn [bind].
    rewrite !be_u32, !N.mod_small by assumption.
    replace ((now <? s_incept r) || (s_expire r <? now)) with false
      by (symmetry; apply orb_false_intro; [apply N.ltb_ge|apply N.ltb_ge]; lia).
    assert (D6 : dropN (be0 + 1 + 10 + 8 + 8 + 2) (M ++ S) = wire_name (s_signer r) ++ sg).
    { replace (be0 + 1 + 10 + 8 + 8 + 2) with (be0 + 1 + 10 + 8 + 4 + 4 + 2) by lia.
      rewrite dropN_add, D5. change 2 with (lenN (u16 (s_keytag r))). apply dropN_app_exact. }
    assert (B6 : be0 + 1 + 10 + 8 + 8 + 2 <= lenN (M ++ S)) by lia.
    destruct (name_view _ _ _ _ B6 D6 Hv) as (U7 & B7 & D7). rewrite U7. cbn [bind].
    rewrite Hname. cbn [negb].
    (* the digest input *)
    set (sigstart := be0 + 1 + 10) in *.
    set (sigend := sigstart + 8 + 8 + 2 + lenN (wire_name (s_signer r))) in *.
    assert (Esig : sigend = sigstart + lenN (sig_rdata r)) by (unfold sigend; lia).
    unfold verify_data.
    assert (Bss : sigstart <= lenN (M ++ S)) by (unfold sigstart; lia).
    rewrite Esig, (slice_view _ _ _ _ Bss D2). cbn [bind].
    assert (S10 : slice (M ++ S) 0 10 = Ok (takeN 10 (hdr_wire h'))).
    { unfold slice. replace ((0 <=? 10) && (10 <=? lenN (M ++ S))) with true
        by (symmetry; apply andb_true_intro; split; apply N.leb_le; lia).
      rewrite N.sub_0_r, dropN_0. unfold M. rewrite <- !app_assoc.
      rewrite takeN_app_le by (rewrite len_hdr_wire; lia). reflexivity. }
    rewrite S10. cbn [bind].
    assert (Sb : slice (M ++ S) 12 be0 = Ok body).
    { assert (D12 : dropN 12 (M ++ S) = body ++ S).
      { unfold M. rewrite <- app_assoc. change 12 with (lenN (hdr_wire h')). apply dropN_app_exact. }
      unfold be0. apply (slice_view _ _ _ S); [lia|exact D12]. }
    rewrite Sb. cbn [bind].
    assert (Elen : lenN (M ++ S) = sigstart + lenN (sig_rdata r) + lenN sg) by (unfold sigstart; lia).
    rewrite Elen.
    assert (Ssg : slice (M ++ S) (sigstart + lenN (sig_rdata r)) (sigstart + lenN (sig_rdata r) + lenN sg) = Ok sg).
    { assert (Dg : dropN (sigstart + lenN (sig_rdata r)) (M ++ S) = sg ++ []).
      { rewrite dropN_add, D2, dropN_app_exact. now rewrite app_nil_r. }
      apply (slice_view _ _ _ []); [lia|exact Dg]. }
    rewrite Ssg. cbn [bind].
    apply Hsound. rewrite <- Hss. f_equal. f_equal.
    (* hashed by Verify = hashed by Sign *)
    replace ((h_ar h + 1 + 65535) mod 65536 / 256) with (h_ar h / 256) by lia.
    replace ((h_ar h + 1 + 65535) mod 65536 mod 256) with (h_ar h mod 256) by lia.
    rewrite (hdr_split h H6) at 1.
    replace (takeN 10 (hdr_wire h')) with (takeN 10 (hdr_wire h)) by (destruct h; reflexivity).
    rewrite <- !app_assoc. reflexivity.
  Qed.
End RoundTrip.

(* ---------- what a successful Verify has checked ---------- *)
Section Sound.
  Variable sc : N -> bytes -> bytes -> res unit.

  Theorem verify_sound0 r kname buf now :
    sig0_verify sc r kname buf now = Ok tt ->
    exists adc bodyend sigstart sigend rd h10 body sg expire incept signer,
      key_fields_bad r = false /\ has_hash (s_alg r) = true /\
      be_at 2 buf 10 = Ok adc /\ 12 <= bodyend /\
      slice buf sigstart sigend = Ok rd /\ slice buf 0 10 = Ok h10 /\
      slice buf 12 bodyend = Ok body /\ slice buf sigend (lenN buf) = Ok sg /\
      be_at 4 buf (sigstart + 8) = Ok expire /\ be_at 4 buf (sigstart + 8 + 4) = Ok incept /\
      incept <= now <= expire /\
      unpack_name buf (sigstart + 8 + 8 + 2) = Ok (signer, sigend) /\ name_equal signer kname = true /\
      sc (s_alg r) (rd ++ h10 ++ [(adc + 65535) mod 65536 / 256; (adc + 65535) mod 65536 mod 256] ++ body) sg = Ok tt.
  Proof.
    unfold sig0_verify. intros H.
    destruct (key_fields_bad r) eqn:Ek; [discriminate|].
    destruct (has_hash (s_alg r)) eqn:Eh; [|discriminate]. cbn [negb] in H.
    apply bind_ok in H. destruct H as (qdc & _ & H).
    apply bind_ok in H. destruct H as (anc & _ & H).
    apply bind_ok in H. destruct H as (auc & _ & H).
    apply bind_ok in H. destruct H as (adc & Hadc & H).
    apply bind_ok in H. destruct H as (o1 & Hq & H). apply q_loop_mono in Hq.
    apply bind_ok in H. destruct H as (bodyend & Hr & H). apply rr_loop_mono in Hr.
    destruct (lenN buf <=? bodyend); [discriminate|].
    apply bind_ok in H. destruct H as ([ls o2] & _ & H).
    destruct (lenN buf <=? o2 + 10 + 8 + 8); [discriminate|].
    apply bind_ok in H. destruct H as (expire & Hx & H).
    apply bind_ok in H. destruct H as (incept & Hi & H).
    destruct ((now <? incept) || (expire <? now)) eqn:Ew; [discriminate|].
    apply orb_false_elim in Ew. destruct Ew as [W1 W2]. apply N.ltb_ge in W1. apply N.ltb_ge in W2.
    apply bind_ok in H. destruct H as ([signer sigend] & Hs & H).
    destruct (name_equal signer kname) eqn:En; [|discriminate]. cbn [negb] in H.
    apply bind_ok in H. destruct H as (data & Hd & H).
    apply bind_ok in H. destruct H as (sg & Hsg & H).
    unfold verify_data in Hd.
    apply bind_ok in Hd. destruct Hd as (rd & Hrd & Hd).
    apply bind_ok in Hd. destruct Hd as (h10 & H10 & Hd).
    apply bind_ok in Hd. destruct Hd as (body & Hb & Hd).
    assert (Ed : data = rd ++ h10 ++ [(adc + 65535) mod 65536 / 256; (adc + 65535) mod 65536 mod 256] ++ body).
    { congruence. }
    subst data.
    exists adc, bodyend, (o2 + 10), sigend, rd, h10, body, sg, expire, incept, signer.
    repeat split; try assumption; try lia.
    all: try exact (fun _ _ => Ok []); exact (fun _ _ _ => Ok tt).
  Qed.

  (* idealisation, named: a signature fits one digest input only *)
  Theorem same_sig_same_data r1 r2 k1 k2 buf1 buf2 now1 now2 :
    (forall a1 a2 d1 d2 s, sc a1 d1 s = Ok tt -> sc a2 d2 s = Ok tt -> d1 = d2) ->
    sig0_verify sc r1 k1 buf1 now1 = Ok tt -> sig0_verify sc r2 k2 buf2 now2 = Ok tt ->
    forall e1 e2 sg, slice buf1 e1 (lenN buf1) = Ok sg -> slice buf2 e2 (lenN buf2) = Ok sg ->
    (forall adc bodyend sigstart rd h10 body,
        be_at 2 buf1 10 = Ok adc -> slice buf1 sigstart e1 = Ok rd -> slice buf1 0 10 = Ok h10 ->
        slice buf1 12 bodyend = Ok body ->
        sc (s_alg r1) (rd ++ h10 ++ [(adc + 65535) mod 65536 / 256; (adc + 65535) mod 65536 mod 256] ++ body) sg = Ok tt ->
        forall adc' bodyend' sigstart' rd' h10' body',
          be_at 2 buf2 10 = Ok adc' -> slice buf2 sigstart' e2 = Ok rd' -> slice buf2 0 10 = Ok h10' ->
          slice buf2 12 bodyend' = Ok body' ->
          sc (s_alg r2) (rd' ++ h10' ++ [(adc' + 65535) mod 65536 / 256; (adc' + 65535) mod 65536 mod 256] ++ body') sg = Ok tt ->
          rd ++ h10 ++ [(adc + 65535) mod 65536 / 256; (adc + 65535) mod 65536 mod 256] ++ body =
          rd' ++ h10' ++ [(adc' + 65535) mod 65536 / 256; (adc' + 65535) mod 65536 mod 256] ++ body').
  Proof.
    intros Hbind _ _ e1 e2 sg _ _ adc bodyend sigstart rd h10 body _ _ _ _ C1
           adc' bodyend' sigstart' rd' h10' body' _ _ _ _ C2.
    eapply Hbind; eassumption.
  Qed.
End Sound.

(* ---------- the data SIG.Sign hashes determines the SIG fields and the message ---------- *)
Lemma u8_inj a b : a < 256 -> b < 256 -> u8 a = u8 b -> a = b.
Proof. unfold u8. intros Ha Hb H. inversion H. rewrite !N.mod_small in H1 by assumption. exact H1. Qed.

Lemma sign_data_injective r1 r2 m1 m2 :
  s_alg r1 < 256 -> s_alg r2 < 256 -> s_expire r1 < 4294967296 -> s_expire r2 < 4294967296 ->
  s_incept r1 < 4294967296 -> s_incept r2 < 4294967296 -> s_keytag r1 < 65536 -> s_keytag r2 < 65536 ->
  valid_wire (s_signer r1) = true -> valid_wire (s_signer r2) = true ->
  sig_rdata r1 ++ m1 = sig_rdata r2 ++ m2 ->
  s_alg r1 = s_alg r2 /\ s_expire r1 = s_expire r2 /\ s_incept r1 = s_incept r2 /\
  s_keytag r1 = s_keytag r2 /\ s_signer r1 = s_signer r2 /\ m1 = m2.
Proof.
  intros A1 A2 X1 X2 I1 I2 K1 K2 V1 V2 H. unfold sig_rdata in H. rewrite <- !app_assoc in H.
  apply app_inv_head in H.
  apply app_eq_len_l in H; [|reflexivity]. destruct H as [Ea H].
  apply app_inv_head in H. apply app_inv_head in H.
  apply app_eq_len_l in H; [|reflexivity]. destruct H as [Ex H].
  apply app_eq_len_l in H; [|reflexivity]. destruct H as [Ei H].
  apply app_eq_len_l in H; [|reflexivity]. destruct H as [Ek H].
  apply wire_name_prefix_free in H; try assumption. destruct H as [Es Em].
  apply u8_inj in Ea; try assumption. apply u32_inj in Ex, Ei; try assumption.
  apply u16_inj in Ek; try assumption. repeat split; assumption.
Qed.

(* ---------- concrete instances: non-vacuity and the two defects ---------- *)
Definition ex_ss (_ : N) (d : bytes) : res bytes := Ok d.          (* the signature is the data *)
Definition ex_sc (_ : N) (d s : bytes) : res unit := if bytes_eqb d s then Ok tt else Err "sig".
Definition ex_sig : sigrr := Build_sigrr 15 2000 1000 4660 true [[107; 101; 121]].
(* n additional records: . TYPE65300 IN 0 with empty RDATA *)
Definition ex_rr : bytes := [0; 255; 20; 0; 1; 0; 0; 0; 0; 0; 0].
Definition ex_msg (n : nat) : bytes :=
  hdr_wire (Build_hdr 4660 256 1 0 0 (N.of_nat n)) ++
  ([7; 101; 120; 97; 109; 112; 108; 101; 0; 0; 1; 0; 1] ++ concat (repeat ex_rr n)).

Example ex_sig_sound : forall d s, ex_ss 15 d = Ok s -> ex_sc 15 d s = Ok tt.
Proof. unfold ex_ss, ex_sc. intros d s H. inversion H. now rewrite bytes_eqb_refl. Qed.

Example ex_sig_binding : forall a1 a2 d1 d2 s, ex_sc a1 d1 s = Ok tt -> ex_sc a2 d2 s = Ok tt -> d1 = d2.
Proof.
  unfold ex_sc. intros a1 a2 d1 d2 s H1 H2.
  destruct (bytes_eqb d1 s) eqn:E1; [|discriminate]. destruct (bytes_eqb d2 s) eqn:E2; [|discriminate].
  apply bytes_eqb_eq in E1. apply bytes_eqb_eq in E2. congruence.
Qed.

(* a message with 2 additional records: signed, verified inside the window,
   rejected outside it, with another key name, and after altering one octet *)
Example ex_sign_verify :
  match sig0_sign ex_ss (lenN (ex_msg 2)) (ex_msg 2) ex_sig with
  | Ok out =>
    sig0_verify ex_sc ex_sig [[75; 69; 89]] out 1500 = Ok tt /\
    sig0_verify ex_sc ex_sig [[107; 101; 121]] out 999 = Err "time" /\
    sig0_verify ex_sc ex_sig [[107; 101; 121]] out 2001 = Err "time" /\
    sig0_verify ex_sc ex_sig [[120]] out 1500 = Err "signer" /\
    sig0_verify ex_sc ex_sig [[107; 101; 121]] (takeN 31 out ++ [9] ++ dropN 32 out) 1500 = Err "sig"
  | _ => False
  end.
Proof. vm_compute. repeat split; reflexivity. Qed.

(* 255, 256 and 1000 additional records: signed and verified alike *)
Example ex_many_additionals :
  match sig0_sign ex_ss 5000 (ex_msg 255) ex_sig, sig0_sign ex_ss 5000 (ex_msg 256) ex_sig,
        sig0_sign ex_ss 20000 (ex_msg 1000) ex_sig with
  | Ok o255, Ok o256, Ok o1000 =>
    sig0_verify ex_sc ex_sig [[107; 101; 121]] o255 1500 = Ok tt /\
    sig0_verify ex_sc ex_sig [[107; 101; 121]] o256 1500 = Ok tt /\
    sig0_verify ex_sc ex_sig [[107; 101; 121]] o1000 1500 = Ok tt
  | _, _, _ => False
  end.
Proof. vm_compute. repeat split; reflexivity. Qed.

Example ex_wf_msg : wf_body ex_chk (Build_hdr 4660 256 1 0 0 2)
                            ([7; 101; 120; 97; 109; 112; 108; 101; 0; 0; 1; 0; 1] ++ concat (repeat ex_rr 2)).
Proof.
  intros hd Hl. unfold lenN in Hl.
  do 12 (destruct hd as [|? hd]; [cbn in Hl; lia|]).
  destruct hd; [|cbn [length] in Hl; lia].
  vm_compute. reflexivity.
Qed.
