From Dns Require Import Model.NameWire.
(* placeholder until Proofs/DecodeSafetyProofs.v lands *)
Theorem placeholder_C02 : unpack_name [] 0 = Err "buf".
Proof. reflexivity. Qed.
