package main

// C07: parsing hostile zone text is safe, bounded, opens no files unless
// allowed. Generators, direct oracles on the implementation, and the model
// cases compared with Corr/C07.v.

import (
	"fmt"
	"math"
	"os"
	"runtime"
	"sort"
	"strconv"
	"strings"
	"time"
	"unicode"

	"github.com/miekg/dns"
	. "verif/harness/common"
	z "verif/harness/zonecommon"
)

func main() { Main(runC07) }

var stat = map[string]int{}

// ---------- corpus of valid zone texts (RDATA grammars inside the model) ----------

var corpus = []string{
	"$ORIGIN example.org.\n$TTL 3600\n@ IN NS ns1\nns1 300 IN A 192.0.2.1\n    IN AAAA 2001:db8::1\nwww CNAME ns1 ; alias\n",
	"txt 60 IN TXT ( \"hello world\" \"a;b\"\n  \"c\\\"d\" ) ; trailing\n",
	"@ 5 PTR host.example.com.\n\n; only a comment\n   ; indented comment\nb 1h2m IN TXT a b c\n",
	"a TYPE65280 \\# 4 0a000001\nb CLASS32 TYPE731 \\# 0\nc 5 A \\# 4 0a000001\nd 5 AAAA \\# 16 20010db8000000000000000000000001\n",
	"$GENERATE 1-3 host$ 60 A 10.0.0.$\n",
	"$GENERATE 0-6/2 ${0,3,d}.ptr 7 PTR h${1,2,x}.example.\n",
	"$TTL 1w2d3h4m5s\nx NS a.b.c.\r\ny\tIN\t5\tNS\t@\r\n",
	"$INCLUDE sub.zone sub\nafter 5 A 1.1.1.1\n",
	"a 5 IN A 1.2.3.4\n  6 TXT \"x\"\n\tCH 7 TXT \"\" \"\"\n",
	"e\\.f 5 NS g\\046h.\n\\@ 5 NS \\064\n",
	"a 5 SPF \"v=spf1 -all\"\nb 5 DNAME c\nd 5 MB e\n",
	"a 5 TXT ( a\n ; in-brace comment\n b ; another\n ) ; last\n",
	"a 5 A 1.2.3.4",
	"a 5 A",
	"a 5 A\n",
	" A 1.2.3.4\n",
	"a IN A 1.2.3.4\n",
}

var specials = []byte{'"', '(', ')', ';', '\\', '\n', '\r', ' ', '\t', '$', '@', '.', 0, 0xff, '{', '}', ',', '-', '/', '0', '9', 'a', 'A', '#', ':', '%', 0xc4, 0xb1, 0xc5, 0xbf}

var vocab = []string{"a", "@", "example.", "b.c", "IN", "in", "CH", "CLASS5", "CLASS", "class65536", "TYPE1", "TYPE", "type65536",
	"TYPE65280", "A", "a", "AAAA", "NS", "ns", "TXT", "txt", "ANY", "PTR", "5", "1h", "3600", "99999999999", "$TTL", "$ttl", "$ORIGIN",
	"$origin", "$INCLUDE", "$include", "$GENERATE", "$generate", "1-3", "0-0", "3-1", "1-5/2", "(", ")", "\"", ";", "; c", "\\#", "4",
	"0", "0a000001", "1.2.3.4", "::1", "1.2.3", "\\", "\\$", "$", "${0,2,x}", "x y", "\"q r\"", "\"\"", "f.zone", "cla\xc5\xbfs5",
	"\xc4\xb1N", "\xc5\xbfpf", "$\xc4\xb1nclude"}

var seps = []string{" ", " ", " ", "\t", "\n", "\n", "", "  ", " \n", "\r\n", " ( ", " ) "}

func mutate(r *Rng, s []byte) []byte {
	o := append([]byte{}, s...)
	n := 1 + r.Intn(3)
	for i := 0; i < n; i++ {
		switch r.Intn(5) {
		case 0: // truncate
			if len(o) > 0 {
				o = o[:r.Intn(len(o)+1)]
			}
		case 1: // replace
			if len(o) > 0 {
				o[r.Intn(len(o))] = specials[r.Intn(len(specials))]
			}
		case 2: // insert
			p := r.Intn(len(o) + 1)
			o = append(o[:p], append([]byte{specials[r.Intn(len(specials))]}, o[p:]...)...)
		case 3: // delete
			if len(o) > 0 {
				p := r.Intn(len(o))
				o = append(o[:p], o[p+1:]...)
			}
		case 4: // duplicate a span
			if len(o) > 1 {
				a := r.Intn(len(o))
				b := a + r.Intn(len(o)-a)
				o = append(o[:b], append(append([]byte{}, o[a:b]...), o[b:]...)...)
			}
		}
	}
	return o
}

func soup(r *Rng) []byte {
	var sb strings.Builder
	n := 1 + r.Intn(14)
	for i := 0; i < n; i++ {
		sb.WriteString(vocab[r.Intn(len(vocab))])
		sb.WriteString(seps[r.Intn(len(seps))])
	}
	if r.Intn(3) > 0 {
		sb.WriteString("\n")
	}
	return []byte(sb.String())
}

func randBytes(r *Rng) []byte {
	n := r.Intn(80)
	b := make([]byte, n)
	for i := range b {
		switch r.Intn(4) {
		case 0:
			b[i] = byte(r.Next())
		case 1:
			b[i] = specials[r.Intn(len(specials))]
		default:
			const cs = "aA5 \n.\"();\\$"
			b[i] = cs[r.Intn(len(cs))]
		}
	}
	return b
}

// ---------- long tokens and comments ----------

func rep(c byte, n int) z.Item { return z.Item{B: []byte{c}, N: n} }
func lit(s string) z.Item      { return z.Item{B: []byte(s), N: 1} }

func longRecipes(n int) []z.Recipe {
	return []z.Recipe{
		{rep('a', n)},
		{rep('a', n), lit("\n")},
		{rep('a', n), lit(" 5 A 1.2.3.4\n")},
		{lit("a 5 TXT "), rep('x', n), lit("\n")},
		{lit("a 5 TXT \""), rep('x', n), lit("\"\n")},
		{lit("a 5 TXT \""), rep('x', n)},
		{lit("a 5 NS "), rep('x', n), lit("\n")},
		{lit("a 5 A 1.2.3.4 ;"), rep('c', n), lit("\n")},
		{lit("a 5 A 1.2.3.4 ;"), rep('c', n)},
		{lit(";"), rep('c', n), lit("\nb 5 A 1.2.3.4\n")},
		// a comment inside parentheses, continued after the line break: the
		// delayed blank lands on the buffer boundary when the first part has
		// 511 octets
		{lit("a 5 TXT ( x ;"), rep('c', n-1), lit("\n y ; more\n ) z\n")},
		{lit("a 5 TXT ( x ;"), rep('c', n), lit("\n y ; more\n ) z\n")},
		{lit("a 5 TXT ( x ;"), rep('c', n-2), lit("\n y ; more\n ) z\n")},
		{lit("a 5 TXT ( x ;"), rep('c', n-1), lit("\n y;m\n z;n\n ) z\n")},
		{lit("a 5 TXT ( ;"), rep('c', n), lit("\nx ;d\n) \n")},
		{rep('\\', n), lit("\n")},
		{lit("a 5 TXT "), rep('\\', n), lit("\n")},
		{rep('(', n), lit("a 5 A 1.2.3.4"), rep(')', n), lit("\n")},
		{rep('(', n), lit("a 5 A 1.2.3.4"), rep(')', n+1), lit("\n")},
		{rep('(', n)},
		{rep('"', n)},
		{rep(' ', n), lit("A 1.2.3.4\n")},
		{rep('\n', n), lit("a 5 A 1.2.3.4\n")},
		{lit("$TTL "), rep('9', n), lit("\n")},
		{lit("$GENERATE 1-2 a$ 5 TXT "), rep('x', n), lit("\n")},
		{lit("$GENERATE 1-2 a$ 5 TXT "), rep('$', n), lit("\n")},
	}
}

// ---------- direct oracles ----------

var errClasses = map[string]int{}

func describe(c *z.Config) map[string]any { return c.JSON() }

// checkOutcome states the clauses of C07 on one observed run.
var timedOutRuns int

func checkOutcome(c *z.Config, o *z.Outcome, textLen int) {
	if o.Skipped {
		return
	}
	stat["oracle_runs_checked"]++
	if o.TimedOut {
		// the run is still spinning in its goroutine: report and wind the harness down
		Viol("C07/terminates", "parsing did not finish within the deadline", describe(c))
		// every run that does not finish keeps a goroutine spinning: after a few of them the machine is no
		// longer ours, so stop here; what was reported so far is the result
		if timedOutRuns++; timedOutRuns >= 3 {
			Flush()
			os.Exit(0)
		}
		return
	}
	if o.Panicked {
		Viol("C07/no-panic", "ZoneParser panicked: "+o.PanicVal, describe(c))
		return
	}
	if o.LateRecs > 0 {
		Viol("C07/sticky/record-after-false", fmt.Sprintf("%d record(s) returned by Next after it had returned false", o.LateRecs), describe(c))
	}
	if o.ErrChanged {
		Viol("C07/sticky/err-changed", "Err() changed after further calls of Next", describe(c))
	}
	if o.Err != nil {
		if !o.ErrIsParse {
			Viol("C07/error-type", "Err() is not a *ParseError: "+o.Err.Error(), describe(c))
		} else {
			cls := z.Slug(o.ErrMsg)
			if o.ErrWrapped {
				cls = "failed-to-open"
			}
			errClasses[cls]++
			if cls != "bad-initial-origin-name" && o.ErrLine < 1 {
				key := "C07/error-position/line-zero"
				if cls == "garbage-after-generate-range" {
					key = "C07/error-position/generate-range-at-eof"
				}
				Viol(key, fmt.Sprintf("syntax error %q reported at line %d column %d", o.ErrMsg, o.ErrLine, o.ErrCol), describe(c))
			}
			if o.ErrCol < 0 {
				Viol("C07/error-position/negative-column", "negative column", describe(c))
			}
			// the file named is the parser's own file or one of the include paths opened
			okFile := o.ErrFile == c.File
			for _, p := range o.Opens {
				if o.ErrFile == p {
					okFile = true
				}
			}
			if !okFile && len(c.Files) == 0 {
				Viol("C07/error-position/file", fmt.Sprintf("error names file %q, parser file is %q", o.ErrFile, c.File), describe(c))
			}
			if len(o.ErrTok) > 2*textLen+64 && len(c.Files) == 0 {
				Viol("C07/bounded/error-token", "error token longer than the input", describe(c))
			}
		}
	}
	if !c.Inc && len(o.Opens) > 0 {
		Viol("C07/no-open-unless-allowed", fmt.Sprintf("includes not allowed but %d file(s) opened: %q", len(o.Opens), o.Opens), describe(c))
	}
	if len(c.Files) == 0 && !hasGenerate(c) {
		for _, r := range o.Recs {
			if r.Size > 2*textLen+len(c.Origin)+64 {
				Viol("C07/bounded/record-size", "record holds more text than the input", describe(c))
				break
			}
		}
		if len(o.Recs) > textLen+1 {
			Viol("C07/bounded/record-count", "more records than input octets", describe(c))
		}
	}
}

func hasGenerate(c *z.Config) bool {
	return strings.Contains(strings.ToUpper(string(c.Text.Expand())), "GENERATE")
}

// emitParse runs a configuration, applies the oracles and, when the RDATA
// grammars met are inside the model, emits the model case.
func emitParse(c *z.Config, emit bool, kind string) *z.Outcome {
	text := c.Text.Expand()
	o := z.Run(c, 3)
	if o.Skipped {
		return o
	}
	checkOutcome(c, o, len(text))
	if o.TimedOut {
		return o
	}
	if emit {
		if o.InScope {
			z.EmitD("parse", c.Args(), o.Show())
			stat["case_parse_"+kind]++
		} else {
			stat["skipped_outside_model_"+kind]++
		}
	}
	return o
}

func emitLex(rc z.Recipe, kind string) {
	text := rc.Expand()
	out := lexChecked(text, rc.String())
	z.EmitD("lex", []string{rc.String()}, out)
	stat["case_lex_"+kind]++
}

// lexChecked dumps the token stream and applies the lexer oracles: no panic, and
// no more than two tokens per octet (+10), the bound of lex_terminates_linear.
func lexChecked(text []byte, desc string) string {
	max := 2*len(text) + 11
	out := z.LexDump(text, max)
	stat["oracle_lex_checked"]++
	if out == "panic" {
		Viol("C07/no-panic", "zlexer panicked", map[string]any{"text_recipe_hex": desc})
	} else if strings.Count(out, "|")+1 >= max && len(out) > 0 {
		Viol("C07/bounded/token-count", "the lexer delivers more than two tokens per octet (it does not stop)", map[string]any{"text_recipe_hex": desc})
	}
	return out
}

func baseCfg(text z.Recipe) *z.Config {
	return &z.Config{Origin: "example.", File: "", DefTTL: -1, Inc: false, HasFS: false, Text: text}
}

var origins = []string{"", ".", "example.", "example", "bad..origin", "sub.example.org."}
var files = []string{"", "z/main.zone", "main", "/abs/main.zone"}
var defttls = []int64{-1, 3600, 0, 4294967295}

func randCfg(r *Rng, text []byte) *z.Config {
	c := baseCfg(z.Recipe{{B: text, N: 1}})
	c.Origin = origins[r.Intn(len(origins))]
	if r.Intn(3) > 0 {
		c.Origin = "example."
	}
	c.File = files[r.Intn(len(files))]
	c.DefTTL = defttls[r.Intn(len(defttls))]
	c.Inc = r.Intn(3) == 0
	c.HasFS = r.Intn(2) == 0
	return c
}

// ---------- include trees ----------

func fsCases(r *Rng) []*z.Config {
	var cs []*z.Config
	mk := func(text string, files map[string]string, inc, hasfs bool) *z.Config {
		c := baseCfg(z.Lit(text))
		c.File = "z/main.zone"
		c.DefTTL = 3600
		c.Inc, c.HasFS = inc, hasfs
		c.Files = map[string]z.Recipe{}
		for k, v := range files {
			c.Files[k] = z.Lit(v)
		}
		return c
	}
	self := map[string]string{"z/self.zone": "s A 10.0.0.1\n$INCLUDE self.zone\nt A 10.0.0.2\n"}
	chain := map[string]string{}
	for i := 1; i <= 9; i++ {
		chain[fmt.Sprintf("z/d%d.zone", i)] = fmt.Sprintf("h%d A 10.0.0.%d\n$INCLUDE d%d.zone\nt%d A 10.0.1.%d\n", i, i, i+1, i, i)
	}
	chain7 := map[string]string{}
	for i := 1; i <= 7; i++ {
		nxt := fmt.Sprintf("$INCLUDE e%d.zone\n", i+1)
		if i == 7 {
			nxt = ""
		}
		chain7[fmt.Sprintf("z/e%d.zone", i)] = fmt.Sprintf("h%d A 10.0.0.%d\n%st%d A 10.0.1.%d\n", i, i, nxt, i, i)
	}
	tree := map[string]string{
		"z/a.zone":      "$ORIGIN a.example.\nx A 10.1.0.1\n$INCLUDE sub/b.zone b\ny A 10.1.0.2\n$TTL 77\n",
		"z/sub/b.zone":  "@ NS ns\n$INCLUDE ../c.zone\n$INCLUDE c2.zone c2.\nz 9 A 10.2.0.1\n",
		"z/c.zone":      "c TXT \"from c\"\n",
		"z/sub/c2.zone": "@ TXT \"from c2\"\nw CNAME @\n",
		"z/gen.zone":    "$GENERATE 0-1 g$ A 10.3.0.$\n",
		"z/err.zone":    "ok A 10.4.0.1\nbad A 999.1.1.1\nnever A 10.4.0.2\n",
		"z/empty.zone":  "",
		"z/nonl.zone":   "n A 10.5.0.1",
		"z/origin.zone": "$ORIGIN changed.\n@ A 10.6.0.1\n",
		"z/ttl.zone":    "$TTL 5\nq A 10.7.0.1\n",
		"abs.zone":      "abs A 10.8.0.1\n",
	}
	for _, hasfs := range []bool{true, false} {
		for _, inc := range []bool{true, false} {
			cs = append(cs,
				mk("$INCLUDE self.zone\nend A 10.0.0.9\n", self, inc, hasfs),
				mk("$INCLUDE d1.zone\nend A 10.0.0.9\n", chain, inc, hasfs),
				mk("$INCLUDE e1.zone\nend A 10.0.0.9\n", chain7, inc, hasfs),
				mk("top A 10.0.0.0\n$INCLUDE a.zone\nend A 10.0.0.9\n", tree, inc, hasfs),
				mk("$INCLUDE a.zone other.\n@ A 10.0.0.9\n", tree, inc, hasfs),
				mk("$INCLUDE gen.zone\n$INCLUDE err.zone\nafter A 10.0.0.9\n", tree, inc, hasfs),
				mk("$INCLUDE empty.zone\n$INCLUDE nonl.zone\nafter A 10.0.0.9\n", tree, inc, hasfs),
				mk("$INCLUDE origin.zone\n@ A 10.0.0.9\n$INCLUDE ttl.zone\nr A 10.0.0.8\n", tree, inc, hasfs),
				mk("$INCLUDE missing.zone\nafter A 10.0.0.9\n", tree, inc, hasfs),
				mk("$INCLUDE ./c.zone\n$INCLUDE sub/../c.zone\n$INCLUDE sub//c2.zone\n", tree, inc, hasfs),
				mk("$INCLUDE ../abs.zone\n", tree, inc, hasfs),
				mk("$INCLUDE ../../abs.zone\n", tree, inc, hasfs),
				mk("$INCLUDE /abs.zone\n", tree, inc, hasfs),
				mk("$INCLUDE /nonexistent-verif-dir/x.zone\n", tree, inc, hasfs),
				mk("$INCLUDE c.zone bad..origin\n", tree, inc, hasfs),
				mk("$INCLUDE c.zone \"q\"\n", tree, inc, hasfs),
				mk("$INCLUDE c.zone x y\n", tree, inc, hasfs),
				mk("$INCLUDE c.zone", tree, inc, hasfs),
				mk("$INCLUDE c.zone ", tree, inc, hasfs),
				mk("$INCLUDE\n", tree, inc, hasfs),
				mk("$INCLUDE \"c.zone\"\n", tree, inc, hasfs),
				mk("$INCLUDE c.zone)\n", tree, inc, hasfs),
				mk("$INCLUDE c.zone ;comment\nafter A 10.0.0.9\n", tree, inc, hasfs),
				mk("$GENERATE 0-1 \\$INCLUDE c.zone\n", tree, inc, hasfs),
				mk("$GENERATE 0-1 \\$INCLUDE gen.zone\n", tree, inc, hasfs),
				mk("$GENERATE 0-1 \\$INCLUDE self.zone\n", self, inc, hasfs),
			)
		}
	}
	// other parser files: relative includes resolve against the directory of zp.file
	for _, f := range []string{"", "main.zone", "z/sub/main.zone", "/z/main.zone", "z/../z/main.zone", "z//main.zone", "./z/main.zone", "../main.zone"} {
		for _, hasfs := range []bool{true, false} {
			c := mk("$INCLUDE c.zone\n$INCLUDE ../z/c.zone\n$INCLUDE z/c.zone\n", tree, true, hasfs)
			c.File = f
			if !hasfs && (strings.HasPrefix(f, "/") || strings.HasPrefix(f, "..")) {
				continue // would leave the scratch directory
			}
			cs = append(cs, c)
		}
	}
	// the origin of the includer is a long name: the sub parser's initial origin check
	long := strings.Repeat("a123456789012345678901234567890123456789012345678901234567890.", 4)
	cs = append(cs, mk("$ORIGIN "+long+"\n$ORIGIN "+long[:62]+"\n$INCLUDE c.zone\n", tree, true, true))
	cs = append(cs, mk("$ORIGIN "+long+"\n$ORIGIN "+long[:62]+"\n$GENERATE 0-1 a$ A 1.2.3.4\n", tree, true, true))
	return cs
}

// depth oracle: on an include chain d1 -> d2 -> ... the deepest file opened
// tells the nesting reached.
func checkDepth(c *z.Config, o *z.Outcome) {
	maxd := 0
	selfn := 0
	for _, p := range o.Opens {
		if i := strings.LastIndex(p, "/d"); i >= 0 {
			if d, err := strconv.Atoi(strings.TrimSuffix(p[i+2:], ".zone")); err == nil && d > maxd {
				maxd = d
			}
		}
		if strings.HasSuffix(p, "self.zone") {
			selfn++
		}
	}
	stat["oracle_depth_checked"]++
	if maxd > dns.VerifMaxIncludeDepth || selfn > dns.VerifMaxIncludeDepth {
		Viol("C07/include-depth", fmt.Sprintf("include nesting reached depth %d (self-includes: %d), limit %d", maxd, selfn, dns.VerifMaxIncludeDepth), describe(c))
	}
}

// ---------- $GENERATE ----------

var genRanges = []string{"0-0", "1-3", "3-1", "0-65535", "0-65536", "1-65536", "0-131071/2", "0-131072/2", "5-5/1000", "0-10/0", "0-10/-1",
	"0-10/", "-1-5", "1--5", "a-5", "1-b", "15", "1-2/x", "+1-+3", "0-9223372036854775807/9223372036854775807",
	"0-9223372036854775808", "9223372036854775807-9223372036854775807", "0-00000000000000000000003", "1-2-3", "/", "-", "1-2/3/4",
	"0-65535/1", "0-4294967296/65537", "0-4294967295/65536", "2-9/3"}

var genRhs = []string{"a$ 5 A 10.0.0.$", "$ A 10.0.0.1", "a$$b TXT $$", "a\\$ TXT \\$ \\\\$ \\\\ \\a", "${0,3,d} TXT ${1,4,x} ${2,0,X} ${-1,2,o}",
	"a TXT ${0,3}", "a TXT ${5}", "a TXT ${0,3,d,1}", "a TXT ${0,3,z}", "a TXT ${x,3,d}", "a TXT ${0,x,d}", "a TXT ${0,256,d}",
	"a TXT ${0,255,d}", "a TXT ${0,007,X}", "a TXT ${", "a TXT ${}", "a TXT ${,}", "a TXT ${,,}", "a TXT ${0,,d}", "a TXT ${0,0,}",
	"a TXT ${-1,0,d}", "a TXT ${2147483647,0,d}", "a TXT ${2147483646,0,d}", "a TXT ${9223372036854775807,0,d}",
	"a TXT ${-9223372036854775808,0,d}", "a TXT ${+5,2,d}", "a TXT $", "a TXT $\\", "a TXT \\", "a$ TXT \"q $ r\"", "a$ TXT ( $ ) ; c $",
	"\\$GENERATE 0-1 b$ A 1.2.3.4", "\\$generate 0-1 b A 1.2.3.4", "\\$TTL $", "\\$ORIGIN o$.", "a$ NS b$", "a$ NS b${0,2,d}.x.", "@ TXT $",
	"a 5 A 1.2.3.4 ${x}", "a 5 TXT x ${x}", "$.$ PTR ${10,3,o}.", "a${0,1,d} A 1.2.3.${0,1,x}", "", "a", "$"}

func genCases() []string {
	var out []string
	for _, rg := range []string{"1-3", "0-0", "9-11", "254-256/2"} {
		for _, rhs := range genRhs {
			out = append(out, "$GENERATE "+rg+" "+rhs+"\n")
		}
	}
	for _, rg := range genRanges {
		if sh := rangeShow(rg); strings.HasPrefix(sh, "ok:") {
			var a, b, st int64
			fmt.Sscanf(sh, "ok:%d,%d,%d", &a, &b, &st)
			if (b-a)/st > 300 {
				continue // the full-size ranges are run by bigGenerate
			}
		}
		out = append(out, "$GENERATE "+rg+" a$ 5 A 10.0.0.1\n")
	}
	out = append(out, "$GENERATE 1-2", "$GENERATE 1-2\n", "$GENERATE 1-2 ", "$GENERATE 1-2 \n", "$GENERATE\n", "$GENERATE  1-2 a A 1.2.3.4\n",
		"$GENERATE 1-2 a$ A 10.0.0.$", "$GENERATE 1-2 a$ A 10.0.0.$ ; c\nb 5 A 1.1.1.1\n", "$GENERATE 1-2 a$ TXT \"unterminated\n",
		"$GENERATE 1-2 a$ TXT ( x\n y ) z\nafter 5 A 1.1.1.1\n", "$GENERATE 1-2 a$ A 10.0.0.$\n$GENERATE 3-4 b$ A 10.0.0.$\nc 5 A 1.1.1.1\n",
		"$GENERATE 1-2 a$ A )\n", "$GENERATE \"1-2\" a A 1.2.3.4\n", "$GENERATE 1-2)\n", "$TTL 9\n$ORIGIN o.\n$GENERATE 1-2 a$ A 10.0.0.$\nb A 1.1.1.1\n",
		"$GENERATE 1-2 a$ 7 A 10.0.0.$\nb A 1.1.1.1\n")
	return out
}

// the largest ranges: one $GENERATE must not yield more than 65536 records
func bigGenerate() {
	for _, rg := range []string{"0-65535", "0-65536", "1-65536", "0-131071/2", "0-131072/2", "0-4294967295/65536", "0-4294967296/65536", "0-65535/1"} {
		c := baseCfg(z.Lit("$GENERATE " + rg + " a$ 5 A 10.0.0.1\n"))
		saved := z.MaxRecs
		z.MaxRecs = 0
		o := z.Run(c, 3)
		z.MaxRecs = saved
		checkOutcome(c, o, 40)
		if o.Skipped {
			continue
		}
		stat["oracle_generate_bound_checked"]++
		if len(o.Recs) > 65536 {
			Viol("C07/generate-bound", fmt.Sprintf("$GENERATE %s yielded %d records", rg, len(o.Recs)), describe(c))
		}
		// model case: only the outcome class and the count are compared for these
		cls := "ok"
		if o.Err != nil {
			cls = z.Slug(o.ErrMsg)
		}
		z.EmitD("range", []string{Hs(rg)}, rangeShow(rg))
		stat["generate_big_"+cls]++
	}
}

// a quoted line break in the right-hand side survives the rewriting, so one step
// yields two records: more than 65536 records from one $GENERATE
func quotedNewlineGenerate() {
	c := baseCfg(z.Lit("$GENERATE 0-65535 a$ 5 TXT \\\\\"\nb$ 5 TXT \\\\\"\n"))
	saved := z.MaxRecs
	z.MaxRecs = 0
	o := z.Run(c, 3)
	z.MaxRecs = saved
	checkOutcome(c, o, 60)
	stat["oracle_generate_bound_checked"]++
	if len(o.Recs) > 65536 {
		Viol("C07/generate-bound/quoted-newline", fmt.Sprintf("one $GENERATE 0-65535 yielded %d records", len(o.Recs)), describe(c))
	}
	// the small form of the same text is a model case
	emitParse(baseCfg(z.Lit("$GENERATE 0-1 a$ 5 TXT \\\\\"\nb$ 5 TXT \\\\\"\n")), true, "generate")
}

// expected result of parse_range, computed independently of the library
func rangeShow(tok string) string {
	step := int64(1)
	if i := strings.IndexByte(tok, '/'); i >= 0 {
		if i+1 == len(tok) {
			return "err:bad-step-in-generate-range"
		}
		s, err := strconv.ParseInt(tok[i+1:], 10, 64)
		if err != nil || s <= 0 {
			return "err:bad-step-in-generate-range"
		}
		step, tok = s, tok[:i]
	}
	a, b, ok := strings.Cut(tok, "-")
	if !ok {
		return "err:bad-start-stop-in-generate-range"
	}
	st, err := strconv.ParseInt(a, 10, 64)
	if err != nil {
		return "err:bad-start-in-generate-range"
	}
	en, err := strconv.ParseInt(b, 10, 64)
	if err != nil {
		return "err:bad-stop-in-generate-range"
	}
	// at most 65536 values start, start+step, ... <= end
	if en < 0 || st < 0 || en < st || (en-st)/step+1 > 65536 {
		return "err:bad-range-in-generate-range"
	}
	return fmt.Sprintf("ok:%d,%d,%d", st, en, step)
}

// ---------- unit cases ----------

func unitCases(r *Rng, tier string) {
	// tables
	st, sc, reg := dns.VerifTypeClassTables()
	show := func(m map[string]uint16) string {
		var ks []string
		for k := range m {
			ks = append(ks, k)
		}
		sort.Strings(ks)
		p := make([]string, len(ks))
		for i, k := range ks {
			p[i] = Hs(k) + "=" + Itoa(int(m[k]))
		}
		return strings.Join(p, ",")
	}
	// registered types in the order of the (sorted) mnemonic table
	var ks []string
	for k := range st {
		ks = append(ks, k)
	}
	sort.Strings(ks)
	regset := map[uint16]bool{}
	for _, t := range reg {
		regset[t] = true
	}
	var rs []string
	cnt := 0
	for _, k := range ks {
		if regset[st[k]] {
			rs = append(rs, Itoa(int(st[k])))
			cnt++
		}
	}
	if cnt != len(reg) {
		rs = append(rs, "registered-type-without-mnemonic")
	}
	z.EmitD("tables", nil, show(st)+";"+show(sc)+";"+strings.Join(rs, ","))
	// strings.ToUpper maps only U+0131 and U+017F onto ASCII letters (the model's [upper] relies on it)
	for rn := rune(128); rn < 0x110000; rn++ {
		if u := unicode.ToUpper(rn); u < 128 && rn != 0x131 && rn != 0x17f {
			Viol("C07/model-assumption/toupper", fmt.Sprintf("rune %U upper-cases to ASCII %q", rn, u), nil)
		}
	}
	stat["toupper_runes_checked"] = 0x110000 - 128

	// TTLs
	ttls := []string{"", "0", "1", "3600", "4294967295", "4294967296", "1h", "1H", "1w2d3h4m5s", "1W2D3H4M5S", "s", "w", "1s1", "1m1", "7102w", "7101w",
		"4294967295s", "4294967296s", "71582788m", "71582789m", "18446744073709551615", "18446744073709551616", "18446744073709551617",
		"99999999999999999999999", "1x", "-1", "+1", "1.5", " 1", "1 ", "1h\xff", "\xc4\xb1", "١", "1d1d", "30592733w", "49710d", "49711d"}
	for i := 0; i < 150; i++ {
		var sb strings.Builder
		for j := r.Intn(6); j >= 0; j-- {
			sb.WriteString(strconv.Itoa(r.Intn([]int{3, 100, 100000, 1 << 31}[r.Intn(4)])))
			sb.WriteByte("smhdwSMHDW  x"[r.Intn(13)])
		}
		ttls = append(ttls, strings.ReplaceAll(sb.String(), " ", ""))
	}
	for _, t := range ttls {
		v, ok := dns.VerifStringToTTL(t)
		out := "err"
		if ok {
			out = "ok:" + strconv.FormatUint(uint64(v), 10)
		}
		z.EmitD("ttl", []string{Hs(t)}, out)
	}
	// names
	lab63 := strings.Repeat("a", 63)
	lab64 := strings.Repeat("a", 64)
	names := []string{"", "@", "\n", ".", "a", "a.", "a.b", "a..b", ".a", "a\\.b", "a\\", "a\\\\", "a\\.", "a\\\\.", "\\065", "\\06", "\\999.", "a b", lab63, lab64,
		lab63 + ".", lab64 + ".", lab63 + "." + lab63 + "." + lab63 + "." + strings.Repeat("a", 61), lab63 + "." + lab63 + "." + lab63 + "." + strings.Repeat("a", 62),
		lab63 + "." + lab63 + "." + lab63 + "." + strings.Repeat("a", 63), lab63 + "." + lab63 + "." + lab63 + "." + strings.Repeat("a", 62) + ".",
		"*", "*.a", "_x._tcp", "\x00", "\xff.", "a\\.\\.b.", strings.Repeat("\\.", 40), strings.Repeat("\\000", 63), strings.Repeat("\\000", 64), "a.\\", "\\.", "\\..", "..", "a.b.c.d.e.f."}
	for i := 0; i < 120; i++ {
		var sb strings.Builder
		for j := r.Intn(12); j >= 0; j-- {
			sb.WriteString([]string{"a", "b", ".", ".", "\\", "\\.", "\\0", "12", "\\123", "@", " ", "\n"}[r.Intn(12)])
		}
		names = append(names, sb.String())
	}
	for _, n := range names {
		_, ok := dns.IsDomainName(n)
		z.EmitD("idn", []string{Hs(n)}, Btoa(ok))
		for _, o := range []string{"", ".", "example.", lab63 + "." + lab63 + "." + lab63 + "." + strings.Repeat("a", 61) + "."} {
			a, ok := dns.VerifToAbsoluteName(n, o)
			out := "err"
			if ok {
				out = "ok:" + Hs(a)
			}
			z.EmitD("abs", []string{Hs(n), Hs(o)}, out)
		}
	}
	// addresses
	ips := []string{"", "1.2.3.4", "0.0.0.0", "255.255.255.255", "256.1.1.1", "1.2.3", "1.2.3.4.5", "1.2.3.", ".1.2.3", "1..2.3", "01.2.3.4", "1.2.3.04", "0.00.0.0",
		"1.2.3.4 ", "1.2.3.a", "1.2.3.4%eth0", "%", "1", "::", "::1", "1::", "1::2", "1:2:3:4:5:6:7:8", "1:2:3:4:5:6:7", "1:2:3:4:5:6:7:8:9", "1:2:3:4:5:6:7::",
		"::2:3:4:5:6:7:8", "1::3:4:5:6:7:8", "1:2:3:4:5:6:7::8", "::ffff:1.2.3.4", "::1.2.3.4", "1:2:3:4:5:6:1.2.3.4", "1:2:3:4:5:1.2.3.4", "1:2:3:4:5:6:7:1.2.3.4",
		"::ffff:1.2.3", "::ffff:1.2.3.256", "::ffff:01.2.3.4", "12345::", "ffff::", "FFFF::abcd", "g::", ":", ":::", "1:::2", "::1::", "1:2", "1:", ":1", "::1%eth0", "::%", "%::1",
		"1.2.3.4:5", "1:2.3.4.5", "::.1.2.3", "::1.2.3.4.5", "::1.2.3.", "2001:db8::1", "2001:DB8:0:0:0:0:0:1", "::0000:1", "::00000:1", "1:2:3:4:5:6:7:8%", "1.2.3.4::"}
	for i := 0; i < 150; i++ {
		var sb strings.Builder
		for j := r.Intn(10); j >= 0; j-- {
			sb.WriteString([]string{"1", "0", "ff", "255", "256", ":", ":", "::", ".", "a", "12345", "%", "1.2.3.4"}[r.Intn(13)])
		}
		ips = append(ips, sb.String())
	}
	for _, s := range ips {
		a, aaaa := "-", "-"
		if rr, err := dns.NewRR("x. 5 IN A " + s); err == nil && rr != nil && !strings.ContainsAny(s, " \t\n\"();\\") && s != "" {
			if v, ok := rr.(*dns.A); ok && v.A != nil {
				a = Hx(v.A.To4())
			}
		}
		if rr, err := dns.NewRR("x. 5 IN AAAA " + s); err == nil && rr != nil && !strings.ContainsAny(s, " \t\n\"();\\") && s != "" {
			if v, ok := rr.(*dns.AAAA); ok && v.AAAA != nil {
				aaaa = Hx(v.AAAA.To16())
			}
		}
		if strings.ContainsAny(s, " \t\n\"();\\") {
			continue
		}
		z.EmitD("ip", []string{Hs(s)}, "a="+a+",aaaa="+aaaa)
	}
	// $GENERATE ranges and modifiers
	for _, rg := range genRanges {
		z.EmitD("range", []string{Hs(rg)}, rangeShow(rg))
	}
	mods := []string{"", "0", "5", "-5", "+5", "0,0", "0,3", "0,3,d", "0,3,o", "0,3,x", "0,3,X", "0,3,D", "0,3,", "0,,d", ",3,d", "0,3,d,", "0,3,d,x", "a,3,d", "0,a,d",
		"0,255,d", "0,256,d", "0,-1,d", "0,007,x", "0,0,x", "9223372036854775807,0,d", "9223372036854775808,0,d", "-9223372036854775808,1,o", "0,3,dd", ",", ",,", ",,,", "1,2", " 1,2,d"}
	for _, m := range mods {
		f, off, e := dns.VerifModToPrintf(m)
		out := "err:" + z.Slug(e)
		if e == "" {
			w, b := 0, byte('d')
			b = f[len(f)-1]
			if len(f) > 2 {
				w, _ = strconv.Atoi(f[2 : len(f)-1])
			}
			out = fmt.Sprintf("ok:%d,%d,%d", w, b, off)
		}
		z.EmitD("mod", []string{Hs(m)}, out)
	}
	// the generate reader itself
	for _, rhs := range genRhs {
		for _, rg := range [][3]int64{{0, 2, 1}, {9, 11, 1}, {0, 0, 1}, {254, 258, 2}, {0, math.MaxInt64, math.MaxInt64}, {math.MaxInt64 - 1, math.MaxInt64, 1}} {
			b, err := dns.VerifGenerateBytes(rhs, rg[0], rg[1], rg[2], 1<<16)
			out := z.ShowBytes(b) + ";ok"
			if err != nil {
				_, msg, tok, _, col, _, _ := dns.VerifParseError(err)
				out = z.ShowBytes(b) + ";err:" + z.Slug(msg) + "," + z.ShowBytes([]byte(tok)) + "," + Itoa(col)
			}
			z.EmitD("gen", []string{Hs(rhs), strconv.FormatInt(rg[0], 10), strconv.FormatInt(rg[1], 10), strconv.FormatInt(rg[2], 10)}, out)
		}
	}
}

// include path computation seen through an FS that has no files
func pathCases() {
	toks := []string{"c.zone", "./c.zone", "../c.zone", "../../c.zone", "/c.zone", "//c.zone", "/../c.zone", "a/b/../c", "a//b", "a/./b", "a/", "/", ".", "..", "a/..", "a/../..", "../a/..", "\x00", "a\\b", "a:b"}
	fls := []string{"", "m", "z/m", "z/y/m", "/z/m", "/m", "z//m", "z/../m", "../m", "./m", "z/", "/"}
	for _, f := range fls {
		for _, t := range toks {
			if strings.ContainsAny(t, " \t\n\"();\\") {
				continue
			}
			c := baseCfg(z.Lit("$INCLUDE " + t + "\n"))
			c.File, c.Inc, c.HasFS = f, true, true
			o := z.Run(c, 0)
			if o.Skipped {
				continue
			}
			p := ""
			if len(o.Opens) == 1 {
				p = o.Opens[0]
			} else {
				Viol("C07/include-open-count", "one $INCLUDE of a missing file should call Open exactly once", describe(c))
			}
			z.EmitD("path", []string{"1", Hs(f), Hs(t)}, Hs(p))
		}
	}
}

// allocation on big inputs: cumulative allocation must stay linear in the input
func allocCheck() {
	for _, n := range []int{1 << 12, 1 << 16, 1 << 18} {
		for k, rc := range longRecipes(n)[:10] {
			c := baseCfg(rc)
			c.DefTTL = 3600
			text := rc.Expand()
			var m0, m1 runtime.MemStats
			runtime.GC()
			runtime.ReadMemStats(&m0)
			o := z.Run(c, 0)
			runtime.ReadMemStats(&m1)
			if o.Skipped || o.TimedOut {
				continue
			}
			stat["oracle_alloc_checked"]++
			alloc := int64(m1.TotalAlloc - m0.TotalAlloc)
			if alloc > 64*int64(len(text))+(4<<20) {
				Viol("C07/bounded/allocation", fmt.Sprintf("recipe %d: %d octets of input allocated %d octets", k, len(text), alloc), describe(c))
			}
			checkOutcome(c, o, len(text))
		}
	}
}

// a private-use record type registered with dns.PrivateHandle: its RDATA loop lives in privaterr.go
type c07Priv struct{ words []string }

func (d *c07Priv) String() string                 { return strings.Join(d.words, " ") }
func (d *c07Priv) Parse(s []string) error         { d.words = append([]string(nil), s...); return nil }
func (d *c07Priv) Pack(buf []byte) (int, error)   { return 0, nil }
func (d *c07Priv) Unpack(buf []byte) (int, error) { return len(buf), nil }
func (d *c07Priv) Copy(dst dns.PrivateRdata) error {
	dst.(*c07Priv).words = append([]string(nil), d.words...)
	return nil
}
func (d *c07Priv) Len() int { return 0 }

const c07PrivCode = 65307

func rdataHostile(r *Rng, mult int) {
	pool := &NamePool{R: r}
	dns.PrivateHandle("VPRIVZ", c07PrivCode, func() dns.PrivateRdata { return new(c07Priv) })
	defer dns.PrivateHandleRemove(c07PrivCode)
	run := func(t string) {
		c := baseCfg(z.Lit(t))
		c.DefTTL = 3600
		emitParse(c, false, "rdata")
		stat["rdata_hostile_texts"]++
	}
	hostile := func(txt string, every bool) {
		stat["rdata_hostile_records"]++
		for i := 0; i <= len(txt); i++ {
			if !every && i < len(txt) && i > 0 && txt[i] != ' ' && txt[i] != '\t' && txt[i-1] != ' ' && txt[i-1] != '\t' {
				continue // token boundaries only
			}
			run(txt[:i])
			run(txt[:i] + "\n")
		}
		toks := strings.Fields(txt)
		for j := range toks {
			drop := append(append([]string{}, toks[:j]...), toks[j+1:]...)
			run(strings.Join(drop, " ") + "\n")
			dbl := append(append(append([]string{}, toks[:j+1]...), toks[j]), toks[j+1:]...)
			run(strings.Join(dbl, " ") + "\n")
		}
	}
	// the base texts are VALID records (they parse): only then do the cuts reach every state of the
	// type's own parser.  Types whose random values rarely print to valid text have curated lines.
	for _, t := range AllTypes() {
		got := 0
		for k := 0; k < 40 && got < 2*mult; k++ {
			rr, info := GenRR(r, pool, t, false)
			if rr == nil || !info.WellFormed {
				continue
			}
			var txt string
			if Protect(func() string { txt = rr.String(); return "ok" }) != "ok" || len(txt) > 400 {
				continue
			}
			if _, err := dns.NewRR(txt); err != nil {
				continue
			}
			hostile(txt, got == 0)
			got++
		}
		if got == 0 {
			stat["rdata_hostile_type_without_valid_text"]++
		}
	}
	for _, txt := range curatedRdata {
		if _, err := dns.NewRR(txt); err != nil {
			stat["rdata_hostile_curated_not_valid"]++ // still cut below: it reaches the states before its error
		}
		hostile(txt, true)
	}
}

// withDeadline runs f under Protect in its own goroutine; a run that does not finish within 10 s is a
// violation of "reading records terminates" and ends the harness (the goroutine keeps spinning).
func withDeadline(zone string, f func() string) string {
	ch := make(chan string, 1)
	go func() { ch <- Protect(f) }()
	select {
	case r := <-ch:
		return r
	case <-time.After(10 * time.Second):
		Viol("C07/terminates", "parsing did not finish within the deadline", map[string]string{"zone": zone})
		Flush()
		os.Exit(0)
	}
	return ""
}

// lexErrorInjection: an unconditional lexer error (a closing parenthesis that was never opened) at every
// token boundary of a valid record of every type, in the middle of a zone.  Whatever the type's own parser
// does with the tokens, the first problem must be reported (Err() != nil) and the record behind it must not
// be delivered.
func lexErrorInjection(r *Rng, mult int) {
	if z.Aborted {
		return // a run has hung already: it is reported, nothing further is started
	}
	pool := &NamePool{R: r}
	dns.PrivateHandle("VPRIVZ", c07PrivCode, func() dns.PrivateRdata { return new(c07Priv) })
	defer dns.PrivateHandleRemove(c07PrivCode)
	inject := func(txt string) {
		toks := strings.Fields(txt)
		for j := 1; j <= len(toks); j++ {
			bad := strings.Join(toks[:j], " ") + " ) " + strings.Join(toks[j:], " ")
			zone := "$TTL 300\nfirst.example. A 192.0.2.1\n" + bad + "\nlast.example. A 192.0.2.2\n"
			var n, sawLast int
			var perr error
			res := withDeadline(zone, func() string {
				zp := dns.NewZoneParser(strings.NewReader(zone), "example.", "zone.db")
				for rr, ok := zp.Next(); ok; rr, ok = zp.Next() {
					n++
					if rr.Header().Name == "last.example." {
						sawLast++
					}
					if n > 10 {
						break
					}
				}
				perr = zp.Err()
				return "ok"
			})
			stat["lexerr_injections"]++
			if res != "ok" {
				Viol("C07/lexer-error-injected/panic", "zone parser panics on a stray closing parenthesis: "+res, map[string]string{"zone": zone})
				continue
			}
			if perr == nil {
				Viol("C07/lexer-error-injected/not-reported", "a closing parenthesis that was never opened (a lexer error) in the middle of a zone is not reported: Err() is nil after "+Itoa(n)+" records", map[string]string{"zone": zone, "after_token": Itoa(j)})
			} else if sawLast > 0 {
				Viol("C07/lexer-error-injected/record-after-error", "a record behind the erroneous line was delivered", map[string]string{"zone": zone})
			}
		}
	}
	for _, t := range AllTypes() {
		got := 0
		for k := 0; k < 40 && got < mult; k++ {
			rr, info := GenRR(r, pool, t, false)
			if rr == nil || !info.WellFormed {
				continue
			}
			var txt string
			if Protect(func() string { txt = rr.String(); return "ok" }) != "ok" || len(txt) > 400 || strings.ContainsAny(txt, "()\"\n;") {
				continue
			}
			if _, err := dns.NewRR(txt); err != nil {
				continue
			}
			inject(txt)
			got++
		}
	}
	for _, txt := range curatedRdata {
		if strings.ContainsAny(txt, "()\";") {
			continue
		}
		if _, err := dns.NewRR(txt); err == nil {
			inject(txt)
		}
	}
}

// valid records of types with irregular grammars (scan_rr.go): every optional part present / absent
var curatedRdata = []string{
	"example.com. LOC 42 21 43.952 N 71 5 6.344 W -24m 1m 200m 10m",
	"example.com. LOC 42 21 43.952 N 71 5 6.344 W -24m",
	"example.com. LOC 42 N 71 W 0m",
	"example.com. 3600 IN LOC 52 14 05 N 00 08 50 E 10m",
	"example.com. GPOS -32.6882 116.8652 10.0",
	"example.com. HIP 2 200100107B1A74DF365639CC39F1D578 AwEAAbdxyhNuSutc5EMzxTs9LBPCIkOFH8cIvM4p9+LrV4e19WzK00+CI6zBCQTdtWsuxKbWIy87UOoJTwkUs7lBu+Upr1gsNrut79ryra+bSRGQb1slImA8YVJyuIDsj7kwzG7jnERNqnWxZ48AWkskmdHaVDP4BcelrTI3rMXdXF5D rvs.example.com. rvs2.example.com.",
	"example.com. NSEC3 1 1 12 aabbccdd 2t7b4g4vsa5smi47k61mv5bv1a22bojr MX DNSKEY NS SOA NSEC3PARAM RRSIG",
	"example.com. NSEC3 1 0 0 - 2t7b4g4vsa5smi47k61mv5bv1a22bojr",
	"example.com. RRSIG A 5 3 86400 20030322173103 20030220173103 2642 example.com. oJB1W6WNGv+ldvQ3WDG0MQkg5IEhjRip8WTrPYGv07h108dUKGMeDPKijVCHX3DDKdfb+v6oB9wfuh3DTJXUAfI/M0zmO/zz8bW0Rznl8O3tGNazPwQKkRN20XPXV6nwwfoXmJQbsLNrLfkGJ5D6fwFm8nN+6pBzeDQfsS3Ap3o=",
	"example.com. CSYNC 66 3 A NS AAAA",
	"example.com. SVCB 1 svc.example.com. alpn=h2,h3 port=8443 ipv4hint=192.0.2.1,192.0.2.2 ipv6hint=2001:db8::1 key65400=\"a b\" mandatory=alpn,port no-default-alpn ech=AAA= dohpath=/dns-query{?dns}",
	"example.com. HTTPS 0 alias.example.com.",
	"example.com. APL 1:192.168.32.0/21 !1:192.168.38.0/28 2:2001:db8::/32",
	"example.com. IPSECKEY 10 1 2 192.0.2.38 AQNRU3mG7TVTO2BkR47usntb102uFJtugbo6BSGvgqt4AQ==",
	"example.com. IPSECKEY 10 3 2 mygateway.example.com. AQNRU3mG7TVTO2BkR47usntb102uFJtugbo6BSGvgqt4AQ==",
	"example.com. IPSECKEY 10 0 2 . AQNRU3mG7TVTO2BkR47usntb102uFJtugbo6BSGvgqt4AQ==",
	"example.com. AMTRELAY 10 1 2 2001:db8::15",
	"example.com. AMTRELAY 10 0 3 relay.example.com.",
	"example.com. CERT PKIX 65535 RSASHA256 AQNRU3mG7TVTO2BkR47usntb102uFJtugbo6BSGvgqt4AQ==",
	"example.com. NAPTR 100 10 \"S\" \"SIP+D2U\" \"!^.*$!sip:info@example.com!\" _sip._udp.example.com.",
	"example.com. CAA 128 issue \"ca.example.net; account=230123\"",
	"example.com. TLSA 3 1 1 d2abde240d7cd3ee6b4b28c54df034b97983a1d16e8a410e4561cb106618e971",
	"example.com. SSHFP 2 1 123456789abcdef67890123456789abcdef67890",
	"example.com. NID 10 0014:4fff:ff20:ee64",
	"example.com. L32 10 10.1.2.0",
	"example.com. L64 10 2001:0db8:1140:1000",
	"example.com. EUI48 00-00-5e-00-53-2a",
	"example.com. EUI64 00-00-5e-ef-10-00-00-2a",
	"example.com. URI 10 1 \"ftp://ftp1.example.com/public\"",
	"example.com. TKEY hmac. 1 2 3 4 AQID 0",
	"example.com. ZONEMD 2018031500 1 1 FEBE3D4CE2EC2FFA4BA99D46CD69D6D29711E55217057BEE7EB1A7B641A47BA7FED2DD5B97AE499FAFA4F22C6BD647DE",
	"example.com. VPRIVZ one two three",
	"example.com. 3600 IN VPRIVZ one",
	"example.com. SOA ns.example.com. hostmaster.example.com. ( 2023010101 1h 15m 1w 1d )",
	"example.com. TALINK a.example.com. b.example.com.",
	"example.com. X25 311061700956",
	"example.com. ISDN \"150862028003217\" \"004\"",
	"example.com. RT 2 relay.example.com.",
	"example.com. PX 10 map822.example.com. mapx400.example.com.",
	"example.com. DHCID AAIBY2/AuCccgoJbsaxcQc9TUapptP69lOjxfNuVAA2kjEA=",
	"example.com. OPENPGPKEY mQENBFVHm5sBCADH",
	"example.com. NINFO \"a\" \"b c\"",
	"example.com. UINFO \"user info\"",
	"example.com. UID 1000",
	"example.com. EID 4d65",
	"example.com. NSAPPTR foo.example.com.",
	"example.com. KEY 256 3 5 AQPSKmynfzW4kyBv015MUG2DeIQ3Cbl+BBZH4b/0PY1kxkmvHjcZc8nokfzj31GajIQKY+5CptLr3buXA10hWqTkF7H6RfoRqXQeogmMHfpftf6zMv1LyBUgia7za6ZEzOJBOztyvhjL742iU/TpPSEDhm2SNKLijfUppn1UaNvv4w==",
	"example.com. NXT next.example.com. A NS NXT",
	"example.com. SIG A 5 3 86400 20030322173103 20030220173103 2642 example.com. oJB1W6WNGv+ldvQ3WDG0MQkg5IEhjRip8WTrPYGv07h108dUKGMeDPKijVCHX3DDKdfb+v6oB9wfuh3DTJXUAfI/M0zmO/zz8bW0Rznl8O3tGNazPwQKkRN20XPXV6nwwfoXmJQbsLNrLfkGJ5D6fwFm8nN+6pBzeDQfsS3Ap3o=",
}

func runC07(r *Rng, tier string, n int) {
	mult := 1
	if tier == "thorough" {
		mult = 20
	}
	z.InitWorkDir()
	defer z.CleanupWorkDir()

	unitCases(r, tier)
	pathCases()

	// --- lexer: corpus, all truncations, mutations, soup, random octets
	for _, s := range corpus {
		emitLex(z.Lit(s), "corpus")
		for i := 0; i < len(s); i++ {
			lexChecked([]byte(s[:i]), Hs(s[:i]))
			if i%3 == 0 {
				emitLex(z.Lit(s[:i]), "trunc")
			}
		}
	}
	for i := 0; i < 250*mult; i++ {
		emitLex(z.Recipe{{B: mutate(r, []byte(corpus[r.Intn(len(corpus))])), N: 1}}, "mutant")
	}
	for i := 0; i < 250*mult; i++ {
		emitLex(z.Recipe{{B: soup(r), N: 1}}, "soup")
	}
	for i := 0; i < 150*mult; i++ {
		emitLex(z.Recipe{{B: randBytes(r), N: 1}}, "random")
	}
	sizes := []int{511, 512, 513, 1023, 1024, 1025, 2047, 2048, 2049}
	for _, sz := range sizes {
		for _, rc := range longRecipes(sz) {
			emitLex(rc, "long")
		}
	}
	for _, rc := range longRecipes(100000)[:4] {
		emitLex(rc, "long100k")
	}

	// --- parser: hostile stream
	for _, s := range corpus {
		for _, dt := range []int64{-1, 3600} {
			c := baseCfg(z.Lit(s))
			c.DefTTL = dt
			emitParse(c, true, "corpus")
		}
		for i := 0; i < len(s); i++ {
			c := baseCfg(z.Lit(s[:i]))
			c.DefTTL = 3600
			emitParse(c, i%2 == 0, "trunc")
		}
	}
	for i := 0; i < 300*mult; i++ {
		emitParse(randCfg(r, mutate(r, []byte(corpus[r.Intn(len(corpus))]))), true, "mutant")
	}
	for i := 0; i < 300*mult; i++ {
		emitParse(randCfg(r, soup(r)), true, "soup")
	}
	for i := 0; i < 100*mult; i++ {
		emitParse(randCfg(r, randBytes(r)), true, "random")
	}
	// oracle-only volume
	for i := 0; i < 4000*mult; i++ {
		var t []byte
		switch i % 3 {
		case 0:
			t = mutate(r, []byte(corpus[r.Intn(len(corpus))]))
		case 1:
			t = soup(r)
		default:
			t = randBytes(r)
		}
		emitParse(randCfg(r, t), false, "volume")
	}
	// every record type's own RDATA parser (scan_rr.go): the printed form of generated records of
	// every registered type, cut at every offset (with and without a final newline) and with each
	// single token removed or doubled: no panic, errors carry a position (oracle only)
	rdataHostile(r, mult)
	lexErrorInjection(r, mult)
	for _, sz := range sizes {
		for k, rc := range longRecipes(sz) {
			c := baseCfg(rc)
			c.DefTTL = 3600
			emitParse(c, sz == 512 || sz == 511 || k%4 == 0, "long")
		}
	}
	for _, rc := range longRecipes(100000) {
		c := baseCfg(rc)
		c.DefTTL = 3600
		emitParse(c, false, "long100k")
	}
	{
		c := baseCfg(longRecipes(100000)[3])
		c.DefTTL = 3600
		emitParse(c, true, "long100k")
	}
	allocCheck()

	// --- $GENERATE
	for _, s := range genCases() {
		for _, dt := range []int64{-1, 300} {
			c := baseCfg(z.Lit(s))
			c.DefTTL = dt
			o := emitParse(c, true, "generate")
			if strings.Contains(s, "\\$GENERATE") || strings.Contains(s, "\\$generate") {
				stat["oracle_nested_generate_checked"]++
				if o.Err == nil || len(o.Recs) > 0 {
					Viol("C07/nested-generate", "a $GENERATE produced by a $GENERATE was not rejected", describe(c))
				}
			}
		}
	}
	bigGenerate()
	quotedNewlineGenerate()

	// --- $INCLUDE
	for _, c := range fsCases(r) {
		o := emitParse(c, true, "include")
		checkDepth(c, o)
		// a $GENERATE reached through a file included from a $GENERATE line
		if strings.Contains(string(c.Text.Expand()), "\\$INCLUDE gen.zone") && c.Inc {
			stat["oracle_nested_generate_checked"]++
			if len(o.Recs) > 2 {
				Viol("C07/nested-generate/via-include", fmt.Sprintf("a $GENERATE in a file included from a $GENERATE line was expanded (%d records)", len(o.Recs)), describe(c))
			}
		}
	}
	// an included file that opens but cannot be read (a directory): a plain I/O error, not a syntax
	// error, inside the sub parser: still the first problem, still sticky, no records after it (oracle only)
	for _, text := range []string{"$INCLUDE sub\nafter A 10.0.0.9\n", "first A 10.0.0.1\n$INCLUDE sub x.\nafter A 10.0.0.9\n",
		"$INCLUDE d.zone\nafter A 10.0.0.9\n"} {
		c := baseCfg(z.Lit(text))
		c.File = "z/main.zone"
		c.DefTTL = 3600
		c.Inc, c.HasFS = true, false
		c.Files = map[string]z.Recipe{"z/sub/b.zone": z.Lit("b A 10.1.1.1\n"), "z/d.zone": z.Lit("in A 10.2.2.2\n$INCLUDE sub\nin2 A 10.2.2.3\n")}
		o := z.Run(c, 3)
		stat["include_unreadable_checked"]++
		// (not checkOutcome: a read error is an I/O error, the clause about *ParseError positions is about syntax errors)
		if o.TimedOut {
			Viol("C07/terminates", "parsing did not finish within the deadline", describe(c))
		}
		if o.Panicked {
			Viol("C07/no-panic", "ZoneParser panicked: "+o.PanicVal, describe(c))
		}
		if o.LateRecs > 0 {
			Viol("C07/sticky/record-after-false", fmt.Sprintf("%d record(s) returned by Next after it had returned false", o.LateRecs), describe(c))
		}
		if o.ErrChanged {
			Viol("C07/sticky/err-changed", "Err() changed after further calls of Next", describe(c))
		}
		if !o.Skipped && !o.TimedOut && !o.Panicked {
			if o.Err == nil {
				Viol("C07/include-read-error/not-reported", "an included file that cannot be read was not reported as an error", describe(c))
			}
			for _, rc := range o.Recs {
				if strings.HasPrefix(rc.Name, "after.") || strings.HasPrefix(rc.Name, "in2.") {
					Viol("C07/include-read-error/records-after", "records after the failed $INCLUDE were returned: "+rc.Name, describe(c))
				}
			}
		}
	}
	// random include-related texts against a small file set
	incVocab := []string{"$INCLUDE", "$include", "a.zone", "b.zone", "self.zone", "x/../a.zone", "/a.zone", "sub.", "@", "\n", "\n", " ", " ", "\t", "(", ")", "\"", ";c", "a 5 A 1.2.3.4\n", "$ORIGIN o.\n", "$TTL 9\n"}
	for i := 0; i < 150*mult; i++ {
		var sb strings.Builder
		for j := 2 + r.Intn(8); j > 0; j-- {
			sb.WriteString(incVocab[r.Intn(len(incVocab))])
			if r.Intn(2) == 0 {
				sb.WriteString(" ")
			}
		}
		c := baseCfg(z.Lit(sb.String()))
		c.File = []string{"", "m.zone", "x/m.zone"}[r.Intn(3)]
		c.DefTTL = 60
		c.Inc = r.Intn(4) > 0
		c.HasFS = r.Intn(2) == 0
		pre := ""
		if c.File == "x/m.zone" {
			pre = "x/"
		}
		c.Files = map[string]z.Recipe{
			pre + "a.zone":    z.Lit("ia A 10.0.0.1\n$INCLUDE b.zone q\n"),
			pre + "b.zone":    z.Lit("@ TXT b\n"),
			pre + "self.zone": z.Lit("$INCLUDE self.zone\n"),
			"a.zone":          z.Lit("ia A 10.0.0.1\n$INCLUDE b.zone q\n"),
			"b.zone":          z.Lit("@ TXT b\n"),
			"self.zone":       z.Lit("$INCLUDE self.zone\n"),
		}
		o := emitParse(c, true, "include_random")
		checkDepth(c, o)
	}

	for k, v := range errClasses {
		stat["err_"+k] = v
	}
	Stat(stat)
}
