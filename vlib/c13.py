from .core import Check


class C13(Check):
    prop = "C13"
    props_rel = "Props/C13"
    corr_module = "Corr.C13"
    corr_rel = "Corr/C13"
    extra_rels = ["Proofs/ServerLtsProofs"]
    shard_size = 60
    model_desc = ("Model/ServerLts.v: labelled transition system of server.go start / serve / shutdown: threads = "
                  "start callers, serve loop (serveTCP / serveUDP), one worker per TCP connection (serveTCPConn) or "
                  "UDP packet (serveUDPPacket), Shutdown callers; shared state = srv.started (phase), listener "
                  "closed, PacketConn / per-connection read deadline in the past, WaitGroup counter, srv.shutdown "
                  "closed; every lock region is one transition, every read of srv.started its own transition; "
                  "executable step function, hidden-step closure and trace acceptor (accepts)")
    rule = ("the real dns.Server over a scripted net.Listener + net.Conns (TCP) and a scripted generic net.PacketConn "
            "(UDP), handlers blocked on harness-controlled gates; every merge order of {connect, request, release} "
            "of 0..2 workers with Shutdown at every position (tcp k=2 sampled 1/3 in quick), special scenarios "
            "(idle connections, context expiry, double start, unstarted, Shutdown twice, temporary errors, two "
            "requests on one connection, client close, late requests, Shutdown racing with start), 60 "
            "unsynchronised random runs; every boundary-event log is checked by direct oracles and for acceptance "
            "by the LTS inside Coq; 12 runs over real loopback UDP/TCP sockets with the direct oracles; goroutine "
            "count back at baseline after every scenario. A case is one event log; distinct by hash.")
    partial = [
        "goroutine leaks and data races are run-time facts: the harness checks that the goroutine count returns to "
        "its baseline after every scenario (fake and real sockets); the race detector is not run by bin/vcheck "
        "(CGO is off in the sandbox); the theorems carry the protocol logic only",
        "the Go scheduler, sync.RWMutex / WaitGroup / channel semantics and net deadlines are modelled (one "
        "transition per lock region, deadline in the past makes a blocked read fail), not verified",
        "restart after Shutdown (Server.init replacing srv.shutdown / srv.conns), Hijack, MaxTCPQueries and "
        "handler-initiated Close are outside the LTS; a start that fails in serveUDP before its loop is modelled "
        "(SFailStart) only while no Shutdown call has slipped in between (docs/C13.md, residual corner)",
        "liveness is proved as progress (some server step is enabled while Shutdown waits), not as termination "
        "under fairness",
        "TLS listeners are not run (a TLS listener is a net.Listener wrapper; the TCP path is the same code)",
    ]
    trusted = ["the harness fakes implement net.Conn / net.PacketConn deadline semantics (a deadline in the past "
               "fails blocked and later reads; future deadlines never fire)"]

    def nontrivial(self, c):
        return len(c["args"]) > 6


CHECK = C13()
