(* Corr/C20.v — case runner for C20. *)
From Dns Require Import Base.Bytes Corr.Wire.
Definition run (fn : string) (args : list string) : string :=
  match run_wire fn args with Some s => s | None => "unknown-fn"%string end.
