// C03: domain names — text and wire forms correspond; 63/255-octet limits.
package main

import (
	"bytes"
	"sort"
	"strings"

	"github.com/miekg/dns"
	. "verif/harness/common"
)

func main() { Main(run) }

func refShowLabel(l []byte) string {
	var sb strings.Builder
	for _, b := range l {
		switch {
		case strings.IndexByte(`. '@;()"\`, b) >= 0:
			sb.WriteByte('\\')
			sb.WriteByte(b)
		case b < ' ' || b > '~':
			sb.WriteByte('\\')
			sb.WriteByte('0' + b/100)
			sb.WriteByte('0' + b/10%10)
			sb.WriteByte('0' + b%10)
		default:
			sb.WriteByte(b)
		}
	}
	return sb.String()
}

func refShowName(ls [][]byte) string {
	if len(ls) == 0 {
		return "."
	}
	var sb strings.Builder
	for _, l := range ls {
		sb.WriteString(refShowLabel(l))
		sb.WriteByte('.')
	}
	return sb.String()
}

func wireOf(ls [][]byte) []byte {
	var w []byte
	for _, l := range ls {
		w = append(w, byte(len(l)))
		w = append(w, l...)
	}
	return append(w, 0)
}

// refParse is an independent left-to-right reader of a fully-qualified
// presentation name: plain dots end labels, \DDD and \c are single octets.
// ok=false when the text is not a valid FQDN (dangling escape, missing final dot).
func refParse(s string) (ls [][]byte, ok bool) {
	if s == "." {
		return nil, true
	}
	var cur []byte
	i := 0
	for i < len(s) {
		c := s[i]
		switch {
		case c == '\\':
			if i+3 < len(s) && isD(s[i+1]) && isD(s[i+2]) && isD(s[i+3]) {
				cur = append(cur, byte((int(s[i+1]-'0')*100+int(s[i+2]-'0')*10+int(s[i+3]-'0'))%256))
				i += 4
			} else if i+1 < len(s) {
				cur = append(cur, s[i+1])
				i += 2
			} else {
				return nil, false
			}
		case c == '.':
			ls = append(ls, cur)
			cur = nil
			i++
			if i == len(s) {
				return ls, true
			}
		default:
			cur = append(cur, c)
			i++
		}
	}
	return nil, false // no final unescaped dot
}
func isD(b byte) bool { return b >= '0' && b <= '9' }

func validLabels(ls [][]byte) bool {
	tot := 1
	for _, l := range ls {
		if len(l) == 0 || len(l) > 63 {
			return false
		}
		tot += 1 + len(l)
	}
	return tot <= 255
}

type in03 struct {
	Labels []string `json:"labels_hex,omitempty"`
	Name   string   `json:"name_hex,omitempty"`
	Wire   string   `json:"wire_hex,omitempty"`
}

func mkIn(ls [][]byte, s string, w []byte) in03 {
	in := in03{Name: Hs(s), Wire: Hx(w)}
	for _, l := range ls {
		in.Labels = append(in.Labels, Hx(l))
	}
	return in
}

var nNames, nStrings, nWire int
var hist = map[string]int{}

func packPlain(s string, capN int) (string, []byte) {
	var outb []byte
	r := Protect(func() string {
		buf := make([]byte, capN)
		off, err := dns.PackDomainName(s, buf, 0, nil, false)
		if err != nil {
			return "err:" + ErrClass(err)
		}
		outb = buf[:off]
		// the octets written do not depend on what the buffer held, nor on where in it the name starts: the same
		// name into a used buffer (0xAA, 0x03) at offsets 0, 2 and 13
		for _, fill := range []byte{0xAA, 0x03} {
			for _, at := range []int{0, 2, 13} {
				dirty := bytes.Repeat([]byte{fill}, capN+at)
				off2, err2 := dns.PackDomainName(s, dirty, at, nil, false)
				if err2 != nil || !bytes.Equal(dirty[at:off2], outb) {
					Viol("C03/pack/depends-on-buffer-content", "PackDomainName into a used buffer gives other octets than into a zeroed one", map[string]string{"name": Hs(s), "clean": Hx(outb), "used": Hx(dirty[at:min(off2, len(dirty))]), "at": Itoa(at)})
				}
			}
		}
		return "ok:" + Hx(buf[:off])
	})
	return r, outb
}

func unpackAt(w []byte, off int) string {
	return Protect(func() string {
		s, o, err := dns.UnpackDomainName(w, off)
		if err != nil {
			return "err:" + ErrClass(err)
		}
		return "ok:" + Hs(s) + "," + Itoa(o)
	})
}

// oracleLabels: every clause of C03 for a label list (valid or just beyond the limits).
func oracleLabels(ls [][]byte, emit bool) {
	nNames++
	valid := validLabels(ls)
	s := refShowName(ls)
	w := wireOf(ls)
	in := mkIn(ls, s, w)
	encodable := true
	for _, l := range ls {
		if len(l) == 0 || len(l) > 63 {
			encodable = false
		}
	}
	if encodable {
		got := unpackAt(w, 0)
		if valid {
			want := "ok:" + Hs(s) + "," + Itoa(len(w))
			if got != want {
				Viol("C03/unpack/valid-wire-name", "UnpackDomainName of a valid wire name: got "+got+" want "+want, in)
			}
		} else if strings.HasPrefix(got, "ok:") {
			Viol("C03/limit-255/unpack-accepts-long", "UnpackDomainName accepted a name of more than 255 octets", in)
		}
		if emit {
			Emit("unpack", []string{Hx(w), "0"}, got)
		}
	}
	// the printers (Name.String, the owner in RR.String and Question.String) leave the canonical text
	// that UnpackDomainName produces exactly as it is
	if valid && encodable && s != "" {
		if p := Protect(func() string { return dns.Name(s).String() }); p != s {
			Viol("C03/printer/name-text-changed", "Name.String() of the canonical text of a wire name differs: "+Hs(p), in)
		}
		q := dns.Question{Name: s, Qtype: dns.TypeA, Qclass: 1}
		if p := Protect(func() string { return q.String() }); !strings.HasPrefix(p, ";"+s+"\t") {
			Viol("C03/printer/name-text-changed", "Question.String() does not print the canonical text of the name: "+Hs(p), in)
		}
		h := dns.RR_Header{Name: s, Rrtype: dns.TypeA, Class: 1}
		if p := Protect(func() string { return h.String() }); !strings.HasPrefix(p, s+"\t") {
			Viol("C03/printer/name-text-changed", "RR_Header.String() does not print the canonical text of the name: "+Hs(p), in)
		}
	}
	r, _ := packPlain(s, 600)
	_, idn := dns.IsDomainName(s)
	if valid {
		if r != "ok:"+Hx(w) {
			Viol("C03/pack/valid-name", "PackDomainName(show(ls)) != wire(ls): got "+r, in)
		}
		if !idn {
			Viol("C03/IsDomainName/rejects-valid", "IsDomainName rejects a valid name", in)
		}
	} else {
		if strings.HasPrefix(r, "ok:") {
			Viol("C03/limit-255/name-longer-than-255-accepted", "PackDomainName accepted a name beyond the 63/255 limits or with an empty label", in)
		}
		if idn {
			Viol("C03/limit-255/name-longer-than-255-accepted", "IsDomainName accepted a name beyond the 63/255 limits or with an empty label", in)
		}
	}
	if emit {
		Emit("pack", []string{Hs(s), "600"}, r)
		Emit("idn", []string{Hs(s)}, idnStr(s))
		if valid {
			// exact capacity and one less
			r1, _ := packPlain(s, len(w))
			r2, _ := packPlain(s, len(w)-1)
			Emit("pack", []string{Hs(s), Itoa(len(w))}, r1)
			Emit("pack", []string{Hs(s), Itoa(len(w) - 1)}, r2)
		}
	}
}

func idnStr(s string) string {
	return Protect(func() string { n, ok := dns.IsDomainName(s); return Itoa(n) + "," + Btoa(ok) })
}

// oracleString: IsDomainName <-> PackDomainName accepts <-> reference validity, for any FQDN text.
func oracleString(s string, emit bool) {
	nStrings++
	fq := dns.IsFqdn(s)
	r, w := packPlain(s, 1200)
	_, idn := dns.IsDomainName(s)
	in := in03{Name: Hs(s)}
	if emit {
		Emit("pack", []string{Hs(s), "1200"}, r)
		Emit("idn", []string{Hs(s)}, idnStr(s))
		Emit("fqdn", []string{Hs(s)}, Btoa(fq))
	}
	if !fq {
		if s != "" && r != "err:fqdn" {
			Viol("C03/fqdn/non-fqdn-not-refused", "PackDomainName did not refuse a name that is not fully qualified: "+r, in)
		}
		hist["nonfqdn"]++
		return
	}
	ls, okp := refParse(s)
	refValid := okp && validLabels(ls)
	packOK := strings.HasPrefix(r, "ok:")
	if idn != packOK {
		Viol("C03/IsDomainName-iff-pack", "IsDomainName="+Btoa(idn)+" but PackDomainName: "+r, in)
	}
	if packOK != refValid {
		Viol("C03/pack-iff-limits", "PackDomainName: "+r+" but reference validity (no empty label, labels<=63, wire<=255) = "+Btoa(refValid), in)
	}
	if packOK {
		hist["fqdn-valid"]++
		if !bytes.Equal(w, wireOf(ls)) {
			Viol("C03/pack/wrong-octets", "PackDomainName octets differ from the labels the text denotes", in)
		}
		// the library never emits a name it would itself reject
		got := unpackAt(w, 0)
		if !strings.HasPrefix(got, "ok:") {
			Viol("C03/emits-rejected-name", "UnpackDomainName rejects what PackDomainName produced: "+got, in)
		} else {
			// canonical text packs to the same octets
			canon := string(Unhx(strings.Split(got[3:], ",")[0]))
			r2, w2 := packPlain(canon, 1200)
			if !strings.HasPrefix(r2, "ok:") || !bytes.Equal(w2, w) {
				Viol("C03/text-wire-text", "unpacked text does not pack back to identical octets", in)
			}
		}
	} else {
		hist["fqdn-invalid:"+r]++
	}
}

func labelsWithShape(r *Rng, lens []int, alpha []byte) [][]byte {
	var ls [][]byte
	for _, n := range lens {
		l := make([]byte, n)
		for i := range l {
			if r.Intn(4) == 0 {
				l[i] = byte(r.Next())
			} else {
				l[i] = alpha[r.Intn(len(alpha))]
			}
		}
		ls = append(ls, l)
	}
	return ls
}

// shapes with total wire length exactly total (incl. root), last label sized to fit
func shapeForTotal(r *Rng, total int, firstLen int) []int {
	rem := total - 1
	var lens []int
	if firstLen > 0 && rem >= firstLen+1 {
		lens = append(lens, firstLen)
		rem -= firstLen + 1
	}
	for rem > 0 {
		l := 1 + r.Intn(63)
		if rem-1 < l {
			l = rem - 1
		}
		if l == 0 { // one octet left cannot hold a label: grow the previous label
			if len(lens) > 0 && lens[len(lens)-1] < 63 {
				lens[len(lens)-1]++
				rem--
				continue
			}
			return nil
		}
		lens = append(lens, l)
		rem -= l + 1
	}
	return lens
}

func run(r *Rng, tier string, n int) {
	alpha := []byte("abcXYZ019-_.\\ \"();@'$\x00\x7f\xff")
	rounds := 1
	if tier == "thorough" {
		rounds = 30
	}
	// (1) all 256 octet values x first/middle/last position
	for b := 0; b < 256; b++ {
		for pos := 0; pos < 3; pos++ {
			l := []byte{'x', 'y', 'z'}
			l[pos] = byte(b)
			oracleLabels([][]byte{l, []byte("tld")}, pos == 1)
			oracleLabels([][]byte{[]byte("www"), l}, false)
		}
		oracleLabels([][]byte{{byte(b)}}, true)
	}
	// (2) limits: total wire length 250..260 x label lengths 60..66 (shapes exhaustive, content random)
	for round := 0; round < rounds; round++ {
		for total := 248; total <= 262; total++ {
			for first := 58; first <= 66; first++ {
				lens := shapeForTotal(r, total, first)
				if lens == nil {
					continue
				}
				ls := labelsWithShape(r, lens, alpha)
				oracleLabels(ls, round == 0 && (first%3 == 0 || total >= 254 && total <= 258))
				// the same shapes with content that is entirely unprintable / entirely one-character escapes:
				// the presentation form is up to four times as long as the wire form
				if first%2 == 0 || total >= 254 && total <= 257 {
					for _, content := range [][]byte{{0x01}, {0xE9, 0x80, 0xFF, 0x00}, []byte(".\\;@() \"")} {
						oracleLabels(labelsWithShape(r, lens, content), false)
					}
				}
			}
			lens := shapeForTotal(r, total, 0)
			if lens != nil {
				oracleLabels(labelsWithShape(r, lens, []byte("ab")), round == 0)
			}
		}
		// labels of 0 and 64..66 octets in otherwise small names
		for _, bad := range []int{0, 63, 64, 65, 66} {
			oracleLabels(labelsWithShape(r, []int{3, bad, 2}, []byte("ab")), round == 0)
			if bad > 0 {
				oracleLabels(labelsWithShape(r, []int{bad}, []byte("ab")), round == 0)
			}
			oracleLabels(labelsWithShape(r, []int{2, bad}, []byte("ab")), round == 0)
		}
	}
	// the longest presentation forms: four maximal labels in every order, total 254 / 255 / 256 octets,
	// every octet unprintable (four characters of text each), or only the first three labels
	for _, shape := range [][]int{{61, 63, 63, 63}, {63, 61, 63, 63}, {63, 63, 61, 63}, {63, 63, 63, 61}, {60, 63, 63, 63}, {63, 63, 63, 60}, {62, 63, 63, 63}, {63, 63, 63, 62}, {63, 63, 63, 63}} {
		for _, fill := range []byte{0x00, 0x01, 0x7f, 0x80, 0xe9, 0xff} {
			for _, lastPrintable := range []bool{false, true} {
				var ls [][]byte
				for i, n := range shape {
					b := fill
					if lastPrintable && i == len(shape)-1 {
						b = 'a'
					}
					ls = append(ls, bytes.Repeat([]byte{b}, n))
				}
				oracleLabels(ls, fill == 0x01)
			}
		}
	}
	// the other way to reach the 255-octet limit: MANY short labels. k labels of one octet (2k+1 octets on the
	// wire) for k around 127, the same with one label longer, and label lengths 1..4 mixed, total 253..257
	for k := 120; k <= 130; k++ {
		for _, fill := range []byte{'a', 'Z', '.', '\\', 0x00, 0xff} {
			ls := make([][]byte, k)
			for i := range ls {
				ls[i] = []byte{fill}
			}
			oracleLabels(ls, fill == 'a')
			ls2 := append([][]byte{}, ls...)
			ls2[k/2] = []byte{fill, fill}
			oracleLabels(ls2, false)
			ls3 := append([][]byte{}, ls...)
			ls3[k-1] = []byte{fill, fill, fill}
			oracleLabels(ls3, false)
		}
	}
	for total := 253; total <= 257; total++ {
		for _, unit := range []int{1, 2, 3, 4} {
			var ls [][]byte
			left := total - 1 // the root octet
			for left > 0 {
				n := unit
				if left-(n+1) < 0 {
					n = left - 1
				}
				if n <= 0 {
					break
				}
				ls = append(ls, bytes.Repeat([]byte{'m'}, n))
				left -= n + 1
			}
			if left == 0 {
				oracleLabels(ls, unit == 1)
			}
		}
	}
	// names are octet strings: a multi-octet UTF-8 character (or an invalid UTF-8 octet) right before the
	// backslashes that precede a dot must not change how many of them there are
	for _, pre := range []string{"\xc3\xa9", "\xe6\x97\xa5", "\xf0\x9f\x98\x80", "\xff", "a", "x.\xc3\xa9", "\xc3\xa9\xc3\xa9"} {
		for k := 0; k <= 4; k++ {
			oracleString(pre+strings.Repeat("\\", k)+".", k <= 2)
			oracleString(pre+strings.Repeat("\\", k)+".tld.", false)
			oracleString("w."+pre+strings.Repeat("\\", k)+".", false)
		}
	}
	oracleLabels(nil, true) // root
	// (3) escape spellings
	for c := 0; c < 256; c++ {
		oracleString("a\\"+string([]byte{byte(c)})+"b.", c%4 == 0)
		oracleString("\\"+string([]byte{byte(c)})+".", false)
		oracleString("a\\"+string([]byte{byte(c)}), false) // ends in escape
	}
	for d := 0; d < 1000; d++ {
		ddd := string([]byte{'0' + byte(d/100), '0' + byte(d/10%10), '0' + byte(d%10)})
		oracleString("p\\"+ddd+"q.", d%16 == 0 || d >= 250 && d <= 260)
		oracleString("\\"+ddd+".", false)
	}
	for _, s := range []string{"", ".", "..", "a..", ".a.", "a.b", "a", "\\", "\\.", "\\\\.", "\\\\\\.", "a\\", "a\\.", "a\\..",
		"\\1.", "\\12.", "\\123.", "\\1234.", "\\12a.", "a.\\", "a.\\.", "a\\.b\\..", "\\..", "\\.\\..", "*.a.", "a.\\000.", "\\046.", "\\.a.", "a\\046b."} {
		oracleString(s, true)
	}
	// (4) random FQDN-ish strings, short and long (around the limits)
	nr := 1500 * rounds
	if n > 0 {
		nr = n
	}
	pa := []byte("aZ09.\\-")
	for i := 0; i < nr; i++ {
		var L int
		switch r.Intn(4) {
		case 0:
			L = r.Intn(12)
		case 1:
			L = r.Intn(80)
		case 2:
			L = 240 + r.Intn(40)
		default:
			L = r.Intn(400)
		}
		b := make([]byte, L)
		dotEvery := 2 + r.Intn(70)
		if L >= 240 && r.Intn(3) != 0 {
			dotEvery = 2 + r.Intn(20) // labels mostly within 63 so that the 255 limit decides
		}
		for j := range b {
			switch {
			case r.Intn(dotEvery) == 0:
				b[j] = '.'
			case r.Intn(12) == 0:
				b[j] = '\\'
			default:
				b[j] = pa[r.Intn(len(pa))]
			}
		}
		s := string(b)
		if r.Intn(5) != 0 {
			s += "."
		}
		oracleString(s, i < 150 || i%40 == 0)
	}
	// (5) wire inputs for UnpackDomainName: pointers, truncation, reserved bits (model fidelity; C02 has more)
	for i := 0; i < 120*rounds; i++ {
		nWire++
		ls := labelsWithShape(r, shapeForTotal(r, 2+r.Intn(60), 0), alpha)
		w := wireOf(ls)
		msg := append([]byte{}, w...)
		// add a second name pointing into the first, maybe chained
		p := 0
		if len(ls) > 0 {
			k := r.Intn(len(ls))
			for j := 0; j < k; j++ {
				p += 1 + len(ls[j])
			}
		}
		start2 := len(msg)
		msg = append(msg, 1, 'q', 0xC0|byte(p>>8), byte(p))
		start3 := len(msg)
		msg = append(msg, 0xC0|byte(start2>>8), byte(start2))
		switch r.Intn(6) {
		case 0:
			msg = msg[:r.Intn(len(msg)+1)]
		case 1:
			msg[r.Intn(len(msg))] ^= byte(1 << r.Intn(8))
		case 2: // self pointer
			msg = append(msg, 0xC0|byte(len(msg)>>8), byte(len(msg)))
			start3 = len(msg) - 2
		}
		for _, off := range []int{0, start2, start3, len(msg), len(msg) + 1} {
			if off <= len(msg)+1 {
				Emit("unpack", []string{Hx(msg), Itoa(off)}, unpackAt(msg, off))
			}
		}
	}
	// pointer chains of 125/126/127/128 hops ending in a name
	for _, hops := range []int{1, 125, 126, 127, 128, 129} {
		msg := []byte{1, 'a', 0}
		for h := 0; h < hops; h++ {
			tgt := 0
			if h > 0 {
				tgt = 3 + 2*(h-1)
			}
			msg = append(msg, 0xC0|byte(tgt>>8), byte(tgt))
		}
		off := len(msg) - 2
		got := unpackAt(msg, off)
		Emit("unpack", []string{Hx(msg), Itoa(off)}, got)
		if hops <= 127 && !strings.HasPrefix(got, "ok:") || hops > 127 && got != "err:pointers" {
			Viol("C03/unpack/pointer-hop-limit", "pointer chain of "+Itoa(hops)+" hops: "+got, in03{Wire: Hx(msg)})
		}
	}
	// (6) the 255-octet limit reached through a compression pointer: a suffix packed first,
	// then prefix labels + that suffix with compress=true, expanded length 250..260
	nptr := 0
	for si, sufLen := range []int{2, 5, 64, 129, 200, 254, 5, 64, 129, 193, 200, 254} {
		// the second half of the list: suffixes whose text needs every kind of escape (\\ \. \DDD \;)
		content := []byte("suf")
		if si >= 6 {
			content = []byte("s\\.\x00;\xe9\\")
		}
		suffixLabels := labelsWithShape(r, shapeForTotal(r, sufLen, 0), content)
		if suffixLabels == nil {
			continue
		}
		suffix := refShowName(suffixLabels)
		for total := 250; total <= 260; total++ {
			preWire := total - sufLen // octets of the prefix labels incl. their length octets
			if preWire < 2 {
				continue
			}
			var pre [][]byte
			rem := preWire
			for rem > 0 {
				l := 63
				if rem-1 < l {
					l = rem - 1
				}
				if l == 0 {
					pre[len(pre)-1] = pre[len(pre)-1][1:]
					rem++
					continue
				}
				pre = append(pre, bytes.Repeat([]byte{'p'}, l))
				rem -= l + 1
			}
			name := ""
			for _, l := range pre {
				name += refShowLabel(l) + "."
			}
			name += suffix
			buf := make([]byte, 1200)
			comp := map[string]uint16{}
			off, err := dns.VerifPackDomainName(suffix, buf, 0, comp, true)
			if err != nil {
				continue
			}
			off2, err2 := dns.VerifPackDomainName(name, buf, off, comp, true)
			nptr++
			out := "err"
			if err2 == nil {
				var es []string
				for k, v := range comp {
					es = append(es, Hs(k)+"="+Itoa(int(v)))
				}
				sort.Strings(es)
				out = "ok:" + Hx(buf[:off2]) + "#" + strings.Join(es, ";")
			}
			Emit("pack_names", []string{"0", "1200", Hs(suffix) + ":1," + Hs(name) + ":1"}, out)
			in := in03{Name: Hs(name)}
			if (err2 == nil) != (total <= 255) {
				Viol("C03/limit-255/through-pointer", "packing a name of "+Itoa(total)+" expanded octets through a compression pointer: err="+Btoa(err2 != nil), in)
			}
			if err2 == nil {
				if _, _, e := dns.UnpackDomainName(buf[:off2], off); e != nil {
					Viol("C03/emits-rejected-name", "UnpackDomainName rejects a compressed name the packer produced", in)
				}
			}
		}
	}
	st := map[string]int{"pointer_limit_checked": nptr, "label_lists_checked": nNames, "strings_checked": nStrings, "wire_inputs_checked": nWire}
	for k, v := range hist {
		st["class:"+k] = v
	}
	Stat(st)
}
