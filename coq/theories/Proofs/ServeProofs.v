(* Proofs/ServeProofs.v — lemmas about Model/Serve.v (property C14: admission,
   default policy, reply skeletons). *)
From Dns Require Import Model.Serve.
From Coq Require Import Lia ZifyN ZifyNat ZifyBool.
Ltac Zify.zify_post_hook ::= Z.div_mod_to_equations.
Open Scope N_scope.

(* ------------------------------------------------------------------ *)
(* header decoding                                                     *)
(* ------------------------------------------------------------------ *)

Lemma unpack_u16_some m off :
  (off + 2 <= length m)%nat -> unpack_u16 m off = Some (nth off m 0 * 256 + nth (S off) m 0).
Proof.
  intro Hl. unfold unpack_u16.
  destruct (Nat.ltb_spec (length m) (off + 2)); [lia|reflexivity].
Qed.

Lemma unpack_u16_none m off :
  (length m < off + 2)%nat -> unpack_u16 m off = None.
Proof.
  intro Hl. unfold unpack_u16.
  destruct (Nat.ltb_spec (length m) (off + 2)); [reflexivity|lia].
Qed.

(* a message of at least twelve octets always yields a header, made of the six
   big-endian words *)
Lemma unpack_hdr_ok m :
  (12 <= length m)%nat ->
  unpack_hdr m = Ok (mkHeader (nth 0 m 0 * 256 + nth 1 m 0) (nth 2 m 0 * 256 + nth 3 m 0)
                              (nth 4 m 0 * 256 + nth 5 m 0) (nth 6 m 0 * 256 + nth 7 m 0)
                              (nth 8 m 0 * 256 + nth 9 m 0) (nth 10 m 0 * 256 + nth 11 m 0)).
Proof.
  intro Hl. unfold unpack_hdr.
  rewrite !unpack_u16_some by lia. reflexivity.
Qed.

(* a shorter one never does: it is an error naming the first missing field *)
Lemma unpack_hdr_short m :
  (length m < 12)%nat -> exists c, unpack_hdr m = Err c.
Proof.
  intro Hl. unfold unpack_hdr.
  destruct (unpack_u16 m 0) eqn:E0; [|eauto].
  destruct (unpack_u16 m 2) eqn:E2; [|eauto].
  destruct (unpack_u16 m 4) eqn:E4; [|eauto].
  destruct (unpack_u16 m 6) eqn:E6; [|eauto].
  destruct (unpack_u16 m 8) eqn:E8; [|eauto].
  destruct (unpack_u16 m 10) eqn:E10; [|eauto].
  rewrite unpack_u16_none in E10 by lia. discriminate.
Qed.

Lemma unpack_hdr_cases m :
  (exists dh, unpack_hdr m = Ok dh /\ (12 <= length m)%nat) \/
  (exists c, unpack_hdr m = Err c /\ (length m < 12)%nat).
Proof.
  destruct (Nat.le_gt_cases 12 (length m)) as [Hl|Hl].
  - left. eexists. split; [apply unpack_hdr_ok; exact Hl|exact Hl].
  - right. destruct (unpack_hdr_short m Hl) as [c Hc]. eauto.
Qed.

(* ------------------------------------------------------------------ *)
(* serve: exactly once, accounted                                       *)
(* ------------------------------------------------------------------ *)
Section ServeFacts.
  Context {R : Type}.
  Variable accept : header -> action.
  Variable unpack : bytes -> unpack_result R.

  Lemma serve_dns_handler_iff m r :
    handler_calls (serve_dns accept unpack m) = [r] <->
    exists dh, unpack_hdr m = Ok dh /\ accept dh = MsgAccept /\ unpack m = UOk r.
  Proof.
    unfold serve_dns. split.
    - destruct (unpack_hdr m) as [dh|c| |] eqn:Eh; try discriminate.
      destruct (accept dh) eqn:Ea; try discriminate.
      destruct (unpack m) as [r'|qs] eqn:Eu; try discriminate.
      cbn. intro Hr. injection Hr as ->. exists dh. auto.
    - intros [dh [-> [-> ->]]]. reflexivity.
  Qed.

  Lemma serve_dns_handler_le1 m :
    handler_calls (serve_dns accept unpack m) = [] \/
    exists r, handler_calls (serve_dns accept unpack m) = [r].
  Proof.
    unfold serve_dns.
    destruct (unpack_hdr m) as [dh|c| |]; auto.
    destruct (accept dh); auto.
    destruct (unpack m) as [r|qs]; cbn; eauto.
  Qed.

  (* Over either transport: the handler runs exactly once, with the decoded
     request, iff the message has a header, passes the policy and decodes;
     otherwise it does not run at all. *)
  Lemma serve_exactly_once tr m r :
    handler_calls (serve accept unpack tr m) = [r] <->
    exists dh, unpack_hdr m = Ok dh /\ accept dh = MsgAccept /\ unpack m = UOk r.
  Proof.
    destruct tr; cbn [serve]; [|apply serve_dns_handler_iff].
    destruct (Nat.ltb_spec (length m) 12) as [Hl|Hl]; [|apply serve_dns_handler_iff].
    split; [discriminate|].
    intros [dh [Hh _]]. destruct (unpack_hdr_short m Hl) as [c Hc]. congruence.
  Qed.

  Lemma serve_at_most_once tr m :
    handler_calls (serve accept unpack tr m) = [] \/
    exists r, handler_calls (serve accept unpack tr m) = [r].
  Proof.
    destruct tr; cbn [serve]; [|apply serve_dns_handler_le1].
    destruct (Nat.ltb (length m) 12); [left; reflexivity|apply serve_dns_handler_le1].
  Qed.

  Lemma serve_not_at_all tr m :
    (forall dh r, unpack_hdr m = Ok dh -> accept dh = MsgAccept -> unpack m <> UOk r) ->
    handler_calls (serve accept unpack tr m) = [].
  Proof.
    intro Hno. destruct (serve_at_most_once tr m) as [H0|[r Hr]]; [exact H0|].
    apply serve_exactly_once in Hr. destruct Hr as [dh [Hh [Ha Hu]]].
    exfalso. exact (Hno dh r Hh Ha Hu).
  Qed.

  (* Every message that does not reach the handler was refused or ignored by
     the policy (and then nothing is reported), or is reported to the
     invalid-message callback exactly once with the very octets received. *)
  Lemma serve_accounted tr m :
    handler_calls (serve accept unpack tr m) = [] ->
    (exists dh, unpack_hdr m = Ok dh /\ accept dh <> MsgAccept /\
                invalid_calls (serve accept unpack tr m) = []) \/
    (exists c, invalid_calls (serve accept unpack tr m) = [(c, m)]).
  Proof.
    destruct tr; cbn [serve].
    - destruct (Nat.ltb (length m) 12); [right; cbn; eauto|].
      unfold serve_dns.
      destruct (unpack_hdr m) as [dh|c| |] eqn:Eh.
      + destruct (accept dh) eqn:Ea.
        * destruct (unpack m) as [r|qs]; cbn; [discriminate|right; eauto].
        * left. exists dh. cbn. repeat split; congruence.
        * left. exists dh. cbn. repeat split; congruence.
        * left. exists dh. cbn. repeat split; congruence.
      + right. cbn. eauto.
      + unfold unpack_hdr in Eh. repeat (destruct (unpack_u16 _ _) in Eh; try discriminate).
      + unfold unpack_hdr in Eh. repeat (destruct (unpack_u16 _ _) in Eh; try discriminate).
    - unfold serve_dns.
      destruct (unpack_hdr m) as [dh|c| |] eqn:Eh.
      + destruct (accept dh) eqn:Ea.
        * destruct (unpack m) as [r|qs]; cbn; [discriminate|right; eauto].
        * left. exists dh. cbn. repeat split; congruence.
        * left. exists dh. cbn. repeat split; congruence.
        * left. exists dh. cbn. repeat split; congruence.
      + right. cbn. eauto.
      + unfold unpack_hdr in Eh. repeat (destruct (unpack_u16 _ _) in Eh; try discriminate).
      + unfold unpack_hdr in Eh. repeat (destruct (unpack_u16 _ _) in Eh; try discriminate).
  Qed.

  (* the model of the server has no Panic outcome at all: its result is a
     plain event list for every octet string; at most one reply is written
     by the library itself *)
  Lemma serve_writes_le1 tr m :
    writes (serve accept unpack tr m) = [] \/ exists b, writes (serve accept unpack tr m) = [b].
  Proof.
    destruct tr; cbn [serve].
    - destruct (Nat.ltb (length m) 12); [left; reflexivity|].
      unfold serve_dns. destruct (unpack_hdr m) as [dh|c| |]; auto.
      destruct (accept dh); cbn; eauto. destruct (unpack m); cbn; eauto.
    - unfold serve_dns. destruct (unpack_hdr m) as [dh|c| |]; auto.
      destruct (accept dh); cbn; eauto. destruct (unpack m); cbn; eauto.
  Qed.

  (* what is written, by action *)
  Lemma serve_writes tr m dh :
    unpack_hdr m = Ok dh ->
    writes (serve accept unpack tr m) =
    match accept dh with
    | MsgAccept => match unpack m with UOk _ => [] | UErr qs => [reject_reply dh false qs] end
    | MsgReject => [reject_reply dh false []]
    | MsgRejectNotImplemented => [reject_reply dh true []]
    | MsgIgnore => []
    end.
  Proof.
    intro Hh.
    assert (Hd : writes (serve_dns accept unpack m) =
                 match accept dh with
                 | MsgAccept => match unpack m with UOk _ => [] | UErr qs => [reject_reply dh false qs] end
                 | MsgReject => [reject_reply dh false []]
                 | MsgRejectNotImplemented => [reject_reply dh true []]
                 | MsgIgnore => []
                 end).
    { unfold serve_dns. rewrite Hh. destruct (accept dh); cbn; try reflexivity.
      destruct (unpack m); reflexivity. }
    destruct tr; cbn [serve]; [|exact Hd].
    destruct (Nat.ltb_spec (length m) 12) as [Hl|Hl]; [|exact Hd].
    destruct (unpack_hdr_short m Hl) as [c Hc]. congruence.
  Qed.

  Lemma serve_short_no_reply tr m :
    (length m < 12)%nat ->
    writes (serve accept unpack tr m) = [] /\ handler_calls (serve accept unpack tr m) = [] /\
    exists c, invalid_calls (serve accept unpack tr m) = [(c, m)].
  Proof.
    intro Hl. destruct (unpack_hdr_short m Hl) as [c Hc].
    destruct tr; cbn [serve].
    - destruct (Nat.ltb_spec (length m) 12); [|lia]. cbn. eauto.
    - unfold serve_dns. rewrite Hc. cbn. eauto.
  Qed.
End ServeFacts.

(* ------------------------------------------------------------------ *)
(* bits                                                                 *)
(* ------------------------------------------------------------------ *)

Lemma b2n_le b : b2n b <= 1.
Proof. destruct b; cbn; lia. Qed.

Lemma bit_b2n_top (x rest : N) (b : bool) :
  rest < 32768 -> bit (b2n b * 32768 + rest) 15 = b.
Proof.
  intro Hr. unfold bit. change (2 ^ 15) with 32768.
  destruct b; cbn [b2n].
  - apply N.eqb_eq. lia.
  - apply N.eqb_neq. lia.
Qed.

Lemma pack_bits_lt h : pack_bits h < 65536.
Proof.
  unfold pack_bits.
  pose proof (b2n_le (m_response h)). pose proof (b2n_le (m_aa h)). pose proof (b2n_le (m_tc h)).
  pose proof (b2n_le (m_rd h)). pose proof (b2n_le (m_ra h)). pose proof (b2n_le (m_z h)).
  pose proof (b2n_le (m_ad h)). pose proof (b2n_le (m_cd h)).
  lia.
Qed.

Lemma pack_bits_qr h : bit (pack_bits h) 15 = m_response h.
Proof.
  unfold pack_bits. unfold bit. change (2 ^ 15) with 32768.
  pose proof (b2n_le (m_aa h)). pose proof (b2n_le (m_tc h)).
  pose proof (b2n_le (m_rd h)). pose proof (b2n_le (m_ra h)). pose proof (b2n_le (m_z h)).
  pose proof (b2n_le (m_ad h)). pose proof (b2n_le (m_cd h)).
  destruct (m_response h); cbn [b2n].
  - apply N.eqb_eq. lia.
  - apply N.eqb_neq. lia.
Qed.

Lemma pack_bits_rcode h : pack_bits h mod 16 = m_rcode h mod 16.
Proof.
  unfold pack_bits.
  pose proof (b2n_le (m_response h)). pose proof (b2n_le (m_aa h)). pose proof (b2n_le (m_tc h)).
  pose proof (b2n_le (m_rd h)). pose proof (b2n_le (m_ra h)). pose proof (b2n_le (m_z h)).
  pose proof (b2n_le (m_ad h)). pose proof (b2n_le (m_cd h)).
  lia.
Qed.

Lemma pack_bits_opcode h : (pack_bits h / 2048) mod 16 = m_opcode h mod 16.
Proof.
  unfold pack_bits.
  pose proof (b2n_le (m_response h)). pose proof (b2n_le (m_aa h)). pose proof (b2n_le (m_tc h)).
  pose proof (b2n_le (m_rd h)). pose proof (b2n_le (m_ra h)). pose proof (b2n_le (m_z h)).
  pose proof (b2n_le (m_ad h)). pose proof (b2n_le (m_cd h)).
  lia.
Qed.

(* reading the words of a packed reply back *)
Lemma u16_read n rest : n < 65536 ->
  nth 0 (u16 n ++ rest) 0 * 256 + nth 1 (u16 n ++ rest) 0 = n.
Proof. intro Hn. cbn. lia. Qed.

Lemma reply_id_pack h qs : m_id h < 65536 -> reply_id (pack_reply h qs) = m_id h.
Proof. intro Hi. unfold reply_id, pack_reply. cbn. lia. Qed.

Lemma reply_bits_pack h qs : reply_bits (pack_reply h qs) = pack_bits h.
Proof.
  unfold reply_bits, pack_reply. pose proof (pack_bits_lt h). cbn. lia.
Qed.

Lemma reply_counts_pack h qs :
  reply_an (pack_reply h qs) = 0 /\ reply_ns (pack_reply h qs) = 0 /\ reply_ar (pack_reply h qs) = 0.
Proof. unfold reply_an, reply_ns, reply_ar, pack_reply. cbn. auto. Qed.

(* the header of a decoded message has a 16-bit id *)
Lemma unpack_hdr_id_lt m dh :
  wfb m -> unpack_hdr m = Ok dh -> h_id dh < 65536.
Proof.
  intros Hw Hh.
  destruct (unpack_hdr_cases m) as [[dh' [Hok Hl]]|[c [Hc _]]]; [|congruence].
  rewrite (unpack_hdr_ok m Hl) in Hh. injection Hh as <-. cbn.
  assert (H0 : nth 0 m 0 < 256).
  { unfold wfb in Hw. rewrite Forall_forall in Hw. apply Hw. apply nth_In. lia. }
  assert (H1 : nth 1 m 0 < 256).
  { unfold wfb in Hw. rewrite Forall_forall in Hw. apply Hw. apply nth_In. lia. }
  lia.
Qed.

(* ------------------------------------------------------------------ *)
(* the reject reply                                                     *)
(* ------------------------------------------------------------------ *)

Lemma reject_hdr_fields dh notimp :
  m_id (reject_hdr dh notimp) = h_id dh /\
  m_response (reject_hdr dh notimp) = true /\
  m_rcode (reject_hdr dh notimp) = (if notimp then RcodeNotImplemented else RcodeFormatError) /\
  m_opcode (reject_hdr dh notimp) = (if notimp then hdr_opcode dh else OpcodeQuery) /\
  m_aa (reject_hdr dh notimp) = false /\ m_z (reject_hdr dh notimp) = false.
Proof. destruct notimp; cbn; repeat split; reflexivity. Qed.

(* Every reply serveDNS constructs itself: the request's ID, QR set, the
   stated RCODE, no answer / authority / additional records. *)
Lemma reject_reply_spec dh notimp qs :
  h_id dh < 65536 ->
  let b := reject_reply dh notimp qs in
  reply_id b = h_id dh /\ reply_qr b = true /\
  reply_rcode b = (if notimp then 4 else 1) /\
  reply_opcode b = (if notimp then hdr_opcode dh else 0) /\
  reply_an b = 0 /\ reply_ns b = 0 /\ reply_ar b = 0.
Proof.
  intros Hid b. subst b. unfold reject_reply.
  destruct (reject_hdr_fields dh notimp) as [Hi [Hr [Hc [Ho _]]]].
  unfold reply_qr, reply_rcode, reply_opcode.
  rewrite reply_bits_pack, pack_bits_qr, pack_bits_rcode, pack_bits_opcode, Hr, Hc, Ho.
  rewrite reply_id_pack by (rewrite Hi; exact Hid).
  destruct (reply_counts_pack (reject_hdr dh notimp) qs) as [Ha [Hn Hx]].
  repeat split; auto.
  - destruct notimp; reflexivity.
  - destruct notimp; [|reflexivity]. unfold hdr_opcode. apply N.mod_mod. lia.
Qed.

(* ------------------------------------------------------------------ *)
(* default policy: complete case analysis                               *)
(* ------------------------------------------------------------------ *)

Lemma accept_default_cases dh :
  accept_default dh =
  if hdr_qr dh then MsgIgnore
  else if negb ((hdr_opcode dh =? 0) || (hdr_opcode dh =? 4)) then MsgRejectNotImplemented
  else if (h_qd dh =? 1) && (h_an dh <=? 1) && (h_ns dh <=? 1) && (h_ar dh <=? 2) then MsgAccept
  else MsgReject.
Proof.
  unfold accept_default, OpcodeQuery, OpcodeNotify.
  destruct (hdr_qr dh); [reflexivity|].
  destruct (hdr_opcode dh =? 0) eqn:E0; destruct (hdr_opcode dh =? 4) eqn:E4; cbn [negb andb orb];
    try reflexivity;
    destruct (h_qd dh =? 1) eqn:Eq; cbn [negb andb]; try reflexivity;
    destruct (N.ltb_spec 1 (h_an dh)); destruct (N.leb_spec (h_an dh) 1); try lia; cbn [andb]; try reflexivity;
    destruct (N.ltb_spec 1 (h_ns dh)); destruct (N.leb_spec (h_ns dh) 1); try lia; cbn [andb]; try reflexivity;
    destruct (N.ltb_spec 2 (h_ar dh)); destruct (N.leb_spec (h_ar dh) 2); try lia; reflexivity.
Qed.

Lemma accept_default_qr dh : hdr_qr dh = true -> accept_default dh = MsgIgnore.
Proof. intro H. rewrite accept_default_cases, H. reflexivity. Qed.

Lemma accept_default_notimp dh :
  hdr_qr dh = false -> hdr_opcode dh <> 0 -> hdr_opcode dh <> 4 ->
  accept_default dh = MsgRejectNotImplemented.
Proof.
  intros Hq H0 H4. rewrite accept_default_cases, Hq.
  apply N.eqb_neq in H0. apply N.eqb_neq in H4. rewrite H0, H4. reflexivity.
Qed.

Lemma accept_default_formerr dh :
  hdr_qr dh = false -> (hdr_opcode dh = 0 \/ hdr_opcode dh = 4) ->
  (h_qd dh <> 1 \/ 1 < h_an dh \/ 1 < h_ns dh \/ 2 < h_ar dh) ->
  accept_default dh = MsgReject.
Proof.
  intros Hq Ho Hc. rewrite accept_default_cases, Hq.
  assert (Hop : negb ((hdr_opcode dh =? 0) || (hdr_opcode dh =? 4)) = false).
  { destruct Ho as [->| ->]; reflexivity. }
  rewrite Hop.
  destruct (N.eqb_spec (h_qd dh) 1); destruct (N.leb_spec (h_an dh) 1);
    destruct (N.leb_spec (h_ns dh) 1); destruct (N.leb_spec (h_ar dh) 2); cbn; try reflexivity; lia.
Qed.

Lemma accept_default_accept_iff dh :
  accept_default dh = MsgAccept <->
  hdr_qr dh = false /\ (hdr_opcode dh = 0 \/ hdr_opcode dh = 4) /\
  h_qd dh = 1 /\ h_an dh <= 1 /\ h_ns dh <= 1 /\ h_ar dh <= 2.
Proof.
  rewrite accept_default_cases. split.
  - destruct (hdr_qr dh); [discriminate|].
    destruct (N.eqb_spec (hdr_opcode dh) 0); destruct (N.eqb_spec (hdr_opcode dh) 4); cbn [negb orb];
      try discriminate;
      destruct (N.eqb_spec (h_qd dh) 1); destruct (N.leb_spec (h_an dh) 1);
      destruct (N.leb_spec (h_ns dh) 1); destruct (N.leb_spec (h_ar dh) 2); cbn; try discriminate;
      intros _; repeat split; auto.
  - intros [-> [Ho [Hq [Ha [Hn Hr]]]]].
    assert (Hop : negb ((hdr_opcode dh =? 0) || (hdr_opcode dh =? 4)) = false).
    { destruct Ho as [->| ->]; reflexivity. }
    rewrite Hop.
    destruct (N.eqb_spec (h_qd dh) 1); destruct (N.leb_spec (h_an dh) 1);
      destruct (N.leb_spec (h_ns dh) 1); destruct (N.leb_spec (h_ar dh) 2); cbn; try reflexivity; lia.
Qed.

(* ------------------------------------------------------------------ *)
(* default policy through serve                                         *)
(* ------------------------------------------------------------------ *)
Section DefaultPolicy.
  Context {R : Type}.
  Variable unpack : bytes -> unpack_result R.

  (* QR set: never answered, never handled, not reported *)
  Lemma default_qr_silent tr m dh :
    unpack_hdr m = Ok dh -> hdr_qr dh = true ->
    serve accept_default unpack tr m = [].
  Proof.
    intros Hh Hq.
    assert (Hd : serve_dns accept_default unpack m = []).
    { unfold serve_dns. rewrite Hh, (accept_default_qr dh Hq). reflexivity. }
    destruct tr; cbn [serve]; [|exact Hd].
    destruct (Nat.ltb_spec (length m) 12) as [Hl|Hl]; [|exact Hd].
    destruct (unpack_hdr_short m Hl) as [c Hc]. congruence.
  Qed.

  Lemma default_notimp tr m dh :
    unpack_hdr m = Ok dh -> hdr_qr dh = false -> hdr_opcode dh <> 0 -> hdr_opcode dh <> 4 ->
    serve accept_default unpack tr m = [EvWrite (reject_reply dh true [])].
  Proof.
    intros Hh Hq H0 H4.
    assert (Hd : serve_dns accept_default unpack m = [EvWrite (reject_reply dh true [])]).
    { unfold serve_dns. rewrite Hh, (accept_default_notimp dh Hq H0 H4). reflexivity. }
    destruct tr; cbn [serve]; [|exact Hd].
    destruct (Nat.ltb_spec (length m) 12) as [Hl|Hl]; [|exact Hd].
    destruct (unpack_hdr_short m Hl) as [c Hc]. congruence.
  Qed.

  Lemma default_formerr_counts tr m dh :
    unpack_hdr m = Ok dh -> hdr_qr dh = false -> (hdr_opcode dh = 0 \/ hdr_opcode dh = 4) ->
    (h_qd dh <> 1 \/ 1 < h_an dh \/ 1 < h_ns dh \/ 2 < h_ar dh) ->
    serve accept_default unpack tr m = [EvWrite (reject_reply dh false [])].
  Proof.
    intros Hh Hq Ho Hc.
    assert (Hd : serve_dns accept_default unpack m = [EvWrite (reject_reply dh false [])]).
    { unfold serve_dns. rewrite Hh, (accept_default_formerr dh Hq Ho Hc). reflexivity. }
    destruct tr; cbn [serve]; [|exact Hd].
    destruct (Nat.ltb_spec (length m) 12) as [Hl|Hl]; [|exact Hd].
    destruct (unpack_hdr_short m Hl) as [c Hc']. congruence.
  Qed.

  Lemma default_formerr_malformed tr m dh qs :
    unpack_hdr m = Ok dh -> accept_default dh = MsgAccept -> unpack m = UErr qs ->
    serve accept_default unpack tr m = [EvInvalid "unpack" m; EvWrite (reject_reply dh false qs)].
  Proof.
    intros Hh Ha Hu.
    assert (Hd : serve_dns accept_default unpack m =
                 [EvInvalid "unpack" m; EvWrite (reject_reply dh false qs)]).
    { unfold serve_dns. rewrite Hh, Ha, Hu. reflexivity. }
    destruct tr; cbn [serve]; [|exact Hd].
    destruct (Nat.ltb_spec (length m) 12) as [Hl|Hl]; [|exact Hd].
    destruct (unpack_hdr_short m Hl) as [c Hc']. congruence.
  Qed.
End DefaultPolicy.

(* ------------------------------------------------------------------ *)
(* skeletons                                                            *)
(* ------------------------------------------------------------------ *)
Section Skeletons.
  Context {Q RR : Type}.
  Implicit Types dns request : smsg Q RR.

  Lemma set_reply_id_qr dns request :
    m_id (s_hdr (set_reply dns request)) = m_id (s_hdr request) /\
    m_response (s_hdr (set_reply dns request)) = true.
  Proof. split; reflexivity. Qed.

  Lemma set_rcode_id_qr dns request rc :
    m_id (s_hdr (set_rcode dns request rc)) = m_id (s_hdr request) /\
    m_response (s_hdr (set_rcode dns request rc)) = true /\
    m_rcode (s_hdr (set_rcode dns request rc)) = rc.
  Proof. repeat split; reflexivity. Qed.

  Lemma set_rcode_format_error_id_qr dns request :
    m_id (s_hdr (set_rcode_format_error dns request)) = m_id (s_hdr request) /\
    m_response (s_hdr (set_rcode_format_error dns request)) = true /\
    m_rcode (s_hdr (set_rcode_format_error dns request)) = 1.
  Proof. repeat split; reflexivity. Qed.

  Lemma handle_refused_spec request :
    let rep := handle_refused request in
    m_id (s_hdr rep) = m_id (s_hdr request) /\
    m_response (s_hdr rep) = true /\
    m_rcode (s_hdr rep) = 5 /\
    m_opcode (s_hdr rep) = m_opcode (s_hdr request) /\
    (m_opcode (s_hdr request) = 0 ->
       m_rd (s_hdr rep) = m_rd (s_hdr request) /\ m_cd (s_hdr rep) = m_cd (s_hdr request)) /\
    (forall q0 rest, s_question request = q0 :: rest -> s_question rep = [q0]) /\
    s_answer rep = [] /\ s_ns rep = [] /\ s_extra rep = [].
  Proof.
    cbn. repeat split; try reflexivity.
    - rewrite H. reflexivity.
    - rewrite H. reflexivity.
    - intros q0 rest ->. reflexivity.
  Qed.

  (* the packed header word of any skeleton reply has QR set *)
  Lemma skeleton_bits_qr dns request :
    bit (pack_bits (s_hdr (set_reply dns request))) 15 = true.
  Proof. rewrite pack_bits_qr. reflexivity. Qed.
End Skeletons.

(* ------------------------------------------------------------------ *)
(* non-vacuity examples                                                 *)
(* ------------------------------------------------------------------ *)

(* id 0x1234, RD, one question a. A IN *)
Definition ex_query : bytes := [18; 52; 1; 0; 0; 1; 0; 0; 0; 0; 0; 0; 1; 97; 0; 0; 1; 0; 1].
Definition ex_unpack (m : bytes) : unpack_result nat :=
  if (length m =? 19)%nat then UOk 7%nat else UErr [].

Example ex_handler_once :
  handler_calls (serve accept_default ex_unpack Udp ex_query) = [7%nat].
Proof. reflexivity. Qed.

Example ex_exactly_once_premises :
  exists dh, unpack_hdr ex_query = Ok dh /\ accept_default dh = MsgAccept /\ ex_unpack ex_query = UOk 7%nat.
Proof. eexists. repeat split. Qed.

(* opcode 5 (UPDATE): NOTIMP reply 1234 a9 04 ... (QR, opcode 5, RD kept, rcode 4) *)
Definition ex_update : bytes := [18; 52; 41; 0; 0; 1; 0; 0; 0; 0; 0; 0; 1; 97; 0; 0; 1; 0; 1].
Example ex_notimp :
  serve accept_default ex_unpack Tcp ex_update = [EvWrite [18; 52; 169; 4; 0; 0; 0; 0; 0; 0; 0; 0]].
Proof. reflexivity. Qed.

(* two questions: FORMERR *)
Definition ex_twoq : bytes := [18; 52; 1; 0; 0; 2; 0; 0; 0; 0; 0; 0; 1; 97; 0; 0; 1; 0; 1].
Example ex_formerr :
  serve accept_default ex_unpack Udp ex_twoq = [EvWrite [18; 52; 129; 1; 0; 0; 0; 0; 0; 0; 0; 0]].
Proof. reflexivity. Qed.

(* QR set: silence *)
Definition ex_response : bytes := [18; 52; 129; 0; 0; 1; 0; 0; 0; 0; 0; 0; 1; 97; 0; 0; 1; 0; 1].
Example ex_qr_silent : serve accept_default ex_unpack Udp ex_response = [].
Proof. reflexivity. Qed.

(* accepted by the policy, does not decode: reported and answered FORMERR *)
Definition ex_trunc : bytes := [18; 52; 1; 0; 0; 1; 0; 0; 0; 0; 0; 0; 1; 97; 0; 0; 1; 0].
Example ex_malformed :
  serve accept_default ex_unpack Udp ex_trunc =
  [EvInvalid "unpack" ex_trunc; EvWrite [18; 52; 129; 1; 0; 0; 0; 0; 0; 0; 0; 0]].
Proof. reflexivity. Qed.

(* shorter than a header: reported, nothing written *)
Example ex_short_udp : serve accept_default ex_unpack Udp [1; 2; 3] = [EvInvalid "short-read" [1; 2; 3]].
Proof. reflexivity. Qed.
Example ex_short_tcp : serve accept_default ex_unpack Tcp [1; 2; 3] = [EvInvalid "hdr-bits" [1; 2; 3]].
Proof. reflexivity. Qed.

Example ex_refused :
  let req : smsg nat unit :=
      mkSmsg (mkMhdr 4660 false 0 false false true false false false true 0) [5%nat; 6%nat] [] [] [] in
  handle_refused req =
  mkSmsg (mkMhdr 4660 true 0 false false true false false false true 5) [5%nat] [] [] [].
Proof. reflexivity. Qed.

(* ---------- stream framing ---------- *)
Lemma read_frames_framed ms : forall t limit,
  Forall (fun m => lenN m < 65536) ms -> incomplete_frame t ->
  read_frames limit (flat_map frame ms ++ t) = firstn limit ms.
Proof.
  induction ms as [|m r IH]; intros t limit Hl Ht.
  - destruct limit as [|k]; [reflexivity|]. cbn [flat_map app firstn].
    destruct t as [|hi [|lo t']]; cbn [read_frames]; try reflexivity.
    cbn in Ht. unfold lenN in Ht.
    destruct (Nat.ltb (length t') (N.to_nat (hi * 256 + lo))) eqn:E; [reflexivity|].
    apply Nat.ltb_ge in E. lia.
  - inversion Hl as [|? ? Hm Hr]; subst.
    destruct limit as [|k]; [reflexivity|].
    cbn [flat_map firstn]. unfold frame at 1, u16. cbn [app read_frames].
    rewrite <- app_assoc.
    assert (En : N.to_nat ((lenN m / 256) mod 256 * 256 + lenN m mod 256) = length m).
    { unfold lenN in *. lia. }
    rewrite En.
    assert (El : Nat.ltb (length (m ++ flat_map frame r ++ t)) (length m) = false).
    { apply Nat.ltb_ge. rewrite app_length. lia. }
    rewrite El.
    rewrite firstn_app, Nat.sub_diag, firstn_all. cbn [firstn]. rewrite app_nil_r.
    rewrite skipn_app, Nat.sub_diag, skipn_all. cbn [skipn app].
    f_equal. apply IH; assumption.
Qed.

Lemma serve_stream_framed {R} (accept : header -> action) (unpack : bytes -> unpack_result R) ms t limit :
  Forall (fun m => lenN m < 65536) ms -> incomplete_frame t ->
  serve_stream accept unpack limit (flat_map frame ms ++ t) =
  flat_map (serve accept unpack Tcp) (firstn limit ms).
Proof. intros Hl Ht. unfold serve_stream. rewrite read_frames_framed by assumption. reflexivity. Qed.

(* every message of the stream reaches the handler exactly as it would alone *)
Lemma serve_stream_handler_calls {R} (accept : header -> action) (unpack : bytes -> unpack_result R) ms t limit :
  Forall (fun m => lenN m < 65536) ms -> incomplete_frame t -> (length ms <= limit)%nat ->
  handler_calls (serve_stream accept unpack limit (flat_map frame ms ++ t)) =
  flat_map (fun m => handler_calls (serve accept unpack Tcp m)) ms.
Proof.
  intros Hl Ht Hn. rewrite serve_stream_framed by assumption.
  rewrite firstn_all2 by assumption.
  unfold handler_calls. clear. induction ms as [|m r IH]; [reflexivity|].
  cbn [flat_map]. rewrite flat_map_app. f_equal. exact IH.
Qed.

(* two messages, the second rejected, then half a length prefix *)
Example ex_stream :
  serve_stream accept_default ex_unpack 128 (frame ex_response ++ frame ex_twoq ++ [0]) =
  [EvWrite [18; 52; 129; 1; 0; 0; 0; 0; 0; 0; 0; 0]].
Proof. reflexivity. Qed.
Example ex_stream_premises :
  Forall (fun m => lenN m < 65536) [ex_response; ex_twoq] /\ incomplete_frame [0] /\ incomplete_frame [0; 9; 1; 2].
Proof. repeat split; try (repeat constructor; reflexivity). Qed.
