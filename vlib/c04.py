from .core import Check


class C04(Check):
    prop = "C04"
    props_rel = "Props/C04"
    corr_module = "Corr.C04"
    corr_rel = "Corr/C04"
    gen_rels = ["Gen/Layouts", "Gen/Registry", "Gen/Consts", "Gen/Structs", "Gen/Lens"]
    shard_size = 60
    model_desc = ("Model/NameWire.v (packDomainName with the compression map: lookup of presentation suffixes, insertion "
                  "below offset 16384, pointer emission, 255-octet accounting; UnpackDomainName following pointers), "
                  "Model/Msg.v (Pack with/without compression), per-field compress flags from Gen/Layouts.v")
    rule = ("random messages of all types with shared suffixes, names differing only in case or escaping, several "
            "questions, one record of every type whose RDATA names repeat the question name, messages crossing offset "
            "16384, sequences of packDomainName calls sharing one map (also started near 16384); direct oracles with an "
            "independent wire reader: compressed and uncompressed packings decode to the same message, compressed is "
            "never longer, every pointer targets an earlier label start below 16384, owner/question names expand "
            "octet-for-octet, RDATA of types outside the RFC 1035 set is byte-identical to the uncompressed RDATA; "
            "model cases: compressed message octets, name-sequence octets and final map contents.")
    trusted = ["hex/base64/base32 text codecs of Go's encoding/* are outside the model (fields held as the octets they denote)",
               "EDNS0 option and SVCB parameter values are (code, packed value, reported length) triples at this level"]

    partial = ["transparency at the Msg.Unpack level is proved modulo Hdr.Rdlength (it necessarily differs between the two packings) and "
               "for canonical field values (C01's rr_ok / fields_canon), as agreement of both decoded messages with the packed "
               "message field by field rather than as literal equality of the two decoded values"]

    def nontrivial(self, c):
        return len(c["args"][0]) > 80


CHECK = C04()
