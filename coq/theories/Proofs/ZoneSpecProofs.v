(* Proofs/ZoneSpecProofs.v — the parser model refines the denotation of
   Model/ZoneSpec.v (C06). *)
From Dns Require Import Base.ListX Model.ZoneSpec Proofs.LexerProofs Proofs.ZoneProofs.
From Coq Require Import Lia ZifyN ZifyNat ZifyBool.
Open Scope N_scope.

(* ---------- names ---------- *)
(* a name as it may be written: @, or a valid domain name *)
Definition wf_name (n : bytes) : Prop :=
  n = [64] \/ (is_domain_name n = true /\ n <> [10]).

Lemma bytes_eqb_refl a : bytes_eqb a a = true.
Proof. induction a as [|x a IH]; cbn; [reflexivity|]. now rewrite N.eqb_refl, IH. Qed.
Lemma bytes_eqb_eq a : forall b, bytes_eqb a b = true -> a = b.
Proof.
  induction a as [|x a IH]; intros [|y b]; cbn; try discriminate; [reflexivity|].
  intro H. apply andb_true_iff in H. destruct H as [H1 H2].
  apply N.eqb_eq in H1. apply IH in H2. congruence.
Qed.
Lemma bytes_eqb_neq a b : a <> b -> bytes_eqb a b = false.
Proof.
  intro H. destruct (bytes_eqb a b) eqn:E; [|reflexivity]. apply bytes_eqb_eq in E. contradiction.
Qed.

(* relative names are completed with the origin, @ is the origin, absolute
   names are kept *)
Lemma to_absolute_complete origin n :
  origin <> [] -> wf_name n -> to_absolute_name n origin = Some (complete origin n).
Proof.
  intros Ho [->|[Hd Hn]]; unfold to_absolute_name, complete.
  - cbn. destruct origin; [contradiction|reflexivity].
  - destruct (bytes_eqb n [64]) eqn:E.
    + destruct origin; [contradiction|reflexivity].
    + rewrite (bytes_eqb_neq n [10] Hn), Hd. cbn [negb].
      destruct (is_fqdn n); [reflexivity|].
      destruct origin as [|c o]; [contradiction|].
      unfold append_origin. destruct (bytes_eqb (c :: o) [46]) eqn:E2; [|reflexivity].
      apply bytes_eqb_eq in E2. rewrite E2. reflexivity.
Qed.

(* ---------- TTL texts ---------- *)
(* no intermediate value of the (64-bit) computation reaches 2^64 *)
Fixpoint ttl_nowrap (s : bytes) (acc cur : N) : bool :=
  match s with
  | [] => acc + cur <? two64
  | c :: r =>
    if is_digit c then (cur * 10 + (c - 48) <? two64) && ttl_nowrap r acc (cur * 10 + (c - 48))
    else match unit_secs c with
         | Some u => (acc + cur * u <? two64) && ttl_nowrap r (acc + cur * u) 0
         | None => true
         end
  end.

Lemma ttl_go_value s : forall acc cur,
  ttl_nowrap s acc cur = true ->
  match ttl_go s acc cur, ttl_value s acc cur with
  | Some (a, c), Some v => a + c = v /\ v < two64
  | None, None => True
  | _, _ => False
  end.
Proof.
  induction s as [|c r IH]; intros acc cur; cbn [ttl_nowrap ttl_go ttl_value].
  - intro H. apply N.ltb_lt in H. split; [reflexivity|exact H].
  - unfold unit_secs.
    destruct (is_digit c) eqn:D.
    + assert (Hc : 48 <= c <= 57) by (unfold is_digit in D; lia).
      replace ((c =? 115) || (c =? 83)) with false by lia.
      replace ((c =? 109) || (c =? 77)) with false by lia.
      replace ((c =? 104) || (c =? 72)) with false by lia.
      replace ((c =? 100) || (c =? 68)) with false by lia.
      replace ((c =? 119) || (c =? 87)) with false by lia.
      intro H. apply andb_true_iff in H. destruct H as [H1 H2]. apply N.ltb_lt in H1.
      rewrite N.mod_small by exact H1. now apply IH.
    + destruct ((c =? 115) || (c =? 83)).
      { intro H. apply andb_true_iff in H. destruct H as [H1 H2]. apply N.ltb_lt in H1.
        rewrite N.mul_1_r in *. rewrite N.mod_small by exact H1. now apply IH. }
      destruct ((c =? 109) || (c =? 77)).
      { intro H. apply andb_true_iff in H. destruct H as [H1 H2]. apply N.ltb_lt in H1.
        rewrite N.mod_small by exact H1. now apply IH. }
      destruct ((c =? 104) || (c =? 72)).
      { intro H. apply andb_true_iff in H. destruct H as [H1 H2]. apply N.ltb_lt in H1.
        rewrite N.mod_small by exact H1. now apply IH. }
      destruct ((c =? 100) || (c =? 68)).
      { intro H. apply andb_true_iff in H. destruct H as [H1 H2]. apply N.ltb_lt in H1.
        rewrite N.mod_small by exact H1. now apply IH. }
      destruct ((c =? 119) || (c =? 87)).
      { intro H. apply andb_true_iff in H. destruct H as [H1 H2]. apply N.ltb_lt in H1.
        rewrite N.mod_small by exact H1. now apply IH. }
      intros _. exact I.
Qed.

(* TTL unit suffixes: the parser's value is the weighted sum the text denotes *)
Lemma string_to_ttl_spec s :
  ttl_nowrap s 0 0 = true ->
  string_to_ttl s = match ttl_of_text s with
                    | Some v => if 4294967295 <? v then None else Some v
                    | None => None
                    end.
Proof.
  intro H. unfold string_to_ttl, ttl_of_text.
  pose proof (ttl_go_value s 0 0 H) as G.
  destruct (ttl_go s 0 0) as [[a c]|]; destruct (ttl_value s 0 0) as [v|]; try contradiction; [|reflexivity].
  destruct G as [<- G2]. rewrite N.mod_small by exact G2. reflexivity.
Qed.

Example ex_ttl_units :
  ttl_nowrap (B "1w2d3h4m5s") 0 0 = true /\ string_to_ttl (B "1w2d3h4m5s") = Some 788645 /\
  string_to_ttl (B "1W2D3H4M5") = Some 788645.
Proof. vm_compute. repeat split. Qed.

(* ---------- the parser refines the denotation (token level) ---------- *)
Lemma zloop_cons cf p st l r : t_err l = false ->
  zloop cf p st 0 (l :: r) =
  match zstep cf p st l r with ZGo st' p' k => zloop cf p' st' k r | ZRet x => x end.
Proof. intro H. cbn [zloop]. now rewrite H. Qed.
Lemma zloop_skip cf p st k l r : zloop cf p st (S k) (l :: r) = zloop cf p st k r.
Proof. reflexivity. Qed.

Definition defttl_of (st : dstate) : option ttlst :=
  match s_dollar st with
  | Some v => Some (mkTtl v true)
  | None => match s_stated st with
            | Some v => Some (mkTtl v false)
            | None => match s_default st with Some v => Some (mkTtl v false) | None => None end
            end
  end.
Definition pinv (p : pst) (st : dstate) : Prop :=
  p_origin p = s_origin st /\ p_defttl p = defttl_of st /\
  (forall o, s_owner st = Some o -> h_name (p_h p) = o).

(* take a [realizes] hypothesis apart *)
Ltac tok_facts :=
  repeat match goal with
         | H : realizes ?t ?k |- _ =>
           let Hv := fresh "Hv" in let He := fresh "He" in let Hn := fresh "Hn" in
           let Ht := fresh "Ht" in let Hc := fresh "Hc" in
           destruct H as (Hv & He & Hn & Ht & Hc); cbn in Hv, Ht, Hc;
           try specialize (Ht eq_refl); try specialize (Hc eq_refl)
         end.

(* one turn of the loop on a token whose kind is known *)
Ltac zs :=
  match goal with
  | |- context [zloop ?cf ?p ?st 0 (?t :: ?r)] => rewrite (zloop_cons cf p st t r) by assumption
  end;
  unfold zstep, zerr, ttl_then, is_val;
  repeat match goal with H : t_val ?t = _ |- context [t_val ?t] => rewrite H end;
  repeat match goal with H : t_text ?t = _ |- context [t_text ?t] => rewrite H end;
  repeat match goal with H : t_torc ?t = _ |- context [t_torc ?t] => rewrite H end;
  cbn [tval_eqb tval_code N.eqb Pos.eqb negb orb andb].

Definition wf_ttl_text (t : bytes) : Prop :=
  ttl_nowrap t 0 0 = true /\ exists v, ttl_of_text t = Some v /\ v <= 4294967295.
Lemma wf_ttl_string t : wf_ttl_text t -> string_to_ttl t = ttl_of_text t.
Proof.
  intros [H [v [E L]]]. rewrite string_to_ttl_spec by exact H. rewrite E.
  destruct (4294967295 <? v) eqn:C; [lia|reflexivity].
Qed.

Lemma slurp_count_nl t rest : t_val t = ZNewline -> slurp_count (t :: rest) = inr 1%nat.
Proof.
  intro H. unfold slurp_count, slurp_remainder. cbn [next_tok]. unfold is_val. rewrite H.
  cbn [tval_eqb tval_code N.eqb Pos.eqb orb]. cbn [length]. f_equal. lia.
Qed.

Lemma origin_entry cf p st n tD tB tN tNl rest :
  pinv p st -> s_origin st <> [] -> wf_name n ->
  realizes tD (mkSk ZDirOrigin [] 0) -> realizes tB sk_blank -> realizes tN (sk_str n) -> realizes tNl sk_nl ->
  exists p', zloop cf p XOwnerDir 0 (tD :: tB :: tN :: tNl :: rest) = zloop cf p' XOwnerDir 0 rest /\
             pinv p' (mkDst (complete (s_origin st) n) (s_owner st) (s_dollar st) (s_stated st) (s_default st)).
Proof.
  intros [I1 [I2 I3]] Ho Hn R1 R2 R3 R4. tok_facts.
  eexists. split.
  - zs. zs. zs.
    rewrite (slurp_count_nl tNl rest) by assumption.
    cbn [p_origin set_h]. rewrite I1, (to_absolute_complete _ _ Ho Hn).
    rewrite zloop_skip. reflexivity.
  - repeat split; cbn; auto.
    destruct (p_defttl p); cbn; auto.
Qed.

Lemma ttl_entry cf p st t v tD tB tN tNl rest :
  pinv p st -> wf_ttl_text t -> ttl_of_text t = Some v ->
  realizes tD (mkSk ZDirTTL [] 0) -> realizes tB sk_blank -> realizes tN (sk_str t) -> realizes tNl sk_nl ->
  exists p', zloop cf p XOwnerDir 0 (tD :: tB :: tN :: tNl :: rest) = zloop cf p' XOwnerDir 0 rest /\
             pinv p' (mkDst (s_origin st) (s_owner st) (Some v) (s_stated st) (s_default st)).
Proof.
  intros [I1 [I2 I3]] Hw Hv R1 R2 R3 R4. tok_facts.
  eexists. split.
  - zs. zs. zs.
    rewrite (slurp_count_nl tNl rest) by assumption.
    rewrite (wf_ttl_string _ Hw), Hv.
    rewrite zloop_skip. reflexivity.
  - repeat split; cbn; auto.
    destruct (p_defttl p); cbn; auto.
Qed.

(* the parser state when the RDATA is reached *)
Definition hdr_state (p : pst) (owner : bytes) (ttl : option N) (cls : option N) (ty : N) : pst :=
  let d := p_defttl p in
  let base := match d with Some d0 => ttl_v d0 | None => h_ttl (p_h p) end in
  let d' := match ttl with
            | Some v => match d with
                        | Some d0 => if ttl_dir d0 then Some d0 else Some (mkTtl v false)
                        | None => Some (mkTtl v false)
                        end
            | None => d
            end in
  mkPst (p_origin p) d'
        (mkHdr owner ty (match cls with Some c => c | None => 1 end)
               (match ttl with Some v => v | None => base end)).

Ltac inv_f2 :=
  repeat match goal with
         | H : Forall2 realizes _ (_ :: _) |- _ => inversion H; subst; clear H
         | H : Forall2 realizes _ [] |- _ => inversion H; subst; clear H
         end.

Definition sk_hdr (r : recd) : list stok :=
  let own := match d_owner r with Some n => [mkSk ZOwner n 0] | None => [] end in
  let ttl := match d_ttl r with Some t => [sk_blank; sk_str t] | None => [] end in
  let cls := match d_class r with Some c => [sk_blank; mkSk ZClass [] c] | None => [] end in
  own ++ (if d_ttl_first r then ttl ++ cls else cls ++ ttl) ++ [sk_blank; mkSk ZRrtpe [] (d_type r)].

Lemma sk_rec_split r : sk_rec r = sk_hdr r ++ sk_blank :: sk_rd (d_rd r) ++ [sk_nl].
Proof.
  unfold sk_rec, sk_hdr. cbv zeta. rewrite <- !app_assoc. cbn [app]. reflexivity.
Qed.

Lemma header_walk cf p r ts tB rest owner :
  p_origin p <> [] ->
  match d_owner r with
  | Some n => wf_name n /\ owner = complete (p_origin p) n
  | None => owner = h_name (p_h p)
  end ->
  match d_ttl r with Some t => wf_ttl_text t | None => p_defttl p <> None end ->
  Forall2 realizes ts (sk_hdr r) -> t_err tB = false ->
  zloop cf p XOwnerDir 0 (ts ++ tB :: rest) =
  rdata_step (hdr_state p owner (match d_ttl r with Some t => ttl_of_text t | None => None end)
                        (d_class r) (d_type r)) tB rest.
Proof.
  intros Ho Hown Httl HF HeB.
  destruct r as [ow tt cl tf ty rd]. unfold sk_hdr in HF. cbn [d_owner d_ttl d_class d_ttl_first d_type] in *.
  destruct p as [po pd ph]. cbn [p_origin p_defttl p_h] in *.
  destruct ow as [n|]; destruct tt as [t|]; destruct cl as [c|]; destruct tf; cbn in HF; inv_f2; tok_facts;
    cbn [app];
    try (pose proof (wf_ttl_string _ Httl) as Hs; destruct Httl as [_ [v [Ev _]]]; rewrite Ev in *);
    repeat (zs; cbn [p_origin p_defttl p_h set_h];
            try rewrite (to_absolute_complete _ _ Ho (proj1 Hown));
            try rewrite Hs; cbv beta iota).
  all: try (destruct pd as [[dv dd]|]; [|try contradiction]).
  all: try destruct dd.
  all: repeat (zs; cbn [p_origin p_defttl p_h set_h]; cbv beta iota).
  all: cbn [stated_ttl p_origin p_defttl p_h set_h h_set_ttl h_set_class h_set_name h_set_type hdr_state
            ttl_v ttl_dir h_name h_type h_class h_ttl].
  all: try (destruct Hown as [_ ->]).
  all: try subst owner.
  all: try reflexivity.
Qed.

(* ---------- RDATA ---------- *)
Lemma family_known t : family_of t <> FOther -> known_type t = true.
Proof.
  unfold family_of.
  repeat match goal with
         | |- context [if ?a =? ?b then _ else _] =>
           destruct (N.eqb_spec a b) as [->|]; [intros _; vm_compute; reflexivity|]
         end.
  intro H. contradiction H. reflexivity.
Qed.

Ltac rds :=
  cbn [next_tok peek_tok fst snd]; unfold is_val;
  repeat match goal with H : t_val ?t = _ |- context [t_val ?t] => rewrite H end;
  repeat match goal with H : t_text ?t = _ |- context [t_text ?t] => rewrite H end;
  repeat match goal with H : t_err ?t = _ |- context [t_err ?t] => rewrite H end;
  cbn [tval_eqb tval_code N.eqb Pos.eqb negb orb andb next_tok peek_tok fst snd].

Lemma slurp_nl tNl rest : t_val tNl = ZNewline -> slurp_remainder (tNl :: rest) = (None, rest).
Proof. intro H. unfold slurp_remainder. cbn [next_tok]. rds. reflexivity. Qed.

Definition not_generic (s : bytes) : Prop := s <> [] /\ s <> [92; 35].
Lemma not_generic_eqb s : not_generic s -> bytes_eqb s [92; 35] = false.
Proof. intros [_ H]. now apply bytes_eqb_neq. Qed.

Lemma rd_name p tB tN tNl rest n m :
  family_of (h_type (p_h p)) = FName m -> p_origin p <> [] -> wf_name n -> not_generic n ->
  t_val tB = ZBlank -> realizes tN (sk_str n) -> realizes tNl sk_nl ->
  rdata_step p tB (tN :: tNl :: rest) = NRec (mkRR (p_h p) (RName (complete (p_origin p) n)) 0) p rest.
Proof.
  intros F Ho Hn Hg HB R1 R2. tok_facts.
  unfold rdata_step. cbv zeta. rds.
  destruct n as [|c n']; [destruct Hg; contradiction|].
  rds. rewrite (family_known _ ltac:(rewrite F; discriminate)).
  rewrite (not_generic_eqb _ Hg). cbn [negb orb andb]. rewrite F.
  unfold parse_name_rd. rds. rewrite (to_absolute_complete _ _ Ho Hn). rds.
  unfold after_slurp. rewrite (slurp_nl tNl rest) by assumption. reflexivity.
Qed.

Lemma rd_addr p tB tN tNl rest text a :
  (h_type (p_h p) = 1 /\ parse_a text = Some a) \/ (h_type (p_h p) = 28 /\ parse_aaaa text = Some a) ->
  not_generic text ->
  t_val tB = ZBlank -> realizes tN (sk_str text) -> realizes tNl sk_nl ->
  rdata_step p tB (tN :: tNl :: rest) = NRec (mkRR (p_h p) (RAddr a) 0) p rest.
Proof.
  intros Ht Hg HB R1 R2. tok_facts.
  unfold rdata_step. cbv zeta. rds.
  destruct text as [|c n'] eqn:Etext; [destruct Hg; contradiction|]. rewrite <- Etext in *.
  rds.
  destruct Ht as [[T P]|[T P]]; rewrite T.
  - change (known_type 1) with true. rewrite (not_generic_eqb _ Hg). cbn [negb orb andb].
    change (family_of 1) with FA. cbv iota. unfold parse_a_rd. rds. rewrite P. rds.
    unfold after_slurp. rewrite (slurp_nl tNl rest) by assumption. reflexivity.
  - change (known_type 28) with true. rewrite (not_generic_eqb _ Hg). cbn [negb orb andb].
    change (family_of 28) with FAAAA. cbv iota. unfold parse_aaaa_rd. rds. rewrite P. rds.
    unfold after_slurp. rewrite (slurp_nl tNl rest) by assumption. reflexivity.
Qed.

(* a written character-string: empty, or at most 255 units with no dangling backslash *)
Definition txt_ok (s : bytes) : Prop := s = [] \/ split255 (length s) s = Some [s].

Ltac tg := cbn [txt_go app]; rds.

Lemma txt_go_nl m tNl rest acc e :
  t_val tNl = ZNewline -> txt_go m tNl rest acc false e = RdOk (RTxt acc) 0 rest.
Proof. intro H. destruct rest; cbn [txt_go]; rds; reflexivity. Qed.

Lemma sk_txt_cons s l : exists ks, sk_txt (s :: l) = sk_quote :: ks.
Proof. destruct l; cbn [sk_txt]; unfold sk_qstr; cbn [app]; eauto. Qed.
Lemma f2_sk_txt_nonempty toks s l : Forall2 realizes toks (sk_txt (s :: l)) -> exists f m, toks = f :: m.
Proof.
  destruct (sk_txt_cons s l) as [ks ->]. intro H. inversion H; subst. eauto.
Qed.

Definition keep (P : Prop) : Prop := P.

Lemma txt_go_strings m : forall l toks tNl rest acc e first more,
  l <> [] -> Forall txt_ok l -> Forall2 realizes toks (sk_txt l) -> realizes tNl sk_nl ->
  toks = first :: more ->
  txt_go m first (more ++ tNl :: rest) acc false e = RdOk (RTxt (acc ++ l)) 0 rest.
Proof.
  induction l as [|s l0 IH]; intros toks tNl rest acc e first more Hne Hok HF RN Htoks; [contradiction|].
  assert (RN0 : keep (realizes tNl sk_nl)) by exact RN.
  inversion Hok as [|? ? Hs Hok0]; subst.
  destruct l0 as [|s2 l'].
  - (* last string *)
    cbn [sk_txt sk_qstr] in HF.
    destruct s as [|c s'].
    + unfold sk_qstr in HF; cbn [app] in HF. inv_f2. tok_facts.
      tg. tg. rewrite andb_false_r. cbn [andb]. rewrite txt_go_nl by assumption. reflexivity.
    + unfold sk_qstr in HF; cbn [app] in HF. inv_f2. tok_facts.
      destruct Hs as [Hs|Hs]; [discriminate|].
      tg. tg. rewrite Hs. tg. rewrite andb_false_r. cbn [andb]. rewrite txt_go_nl by assumption. reflexivity.
  - (* a string, a blank, and more *)
    assert (Hne' : s2 :: l' <> []) by discriminate.
    cbn [sk_txt] in HF. fold (sk_txt (s2 :: l')) in HF.
    destruct s as [|c s'].
    + unfold sk_qstr in HF; cbn [app] in HF.
      inversion HF as [|q1 ? t1 ? R1 HF1]; subst. inversion HF1 as [|q2 ? t2 ? R2 HF2]; subst.
      inversion HF2 as [|b ? t3 ? R3 HF3]; subst. clear HF HF1 HF2.
      destruct (f2_sk_txt_nonempty _ _ _ HF3) as [f' [m' ->]].
      tok_facts.
      tg. tg. rewrite andb_false_r. cbn [andb]. tg.
      erewrite (IH (f' :: m') tNl rest _ true f' m' Hne' Hok0 HF3 RN0 eq_refl).
      rewrite <- app_assoc. reflexivity.
    + unfold sk_qstr in HF; cbn [app] in HF.
      inversion HF as [|q1 ? t1 ? R1 HF1]; subst. inversion HF1 as [|st ? t2 ? R2 HF2]; subst.
      inversion HF2 as [|q2 ? t3 ? R3 HF3]; subst. inversion HF3 as [|b ? t4 ? R4 HF4]; subst.
      clear HF HF1 HF2 HF3.
      destruct (f2_sk_txt_nonempty _ _ _ HF4) as [f' [m' ->]].
      tok_facts.
      destruct Hs as [Hs|Hs]; [discriminate|].
      tg. tg. rewrite Hs. tg. rewrite andb_false_r. cbn [andb]. tg.
      erewrite (IH (f' :: m') tNl rest _ true f' m' Hne' Hok0 HF4 RN0 eq_refl).
      rewrite <- app_assoc. reflexivity.
Qed.

Lemma rd_txt p tB toks tNl rest l m :
  family_of (h_type (p_h p)) = FTxt m -> l <> [] -> Forall txt_ok l ->
  t_val tB = ZBlank -> Forall2 realizes toks (sk_txt l) -> realizes tNl sk_nl ->
  rdata_step p tB (toks ++ tNl :: rest) = NRec (mkRR (p_h p) (RTxt l) 0) p rest.
Proof.
  intros F Hne Hok HB HF RN.
  destruct l as [|s l0]; [contradiction|].
  destruct (f2_sk_txt_nonempty _ _ _ HF) as [f [mo ->]].
  pose proof (txt_go_strings (B m) (s :: l0) (f :: mo) tNl rest [] false f mo Hne Hok HF RN eq_refl) as G.
  destruct (sk_txt_cons s l0) as [ks Eks]. rewrite Eks in HF.
  inversion HF as [|? ? ? ? Rf _]; subst. clear HF.
  destruct Rf as (Hv & He & Hn & Ht & Hc). cbn in Hv, Ht. specialize (Ht eq_refl).
  unfold rdata_step. cbv zeta. cbn [app]. rds. cbv iota.
  rewrite (family_known _ ltac:(rewrite F; discriminate)).
  cbn [bytes_eqb N.eqb Pos.eqb andb negb orb]. rewrite F.
  unfold parse_txt_rd. rds. rewrite G. reflexivity.
Qed.

(* \# <length> <hex words> *)
Lemma ets_words m : forall ws toks tNl rest acc first more,
  ws <> [] -> Forall (fun w => w <> []) ws -> Forall2 realizes toks (sk_words ws) -> t_val tNl = ZNewline ->
  t_err tNl = false -> toks = first :: more ->
  ending_to_string m first (more ++ tNl :: rest) acc = inr (acc ++ concat ws, rest).
Proof.
  induction ws as [|w ws0 IH]; intros toks tNl rest acc first more Hne Hw HF HN HE Htoks; [contradiction|].
  subst toks.
  destruct ws0 as [|w2 ws'].
  - cbn [sk_words] in HF. inv_f2. tok_facts.
    cbn [ending_to_string app]. rds. cbn [concat]. rewrite app_nil_r.
    destruct rest; cbn [ending_to_string]; rds; reflexivity.
  - cbn [sk_words] in HF. fold (sk_words (w2 :: ws')) in HF.
    inversion HF as [|a ? t1 ? R1 HF1]; subst. inversion HF1 as [|b ? t2 ? R2 HF2]; subst. clear HF HF1.
    assert (exists f' m', t2 = f' :: m') as [f' [m' ->]].
    { destruct ws'; cbn [sk_words] in HF2; inversion HF2; subst; eauto. }
    tok_facts. inversion Hw as [|? ? _ Hw0]; subst.
    cbn [ending_to_string app]. rds. cbn [ending_to_string app]. rds.
    erewrite (IH (f' :: m') tNl rest _ f' m' ltac:(discriminate) Hw0 HF2 HN HE eq_refl).
    cbn [concat]. rewrite <- app_assoc. reflexivity.
Qed.

Lemma rd_gen p tB tH tB2 tL toks tNl rest len hs n :
  known_type (h_type (p_h p)) = false ->
  parse_uint len 16 = Some n -> n * 2 = lenN (concat hs) -> Forall (fun w => w <> []) hs ->
  t_val tB = ZBlank -> realizes tH (sk_str [92; 35]) -> realizes tB2 sk_blank -> realizes tL (sk_str len) ->
  Forall2 realizes toks (match hs with [] => [] | _ => sk_blank :: sk_words hs end) -> realizes tNl sk_nl ->
  rdata_step p tB (tH :: tB2 :: tL :: toks ++ tNl :: rest) = NRec (mkRR (p_h p) (RGen (concat hs)) 0) p rest.
Proof.
  intros K PL EL Hw HB RH RB RL HF RN. tok_facts.
  unfold rdata_step. cbv zeta. rds. cbv iota. rewrite K. cbn [negb orb].
  unfold parse_3597. rds. cbn [bytes_eqb N.eqb Pos.eqb andb negb]. rds. rewrite PL. rds.
  destruct hs as [|w ws].
  - inv_f2. cbn [app]. rds. cbn [concat] in *.
    destruct rest; cbn [ending_to_string]; rds; cbn [concat lenN length N.of_nat] in *;
      (replace (n * 2 =? 0) with true by lia); reflexivity.
  - inversion HF as [|b ? t1 ? R1 HF1]; subst. clear HF.
    assert (exists f' m', t1 = f' :: m') as [f' [m' ->]].
    { destruct ws; cbn [sk_words] in HF1; inversion HF1; subst; eauto. }
    tok_facts. cbn [app]. rds. cbn [ending_to_string app]. rds.
    erewrite (ets_words _ (w :: ws) (f' :: m') tNl rest [] f' m' ltac:(discriminate) Hw HF1 ltac:(assumption) ltac:(assumption) eq_refl).
    cbn [app]. rewrite EL, N.eqb_refl. reflexivity.
Qed.

(* ---------- a record line ---------- *)
Definition wf_rd (t : N) (w : rdw) : Prop :=
  match w with
  | WName n => (exists m, family_of t = FName m) /\ wf_name n /\ not_generic n
  | WAddr text => not_generic text /\ (t = 1 \/ t = 28)
  | WTxt l => (exists m, family_of t = FTxt m) /\ l <> [] /\ Forall txt_ok l
  | WGen len hs => known_type t = false /\
                   (exists n, parse_uint len 16 = Some n /\ n * 2 = lenN (concat hs)) /\
                   Forall (fun w => w <> []) hs
  end.
Definition wf_rec (r : recd) : Prop :=
  match d_owner r with Some n => wf_name n | None => True end /\
  match d_ttl r with Some t => wf_ttl_text t | None => True end /\
  wf_rd (d_type r) (d_rd r).
Definition wf_entry (e : entry) : Prop :=
  match e with DRec r => wf_rec r | DOrigin n => wf_name n | DTtl t => wf_ttl_text t end.

Lemma first_some_defttl st v :
  first_some (s_dollar st) (s_stated st) (s_default st) = Some v ->
  exists d, defttl_of st = Some (mkTtl v d).
Proof.
  unfold first_some, defttl_of.
  destruct (s_dollar st); [intro E; injection E as ->; eauto|].
  destruct (s_stated st); [intro E; injection E as ->; eauto|].
  destruct (s_default st); [intro E; injection E as ->; eauto|discriminate].
Qed.

Lemma rdata_entry p tB ts tNl rest t w rd :
  h_type (p_h p) = t -> p_origin p <> [] -> wf_rd t w -> denote_rd (p_origin p) t w = Some rd ->
  t_val tB = ZBlank -> Forall2 realizes ts (sk_rd w) -> realizes tNl sk_nl ->
  rdata_step p tB (ts ++ tNl :: rest) = NRec (mkRR (p_h p) rd 0) p rest.
Proof.
  intros Ht Ho Hw Hd HB HF RN. subst t.
  destruct w as [n|text|l|len hs]; cbn [wf_rd denote_rd sk_rd] in *.
  - destruct Hw as [[m F] [Hn Hg]]. injection Hd as <-. inv_f2. cbn [app].
    eapply rd_name; eauto.
  - destruct Hw as [Hg Ht]. inv_f2. cbn [app].
    destruct Ht as [Ht|Ht]; rewrite Ht in Hd; cbn in Hd.
    + destruct (parse_a text) as [a|] eqn:P; [|discriminate]. injection Hd as <-.
      eapply rd_addr; eauto.
    + destruct (parse_aaaa text) as [a|] eqn:P; [|discriminate]. injection Hd as <-.
      eapply rd_addr; eauto.
  - destruct Hw as [[m F] [Hne Hok]]. injection Hd as <-. eapply rd_txt; eauto.
  - destruct Hw as [K [[n [PL EL]] Hws]]. injection Hd as <-.
    inversion HF as [|a ? t1 ? R1 HF1]; subst. inversion HF1 as [|b ? t2 ? R2 HF2]; subst.
    inversion HF2 as [|c ? t3 ? R3 HF3]; subst. clear HF HF1 HF2.
    cbn [app]. eapply rd_gen; eauto.
Qed.

Lemma record_entry cf p st r ts rest recs st' :
  pinv p st -> s_origin st <> [] -> wf_rec r ->
  Forall2 realizes ts (sk_rec r) -> denote1 st (DRec r) = Some (recs, st') ->
  exists x p', recs = [x] /\ zloop cf p XOwnerDir 0 (ts ++ rest) = NRec x p' rest /\ pinv p' st'.
Proof.
  intros [I1 [I2 I3]] Ho [Wo [Wt Wr]] HF HD.
  rewrite sk_rec_split in HF.
  apply Forall2_app_inv_r in HF. destruct HF as [tsh [ts2 [HFh [HF2 ->]]]].
  inversion HF2 as [|tB ? ts3 ? RB HF3]; subst. clear HF2.
  apply Forall2_app_inv_r in HF3. destruct HF3 as [tsr [tsn [HFr [HFn ->]]]].
  inversion HFn as [|tNl ? tn0 ? RN HFn0]; subst. inversion HFn0; subst. clear HFn HFn0.
  unfold denote1 in HD.
  destruct (match d_owner r with Some n => Some (complete (s_origin st) n) | None => s_owner st end)
    as [owner|] eqn:EO; [|discriminate].
  destruct (match d_ttl r with
            | Some _ => match d_ttl r with Some t => ttl_of_text t | None => None end
            | None => first_some (s_dollar st) (s_stated st) (s_default st)
            end) as [ttl|] eqn:ET; [|discriminate].
  destruct (denote_rd (s_origin st) (d_type r) (d_rd r)) as [rd|] eqn:ER; [|discriminate].
  injection HD as <- <-.
  assert (HeB : t_err tB = false) by (destruct RB as (_ & H & _); exact H).
  assert (HvB : t_val tB = ZBlank) by (destruct RB as (H & _); exact H).
  rewrite <- I1 in Ho.
  rewrite <- app_assoc. cbn [app]. rewrite <- app_assoc. cbn [app].
  erewrite (header_walk cf p r tsh tB _ owner Ho); eauto.
  - eexists _, _. split; [reflexivity|]. split.
    + erewrite rdata_entry; eauto.
      * cbn. f_equal. f_equal.
        destruct (d_ttl r) as [t|] eqn:Et.
        -- rewrite ET. reflexivity.
        -- cbn. apply first_some_defttl in ET. destruct ET as [d ED]. rewrite I2, ED. reflexivity.
      * cbn. rewrite I1. exact ER.
    + repeat split; cbn.
      * exact I1.
      * rewrite I2. unfold defttl_of. cbn.
        destruct (d_ttl r) as [t|] eqn:Et; [|reflexivity].
        rewrite ET. destruct (s_dollar st); [reflexivity|].
        destruct (s_stated st); [reflexivity|]. destruct (s_default st); reflexivity.
      * intros o E. injection E as <-. reflexivity.
  - destruct (d_owner r) as [n|]; [split; [exact Wo|]|].
    + injection EO as <-. now rewrite I1.
    + symmetry. now apply I3.
  - destruct (d_ttl r) as [t|]; [exact Wt|].
    apply first_some_defttl in ET. destruct ET as [d ED]. rewrite I2, ED. discriminate.
Qed.

(* ---------- a whole zone ---------- *)
Lemma complete_nonempty origin n : origin <> [] -> wf_name n -> complete origin n <> [].
Proof.
  intros Ho Hn. unfold complete.
  destruct (bytes_eqb n [64]); [exact Ho|].
  destruct (is_fqdn n) eqn:F.
  - intro E. subst n. discriminate F.
  - destruct (bytes_eqb origin [46]); intro E; apply app_eq_nil in E; destruct E as [_ E]; discriminate.
Qed.

Lemma f2_length {A B} (R : A -> B -> Prop) l l' : Forall2 R l l' -> length l = length l'.
Proof. induction 1; cbn; congruence. Qed.

Section Files.
  Variable fs_open os_open : bytes -> option bytes.
  Notation level := (level fs_open os_open).
  Notation run_d := (run_d fs_open os_open).

  Lemma level_directive inc gen cf f p p' ts rest :
    zloop cf p XOwnerDir 0 (ts ++ rest) = zloop cf p' XOwnerDir 0 rest ->
    level inc gen cf (S f) p (ts ++ rest) None = level inc gen cf (S f) p' rest None.
  Proof. intro H. rewrite !level_S. unfold Zone.level_body. now rewrite H. Qed.

  Lemma zone_refines inc gen cf : forall es st p toks recs fuel,
    pinv p st -> s_origin st <> [] -> Forall wf_entry es ->
    Forall2 realizes toks (sk_zone es) -> denote_go st es = Some recs ->
    (length toks < fuel)%nat ->
    level inc gen cf fuel p toks None = map ERec recs.
  Proof.
    induction es as [|e es IH]; intros st p toks recs fuel I Ho Hwf HF HD Hf.
    - inversion HF; subst. cbn in HD. injection HD as <-.
      destruct fuel as [|f]; [cbn in Hf; lia|]. reflexivity.
    - cbn [sk_zone flat_map] in HF. fold (sk_zone es) in HF.
      apply Forall2_app_inv_r in HF. destruct HF as [t1 [t2 [HF1 [HF2 ->]]]].
      inversion Hwf as [|? ? We Wes]; subst.
      cbn [denote_go] in HD.
      destruct (denote1 st e) as [[recs1 st1]|] eqn:D1; [|discriminate].
      destruct (denote_go st1 es) as [more|] eqn:D2; [|discriminate].
      injection HD as <-.
      rewrite app_length in Hf.
      destruct fuel as [|f]; [lia|].
      destruct e as [r|n|t].
      + (* a record *)
        cbn [sk_entry wf_entry] in *.
        destruct (record_entry cf p st r t1 t2 recs1 st1 I Ho We HF1 D1) as [x [p' [-> [Z I']]]].
        rewrite level_S. unfold Zone.level_body. rewrite Z.
        assert (L1 : (1 <= length t1)%nat).
        { rewrite sk_rec_split in HF1. apply f2_length in HF1. rewrite HF1, app_length.
          cbn. lia. }
        cbn [app map]. f_equal.
        apply (IH st1 p' t2 more f I'); auto; [|lia].
        unfold denote1 in D1.
        destruct (match d_owner r with Some n0 => _ | None => _ end); [|discriminate].
        destruct (match d_ttl r with Some _ => _ | None => _ end); [|discriminate].
        destruct (denote_rd _ _ _); [|discriminate].
        injection D1 as _ <-. exact Ho.
      + (* $ORIGIN *)
        cbn [sk_entry] in HF1. inv_f2.
        cbn [denote1] in D1. injection D1 as <- <-.
        destruct (origin_entry cf p st n _ _ _ _ t2 I Ho We ltac:(eassumption) ltac:(eassumption)
                               ltac:(eassumption) ltac:(eassumption)) as [p' [Z I']].
        cbn [app] in *. change (?a :: ?b :: ?c :: ?d :: t2) with ([a; b; c; d] ++ t2).
        rewrite (level_directive inc gen cf f p p' [_; _; _; _] t2 Z).
        cbn [app]. apply (IH _ p' t2 more (S f) I'); auto; [|cbn in Hf; lia].
        cbn. now apply complete_nonempty.
      + (* $TTL *)
        cbn [sk_entry] in HF1. inv_f2.
        cbn [denote1] in D1.
        destruct (ttl_of_text t) as [v|] eqn:Ev; [|discriminate]. injection D1 as <- <-.
        destruct (ttl_entry cf p st t v _ _ _ _ t2 I We Ev ltac:(eassumption) ltac:(eassumption)
                            ltac:(eassumption) ltac:(eassumption)) as [p' [Z I']].
        cbn [app] in *. change (?a :: ?b :: ?c :: ?d :: t2) with ([a; b; c; d] ++ t2).
        rewrite (level_directive inc gen cf f p p' [_; _; _; _] t2 Z).
        cbn [app]. apply (IH _ p' t2 more (S f) I'); auto. cbn in Hf; lia.
  Qed.

  (* the parser on the tokens of a zone yields exactly the records it denotes *)
  Theorem zp_refines_tokens d cf origin default es toks recs :
    origin <> [] -> is_fqdn origin = true -> is_domain_name origin = true ->
    Forall wf_entry es -> Forall2 realizes toks (sk_zone es) ->
    denote origin default es = Some recs ->
    run_d d cf origin (match default with Some t => Some (mkTtl t false) | None => None end) toks None
    = map ERec recs.
  Proof.
    intros Ho Hf Hd Hwf HF HD.
    assert (K : forall inc gen,
      new_parser (level inc gen) cf origin
                 (match default with Some t => Some (mkTtl t false) | None => None end) toks None
      = map ERec recs).
    { intros inc gen. unfold new_parser.
      assert (E : match origin with [] => [] | _ :: _ => fqdn origin end = origin).
      { destruct origin; [contradiction|]. unfold fqdn. now rewrite Hf. }
      rewrite E.
      assert (E2 : match origin with [] => false | _ :: _ => negb (is_domain_name origin) end = false).
      { destruct origin; [reflexivity|]. now rewrite Hd. }
      rewrite E2. cbv zeta.
      match goal with |- (if failed ?X then _ else _) = _ =>
        assert (Z : X = map ERec recs) end.
      { eapply zone_refines; eauto.
        - repeat split; cbn; auto; try (destruct default; reflexivity); try discriminate.
        - exact Ho. }
      rewrite Z.
      assert (F : failed (map ERec recs) = false).
      { clear. induction recs as [|r rs IHr]; [reflexivity|exact IHr]. }
      rewrite F.
      (* tokens that realize a skeleton carry no lexer error *)
      assert (L : lex_err_tok toks = None).
      { assert (A : Forall (fun t => t_err t = false) toks).
        { clear - HF. induction HF as [|t k ts ks Hr _ IHf]; constructor; [|exact IHf].
          destruct Hr as [_ [Hr _]]. exact Hr. }
        unfold lex_err_tok. destruct (rev toks) as [|u r] eqn:R; [reflexivity|].
        assert (Hin : In u toks) by (apply in_rev; rewrite R; now left).
        rewrite Forall_forall in A. now rewrite (A u Hin). }
      rewrite L. reflexivity. }
    destruct d as [|d']; cbn [Zone.run_d]; apply K.
  Qed.
End Files.

(* ---------- $INCLUDE splices the file's records ---------- *)
Section Splice.
  Variable fs_open os_open : bytes -> option bytes.
  Notation level_body := (level_body fs_open os_open).

  (* When Next meets an $INCLUDE (allowed, not too deep, the file opens), what
     follows is: the open, everything the file's parser yields under the stated
     origin with the includer's TTL state, and then the includer's own
     continuation in the state it had: its origin is unchanged. *)
  Lemma include_splices sub gen cf rerr k p toks l neworigin p' rest content :
    zloop cf p XOwnerDir 0 toks = NInclude l neworigin p' rest ->
    Nat.leb maxIncludeDepth (c_depth cf) = false ->
    (if c_fs cf then fs_open (include_path (c_fs cf) (c_file cf) (t_text l))
     else os_open (include_path (c_fs cf) (c_file cf) (t_text l))) = Some content ->
    let path := include_path (c_fs cf) (c_file cf) (t_text l) in
    let evs := sub (mkCfg path true (c_fs cf) false (S (c_depth cf))) neworigin (p_defttl p')
                   (lex content) None in
    failed evs = false ->
    level_body (Some sub) gen cf rerr k p toks = EOpen (c_fs cf) path true (S (c_depth cf)) :: evs ++ k p' rest.
  Proof.
    intros Z D O path evs F. subst path evs. unfold Zone.level_body. rewrite Z, D. cbv zeta.
    rewrite O, F. reflexivity.
  Qed.
End Splice.

(* the $INCLUDE line itself: the origin argument is completed with the
   includer's origin, and the includer's state is what it was *)
Lemma include_line cf p tD tB tF tB2 tO tNl rest file o :
  c_inc cf = true -> p_origin p <> [] -> wf_name o -> file <> [] ->
  realizes tD (mkSk ZDirInclude [] 0) -> realizes tB sk_blank -> realizes tF (sk_str file) ->
  realizes tB2 sk_blank -> realizes tO (sk_str o) -> realizes tNl sk_nl ->
  exists p', zloop cf p XOwnerDir 0 (tD :: tB :: tF :: tB2 :: tO :: tNl :: rest)
             = NInclude tF (complete (p_origin p) o) p' (tNl :: rest) /\
             p_origin p' = p_origin p /\ p_defttl p' = p_defttl p.
Proof.
  intros Hi Ho Hw Hf R1 R2 R3 R4 R5 R6. tok_facts.
  eexists. split.
  - zs. zs. zs. cbn [next_tok]. rds. cbn [p_origin set_h].
    rewrite (to_absolute_complete _ _ Ho Hw). rewrite Hi. cbn [negb]. reflexivity.
  - split; reflexivity.
Qed.

(* ---------- a worked zone: hypotheses of zp_refines_tokens are satisfiable ---------- *)
Lemma tval_eqb_eq a b : tval_eqb a b = true -> a = b.
Proof. destruct a, b; cbn; intro H; try reflexivity; discriminate. Qed.
Lemma realizes_b_ok t k : realizes_b t k = true -> realizes t k.
Proof.
  unfold realizes_b, realizes. intro H.
  repeat (apply andb_true_iff in H; destruct H as [H ?]).
  repeat split.
  - now apply tval_eqb_eq.
  - now destruct (t_err t).
  - intro E. rewrite E in *. discriminate.
  - intro M. rewrite M in *. now apply bytes_eqb_eq.
  - intro M. rewrite M in *. now apply N.eqb_eq.
Qed.
Lemma forall2b_realizes ts ks : forall2b realizes_b ts ks = true -> Forall2 realizes ts ks.
Proof.
  revert ks. induction ts as [|t ts IH]; intros [|k ks]; cbn; intro H; try discriminate; [constructor|].
  apply andb_true_iff in H. destruct H as [H1 H2]. constructor; [now apply realizes_b_ok|auto].
Qed.

Definition nl1 : string := String (ascii_of_N 10) EmptyString.
Definition ex_text : bytes :=
  B ("$ORIGIN example.org." +++ nl1 +++ "$TTL 1h" +++ nl1 +++ "@ IN NS ns1" +++ nl1 +++
     "ns1 300 IN A 192.0.2.1" +++ nl1 +++ " TXT ""a b"" """"" +++ nl1 +++
     "x CH 5 TYPE65280 \# 2 ab cd" +++ nl1).
Definition ex_zone : list entry :=
  [ DOrigin (B "example.org."); DTtl (B "1h");
    DRec (mkRecd (Some (B "@")) None (Some 1) false 2 (WName (B "ns1")));
    DRec (mkRecd (Some (B "ns1")) (Some (B "300")) (Some 1) true 1 (WAddr (B "192.0.2.1")));
    DRec (mkRecd None None None false 16 (WTxt [B "a b"; []]));
    DRec (mkRecd (Some (B "x")) (Some (B "5")) (Some 3) false 65280 (WGen (B "2") [B "ab"; B "cd"])) ].

Example ex_zone_tokens : forall2b realizes_b (lex ex_text) (sk_zone ex_zone) = true.
Proof. vm_compute. reflexivity. Qed.

Example ex_zone_denotes :
  denote (B "test.") None ex_zone =
  Some [ mkRR (mkHdr (B "example.org.") 2 1 3600) (RName (B "ns1.example.org.")) 0;
         mkRR (mkHdr (B "ns1.example.org.") 1 1 300) (RAddr [192; 0; 2; 1]) 0;
         mkRR (mkHdr (B "ns1.example.org.") 16 1 3600) (RTxt [B "a b"; []]) 0;
         mkRR (mkHdr (B "x.example.org.") 65280 3 5) (RGen (B "abcd")) 0 ].
Proof. vm_compute. reflexivity. Qed.

Lemma wf_name_b n : (bytes_eqb n [64] || (is_domain_name n && negb (bytes_eqb n [10]))) = true -> wf_name n.
Proof.
  intro H. apply orb_true_iff in H. destruct H as [H|H].
  - left. now apply bytes_eqb_eq.
  - right. apply andb_true_iff in H. destruct H as [H1 H2]. split; [exact H1|].
    intro E. subst n. discriminate.
Qed.
Lemma wf_ttl_b t v : ttl_nowrap t 0 0 = true -> ttl_of_text t = Some v -> (v <=? 4294967295) = true -> wf_ttl_text t.
Proof. intros A E L. split; [exact A|]. exists v. split; [exact E|]. now apply N.leb_le. Qed.

Example ex_zone_wf : Forall wf_entry ex_zone.
Proof.
  unfold ex_zone. repeat apply Forall_cons; try apply Forall_nil.
  - apply wf_name_b. vm_compute. reflexivity.
  - apply (wf_ttl_b _ 3600); vm_compute; reflexivity.
  - split; [apply wf_name_b; vm_compute; reflexivity|]. split; [exact I|].
    cbn [wf_rd d_type d_rd]. split; [exists "bad NS Ns"%string; vm_compute; reflexivity|].
    split; [apply wf_name_b; vm_compute; reflexivity|]. split; discriminate.
  - split; [apply wf_name_b; vm_compute; reflexivity|].
    split; [apply (wf_ttl_b _ 300); vm_compute; reflexivity|].
    cbn [wf_rd d_type d_rd]. split; [split; discriminate|left; reflexivity].
  - split; [exact I|]. split; [exact I|].
    cbn [wf_rd d_type d_rd]. split; [exists "bad TXT Txt"%string; vm_compute; reflexivity|].
    split; [discriminate|].
    constructor; [right; vm_compute; reflexivity|]. constructor; [left; reflexivity|constructor].
  - split; [apply wf_name_b; vm_compute; reflexivity|].
    split; [apply (wf_ttl_b _ 5); vm_compute; reflexivity|].
    cbn [wf_rd d_type d_rd]. split; [vm_compute; reflexivity|].
    split; [exists 2; split; vm_compute; reflexivity|].
    constructor; [discriminate|]. constructor; [discriminate|constructor].
Qed.

(* the parser on the lexer's tokens of the worked text gives the denoted records *)
Example ex_zone_parses :
  run_d no_files no_files maxIncludeDepth (mkCfg [] false false false O) (B "test.") None (lex ex_text) None
  = map ERec [ mkRR (mkHdr (B "example.org.") 2 1 3600) (RName (B "ns1.example.org.")) 0;
               mkRR (mkHdr (B "ns1.example.org.") 1 1 300) (RAddr [192; 0; 2; 1]) 0;
               mkRR (mkHdr (B "ns1.example.org.") 16 1 3600) (RTxt [B "a b"; []]) 0;
               mkRR (mkHdr (B "x.example.org.") 65280 3 5) (RGen (B "abcd")) 0 ].
Proof.
  apply (zp_refines_tokens no_files no_files maxIncludeDepth _ (B "test.") None ex_zone).
  - discriminate.
  - vm_compute. reflexivity.
  - vm_compute. reflexivity.
  - exact ex_zone_wf.
  - apply forall2b_realizes. exact ex_zone_tokens.
  - exact ex_zone_denotes.
Qed.

(* ---------- $GENERATE expands one line per step ---------- *)
Definition plain_char (c : N) : Prop := c <> 36 /\ c <> 92.
(* a piece may follow the bare iterator only if it cannot be read as part of it *)
Definition after_iter_ok (tpl : list gpiece) : Prop :=
  match tpl with
  | [] => True
  | GLit (c :: _) :: _ => c <> 36 /\ c <> 123
  | _ => False
  end.
Fixpoint wf_tpl (start stop : Z) (tpl : list gpiece) : Prop :=
  match tpl with
  | [] => True
  | GLit s :: r => s <> [] /\ Forall plain_char s /\ wf_tpl start stop r
  | GIter :: r => after_iter_ok r /\ wf_tpl start stop r
  | GMod t :: r =>
    ~ In 125 t /\
    (exists w b off, mod_to_printf t = inr (w, b, off) /\
                     (0 <= wrap64 (start + off))%Z /\ (wrap64 (stop + off) <= 2147483647)%Z) /\
    wf_tpl start stop r
  end.

Lemma gen_line_skip whole pre : forall rest si esc cur start stop acc,
  gen_line whole (pre ++ rest) si (length pre) esc cur start stop acc =
  gen_line whole rest (si + lenN pre) 0 esc cur start stop acc.
Proof.
  induction pre as [|c pre IH]; intros rest si esc cur start stop acc.
  - cbn. unfold lenN. cbn. now rewrite N.add_0_r.
  - cbn [app length gen_line]. rewrite IH. f_equal. unfold lenN. cbn [length]. lia.
Qed.

Lemma gen_line_lit whole s : forall rest si cur start stop acc,
  Forall plain_char s ->
  gen_line whole (s ++ rest) si 0 false cur start stop acc =
  gen_line whole rest (si + lenN s) 0 false cur start stop (rev s ++ acc).
Proof.
  induction s as [|c s IH]; intros rest si cur start stop acc H.
  - cbn. unfold lenN. cbn. now rewrite N.add_0_r.
  - inversion H as [|? ? [H1 H2] H3]; subst.
    cbn [app gen_line].
    replace (c =? 92) with false by lia. replace (c =? 36) with false by lia.
    rewrite IH by exact H3. cbn [rev]. rewrite <- app_assoc. cbn [app].
    f_equal. unfold lenN. cbn [length]. lia.
Qed.

Lemma index_of_app c t rest : forall i, ~ In c t -> index_of c (t ++ c :: rest) i = Some (i + length t)%nat.
Proof.
  induction t as [|x t IH]; intros i H; cbn [app index_of length].
  - rewrite N.eqb_refl. f_equal. lia.
  - destruct (x =? c) eqn:E; [exfalso; apply H; left; lia|].
    rewrite IH; [f_equal; lia|]. intro K. apply H. now right.
Qed.

Lemma rev_frev_app {A} (x acc : list A) : rev (frev x ++ acc) = rev acc ++ x.
Proof. rewrite frev_rev, rev_app_distr, rev_involutive. reflexivity. Qed.

(* one pass of the reader over a template: every piece replaced *)
Lemma gen_line_tpl whole start stop cur : forall tpl si acc,
  wf_tpl start stop tpl ->
  gen_line whole (render_tpl tpl) si 0 false cur start stop acc =
  (rev acc ++ subst_tpl cur tpl, inl false).
Proof.
  induction tpl as [|p tpl IH]; intros si acc W.
  - cbn. rewrite frev_rev, app_nil_r. reflexivity.
  - destruct p as [s| |t]; cbn [wf_tpl] in W.
    + destruct W as [_ [Hp W]].
      change (render_tpl (GLit s :: tpl)) with (s ++ render_tpl tpl).
      rewrite gen_line_lit by exact Hp. rewrite IH by exact W.
      rewrite rev_app_distr, rev_involutive, <- app_assoc. reflexivity.
    + destruct W as [Ha W].
      change (render_tpl (GIter :: tpl)) with (36 :: render_tpl tpl).
      cbn [gen_line]. change (36 =? 92) with false. change (36 =? 36) with true. cbv iota.
      destruct tpl as [|q tpl'].
      * cbn. rewrite frev_rev, app_nil_r. reflexivity.
      * destruct q as [s| |]; cbn [after_iter_ok] in Ha; try contradiction.
        destruct s as [|c s']; [contradiction|]. destruct Ha as [A1 A2].
        set (R := render_tpl (GLit (c :: s') :: tpl')).
        assert (ER : R = c :: (s' ++ render_tpl tpl')) by reflexivity.
        rewrite ER at 1. cbv iota.
        replace (c =? 36) with false by lia. replace (c =? 123) with false by lia.
        subst R.
        rewrite IH by exact W. rewrite rev_frev_app, <- app_assoc. reflexivity.
    + destruct W as [Hn [[w [b [off [Hm [G1 G2]]]]] W]].
      assert (ER : render_tpl (GMod t :: tpl) = 36 :: 123 :: (t ++ 125 :: render_tpl tpl)).
      { unfold render_tpl. cbn [flat_map render_piece app]. rewrite <- app_assoc. reflexivity. }
      rewrite ER. clear ER.
      cbn [gen_line]. change (36 =? 92) with false. change (36 =? 36) with true.
      change (123 =? 36) with false. change (123 =? 123) with true. cbv iota.
      rewrite (index_of_app 125 t (render_tpl tpl) 0 Hn). cbn [Nat.add].
      rewrite firstn_app_exact, Hm.
      replace ((wrap64 (start + off) <? 0)%Z || (2147483647 <? wrap64 (stop + off))%Z) with false by lia.
      assert (E : (t ++ 125 :: render_tpl tpl) = (t ++ [125]) ++ render_tpl tpl).
      { rewrite <- app_assoc. reflexivity. }
      rewrite E.
      assert (L : S (length t) = length (t ++ [125])).
      { rewrite app_length. cbn. lia. }
      rewrite L, gen_line_skip. rewrite IH by exact W.
      rewrite rev_frev_app, <- app_assoc. cbn [subst_tpl flat_map subst_piece]. rewrite Hm. reflexivity.
Qed.

Ltac Zify.zify_post_hook ::= Z.div_mod_to_equations.

Lemma wrap64_small z : (0 <= z < two63)%Z -> wrap64 z = z.
Proof. intro H. unfold wrap64, two63 in *. lia. Qed.
Lemma wrap64_big z : (two63 <= z < 2 * two63)%Z -> (wrap64 z < 0)%Z.
Proof. intro H. unfold wrap64, two63 in *. lia. Qed.

(* the reader delivers one line per iterator value, every $ replaced *)
Lemma gen_iter_tpl tpl start stop step :
  wf_tpl start stop tpl -> (0 < step < two63)%Z -> (stop < two63)%Z ->
  forall fuel cur, (0 <= cur <= stop)%Z ->
  gen_iter fuel (render_tpl tpl) false cur start stop step =
  (flat_map (fun i => subst_tpl i tpl ++ [10]) (gen_values fuel cur stop step), None).
Proof.
  intros W Hs Hst. induction fuel as [|f IH]; intros cur Hc; cbn [gen_iter gen_values].
  - reflexivity.
  - rewrite (gen_line_tpl _ start stop cur tpl 0 [] W). cbn [rev app].
    destruct (stop <? cur + step)%Z eqn:E.
    + assert (C : ((stop <? wrap64 (cur + step)) || (wrap64 (cur + step) <? 0))%Z = true).
      { destruct (Z_lt_ge_dec (cur + step) two63) as [L|L].
        - rewrite wrap64_small by lia. lia.
        - pose proof (wrap64_big (cur + step)). unfold two63 in *. lia. }
      rewrite C. cbn [flat_map]. rewrite app_nil_r. reflexivity.
    + rewrite wrap64_small by lia.
      replace ((stop <? cur + step) || (cur + step <? 0))%Z with false by lia.
      rewrite IH by lia. cbn [flat_map]. rewrite <- app_assoc. reflexivity.
Qed.

Theorem generate_expands tpl start stop step :
  wf_tpl start stop tpl -> (0 < step < two63)%Z -> (0 <= start <= stop)%Z -> (stop < two63)%Z ->
  gen_bytes (render_tpl tpl) start stop step =
  (flat_map (fun i => subst_tpl i tpl ++ [10]) (gen_values (gen_count start stop step) start stop step), None).
Proof. intros W Hs Hr Hst. unfold gen_bytes. now apply gen_iter_tpl. Qed.

(* the iterator values are start, start+step, ...: all of them *)
Lemma gen_values_spec stop step : (0 < step)%Z -> forall n cur v,
  In v (gen_values n cur stop step) -> exists k, (v = cur + Z.of_nat k * step)%Z /\ (k < n)%nat.
Proof.
  intros Hs. induction n as [|n IH]; intros cur v H; cbn [gen_values] in H; [contradiction|].
  destruct H as [<-|H]; [exists O; split; lia|].
  destruct (stop <? cur + step)%Z; [contradiction|].
  apply IH in H. destruct H as [k [-> Hk]]. exists (S k). split; lia.
Qed.
Lemma gen_values_length start stop step : (0 < step)%Z -> (0 <= start <= stop)%Z ->
  forall n cur, (start <= cur <= stop)%Z -> n = Z.to_nat ((stop - cur) / step + 1) ->
  length (gen_values n cur stop step) = n.
Proof.
  intros Hs Hr. induction n as [|n IH]; intros cur Hc Hn; [reflexivity|]. cbn [gen_values length].
  f_equal. destruct (stop <? cur + step)%Z eqn:E.
  - assert ((stop - cur) / step = 0)%Z by (apply Z.div_small; lia). cbn. lia.
  - apply IH; [lia|].
    assert (E2 : ((stop - cur) / step = (stop - (cur + step)) / step + 1)%Z).
    { replace (stop - cur)%Z with ((stop - (cur + step)) + 1 * step)%Z by lia.
      rewrite Z.div_add by lia. reflexivity. }
    assert (0 <= (stop - (cur + step)) / step)%Z by (apply Z.div_pos; lia). lia.
Qed.

Example ex_generate :
  let tpl := [GLit (B "h"); GIter; GLit (B " PTR p"); GMod (B "1,3,x"); GLit (B ".")] in
  render_tpl tpl = B "h$ PTR p${1,3,x}." /\
  fst (gen_bytes (render_tpl tpl) 9 11 1) =
  B ("h9 PTR p00a." +++ String (ascii_of_N 10) ("h10 PTR p00b." +++ String (ascii_of_N 10)
     ("h11 PTR p00c." +++ String (ascii_of_N 10) EmptyString))).
Proof. vm_compute. split; reflexivity. Qed.

Lemma gen_values_all start stop step :
  (0 < step)%Z -> (0 <= start <= stop)%Z ->
  length (gen_values (gen_count start stop step) start stop step) = gen_count start stop step /\
  (forall v, In v (gen_values (gen_count start stop step) start stop step) ->
             exists k : nat, (v = start + Z.of_nat k * step)%Z).
Proof.
  intros Hs Hr. split.
  - apply (gen_values_length start stop step Hs Hr); [lia|reflexivity].
  - intros v H. destruct (gen_values_spec stop step Hs _ _ _ H) as [k [E _]]. eauto.
Qed.
