package main

// Keyword case, keyword by keyword (strengthening round 5).
//
// "... keyword case ... do[es] not change the result." The semantic stream spells
// the eleven types, five classes and two directives it uses in random case; a
// keyword it never writes (most type mnemonics, $INCLUDE, $GENERATE) or a letter
// none of its keywords contains is never seen in lower case. Here EVERY keyword of
// the zone file syntax -- every type mnemonic of dns.StringToType, every class
// mnemonic of dns.StringToClass, the TYPEnnn / CLASSnnn prefixes and the four
// directives -- is written in every case pattern (all 2^n patterns for up to seven
// letters, else upper, lower, each letter alone in the other case, alternating and
// some random patterns) in every place where the syntax has it: the type and class
// columns of a record (followed by RDATA, and as the last word of the line), the
// type lists of NSEC / NSEC3 / CSYNC, the type covered of RRSIG, the type inside a
// $GENERATE template, and a directive at the start of a file or after a record.
// Oracle: the line means the same record (explicitly stated where the harness can
// state it: the generated record's own text for the type column, class code,
// bitmap member, type covered, the denoted records for directives) whatever the
// case; for keywords without a presentable RDATA the outcome must at least be the
// one of the upper-case spelling.

import (
	"fmt"
	"sort"
	"strings"

	"github.com/miekg/dns"
	. "verif/harness/common"
	z "verif/harness/zonecommon"
)

// casePatterns: spellings of m that differ in the case of its ASCII letters only.
func casePatterns(m string, r *Rng) []string {
	var pos []int
	for i := 0; i < len(m); i++ {
		if c := m[i] | 0x20; c >= 'a' && c <= 'z' {
			pos = append(pos, i)
		}
	}
	apply := func(upper func(k int) bool) string {
		b := []byte(m)
		for k, i := range pos {
			if upper(k) {
				b[i] &^= 0x20
			} else {
				b[i] |= 0x20
			}
		}
		return string(b)
	}
	seen := map[string]bool{}
	var out []string
	add := func(s string) {
		if !seen[s] {
			seen[s] = true
			out = append(out, s)
		}
	}
	if len(pos) <= 7 {
		for mask := 0; mask < 1<<len(pos); mask++ {
			add(apply(func(k int) bool { return mask>>k&1 == 1 }))
		}
		return out
	}
	add(apply(func(int) bool { return true }))
	add(apply(func(int) bool { return false }))
	for j := range pos {
		add(apply(func(k int) bool { return k != j }))
		add(apply(func(k int) bool { return k == j }))
	}
	add(apply(func(k int) bool { return k%2 == 0 }))
	add(apply(func(k int) bool { return k%2 == 1 }))
	for n := 0; n < 8; n++ {
		bits := r.Next()
		add(apply(func(k int) bool { return bits>>uint(k)&1 == 1 }))
	}
	return out
}

// fewPatterns: upper, lower and each letter alone in lower case.
func fewPatterns(m string) []string {
	out := []string{strings.ToUpper(m), strings.ToLower(m)}
	for i := 0; i < len(m); i++ {
		if c := m[i] | 0x20; c >= 'a' && c <= 'z' {
			b := []byte(strings.ToUpper(m))
			b[i] |= 0x20
			out = append(out, string(b))
		}
	}
	return out
}

// lineOutcome parses one line (under origin example.org., default TTL 3600) with
// the library: "ok:<record text>" or "err:<message class>" (without the quoted token).
func lineOutcome(line string) (string, dns.RR) {
	var rr dns.RR
	res := Protect(func() string {
		zp := dns.NewZoneParser(strings.NewReader(line+"\n"), "example.org.", "")
		zp.SetDefaultTTL(3600)
		got, ok := zp.Next()
		if err := zp.Err(); err != nil {
			if _, msg, _, _, _, _, isPE := dns.VerifParseError(err); isPE {
				return "err:" + msg
			}
			return "err:" + err.Error()
		}
		if !ok || got == nil {
			return "none"
		}
		if _, more := zp.Next(); more {
			return "ok:" + got.String() + " +more"
		}
		rr = got
		return "ok:" + got.String()
	})
	return res, rr
}

type kwIn struct {
	Keyword string `json:"keyword"`
	Written string `json:"written"`
	Line    string `json:"line"`
	Want    string `json:"want"`
	Got     string `json:"got"`
}

func kwViol(key, kw, written, line, want, got string) {
	Viol(key, fmt.Sprintf("keyword %s written %q: want %s got %s", kw, written, want, got),
		kwIn{Keyword: kw, Written: written, Line: line, Want: want, Got: got})
}

func sortedKeys(m map[string]uint16) []string {
	var ks []string
	for k := range m {
		ks = append(ks, k)
	}
	sort.Strings(ks)
	return ks
}

func lexCase(text string) {
	z.EmitD("lex", []string{z.Lit(text).String()}, z.LexDump([]byte(text), 64))
	stat["case_lex_keyword"]++
}

// tokenOf: value and type-or-class code of the first token spelled written.
func tokenOf(text, written string) (uint8, uint16, bool) {
	var v uint8
	var c uint16
	found := false
	Protect(func() string {
		for _, t := range dns.VerifLexTokens(text, 64) {
			if t.Token == written {
				v, c, found = t.Value, t.Torc, true
				break
			}
		}
		return ""
	})
	return v, c, found
}

func typeKeywordSweep(r *Rng) {
	pool := &NamePool{R: r}
	for _, m := range sortedKeys(dns.StringToType) {
		t := dns.StringToType[m]
		if m != strings.ToUpper(m) {
			// "None" and "Reserved" are table entries, not spellings: the lexer looks
			// the upper-cased word up, which never equals them
			stat["keyword_type_table_entry_not_upper_case"]++
			continue
		}
		stat["keyword_types"]++
		// the reference: a generated record of that type, printed by the library and
		// readable back; else the generic RDATA form
		prefix, rest, want := "owner.example.org.\t5\tIN\t", "\t\\# 2 abcd", ""
		if _, known := dns.TypeToRR[t]; known {
			for try := 0; try < 6 && want == ""; try++ {
				rr, info := GenRR(r, pool, t, false)
				if rr == nil || !info.WellFormed {
					continue
				}
				h := rr.Header()
				h.Name, h.Class, h.Ttl = "owner.example.org.", dns.ClassINET, 5
				var abs string
				if Protect(func() string { abs = rr.String(); return "ok" }) != "ok" || strings.ContainsAny(abs, "\n") {
					continue
				}
				i := strings.Index(abs, "\t"+m+"\t")
				if i < 0 || abs[:i] != "owner.example.org.\t5\tIN" {
					continue
				}
				if o, _ := lineOutcome(abs); o != "ok:"+abs {
					continue // the printed form is not read back: C05's business
				}
				rest, want = abs[i+1+len(m):], "ok:"+abs
			}
		}
		if want == "" {
			stat["keyword_types_generic_rdata"]++
			want, _ = lineOutcome(prefix + m + rest)
		} else {
			stat["keyword_types_with_record"]++
		}
		atEnd, _ := lineOutcome("owner.example.org.\t5\tIN\t" + m)
		refV, refC, refOK := tokenOf("o 5 IN "+m+" x\n", m)
		if !refOK || refC != t {
			Viol("C06/keyword-case/type-token", fmt.Sprintf("the lexer does not give %s the type code %d (found %v, code %d)", m, t, refOK, refC),
				kwIn{Keyword: m, Written: m, Line: "o 5 IN " + m + " x"})
		}
		for _, v := range casePatterns(m, r) {
			stat["keyword_type_spellings_checked"]++
			line := prefix + v + rest
			if got, _ := lineOutcome(line); got != want {
				kwViol("C06/keyword-case/type", m, v, line, want, got)
			}
			// class omitted, TTL omitted, class after TTL in lower case
			for _, l2 := range []string{"owner.example.org.\t5\t" + v + rest, "owner.example.org.\tin\t5\t" + v + rest} {
				if got, _ := lineOutcome(l2); got != want {
					kwViol("C06/keyword-case/type", m, v, l2, want, got)
				}
			}
			// the type as the last word of the line
			line = "owner.example.org.\t5\tIN\t" + v
			if got, _ := lineOutcome(line); got != atEnd {
				kwViol("C06/keyword-case/type-at-line-end", m, v, line, atEnd, got)
			}
			// the token itself
			if tv, tc, ok := tokenOf("o 5 IN "+v+" x\n", v); refOK && (!ok || tv != refV || tc != refC) {
				kwViol("C06/keyword-case/type-token", m, v, "o 5 IN "+v+" x", fmt.Sprintf("value %d code %d", refV, refC), fmt.Sprintf("found %v value %d code %d", ok, tv, tc))
			}
		}
		lexCase("o 5 in " + strings.ToLower(m) + " x\n")
		lexCase("o 5 IN " + strings.ToLower(m) + "\n")
		// type lists and type covered in RDATA
		if t == 0 {
			continue
		}
		for _, v := range fewPatterns(m) {
			stat["keyword_type_in_rdata_checked"]++
			for _, c := range []struct{ key, line string }{
				{"nsec-bitmap", "owner.example.org.\t5\tIN\tNSEC\tnext.example.org. " + v},
				{"nsec-bitmap", "owner.example.org.\t5\tIN\tNSEC\tnext.example.org. A " + v + " TYPE65280"},
				{"nsec3-bitmap", "owner.example.org.\t5\tIN\tNSEC3\t1 0 2 ABCD 2T7B4G4VSA5SMI47K61MV5BV1A22BOJR " + v},
				{"csync-bitmap", "owner.example.org.\t5\tIN\tCSYNC\t66 3 " + v},
				{"rrsig-covered", "owner.example.org.\t5\tIN\tRRSIG\t" + v + " 8 2 3600 20260101000000 20250101000000 12345 example.org. AAAA"},
			} {
				ref := strings.Replace(c.line, " "+v, " "+m, 1)
				if c.key == "rrsig-covered" {
					ref = strings.Replace(c.line, "\t"+v+" ", "\t"+m+" ", 1)
				}
				want, _ := lineOutcome(ref)
				got, rr := lineOutcome(c.line)
				if got != want {
					kwViol("C06/keyword-case/"+c.key, m, v, c.line, want, got)
					continue
				}
				// and the upper-case spelling means that type
				var have []uint16
				switch x := rr.(type) {
				case *dns.NSEC:
					have = x.TypeBitMap
				case *dns.NSEC3:
					have = x.TypeBitMap
				case *dns.CSYNC:
					have = x.TypeBitMap
				case *dns.RRSIG:
					have = []uint16{x.TypeCovered}
				default:
					kwViol("C06/keyword-case/"+c.key, m, v, c.line, "a record listing type "+Itoa(int(t)), got)
					continue
				}
				ok := false
				for _, h := range have {
					if h == t {
						ok = true
					}
				}
				if !ok {
					kwViol("C06/keyword-case/"+c.key, m, v, c.line, "a record listing type "+Itoa(int(t)), got)
				}
			}
		}
	}
	// TYPEnnn: the prefix in every case, a type without mnemonic and one with
	for _, v := range casePatterns("TYPE", r) {
		stat["keyword_type_spellings_checked"]++
		line := "owner.example.org.\t5\tIN\t" + v + "65280\t\\# 2 abcd"
		got, rr := lineOutcome(line)
		if x, ok := rr.(*dns.RFC3597); !ok || x.Hdr.Name != "owner.example.org." || x.Hdr.Rrtype != 65280 || x.Hdr.Class != 1 || x.Hdr.Ttl != 5 || x.Rdata != "abcd" {
			kwViol("C06/keyword-case/type", "TYPE65280", v+"65280", line, "a record of type 65280, class IN, TTL 5 with the RDATA abcd", got)
		}
		want := ""
		line = "owner.example.org.\t5\tIN\t" + v + "1\t\\# 4 0a000001"
		want = "ok:owner.example.org.\t5\tIN\tA\t10.0.0.1"
		if got, _ := lineOutcome(line); got != want {
			kwViol("C06/keyword-case/type", "TYPE1", v+"1", line, want, got)
		}
		line = "owner.example.org.\t5\tIN\tNSEC\tnext.example.org. " + v + "65280"
		got, rr = lineOutcome(line)
		if n, ok := rr.(*dns.NSEC); !ok || len(n.TypeBitMap) != 1 || n.TypeBitMap[0] != 65280 {
			kwViol("C06/keyword-case/nsec-bitmap", "TYPE65280", v+"65280", line, "an NSEC record listing type 65280", got)
		}
	}
	lexCase("o 5 in type65280 \\# 0\n")
}

func classKeywordSweep(r *Rng) {
	for _, m := range sortedKeys(dns.StringToClass) {
		c := dns.StringToClass[m]
		if m != strings.ToUpper(m) {
			continue
		}
		stat["keyword_classes"]++
		_, alsoType := dns.StringToType[m]
		for _, v := range casePatterns(m, r) {
			for _, tpl := range []string{"owner.example.org.\t5\t%s\tA\t10.0.0.1", "owner.example.org.\t%s\t5\tA\t10.0.0.1", "owner.example.org.\t%s\ta\t10.0.0.1",
				"\t%s\tTXT\t\"in\""} {
				stat["keyword_class_spellings_checked"]++
				line := fmt.Sprintf(tpl, v)
				if tpl[0] == '\t' {
					line = "first.example.org.\t5\tIN\tA\t10.0.0.2\n" + line
				}
				want, _ := lineOutcomeN(fmt.Sprintf(tpl, m), tpl[0] == '\t')
				got, rr := lineOutcomeN(fmt.Sprintf(tpl, v), tpl[0] == '\t')
				if got != want {
					kwViol("C06/keyword-case/class", m, v, line, want, got)
					continue
				}
				// a class mnemonic that is not also a type mnemonic (ANY is read as the
				// type) names that class
				if !alsoType && (rr == nil || rr.Header().Class != c) {
					kwViol("C06/keyword-case/class", m, v, line, "a record of class "+Itoa(int(c)), got)
				}
			}
		}
		lexCase("o 5 " + strings.ToLower(m) + " a 10.0.0.1\n")
	}
	for _, v := range casePatterns("CLASS", r) {
		stat["keyword_class_spellings_checked"]++
		for _, line := range []string{"owner.example.org.\t5\t" + v + "32\tA\t10.0.0.1", "owner.example.org.\t" + v + "32\t5\tA\t10.0.0.1"} {
			want := "ok:owner.example.org.\t5\tCLASS32\tA\t10.0.0.1"
			if got, _ := lineOutcome(line); got != want {
				kwViol("C06/keyword-case/class", "CLASS32", v+"32", line, want, got)
			}
		}
		line := "owner.example.org.\t5\t" + v + "1\tA\t10.0.0.1"
		want := "ok:owner.example.org.\t5\tIN\tA\t10.0.0.1"
		if got, _ := lineOutcome(line); got != want {
			kwViol("C06/keyword-case/class", "CLASS1", v+"1", line, want, got)
		}
	}
	lexCase("o 5 class32 a 10.0.0.1\n")
}

// lineOutcomeN: as lineOutcome; with a leading record line when the line under
// test starts with a blank (owner omitted), whose record is skipped.
func lineOutcomeN(line string, leading bool) (string, dns.RR) {
	if !leading {
		return lineOutcome(line)
	}
	var rr dns.RR
	res := Protect(func() string {
		zp := dns.NewZoneParser(strings.NewReader("first.example.org.\t5\tIN\tA\t10.0.0.2\n"+line+"\n"), "example.org.", "")
		zp.SetDefaultTTL(3600)
		if _, ok := zp.Next(); !ok {
			return "first-record-missing"
		}
		got, ok := zp.Next()
		if err := zp.Err(); err != nil {
			if _, msg, _, _, _, _, isPE := dns.VerifParseError(err); isPE {
				return "err:" + msg
			}
			return "err:" + err.Error()
		}
		if !ok || got == nil {
			return "none"
		}
		rr = got
		return "ok:" + got.String()
	})
	return res, rr
}

func directiveKeywordSweep(r *Rng) {
	a1 := "A0a000001"
	first := rec{"first.example.org.", dns.TypeA, 1, 9, "A0a000009"}
	for _, d := range []struct {
		kw, arg string
		files   map[string]z.Recipe
		tail    string
		want    []rec
	}{
		{"$ORIGIN", "sub", nil, "www 5 IN A 10.0.0.1\n", []rec{{"www.sub.example.org.", dns.TypeA, 1, 5, a1}}},
		{"$TTL", "77", nil, "www IN A 10.0.0.1\n", []rec{{"www.example.org.", dns.TypeA, 1, 77, a1}}},
		{"$GENERATE", "1-2 h$ 5 a 10.0.0.$", nil, "", []rec{{"h1.example.org.", dns.TypeA, 1, 5, "A0a000001"}, {"h2.example.org.", dns.TypeA, 1, 5, "A0a000002"}}},
		{"$INCLUDE", "inc.zone", map[string]z.Recipe{"inc.zone": z.Lit("www 5 IN A 10.0.0.1\n")}, "", []rec{{"www.example.org.", dns.TypeA, 1, 5, a1}}},
		{"$INCLUDE", "inc.zone Sub", map[string]z.Recipe{"inc.zone": z.Lit("www 5 in a 10.0.0.1\n")}, "", []rec{{"www.Sub.example.org.", dns.TypeA, 1, 5, a1}}},
	} {
		few := map[string]bool{}
		for _, v := range fewPatterns(d.kw) {
			few[v] = true
		}
		for _, v := range casePatterns(d.kw, r) {
			for _, after := range []bool{false, true} {
				text := v + " " + d.arg + "\n" + d.tail
				want := d.want
				if after {
					text = "first 9 IN A 10.0.0.9\n" + text
					want = append([]rec{first}, d.want...)
				}
				c := cfgFor("example.org.", nil, text)
				if d.files != nil {
					c.File, c.Inc, c.HasFS, c.Files = "main.zone", true, true, d.files
				}
				o := z.Run(c, 1)
				stat["keyword_directive_spellings_checked"]++
				var got []string
				for _, e := range o.Events {
					if !strings.HasPrefix(e, "O:") {
						got = append(got, e)
					}
				}
				if g, w := strings.Join(got, "|"), showRecs(want); g != w {
					kwViol("C06/keyword-case/directive", d.kw, v, text, w, g)
				}
				if few[v] && !after {
					z.EmitD("parse", c.Args(), o.Show())
					stat["case_parse_keyword"]++
				}
			}
		}
		lexCase(strings.ToLower(d.kw) + " " + d.arg + "\n")
	}
}

// modelKeywordCases: records of the types whose RDATA the parser model covers,
// with the type and class in lower case and with one letter in lower case.
func modelKeywordCases() {
	for _, c := range []struct{ m, rd string }{
		{"A", "10.0.0.1"}, {"AAAA", "2001:db8::1"}, {"NS", "ns"}, {"CNAME", "c"}, {"PTR", "p"}, {"DNAME", "d"}, {"MB", "m"}, {"MG", "m"}, {"MR", "m"},
		{"MD", "m"}, {"MF", "m"}, {"NSAP-PTR", "n"}, {"TXT", "\"t\""}, {"SPF", "\"s\""}, {"AVC", "\"a\""}, {"NINFO", "\"n\""}, {"RESINFO", "\"r\""},
		{"AXFR", "\\# 0"}, {"MAILB", "\\# 1 00"},
	} {
		t := dns.StringToType[c.m]
		if !z.InScope(t) {
			continue
		}
		for i, v := range fewPatterns(c.m) {
			cl := []string{"in", "IN", "hs", "Ch", "iN"}[i%5]
			text := "www 5 " + cl + " " + v + " " + c.rd + "\n"
			cfg := cfgFor("example.org.", nil, text)
			o := z.Run(cfg, 1)
			z.EmitD("parse", cfg.Args(), o.Show())
			stat["case_parse_keyword"]++
		}
	}
}

func keywordCaseSweep(r *Rng) {
	typeKeywordSweep(r)
	classKeywordSweep(r)
	directiveKeywordSweep(r)
	modelKeywordCases()
}
