package main

// C15, round 7: how the TSIG names are spelled.
//
// Key name and algorithm name of a TSIG record are domain names; RFC 8945 4.3.3
// puts both into the digest "in canonical wire format" (lower case, not
// compressed), whatever their spelling in the record.  Until this round every
// name of the harness was written in lower case by everybody - the caller
// (Transfer.TsigSecret, SetTsig), the library, the peer - so the canonical form
// and the spelling were the same octets and nothing could tell a digest over
// the one from a digest over the other.  And as long as the library signs what
// the library verifies the two sides agree on anything.
//
// Class added: every TSIG name in lower, upper and mixed case - the key name in
// Transfer.TsigSecret / Server.TsigSecret and SetTsig, the algorithm name in
// SetTsig, both on the wire from the peer (echoed as received, or in another
// spelling) - measured against the harness's OWN RFC 8945 signer / verifier
// (refSign / refVerify / refDigest in wire.go, which hash the lower-cased names):
//
//   * the query Transfer.In writes must verify under refVerify (checkQuery runs
//     on every scripted transfer with TSIG);
//   * a chain of envelopes signed by refSign - canonical names in the digest,
//     the names on the wire spelled any way - must be delivered exactly;
//   * the same chain with one envelope altered must end with an error there;
//   * Transfer.Out inside a dns.Server: a request signed by refSign is accepted
//     (TsigStatus nil) and every envelope written verifies under refVerify.
//
// The one combination without verdict: a peer that spells the KEY name in
// another case than the caller did in Transfer.TsigSecret.  The secret is looked
// up under the name as it is on the wire (tsigSecretProvider), so the unchanged
// library answers ErrSecret; Transfer.TsigSecret is documented as "zonename must
// be in canonical form", the property does not say which spelling a receiver has
// to find its key under: counted (deviation_...), not judged.

import (
	"fmt"
	"strings"

	. "verif/harness/common"
)

const kNames = "C15/exact/tsig-names-in-mixed-case"

// spell: s in one of the spellings - 0 lower, 1 UPPER, 2 Capitalised-Labels, 3 aLTERNATING, 4 random
func spell(r *Rng, s string, how int) string {
	low := strings.ToLower(s)
	b := []byte(low)
	up := func(i int) {
		if b[i] >= 'a' && b[i] <= 'z' {
			b[i] -= 'a' - 'A'
		}
	}
	switch how {
	case 1:
		for i := range b {
			up(i)
		}
	case 2:
		for i := range b {
			if i == 0 || b[i-1] == '.' || b[i-1] == '-' {
				up(i)
			}
		}
	case 3:
		for i := range b {
			if i%2 == 1 {
				up(i)
			}
		}
	case 4:
		any := false
		for i := range b {
			if r.Bool() {
				up(i)
				any = any || b[i] != low[i]
			}
		}
		if !any {
			up(0)
		}
	}
	return string(b)
}

var namesNo int

func namesFamilies(r0 *Rng, thorough bool) {
	r := &Rng{S: r0.S ^ 0x7a3e5c15}
	type ks struct {
		kind   string
		stream []rrd
	}
	streams := []ks{{"axfr", axfrStream(5, 2)}, {"ixfr", ixfrStream(5, []diffd{{3, 5, 1, 1}})}, {"ixfr", axfrStream(7, 1)}}
	reps := 1
	if thorough {
		reps = 6
	}
	idx := 0
	// ---- V1. incoming: Transfer.In on the scripted connection
	for rep := 0; rep < reps; rep++ {
		for _, a := range algTable {
			for algHow := 0; algHow <= 4; algHow++ { // the caller's spelling of the algorithm in SetTsig
				for keyHow := 0; keyHow <= 4; keyHow++ { // the caller's spelling of the key name (TsigSecret and SetTsig)
					if algHow == 0 && keyHow == 0 {
						continue // everything in lower case: all the other families
					}
					for peerHow := 0; peerHow < 3; peerHow++ { // the peer: echoes / canonical algorithm name / yet another spelling of it
						idx++
						namesNo++
						fs := streams[idx%len(streams)]
						var envs [][]rrd
						switch idx % 4 {
						case 0:
							envs = [][]rrd{fs.stream}
						case 1:
							envs = [][]rrd{fs.stream[:1], fs.stream[1:]}
						default:
							envs = randomComposition(r, fs.stream)
						}
						mkc := func(fam string) xcase {
							c := base(fs.kind, true, fam, r)
							c.Alg = a.name
							c.AlgSpell = spell(r, a.name, algHow)
							c.KeyName = spell(r, fmt.Sprintf("key%d.names.example.", namesNo), keyHow)
							switch peerHow {
							case 1:
								c.PeerAlg = a.name
							case 2:
								c.PeerAlg = spell(r, a.name, 4)
							}
							c.Dgram = idx%5 == 0
							if c.Dgram {
								c.Chunk = 0
							}
							c.Reads = goodReads(c, envs, true)
							return c
						}
						for _, ref := range []bool{true, false} {
							// (a) an honest chain: refSign (canonical names in the digest) / dns.TsigGenerate
							c := mkc("names-in")
							for i := range c.Reads {
								c.Reads[i].Sig.Ref = ref
							}
							c.Reads = append(c.Reads, readSpec{Id: c.Qid, RRs: []rrd{A(99)}})
							signer := "dns.TsigGenerate"
							if ref {
								signer = "the harness's RFC 8945 signer: names in canonical form in the digest"
							}
							runOne(c, &expect{deliver: len(envs), then: "done", key: kNames,
								why: fmt.Sprintf("TSIG key %q, algorithm spelled %q by the caller and %q by the peer, envelopes signed in chain by %s: every envelope verifies (RFC 8945 4.3.3: the names enter the digest in canonical form, however they are spelled), the transfer must be delivered exactly", c.KeyName, c.algName(), c.peerAlg(), signer)},
								ref)
							st["names_alg_"+strings.TrimSuffix(a.name, ".")]++
						}
						// (b) the same chain, one envelope altered: must not pass
						k := r.Intn(len(envs))
						c := mkc("names-in-tamper")
						for i := range c.Reads {
							c.Reads[i].Sig.Ref = idx%2 == 0
						}
						switch idx % 3 {
						case 0:
							c.Reads[k].Sig.Tamper = true
						case 1:
							c.Reads[k].Sig.Key, c.Reads[k].Sig.Tag = 1, 900
						default:
							c.Reads[k].Muts = []mutSpec{{mMacBit, r.Intn(a.size * 8)}}
						}
						runOne(c, &expect{deliver: k, then: "error", key: kTsig + "/names-in-mixed-case",
							why: fmt.Sprintf("TSIG key %q, algorithm %q: envelope %d was altered / signed with another secret, the transfer must end there with an error", c.KeyName, c.algName(), k)}, true)
						// (c) the peer spells the KEY name otherwise than the caller did: no verdict
						if peerHow == 0 {
							c := mkc("names-in-peer-key-other-case")
							for how := 0; how <= 4 && (c.PeerKeyName == "" || c.PeerKeyName == c.KeyName); how++ {
								c.PeerKeyName = spell(r, c.KeyName, (keyHow+1+how)%5)
							}
							for i := range c.Reads {
								c.Reads[i].Sig.Ref = true
							}
							o := runOne(c, nil, false)
							if len(o.errs) > 0 && o.errs[0] == "secret" {
								st["deviation_peer_key_name_in_other_case_than_in_TsigSecret_is_ErrSecret"]++
							} else if len(o.errs) == len(envs) && o.errs[len(envs)-1] == "-" {
								st["peer_key_name_in_other_case_accepted"]++
							} else {
								st["peer_key_name_in_other_case_other_outcome"]++
							}
						}
					}
				}
			}
		}
	}

	// ---- V2. outgoing: Transfer.Out inside a dns.Server (in-memory listener); the
	// secondary is the harness's own signer / verifier, or Transfer.In
	k := 0
	for _, a := range algTable {
		for algHow := 0; algHow <= 4; algHow++ {
			for keyHow := 0; keyHow <= 4; keyHow++ {
				if algHow == 0 && keyHow == 0 {
					continue
				}
				k++
				if !thorough && a.name != algTable[0].name && k%3 != 0 {
					continue
				}
				namesNo++
				n := spell(r, fmt.Sprintf("key%d.names.example.", namesNo), keyHow)
				s := outStep{name: n, srv: secretPool[k%len(secretPool)], alg: a.name, algSpell: spell(r, a.name, algHow)}
				s.cli = s.srv
				steps := []outStep{s}
				if k%4 == 0 {
					// and a peer with another secret under the same (mixed case) name
					s2 := s
					s2.cli = secretPool[(k+1)%len(secretPool)]
					steps = append(steps, s2)
				}
				runOutSeq(r, "names-out", steps, true)
				if k%3 == 0 {
					s.lib = true
					runOutSeq(r, "names-out-transfer-in", []outStep{s}, true)
				}
			}
		}
	}
}
