// Package netfake provides scripted, kernel-free net.PacketConn, net.Listener
// and net.Conn objects for the C12 and C14 harnesses. The scripts decide which
// octets each Read returns (segmentation, short reads, EOF position) and the
// objects record everything written, so a real dns.Server / dns.Conn /
// dns.Client can be driven deterministically.
package netfake

import (
	"errors"
	"io"
	"net"
	"os"
	"strconv"
	"sync"
	"time"
)

// Addr identifies a scripted peer.
type Addr struct{ N int }

func (a Addr) Network() string { return "fake" }
func (a Addr) String() string  { return "fake:" + strconv.Itoa(a.N) }

// Write is one recorded write.
type Write struct {
	To   net.Addr
	Data []byte
}

// ---------------------------------------------------------------- PacketConn

// PacketConn delivers the scripted datagrams In[0], In[1], ... (datagram k comes
// from Addr{k} unless From is set) and then blocks until closed or until a read
// deadline in the past is set. Drained is closed when a ReadFrom finds the
// script exhausted, i.e. when every datagram has been handed out.
type PacketConn struct {
	mu       sync.Mutex
	cond     *sync.Cond
	in       [][]byte
	from     []net.Addr
	next     int
	copied   int
	deadline time.Time
	closed   bool
	drained  bool
	Drained  chan struct{}
	writes   []Write
	// OnWrite, when set, is called (without the lock) for every WriteTo.
	OnWrite func(to net.Addr, b []byte)
	// Hold, when set, makes ReadFrom wait on it before delivering datagram k
	// (used by ordering scripts).
	Hold func(k int)
}

func NewPacketConn(in [][]byte, from []net.Addr) *PacketConn {
	p := &PacketConn{in: in, from: from, Drained: make(chan struct{})}
	p.cond = sync.NewCond(&p.mu)
	return p
}

// Push appends a datagram to the script (allowed while the conn is in use).
func (p *PacketConn) Push(b []byte, from net.Addr) {
	p.mu.Lock()
	p.in = append(p.in, b)
	for len(p.from) < len(p.in)-1 {
		p.from = append(p.from, nil)
	}
	p.from = append(p.from, from)
	p.mu.Unlock()
	p.cond.Broadcast()
}

type timeoutErr struct{}

func (timeoutErr) Error() string   { return "i/o timeout (scripted)" }
func (timeoutErr) Timeout() bool   { return true }
func (timeoutErr) Temporary() bool { return true }
func (timeoutErr) Unwrap() error   { return os.ErrDeadlineExceeded }

// ErrTimeout is what scripted reads return once their deadline has passed.
var ErrTimeout net.Error = timeoutErr{}

func (p *PacketConn) ReadFrom(b []byte) (int, net.Addr, error) {
	p.mu.Lock()
	defer p.mu.Unlock()
	for {
		if p.closed {
			return 0, nil, net.ErrClosed
		}
		if !p.deadline.IsZero() && !p.deadline.After(time.Now()) {
			return 0, nil, ErrTimeout
		}
		if p.next < len(p.in) {
			k := p.next
			p.next++
			if p.Hold != nil {
				p.mu.Unlock()
				p.Hold(k)
				p.mu.Lock()
			}
			n := copy(b, p.in[k])
			p.copied++
			var a net.Addr = Addr{k}
			if k < len(p.from) && p.from[k] != nil {
				a = p.from[k]
			}
			return n, a, nil
		}
		if !p.drained {
			p.drained = true
			close(p.Drained)
		}
		p.cond.Wait()
	}
}

func (p *PacketConn) WriteTo(b []byte, to net.Addr) (int, error) {
	c := append([]byte(nil), b...)
	p.mu.Lock()
	if p.closed {
		p.mu.Unlock()
		return 0, net.ErrClosed
	}
	p.writes = append(p.writes, Write{to, c})
	f := p.OnWrite
	p.mu.Unlock()
	if f != nil {
		f(to, c)
	}
	return len(b), nil
}

func (p *PacketConn) Writes() []Write {
	p.mu.Lock()
	defer p.mu.Unlock()
	return append([]Write(nil), p.writes...)
}

func (p *PacketConn) Close() error {
	p.mu.Lock()
	p.closed = true
	p.mu.Unlock()
	p.cond.Broadcast()
	return nil
}
func (p *PacketConn) LocalAddr() net.Addr { return Addr{-1} }
func (p *PacketConn) SetDeadline(t time.Time) error {
	return p.SetReadDeadline(t)
}
func (p *PacketConn) SetReadDeadline(t time.Time) error {
	p.mu.Lock()
	p.deadline = t
	p.mu.Unlock()
	p.cond.Broadcast()
	if d := time.Until(t); !t.IsZero() && d > 0 {
		time.AfterFunc(d+time.Millisecond, p.cond.Broadcast)
	}
	return nil
}
func (p *PacketConn) SetWriteDeadline(t time.Time) error { return nil }

// ---------------------------------------------------------------- stream Conn

// Conn is a scripted stream connection. Reads return the chunks of the script
// one Read call per chunk (a chunk longer than the caller's buffer is split);
// after the last chunk Read returns io.EOF, or blocks until closed / deadline
// when HoldOpen is set. A zero-length chunk makes Read return (0, nil).
type Conn struct {
	mu       sync.Mutex
	cond     *sync.Cond
	chunks   [][]byte
	HoldOpen bool
	deadline time.Time
	closed   bool
	Closed   chan struct{}
	writes   [][]byte
	// WriteLimit > 0 makes every Write accept at most that many octets
	// (a short write, reported with a nil error as a misbehaving conn would,
	// or with io.ErrShortWrite when ShortErr is set).
	WriteLimit int
	ShortErr   bool
	// WriteErrAfter >= 0 makes the Write that would pass that many octets in
	// total fail with an error after accepting the part that fits.
	WriteErrAfter int
	written       int
	OnWrite       func(b []byte)
	Local, Remote net.Addr
	reads         int
}

func NewConn(chunks [][]byte) *Conn {
	chunks = append([][]byte(nil), chunks...)
	c := &Conn{chunks: chunks, Closed: make(chan struct{}), WriteErrAfter: -1, Local: Addr{-1}, Remote: Addr{-2}}
	c.cond = sync.NewCond(&c.mu)
	return c
}

// Feed appends chunks to the script of a HoldOpen conn.
func (c *Conn) Feed(chunks ...[]byte) {
	c.mu.Lock()
	c.chunks = append(c.chunks, chunks...)
	c.mu.Unlock()
	c.cond.Broadcast()
}

// Finish lets a HoldOpen conn deliver io.EOF after its remaining chunks.
func (c *Conn) Finish() {
	c.mu.Lock()
	c.HoldOpen = false
	c.mu.Unlock()
	c.cond.Broadcast()
}

func (c *Conn) Read(b []byte) (int, error) {
	c.mu.Lock()
	defer c.mu.Unlock()
	for {
		if c.closed {
			return 0, net.ErrClosed
		}
		if !c.deadline.IsZero() && !c.deadline.After(time.Now()) {
			return 0, ErrTimeout
		}
		if len(c.chunks) > 0 {
			c.reads++
			ch := c.chunks[0]
			if len(b) == 0 {
				return 0, nil
			}
			n := copy(b, ch)
			if n < len(ch) {
				c.chunks[0] = ch[n:]
			} else {
				c.chunks = c.chunks[1:]
			}
			return n, nil
		}
		if !c.HoldOpen {
			return 0, io.EOF
		}
		c.cond.Wait()
	}
}

// Reads returns the number of Read calls that returned data (or an empty chunk).
func (c *Conn) Reads() int {
	c.mu.Lock()
	defer c.mu.Unlock()
	return c.reads
}

var ErrScriptedWrite = errors.New("scripted write error")

func (c *Conn) Write(b []byte) (int, error) {
	c.mu.Lock()
	if c.closed {
		c.mu.Unlock()
		return 0, net.ErrClosed
	}
	n := len(b)
	var err error
	if c.WriteLimit > 0 && n > c.WriteLimit {
		n = c.WriteLimit
		if c.ShortErr {
			err = io.ErrShortWrite
		}
	}
	if c.WriteErrAfter >= 0 && c.written+n > c.WriteErrAfter {
		n = c.WriteErrAfter - c.written
		if n < 0 {
			n = 0
		}
		err = ErrScriptedWrite
	}
	c.written += n
	d := append([]byte(nil), b[:n]...)
	c.writes = append(c.writes, d)
	f := c.OnWrite
	c.mu.Unlock()
	if f != nil {
		f(d)
	}
	return n, err
}

// Writes returns the octets accepted by each Write call.
func (c *Conn) Writes() [][]byte {
	c.mu.Lock()
	defer c.mu.Unlock()
	return append([][]byte(nil), c.writes...)
}

// Written returns all accepted octets concatenated.
func (c *Conn) Written() []byte {
	var o []byte
	for _, w := range c.Writes() {
		o = append(o, w...)
	}
	return o
}

func (c *Conn) Close() error {
	c.mu.Lock()
	if c.closed {
		c.mu.Unlock()
		return net.ErrClosed
	}
	c.closed = true
	close(c.Closed)
	c.mu.Unlock()
	c.cond.Broadcast()
	return nil
}
func (c *Conn) LocalAddr() net.Addr  { return c.Local }
func (c *Conn) RemoteAddr() net.Addr { return c.Remote }
func (c *Conn) SetDeadline(t time.Time) error {
	return c.SetReadDeadline(t)
}
func (c *Conn) SetReadDeadline(t time.Time) error {
	c.mu.Lock()
	c.deadline = t
	c.mu.Unlock()
	c.cond.Broadcast()
	if d := time.Until(t); !t.IsZero() && d > 0 {
		time.AfterFunc(d+time.Millisecond, c.cond.Broadcast)
	}
	return nil
}
func (c *Conn) SetWriteDeadline(t time.Time) error { return nil }

// ---------------------------------------------------------------- Listener

// Listener hands out the scripted connections and then blocks until closed.
type Listener struct {
	mu     sync.Mutex
	cond   *sync.Cond
	conns  []net.Conn
	closed bool
}

func NewListener(conns ...net.Conn) *Listener {
	l := &Listener{conns: conns}
	l.cond = sync.NewCond(&l.mu)
	return l
}

// Add queues another connection.
func (l *Listener) Add(c net.Conn) {
	l.mu.Lock()
	l.conns = append(l.conns, c)
	l.mu.Unlock()
	l.cond.Broadcast()
}

func (l *Listener) Accept() (net.Conn, error) {
	l.mu.Lock()
	defer l.mu.Unlock()
	for {
		if l.closed {
			return nil, net.ErrClosed
		}
		if len(l.conns) > 0 {
			c := l.conns[0]
			l.conns = l.conns[1:]
			return c, nil
		}
		l.cond.Wait()
	}
}
func (l *Listener) Close() error {
	l.mu.Lock()
	l.closed = true
	l.mu.Unlock()
	l.cond.Broadcast()
	return nil
}
func (l *Listener) Addr() net.Addr { return Addr{-1} }

// WaitClosed waits until c has been closed or the timeout passes; it reports
// whether the close was seen.
func WaitClosed(c *Conn, d time.Duration) bool {
	select {
	case <-c.Closed:
		return true
	case <-time.After(d):
		return false
	}
}

// WaitChan waits for ch with a timeout.
func WaitChan(ch <-chan struct{}, d time.Duration) bool {
	select {
	case <-ch:
		return true
	case <-time.After(d):
		return false
	}
}

// ---------------------------------------------------------------- datagram Conn (client side)

// DgramConn is a connected datagram socket as a client sees it: it implements
// both net.Conn and net.PacketConn (so dns.Conn treats it as a packet conn).
// Reads return the scripted datagrams of the embedded PacketConn, then block
// until the read deadline passes.
type DgramConn struct {
	*PacketConn
	Remote net.Addr
}

func NewDgramConn(in [][]byte) *DgramConn {
	return &DgramConn{PacketConn: NewPacketConn(in, nil), Remote: Addr{-2}}
}
func (d *DgramConn) Read(b []byte) (int, error) {
	n, _, err := d.PacketConn.ReadFrom(b)
	return n, err
}
func (d *DgramConn) Write(b []byte) (int, error) { return d.PacketConn.WriteTo(b, d.Remote) }
func (d *DgramConn) RemoteAddr() net.Addr        { return d.Remote }

// Delivered reports how many scripted datagrams have been copied into a
// caller's buffer.
func (p *PacketConn) Delivered() int {
	p.mu.Lock()
	defer p.mu.Unlock()
	return p.copied
}
