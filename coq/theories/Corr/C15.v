(* Corr/C15.v — case runner for the zone-transfer loops.
   fn   = axfr | ixfr
   args = tsig(0/1), qid, qser, tag of the request MAC, then one string per read:
            x                          a failed read (EOF, cut frame, ...)
            id:rcode:sig:rrs           an envelope
          sig = n | key.prev.to.tag.tamper.timeok      (numbers, flags 0/1)
          rrs = comma separated  s<serial> (an SOA) | a<pid> (any other record)
   out  = items separated by |, each  rrs:err  with err = - when nil; then ;k
          with k the number of frames taken from the connection (every loop
          iteration reads one and sends one item, the last may hit the end). *)
From Dns Require Import Model.Xfr.
Open Scope N_scope.

Fixpoint split_on (c : ascii) (s : string) : list string :=
  match s with
  | EmptyString => [EmptyString]
  | String a r =>
    let l := split_on c r in
    if Ascii.eqb a c then EmptyString :: l
    else match l with h :: t => String a h :: t | [] => [String a EmptyString] end
  end.

Definition nonempty (s : string) : bool := match s with EmptyString => false | _ => true end.

Definition parse_rr (s : string) : rr :=
  match s with
  | String c r => if Ascii.eqb c "s"%char then mkRR true (undec r) 0 else mkRR false 0 (undec r)
  | EmptyString => mkRR false 0 0
  end.
Definition parse_rrs (s : string) : list rr := map parse_rr (filter nonempty (split_on ","%char s)).

Definition flag (s : string) : bool := negb (undec s =? 0).
Definition parse_sig (s : string) : option sigd :=
  if String.eqb s "n" then None
  else let f := split_on "."%char s in
       Some (mkSig (undec (arg f 0)) (undec (arg f 1)) (flag (arg f 2)) (undec (arg f 3))
                   (flag (arg f 4)) (flag (arg f 5))).
Definition parse_read (s : string) : rd :=
  if String.eqb s "x" then RFail "read"%string
  else let f := split_on ":"%char s in
       RMsg (mkEnv (undec (arg f 0)) (undec (arg f 1)) (parse_rrs (arg f 3)) (parse_sig (arg f 2))).

Definition show_rr (r : rr) : string :=
  if r_soa r then "s"%string +++ dec (r_serial r) else "a"%string +++ dec (r_pid r).
Definition show_item (i : item) : string :=
  join ","%string (map show_rr (i_rrs i)) +++ ":"%string +++
  match i_err i with None => "-"%string | Some c => c end.
Definition show_items (l : list item) : string := join "|"%string (map show_item l).

Definition run (fn : string) (args : list string) : string :=
  let tsig := flag (arg args 0) in
  let qid := undec (arg args 1) in
  let qser := undec (arg args 2) in
  let m0 := undec (arg args 3) in
  let reads := map parse_read (skipn 4 args) in
  let fin (its : list item) := show_items its +++ ";"%string +++ decn (Nat.min (length its) (length reads)) in
  if String.eqb fn "axfr" then fin (in_axfr N verify_tag tsig qid m0 reads)
  else if String.eqb fn "ixfr" then fin (in_ixfr N verify_tag tsig qid qser m0 reads)
  else "unknown-fn"%string.
