from .core import Check


class C09(Check):
    prop = "C09"
    props_rel = "Props/C09"
    corr_module = "Corr.C09"
    corr_rel = "Corr/C09"
    gen_rels = ["Gen/Layouts", "Gen/Registry", "Gen/Consts", "Gen/Structs", "Gen/Lens"]
    shard_size = 60
    model_desc = ("Model/Truncate.v (Msg.Truncate, truncateLoop, popEdns0, IsTsig) over Model/Len.v and the translated len() terms")
    rule = ("replies with/without OPT (any position), shared and unshared names, escape-free common types and arbitrary types, x "
            "sizes 0, 511..513, 1232, 4096, 65535, random, and the exact packed length of the message and of every answer "
            "prefix +-1; direct oracles: fits in max(size,512) when header+question+OPT fit, section prefixes, no later section "
            "after a drop, OPT retained, TC iff dropped or already set, nothing dropped when it fits, first dropped record "
            "would not fit (plain messages), TSIG untouched; model cases: the truncated message for a sample.")
    trusted = ["hex/base64/base32 text codecs of Go's encoding/* are outside the model (fields held as the octets they denote)",
               "EDNS0 option and SVCB parameter values are (code, packed value, reported length) triples at this level"]

    def nontrivial(self, c):
        return len(c["args"][0]) > 80


CHECK = C09()
