package main

// C13: server start / shutdown is graceful, terminates, leaks nothing.
//
// The REAL dns.Server is run over scripted listeners / connections (a fake
// net.Listener with fake net.Conns for TCP, a fake generic net.PacketConn for
// UDP) whose blocking calls are released by the harness, with handlers that
// block on gates the harness controls, so that chosen interleavings of start,
// accept, request read, handler enter / exit, reply, client close, Shutdown,
// ShutdownContext expiry, second start / shutdown are driven.  Every boundary
// event is appended to one log under one mutex.  The log is (a) judged by
// direct oracles and (b) emitted as a model case: the Coq side checks that
// the life-cycle LTS accepts it.  The same oracles are applied to runs over
// real loopback UDP / TCP sockets.

import (
	"context"
	"crypto/ecdsa"
	"crypto/elliptic"
	"crypto/rand"
	"crypto/tls"
	"crypto/x509"
	"crypto/x509/pkix"
	"fmt"
	"io"
	"math/big"
	"net"
	"os"
	"runtime"
	"sort"
	"strings"
	"sync"
	"time"

	"github.com/miekg/dns"
	. "verif/harness/common"
)

func main() { Main(runC13) }

const waitLong = 10 * time.Second

var stuckConfirmed int
var stillTracked int

var st = map[string]int{}

// counters bumped by goroutines other than the one that runs the scenarios (merged into st at the end)
var stG = map[string]int{}
var stGMu sync.Mutex

func bump(k string) {
	stGMu.Lock()
	stG[k]++
	stGMu.Unlock()
}

// ---------------------------------------------------------------- event log
type world struct {
	mode string // tcp | udp
	mu   sync.Mutex
	cond *sync.Cond
	ev   []string

	srv     *dns.Server
	lis     *fakeListener
	pc      *fakePC
	conns   map[int]*fakeConn
	gates   map[int]chan struct{}
	cancels map[int]context.CancelFunc
	replies map[int]int
	hw      sync.WaitGroup // harness goroutines (start / shutdown callers)
	stuck   string
	noReply bool

	// the window between the srv.isStarted() test and the read-deadline region
	winArmed   map[int]bool
	winEntered map[int]chan struct{}
	winRelease map[int]chan struct{}

	// hold points inside the fakes and MsgAcceptFunc: a server thread is held AT a step of
	// its read loop until the lock region of a Shutdown call has taken effect (or, for a
	// step the server runs under srv.lock, until the Shutdown call is blocked on that lock)
	holds       map[string]*holdPoint
	holdLog     []string  // how each hold ended (stat only)
	sdInvokedAt time.Time // when the latest Shutdown call of this life was invoked

	// lives of the same Server value: logs of the lives that are over
	past     [][]string
	panicked []string // a serve / Shutdown call panicked (recovered by the harness)

	hijackNext  map[int]string // the next handler on connection c hijacks it ("ret": and returns; "stay": and keeps running)
	wrap        bool           // TLS-style listener: Accept returns a wrapper around the connection
	outside     bool           // this life: the listener / PacketConn was closed from outside
	pastOutside []bool         // ... of the lives that are over
	pastLeft    [][]string     // what was left open when each of them was over
	failSeq     int            // ids of the failing start calls of this life: 50, 51, ...
	viols       [][2]string    // direct-oracle failures found while the plan ran (key, what); reported by judge
	abort       bool           // the rest of the plan makes no sense any more

	// input that never reaches a handler
	replying       map[int]int                  // handler of id is inside WriteMsg: the next write on its connection / to its address is its reply
	acceptOverride map[int]dns.MsgAcceptAction  // MsgAcceptFunc's verdict for the next message with this id (one shot)
	tinyOwner      int                          // the connection a message of fewer than 2 octets (no id) was sent on
	invalidCalls   int                          // calls of MsgInvalidFunc
	badSent        map[int]int                  // synchronous bad messages sent per connection (tcp)
	serverWrites   int                          // writes of the server outside a handler reply (FORMERR / NOTIMP answers, TLS records)

	// real crypto/tls over the fake transport: srv.Listener is tls.NewListener(fake listener), every
	// accepted connection is a real *tls.Conn whose handshake runs inside the server's first read
	tlsMode bool
	cw      sync.WaitGroup // client goroutines (TLS handshake + reply reader, senders)
}

func (w *world) addViol(key, what string) {
	w.mu.Lock()
	w.viols = append(w.viols, [2]string{key, what})
	w.mu.Unlock()
}

// ---------------------------------------------------------------- start calls that fail by themselves
var failKinds = []string{"LS-bad-network", "LS-tls-no-certificates", "LS-tcp-address-in-use", "LS-udp-address-in-use",
	"LS-bad-port", "AS-no-listeners", "AS-closed-udpconn"}

// failStart makes one start call on srv (which must not be serving) that has to fail by
// itself, before anything is served: ListenAndServe with a bad network, tcp-tls without
// certificates, an address in use (tcp / udp: a second socket holds the port), an invalid port;
// ActivateAndServe without listeners, with a closed *net.UDPConn (setUDPSocketOptions fails).
// Every field it sets for the purpose is put back.  Result: "fl" (an error of its own), "se"
// (the already-started error), "ok" (returned nil), "hung", "skip" (could not be provoked).
func failStart(srv *dns.Server, kind int) (string, string) {
	oNet, oAddr, oTLS, oPC, oL := srv.Net, srv.Addr, srv.TLSConfig, srv.PacketConn, srv.Listener
	defer func() { srv.Net, srv.Addr, srv.TLSConfig, srv.PacketConn, srv.Listener = oNet, oAddr, oTLS, oPC, oL }()
	listen := true
	var closers []func()
	defer func() {
		for _, c := range closers {
			c()
		}
	}()
	switch failKinds[kind%len(failKinds)] {
	case "LS-bad-network":
		srv.Net, srv.Addr = "bogus", "127.0.0.1:0"
	case "LS-tls-no-certificates":
		srv.Net, srv.Addr, srv.TLSConfig = "tcp-tls", "127.0.0.1:0", nil
	case "LS-tcp-address-in-use":
		b, err := net.Listen("tcp", "127.0.0.1:0")
		if err != nil {
			return "skip", err.Error()
		}
		closers = append(closers, func() { b.Close() })
		srv.Net, srv.Addr = "tcp", b.Addr().String()
	case "LS-udp-address-in-use":
		b, err := net.ListenPacket("udp", "127.0.0.1:0")
		if err != nil {
			return "skip", err.Error()
		}
		closers = append(closers, func() { b.Close() })
		srv.Net, srv.Addr = "udp", b.LocalAddr().String()
	case "LS-bad-port":
		srv.Net, srv.Addr = "tcp", "127.0.0.1:99999"
	case "AS-no-listeners":
		listen = false
		srv.PacketConn, srv.Listener = nil, nil
	case "AS-closed-udpconn":
		listen = false
		b, err := net.ListenPacket("udp", "127.0.0.1:0")
		if err != nil {
			return "skip", err.Error()
		}
		b.Close()
		srv.PacketConn, srv.Listener = b, nil
	}
	res := make(chan error, 1)
	go func() {
		defer func() {
			if r := recover(); r != nil {
				res <- fmt.Errorf("start call panicked: %v", r)
			}
		}()
		if listen {
			res <- srv.ListenAndServe()
		} else {
			res <- srv.ActivateAndServe()
		}
	}()
	select {
	case err := <-res:
		switch {
		case err == nil:
			return "ok", ""
		case strings.Contains(err.Error(), "already started"):
			return "se", err.Error()
		default:
			return "fl", err.Error()
		}
	case <-time.After(waitLong):
		return "hung", ""
	}
}

// expectNotStarted: Shutdown of a server that is not started (never started, its life over, its
// start failed) must return the not-started error at once instead of blocking.  The context
// only bounds the time a violating implementation costs; the unchanged code returns under the
// lock without waiting for anything.
func expectNotStarted(srv *dns.Server) (string, string) {
	ctx, cancel := context.WithTimeout(context.Background(), 1500*time.Millisecond)
	defer cancel()
	err := srv.ShutdownContext(ctx)
	switch {
	case err == nil:
		return "0", "nil"
	case err == context.DeadlineExceeded || err == context.Canceled:
		return "1", err.Error()
	case strings.Contains(err.Error(), "not started"):
		return "2", err.Error()
	}
	return "9", err.Error()
}

type holdPoint struct {
	armed   bool
	entered chan struct{}
	release chan struct{}
}

// armHold arms the hold point key:
//
//	dl.<c>  inside SetReadDeadline(future) of connection c (0: the PacketConn), before it takes effect
//	rd.<c>  inside Read / ReadFrom, after request / packet c has been consumed, before the call returns
//	ac.<c>  inside Accept, after connection c has been taken, before the call returns
//	ma.<c>  inside MsgAcceptFunc for request c (worker running, handler not yet entered)
//	cl.<c>  inside Close of connection c, before it takes effect
func (w *world) armHold(key string) {
	w.mu.Lock()
	w.holds[key] = &holdPoint{armed: true, entered: make(chan struct{}), release: make(chan struct{})}
	w.mu.Unlock()
}
func (w *world) waitHold(key string) {
	w.mu.Lock()
	h := w.holds[key]
	w.mu.Unlock()
	if h == nil {
		return
	}
	select {
	case <-h.entered:
	case <-time.After(waitLong):
		if w.stuck == "" {
			w.stuck = "no server thread reached the step " + key
		}
	}
}
func (w *world) releaseHold(key string) {
	w.mu.Lock()
	h := w.holds[key]
	var rel chan struct{}
	if h != nil {
		rel = h.release
		h.release = nil
		h.armed = false
	}
	w.mu.Unlock()
	if rel != nil {
		close(rel)
	}
}

// holdAt is called by a fake (never with its own mutex held) at a step of the server's read
// loop.  If that step is armed, the calling server thread stays there until
//   - passed() reports that the lock region of a Shutdown call has taken effect on the object, or
//   - lockHeld (the server may run this step under srv.lock, so Shutdown cannot get in): a
//     ShutdownContext call is blocked acquiring a lock, or was invoked more than 3 s ago, or
//   - the harness releases the point.
//
// It only delays a thread inside a net.Conn / net.PacketConn / net.Listener / user callback,
// which any such object may do; it is never a verdict by itself.
func (w *world) holdAt(key string, lockHeld bool, passed func() bool) {
	w.mu.Lock()
	h := w.holds[key]
	if h == nil || !h.armed {
		w.mu.Unlock()
		return
	}
	h.armed = false
	rel := h.release
	w.mu.Unlock()
	close(h.entered)
	how := "timeout"
	start := time.Now()
loop:
	for time.Since(start) < waitLong {
		select {
		case <-rel:
			how = "released"
			break loop
		default:
		}
		if passed() {
			how = "shutdown-ran"
			break
		}
		if lockHeld {
			w.mu.Lock()
			inv := w.sdInvokedAt
			w.mu.Unlock()
			if !inv.IsZero() {
				if shutdownBlockedOnLock() {
					how = "shutdown-blocked-on-lock"
					break
				}
				if time.Since(inv) > 3*time.Second {
					how = "undecided"
					break
				}
			}
		}
		time.Sleep(300 * time.Microsecond)
	}
	w.mu.Lock()
	w.holdLog = append(w.holdLog, key[:2]+"_"+how)
	w.mu.Unlock()
}

// shutdownBlockedOnLock: some goroutine is inside (*Server).ShutdownContext and blocked in
// sync.(*RWMutex).Lock / sync.(*Mutex).Lock called directly from it (goroutine dump).
func shutdownBlockedOnLock() bool {
	buf := make([]byte, 1<<18)
	n := runtime.Stack(buf, true)
	lines := strings.Split(string(buf[:n]), "\n")
	for i, l := range lines {
		if i >= 2 && strings.Contains(l, "(*Server).ShutdownContext(") &&
			strings.HasPrefix(lines[i-2], "sync.(*") && strings.Contains(lines[i-2], ").Lock(") {
			return true
		}
	}
	return false
}

// windowReader is installed with Server.DecorateReader: its methods run after
// the caller tested srv.isStarted() and before the default reader takes the
// read lock and sets the deadline; an armed window holds the thread there.
type windowReader struct {
	w *world
	r dns.Reader
}

func (x windowReader) hold(id int) {
	x.w.mu.Lock()
	armed := x.w.winArmed[id]
	if armed {
		x.w.winArmed[id] = false
	}
	ent, rel := x.w.winEntered[id], x.w.winRelease[id]
	x.w.mu.Unlock()
	if armed {
		close(ent)
		<-rel
	}
}
func (x windowReader) ReadTCP(c net.Conn, t time.Duration) ([]byte, error) {
	fc := underFake(c)
	if a, ok := c.RemoteAddr().(idAddr); ok {
		x.hold(a.id)
	}
	if fc == nil {
		return x.r.ReadTCP(c, t)
	}
	fc.mu.Lock()
	fc.rxArmed = true
	fc.mu.Unlock()
	m, err := x.r.ReadTCP(c, t)
	fc.mu.Lock()
	armed := fc.rxArmed
	fc.rxArmed = false
	fc.mu.Unlock()
	if err != nil && armed {
		// the read failed although the transport delivered everything it was asked for: the
		// octets were no TLS record / the TLS handshake failed
		x.w.log(fmt.Sprintf("rx.%d", fc.id))
		bump("reads_failed_above_the_transport")
	}
	return m, err
}
func (x windowReader) ReadUDP(c *net.UDPConn, t time.Duration) ([]byte, *dns.SessionUDP, error) {
	return x.r.ReadUDP(c, t)
}
func (x windowReader) ReadPacketConn(c net.PacketConn, t time.Duration) ([]byte, net.Addr, error) {
	x.hold(0)
	return x.r.(dns.PacketConnReader).ReadPacketConn(c, t)
}
func (w *world) arm(id int) {
	w.mu.Lock()
	w.winArmed[id] = true
	w.winEntered[id] = make(chan struct{})
	w.winRelease[id] = make(chan struct{})
	w.mu.Unlock()
}
func (w *world) waitWindow(id int) {
	w.mu.Lock()
	ent := w.winEntered[id]
	w.mu.Unlock()
	select {
	case <-ent:
	case <-time.After(waitLong):
		if w.stuck == "" {
			w.stuck = "the reader did not reach the window between isStarted() and the read"
		}
	}
}
func (w *world) unhold(id int) {
	w.mu.Lock()
	rel := w.winRelease[id]
	w.winRelease[id] = nil
	w.mu.Unlock()
	if rel != nil {
		close(rel)
	}
}

func newWorld(mode string) *world {
	w := &world{mode: mode, conns: map[int]*fakeConn{}, gates: map[int]chan struct{}{}, cancels: map[int]context.CancelFunc{}, replies: map[int]int{},
		winArmed: map[int]bool{}, winEntered: map[int]chan struct{}{}, winRelease: map[int]chan struct{}{}, holds: map[string]*holdPoint{}, hijackNext: map[int]string{},
		replying: map[int]int{}, acceptOverride: map[int]dns.MsgAcceptAction{}, badSent: map[int]int{}}
	w.cond = sync.NewCond(&w.mu)
	w.srv = &dns.Server{Handler: dns.HandlerFunc(w.handler), NotifyStartedFunc: func() { w.log("n") }}
	w.srv.DecorateReader = func(r dns.Reader) dns.Reader { return windowReader{w, r} }
	w.srv.MsgAcceptFunc = func(dh dns.Header) dns.MsgAcceptAction {
		w.holdAt(fmt.Sprintf("ma.%d", dh.Id), false, w.shutdownSeen)
		act := dns.DefaultMsgAcceptFunc(dh)
		w.mu.Lock()
		if ov, ok := w.acceptOverride[int(dh.Id)]; ok {
			act = ov
			delete(w.acceptOverride, int(dh.Id))
		}
		w.mu.Unlock()
		if act != dns.MsgAccept {
			// the server is about to drop / reject this message without calling the handler
			// (logged before the verdict is handed back: the worker still holds the message)
			w.log(fmt.Sprintf("ig.%d", dh.Id))
			bump("messages_ignored_or_rejected_by_msgacceptfunc")
		}
		return act
	}
	w.srv.MsgInvalidFunc = func(m []byte, err error) {
		w.mu.Lock()
		w.invalidCalls++
		tiny := w.tinyOwner
		w.cond.Broadcast()
		w.mu.Unlock()
		bump("msginvalidfunc_calls")
		if w.mode == "udp" && len(m) < 12 {
			return // a short datagram: ps.<p> was logged when ReadFrom handed it out; it has no worker
		}
		// tcp: no complete header; tcp / udp: accepted by MsgAcceptFunc, but the body does not unpack.
		// serveDNS is about to return without calling the handler.
		id := tiny
		if len(m) >= 2 {
			id = int(m[0])<<8 | int(m[1])
		}
		w.log(fmt.Sprintf("ig.%d", id))
	}
	w.newTransport()
	return w
}

// newTransport gives the Server value a new (unused) listener / PacketConn.
func (w *world) newTransport() {
	if w.mode == "tcp" {
		w.lis = &fakeListener{w: w, queue: make(chan *fakeConn, 64), closed: make(chan struct{}), errs: make(chan error, 8)}
		w.srv.Listener = w.lis
	} else {
		w.pc = &fakePC{w: w}
		w.pc.cond = sync.NewCond(&w.pc.mu)
		w.srv.PacketConn = w.pc
	}
}

// newLife: the previous life of the Server value is over (every start / Shutdown call has
// returned, no goroutine of it remains); its log is archived, the same Server value gets a
// new listener / PacketConn and the per-life bookkeeping of the harness starts afresh.
func (w *world) newLife(name string, base int, plan []string) bool {
	w.hijackWrapUp()
	if !w.callersReturned() {
		return false
	}
	w.clientsWrapUp()
	w.goroutinesBack(name, base, plan)
	left := w.leftover()
	w.mu.Lock()
	w.past = append(w.past, w.ev)
	w.pastOutside = append(w.pastOutside, w.outside)
	w.pastLeft = append(w.pastLeft, left)
	w.outside = false
	w.wrap = false
	w.tlsMode = false
	w.hijackNext = map[int]string{}
	w.replying, w.acceptOverride, w.badSent = map[int]int{}, map[int]dns.MsgAcceptAction{}, map[int]int{}
	w.ev = nil
	w.conns = map[int]*fakeConn{}
	w.gates = map[int]chan struct{}{}
	w.cancels = map[int]context.CancelFunc{}
	w.replies = map[int]int{}
	w.winArmed, w.winEntered, w.winRelease = map[int]bool{}, map[int]chan struct{}{}, map[int]chan struct{}{}
	w.holds = map[string]*holdPoint{}
	w.sdInvokedAt = time.Time{}
	w.mu.Unlock()
	w.newTransport()
	return true
}

func (w *world) log(e string) {
	w.mu.Lock()
	w.ev = append(w.ev, e)
	w.cond.Broadcast()
	w.mu.Unlock()
}
func (w *world) count(e string) int {
	n := 0
	for _, x := range w.ev {
		if x == e {
			n++
		}
	}
	return n
}

// countRet: e is the return of a call (sr.v, dr.j.r): the number of returns of that call with
// ANY result.  A plan waits for the call to return; whether the result is the right one is
// for the oracles and the model to say (no 10 s wait, and a precise verdict instead of "stuck").
func (w *world) countRet(e string) int {
	pre := ""
	switch {
	case strings.HasPrefix(e, "sr."):
		pre = "sr."
	case strings.HasPrefix(e, "dr."):
		pre = e[:strings.LastIndexByte(e, '.')+1]
	default:
		return w.count(e)
	}
	n := 0
	for _, x := range w.ev {
		if strings.HasPrefix(x, pre) {
			n++
		}
	}
	return n
}

// waitFor blocks until event e has been logged at least n times.
func (w *world) waitFor(e string, n int) bool {
	deadline := time.Now().Add(waitLong)
	timer := time.AfterFunc(waitLong, func() { w.mu.Lock(); w.cond.Broadcast(); w.mu.Unlock() })
	defer timer.Stop()
	w.mu.Lock()
	defer w.mu.Unlock()
	for w.countRet(e) < n {
		if time.Now().After(deadline) {
			if w.stuck == "" {
				w.stuck = fmt.Sprintf("event %s (x%d) did not happen within %s", e, n, waitLong)
			}
			return false
		}
		w.cond.Wait()
	}
	return true
}
// softWait: wait until event e has been logged, at most for d; never a verdict
func (w *world) softWait(e string, d time.Duration) {
	end := time.Now().Add(d)
	for time.Now().Before(end) {
		w.mu.Lock()
		n := w.countRet(e)
		w.mu.Unlock()
		if n > 0 {
			return
		}
		time.Sleep(200 * time.Microsecond)
	}
	st["soft_waits_expired"]++
}
func (w *world) events() []string {
	w.mu.Lock()
	defer w.mu.Unlock()
	return append([]string(nil), w.ev...)
}
func (w *world) gate(id int) chan struct{} {
	w.mu.Lock()
	defer w.mu.Unlock()
	g, ok := w.gates[id]
	if !ok {
		g = make(chan struct{}, 64)
		w.gates[id] = g
	}
	return g
}

type idAddr struct{ id int }

func (a idAddr) Network() string { return "fake" }
func (a idAddr) String() string  { return fmt.Sprintf("fake:%d", a.id) }

func (w *world) handler(rw dns.ResponseWriter, req *dns.Msg) {
	id := -1
	if a, ok := rw.RemoteAddr().(idAddr); ok {
		id = a.id
	}
	w.mu.Lock()
	hj := w.hijackNext[id]
	delete(w.hijackNext, id)
	fc := w.conns[id]
	w.mu.Unlock()
	w.log(fmt.Sprintf("he.%d", id))
	<-w.gate(id)
	if !w.noReply {
		m := new(dns.Msg)
		m.SetReply(req)
		// the next write on this connection / to this address is the handler's reply (rp);
		// everything else the server writes (its own FORMERR / NOTIMP answers, TLS records) is not
		w.mu.Lock()
		w.replying[id]++
		w.mu.Unlock()
		rw.WriteMsg(m)
		w.mu.Lock()
		if w.replying[id] > 0 {
			w.replying[id]--
		}
		w.mu.Unlock()
	}
	if hj == "" {
		w.log(fmt.Sprintf("hx.%d", id))
		return
	}
	// the handler takes the connection over
	rw.Hijack()
	if w.mode != "tcp" || fc == nil {
		// Hijack means nothing for a PacketConn server: an ordinary handler exit
		w.log(fmt.Sprintf("hx.%d", id))
		return
	}
	fc.mu.Lock()
	fc.hijacked = true
	fc.cond.Broadcast()
	fc.mu.Unlock()
	if hj == "stay" {
		<-w.gate(1000 + id) // the handler itself goes on using the hijacked connection
	}
	w.log(fmt.Sprintf("hj.%d", id))
}

// ---------------------------------------------------------------- fake listener / conn
type tmpErr struct{ timeout bool }

func (e tmpErr) Error() string   { return "fake temporary error" }
func (e tmpErr) Timeout() bool   { return e.timeout }
func (e tmpErr) Temporary() bool { return true }

type fakeListener struct {
	w        *world
	queue    chan *fakeConn
	closed   chan struct{}
	once     sync.Once
	errs     chan error
	mu       sync.Mutex
	isClosed bool
	outside  bool // closed from outside, not by the server
}

// fatalErr: a non-temporary listener / socket error
type fatalErr struct{}

func (fatalErr) Error() string { return "fake fatal error" }

// closedEvent: Accept fails because the listener is closed.  Closed by the server (Shutdown):
// ae.  Closed from outside while the server runs: a non-temporary error the environment
// injected (sf), like any other fatal Accept error.
func (l *fakeListener) closedEvent() string {
	l.mu.Lock()
	defer l.mu.Unlock()
	if l.outside {
		return "sf"
	}
	return "ae"
}
func (l *fakeListener) Accept() (net.Conn, error) {
	select {
	case <-l.closed:
		l.w.log(l.closedEvent())
		return nil, net.ErrClosed
	default:
	}
	select {
	case <-l.closed:
		l.w.log(l.closedEvent())
		return nil, net.ErrClosed
	case e := <-l.errs:
		if ne, ok := e.(net.Error); ok && ne.Temporary() {
			l.w.log("ae")
		} else {
			l.w.log("sf")
		}
		return nil, e
	case c := <-l.queue:
		// a closed listener accepts nothing: decide and log under the mutex Close takes,
		// so that an accepted connection is logged before anything Close causes
		l.mu.Lock()
		if l.isClosed {
			l.mu.Unlock()
			l.w.log("ae")
			return nil, net.ErrClosed
		}
		l.w.log(fmt.Sprintf("ao.%d", c.id))
		l.mu.Unlock()
		// Accept has taken the connection; it may return it after the listener was closed
		l.w.holdAt(fmt.Sprintf("ac.%d", c.id), false, l.w.shutdownSeen)
		c.mu.Lock()
		c.asServer = c
		if l.w.wrap {
			c.asServer = &wrapConn{c}
		}
		sc := c.asServer
		c.mu.Unlock()
		return sc, nil
	}
}

// CloseOutside: somebody other than the server (a supervisor) closes the listener
func (l *fakeListener) CloseOutside() {
	l.mu.Lock()
	if !l.isClosed {
		l.outside = true
	}
	l.mu.Unlock()
	l.Close()
}
func (l *fakeListener) Close() error {
	l.mu.Lock()
	l.isClosed = true
	l.mu.Unlock()
	l.once.Do(func() { close(l.closed) })
	return nil
}
func (l *fakeListener) Addr() net.Addr { return idAddr{0} }

type fakeConn struct {
	w       *world
	id      int
	mu      sync.Mutex
	cond    *sync.Cond
	in      []byte  // octets the client has sent and the server has not read
	chunks  []chunk // in is a sequence of chunks (one per client write); chunks[0].left = octets left of the current one
	dlPast  bool
	sawPast bool // a deadline in the past has been set (Shutdown reached this connection)
	eof     bool // client closed its side
	closed  bool // server closed
	out     [][]byte

	asServer         net.Conn // what Accept returned (the connection itself or a wrapper)
	hijacked         bool     // a handler called Hijack() on it
	owned            bool     // ... has returned, and the server no longer tracks it: the owner's
	ownerClosed      bool
	touched          []string // net.Conn calls by the server while owned
	touchedInHandler []string // ... between Hijack() and the return of the hijacking handler
	ownerReads       []string // results of the owner's reads
	ownerPending     int

	// the client's side of the connection (raw clients and real TLS clients)
	sent, consumed int        // chunks the client has written / the server has read completely
	rxArmed        bool       // a ReadTCP call of the server is running: its first failing Read is the event rx
	outRead        int        // entries of out the client has read completely
	outOff         int        // ... and octets of the next one
	clientGone     bool       // the harness has ended the client (its reads fail from now on)
	staging        bool       // client writes are collected and handed to the server as ONE chunk (a query)
	staged         []byte
	dropAfter      int        // > 0: the client's transport swallows every write after this many (a client that stalls in the handshake)
	clientWrites   int
	tls            *tlsClient // TLS client on this connection, if any
}

// chunk: what one write of the client put on the wire.  rq: it is (the last part of) a complete
// DNS message: when the server has read it completely the request has been read (event rq).
type chunk struct {
	left int
	rq   bool
}

func (c *fakeConn) pushLocked(b []byte, rq bool) {
	if len(b) == 0 {
		return
	}
	c.in = append(c.in, b...)
	c.chunks = append(c.chunks, chunk{len(b), rq})
	c.sent++
	c.cond.Broadcast()
}

// wrapConn: what a TLS-style listener hands to the server: a wrapper around the connection
type wrapConn struct{ net.Conn }

// capLis: around the real crypto/tls listener; remembers which *tls.Conn the server was handed for
// which fake connection (srv.conns is keyed by it)
type capLis struct{ net.Listener }

func (l capLis) Accept() (net.Conn, error) {
	c, err := l.Listener.Accept()
	if fc := underFake(c); fc != nil && err == nil {
		fc.mu.Lock()
		fc.asServer = c
		fc.mu.Unlock()
	}
	return c, err
}

// touch: the server (not the owner) calls a net.Conn method.  Once a handler has hijacked the
// connection, has returned and the server has deregistered it (owned), the server has no business
// with it any more; while the hijacking handler is still running it is only counted.
func (c *fakeConn) touch(what string) {
	c.mu.Lock()
	switch {
	case c.owned:
		c.touched = append(c.touched, what)
	case c.hijacked:
		c.touchedInHandler = append(c.touchedInHandler, what)
	}
	c.mu.Unlock()
}

// ---- the owner of a hijacked connection (the harness) uses it through these
func (c *fakeConn) ownerRead() string {
	c.mu.Lock()
	defer c.mu.Unlock()
	for {
		switch {
		case c.closed:
			return "closed"
		case c.dlPast:
			return "timeout"
		case len(c.in) > 0:
			c.consumed += len(c.chunks)
			c.in, c.chunks = nil, nil
			return "data"
		case c.eof:
			return "eof"
		}
		c.cond.Wait()
	}
}
func (c *fakeConn) ownerWrite() bool {
	c.mu.Lock()
	defer c.mu.Unlock()
	if c.closed {
		return false
	}
	c.out = append(c.out, []byte("owner"))
	return true
}
func (c *fakeConn) ownerClose() {
	c.mu.Lock()
	c.closed, c.ownerClosed = true, true
	c.cond.Broadcast()
	c.mu.Unlock()
}
func (c *fakeConn) sendRaw() {
	c.mu.Lock()
	c.pushLocked([]byte{'o', 'k'}, true)
	c.mu.Unlock()
}

func (w *world) newConn(id int) *fakeConn {
	c := &fakeConn{w: w, id: id}
	c.cond = sync.NewCond(&c.mu)
	w.mu.Lock()
	w.conns[id] = c
	w.mu.Unlock()
	return c
}
func (c *fakeConn) Send(m []byte) {
	c.mu.Lock()
	f := append([]byte{byte(len(m) >> 8), byte(len(m))}, m...)
	c.pushLocked(f, true)
	c.mu.Unlock()
}
func (c *fakeConn) CloseClient() {
	c.mu.Lock()
	c.eof = true
	c.cond.Broadcast()
	c.mu.Unlock()
}
func (c *fakeConn) Read(p []byte) (int, error) {
	c.touch("Read")
	c.mu.Lock()
	defer c.mu.Unlock()
	for {
		if c.closed {
			return 0, net.ErrClosed
		}
		if c.dlPast {
			c.rxLocked()
			return 0, tmpErr{timeout: true}
		}
		if len(c.in) > 0 {
			n := len(p)
			if n > c.chunks[0].left {
				n = c.chunks[0].left
			}
			copy(p, c.in[:n])
			c.in = c.in[n:]
			c.chunks[0].left -= n
			if c.chunks[0].left == 0 {
				rq := c.chunks[0].rq
				c.chunks = c.chunks[1:]
				c.consumed++
				c.cond.Broadcast()
				if rq {
					c.w.log(fmt.Sprintf("rq.%d", c.id)) // the whole request has been read
					c.mu.Unlock()
					c.w.holdAt(fmt.Sprintf("rd.%d", c.id), false, c.w.shutdownSeen)
					c.mu.Lock()
				}
			}
			return n, nil
		}
		if c.eof {
			c.rxLocked()
			return 0, io.EOF
		}
		c.cond.Wait()
	}
}
// rxLocked: a read of the server on this connection fails (deadline in the past, client gone): the
// event rx, once per ReadTCP call of the server (the reader wrapper arms it; a read that fails
// above this transport - a TLS record that is none, a failed handshake - is logged by the wrapper)
func (c *fakeConn) rxLocked() {
	if c.rxArmed {
		c.rxArmed = false
		c.w.log(fmt.Sprintf("rx.%d", c.id))
	}
}

func (c *fakeConn) Write(p []byte) (int, error) {
	c.touch("Write")
	c.mu.Lock()
	if c.closed {
		c.mu.Unlock()
		return 0, net.ErrClosed
	}
	c.out = append(c.out, append([]byte(nil), p...))
	c.cond.Broadcast()
	c.mu.Unlock()
	if c.w.takeReply(c.id) {
		c.w.log(fmt.Sprintf("rp.%d", c.id))
	}
	return len(p), nil
}

// takeReply: is this write the reply of the handler of id (the handler is inside WriteMsg)?
func (w *world) takeReply(id int) bool {
	w.mu.Lock()
	defer w.mu.Unlock()
	if w.replying[id] > 0 {
		w.replying[id]--
		return true
	}
	w.serverWrites++
	return false
}
func (c *fakeConn) Close() error {
	c.touch("Close")
	c.w.holdAt(fmt.Sprintf("cl.%d", c.id), false, c.w.shutdownSeen)
	c.mu.Lock()
	already := c.closed
	c.closed = true
	c.cond.Broadcast()
	c.mu.Unlock()
	if !already {
		c.w.log(fmt.Sprintf("wc.%d", c.id))
	}
	return nil
}
func (c *fakeConn) LocalAddr() net.Addr  { return idAddr{0} }
func (c *fakeConn) RemoteAddr() net.Addr { return idAddr{c.id} }
func (c *fakeConn) SetDeadline(t time.Time) error {
	c.SetReadDeadline(t)
	return nil
}
func (c *fakeConn) seenPast() bool {
	c.mu.Lock()
	defer c.mu.Unlock()
	return c.sawPast
}
func (c *fakeConn) SetReadDeadline(t time.Time) error {
	c.touch("SetReadDeadline")
	if !t.IsZero() && !t.Before(time.Now()) {
		// arming a future deadline: the step readTCP must not let Shutdown's deadline be overridden at
		c.w.holdAt(fmt.Sprintf("dl.%d", c.id), true, c.seenPast)
	}
	c.mu.Lock()
	c.dlPast = !t.IsZero() && t.Before(time.Now())
	if c.dlPast {
		c.sawPast = true
	}
	c.cond.Broadcast()
	c.mu.Unlock()
	return nil
}
func (c *fakeConn) SetWriteDeadline(t time.Time) error { c.touch("SetWriteDeadline"); return nil }

// underFake: the fake connection under what the server was handed by Accept
func underFake(c net.Conn) *fakeConn {
	switch x := c.(type) {
	case *fakeConn:
		return x
	case *wrapConn:
		return underFake(x.Conn)
	case *tls.Conn:
		return underFake(x.NetConn())
	}
	return nil
}

// ---------------------------------------------------------------- the client's end of a fake connection
// clientEnd is the net.Conn a client program (a real crypto/tls client) runs over: its writes are
// what the server reads, one chunk per write; its reads get what the server wrote.
type clientEnd struct{ c *fakeConn }

func (e clientEnd) Read(p []byte) (int, error) {
	c := e.c
	c.mu.Lock()
	defer c.mu.Unlock()
	for {
		if c.outRead < len(c.out) {
			n := copy(p, c.out[c.outRead][c.outOff:])
			c.outOff += n
			if c.outOff == len(c.out[c.outRead]) {
				c.outRead, c.outOff = c.outRead+1, 0
			}
			return n, nil
		}
		if c.closed || c.clientGone {
			return 0, io.EOF
		}
		c.cond.Wait()
	}
}
func (e clientEnd) Write(p []byte) (int, error) {
	c := e.c
	c.mu.Lock()
	defer c.mu.Unlock()
	if c.eof || c.clientGone {
		return 0, net.ErrClosed
	}
	c.clientWrites++
	switch {
	case c.dropAfter > 0 && c.clientWrites > c.dropAfter:
		// swallowed: the client never gets through the handshake
	case c.staging:
		c.staged = append(c.staged, p...)
	default:
		c.pushLocked(p, false)
	}
	return len(p), nil
}
func (e clientEnd) Close() error                       { e.c.CloseClient(); return nil }
func (e clientEnd) LocalAddr() net.Addr                { return idAddr{e.c.id} }
func (e clientEnd) RemoteAddr() net.Addr               { return idAddr{0} }
func (e clientEnd) SetDeadline(t time.Time) error      { return nil }
func (e clientEnd) SetReadDeadline(t time.Time) error  { return nil }
func (e clientEnd) SetWriteDeadline(t time.Time) error { return nil }

// endClient: the harness ends the client of this connection (its pending and later reads fail)
func (c *fakeConn) endClient() {
	c.mu.Lock()
	c.clientGone = true
	c.cond.Broadcast()
	c.mu.Unlock()
}

// tlsClient: a real crypto/tls client on a fake connection.  Its goroutine runs the handshake and
// then reads DNS messages until the connection ends.
type tlsClient struct {
	tc      *tls.Conn
	hsDone  chan struct{}
	hsErr   error
	done    chan struct{}
	sendMu  sync.Mutex
	replies int // DNS messages received (under the connection's mutex)
}

// client variants (op c<c>.<v>): 0 a raw client that has not written anything; 1 a TLS client whose
// transport swallows everything after its first flight (it stalls in the handshake); 2 a TLS client
// that only speaks TLS 1.0 (the server refuses); 3 a TLS client that verifies the server certificate
// (the client refuses: the certificate is self-signed)
func (w *world) startTLSClient(fc *fakeConn, variant int) {
	cfg := &tls.Config{InsecureSkipVerify: true}
	switch variant {
	case 1:
		fc.dropAfter = 1
	case 2:
		cfg.MinVersion, cfg.MaxVersion = tls.VersionTLS10, tls.VersionTLS10
	case 3:
		cfg = &tls.Config{ServerName: "verif.invalid"}
	}
	cl := &tlsClient{tc: tls.Client(clientEnd{fc}, cfg), hsDone: make(chan struct{}), done: make(chan struct{})}
	fc.tls = cl
	w.cw.Add(1)
	go func() {
		defer w.cw.Done()
		defer close(cl.done)
		cl.hsErr = cl.tc.Handshake()
		close(cl.hsDone)
		if cl.hsErr != nil {
			return // (the client does not close: the server has to get rid of the connection by itself)
		}
		for {
			var l [2]byte
			if _, err := io.ReadFull(cl.tc, l[:]); err != nil {
				return
			}
			if _, err := io.ReadFull(cl.tc, make([]byte, int(l[0])<<8|int(l[1]))); err != nil {
				return
			}
			fc.mu.Lock()
			cl.replies++
			fc.mu.Unlock()
		}
	}()
}

// clientSend: the client of connection c sends one framed DNS message.  Plain TCP: at once.  TLS:
// by a goroutine that waits for the client's handshake; the TLS record(s) of the message reach the
// server as one chunk, so that "the request has been read" (rq) is the moment the server's
// transport read takes the last octet of it - exactly as on a plain connection.
func (w *world) clientSend(fc *fakeConn, m []byte) {
	if fc.tls == nil {
		fc.Send(m)
		return
	}
	cl := fc.tls
	w.cw.Add(1)
	go func() {
		defer w.cw.Done()
		<-cl.hsDone
		if cl.hsErr != nil {
			bump("tls_client_sends_without_a_session")
			return
		}
		cl.sendMu.Lock()
		defer cl.sendMu.Unlock()
		fc.mu.Lock()
		fc.staging = true
		fc.mu.Unlock()
		cl.tc.Write(append([]byte{byte(len(m) >> 8), byte(len(m))}, m...))
		fc.mu.Lock()
		fc.staging = false
		fc.pushLocked(fc.staged, true)
		fc.staged = nil
		fc.mu.Unlock()
	}()
}

func (w *world) endAllClients() {
	w.mu.Lock()
	var fcs []*fakeConn
	for _, fc := range w.conns {
		fcs = append(fcs, fc)
	}
	w.mu.Unlock()
	for _, fc := range fcs {
		fc.endClient()
	}
}

// clientsWrapUp: every start / Shutdown call of this life has returned.  Clients whose connection
// the server has closed end by themselves (and must have received every reply a handler wrote on
// it); the others are ended by the harness.
func (w *world) clientsWrapUp() {
	w.mu.Lock()
	var fcs []*fakeConn
	for _, fc := range w.conns {
		fcs = append(fcs, fc)
	}
	ev := append([]string(nil), w.ev...)
	w.mu.Unlock()
	sort.Slice(fcs, func(i, j int) bool { return fcs[i].id < fcs[j].id })
	for _, fc := range fcs {
		if fc.tls == nil {
			continue
		}
		fc.mu.Lock()
		closed := fc.closed
		natural := closed && !fc.eof && !fc.clientGone // (a client the harness has closed may not have read everything)
		fc.mu.Unlock()
		if !closed {
			fc.endClient()
		}
		select {
		case <-fc.tls.done:
		case <-time.After(waitLong):
			natural = false
			fc.endClient()
			<-fc.tls.done
		}
		if natural && fc.tls.hsErr == nil {
			nrp := 0
			for _, e := range ev {
				if e == fmt.Sprintf("rp.%d", fc.id) {
					nrp++
				}
			}
			fc.mu.Lock()
			got := fc.tls.replies
			fc.mu.Unlock()
			st["tls_client_reply_delivery_checked"]++
			if got < nrp {
				w.addViol("C13/reply-not-delivered", fmt.Sprintf("handlers wrote %d replies on TLS connection %d, its client received %d before the server closed the connection", nrp, fc.id, got))
			}
		}
	}
	for _, fc := range fcs {
		fc.endClient() // (senders still waiting)
	}
	done := make(chan struct{})
	go func() { w.cw.Wait(); close(done) }()
	select {
	case <-done:
	case <-time.After(waitLong):
		if w.stuck == "" {
			w.stuck = "a client goroutine of the harness did not end"
		}
	}
}

// ---------------------------------------------------------------- fake PacketConn (generic, not *net.UDPConn)
type pkt struct {
	id int
	b  []byte
}
type fakePC struct {
	w       *world
	mu      sync.Mutex
	cond    *sync.Cond
	q       []pkt
	dlPast  bool
	closed  bool
	errq    []error // errors to inject into ReadFrom
	outside bool    // closed from outside, not by the server
	sawPast bool
	out     map[int]int
}

func (p *fakePC) ReadFrom(b []byte) (int, net.Addr, error) {
	p.mu.Lock()
	defer p.mu.Unlock()
	for {
		if p.closed {
			if p.outside && !p.sawPast {
				p.w.log("sf") // closed from outside while the server runs: a fatal error of the environment
			} else {
				p.w.log("re")
			}
			return 0, nil, net.ErrClosed
		}
		if p.dlPast {
			p.w.log("re")
			return 0, nil, tmpErr{timeout: true}
		}
		if len(p.errq) > 0 {
			e := p.errq[0]
			p.errq = p.errq[1:]
			if ne, ok := e.(net.Error); ok && ne.Temporary() {
				p.w.log("re")
			} else {
				p.w.log("sf")
			}
			return 0, nil, e
		}
		if len(p.q) > 0 {
			x := p.q[0]
			p.q = p.q[1:]
			n := copy(b, x.b)
			if len(x.b) < 12 {
				// shorter than a DNS header: nothing the server may create a worker for
				p.w.log(fmt.Sprintf("ps.%d", x.id))
			} else {
				p.w.log(fmt.Sprintf("pk.%d", x.id))
			}
			p.mu.Unlock()
			p.w.holdAt(fmt.Sprintf("rd.%d", x.id), false, p.seenPast)
			p.mu.Lock()
			return n, idAddr{x.id}, nil
		}
		p.cond.Wait()
	}
}
func (p *fakePC) WriteTo(b []byte, a net.Addr) (int, error) {
	id := -1
	if x, ok := a.(idAddr); ok {
		id = x.id
	}
	p.mu.Lock()
	if p.closed {
		p.mu.Unlock()
		return 0, net.ErrClosed
	}
	if p.out == nil {
		p.out = map[int]int{}
	}
	p.out[id]++
	p.mu.Unlock()
	if p.w.takeReply(id) {
		p.w.log(fmt.Sprintf("rp.%d", id))
	}
	return len(b), nil
}
func (p *fakePC) Deliver(id int, b []byte) {
	p.mu.Lock()
	p.q = append(p.q, pkt{id, b})
	p.cond.Broadcast()
	p.mu.Unlock()
}
func (p *fakePC) InjectTimeout() { p.Inject(tmpErr{timeout: true}) }
func (p *fakePC) Inject(e error) {
	p.mu.Lock()
	p.errq = append(p.errq, e)
	p.cond.Broadcast()
	p.mu.Unlock()
}

// CloseOutside: somebody other than the server closes the socket
func (p *fakePC) CloseOutside() {
	p.mu.Lock()
	if !p.closed {
		p.outside = true
	}
	p.mu.Unlock()
	p.Close()
}
func (p *fakePC) isClosed() bool {
	p.mu.Lock()
	defer p.mu.Unlock()
	return p.closed
}
func (p *fakePC) Close() error {
	p.mu.Lock()
	p.closed = true
	p.cond.Broadcast()
	p.mu.Unlock()
	return nil
}
func (p *fakePC) LocalAddr() net.Addr           { return idAddr{0} }
func (p *fakePC) SetDeadline(t time.Time) error { return p.SetReadDeadline(t) }
func (p *fakePC) seenPast() bool {
	p.mu.Lock()
	defer p.mu.Unlock()
	return p.sawPast
}
func (p *fakePC) SetReadDeadline(t time.Time) error {
	if !t.IsZero() && !t.Before(time.Now()) {
		// arming a future deadline: the step readPacketConn must not let Shutdown's deadline be overridden at
		p.w.holdAt("dl.0", true, p.seenPast)
	}
	p.mu.Lock()
	p.dlPast = !t.IsZero() && t.Before(time.Now())
	if p.dlPast {
		p.sawPast = true
	}
	p.cond.Broadcast()
	p.mu.Unlock()
	return nil
}
func (p *fakePC) SetWriteDeadline(t time.Time) error { return nil }

// ---------------------------------------------------------------- operations of a scenario
func query(id int) []byte {
	m := new(dns.Msg)
	m.SetQuestion(fmt.Sprintf("q%d.example.", id), dns.TypeA)
	m.Id = uint16(id)
	b, _ := m.Pack()
	return b
}

func (w *world) start(i int) {
	w.log(fmt.Sprintf("si.%d", i))
	w.hw.Add(1)
	go func() {
		defer w.hw.Done()
		defer func() {
			if r := recover(); r != nil {
				w.mu.Lock()
				w.panicked = append(w.panicked, fmt.Sprintf("start call %d: %v", i, r))
				w.mu.Unlock()
				w.log("sr.1")
			}
		}()
		err := w.srv.ActivateAndServe()
		switch {
		case err == nil:
			w.log("sr.0")
		case strings.Contains(err.Error(), "already started"):
			w.log(fmt.Sprintf("se.%d", i))
		default:
			w.log("sr.1")
		}
	}()
}

// shutdownSeen: the lock region of Shutdown has run (listener closed / PacketConn deadline in the past)
func (w *world) shutdownSeen() bool {
	if w.mode == "tcp" {
		select {
		case <-w.lis.closed:
			return true
		default:
			return false
		}
	}
	w.pc.mu.Lock()
	defer w.pc.mu.Unlock()
	return w.pc.sawPast
}
func (w *world) waitShutdownSeen() bool {
	d := time.Now().Add(waitLong)
	for !w.shutdownSeen() {
		if time.Now().After(d) {
			if w.stuck == "" {
				w.stuck = "the lock region of Shutdown did not run (listener not closed / deadline not set)"
			}
			return false
		}
		time.Sleep(200 * time.Microsecond)
	}
	return true
}

func (w *world) shutdown(j int, withCtx bool) {
	ctx := context.Background()
	if withCtx {
		c, cancel := context.WithCancel(ctx)
		ctx = c
		w.mu.Lock()
		w.cancels[j] = cancel
		w.mu.Unlock()
	}
	w.log(fmt.Sprintf("di.%d", j))
	w.mu.Lock()
	w.sdInvokedAt = time.Now()
	w.mu.Unlock()
	lis, pc := w.lis, w.pc // what the server of this life listens on
	w.hw.Add(1)
	go func() {
		defer w.hw.Done()
		defer func() {
			if r := recover(); r != nil {
				w.mu.Lock()
				w.panicked = append(w.panicked, fmt.Sprintf("Shutdown call %d: %v", j, r))
				w.mu.Unlock()
				w.log(fmt.Sprintf("dr.%d.9", j))
			}
		}()
		err := w.srv.ShutdownContext(ctx)
		// what remains at the moment a Shutdown call that took effect returns (nil, or its
		// context expired): the listener / PacketConn of the server must be closed; after a
		// nil return also every connection the server accepted
		if err == nil || err == context.Canceled || err == context.DeadlineExceeded {
			how := "nil"
			if err != nil {
				how = "its context error (handlers still in flight)"
			}
			if lis != nil && !lis.closedNow() {
				w.addViol("C13/socket-open-after-shutdown", "the listener of the server was still open when Shutdown returned "+how)
			}
			if pc != nil && !pc.isClosed() {
				w.addViol("C13/socket-open-after-shutdown", "the PacketConn of the server was still open when ShutdownContext returned "+how)
			}
			if err == nil {
				for _, c := range w.openAccepted() {
					w.addViol("C13/connection-open-after-shutdown", fmt.Sprintf("connection %d, accepted by the server, was still open when Shutdown returned nil", c))
				}
			}
		}
		switch {
		case err == nil:
			w.log(fmt.Sprintf("dr.%d.0", j))
		case err == context.Canceled || err == context.DeadlineExceeded:
			w.log(fmt.Sprintf("dr.%d.1", j))
		case strings.Contains(err.Error(), "not started"):
			w.log(fmt.Sprintf("dr.%d.2", j))
		default:
			w.log(fmt.Sprintf("dr.%d.9", j))
		}
	}()
}
func (l *fakeListener) closedNow() bool {
	l.mu.Lock()
	defer l.mu.Unlock()
	return l.isClosed
}

// openAccepted: connections the server accepted in this life (ao.c logged) that are not closed
func (w *world) openAccepted() []int {
	w.mu.Lock()
	defer w.mu.Unlock()
	var out []int
	for _, e := range w.ev {
		if strings.HasPrefix(e, "ao.") {
			var c int
			fmt.Sscanf(e[3:], "%d", &c)
			if fc := w.conns[c]; fc != nil {
				fc.mu.Lock()
				open := !fc.closed && !fc.hijacked // (a hijacked connection is its owner's)
				fc.mu.Unlock()
				if open {
					out = append(out, c)
				}
			}
		}
	}
	sort.Ints(out)
	return out
}

// leftover: the life is over (every call returned, handlers released).  If a serve call ran and
// returned, or a Shutdown call took effect, nothing the server listened on or accepted may be open.
func (w *world) leftover() []string {
	w.mu.Lock()
	owned := false
	for _, e := range w.ev {
		if strings.HasPrefix(e, "sr.") || (strings.HasPrefix(e, "dr.") && (strings.HasSuffix(e, ".0") || strings.HasSuffix(e, ".1"))) {
			owned = true
		}
	}
	lis, pc := w.lis, w.pc
	w.mu.Unlock()
	if !owned {
		return nil
	}
	var out []string
	if w.mode == "tcp" && lis != nil && !lis.closedNow() {
		out = append(out, "the listener")
	}
	if w.mode == "udp" && pc != nil && !pc.isClosed() {
		out = append(out, "the PacketConn")
	}
	for _, c := range w.openAccepted() {
		out = append(out, fmt.Sprintf("connection %d", c))
	}
	if n := w.srv.VerifTrackedConns(); n > 0 {
		out = append(out, fmt.Sprintf("%d connection(s) still in the server's connection tracking (srv.conns)", n))
	}
	return out
}

// hijackWrapUp: the verdicts on the hijacked connections of this life; then their owner closes them
func (w *world) hijackWrapUp() {
	w.mu.Lock()
	var hjs []*fakeConn
	for _, fc := range w.conns {
		hjs = append(hjs, fc)
	}
	w.mu.Unlock()
	sort.Slice(hjs, func(i, j int) bool { return hjs[i].id < hjs[j].id })
	for _, fc := range hjs {
		fc.mu.Lock()
		touched, inH, reads, ownerClosed, hijacked := fc.touched, fc.touchedInHandler, fc.ownerReads, fc.ownerClosed, fc.hijacked
		fc.mu.Unlock()
		if len(touched) > 0 {
			w.addViol("C13/hijacked-connection-touched", fmt.Sprintf("after the handler had hijacked connection %d and returned, the server still called %s on it", fc.id, strings.Join(touched, ", ")))
		}
		for _, r := range reads {
			if r == "timeout" || (r == "closed" && !ownerClosed) {
				w.addViol("C13/hijacked-connection-touched", fmt.Sprintf("the owner's read on hijacked connection %d failed with %s: the server set a deadline on / closed a connection that is not its own", fc.id, r))
			}
		}
		if hijacked {
			st["hijacked_connections_checked"]++
			if len(inH) > 0 {
				st["hijacked_conn_touched_while_its_handler_still_ran"]++
			}
			fc.ownerClose()
		}
	}
}

// takeOver: the handler that hijacked connection c has returned.  The server must stop tracking
// the connection (bounded wait; then the owner clears the deadline the server may have set while
// the connection was still its own, and from now on every net.Conn call of the server on it counts).
func (w *world) takeOver(c int) {
	w.waitFor(fmt.Sprintf("hj.%d", c), 1)
	w.mu.Lock()
	fc := w.conns[c]
	w.mu.Unlock()
	if fc == nil || w.stuck != "" {
		return
	}
	fc.mu.Lock()
	sc := fc.asServer
	fc.mu.Unlock()
	bound := waitLong
	if stillTracked >= 2 {
		bound = 200 * time.Millisecond // confirmed twice with the long bound: do not pay 10 s again
	}
	d := time.Now().Add(bound)
	for w.srv.VerifTracksConn(sc) {
		if time.Now().After(d) {
			stillTracked++
			w.addViol("C13/hijacked-connection-still-tracked", fmt.Sprintf("the handler hijacked connection %d and returned, but the server keeps it in its connection tracking (srv.conns): Shutdown will set its read deadline, and it is never released", c))
			break
		}
		time.Sleep(200 * time.Microsecond)
	}
	fc.mu.Lock()
	fc.dlPast = false
	fc.owned = true
	fc.mu.Unlock()
	st["hijacked_connections_taken_over"]++
}
func (w *world) ownerReadStart(c int) {
	w.mu.Lock()
	fc := w.conns[c]
	w.mu.Unlock()
	if fc == nil {
		return
	}
	fc.mu.Lock()
	fc.ownerPending++
	fc.mu.Unlock()
	w.hw.Add(1)
	go func() {
		defer w.hw.Done()
		r := fc.ownerRead()
		fc.mu.Lock()
		fc.ownerReads = append(fc.ownerReads, r)
		fc.ownerPending--
		fc.cond.Broadcast()
		fc.mu.Unlock()
		w.mu.Lock()
		w.cond.Broadcast()
		w.mu.Unlock()
	}()
}

// ownerGets: the client sends two octets on the hijacked connection; the owner's pending read
// must receive them (not a timeout from a deadline the server set, not a close by the server)
func (w *world) ownerGets(c int) {
	w.mu.Lock()
	fc := w.conns[c]
	w.mu.Unlock()
	if fc == nil {
		return
	}
	fc.sendRaw()
	d := time.Now().Add(waitLong)
	for {
		fc.mu.Lock()
		pending := fc.ownerPending
		fc.mu.Unlock()
		if pending == 0 {
			return
		}
		if time.Now().After(d) {
			if w.stuck == "" {
				w.stuck = fmt.Sprintf("the owner's read on hijacked connection %d did not return", c)
			}
			return
		}
		time.Sleep(200 * time.Microsecond)
	}
}

func (w *world) cancel(j int) {
	w.log(fmt.Sprintf("dc.%d", j))
	w.mu.Lock()
	c := w.cancels[j]
	w.mu.Unlock()
	if c != nil {
		c()
	}
}
// connect: client c connects.  variant -1: an ordinary client (on a TLS listener: a TLS client that
// accepts the certificate); 0: a raw client (no TLS, nothing written yet); 1..3: see startTLSClient
// (on a plain listener these are raw clients too).
func (w *world) connect(c int, wait bool, variant int) {
	fc := w.newConn(c)
	if w.tlsMode && variant != 0 {
		w.startTLSClient(fc, variant)
	}
	w.lis.queue <- fc
	if wait {
		w.waitFor(fmt.Sprintf("ao.%d", c), 1)
	}
}

// junk: what a client that does not speak the protocol of the port writes
var junkKinds = [][]byte{
	[]byte("not-a-tls-hi"),                                       // 0: on a TLS port no record; on a plain port a length prefix and a partial message
	{0x16, 0x03, 0x01},                                           // 1: fewer octets than a TLS record header / than a length prefix and its message
	[]byte("GET / HTTP/1.1\r\nHost: dns.example\r\nAccept: */*\r\n\r\n"), // 2: another protocol
	{0x16, 0x03, 0x01, 0xff, 0xff},                               // 3: a record header announcing more than a record may hold
	{0x16, 0x03, 0x03, 0x00, 0x64, 0x01, 0x00, 0x00, 0x60, 0x03}, // 4: the beginning of a handshake record, the rest never comes
}

// sendJunk: the client of connection c writes raw octets (not through its TLS session, if it has
// one); waits until the server has read them unless the lock region of Shutdown has already run
func (w *world) sendJunk(c, kind int, wait bool) {
	w.mu.Lock()
	fc := w.conns[c]
	w.mu.Unlock()
	if fc == nil {
		return
	}
	if fc.tls != nil {
		// after the handshake (otherwise the octets would only be one more handshake failure)
		select {
		case <-fc.tls.hsDone:
		case <-time.After(waitLong):
			if w.stuck == "" {
				w.stuck = fmt.Sprintf("the TLS handshake of client %d did not end", c)
			}
			return
		}
	}
	fc.mu.Lock()
	fc.pushLocked(junkKinds[kind%len(junkKinds)], false)
	target := fc.sent
	fc.mu.Unlock()
	st["junk_writes"]++
	if !wait {
		return
	}
	d := time.Now().Add(waitLong)
	for {
		fc.mu.Lock()
		ok := fc.consumed >= target || fc.closed
		fc.mu.Unlock()
		if ok {
			return
		}
		if time.Now().After(d) {
			if w.stuck == "" {
				w.stuck = fmt.Sprintf("the server did not read what client %d wrote", c)
			}
			return
		}
		time.Sleep(200 * time.Microsecond)
	}
}

// ---- messages that must not reach a handler
const nBadKinds = 11

// badMsg: kinds 0..3 have no complete header (udp: short datagrams); 4 is a response; 5 and 10 are
// accepted by MsgAcceptFunc but do not unpack (FORMERR); 6 has an opcode the server does not
// implement (NOTIMP); 7 has two questions (FORMERR); 8 / 9 are well-formed queries the user's
// MsgAcceptFunc ignores / rejects.  Every message of two or more octets carries id.
func badMsg(id, kind int) (m []byte, override dns.MsgAcceptAction, hasOverride bool) {
	hdr := func(bits uint16, qd uint16) []byte {
		return []byte{byte(id >> 8), byte(id), byte(bits >> 8), byte(bits), byte(qd >> 8), byte(qd), 0, 0, 0, 0, 0, 0}
	}
	q := []byte{1, 'q', 7, 'e', 'x', 'a', 'm', 'p', 'l', 'e', 0, 0, 1, 0, 1}
	switch kind % nBadKinds {
	case 0:
		return []byte{}, 0, false
	case 1:
		return []byte{0x55}, 0, false
	case 2:
		return hdr(0, 0)[:2], 0, false
	case 3:
		return hdr(0x0100, 1)[:11], 0, false
	case 4:
		return append(hdr(0x8180, 1), q...), 0, false
	case 5:
		return append(hdr(0x0100, 1), 5, 'a'), 0, false // a label that runs past the end
	case 6:
		return append(hdr(3<<11, 1), q...), 0, false
	case 7:
		return append(append(hdr(0x0100, 2), q...), q...), 0, false
	case 8:
		return append(hdr(0x0100, 1), q...), dns.MsgIgnore, true
	case 9:
		return append(hdr(0x0100, 1), q...), dns.MsgReject, true
	default:
		return append(hdr(0x0100, 1), 0xc0, 0x0c, 0, 1, 0, 1), 0, false // a compression pointer to itself
	}
}

// sendBad: connection c (tcp) / the client with address c (udp) sends a message of the given kind.
// wait: until the server has decided not to call a handler for it (ig.<c>; a short datagram: until
// it was read, ps.<c>, and MsgInvalidFunc was called).
func (w *world) sendBad(c, kind int, wait bool) {
	m, ov, has := badMsg(c, kind)
	w.mu.Lock()
	if has {
		w.acceptOverride[c] = ov
	}
	fc := w.conns[c]
	inv := w.invalidCalls
	if len(m) < 2 {
		w.tinyOwner = c
	}
	w.badSent[c]++
	nth := w.badSent[c]
	w.mu.Unlock()
	st[fmt.Sprintf("bad_messages_kind_%d", kind%nBadKinds)]++
	if w.mode == "tcp" {
		if fc == nil {
			return
		}
		w.clientSend(fc, m)
		if wait {
			w.waitFor(fmt.Sprintf("ig.%d", c), nth)
		}
		return
	}
	w.pc.Deliver(c, m)
	if !wait {
		return
	}
	if len(m) >= 12 {
		w.waitFor(fmt.Sprintf("ig.%d", c), 1)
		return
	}
	w.waitFor(fmt.Sprintf("ps.%d", c), 1)
	d := time.Now().Add(waitLong)
	for {
		w.mu.Lock()
		ok := w.invalidCalls > inv
		w.mu.Unlock()
		if ok {
			return
		}
		if time.Now().After(d) {
			if w.stuck == "" {
				w.stuck = fmt.Sprintf("the server read the short datagram %d and did not go on", c)
			}
			return
		}
		time.Sleep(200 * time.Microsecond)
	}
}

func (w *world) request(c int, nth int, wait bool) {
	if w.mode == "tcp" {
		w.mu.Lock()
		fc := w.conns[c]
		w.mu.Unlock()
		if fc == nil {
			return
		}
		w.clientSend(fc, query(c))
	} else {
		w.pc.Deliver(c, query(c))
	}
	if wait {
		w.waitFor(fmt.Sprintf("he.%d", c), nth)
	}
}
func (w *world) release(c int) { w.gate(c) <- struct{}{} }

// ---------------------------------------------------------------- judging a finished scenario
type verdict struct {
	name string
	desc map[string]any
}

func idx(ev []string, e string) int {
	for i, x := range ev {
		if x == e {
			return i
		}
	}
	return -1
}

// oracles on the event log alone (no model): the property statement on the implementation
func (w *world) judge(name string, plan []string, fatalInjected bool) {
	w.mu.Lock()
	lives := append(append([][]string(nil), w.past...), append([]string(nil), w.ev...))
	panicked := append([]string(nil), w.panicked...)
	for _, h := range w.holdLog {
		st["hold_"+h]++
	}
	w.mu.Unlock()
	st["scenarios_checked"]++
	if len(lives) > 1 {
		st["scenarios_with_restart_checked"]++
	}
	for _, v := range w.viols {
		Viol(v[0], v[1], map[string]any{"scenario": name, "mode": w.mode, "plan": plan, "lives": lives})
	}
	lefts := append(append([][]string(nil), w.pastLeft...), w.leftover())
	outs := append(append([]bool(nil), w.pastOutside...), w.outside)
	for li, ev := range lives {
		// a non-temporary Accept / ReadFrom error was injected in this life (sf): the serve call returns it
		w.judgeLife(name, plan, fatalInjected || idx(ev, "sf") >= 0, li, len(lives), ev, outs[li])
		if len(lefts[li]) > 0 {
			Viol("C13/socket-open-after-shutdown", "when the life of the server was over (serve call and every Shutdown call returned, handlers released) still open: "+strings.Join(lefts[li], ", "),
				map[string]any{"scenario": name, "mode": w.mode, "plan": plan, "events": ev, "life": li + 1})
		}
	}
	if len(panicked) > 0 {
		Viol("C13/call-panicked", "a serve / Shutdown call panicked: "+strings.Join(panicked, "; "),
			map[string]any{"scenario": name, "mode": w.mode, "plan": plan, "lives": lives})
	}
	// model cases: every life is a behaviour of the LTS from its initial state; for a
	// restarted Server additionally: at every restart the previous life is over in every
	// model state the log allows
	if len(lives) > 1 {
		args := []string{w.mode}
		for li, ev := range lives {
			if li > 0 {
				args = append(args, "ep")
			}
			args = append(args, ev...)
		}
		Emit("lts_lives", args, "ok")
		st["restart_traces_emitted"]++
	}
}

// the oracles of the property on the log of one life of the Server value
func (w *world) judgeLife(name string, plan []string, fatalInjected bool, life, lives int, ev []string, outsideClosed bool) {
	in := map[string]any{"scenario": name, "mode": w.mode, "plan": plan, "events": ev}
	if lives > 1 {
		in["life"] = fmt.Sprintf("%d of %d lives of the same Server value", life+1, lives)
	}
	// Shutdown returned nil  ==>  every handler that was entered has exited
	for i, e := range ev {
		if strings.HasPrefix(e, "dr.") && strings.HasSuffix(e, ".0") {
			open := map[string]int{}
			for _, x := range ev[:i] {
				if strings.HasPrefix(x, "he.") {
					open[x[3:]]++
				}
				if strings.HasPrefix(x, "hx.") || strings.HasPrefix(x, "hj.") {
					open[x[3:]]--
				}
			}
			for id, n := range open {
				if n > 0 {
					Viol("C13/shutdown-returned-before-handler", "Shutdown returned nil while the handler of "+id+" had not returned", in)
				}
			}
			for _, x := range ev[i+1:] {
				if strings.HasPrefix(x, "he.") {
					Viol("C13/handler-after-shutdown-return", "handler "+x+" entered after Shutdown returned", in)
				}
			}
		}
		if strings.HasSuffix(e, ".9") && strings.HasPrefix(e, "dr.") {
			Viol("C13/shutdown-unexpected-error", "Shutdown returned an unexpected error", in)
		}
	}
	// the serve call returned nil
	if idx(ev, "sr.1") >= 0 && !fatalInjected {
		Viol("C13/serve-returned-error", "the serve call returned an error after a graceful shutdown", in)
	}
	// replies written by in-flight handlers are delivered
	if !w.noReply {
		// (a ShutdownContext call whose context expired does not wait for the handlers and
		// closes the PacketConn: no delivery is promised to UDP handlers that return later)
		// (nor when somebody else closed the PacketConn under the server)
		cut := len(ev)
		if w.mode == "udp" {
			for i, e := range ev {
				if strings.HasPrefix(e, "dc.") || (outsideClosed && e == "sf") {
					cut = i
					break
				}
			}
		}
		for _, e := range ev[:cut] {
			if strings.HasPrefix(e, "hx.") {
				id := e[3:]
				nrp, nhx := 0, 0
				for _, x := range ev[:cut] {
					if x == "rp."+id {
						nrp++
					}
					if x == "hx."+id {
						nhx++
					}
				}
				if nrp < nhx {
					Viol("C13/reply-not-delivered", "a reply written by the handler of "+id+" was not delivered to the connection", in)
				}
			}
		}
	}
	// every accepted connection is closed by the server once serve has returned
	if idx(ev, "sr.0") >= 0 {
		for _, e := range ev {
			if strings.HasPrefix(e, "ao.") && idx(ev, "wc."+e[3:]) < 0 && idx(ev, "hj."+e[3:]) < 0 {
				Viol("C13/connection-not-closed", "connection "+e[3:]+" was still open when the serve call returned", in)
			}
		}
	}
	// model case
	Emit("lts", append([]string{w.mode}, ev...), "ok")
	st["traces_emitted"]++
	st["trace_events"] += len(ev)
}

// settle: all harness goroutines returned and the goroutine count is back at the baseline
func (w *world) settle(name string, base int, plan []string) {
	if w.callersReturned() {
		w.clientsWrapUp()
		if w.stuck == "" {
			w.goroutinesBack(name, base, plan)
		}
	}
}
func (w *world) callersReturned() bool {
	done := make(chan struct{})
	go func() { w.hw.Wait(); close(done) }()
	select {
	case <-done:
		return true
	case <-time.After(waitLong):
		if w.stuck == "" {
			w.stuck = "a start / Shutdown call did not return"
		}
		return false
	}
}
func (w *world) goroutinesBack(name string, base int, plan []string) {
	d := time.Now().Add(5 * time.Second)
	for runtime.NumGoroutine() > base {
		if time.Now().After(d) {
			buf := make([]byte, 1<<16)
			n := runtime.Stack(buf, true)
			Viol("C13/goroutine-leak", fmt.Sprintf("%d goroutines before the scenario, %d five seconds after it ended", base, runtime.NumGoroutine()),
				map[string]any{"scenario": name, "mode": w.mode, "plan": plan, "stacks": string(buf[:n])[:min(n, 3000)]})
			return
		}
		time.Sleep(2 * time.Millisecond)
	}
	st["goroutine_baseline_checked"]++
}

// ---------------------------------------------------------------- scenario runner
// A plan is a list of operations:
//
//	S<i> start call i (waits for NotifyStartedFunc when i == 0)   C<c> connect c (tcp)
//	Q<c> request on c, wait until its handler is entered           q<c> request without waiting
//	R<c> release the handler of c                                  X<c> client closes c
//	D<j> Shutdown call j, wait until its lock region has run       d<j> same without waiting
//	K<j> ShutdownContext call j (cancellable)                      k<j> cancel its context
//	T    inject a temporary accept / read error                    W<e> wait for event e
//	P<c> arm the window of reader c (0 = the UDP serve loop): its next read is held between the
//	     srv.isStarted() test and the read-deadline region      V<c> wait until it is there   U<c> let it go
//	s<i> start call without waiting                                Z    Shutdown calls until one finds the server started
//	H<key> arm the hold point key (see armHold): the server thread that reaches that step of the
//	     read loop stays there until the lock region of a Shutdown call has run (or the call is
//	     blocked on srv.lock)           G<key> wait until a thread is there   L<key> let it go
//	t    a temporary error of the other flavour (Timeout() true on tcp, false on udp)
//	f    inject a NON-temporary Accept / ReadFrom error   O    close the listener / PacketConn from outside
//	J<c> the next handler on connection c replies, calls Hijack() and returns (j<c>: and keeps running
//	     until g<c>)   h<c> wait until it has called Hijack()   r<c> release a handler without waiting
//	Y<c> the owner takes the hijacked connection over once the handler has returned (the server must
//	     no longer track it)   o<c> the owner starts a blocking read   i<c> the client sends two octets:
//	     the owner's read must get them   u<c> the owner writes   y<c> the owner closes
//	A    TLS-style listener: Accept returns wrappers around the connections from now on
//	F<k> a start call that must fail by itself (kind k, see failStart), the server not serving
//	E<j> Shutdown call j on the server while it is not started: must return the not-started error at once
//	N    the life of the Server value is over (all calls returned, no goroutine left): the SAME
//	     Server value gets a new listener / PacketConn; the following operations are its next life
func runPlan(mode, name string, plan []string, attempt int) bool {
	if stuckConfirmed >= 2 {
		st["scenarios_skipped_after_confirmed_hangs"]++
		return false
	}
	base := runtime.NumGoroutine()
	w := newWorld(mode)
	reqCount := map[int]int{}
	entered := map[int]int{}
	released := map[int]int{}
	shut := false
	for _, op := range plan {
		if w.stuck != "" || w.abort {
			break
		}
		var a, a2 int
		if n, _ := fmt.Sscanf(op[1:], "%d.%d", &a, &a2); n < 2 {
			a2 = 0
		}
		switch op[0] {
		case 'S':
			w.start(a)
			if a == 0 {
				// no life of this Server value is running: the call must serve
				d := time.Now().Add(waitLong)
				for {
					w.mu.Lock()
					serving, refused := w.count("n") >= 1, w.count("se.0") > 0
					w.mu.Unlock()
					if serving {
						break
					}
					if refused {
						w.addViol("C13/start-refused-while-not-started", "a start of a Server value that is not serving (never started / previous life over / previous start failed) was refused with the already-started error")
						w.abort = true
						break
					}
					if time.Now().After(d) {
						w.waitFor("n", 1)
						break
					}
					time.Sleep(200 * time.Microsecond)
				}
			}
		case 'F':
			id := 50 + w.failSeq
			w.failSeq++
			w.log(fmt.Sprintf("si.%d", id))
			cls, txt := failStart(w.srv, a)
			switch cls {
			case "fl":
				w.log(fmt.Sprintf("fl.%d", id))
				st["failed_starts_"+failKinds[a%len(failKinds)]]++
			case "se":
				w.log(fmt.Sprintf("se.%d", id))
				w.addViol("C13/start-refused-while-not-started", "a start ("+failKinds[a%len(failKinds)]+") of a Server value that is not serving returned the already-started error: "+txt)
			case "ok":
				w.log("sr.0")
				w.addViol("C13/failed-start-no-error", "a start call that cannot serve ("+failKinds[a%len(failKinds)]+") returned nil")
			case "hung":
				w.stuck = "a start call that cannot serve (" + failKinds[a%len(failKinds)] + ") did not return"
			default:
				// could not be provoked here: the call was not made
				w.mu.Lock()
				w.ev = w.ev[:len(w.ev)-1]
				w.mu.Unlock()
				st["failed_starts_not_provoked"]++
			}
		case 'E':
			w.log(fmt.Sprintf("di.%d", a))
			r, txt := expectNotStarted(w.srv)
			if r == "1" {
				w.log(fmt.Sprintf("dc.%d", a))
			}
			w.log(fmt.Sprintf("dr.%d.%s", a, r))
			if r != "2" {
				w.addViol("C13/shutdown-blocks-after-failed-start", "Shutdown of a Server value that is not started (never started / its life over / its start failed) did not return the not-started error at once: "+txt)
			}
		case 'C':
			if mode == "tcp" {
				w.connect(a, !shut, -1)
			}
		case 'c':
			if mode == "tcp" {
				w.connect(a, !shut, a2)
			}
		case 'x':
			if mode == "tcp" {
				w.sendJunk(a, a2, !shut)
			}
		case 'B', 'b':
			w.sendBad(a, a2, op[0] == 'B' && !shut)
		case 'M':
			// a real crypto/tls listener over the fake one
			if mode == "tcp" && serverTLS() != nil {
				w.tlsMode = true
				w.srv.Listener = capLis{tls.NewListener(w.lis, serverTLS())}
			}
		case 'w':
			// wait for an event, at most 2 s, no verdict either way (the property does not say when)
			w.softWait(op[1:], 2*time.Second)
		case 'Q', 'q':
			reqCount[a]++
			wait := op[0] == 'Q' && !shut
			w.request(a, reqCount[a], wait)
			if wait {
				entered[a]++
			}
		case 'R':
			w.release(a)
			released[a]++
			if entered[a] >= released[a] {
				// the handler returns (hx), or returns having hijacked the connection (hj)
				d := time.Now().Add(waitLong)
				for {
					w.mu.Lock()
					n := w.count(fmt.Sprintf("hx.%d", a)) + w.count(fmt.Sprintf("hj.%d", a))
					w.mu.Unlock()
					if n >= released[a] {
						break
					}
					if time.Now().After(d) {
						w.waitFor(fmt.Sprintf("hx.%d", a), released[a])
						break
					}
					time.Sleep(200 * time.Microsecond)
				}
			}
		case 'r':
			w.release(a) // without waiting for the handler to return
			released[a]++
		case 'A':
			w.wrap = true
		case 'J', 'j':
			w.mu.Lock()
			w.hijackNext[a] = map[byte]string{'J': "ret", 'j': "stay"}[op[0]]
			w.mu.Unlock()
		case 'h':
			// wait until the handler on connection a has called Hijack()
			if fc := w.conns[a]; fc != nil {
				d := time.Now().Add(waitLong)
				for {
					fc.mu.Lock()
					hj := fc.hijacked
					fc.mu.Unlock()
					if hj {
						break
					}
					if time.Now().After(d) {
						w.stuck = "the handler did not call Hijack"
						break
					}
					time.Sleep(200 * time.Microsecond)
				}
			}
		case 'g':
			w.gate(1000 + a) <- struct{}{}
		case 'Y':
			w.takeOver(a)
		case 'o':
			w.ownerReadStart(a)
		case 'i':
			w.ownerGets(a)
		case 'u':
			if fc := w.conns[a]; fc != nil {
				fc.ownerWrite()
			}
		case 'y':
			if fc := w.conns[a]; fc != nil {
				fc.ownerClose()
			}
		case 'X':
			if fc := w.conns[a]; fc != nil {
				if fc.tls != nil {
					fc.tls.tc.Close() // (close_notify if the session is up, then the transport)
				}
				fc.CloseClient()
			}
		case 'D', 'K':
			w.shutdown(a, op[0] == 'K')
			w.waitShutdownSeen()
			shut = true
		case 'd':
			w.shutdown(a, false)
			shut = true
		case 'k':
			w.cancel(a)
			w.waitFor(fmt.Sprintf("dr.%d.1", a), 1)
		case 'T', 't', 'f', 'O':
			// T / t: a temporary error (T: tcp plain, udp timeout; t: tcp timeout, udp plain);
			// f: a non-temporary error; O: the listener / PacketConn is closed from outside
			evn := "sf"
			var e error = fatalErr{}
			switch op[0] {
			case 'T':
				e = tmpErr{timeout: mode == "udp"}
			case 't':
				e = tmpErr{timeout: mode == "tcp"}
			}
			if op[0] == 'T' || op[0] == 't' {
				evn = "ae"
				if mode == "udp" {
					evn = "re"
				}
			}
			w.mu.Lock()
			before := w.count(evn)
			if op[0] == 'O' {
				w.outside = true
			}
			w.mu.Unlock()
			switch {
			case op[0] == 'O' && mode == "tcp":
				w.lis.CloseOutside()
			case op[0] == 'O':
				w.pc.CloseOutside()
			case mode == "tcp":
				w.lis.errs <- e
			default:
				w.pc.Inject(e)
			}
			w.waitFor(evn, before+1)
		case 'W':
			w.waitFor(op[1:], 1)
		case 'P':
			w.arm(a)
		case 'V':
			w.waitWindow(a)
		case 'U':
			w.unhold(a)
		case 's':
			w.start(a)
		case 'H':
			w.armHold(op[1:])
		case 'G':
			w.waitHold(op[1:])
		case 'L':
			w.releaseHold(op[1:])
		case 'N':
			if w.newLife(name, base, plan) {
				w.failSeq = 0
				reqCount, entered, released, shut = map[int]int{}, map[int]int{}, map[int]int{}, false
			}
		case 'Z':
			// Shutdown racing with the start call: repeat until one call finds the server started
			for j := 0; j < 200 && w.stuck == ""; j++ {
				w.shutdown(j, false)
				d := time.Now().Add(waitLong)
				got := ""
				for got == "" && time.Now().Before(d) {
					w.mu.Lock()
					if w.count(fmt.Sprintf("dr.%d.0", j)) > 0 {
						got = "ok"
					} else if w.count(fmt.Sprintf("dr.%d.2", j)) > 0 {
						got = "notstarted"
					}
					w.mu.Unlock()
					if got == "" {
						time.Sleep(100 * time.Microsecond)
					}
				}
				if got == "ok" {
					break
				}
				if got == "" {
					w.stuck = "Shutdown call did not return"
				}
			}
			shut = true
		}
	}
	// let everything finish: open every window, release every handler that may still be entered
	for id := range w.winRelease {
		w.unhold(id)
	}
	w.mu.Lock()
	var hkeys []string
	for k := range w.holds {
		hkeys = append(hkeys, k)
	}
	w.mu.Unlock()
	for _, k := range hkeys {
		w.releaseHold(k)
	}
	w.mu.Lock()
	gids := map[int]bool{}
	for id := range w.gates {
		gids[id%1000] = true
	}
	w.mu.Unlock()
	for id := range reqCount {
		gids[id] = true
	}
	for id := range gids {
		for i := 0; i < 4; i++ {
			w.release(id)
			w.gate(1000 + id) <- struct{}{}
		}
	}
	w.hijackWrapUp()
	if w.stuck == "" {
		w.settle(name, base, plan)
	}
	if w.stuck != "" {
		// never a verdict on the first occurrence: retry the whole scenario once
		if attempt == 0 {
			st["scenario_retries"]++
			fmt.Fprintln(os.Stderr, "C13 scenario", name, "stuck:", w.stuck, "- retrying")
			// unblock whatever is left
			w.endAllClients()
			if w.lis != nil {
				w.lis.Close()
			}
			if w.pc != nil {
				w.pc.Close()
			}
			return runPlan(mode, name, plan, 1)
		}
		stuckConfirmed++
		w.endAllClients()
		Viol("C13/stuck", "scenario stuck twice: "+w.stuck, map[string]any{"scenario": name, "mode": mode, "plan": plan, "events": w.events()})
		return false
	}
	w.judge(name, plan, false)
	return true
}

// all interleavings (merges) of the given sequences
func merges(seqs [][]string) [][]string {
	empty := true
	for _, s := range seqs {
		if len(s) > 0 {
			empty = false
		}
	}
	if empty {
		return [][]string{{}}
	}
	var out [][]string
	for i, s := range seqs {
		if len(s) == 0 {
			continue
		}
		rest := make([][]string, len(seqs))
		copy(rest, seqs)
		rest[i] = s[1:]
		for _, m := range merges(rest) {
			out = append(out, append([]string{s[0]}, m...))
		}
	}
	return out
}

func runC13(r *Rng, tier string, n int) {
	thorough := tier == "thorough"
	// ---- A. every order of {connect, request, release} of k workers with Shutdown at every position
	for _, mode := range []string{"tcp", "udp"} {
		maxK := 2
		for k := 0; k <= maxK; k++ {
			var seqs [][]string
			for c := 1; c <= k; c++ {
				if mode == "tcp" {
					seqs = append(seqs, []string{fmt.Sprintf("C%d", c), fmt.Sprintf("Q%d", c), fmt.Sprintf("R%d", c)})
				} else {
					seqs = append(seqs, []string{fmt.Sprintf("Q%d", c), fmt.Sprintf("R%d", c)})
				}
			}
			ms := merges(seqs)
			for mi, m := range ms {
				for pos := 0; pos <= len(m); pos++ {
					if !thorough && k == 2 && mode == "tcp" && (mi+pos)%2 != 0 {
						continue
					}
					plan := append([]string{"S0"}, m[:pos]...)
					plan = append(plan, "D0")
					plan = append(plan, m[pos:]...)
					plan = append(plan, "Wdr.0.0", "Wsr.0")
					runPlan(mode, fmt.Sprintf("order-k%d-m%d-p%d", k, mi, pos), plan, 0)
					st["family_orders"]++
					if mode == "tcp" && (thorough || k < 2 || (mi+pos)%6 == 0) {
						// the same over a real crypto/tls listener (handshake inside the first read)
						runPlan(mode, fmt.Sprintf("order-tls-k%d-m%d-p%d", k, mi, pos), withTLS(plan), 0)
						st["family_orders_tls"]++
					}
				}
			}
		}
	}
	// ---- B. special scenarios
	for _, mode := range []string{"tcp", "udp"} {
		sp := map[string][]string{
			// idle connections blocked in read are unblocked and closed
			"idle-conns": {"S0", "C1", "C2", "C3", "D0", "Wdr.0.0", "Wsr.0"},
			// context expiry: Shutdown returns while the handler still runs, serve returns after it
			"ctx-expiry": {"S0", "C1", "Q1", "K0", "k0", "R1", "Wsr.0"},
			// two handlers, context expiry, then both released
			"ctx-expiry-2": {"S0", "C1", "C2", "Q1", "Q2", "K0", "R1", "k0", "R2", "Wsr.0"},
			// second start while started, Shutdown twice
			"double-start": {"S0", "S1", "Wse.1", "C1", "Q1", "S2", "Wse.2", "D0", "d1", "Wdr.1.2", "R1", "Wdr.0.0", "Wsr.0"},
			// Shutdown of a server that was never started
			"unstarted": {"d0", "Wdr.0.2", "d1", "Wdr.1.2"},
			// Shutdown after Shutdown completed
			"shutdown-twice": {"S0", "D0", "Wdr.0.0", "Wsr.0", "d1", "Wdr.1.2"},
			// temporary accept / read errors while running
			"temp-errors": {"S0", "T", "C1", "Q1", "T", "R1", "C2", "Q2", "D0", "R2", "Wdr.0.0", "Wsr.0"},
			// two requests on one connection, Shutdown during the second
			"two-requests": {"S0", "C1", "Q1", "R1", "Q1", "D0", "R1", "Wdr.0.0", "Wsr.0"},
			// client closes, then Shutdown
			"client-close": {"S0", "C1", "Q1", "R1", "X1", "C2", "X2", "D0", "Wdr.0.0", "Wsr.0"},
			// requests that arrive after the lock region of Shutdown are not handled
			"late-requests": {"S0", "C1", "C2", "Q1", "D0", "q2", "C3", "q3", "R1", "Wdr.0.0", "Wsr.0"},
			// Shutdown racing with start: called right after the start call, no waiting
			"shutdown-right-after-start": {"s0", "Z", "Wsr.0"},
		}
		if mode == "tcp" {
			// Shutdown falls between a connection's isStarted() test and its read: the deadline
			// Shutdown set must not be overridden (first read, and the read after a request)
			sp["shutdown-in-read-window"] = []string{"S0", "P1", "C1", "V1", "D0", "U1", "Wdr.0.0", "Wsr.0"}
			sp["shutdown-in-read-window-2"] = []string{"S0", "C1", "Q1", "P1", "R1", "V1", "C2", "Q2", "D0", "U1", "R2", "Wdr.0.0", "Wsr.0"}
		} else {
			sp["shutdown-in-read-window"] = []string{"P0", "S0", "V0", "D0", "U0", "Wdr.0.0", "Wsr.0"}
			sp["shutdown-in-read-window-2"] = []string{"S0", "P0", "Q1", "V0", "D0", "U0", "R1", "Wdr.0.0", "Wsr.0"}
		}
		if mode == "udp" {
			// every UDP packet is its own worker
			sp["two-requests"] = []string{"S0", "Q1", "R1", "Q2", "D0", "R2", "Wdr.0.0", "Wsr.0"}
		}
		var names []string
		for name := range sp {
			names = append(names, name)
		}
		sort.Strings(names)
		for _, name := range names {
			plan := sp[name]
			runPlan(mode, name, plan, 0)
			st["family_special"]++
			if mode == "tcp" {
				runPlan(mode, name+"-tls", withTLS(plan), 0)
				st["family_special_tls"]++
			}
		}
	}
	// ---- C. unsynchronised runs: requests, releases and Shutdown race for real
	nRace := 100
	if thorough {
		nRace = 1500
	}
	for i := 0; i < nRace; i++ {
		mode := "tcp"
		if r.Bool() {
			mode = "udp"
		}
		k := 1 + r.Intn(3)
		if thorough {
			k = 1 + r.Intn(4)
		}
		// every second run: over a crypto/tls listener (tcp) and / or with messages that must not
		// reach a handler next to the queries (tcp: on the same connections, kinds that carry an id)
		useTLS := mode == "tcp" && i%2 == 1 && r.Intn(2) == 0
		noise := i%2 == 1
		var seqs [][]string
		for c := 1; c <= k; c++ {
			s := []string{fmt.Sprintf("q%d", c), fmt.Sprintf("R%d", c)}
			if noise && mode == "tcp" && r.Intn(2) == 0 {
				s = append([]string{fmt.Sprintf("b%d.%d", c, 2+r.Intn(nBadKinds-2))}, s...)
			}
			if mode == "tcp" {
				s = append([]string{fmt.Sprintf("C%d", c)}, s...)
			}
			seqs = append(seqs, s)
		}
		if noise && mode == "udp" {
			var s []string
			for j, nb := 0, 1+r.Intn(3); j < nb; j++ {
				s = append(s, fmt.Sprintf("b%d.%d", 11+j, r.Intn(nBadKinds)))
			}
			seqs = append(seqs, s)
		}
		if noise && mode == "tcp" && r.Intn(2) == 0 {
			// a client that never sends a message: silent, or junk
			s := []string{"c8.0"}
			if r.Bool() {
				s = append(s, fmt.Sprintf("x8.%d", r.Intn(len(junkKinds))))
			}
			seqs = append(seqs, s)
		}
		// one random merge
		var plan []string
		for {
			var live []int
			for i, s := range seqs {
				if len(s) > 0 {
					live = append(live, i)
				}
			}
			if len(live) == 0 {
				break
			}
			j := live[r.Intn(len(live))]
			plan = append(plan, seqs[j][0])
			seqs[j] = seqs[j][1:]
		}
		pos := r.Intn(len(plan) + 1)
		full := append([]string{"S0"}, plan[:pos]...)
		full = append(full, "d0")
		full = append(full, plan[pos:]...)
		full = append(full, "Wsr.0")
		if useTLS {
			full = withTLS(full)
		}
		runPlan(mode, fmt.Sprintf("race-%d", i), full, 0)
		st["family_race"]++
	}
	// ---- F. Shutdown forced against every step of the read loop (generic PacketConn / Listener / Conn)
	for _, mode := range []string{"tcp", "udp"} {
		for _, hc := range holdCases(mode) {
			runPlan(mode, "step-"+hc.name, hc.plan, 0)
			st["family_read_loop_steps"]++
			if mode == "tcp" {
				runPlan(mode, "step-tls-"+hc.name, withTLS(hc.plan), 0)
				st["family_read_loop_steps_tls"]++
			}
		}
	}
	// ---- G. the same Server value started again after Shutdown: every ordered pair of lives,
	//         sampled triples (thorough: more), Shutdown of the stopped server between lives
	for _, mode := range []string{"tcp", "udp"} {
		bodies := lifeBodies(mode)
		var names []string
		for nm := range bodies {
			names = append(names, nm)
		}
		sort.Strings(names)
		for _, a := range names {
			for _, b := range names {
				plan := append(append(append([]string{}, bodies[a]...), "N"), bodies[b]...)
				runPlan(mode, "restart-"+a+"-"+b, plan, 0)
				st["family_restart"]++
			}
		}
		nTriples := 10
		if thorough {
			nTriples = 120
		}
		for i := 0; i < nTriples; i++ {
			var plan []string
			nm := "restart"
			lives := 3 + r.Intn(2)
			for l := 0; l < lives; l++ {
				if l > 0 {
					plan = append(plan, "N")
				}
				b := names[r.Intn(len(names))]
				nm += "-" + b
				plan = append(plan, bodies[b]...)
				if r.Intn(3) == 0 {
					// Shutdown of the stopped server between two lives: error, at once
					plan = append(plan, "d7", "Wdr.7.2")
				}
			}
			runPlan(mode, nm, plan, 0)
			st["family_restart"]++
		}
	}
	// ---- H. a new life started while the previous serve call is still draining
	restartWhileDraining("tcp", false)
	restartWhileDraining("udp", false)
	restartWhileDraining("tcp", true)
	// ---- J. start calls that fail by themselves (ListenAndServe: bad network, tcp-tls without
	//         certificates, address in use, bad port; ActivateAndServe: no listeners, closed UDPConn)
	//         on a Server value that is not serving - never started, or its previous life over -,
	//         followed by Shutdown (must return the not-started error at once), further failing
	//         starts, and a retry that must serve a complete life
	for _, mode := range []string{"tcp", "udp"} {
		life := []string{"S0", "C1", "Q1", "D0", "R1", "Wdr.0.0", "Wsr.0"}
		if mode == "udp" {
			life = []string{"S0", "Q1", "D0", "R1", "Wdr.0.0", "Wsr.0"}
		}
		F := func(k int) string { return fmt.Sprintf("F%d", k%len(failKinds)) }
		for k := range failKinds {
			follow := [][]string{{}, {"E7"}, {"E7", "E8"}, {F(k + 1)}, {F(k + 2), "E7", F(k + 3)}}
			for fi, f := range follow {
				for _, pre := range []bool{false, true} {
					var plan []string
					nm := fmt.Sprintf("failed-start-%s-f%d", failKinds[k], fi)
					if pre {
						nm += "-after-a-life"
						plan = append(append(plan, life...), "N")
					}
					plan = append(plan, F(k))
					plan = append(plan, f...)
					plan = append(plan, life...)
					if (fi+k)%2 == 0 {
						// and once more when the life is over, without handing out a new transport
						plan = append(plan, F(k+4), "E9")
					}
					runPlan(mode, nm, plan, 0)
					st["family_failed_start"]++
				}
			}
		}
	}
	// ---- I. one Server value over real loopback sockets through ListenAndServe and
	//         ActivateAndServe, across transports (srv.PacketConn / srv.Listener keep what the
	//         previous lives left there), across failing starts, Shutdown of the unstarted server
	{
		oks := []string{"LS:udp", "LS:tcp", "LS:tcp-tls", "AS:udp", "AS:tcp", "AS:tcp-tls"}
		for _, a := range oks {
			for _, b := range oks {
				realHistory([]string{a, b})
			}
		}
		for k := range failKinds {
			for oi, o := range oks {
				h := []string{fmt.Sprintf("F:%d", k)}
				if (k+oi)%2 == 0 {
					h = append(h, "E")
				}
				realHistory(append(h, o))
			}
		}
		// a life that ends by itself (socket closed from outside), Shutdown, the next life
		for xi, x := range []string{"X:AS:udp", "X:AS:tcp", "X:LS:udp", "X:LS:tcp"} {
			for oi, o := range oks {
				if (xi+oi)%2 == 0 {
					realHistory([]string{x, o})
				} else {
					realHistory([]string{o, x, oks[(oi+xi)%len(oks)]})
				}
			}
		}
		nMixed := 12
		if thorough {
			nMixed = 150
		}
		for i := 0; i < nMixed; i++ {
			h := []string{oks[r.Intn(len(oks))]}
			for n := 1 + r.Intn(3); n > 0; n-- {
				switch r.Intn(3) {
				case 0:
					h = append(h, fmt.Sprintf("F:%d", r.Intn(len(failKinds))))
				case 1:
					h = append(h, "E")
				default:
					h = append(h, oks[r.Intn(len(oks))])
				}
			}
			realHistory(append(h, oks[r.Intn(len(oks))]))
		}
	}
	// ---- P. every failing start through ListenAndServe for every srv.Net value on an address the
	//         harness knows: afterwards the process holds no new socket, nothing listens there, and
	//         the corrected start of the same Server value on the SAME address serves a life
	failingStartsAtKnownAddresses(r)
	// ---- Q. input that reaches no handler followed by several requests in flight together (workers
	//         parked before the body is decoded / inside the handler / all readable at once): every
	//         worker gives the handler the request of ITS datagram, every peer gets ITS reply
	inFlightAfterNoHandlerInput(r, thorough)
	// ---- K. every way a serve call ends by itself: a non-temporary Accept / ReadFrom error, or the
	//         listener / PacketConn closed from outside, at every point of a life (idle, handler in
	//         flight, after a served request, after temporary errors of both flavours, after a client
	//         close), followed by Shutdown (waiting / context expiry / after the serve call returned /
	//         after a refused second start) and by a restart of the same Server value
	for _, mode := range []string{"tcp", "udp"} {
		for _, sc := range selfEndCases(mode) {
			runPlan(mode, "self-end-"+sc.name, sc.plan, 0)
			st["family_self_end"]++
		}
	}
	// ---- L. handlers that Hijack() their connection and go on using it (plain and TLS-style wrapped
	//         connections; on a PacketConn server Hijack changes nothing), before / during / after
	//         Shutdown, closing it or not, next to ordinary requests on other connections
	for _, mode := range []string{"tcp", "udp"} {
		for _, hc := range hijackCases(mode) {
			runPlan(mode, "hijack-"+hc.name, hc.plan, 0)
			st["family_hijack"]++
		}
	}
	// ---- M. a real crypto/tls listener whose clients do not get through the handshake: silent,
	//         junk instead of a ClientHello (no record, too short, another protocol, oversized,
	//         partial), stalled after the first flight, a protocol version the server refuses, a
	//         client that refuses the certificate, junk / a partial record after the handshake -
	//         alone, next to a handler in flight, with a context expiry, two of them, junk written
	//         after the lock region of Shutdown, followed by a restart; raw clients also on a plain
	//         listener (partial messages)
	for _, hc := range handshakeCases() {
		runPlan("tcp", "handshake-"+hc.name, hc.plan, 0)
		st["family_handshake"]++
	}
	// ---- N. input that never reaches a handler (datagrams shorter than a header, messages without a
	//         complete header, responses, bodies that do not unpack, opcodes not implemented, two
	//         questions, messages the user's MsgAcceptFunc ignores / rejects) before Shutdown: alone,
	//         before / while / after a query in flight, behind a running handler on the same
	//         connection, with a context expiry, after the lock region, followed by a restart
	for _, mode := range []string{"udp", "tcp", "tls"} {
		for _, hc := range ignoredInputCases(mode, thorough) {
			m := mode
			if m == "tls" {
				m = "tcp"
			}
			runPlan(m, "ignored-"+hc.name, hc.plan, 0)
			st["family_ignored_input"]++
		}
	}
	// ---- D. real sockets: the same oracles, no model case; every Server value lives twice
	for i := 0; i < 6; i++ {
		realRun("udp", 1+i%3, i >= 3)
		realRun("tcp", 1+i%3, i >= 3)
	}
	// ---- E. a start that fails after srv.started was set
	failedStart()
	// ---- F. NotifyStartedFunc callbacks that call back into the Server (reentrant.go)
	reentrantNotify()

	stGMu.Lock()
	for k, v := range stG {
		st[k] += v
	}
	stGMu.Unlock()
	Stat(st)
}

// ---------------------------------------------------------------- Shutdown against every step of the read loop
type holdCase struct {
	name string
	plan []string
}

// holdCases: for every step of the read loop a fake can hold a server thread at (arming the
// read deadline, a read that has consumed a request / packet, Accept that has taken a
// connection, MsgAcceptFunc = worker running but handler not entered, Close of a connection),
// in every position of the loop it occurs at (first iteration, after a temporary error, after
// a request), with and without another handler in flight, a Shutdown call (waiting, or with a
// context that expires) is made while the thread is AT that step.
func holdCases(mode string) []holdCase {
	type pt struct {
		name string
		ops  []string // after S0 (and the background): arm, trigger, wait until the thread is there
		fin  []string // after the Shutdown call
		bg   bool     // can be combined with a background handler
	}
	var pts []pt
	if mode == "udp" {
		pts = []pt{
			{"dl-after-timeout", []string{"Hdl.0", "T", "Gdl.0"}, nil, true},
			{"dl-after-packet", []string{"Hdl.0", "Q1", "Gdl.0"}, []string{"R1"}, true},
			{"rd", []string{"Hrd.1", "q1", "Grd.1"}, []string{"R1"}, true},
			{"ma", []string{"Hma.1", "q1", "Gma.1"}, []string{"R1"}, true},
			{"rd-then-dl", []string{"Hrd.1", "Hdl.0", "q1", "Grd.1"}, []string{"R1"}, true},
		}
	} else {
		pts = []pt{
			{"ac-idle", []string{"Hac.1", "C1", "Gac.1"}, nil, true},
			{"ac-request-pending", []string{"Hac.1", "C1", "q1", "Gac.1"}, []string{"R1"}, true},
			{"dl-first-read", []string{"Hdl.1", "C1", "Gdl.1"}, nil, true},
			{"dl-first-read-request-pending", []string{"Hdl.1", "C1", "q1", "Gdl.1"}, []string{"R1"}, true},
			{"dl-second-read", []string{"C1", "Q1", "Hdl.1", "R1", "Gdl.1"}, nil, true},
			{"rd", []string{"C1", "Hrd.1", "q1", "Grd.1"}, []string{"R1"}, true},
			{"ma", []string{"C1", "Hma.1", "q1", "Gma.1"}, []string{"R1"}, true},
			{"cl", []string{"C1", "Hcl.1", "X1", "Gcl.1"}, nil, true},
			{"ac-and-dl", []string{"Hac.2", "C1", "Hdl.1", "Q1", "C2", "R1", "Gdl.1", "Gac.2"}, nil, true},
		}
	}
	var out []holdCase
	if mode == "udp" {
		// the very first iteration of serveUDP
		out = append(out, holdCase{"udp-dl-first", []string{"Hdl.0", "S0", "Gdl.0", "D0", "Wdr.0.0", "Wsr.0"}})
	}
	for _, p := range pts {
		for _, bg := range []bool{false, true} {
			for _, kind := range []string{"D", "K"} {
				if kind == "K" && !bg {
					continue // a context can only be seen to expire while a handler is held
				}
				plan := []string{"S0"}
				nm := mode + "-" + p.name
				if bg {
					nm += "-bg"
					if mode == "tcp" {
						plan = append(plan, "C9")
					}
					plan = append(plan, "Q9")
				}
				plan = append(plan, p.ops...)
				if kind == "D" {
					plan = append(plan, "D0")
					plan = append(plan, p.fin...)
					if bg {
						plan = append(plan, "R9")
					}
					plan = append(plan, "Wdr.0.0", "Wsr.0")
				} else {
					nm += "-ctx"
					plan = append(plan, "K0", "k0")
					plan = append(plan, p.fin...)
					plan = append(plan, "R9", "Wsr.0")
				}
				out = append(out, holdCase{nm, plan})
			}
		}
	}
	return out
}

func withTLS(plan []string) []string { return append([]string{"M"}, plan...) }

// handshakeCases: see family M in runC13
func handshakeCases() []holdCase {
	type odd struct {
		name   string
		ops    func(c int) []string
		prompt bool // the server's read fails by itself (it does not need Shutdown to get rid of the client)
		junk   int  // raw junk kind (-1: none)
	}
	f := func(format string) func(int) []string {
		return func(c int) []string {
			var out []string
			for _, o := range strings.Fields(format) {
				out = append(out, strings.ReplaceAll(o, "#", fmt.Sprint(c)))
			}
			return out
		}
	}
	odds := []odd{
		{"silent", f("c#.0"), false, -1},
		{"junk-no-record", f("c#.0 x#.0"), true, 0},
		{"junk-3-octets", f("c#.0 x#.1"), false, 1},
		{"junk-http", f("c#.0 x#.2"), true, 2},
		{"junk-oversized-record", f("c#.0 x#.3"), true, 3},
		{"junk-partial-handshake", f("c#.0 x#.4"), false, 4},
		{"stalls-after-first-flight", f("c#.1"), false, -1},
		{"tls10-only", f("c#.2"), true, -1},
		{"client-refuses-certificate", f("c#.3"), true, -1},
		{"junk-after-handshake", f("C# x#.0"), true, -1},
		{"partial-record-after-handshake", f("C# x#.4"), false, -1},
	}
	cat := func(parts ...[]string) []string {
		var out []string
		for _, p := range parts {
			out = append(out, p...)
		}
		return out
	}
	end := []string{"Wdr.0.0", "Wsr.0"}
	var out []holdCase
	for i, o := range odds {
		o2 := odds[(i+3)%len(odds)]
		out = append(out,
			holdCase{o.name + "-alone", cat([]string{"M", "S0"}, o.ops(1), []string{"D0"}, end)},
			holdCase{o.name + "-inflight", cat([]string{"M", "S0", "C9", "Q9"}, o.ops(1), []string{"D0", "R9"}, end)},
			holdCase{o.name + "-ctx", cat([]string{"M", "S0", "C9", "Q9"}, o.ops(1), []string{"K0", "k0", "R9", "Wsr.0"})},
			holdCase{o.name + "-and-" + o2.name, cat([]string{"M", "S0"}, o.ops(1), o2.ops(2), []string{"C9", "Q9", "D0", "R9"}, end)},
		)
		if o.prompt {
			// the failure has been dealt with before Shutdown is called (no verdict on when)
			out = append(out, holdCase{o.name + "-settled", cat([]string{"M", "S0"}, o.ops(1), []string{"wwc.1", "D0"}, end)})
		}
		life := []string{"N", "M", "S0", "C1", "Q1", "D0", "R1", "Wdr.0.0", "Wsr.0"}
		if i%2 == 1 {
			life = append([]string{"N"}, life[2:]...) // the next life on a plain listener
		}
		out = append(out, holdCase{o.name + "-restart", cat([]string{"M", "S0"}, o.ops(1), []string{"C9", "Q9", "D0", "R9"}, end, life)})
		if o.junk >= 0 {
			// the junk is written after the lock region of Shutdown has run
			out = append(out, holdCase{o.name + "-late", cat([]string{"M", "S0", "c1.0", "C9", "Q9", "D0", fmt.Sprintf("x1.%d", o.junk), "R9"}, end)})
			// a plain listener: the same octets are a length prefix and a partial message
			out = append(out,
				holdCase{o.name + "-plain-alone", cat([]string{"S0"}, o.ops(1), []string{"D0"}, end)},
				holdCase{o.name + "-plain-inflight", cat([]string{"S0", "C9", "Q9"}, o.ops(1), []string{"K0", "k0", "R9", "Wsr.0"})})
		}
	}
	return out
}

// ignoredInputCases: see family N in runC13
func ignoredInputCases(mode string, thorough bool) []holdCase {
	var out []holdCase
	end := []string{"Wdr.0.0", "Wsr.0"}
	seq := 0
	fin := func(name string, plan []string) {
		seq++
		if mode == "tls" {
			if !thorough && seq%2 == 0 {
				return // (quick tier: every second one over TLS; all of them on a plain listener)
			}
			var p []string
			for _, o := range plan {
				if o == "S0" {
					p = append(p, "M")
				}
				p = append(p, o)
			}
			plan = p
		}
		out = append(out, holdCase{mode + "-" + name, plan})
	}
	cat := func(parts ...[]string) []string {
		var o []string
		for _, p := range parts {
			o = append(o, p...)
		}
		return o
	}
	for k := 0; k < nBadKinds; k++ {
		nm := fmt.Sprintf("kind%d-", k)
		if mode == "udp" {
			B, B2, b := fmt.Sprintf("B11.%d", k), fmt.Sprintf("B12.%d", k+1), fmt.Sprintf("b11.%d", k)
			fin(nm+"idle", cat([]string{"S0", B, "D0"}, end))
			fin(nm+"then-inflight", cat([]string{"S0", B, "Q1", "D0", "R1"}, end))
			fin(nm+"while-inflight", cat([]string{"S0", "Q1", B, "D0", "R1"}, end))
			fin(nm+"ctx", []string{"S0", "Q1", "R1", B, "Q2", B2, "K0", "k0", "R2", "Wsr.0"})
			fin(nm+"after-lock-region", cat([]string{"S0", "Q1", "D0", b, "R1"}, end))
			fin(nm+"restart", cat([]string{"S0", B, B2, "Q1", "D0", "R1"}, end, []string{"N", "S0", B, "D0"}, end))
			continue
		}
		B, B2, b, Bo := fmt.Sprintf("B1.%d", k), fmt.Sprintf("B1.%d", k+1), fmt.Sprintf("b1.%d", k), fmt.Sprintf("B2.%d", k)
		fin(nm+"idle", cat([]string{"S0", "C1", B, "D0"}, end))
		fin(nm+"then-query-on-the-connection", cat([]string{"S0", "C1", B, "Q1", "D0", "R1"}, end))
		fin(nm+"while-inflight", cat([]string{"S0", "C1", "Q1", "C2", Bo, "D0", "R1"}, end))
		fin(nm+"behind-a-running-handler", cat([]string{"S0", "C1", "Q1", b, "D0", "R1"}, end))
		fin(nm+"ctx", []string{"S0", "C1", "Q1", "R1", B, "C2", "Q2", B2, "K0", "k0", "R2", "Wsr.0"})
		fin(nm+"after-lock-region", cat([]string{"S0", "C1", "C2", "Q2", "D0", b, "R2"}, end))
		fin(nm+"restart", cat([]string{"S0", "C1", B, B2, "Q1", "D0", "R1"}, end, []string{"N", "S0", "C1", B, "D0"}, end))
	}
	// every kind in a row, then a query, then Shutdown
	var all []string
	for k := 0; k < nBadKinds; k++ {
		if mode == "udp" {
			all = append(all, fmt.Sprintf("B%d.%d", 11+k, k))
		} else {
			all = append(all, fmt.Sprintf("B1.%d", k))
		}
	}
	if mode == "udp" {
		fin("all-kinds", cat([]string{"S0"}, all, []string{"Q1", "D0", "R1"}, end))
	} else {
		fin("all-kinds", cat([]string{"S0", "C1"}, all, []string{"Q1", "D0", "R1"}, end))
	}
	return out
}

// hijackCases: see family L in runC13
func hijackCases(mode string) []holdCase {
	if mode == "udp" {
		return []holdCase{
			{"udp-before-shutdown", []string{"S0", "J1", "Q1", "R1", "Q2", "D0", "R2", "Wdr.0.0", "Wsr.0"}},
			{"udp-during-shutdown", []string{"S0", "J1", "Q1", "D0", "R1", "Wdr.0.0", "Wsr.0"}},
			{"udp-ctx", []string{"S0", "J1", "Q1", "K0", "k0", "R1", "Wsr.0"}},
		}
	}
	base := []holdCase{
		// hijacked before Shutdown; the owner is blocked in a read across the whole Shutdown and gets
		// the client's octets afterwards; writes; closes
		{"then-shutdown", []string{"S0", "C1", "J1", "Q1", "R1", "Y1", "o1", "D0", "Wdr.0.0", "Wsr.0", "i1", "u1", "y1"}},
		// used before, across and after Shutdown; never closed by the owner within the scenario
		{"used-throughout", []string{"S0", "C1", "J1", "Q1", "R1", "Y1", "o1", "i1", "u1", "o1", "D0", "Wdr.0.0", "Wsr.0", "i1", "o1", "u1"}},
		// an ordinary handler in flight on another connection: Shutdown waits for that one only,
		// the owner of the hijacked one reads during Shutdown
		{"next-to-inflight", []string{"S0", "C1", "C2", "J1", "Q1", "Q2", "R1", "Y1", "o1", "D0", "i1", "u1", "R2", "Wdr.0.0", "Wsr.0", "o1", "i1", "y1"}},
		// hijacked while Shutdown already waits for that handler
		{"during-shutdown", []string{"S0", "C1", "J1", "Q1", "D0", "R1", "Y1", "o1", "Wdr.0.0", "Wsr.0", "i1", "y1"}},
		// context expiry with an ordinary handler in flight
		{"ctx-expiry", []string{"S0", "C1", "C2", "J1", "Q1", "Q2", "R1", "Y1", "o1", "K0", "k0", "i1", "R2", "Wsr.0", "o1", "i1", "y1"}},
		// the second request on the connection hijacks
		{"second-request", []string{"S0", "C1", "Q1", "R1", "J1", "Q1", "R1", "Y1", "o1", "D0", "Wdr.0.0", "Wsr.0", "i1", "y1"}},
		// owner closes before Shutdown
		{"closed-before-shutdown", []string{"S0", "C1", "C2", "J1", "Q1", "R1", "Y1", "u1", "y1", "Q2", "D0", "R2", "Wdr.0.0", "Wsr.0"}},
		// two hijacked connections, idle third
		{"two-hijacked", []string{"S0", "C1", "C2", "C3", "J1", "J2", "Q1", "Q2", "R2", "Y2", "o2", "R1", "Y1", "o1", "D0", "Wdr.0.0", "Wsr.0", "i1", "i2", "y1"}},
		// the hijacking handler itself keeps running (and Shutdown waits for it); released, then owned
		{"handler-stays", []string{"S0", "C1", "j1", "Q1", "r1", "h1", "D0", "g1", "Y1", "o1", "Wdr.0.0", "Wsr.0", "i1", "y1"}},
		{"handler-stays-then-shutdown", []string{"S0", "C1", "j1", "Q1", "r1", "h1", "g1", "Y1", "o1", "D0", "Wdr.0.0", "Wsr.0", "i1"}},
		// the listener is closed from outside / a fatal error ends the serve call, then Shutdown
		{"self-end", []string{"S0", "C1", "J1", "Q1", "R1", "Y1", "o1", "f", "Wsr.1", "D0", "Wdr.0.0", "i1", "y1"}},
		// hijack in the first life, the owner keeps the connection across the restart and the second life
		{"across-restart", []string{"S0", "C1", "J1", "Q1", "R1", "Y1", "o1", "D0", "Wdr.0.0", "Wsr.0", "i1", "N", "S0", "C1", "Q1", "D0", "R1", "Wdr.0.0", "Wsr.0"}},
	}
	var out []holdCase
	for _, b := range base {
		out = append(out, b)
		// the same over a TLS-style listener (the server sees wrappers)
		out = append(out, holdCase{b.name + "-wrapped", append([]string{"A"}, b.plan...)})
	}
	return out
}

// selfEndCases: see family K in runC13
func selfEndCases(mode string) []holdCase {
	c := func(ops ...string) []string {
		var out []string
		for _, o := range ops {
			if (o[0] == 'C' || o[0] == 'X') && mode != "tcp" {
				continue
			}
			out = append(out, o)
		}
		return out
	}
	type pos struct {
		name     string
		ops      []string
		inflight bool // handler 1 is held
		returns  bool // the serve call can return by itself after the error (nothing keeps it)
	}
	poss := []pos{
		{"idle", c("S0"), false, true},
		{"inflight", c("S0", "C1", "Q1"), true, false},
		{"served", c("S0", "C1", "Q1", "R1"), false, mode == "udp"},
		{"after-temporary-errors", c("S0", "T", "t", "T"), false, true},
		{"two-inflight", c("S0", "C1", "C2", "Q1", "Q2"), true, false},
	}
	if mode == "tcp" {
		poss = append(poss, pos{"client-closed", []string{"S0", "C1", "Q1", "R1", "X1", "Wwc.1"}, false, true},
			pos{"idle-connection", []string{"S0", "C1"}, false, false})
	}
	life := c("S0", "C1", "Q1", "D0", "R1", "Wdr.0.0", "Wsr.0")
	var out []holdCase
	for _, kind := range []string{"f", "O"} {
		for _, p := range poss {
			rel := []string{}
			if p.inflight {
				rel = append(rel, "R1")
				if p.name == "two-inflight" {
					rel = append(rel, "R2")
				}
			}
			follows := map[string][]string{
				"shutdown":               append(append([]string{"D0"}, rel...), "Wdr.0.0", "Wsr.0"),
				"second-start-shutdown":  append(append([]string{"S1", "Wse.1", "D0"}, rel...), "Wdr.0.0", "Wsr.0"),
				"released-then-shutdown": nil,
			}
			if p.inflight {
				follows["ctx-expiry"] = append(append([]string{"K0", "k0"}, rel...), "Wsr.0")
			}
			if p.returns {
				follows["serve-returns-first"] = []string{"Wsr.1", "D0", "Wdr.0.0"}
				follows["serve-returns-first-ctx"] = []string{"Wsr.1", "K0", "Wdr.0.0"}
			}
			if p.inflight && mode == "udp" {
				// the handlers return, the serve call returns its error by itself, then Shutdown
				follows["released-then-shutdown"] = append(append([]string{}, rel...), "Wsr.1", "D0", "Wdr.0.0")
			}
			var names []string
			for nm, f := range follows {
				if f != nil {
					names = append(names, nm)
				}
			}
			sort.Strings(names)
			for fi, nm := range names {
				plan := append(append([]string{}, p.ops...), kind)
				plan = append(plan, follows[nm]...)
				name := mode + "-" + kind + "-" + p.name + "-" + nm
				if fi%2 == 0 {
					// and the same Server value lives again
					plan = append(append(plan, "N"), life...)
					name += "-restart"
				}
				out = append(out, holdCase{name, plan})
			}
		}
	}
	return out
}

// lifeBodies: what one life of a Server value can look like (each ends with the serve call
// and every Shutdown call returned)
func lifeBodies(mode string) map[string][]string {
	c := func(ops ...string) []string {
		var out []string
		for _, o := range ops {
			if o[0] == 'C' && mode != "tcp" {
				continue
			}
			out = append(out, o)
		}
		return out
	}
	b := map[string][]string{
		"idle":     c("S0", "D0", "Wdr.0.0", "Wsr.0"),
		"inflight": c("S0", "C1", "Q1", "D0", "R1", "Wdr.0.0", "Wsr.0"),
		"served":   c("S0", "C1", "Q1", "R1", "D0", "Wdr.0.0", "Wsr.0"),
		"ctx":      c("S0", "C1", "Q1", "K0", "k0", "R1", "Wsr.0"),
		"two":      c("S0", "C1", "C2", "Q1", "Q2", "D0", "R2", "R1", "Wdr.0.0", "Wsr.0"),
		"late":     c("S0", "C1", "C2", "Q1", "D0", "q2", "R1", "Wdr.0.0", "Wsr.0"),
		"dstart":   c("S0", "S1", "Wse.1", "C1", "Q1", "D0", "d1", "Wdr.1.2", "R1", "Wdr.0.0", "Wsr.0"),
	}
	if mode == "tcp" {
		b["idleconn"] = []string{"S0", "C1", "C2", "D0", "Wdr.0.0", "Wsr.0"}
		b["hijack"] = []string{"S0", "C1", "C2", "J1", "Q1", "Q2", "R1", "Y1", "o1", "D0", "R2", "Wdr.0.0", "Wsr.0", "i1"}
		b["hijack-during"] = []string{"A", "S0", "C1", "J1", "Q1", "D0", "R1", "Y1", "o1", "Wdr.0.0", "Wsr.0", "i1", "y1"}
		b["step-dl"] = []string{"S0", "C1", "Q1", "Hdl.1", "R1", "Gdl.1", "D0", "Wdr.0.0", "Wsr.0"}
		b["step-ac"] = []string{"S0", "C2", "Q2", "Hac.1", "C1", "Gac.1", "D0", "R2", "Wdr.0.0", "Wsr.0"}
		b["tls"] = []string{"M", "S0", "C1", "Q1", "D0", "R1", "Wdr.0.0", "Wsr.0"}
		b["tls-odd-clients"] = []string{"M", "S0", "c1.0", "x1.0", "c2.1", "c4.0", "C3", "Q3", "D0", "R3", "Wdr.0.0", "Wsr.0"}
		b["ignored"] = []string{"S0", "C1", "B1.1", "B1.5", "B1.8", "Q1", "C2", "c3.0", "x3.0", "D0", "R1", "Wdr.0.0", "Wsr.0"}
	} else {
		b["ignored"] = []string{"S0", "B11.0", "B12.3", "B13.4", "B14.9", "Q1", "B15.2", "D0", "R1", "Wdr.0.0", "Wsr.0"}
		b["step-dl"] = []string{"S0", "Hdl.0", "Q1", "Gdl.0", "D0", "R1", "Wdr.0.0", "Wsr.0"}
		b["step-rd"] = []string{"S0", "Q2", "Hrd.1", "q1", "Grd.1", "D0", "R1", "R2", "Wdr.0.0", "Wsr.0"}
	}
	return b
}

// ---------------------------------------------------------------- restart while the previous life drains
// ShutdownContext returned because its context expired (a handler of the first life is still
// running, the first serve call still waits for it); the same Server value is started again on a
// new listener / PacketConn; a query is in flight in the second life; the first-life handler
// returns; Shutdown of the second life is called.  The property's oracles: Shutdown of the
// second life returns only after the second-life handler has returned, both serve calls return
// nil, no call panics (key C13/restart-while-draining: the first serve call used to close the
// second life's srv.shutdown channel).
// keepOpen (TCP): the client of the first life keeps its connection open after its reply.  Once
// Shutdown of the second life has returned, no handler may be started for a query on it, and
// the connection and the first serve call must not remain
// (key C13/restart-while-draining/connection-outlives-shutdown).
// A library that refuses the second start while the first serve call has not returned
// satisfies the property trivially (counted, no verdict).
func restartWhileDraining(mode string, keepOpen bool) {
	const keyLife = "C13/restart-while-draining"
	const keyConn = "C13/restart-while-draining/connection-outlives-shutdown" // only the two oracles on the kept-open connection
	name := "restart-while-draining-" + mode
	if keepOpen {
		name += "-conn-kept-open"
	}
	base := runtime.NumGoroutine()
	w := newWorld(mode)
	plan := []string{"S0", "C1", "Q1", "K0", "k0", "(new listener, same Server) S1", "C2", "Q2", "R1", "X1 unless kept open", "D1", "R2", "Wdr.1.0", "Wsr.0", "late query on connection 1 if kept open"}
	var c1 *fakeConn
	cleanup := func() {
		for i := 0; i < 4; i++ {
			w.release(1)
			w.release(2)
		}
		if c1 != nil {
			c1.CloseClient()
		}
		if w.lis != nil {
			w.lis.Close()
		}
		if w.pc != nil {
			w.pc.Close()
		}
	}
	fail := func(key, what string) {
		w.mu.Lock()
		pan := append([]string(nil), w.panicked...)
		w.mu.Unlock()
		Viol(key, what, map[string]any{"scenario": name, "mode": mode, "plan": plan, "events": w.events(), "panicked": pan})
		cleanup()
	}
	w.start(0)
	w.waitFor("n", 1)
	if mode == "tcp" {
		w.connect(1, true, -1)
		w.mu.Lock()
		c1 = w.conns[1]
		w.mu.Unlock()
	}
	w.request(1, 1, true)
	w.shutdown(0, true)
	w.waitShutdownSeen()
	w.cancel(0)
	w.waitFor("dr.0.1", 1)
	if w.stuck != "" {
		fail(keyLife, "first life: "+w.stuck)
		return
	}
	// second life of the same Server value; the first serve call still waits for handler 1
	w.newTransport()
	w.start(1)
	d := time.Now().Add(waitLong)
	for {
		w.mu.Lock()
		served, refused := w.count("n") >= 2, w.count("se.1") > 0
		w.mu.Unlock()
		if served {
			break
		}
		if refused {
			st["restart_while_draining_refused"]++
			cleanup()
			w.waitFor("sr.0", 1)
			w.stuck = ""
			return
		}
		if time.Now().After(d) {
			fail(keyLife, "the second start neither served nor was refused")
			return
		}
		time.Sleep(200 * time.Microsecond)
	}
	if mode == "tcp" {
		w.connect(2, true, -1)
	}
	w.request(2, 1, true)
	w.release(1)
	w.waitFor("hx.1", 1)
	if !keepOpen {
		if c1 != nil {
			c1.CloseClient()
		}
		w.waitFor("sr.0", 1) // the first serve call returns
	}
	w.shutdown(1, false)
	w.waitShutdownSeen()
	// handler 2 is still held: Shutdown must not return now
	early := false
	d = time.Now().Add(300 * time.Millisecond)
	for time.Now().Before(d) && !early && w.stuck == "" {
		w.mu.Lock()
		early = w.count("dr.1.0") > 0
		w.mu.Unlock()
		time.Sleep(time.Millisecond)
	}
	w.release(2)
	w.waitFor("hx.2", 1)
	w.waitFor("dr.1.0", 1)
	nsr := 2
	if keepOpen {
		nsr = 1
	}
	w.waitFor("sr.0", nsr)
	w.mu.Lock()
	pan := append([]string(nil), w.panicked...)
	w.mu.Unlock()
	st["restart_while_draining_checked"]++
	switch {
	case early:
		fail(keyLife, "the same Server value was started again while its previous serve call was still waiting for a handler "+
			"(ShutdownContext had returned its context error): Shutdown of the new life returned nil while a handler of the new life was still running")
		return
	case len(pan) > 0:
		fail(keyLife, "the same Server value was started again while its previous serve call was still draining: "+strings.Join(pan, "; "))
		return
	case w.stuck != "":
		fail(keyLife, "second life: "+w.stuck)
		return
	}
	if keepOpen && c1 != nil {
		// Shutdown of the second life has returned nil and its serve call has returned
		c1.Send(query(1))
		started := false
		d = time.Now().Add(500 * time.Millisecond)
		for time.Now().Before(d) && !started {
			w.mu.Lock()
			started = w.count("he.1") >= 2
			closed := w.count("wc.1") > 0
			w.mu.Unlock()
			if closed {
				break
			}
			time.Sleep(time.Millisecond)
		}
		w.mu.Lock()
		closed, sr := w.count("wc.1") > 0, w.count("sr.0")
		w.mu.Unlock()
		switch {
		case started:
			fail(keyConn, "a connection accepted in the first life was still being served after Shutdown of the second life had returned nil "+
				"(it is not in the new srv.conns, so its read was not unblocked): a handler was STARTED for a query on it after Shutdown returned")
			return
		case !closed || sr < 2:
			fail(keyConn, "after Shutdown of the second life had returned nil, a connection of the first life was still open / the first serve call had not returned")
			return
		}
	}
	w.settle(name, base, plan)
	if w.stuck != "" {
		fail(keyLife, w.stuck)
	}
}

// ---------------------------------------------------------------- real loopback sockets
var realHangs int

// sockOpen: is this real socket still open?  (setting a deadline fails on a closed socket)
func sockOpen(x any) (open bool, known bool) {
	switch s := x.(type) {
	case *net.UDPConn:
		return s.SetReadDeadline(time.Unix(1, 0)) == nil, true // (the deadline Shutdown itself sets)
	case *net.TCPListener:
		return s.SetDeadline(time.Unix(1, 0)) == nil, true
	}
	return false, false
}

// realSelfEnd: one life of srv over real sockets that ends by itself: the socket is closed from
// outside while the server runs (k = 1, tcp: with a handler in flight, released afterwards, the
// client then closes).  The serve call must return; Shutdown afterwards must terminate (nil or
// the not-started error); the next item of the history starts the same Server value again.
func realSelfEnd(srv *dns.Server, life int, how, network string, k int) string {
	in := map[string]any{"network": network, "start": how, "life_of_the_server_value": life, "ends_by": "socket closed from outside", "handlers_in_flight": k}
	gate := make(chan struct{}, 4)
	entered := make(chan struct{}, 4)
	started := make(chan struct{})
	srv.NotifyStartedFunc = func() { close(started) }
	srv.Handler = dns.HandlerFunc(func(w dns.ResponseWriter, req *dns.Msg) {
		entered <- struct{}{}
		<-gate
		m := new(dns.Msg)
		m.SetReply(req)
		w.WriteMsg(m)
	})
	var closeSock func()
	var addr string
	switch {
	case how == "LS":
		srv.Net, srv.Addr = network, "127.0.0.1:0"
	case network == "udp":
		pc, err := net.ListenPacket("udp", "127.0.0.1:0")
		if err != nil {
			return err.Error()
		}
		srv.PacketConn, addr, closeSock = pc, pc.LocalAddr().String(), func() { pc.Close() }
	default:
		l, err := net.Listen("tcp", "127.0.0.1:0")
		if err != nil {
			return err.Error()
		}
		srv.Listener, srv.PacketConn, addr, closeSock = l, nil, l.Addr().String(), func() { l.Close() }
	}
	served := make(chan error, 1)
	go func() {
		defer func() {
			if r := recover(); r != nil {
				served <- fmt.Errorf("serve call panicked: %v", r)
			}
		}()
		if how == "LS" {
			served <- srv.ListenAndServe()
		} else {
			served <- srv.ActivateAndServe()
		}
	}()
	select {
	case <-started:
	case err := <-served:
		if err != nil && strings.Contains(err.Error(), "already started") {
			in["error"] = err.Error()
			Viol("C13/start-refused-while-not-started", "a start of a Server value that is not serving was refused with the already-started error", in)
			return ""
		}
		return "server did not start: " + fmt.Sprint(err)
	case <-time.After(waitLong):
		return "server did not start"
	}
	if how == "LS" {
		if network == "udp" {
			pc := srv.PacketConn
			addr, closeSock = pc.LocalAddr().String(), func() { pc.Close() }
		} else {
			l := srv.Listener
			addr, closeSock = l.Addr().String(), func() { l.Close() }
		}
	}
	var c *dns.Conn
	if k > 0 && network == "tcp" {
		var err error
		if c, err = dns.DialTimeout("tcp", addr, 5*time.Second); err != nil {
			return "dial: " + err.Error()
		}
		c.SetDeadline(time.Now().Add(waitLong))
		if err := c.WriteMsg(new(dns.Msg).SetQuestion("real.example.", dns.TypeA)); err != nil {
			return "write: " + err.Error()
		}
		select {
		case <-entered:
		case <-time.After(waitLong):
			return "request did not reach the handler"
		}
	}
	closeSock()
	if c != nil {
		gate <- struct{}{}
		if _, err := c.ReadMsg(); err != nil {
			Viol("C13/reply-not-delivered", "reply of a handler in flight when the listener was closed from outside was not delivered: "+err.Error(), in)
		}
		c.Close()
	}
	select {
	case err := <-served:
		if err != nil && strings.Contains(err.Error(), "panicked") {
			Viol("C13/call-panicked", err.Error(), in)
		}
		in["serve_call_returned"] = fmt.Sprint(err)
	case <-time.After(waitLong):
		Viol("C13/serve-did-not-return", "the serve call did not return after its socket had been closed from outside (real sockets)", in)
		realHangs++
		return "hang"
	}
	sd := make(chan error, 1)
	go func() { sd <- srv.Shutdown() }()
	select {
	case err := <-sd:
		if err != nil && !strings.Contains(err.Error(), "not started") {
			Viol("C13/shutdown-unexpected-error", "Shutdown after the serve call had ended by itself returned "+err.Error(), in)
		}
	case <-time.After(waitLong):
		Viol("C13/shutdown-hangs", "the serve call had returned by itself (its socket was closed from outside); Shutdown afterwards did not return (real sockets)", in)
		realHangs++
		return "hang"
	}
	if r, txt := expectNotStarted(srv); r != "2" {
		Viol("C13/shutdown-blocks-after-failed-start", "Shutdown of a stopped Server value did not return the not-started error at once: "+txt, in)
	}
	st["real_self_end_lives_checked"]++
	return ""
}

var tlsOnce sync.Once
var tlsCfg *tls.Config

// serverTLS: a self-signed certificate for 127.0.0.1 made at run time
func serverTLS() *tls.Config {
	tlsOnce.Do(func() {
		key, err := ecdsa.GenerateKey(elliptic.P256(), rand.Reader)
		if err != nil {
			return
		}
		tmpl := &x509.Certificate{SerialNumber: big.NewInt(1), Subject: pkix.Name{CommonName: "verif"},
			NotBefore: time.Now().Add(-time.Hour), NotAfter: time.Now().Add(24 * time.Hour),
			IPAddresses: []net.IP{net.ParseIP("127.0.0.1")}, KeyUsage: x509.KeyUsageDigitalSignature,
			ExtKeyUsage: []x509.ExtKeyUsage{x509.ExtKeyUsageServerAuth}}
		der, err := x509.CreateCertificate(rand.Reader, tmpl, tmpl, &key.PublicKey, key)
		if err != nil {
			return
		}
		tlsCfg = &tls.Config{Certificates: []tls.Certificate{{Certificate: [][]byte{der}, PrivateKey: key}}}
	})
	return tlsCfg
}

// realHistory: one Server value, a sequence of  LS:<net> / AS:<net>  (a complete life through
// ListenAndServe / ActivateAndServe: double start refused, k handlers in flight, Shutdown or
// ShutdownContext expiry, replies, serve call returns nil, Shutdown of the stopped server
// refused, goroutines back),  F:<k>  (a start call that must fail by itself) and  E  (Shutdown
// of the server while not started: not-started error at once).
func realHistory(items []string) {
	if realHangs >= 2 {
		st["real_histories_skipped_after_confirmed_hangs"]++
		return
	}
	srv := &dns.Server{}
	in := map[string]any{"history_on_one_server_value": items}
	life := 0
	for idx, it := range items {
		in["step"] = idx
		switch {
		case it == "E":
			if r, txt := expectNotStarted(srv); r != "2" {
				Viol("C13/shutdown-blocks-after-failed-start", "Shutdown of a Server value that is not started (never started / its life over / its start failed) did not return the not-started error at once: "+txt, in)
			}
			st["real_history_unstarted_shutdowns_checked"]++
		case strings.HasPrefix(it, "F:"):
			var k int
			fmt.Sscanf(it[2:], "%d", &k)
			in["failing_start"] = failKinds[k%len(failKinds)]
			cls, txt := failStart(srv, k)
			switch cls {
			case "fl":
				st["real_history_failed_starts_checked"]++
			case "se":
				Viol("C13/start-refused-while-not-started", "a start of a Server value that is not serving returned the already-started error: "+txt, in)
			case "ok":
				Viol("C13/failed-start-no-error", "a start call that cannot serve returned nil", in)
				return
			case "hung":
				Viol("C13/failed-start-blocks", "a start call that cannot serve did not return", in)
				realHangs++
				return
			}
		case strings.HasPrefix(it, "X:"):
			// X:<how>:<net>
			life++
			infra := realSelfEnd(srv, life, it[2:4], it[5:], idx%2)
			if infra != "" {
				if infra != "hang" {
					fmt.Fprintln(os.Stderr, "C13 real-socket history", items, "infrastructure problem:", infra)
					st["real_history_infra_problems"]++
				}
				return
			}
		default:
			life++
			infra := realOnce(srv, life, it[:2], it[3:], 1+idx%2, idx%3 == 2)
			if infra != "" {
				if infra != "hang" {
					fmt.Fprintln(os.Stderr, "C13 real-socket history", items, "infrastructure problem:", infra)
					st["real_history_infra_problems"]++
				}
				return
			}
			st["real_history_lives_checked"]++
		}
	}
	st["real_histories_checked"]++
}

func realRun(network string, k int, withCtx bool) {
	for attempt := 0; attempt < 2; attempt++ {
		srv := &dns.Server{}
		infra := realOnce(srv, 1, "AS", network, k, withCtx)
		if infra == "" {
			st["real_runs_checked"]++
			// the second life of the same Server value, new socket
			infra = realOnce(srv, 2, "AS", network, 1+(k%3), !withCtx)
			if infra == "" {
				st["real_restart_runs_checked"]++
				return
			}
		}
		if infra == "hang" {
			return
		}
		fmt.Fprintln(os.Stderr, "C13 real-socket run: infrastructure problem:", infra)
		st["real_infra_retries"]++
	}
}

// realOnce: one life of srv over real loopback sockets.  how = "AS": the harness opens the
// socket and calls ActivateAndServe (an AS tcp life clears srv.PacketConn, which would take
// precedence; an AS udp life leaves srv.Listener as the previous life left it); how = "LS":
// srv.Net / srv.Addr are set and ListenAndServe opens the socket itself - srv.PacketConn and
// srv.Listener are left exactly as the previous lives of this Server value left them.
// how = "LA": ListenAndServe on the address srv.Addr already holds (failaddr.go).
// network: udp | tcp | tcp-tls, or one of their 4 / 6 variants.  Returns "" or an infrastructure
// problem (never a verdict).
func realOnce(srv *dns.Server, life int, how, network string, k int, withCtx bool) string {
	base := runtime.NumGoroutine()
	// srv.Net gets the value asked for (udp4, tcp6-tls, ...); the harness's own side - clients,
	// noise, probes - only needs the family
	srvNet := network
	network = netFamily(network)
	var mu sync.Mutex
	var ev []string
	logf := func(s string) { mu.Lock(); ev = append(ev, s); mu.Unlock() }
	gate := make(chan struct{}, 16)
	entered := make(chan struct{}, 16)
	started := make(chan struct{})
	srv.NotifyStartedFunc = func() { close(started) }
	srv.Handler = dns.HandlerFunc(func(w dns.ResponseWriter, req *dns.Msg) {
		logf(fmt.Sprintf("he.%d", req.Id))
		entered <- struct{}{}
		<-gate
		m := new(dns.Msg)
		m.SetReply(req)
		w.WriteMsg(m)
		logf(fmt.Sprintf("hx.%d", req.Id))
	})
	var addr string
	var sock any // the socket the server of this life listens on, where the harness can get at it
	in0 := map[string]any{"network": srvNet, "start": how, "life_of_the_server_value": life}
	if network == "tcp-tls" {
		srv.TLSConfig = serverTLS()
		if srv.TLSConfig == nil {
			return "no TLS certificate"
		}
	}
	switch {
	case how == "LS":
		srv.Net, srv.Addr = srvNet, "127.0.0.1:0"
	case how == "LA":
		// ListenAndServe on the address srv.Addr already holds
		srv.Net = srvNet
	case network == "udp":
		pc, err := net.ListenPacket("udp", "127.0.0.1:0")
		if err != nil {
			return err.Error()
		}
		srv.PacketConn = pc
		sock = pc
		addr = pc.LocalAddr().String()
	default:
		l, err := net.Listen("tcp", "127.0.0.1:0")
		if err != nil {
			return err.Error()
		}
		sock = l
		addr = l.Addr().String()
		if network == "tcp-tls" {
			l = tls.NewListener(l, srv.TLSConfig)
		}
		srv.Listener = l
		srv.PacketConn = nil
	}
	served := make(chan error, 1)
	go func() {
		defer func() {
			if r := recover(); r != nil {
				served <- fmt.Errorf("serve call panicked: %v", r)
			}
		}()
		if how != "AS" {
			served <- srv.ListenAndServe()
		} else {
			served <- srv.ActivateAndServe()
		}
	}()
	select {
	case <-started:
	case err := <-served:
		// no life of this Server value is running (the previous ones are over, or their start failed)
		if err != nil && strings.Contains(err.Error(), "already started") {
			in0["error"] = err.Error()
			Viol("C13/start-refused-while-not-started", "a start of a Server value that is not serving (previous life over / previous start failed) was refused with the already-started error", in0)
			return ""
		}
		return "server did not start: " + fmt.Sprint(err)
	case <-time.After(waitLong):
		return "server did not start"
	}
	if how != "AS" {
		// (set under srv.lock before NotifyStartedFunc ran)
		if network == "udp" {
			addr = srv.PacketConn.LocalAddr().String()
			sock = srv.PacketConn
		} else {
			addr = srv.Listener.Addr().String()
			sock = srv.Listener // (a TLS listener cannot be probed)
		}
	}
	// second start must fail at once
	t0 := time.Now()
	if err := srv.ActivateAndServe(); err == nil || !strings.Contains(err.Error(), "already started") {
		Viol("C13/double-start-no-error", "second ActivateAndServe on a started server did not return the already-started error", map[string]any{"network": network, "err": fmt.Sprint(err)})
	} else if time.Since(t0) > 5*time.Second {
		Viol("C13/double-start-blocked", "second ActivateAndServe blocked", map[string]any{"network": network})
	}
	// traffic that must not reach a handler, before the queries: datagrams shorter than a header,
	// a response, a body that does not unpack, an opcode not implemented (udp); clients that stay
	// silent, write junk / a partial message, send a message shorter than a header (tcp, tcp-tls)
	noise := realNoise(network, addr)
	defer noise.closeAll()
	// k clients with one request each, handlers held
	type cl struct {
		c   *dns.Conn
		id  uint16
		got chan error
	}
	var cls []cl
	for i := 0; i < k; i++ {
		var c *dns.Conn
		var err error
		if network == "tcp-tls" {
			c, err = dns.DialTimeoutWithTLS("tcp-tls", addr, &tls.Config{InsecureSkipVerify: true}, 5*time.Second)
		} else {
			c, err = dns.DialTimeout(network, addr, 5*time.Second)
		}
		if err != nil {
			return "dial: " + err.Error()
		}
		m := new(dns.Msg)
		m.SetQuestion("real.example.", dns.TypeA)
		m.Id = uint16(100 + i)
		c.SetDeadline(time.Now().Add(waitLong))
		if err := c.WriteMsg(m); err != nil {
			return "write: " + err.Error()
		}
		x := cl{c, m.Id, make(chan error, 1)}
		go func() {
			r, err := x.c.ReadMsg()
			if err == nil && r.Id != x.id {
				err = fmt.Errorf("reply id %d for query %d", r.Id, x.id)
			}
			x.got <- err
		}()
		cls = append(cls, x)
	}
	for i := 0; i < k; i++ {
		select {
		case <-entered:
		case <-time.After(waitLong):
			return "request did not reach the handler (loopback loss)"
		}
	}
	ctx, cancel := context.WithCancel(context.Background())
	defer cancel()
	sd := make(chan error, 1)
	sockAtReturn := make(chan bool, 1)
	go func() {
		err := srv.ShutdownContext(ctx)
		// the moment Shutdown returns (nil or context error): the server's socket is closed
		if open, known := sockOpen(sock); known {
			sockAtReturn <- open
		} else {
			sockAtReturn <- false
		}
		if err == nil {
			logf("dr.0.0")
		} else {
			logf("dr.0.1")
		}
		sd <- err
	}()
	in := map[string]any{"network": srvNet, "start": how, "handlers_in_flight": k, "ctx_expiry": withCtx, "life_of_the_server_value": life}
	if withCtx {
		cancel()
		select {
		case err := <-sd:
			if err == nil {
				Viol("C13/shutdown-returned-before-handler", "ShutdownContext returned nil while handlers were running (real sockets)", in)
			}
		case <-time.After(waitLong):
			Viol("C13/shutdown-ignores-context", "ShutdownContext did not return after its context was cancelled", in)
		}
	}
	for i := 0; i < k; i++ {
		gate <- struct{}{}
	}
	if !withCtx {
		select {
		case err := <-sd:
			if err != nil {
				Viol("C13/shutdown-unexpected-error", "Shutdown returned "+err.Error(), in)
			}
		case <-time.After(waitLong):
			Viol("C13/shutdown-hangs", "Shutdown did not return after all handlers returned (real sockets)", in)
			realHangs++
			return "hang"
		}
	}
	select {
	case err := <-served:
		if err != nil {
			Viol("C13/serve-returned-error", "the serve call returned "+err.Error()+" after a graceful shutdown (real sockets)", in)
		}
	case <-time.After(waitLong):
		Viol("C13/serve-did-not-return", "the serve call did not return after Shutdown (real sockets)", in)
		realHangs++
		return "hang"
	}
	select {
	case open := <-sockAtReturn:
		if open {
			Viol("C13/socket-open-after-shutdown", "the socket the server listened on ("+addr+") was still open when Shutdown / ShutdownContext returned (real sockets)", in)
		} else {
			st["real_socket_closed_at_shutdown_return_checked"]++
		}
	default:
	}
	if open, known := sockOpen(sock); known && open {
		Viol("C13/socket-open-after-shutdown", "the socket the server listened on ("+addr+") was still open after the serve call had returned (real sockets)", in)
	}
	// the serve call has returned: no connection of the server remains - not in its tracking, and
	// the clients that never got a message through see their connection closed
	if n := srv.VerifTrackedConns(); n > 0 {
		Viol("C13/connection-open-after-shutdown", fmt.Sprintf("%d connection(s) still in the server's connection tracking (srv.conns) after Shutdown and the serve call had returned (real sockets)", n), in)
	}
	if what := noise.stillOpen(); what != "" {
		Viol("C13/connection-open-after-shutdown", "after Shutdown and the serve call had returned the server still held open the connection of "+what+" (real sockets)", in)
	}
	// replies of the in-flight handlers are delivered (after a context expiry
	// ShutdownContext has closed the UDP socket: nothing to expect there)
	for _, x := range cls {
		if withCtx && network == "udp" {
			x.c.Close()
			continue
		}
		select {
		case err := <-x.got:
			if err != nil {
				if network == "udp" {
					x.c.Close()
					return "udp reply lost: " + err.Error()
				}
				Viol("C13/reply-not-delivered", "reply of an in-flight handler was not delivered: "+err.Error(), in)
			}
		case <-time.After(waitLong):
			return "reply did not arrive"
		}
		x.c.Close()
	}
	mu.Lock()
	evs := append([]string(nil), ev...)
	mu.Unlock()
	in["events"] = evs
	if !withCtx {
		di := idx(evs, "dr.0.0")
		for i, e := range evs {
			if strings.HasPrefix(e, "hx.") && i > di && di >= 0 {
				Viol("C13/shutdown-returned-before-handler", "Shutdown returned nil before "+e+" (real sockets)", in)
			}
		}
	}
	// Shutdown of the stopped server: error, at once
	t0 = time.Now()
	if err := srv.Shutdown(); err == nil || !strings.Contains(err.Error(), "not started") {
		Viol("C13/shutdown-unstarted-no-error", "Shutdown of a stopped server did not return the not-started error", in)
	} else if time.Since(t0) > 5*time.Second {
		Viol("C13/shutdown-unstarted-blocked", "Shutdown of a stopped server blocked", in)
	}
	// a request sent now is not handled
	d := time.Now().Add(5 * time.Second)
	for runtime.NumGoroutine() > base {
		if time.Now().After(d) {
			buf := make([]byte, 1<<16)
			n := runtime.Stack(buf, true)
			in["stacks"] = string(buf[:n])[:min(n, 3000)]
			Viol("C13/goroutine-leak", fmt.Sprintf("%d goroutines before, %d five seconds after shutdown (real sockets)", base, runtime.NumGoroutine()), in)
			break
		}
		time.Sleep(2 * time.Millisecond)
	}
	return ""
}

// ---------------------------------------------------------------- real sockets: traffic that reaches no handler
type noiseConn struct {
	what string
	c    net.Conn
}
type noiseSet struct{ conns []noiseConn }

var noiseOpenConfirmed int

func realNoise(network, addr string) *noiseSet {
	ns := &noiseSet{}
	if network == "udp" {
		c, err := net.Dial("udp", addr)
		if err != nil {
			return ns
		}
		defer c.Close()
		for k := 0; k < nBadKinds; k++ {
			m, _, _ := badMsg(7000+k, k) // (kinds 8 and 9 are ordinary queries here: ids no handler gate waits for)
			if k == 8 || k == 9 {
				continue
			}
			c.Write(m)
			st["real_udp_noise_datagrams"]++
		}
		return ns
	}
	dial := func(what string) net.Conn {
		c, err := net.DialTimeout("tcp", addr, 5*time.Second)
		if err != nil {
			return nil
		}
		ns.conns = append(ns.conns, noiseConn{what, c})
		return c
	}
	dial("a client that writes nothing")
	if c := dial("a client that writes 12 octets of junk"); c != nil {
		c.Write(junkKinds[0])
	}
	if c := dial("a client that writes 3 octets"); c != nil {
		c.Write(junkKinds[1])
	}
	if network == "tcp" {
		if c := dial("a client that sent a 5-octet message"); c != nil {
			c.Write([]byte{0, 5, 0x1b, 0x58, 1, 0, 0})
		}
		if c := dial("a client that sent a response"); c != nil {
			m, _, _ := badMsg(7004, 4)
			c.Write(append([]byte{byte(len(m) >> 8), byte(len(m))}, m...))
		}
	} else {
		if c := dial("a TLS client that sent a 5-octet message"); c != nil {
			tc := tls.Client(c, &tls.Config{InsecureSkipVerify: true})
			tc.SetDeadline(time.Now().Add(waitLong))
			if tc.Handshake() == nil {
				tc.Write([]byte{0, 5, 0x1b, 0x58, 1, 0, 0})
			}
		}
		if c := dial("a TLS client that refuses the certificate"); c != nil {
			tc := tls.Client(c, &tls.Config{ServerName: "verif.invalid"})
			tc.SetDeadline(time.Now().Add(waitLong))
			tc.Handshake()
		}
	}
	st["real_tcp_noise_clients"] += len(ns.conns)
	return ns
}

// stillOpen: every noise client must see its connection end (EOF / reset); a read that is still
// blocked after the bound means the server holds the connection open.  Called only after Shutdown
// and the serve call have returned, when the server has closed everything it accepted (what it had
// not accepted died with the listener).
func (ns *noiseSet) stillOpen() string {
	for _, nc := range ns.conns {
		bound := waitLong
		if noiseOpenConfirmed >= 2 {
			bound = 300 * time.Millisecond
		}
		nc.c.SetReadDeadline(time.Now().Add(bound))
		buf := make([]byte, 4096)
		for {
			_, err := nc.c.Read(buf)
			if err == nil {
				continue // (an alert, an answer of the server itself)
			}
			if ne, ok := err.(net.Error); ok && ne.Timeout() {
				noiseOpenConfirmed++
				return nc.what
			}
			break
		}
		st["real_noise_connections_seen_closed_checked"]++
	}
	return ""
}
func (ns *noiseSet) closeAll() {
	for _, nc := range ns.conns {
		nc.c.Close()
	}
}

// ---------------------------------------------------------------- failed start
type onlyReader struct {
	tcp func(net.Conn, time.Duration) ([]byte, error)
	udp func(*net.UDPConn, time.Duration) ([]byte, *dns.SessionUDP, error)
}

func (o onlyReader) ReadTCP(c net.Conn, t time.Duration) ([]byte, error) { return o.tcp(c, t) }
func (o onlyReader) ReadUDP(c *net.UDPConn, t time.Duration) ([]byte, *dns.SessionUDP, error) {
	return o.udp(c, t)
}

// A generic PacketConn with a DecorateReader whose Reader lacks ReadPacketConn:
// serveUDP returns an error before its loop.  The server is then not serving:
// Shutdown must return the not-started error at once and a new start must work.
func failedStart() {
	base := runtime.NumGoroutine()
	w := newWorld("udp")
	good := w.srv.DecorateReader
	w.srv.DecorateReader = func(r dns.Reader) dns.Reader { return onlyReader{r.ReadTCP, r.ReadUDP} }
	plan := []string{"failed start", "Shutdown", "start again", "Shutdown"}
	w.log("si.0")
	err := w.srv.ActivateAndServe()
	in := map[string]any{"setup": "Server{PacketConn: generic net.PacketConn, DecorateReader: returns a Reader without ReadPacketConn}", "activate_error": fmt.Sprint(err)}
	if err == nil || !strings.Contains(err.Error(), "PacketConnReader") {
		Viol("C13/failed-start-no-error", "ActivateAndServe did not report the missing PacketConnReader", in)
		return
	}
	w.log("fs")
	st["failed_start_checked"]++
	ctx, cancel := context.WithTimeout(context.Background(), 1500*time.Millisecond)
	defer cancel()
	t0 := time.Now()
	w.log("di.1")
	serr := w.srv.ShutdownContext(ctx)
	in["shutdown_error"] = fmt.Sprint(serr)
	in["shutdown_took_ms"] = time.Since(t0).Milliseconds()
	switch {
	case serr == context.DeadlineExceeded:
		Viol("C13/shutdown-blocks-after-failed-start",
			"ActivateAndServe returned an error (serve loop never ran) but left srv.started set: Shutdown waits for a channel nobody closes, until its context expires (for ever with Shutdown())", in)
		return
	case serr == nil || !strings.Contains(serr.Error(), "not started"):
		Viol("C13/shutdown-unstarted-no-error", "Shutdown after a failed start did not return the not-started error", in)
		return
	}
	w.log("dr.1.2")
	// a new start is possible (on a new PacketConn: the failed serveUDP closed the old one)
	w.pc = &fakePC{w: w}
	w.pc.cond = sync.NewCond(&w.pc.mu)
	w.srv.PacketConn = w.pc
	w.srv.DecorateReader = good
	w.start(2)
	if !w.waitFor("n", 1) {
		w.mu.Lock()
		refused := w.count("se.2") > 0
		w.mu.Unlock()
		in["events"] = w.events()
		if refused {
			Viol("C13/shutdown-blocks-after-failed-start", "after a failed start a new ActivateAndServe is refused with 'server already started'", in)
		} else {
			Viol("C13/stuck", "a start after a failed start did not reach NotifyStartedFunc", in)
		}
		return
	}
	w.request(5, 1, true)
	w.shutdown(3, false)
	w.waitShutdownSeen()
	w.release(5)
	w.waitFor("dr.3.0", 1)
	w.waitFor("sr.0", 1)
	if w.stuck != "" {
		Viol("C13/stuck", "restart after a failed start: "+w.stuck, map[string]any{"events": w.events()})
		return
	}
	w.settle("failed-start", base, plan)
	w.judge("failed-start", plan, false)
}
