"""Shared machinery of bin/vcheck: rebuild (translator, Coq, Go harness), run the
implementation, evaluate the model on the same cases inside Coq, check the
property theorems and their assumptions, decide, write evidence.

Decision rule (DESIGN.md section 2):
  * a direct-oracle failure on the implementation that known_findings.json does
    not list                         -> VIOLATION replay=<file with that input>
  * a broken proof obligation or a model/implementation disagreement with no
    failing input found              -> VIOLATION ... no-failing-input-found
  * listed findings that reproduce   -> KNOWN-FINDING lines, exit 0
"""
import fcntl, hashlib, json, os, re, subprocess, sys, time
from concurrent.futures import ThreadPoolExecutor

ROOT = os.path.dirname(os.path.dirname(os.path.abspath(__file__)))
BUILD = os.path.join(ROOT, ".build")
# Self-tests against a mutated scratch tree (VERIF_REPO=<worktree>, bin/seedcheck) work on a private
# copy of the Coq tree and write their evidence/replays under .build/alt, so that they never disturb
# the registered checks, which always run against /repo in /verif/coq.
ALT = bool(os.environ.get("VERIF_REPO"))
OUT = os.path.join(BUILD, "alt") if ALT else ROOT
COQ = os.path.join(BUILD, "alt", "coq") if ALT else os.path.join(ROOT, "coq")
TH = os.path.join(COQ, "theories")
REPO = "/repo"
GO = "go1.26"
GOENV = dict(os.environ, GOFLAGS="-mod=mod", GOPROXY="off", GOSUMDB="off", GOTOOLCHAIN="local",
             CGO_ENABLED="0")
COQC_TIMEOUT = 900
MAKE_TIMEOUT = 2400


def log(*a):
    print("[vcheck]", *a, file=sys.stderr, flush=True)


def sh(cmd, cwd=None, env=None, timeout=None, check=False, stdin=None):
    p = subprocess.run(cmd, cwd=cwd, env=env, timeout=timeout, stdin=stdin,
                       stdout=subprocess.PIPE, stderr=subprocess.STDOUT, text=True)
    if check and p.returncode != 0:
        raise RuntimeError("command failed: %s\n%s" % (cmd, p.stdout[-4000:]))
    return p.returncode, p.stdout


class Lock:
    def __init__(self, name="build"):
        os.makedirs(BUILD, exist_ok=True)
        self.path = os.path.join(BUILD, name + ".lock")

    def __enter__(self):
        self.f = open(self.path, "w")
        fcntl.flock(self.f, fcntl.LOCK_EX)
        return self

    def __exit__(self, *a):
        fcntl.flock(self.f, fcntl.LOCK_UN)
        self.f.close()


# ----------------------------------------------------------------------------
# build steps
# ----------------------------------------------------------------------------
def run_translator():
    """Regenerate coq/theories/Gen/*.v from /repo's current sources.  Returns
    (ok, list of untranslated markers)."""
    src = os.path.join(ROOT, "tools", "gotrans")
    if not os.path.exists(os.path.join(src, "main.go")):
        return True, []
    exe = os.path.join(BUILD, "gotrans")
    rc, out = sh([GO, "build", "-o", exe, "."], cwd=src, env=GOENV, timeout=600)
    if rc != 0:
        raise RuntimeError("gotrans build failed:\n" + out)
    rc, out = sh([exe, "-repo", os.environ.get("VERIF_REPO", REPO), "-out", os.path.join(TH, "Gen")], timeout=300)
    markers = [l for l in out.splitlines() if l.startswith("UNTRANSLATED")]
    if rc != 0 and not markers:
        raise RuntimeError("gotrans failed:\n" + out)
    return not markers, markers


COQPROJECT_HEAD = """-Q theories Dns
-arg -w -arg -notation-overridden,-deprecated-hint-without-locality,-deprecated-instance-without-locality,-ambiguous-paths,-deprecated-syntactic-definition
"""


def write_coqproject():
    """_CoqProject lists every theories/**/*.v except the per-run Cases/ files."""
    files = []
    for d, _, fs in os.walk(TH):
        if os.path.basename(d) == "Cases":
            continue
        for f in fs:
            if f.endswith(".v") and not f.startswith("."):
                files.append(os.path.relpath(os.path.join(d, f), COQ))
    txt = COQPROJECT_HEAD + "\n".join(sorted(files)) + "\n"
    path = os.path.join(COQ, "_CoqProject")
    old = open(path).read() if os.path.exists(path) else ""
    if old != txt:
        with open(path, "w") as f:
            f.write(txt)
    return old != txt


def coq_make(targets=None):
    """Full .vo build (never -vos).  Returns (rc, output)."""
    changed = write_coqproject()
    if changed or not os.path.exists(os.path.join(COQ, "Makefile")):
        sh(["coq_makefile", "-f", "_CoqProject", "-o", "Makefile"], cwd=COQ, check=True)
    cmd = ["make", "-k", "-j16"] + (targets or [])
    try:
        rc, out = sh(cmd, cwd=COQ, timeout=MAKE_TIMEOUT)
    except subprocess.TimeoutExpired:
        return 124, "make timed out"
    return rc, out


def build_harness(prop):
    """Build harness/<prop> against /repo's working tree (hooks on).  For
    sensitivity self-tests VERIF_REPO=<scratch worktree> builds the same harness
    against a mutated copy instead (never used by registered commands)."""
    hdir = os.path.join(ROOT, "harness")
    repo = os.environ.get("VERIF_REPO", REPO)
    gosum = os.path.join(repo, "go.sum")
    if os.path.exists(gosum):
        with open(gosum) as f, open(os.path.join(hdir, "go.sum"), "w") as g:
            g.write(f.read())
    exe = os.path.join(BUILD, "harness_" + prop)
    cmd = [GO, "build", "-tags", "verif", "-o", exe]
    if repo != REPO:
        log("WARNING: building the harness against %s instead of /repo" % repo)
        exe += "_alt"
        mdir = os.path.join(BUILD, "altmod_" + prop)
        os.makedirs(mdir, exist_ok=True)
        with open(os.path.join(hdir, "go.mod")) as f:
            gm = f.read().replace("=> /repo", "=> " + repo)
        with open(os.path.join(mdir, "go.mod"), "w") as f:
            f.write(gm)
        if os.path.exists(gosum):
            with open(gosum) as f, open(os.path.join(mdir, "go.sum"), "w") as g:
                g.write(f.read())
        cmd = [GO, "build", "-tags", "verif", "-modfile", os.path.join(mdir, "go.mod"), "-o", exe]
    rc, out = sh(cmd + ["./" + prop.lower()], cwd=hdir, env=GOENV, timeout=900)
    return rc, out, exe


def vo_fresh(rel):
    """True when theories/<rel>.vo exists and is newer than its source."""
    v = os.path.join(TH, rel + ".v")
    vo = os.path.join(TH, rel + ".vo")
    return os.path.exists(vo) and os.path.getmtime(vo) >= os.path.getmtime(v)


# ----------------------------------------------------------------------------
# running the implementation
# ----------------------------------------------------------------------------
def run_harness(exe, prop, seed, tier, n=0, extra_env=None, timeout=1500):
    env = dict(GOENV)
    if extra_env:
        env.update(extra_env)
    try:
        p = subprocess.run([exe, prop, str(seed), tier, str(n)], stdout=subprocess.PIPE,
                           stderr=subprocess.PIPE, text=True, timeout=timeout, env=env)
    except subprocess.TimeoutExpired:
        return [], [], {}, "harness did not finish within %d s (the implementation no longer terminates in bounded time on some input)" % timeout
    cases, viols, stats = [], [], {}
    for ln in p.stdout.splitlines():
        if not ln.startswith("{"):
            continue
        try:
            o = json.loads(ln)
        except ValueError:
            continue
        if o.get("k") == "case":
            cases.append(o)
        elif o.get("k") == "viol":
            viols.append(o)
        elif o.get("k") == "stat":
            for k, v in o.get("stat", {}).items():
                stats[k] = stats.get(k, 0) + v
    crashed = None
    if p.returncode != 0:
        crashed = "harness exit %d: %s" % (p.returncode, p.stderr[-3000:])
    return cases, viols, stats, crashed


# ----------------------------------------------------------------------------
# evaluating the model inside Coq
# ----------------------------------------------------------------------------
def coq_str(s):
    return '"' + s.replace('"', '""') + '"'


def write_cases_file(path, corr_module, cases):
    with open(path, "w") as f:
        f.write("From Dns Require Import Base.Bytes %s.\n" % corr_module)
        f.write("Open Scope string_scope.\n")
        f.write("Definition cases : list ccase := [\n")
        rows = []
        for c in cases:
            rows.append("(%s, [%s], %s)" % (coq_str(c["fn"]), "; ".join(coq_str(a) for a in c.get("args", [])),
                                            coq_str(c.get("out", ""))))
        f.write(";\n".join(rows))
        f.write("\n].\n")
        f.write("Definition M := Eval vm_compute in mismatches run cases.\n")
        f.write("Set Printing Width 100000.\nSet Printing Depth 1000000.\n")
        f.write("Print M.\n")


MISM_RE = re.compile(r'\(\s*(\d+)(?:%N)?\s*,\s*"((?:[^"]|"")*)"\s*\)')


def coq_eval_cases(prop, corr_module, cases, shard_size=400, workers=12):
    """Returns (mismatches, error).  mismatches: list of (case index, model output)."""
    cdir = os.path.join(TH, "Cases")
    os.makedirs(cdir, exist_ok=True)
    shards = [cases[i:i + shard_size] for i in range(0, len(cases), shard_size)]
    files = []
    for k, sh_cases in enumerate(shards):
        path = os.path.join(cdir, "cases_%s_%d.v" % (prop, k))
        write_cases_file(path, corr_module, sh_cases)
        files.append(path)

    def one(k):
        try:
            rc, out = sh(["coqc", "-Q", "theories", "Dns", files[k]], cwd=COQ, timeout=COQC_TIMEOUT)
        except subprocess.TimeoutExpired:
            return k, None, "coqc timed out on shard %d" % k
        if rc != 0:
            return k, None, "coqc failed on shard %d: %s" % (k, out[-2000:])
        txt = out.replace("\n", " ")
        m = re.search(r"M\s*=\s*(.*?)\s*:\s*list", txt)
        if not m:
            return k, None, "cannot parse coqc output on shard %d: %s" % (k, out[-500:])
        body = m.group(1).strip()
        res = []
        if body != "[]":
            for mm in MISM_RE.finditer(body):
                res.append((int(mm.group(1)) + k * shard_size, mm.group(2).replace('""', '"')))
            if not res:
                return k, None, "unparsed mismatch list on shard %d: %s" % (k, body[:500])
        return k, res, None

    mism, err = [], None
    with ThreadPoolExecutor(max_workers=workers) as ex:
        for k, res, e in ex.map(one, range(len(shards))):
            if e:
                err = e
            else:
                mism.extend(res)
    for path in files:
        base = path[:-2]
        for ext in (".v", ".vo", ".vok", ".vos", ".glob"):
            try:
                os.remove(base + ext)
            except OSError:
                pass
        try:
            os.remove(os.path.join(cdir, "." + os.path.basename(base) + ".aux"))
        except OSError:
            pass
    return mism, err


# ----------------------------------------------------------------------------
# theorems and their assumptions
# ----------------------------------------------------------------------------
THM_RE = re.compile(r"^\s*(?:Theorem|Lemma|Corollary)\s+([A-Za-z0-9_']+)", re.M)


def theorems_of(rel):
    with open(os.path.join(TH, rel + ".v")) as f:
        return THM_RE.findall(f.read())


def check_theorems(prop, rel):
    """rel e.g. 'Props/C19'.  Returns list of dicts {name, ok, assumptions}."""
    names = theorems_of(rel)
    res = []
    if not vo_fresh(rel):
        return [dict(name=n, ok=False, assumptions=["<not compiled>"]) for n in names]
    cdir = os.path.join(TH, "Cases")
    os.makedirs(cdir, exist_ok=True)
    path = os.path.join(cdir, "assum_%s.v" % prop)
    mod = "Dns." + rel.replace("/", ".")
    with open(path, "w") as f:
        f.write("Require Import %s.\n" % mod)
        for n in names:
            f.write('Goal True. idtac "@@BEGIN %s". exact I. Qed.\nPrint Assumptions %s.%s.\n' % (n, mod, n))
        f.write('Goal True. idtac "@@END". exact I. Qed.\n')
    rc, out = sh(["coqc", "-Q", "theories", "Dns", path], cwd=COQ, timeout=COQC_TIMEOUT)
    for ext in (".v", ".vo", ".vok", ".vos", ".glob"):
        try:
            os.remove(path[:-2] + ext)
        except OSError:
            pass
    try:
        os.remove(os.path.join(cdir, ".assum_%s.aux" % prop))
    except OSError:
        pass
    if rc != 0:
        return [dict(name=n, ok=False, assumptions=["<coqc failed: %s>" % out[-300:]]) for n in names]
    chunks = re.split(r"@@BEGIN (\S+)", out)
    got = {}
    for i in range(1, len(chunks) - 1, 2):
        got[chunks[i]] = chunks[i + 1].split("@@END")[0].strip()
    for n in names:
        t = got.get(n, "<missing>")
        closed = "Closed under the global context" in t
        axioms = [] if closed else [l.strip() for l in t.splitlines() if l.strip() and not l.startswith("Axioms:")]
        res.append(dict(name=n, ok=True, closed=closed, assumptions=axioms))
    return res


# ----------------------------------------------------------------------------
# findings
# ----------------------------------------------------------------------------
def load_findings(prop):
    p = os.path.join(ROOT, "known_findings.json")
    if not os.path.exists(p):
        return []
    with open(p) as f:
        data = json.load(f)
    return [e for e in data.get("findings", []) if e.get("property") == prop]


def write_replay(prop, obj):
    d = os.path.join(OUT, "replay")
    os.makedirs(d, exist_ok=True)
    h = hashlib.sha1(json.dumps(obj, sort_keys=True).encode()).hexdigest()[:10]
    path = os.path.join(d, "%s-%s.json" % (prop, h))
    with open(path, "w") as f:
        json.dump(obj, f, indent=1, sort_keys=True)
    return path


def write_evidence(prop, ev):
    d = os.path.join(OUT, "evidence")
    os.makedirs(d, exist_ok=True)
    tmp = os.path.join(d, prop + ".json.tmp")
    with open(tmp, "w") as f:
        json.dump(ev, f, indent=1)
    os.replace(tmp, os.path.join(d, prop + ".json"))


AXIOM_ALLOW = (
    # axioms declared by Coq's standard library that DESIGN.md section 3 names
    "functional_extensionality_dep", "proof_irrelevance", "classic", "JMeq_eq", "Eqdep.Eq_rect_eq.eq_rect_eq",
    "eq_rect_eq", "propositional_extensionality", "constructive_definite_description",
)


# ----------------------------------------------------------------------------
# the generic check
# ----------------------------------------------------------------------------
class Check:
    """A property plugin sets these fields."""
    prop = ""
    props_rel = ""          # e.g. "Props/C19"
    corr_module = ""        # e.g. "Corr.C19"
    corr_rel = ""           # e.g. "Corr/C19"
    gen_rels = []           # Gen/* files whose regeneration feeds this property
    extra_rels = []         # further .v files that must compile (obligations of kind 'generated-table')
    model_desc = ""
    rule = ""
    partial = []            # clauses the theorems do not carry
    trusted = []
    shard_size = 400
    quick_n = 0
    thorough_n = 0

    def nontrivial(self, case):
        return True

    def extra(self, ctx):
        """hook for property-specific additional obligations; returns list of
        dict(name, ok, detail)."""
        return []


def decide(chk, tier, seed):
    """Self-tests against a mutated tree share one private Coq copy: they run one at a time."""
    if ALT:
        with Lock("alt-run"):
            return _decide(chk, tier, seed)
    return _decide(chk, tier, seed)


def _decide(chk, tier, seed):
    t0 = time.time()
    prop = chk.prop
    broken = []        # broken obligations: list of (name, detail)
    obligations = []   # list of dict(name, kind, ok)

    with Lock("alt" if ALT else "build"):
        if ALT:
            os.makedirs(COQ, exist_ok=True)
            sh(["rsync", "-a", "--delete", "--exclude", "Cases/", os.path.join(ROOT, "coq") + "/", COQ + "/"], check=True)
        tr_ok, markers = run_translator()
        if chk.gen_rels:            # only properties built on the regenerated tables depend on the translator
            for m in markers:
                broken.append(("translator", m))
        rc, mk_out = coq_make(["theories/%s.vo" % r for r in [chk.props_rel, chk.corr_rel] + list(chk.gen_rels) + list(chk.extra_rels)])
        hrc, hout, exe = build_harness(prop)
    if hrc != 0:
        # the implementation does not build with hooks on: nothing can be checked
        log("harness build failed:\n" + hout[-3000:])
        broken.append(("harness-build", hout[-1500:]))

    # --- proof obligations
    thms = check_theorems(prop, chk.props_rel)
    for t in thms:
        ok = t["ok"] and all(any(a_ok in a for a_ok in AXIOM_ALLOW) for a in t["assumptions"])
        obligations.append(dict(name=t["name"], kind="theorem", ok=ok,
                                assumptions=("closed" if t.get("closed") else t["assumptions"])))
        if not ok:
            broken.append(("theorem " + t["name"], "; ".join(t["assumptions"])[:500]))
    if not thms:
        broken.append(("theorems", "no theorem found in " + chk.props_rel))
    for g in chk.gen_rels:
        ok = vo_fresh(g)
        obligations.append(dict(name=g, kind="generated-table", ok=ok))
        if not ok:
            broken.append(("generated " + g, "does not compile"))
    model_ok = vo_fresh(chk.corr_rel)
    if not model_ok:
        broken.append(("model " + chk.corr_rel, "does not compile: " + mk_out[-1500:]))

    # --- run the implementation
    cases, viols, stats, crashed = [], [], {}, None
    if hrc == 0:
        n = chk.thorough_n if tier == "thorough" else chk.quick_n
        cases, viols, stats, crashed = run_harness(exe, prop, seed, tier, n)
        if crashed:
            broken.append(("harness-run", crashed))

    # --- correspondence
    mism, cerr = [], None
    if model_ok and cases:
        mism, cerr = coq_eval_cases(prop, chk.corr_module, cases, chk.shard_size)
        if cerr:
            broken.append(("correspondence-eval", cerr))
    corr_ok = model_ok and bool(cases) and not mism and not cerr
    obligations.append(dict(name="correspondence(model = implementation on %d cases)" % len(cases),
                            kind="correspondence", ok=corr_ok))
    for x in chk.extra(dict(cases=cases, viols=viols, stats=stats, tier=tier, seed=seed)):
        obligations.append(dict(name=x["name"], kind="extra", ok=x["ok"]))
        if not x["ok"]:
            broken.append((x["name"], x.get("detail", "")))

    # --- thorough tier: the independent checker re-checks the property file and everything it depends on
    coqchk_note = None
    if tier == "thorough" and not ALT:
        modname = "Dns." + chk.props_rel.replace("/", ".")
        try:
            rc, out = sh(["coqchk", "-silent", "-o", "-Q", "theories", "Dns", modname], cwd=COQ, timeout=5400)
        except subprocess.TimeoutExpired:
            rc, out = 124, "coqchk timed out"
        m = re.search(r"\* Axioms:\s*(.*?)\n\s*\n", out, re.S)
        ax = m.group(1).strip() if m else "?"
        ok = rc == 0 and ax == "<none>"
        coqchk_note = "coqchk -o %s: exit %d, axioms: %s" % (modname, rc, ax)
        obligations.append(dict(name="coqchk " + modname, kind="independent-recheck", ok=ok, assumptions=ax))
        if not ok:
            broken.append(("coqchk " + modname, out[-1500:]))

    # --- decide
    findings = load_findings(prop)
    known = {e["key"]: e for e in findings if e.get("status") == "known"}
    seen_known, new_viols = {}, []
    for v in viols:
        if v.get("key") in known:
            seen_known.setdefault(v["key"], v)
        else:
            new_viols.append(v)
    out_lines, nviol = [], 0
    for k, v in seen_known.items():
        out_lines.append("KNOWN-FINDING: property=%s %s (%s)" % (prop, known[k].get("what", k), k))
    by_key = {}
    for v in new_viols:
        by_key.setdefault(v.get("key"), v)
    for k, v in by_key.items():
        path = write_replay(prop, dict(property=prop, kind="failing-input", key=k, desc=v.get("desc"),
                                       input=v.get("in"), seed=seed, tier=tier,
                                       replay="bin/vcheck %s --tier %s (VERIF_SEED=%d)" % (prop, tier, seed)))
        out_lines.append("VIOLATION property=%s replay=%s" % (prop, os.path.relpath(path, ROOT)))
        nviol += 1
    if mism:
        samples = []
        for idx, got in mism[:20]:
            c = cases[idx]
            samples.append(dict(fn=c["fn"], args=c.get("args"), implementation=c.get("out"), model=got))
        if not by_key:
            path = write_replay(prop, dict(property=prop, kind="correspondence-broken",
                                           what="model %s and implementation disagree on %d of %d cases; "
                                                "the direct oracles found no input on which the property fails"
                                                % (chk.corr_module, len(mism), len(cases)),
                                           disagreements=samples, seed=seed, tier=tier))
            out_lines.append("VIOLATION property=%s replay=%s no-failing-input-found" % (prop, os.path.relpath(path, ROOT)))
            nviol += 1
        else:
            log("model/implementation disagreements (%d), e.g. %s" % (len(mism), json.dumps(samples[:2])))
    other_broken = [b for b in broken if not (mism and b[0].startswith("correspondence"))]
    if other_broken and not by_key and not mism:
        path = write_replay(prop, dict(property=prop, kind="obligation-broken",
                                       broken=[dict(name=a, detail=b) for a, b in other_broken],
                                       seed=seed, tier=tier))
        out_lines.append("VIOLATION property=%s replay=%s no-failing-input-found" % (prop, os.path.relpath(path, ROOT)))
        nviol += 1

    # --- evidence
    seen, distinct = set(), 0
    for c in cases:
        h = hashlib.sha1((c["fn"] + "|" + "|".join(c.get("args", [])) + "|" + c.get("out", "")).encode()).digest()
        if h in seen:
            continue
        seen.add(h)
        if chk.nontrivial(c):
            distinct += 1
    axioms = sorted({a for t in thms for a in t["assumptions"]})
    ev = dict(
        property_id=prop, tier=tier, seed=seed, level="proof",
        coverage=dict(
            obligations=len(obligations),
            discharged=sum(1 for o in obligations if o["ok"]),
            checker_cmd="make -C coq (coqc 8.16.1, full .vo build) ; coqc Print Assumptions on every theorem of %s ; "
                        "coqc vm_compute of %s.run on the harness cases" % (chk.props_rel, chk.corr_module),
            trusted_base=["Coq 8.16.1 kernel incl. vm_compute (no native_compute)",
                          "axioms reported by Print Assumptions: " + (", ".join(axioms) if axioms else "none (closed under the global context)"),
                          "Go harness + vlib/core.py comparison of projected observables",
                          ] + ([coqchk_note] if coqchk_note else []) + list(chk.trusted),
            obligation_list=obligations,
            evaluations=len(cases) + sum(v for k, v in stats.items() if k.endswith("_checked")),
            distinct_nontrivial=distinct,
            rule=chk.rule,
            samples=[dict(fn=c["fn"], args=c.get("args"), out=c.get("out")) for c in cases[:3]] +
                    [dict(fn=c["fn"], args=c.get("args"), out=c.get("out")) for c in cases[-2:]],
            correspondence_cases=len(cases),
            correspondence_mismatches=len(mism),
            direct_oracle_failures=len(viols),
            known_findings_reproduced=sorted(seen_known),
            harness_stats=stats,
            model=chk.model_desc,
            partial=chk.partial,
        ),
        assumptions=list(chk.trusted),
        wall_s=round(time.time() - t0, 2),
        violations=nviol,
    )
    write_evidence(prop, ev)
    for l in out_lines:
        print(l)
    print("%s: %s obligations=%d discharged=%d cases=%d mismatches=%d oracle_failures=%d wall=%.1fs" % (
        prop, "OK" if nviol == 0 else "VIOLATION", len(obligations),
        sum(1 for o in obligations if o["ok"]), len(cases), len(mism), len(viols), time.time() - t0))
    sys.stdout.flush()
    return 1 if nviol else 0
