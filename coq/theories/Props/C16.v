(* Props/C16.v — property C16: copies are deep.  Only statements; proofs in
   Proofs/CopyProofs.v (generic) and Proofs/CopyTableProofs.v (the tables
   regenerated from /repo on every run).

   [hval] is the tree of mutable memory reachable from a Go value ([HCell id _]
   = a slice backing array or a struct behind a pointer, with identity id);
   [shape_of k] is where a value of record/option/parameter type k has mutable
   memory (from its struct definition); [proc_of k] is what k's copy() does level
   by level (from its body).  In the result of [apply], cells allocated by the
   copy carry [inr tt] and cells taken over from the original carry [inl id];
   [fresh_only] = no cell of the original remains, so no write through one value
   is observable through the other.

   The clauses "Unpack results do not alias the input buffer" and "read-only
   operations do not mutate" hold in the model by construction (pure functions)
   and are checked against the implementation by the harness only (partial). *)
From Dns Require Import Model.Heap Proofs.CopyProofs Proofs.CopyTableProofs.

(* generic: a deep copy procedure leaves no cell of the original in the copy,
   for every value of the shape, of any size *)
Theorem deep_procedure_shares_no_memory :
  forall (A : Type) (shp : string -> mshape) (env : string -> cproc),
    (forall t, deep_nd (env t) (shp t) = true) ->
    forall (s : mshape) (p : cproc) (v : hval A),
      deep p s = true -> shape shp v s -> fresh_only (apply env p v).
Proof. intros A shp env H. exact (deep_fresh shp env H). Qed.

(* the copy() of every record type, EDNS0 option type, SVCB parameter type in the
   regenerated tables is deep for its struct definition *)
Theorem every_translated_copy_is_deep :
  forallb (fun k => deep (proc_of k) (shape_of k)) copy_kinds = true.
Proof. exact all_copies_deep. Qed.

(* hence: the copy of any record / option / parameter of any of these types
   shares no mutable memory with the original *)
Theorem copy_shares_no_mutable_memory :
  forall (A : Type) (k : string) (v : hval A),
    In k copy_kinds -> shape dyn_shape v (shape_of k) ->
    fresh_only (apply dyn_env (proc_of k) v).
Proof. intros A. exact (@copy_is_deep A). Qed.
