from .core import Check


class C20(Check):
    prop = "C20"
    props_rel = "Props/C20"
    corr_module = "Corr.C20"
    corr_rel = "Corr/C20"
    shard_size = 60
    gen_rels = ["Gen/Dups", "Gen/Layouts", "Gen/Structs", "Gen/Registry"]
    model_desc = ("Model/Dup.v: IsDuplicate interpreting the per-type comparison lists that tools/gotrans regenerates from "
                  "zduplicate.go each run (Gen/Dups.v), labels.go equal, net.IP.Equal, areSVCBPairArraysEqual, APLPrefix.equals; "
                  "sanitize.go normalizedString and Dedup")
    rule = ("every registered type x records, their copies, TTL/owner-case/embedded-name-case variants, one-field variants, "
            "class variants, triples for transitivity, pairs of records obtained from the wire compared through their "
            "lower-cased uncompressed wire form; Dedup on lists with random duplicate patterns, TTLs and owner case; model "
            "cases: IsDuplicate verdicts, normalizedString, Dedup kept indices and TTLs. Non-trivial: records with RDATA.")
    trusted = ["hex/base64/base32 text codecs of Go's encoding/* are outside the model (fields held as the octets they denote)",
               "EDNS0 option and SVCB parameter values are (code, packed value, reported length) triples at this level"]

    partial = ["'for records obtained from the wire, duplicates exactly when type, class and the lower-cased uncompressed owner and RDATA octets "
               "are equal' is proved (wire_duplicate_iff_lowercased_octets_equal_partial) for every type except OPT, for records whose RDATA "
               "is complete and canonically encoded (the hypotheses of C01's record_converse: RDLENGTH > 0, names written in full, "
               "canonical bitmap blocks, masked APL addresses, non-normalised option values); outside these the clause is false on the "
               "model AND on the implementation: *_refuted witnesses (trailing-zero / empty bitmap block, SVCB mandatory order, RDATA-less "
               "vs zero RDATA, OPT), each a recorded finding checked by the harness sweep; records holding compression pointers and CAA "
               "values longer than 1025 octets are covered by the harness oracle only",
               "'holds between a record and its copy': reflexivity on typed values; the link to the copy model (C16) is by the harness"]

    def nontrivial(self, c):
        return len(c["args"][0]) > 80


CHECK = C20()
