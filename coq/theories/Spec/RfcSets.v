(* Spec/RfcSets.v — type sets the RFCs single out. *)
From Dns Require Import Base.Bytes.
Local Open Scope string_scope.

(* RFC 3597 section 4: only the RDATA of the types defined in RFC 1035 may
   contain compressed domain names *)
Definition rfc1035_compressible : list string :=
  ["NS"; "MD"; "MF"; "CNAME"; "SOA"; "MB"; "MG"; "MR"; "PTR"; "MINFO"; "MX"].
