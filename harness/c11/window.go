package main

// C11, the fudge window over the whole range of its operands (round 10).
//
// Time Signed is a 48-bit wire field, Fudge a 16-bit one and the verifier's
// clock a uint64. The property text: a message with a right MAC verifies iff
// |now - TimeSigned| <= Fudge (ErrTime otherwise). The other steps only ever
// put `now` within fudge+1 seconds of the signing time (and the sessions within
// two hours of it), so nothing looked at the comparison when the distance does
// not fit 16, 31, 32, 33 ... bits, or when the upper 16 bits of the field are
// in use on one side only.
//
// Here every message carries a RIGHT MAC for its (TimeSigned, Fudge): signed by
// TsigGenerate with the stub's TimeSigned preset, or by the harness's own RFC
// 8945 signer (refSign). The clock is then placed at a distance chosen by the
// generator, TimeSigned + skew and TimeSigned - skew, with
//   skew = B + {-(f+1), -f, -1, 0, +1, +f, +(f+1)}   (f = the fudge on the wire)
// for B = 0, every power of two 2^0 .. 2^63, k*2^32 (k = 2, 3, 255, 256, 65535,
// random), 2^64 - 2^48 (top of the clock's range). The expected verdict is known
// by construction (skew <= f), no subtraction is made by the oracle.
// TimeSigned: both ends of the 48-bit range, around 2^15, 2^16, 2^31, 2^32,
// 2^33, 2^40, 2^47 and random values with the upper 16 bits in use. Fudge: 0
// (TsigGenerate's default 300), 1, 2, 299, 300, 301, 32767, 32768, 65535, random.
//
// The same through the public TsigVerify / TsigVerifyWithProvider, which read the
// wall clock: TimeSigned = wall clock +- skew, judged only when the skew is at
// least 120 s away from the fudge, so that the verdict cannot depend on how long
// the run takes.

import (
	"math/bits"
	"time"

	"github.com/miekg/dns"
	. "verif/harness/common"
)

var windowViols = map[string]int{}

func windowViol(key, what string, in c11in) {
	windowViols[key]++
	if windowViols[key] > 25 {
		st["window_violations_not_listed"]++
		return
	}
	Viol(key, what, in)
}

// windowSkews: the distances |now - TimeSigned| to try for fudge f, without duplicates.
func windowSkews(r *Rng, f uint64) []uint64 {
	bases := []uint64{0}
	for p := 0; p <= 63; p++ {
		bases = append(bases, uint64(1)<<p)
	}
	for _, k := range []uint64{2, 3, 255, 256, 65535, 65536, 2 + uint64(r.Intn(65000)), 1<<31 + 1, 1 << 31} {
		bases = append(bases, k<<32) // k*2^32 (mod 2^64 for the last ones: 2^63+2^32, 2^63)
	}
	bases = append(bases, 3<<31, 3<<15, 3<<47, ^uint64(0)-(1<<48)+1)
	seen := map[uint64]bool{}
	var out []uint64
	add := func(s uint64) {
		if !seen[s] {
			seen[s] = true
			out = append(out, s)
		}
	}
	for _, b := range bases {
		for _, d := range []uint64{f + 1, f, 1, 0} {
			if b >= d {
				add(b - d)
			}
			if s, c := bits.Add64(b, d, 0); c == 0 {
				add(s)
			}
		}
	}
	return out
}

type windowMsg struct {
	out    []byte
	ks     keyStore
	rm     string
	timers bool
	ts, f  uint64
	how    string
	in     c11in
}

// windowSign produces signed octets whose TSIG carries exactly (ts, fudge) and the right MAC.
func windowSign(r *Rng, i int, ts uint64, fudge uint16, single, multi keyStore) (*windowMsg, bool) {
	m := genMsg(r, true)
	c := genCfg(r)
	c.time, c.fudge = ts, fudge
	c.alg = algs[i%len(algs)].name
	c.errc, c.other = 0, ""
	ks := single
	if i%3 == 1 {
		ks = multi
		if _, ok := multi.secrets[c.keyName]; !ok {
			c.keyName = "key.example."
		}
	}
	if len(c.rm) > 0 && len(c.rm) < 4 {
		c.rm = ""
	}
	w := &windowMsg{ks: ks, rm: c.rm, timers: c.timers, ts: ts}
	w.in = c11in{Secret: ks.secret, ReqMAC: c.rm, Timers: c.timers, Alg: c.alg, Key: c.keyName}
	wantFudge := uint64(fudge)
	if i%2 == 0 || fudge == 0 {
		// the library's generate path with TimeSigned preset; fudge 0 becomes the RFC default 300
		out, _, _, err := sign(m, c, ks)
		if err != nil {
			windowViol("C11/Generate/error", "TsigGenerate failed with TimeSigned "+u(ts)+" fudge "+u(uint64(fudge))+": "+err.Error(), w.in)
			return nil, false
		}
		w.out, w.how = out, "TsigGenerate"
		if fudge == 0 {
			wantFudge = 300
		}
	} else {
		packed, err := m.Pack()
		sec, ok := ks.lookup(c.keyName)
		if err != nil || !ok {
			return nil, false
		}
		w.out, _ = refSign(packed, signOpt{key: c.keyName, alg: algByName(c.alg), secret: sec, fudge: fudge, ts: ts, rm: Unhx(c.rm), timers: c.timers})
		w.how = "independent signer"
	}
	w.in.Signed = Hx(w.out)
	t, ok := refFindTsig(w.out)
	if !ok || t.time != ts || uint64(t.fudge) != wantFudge {
		got := "no trailing TSIG"
		if ok {
			got = "time " + u(t.time) + " fudge " + u(uint64(t.fudge))
		}
		windowViol("C11/Window/signed-time", w.how+": the TSIG does not carry TimeSigned "+u(ts)+" fudge "+u(wantFudge)+": "+got, w.in)
		return nil, false
	}
	w.f = wantFudge
	return w, true
}

func windowTimes(r *Rng, tier string) []uint64 {
	ts := []uint64{1, 2, 300, 301, 32767, 32768, 65535, 65536, 65537, 1<<31 - 1, 1 << 31, 1<<31 + 1, 1700000000,
		uint64(time.Now().Unix()), 1<<32 - 1, 1 << 32, 1<<32 + 1, 1<<32 + 1700000000, 1<<33 - 1, 1 << 33, 1 << 40, 1<<47 - 1, 1 << 47, 1<<47 + 1,
		1<<48 - 65536, 1<<48 - 301, 1<<48 - 2, 1<<48 - 1}
	n := 6
	if tier == "thorough" {
		n = 60
	}
	for i := 0; i < n; i++ {
		ts = append(ts, r.Next()%(1<<48)|uint64(1)<<(32+r.Intn(16))) // upper 16 bits in use
	}
	return ts
}

func runWindow(r *Rng, tier string, single, multi keyStore) {
	fudges := []uint16{0, 1, 2, 299, 300, 301, 32767, 32768, 65535, uint16(2 + r.Intn(65000))}
	times := windowTimes(r, tier)
	i := 0
	modelEvery := 797
	if tier == "thorough" {
		modelEvery = 97
	}
	for ti, ts := range times {
		for fi, fudge := range fudges {
			if tier != "thorough" && ti >= 28 && (ti+fi)%3 != 0 {
				continue
			}
			i++
			w, ok := windowSign(r, i, ts, fudge, single, multi)
			if !ok {
				continue
			}
			st["window_signed"]++
			idx := 0
			try := func(now, skew uint64, dir string) {
				idx++
				wantOK := skew <= w.f
				got := protectVerify(w.ks, w.out, w.rm, w.timers, now)
				st["window_verify_checked"]++
				in := w.in
				in.Now = now
				in.Detail = w.how + ", TimeSigned " + u(w.ts) + ", fudge " + u(w.f) + ", now = TimeSigned " + dir + " " + u(skew)
				if wantOK {
					st["window_inside"]++
					if got != "ok:" {
						windowViol("C11/Window/inside-rejected", "right MAC, |now - TimeSigned| = "+u(skew)+" <= fudge "+u(w.f)+": got "+got+" want success", in)
					}
				} else {
					st["window_outside"]++
					if got != "err:time" {
						windowViol("C11/Window/outside-accepted", "right MAC, |now - TimeSigned| = "+u(skew)+" > fudge "+u(w.f)+": got "+got+" want err:time", in)
					}
				}
				// a share of them through the model (now, TimeSigned and fudge are N there)
				if (idx+i*53)%modelEvery == 0 || (skew == 1<<32 && i%4 == 0) || (skew == 1<<31 && i%4 == 1) {
					cs := verifyCases(w.out, w.ks, w.rm, w.timers, now)
					if len(cs) == 2 {
						if idx%5 != 0 {
							cs = cs[1:]
						}
						emitCases(cs)
						st["window_model_cases"]++
					}
				}
			}
			for _, skew := range windowSkews(r, w.f) {
				if now, c := bits.Add64(w.ts, skew, 0); c == 0 {
					try(now, skew, "+")
				}
				if skew <= w.ts && skew != 0 {
					try(w.ts-skew, skew, "-")
				}
			}
		}
	}
	windowPublic(r, single)
}

// windowPublic: TsigVerify and TsigVerifyWithProvider read the wall clock themselves.
func windowPublic(r *Rng, single keyStore) {
	const margin = 120
	sec, _ := rawSecret(single.secret)
	prov := harnessProvider{sec}
	i := 0
	for _, fudge := range []uint16{0, 1, 300, 301, 32767, 32768, 65535, uint16(500 + r.Intn(60000))} {
		f := uint64(fudge)
		if f == 0 {
			f = 300
		}
		var skews []uint64
		for p := 7; p <= 47; p++ {
			skews = append(skews, uint64(1)<<p, uint64(1)<<p+f, uint64(1)<<p-1)
			if uint64(1)<<p > f {
				skews = append(skews, uint64(1)<<p-f)
			}
		}
		for _, k := range []uint64{1, 2, 3, 255, 256, 4095, 65534, 1 + uint64(r.Intn(65000))} {
			for _, d := range []uint64{0, 1, f / 2, f} {
				skews = append(skews, k<<32+d, k<<32-d)
			}
		}
		skews = append(skews, 0, f/2)
		for _, skew := range skews {
			for _, dir := range []string{"+", "-"} {
				wall := uint64(time.Now().Unix())
				var ts uint64
				if dir == "+" {
					ts = wall + skew
				} else {
					if skew >= wall || skew == 0 {
						continue
					}
					ts = wall - skew
				}
				if ts >= 1<<48 {
					continue
				}
				var wantOK bool
				switch {
				case skew+margin <= f:
					wantOK = true
				case skew >= f+margin:
					wantOK = false
				default:
					continue // too close to the edge for a clock that moves
				}
				i++
				w, ok := windowSign(r, 2*i+i%2, ts, fudge, single, single) // single-secret store on both branches
				if !ok {
					continue
				}
				for _, entry := range []string{"TsigVerify", "TsigVerifyWithProvider"} {
					got := Protect(func() string {
						if entry == "TsigVerify" {
							return errClass(dns.TsigVerify(clone(w.out), single.secret, w.rm, w.timers))
						}
						return errClass(dns.TsigVerifyWithProvider(clone(w.out), prov, w.rm, w.timers))
					})
					st["window_public_checked"]++
					in := w.in
					in.Now = wall
					in.Detail = entry + ", " + w.how + ", TimeSigned = wall clock (" + u(wall) + ") " + dir + " " + u(skew) + ", fudge " + u(w.f)
					if wantOK && got != "ok:" {
						windowViol("C11/Window/inside-rejected", entry+": right MAC, TimeSigned "+u(skew)+" s from the wall clock, fudge "+u(w.f)+": got "+got+" want success", in)
					}
					if !wantOK && got != "err:time" {
						windowViol("C11/Window/outside-accepted", entry+": right MAC, TimeSigned "+u(skew)+" s from the wall clock, fudge "+u(w.f)+": got "+got+" want err:time", in)
					}
				}
			}
		}
	}
}
