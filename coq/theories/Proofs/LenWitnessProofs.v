(* Proofs/LenWitnessProofs.v — concrete witnesses showing that the hypotheses of
   the C08 theorems cannot be dropped (each by computation). *)
From Dns Require Import Gen.Layouts Gen.Lens.
From Dns Require Import Model.Msg Proofs.LenFieldProofs Proofs.LenRRProofs Proofs.LenMsgProofs.
Open Scope list_scope.
Open Scope N_scope.

Definition w_rr (nm : string) (ty : N) (kind : string) (d : rdata) : rr :=
  {| rr_name := bytes_of_string nm; rr_type := ty; rr_class := 1; rr_ttl := 60; rr_rdlength := 0;
     rr_kind := kind; rr_data := d |}.

(* packRR into a buffer that is already full (off == len(msg)): packHeader
   returns at once, a record without RDATA then "succeeds" having written
   nothing — and the RDLENGTH patch overwrites the two octets BEFORE the offset.
   So exactness needs off < len(msg); Pack never gets there (its buffer is longer
   than the whole message), a direct PackRR call can. *)
Definition w_any : rr := w_rr "x." 255 "ANY" [].
Theorem rr_len_exact_full_buffer_refuted :
  rr_plain w_any = true /\
  pack_rr w_any 5 false {| pn_out := [1; 2; 3; 4; 5]; pn_cm := None |}
    = Ok {| pn_out := [1; 2; 3; 0; 0]; pn_cm := None |} /\
  rr_len w_any = 13.
Proof. vm_compute. repeat split; reflexivity. Qed.

(* a record must carry the kind of its base struct (CDS runs the methods of DS):
   under the name of the embedding type the model has no len() terms and counts
   the header only.  The harness always sends base kinds; kind_of_type too. *)
Definition w_cds : rr :=
  w_rr "x." 59 "CDS" [("KeyTag"%string, V_n 1); ("Algorithm"%string, V_n 8); ("DigestType"%string, V_n 2);
                      ("Digest"%string, V_enc [1; 2; 3; 4])].
Theorem rr_len_embedding_kind_refuted :
  rr_okb w_cds = false /\ rr_len w_cds = 13 /\
  (exists st', pack_rr w_cds 100 false {| pn_out := []; pn_cm := None |} = Ok st' /\ lenN (pn_out st') = 21) /\
  base_kind "CDS" = "DS"%string.
Proof. vm_compute. repeat split; try reflexivity. eexists. split; reflexivity. Qed.

(* an option whose own len() reports less than its pack() returns: the estimate
   is short by the difference (this is the hypothesis pairs_len_ok) *)
Definition w_opt : rr := w_rr "." 41 "OPT" [("Option"%string, V_pairs [(10, [1; 2; 3; 4; 5; 6; 7; 8], 0)])].
Theorem rr_len_option_len_refuted :
  rr_okb w_opt = false /\ rr_len w_opt = 15 /\
  (exists st', pack_rr w_opt 100 false {| pn_out := []; pn_cm := None |} = Ok st' /\ lenN (pn_out st') = 23).
Proof. vm_compute. repeat split; try reflexivity. eexists. split; reflexivity. Qed.

(* the class "overflow" is not only about space: an address of the wrong length
   gives it with any buffer *)
Definition w_bad_a : rr := w_rr "a." 1 "A" [("A"%string, V_b [1; 2; 3; 4; 5])].
Definition w_msg (an : list rr) : msg :=
  {| m_id := 0; m_response := false; m_opcode := 0; m_aa := false; m_tc := false; m_rd := false; m_ra := false;
     m_z := false; m_ad := false; m_cd := false; m_rcode := 0; m_compress := false;
     m_question := []; m_answer := an; m_ns := []; m_extra := [] |}.
Theorem overflow_class_with_room_refuted :
  msg_okb (w_msg [w_bad_a]) = true /\ msg_len (w_msg [w_bad_a]) = 29 /\
  pack_msg_buf (w_msg [w_bad_a]) 4096 = Err "overflow"%string.
Proof. vm_compute. repeat split; reflexivity. Qed.
