package main

// Family P (round 7): every failing start through ListenAndServe, for every value of
// srv.Net, on an address the harness knows - and then a look at that address.
//
// "Starting a server ... returns an error instead of blocking; ... no goroutine or connection
// of the server remains": a start call that returns an error has served nothing, so when it has
// returned, the process holds no socket it did not hold before the call, nothing listens on
// the address, and the same Server value - its configuration put right - starts on the SAME
// address and serves a complete life.  The earlier failing starts (failStart) all used port 0
// or an address somebody else held, and nothing looked at the address afterwards.
//
// The port is found by binding :0, closing, and using the number.  Garbage collection is off
// for the length of a scenario, so that the finalizer of a lost *net.TCPListener / *net.UDPConn
// cannot close it behind the harness's back.  A verdict (a new bound socket in this process,
// a successful dial, a refused second start) must repeat on three different ports before it
// is reported: another process grabbing the port in between cannot do that.

import (
	"crypto/tls"
	"fmt"
	"net"
	"os"
	"runtime"
	"runtime/debug"
	"sort"
	"strconv"
	"strings"
	"time"

	"github.com/miekg/dns"
	. "verif/harness/common"
)

// netFamily: udp4 -> udp, tcp6-tls -> tcp-tls; anything else is returned as it is.
func netFamily(n string) string {
	switch n {
	case "udp", "udp4", "udp6":
		return "udp"
	case "tcp", "tcp4", "tcp6":
		return "tcp"
	case "tcp-tls", "tcp4-tls", "tcp6-tls":
		return "tcp-tls"
	}
	return n
}

// procSocketInodes: the sockets this process holds (Linux: /proc/self/fd).
func procSocketInodes() (map[string]bool, bool) {
	ents, err := os.ReadDir("/proc/self/fd")
	if err != nil {
		return nil, false
	}
	m := map[string]bool{}
	for _, e := range ents {
		l, err := os.Readlink("/proc/self/fd/" + e.Name())
		if err == nil && strings.HasPrefix(l, "socket:[") {
			m[strings.TrimSuffix(strings.TrimPrefix(l, "socket:["), "]")] = true
		}
	}
	return m, true
}

// boundSockets: inode -> "tcp port 5353 state 0A" for every socket of the network namespace
// that is bound to a port (/proc/net/{tcp,tcp6,udp,udp6}).
func boundSockets() map[string]string {
	m := map[string]string{}
	for _, t := range []string{"tcp", "tcp6", "udp", "udp6"} {
		b, err := os.ReadFile("/proc/net/" + t)
		if err != nil {
			continue
		}
		for i, line := range strings.Split(string(b), "\n") {
			f := strings.Fields(line)
			if i == 0 || len(f) < 10 {
				continue
			}
			c := strings.LastIndexByte(f[1], ':')
			if c < 0 {
				continue
			}
			port, err := strconv.ParseUint(f[1][c+1:], 16, 16)
			if err != nil || port == 0 || f[9] == "0" {
				continue
			}
			m[f[9]] = fmt.Sprintf("%s port %d state %s", t, port, f[3])
		}
	}
	return m
}

// newBoundSockets: the bound sockets this process holds now and did not hold before.
func newBoundSockets(before map[string]bool) []string {
	now, ok := procSocketInodes()
	if !ok {
		return nil
	}
	var fresh []string
	for ino := range now {
		if !before[ino] {
			fresh = append(fresh, ino)
		}
	}
	if len(fresh) == 0 {
		return nil
	}
	bound := boundSockets()
	var out []string
	for _, ino := range fresh {
		if d, ok := bound[ino]; ok {
			out = append(out, d)
		}
	}
	sort.Strings(out)
	return out
}

// freePort: a port that was free for tcp and udp on host a moment ago.
func freePort(host string) (int, string) {
	var last string
	for try := 0; try < 20; try++ {
		l, err := net.Listen("tcp", net.JoinHostPort(host, "0"))
		if err != nil {
			return 0, err.Error()
		}
		port := l.Addr().(*net.TCPAddr).Port
		pc, err := net.ListenPacket("udp", net.JoinHostPort(host, strconv.Itoa(port)))
		l.Close()
		if err != nil {
			last = err.Error()
			continue
		}
		pc.Close()
		return port, ""
	}
	return 0, last
}

type failAt struct {
	net  string // srv.Net of the failing start
	kind string
}

var unknownNets = []string{"", "bogus", "TCP", "Udp", "tcp-tls4", "tcp46", "udp-tls", "tls", "unix", "ip", "tcp ", "tcp-tls-tls"}

func failAtCases() []failAt {
	var cs []failAt
	for _, n := range []string{"udp", "udp4", "udp6", "tcp", "tcp4", "tcp6", "tcp-tls", "tcp4-tls", "tcp6-tls"} {
		kinds := []string{"address-in-use", "bad-port", "no-port"}
		if strings.ContainsAny(n, "46") {
			kinds = append(kinds, "address-of-the-other-family")
		}
		if strings.HasSuffix(n, "-tls") {
			kinds = append(kinds, "tls-config-nil", "tls-config-empty", "tls-config-empty-certificates", "tls-config-without-certificates",
				"tls-config-nil-and-address-in-use", "tls-config-nil-port-0")
		}
		for _, k := range kinds {
			cs = append(cs, failAt{n, k})
		}
	}
	for _, n := range unknownNets {
		cs = append(cs, failAt{n, "unknown-net"})
	}
	return cs
}

// failAtOnce: one scenario.  verdicts: key -> text; infra: the scenario could not be set up or
// its good life met a loopback problem (never a verdict); fatal: reported already, stop.
func failAtOnce(fc failAt, variant int, in map[string]any) (verdicts map[string]string, infra string, fatal bool) {
	verdicts = map[string]string{}
	host, otherHost := "127.0.0.1", "::1"
	if strings.Contains(fc.net, "6") && fc.kind != "unknown-net" {
		host, otherHost = "::1", "127.0.0.1"
	}
	port, problem := freePort(host)
	if problem != "" {
		return nil, "no free port: " + problem, false
	}
	good := net.JoinHostPort(host, strconv.Itoa(port))
	goodNet := fc.net
	if fc.kind == "unknown-net" {
		goodNet = []string{"tcp", "udp", "tcp-tls"}[variant%3]
	}
	fam := netFamily(goodNet)

	old := debug.SetGCPercent(-1)
	defer debug.SetGCPercent(old)

	srv := &dns.Server{Net: fc.net, Addr: good, ReusePort: variant%4 == 3, ReuseAddr: variant%4 == 2}
	if fam == "tcp-tls" {
		srv.TLSConfig = serverTLS()
		if srv.TLSConfig == nil {
			return nil, "no TLS certificate", false
		}
	}
	var holder interface{ Close() error }
	hold := func() string {
		var err error
		if fam == "udp" {
			holder, err = net.ListenPacket("udp", good)
		} else {
			holder, err = net.Listen("tcp", good)
		}
		if err != nil {
			return "holder: " + err.Error()
		}
		return ""
	}
	switch fc.kind {
	case "address-in-use":
		if p := hold(); p != "" {
			return nil, p, false
		}
	case "bad-port":
		srv.Addr = net.JoinHostPort(host, "99999")
	case "no-port":
		srv.Addr = host
	case "address-of-the-other-family":
		srv.Addr = net.JoinHostPort(otherHost, strconv.Itoa(port))
	case "tls-config-nil":
		srv.TLSConfig = nil
	case "tls-config-empty":
		srv.TLSConfig = &tls.Config{}
	case "tls-config-empty-certificates":
		srv.TLSConfig = &tls.Config{Certificates: []tls.Certificate{}}
	case "tls-config-without-certificates":
		srv.TLSConfig = &tls.Config{MinVersion: tls.VersionTLS12, NextProtos: []string{"dot"}, ServerName: "verif"}
	case "tls-config-nil-and-address-in-use":
		srv.TLSConfig = nil
		if p := hold(); p != "" {
			return nil, p, false
		}
	case "tls-config-nil-port-0":
		srv.TLSConfig = nil
		srv.Addr = net.JoinHostPort(host, "0")
	}
	in["failing_start"] = map[string]any{"Net": srv.Net, "Addr": srv.Addr, "why": fc.kind, "ReusePort": srv.ReusePort, "ReuseAddr": srv.ReuseAddr,
		"TLSConfig": fmt.Sprintf("%+v", describeTLS(srv.TLSConfig))}
	in["address"] = good
	closeHolder := func() {
		if holder != nil {
			holder.Close()
			holder = nil
		}
	}
	defer closeHolder()

	base := runtime.NumGoroutine()
	before, haveProc := procSocketInodes()
	res := make(chan error, 1)
	go func() {
		defer func() {
			if r := recover(); r != nil {
				res <- fmt.Errorf("start call panicked: %v", r)
			}
		}()
		res <- srv.ListenAndServe()
	}()
	select {
	case err := <-res:
		switch {
		case err == nil:
			Viol("C13/failed-start-no-error", "ListenAndServe with a configuration that cannot serve returned nil", in)
			return nil, "", true
		case strings.Contains(err.Error(), "panicked"):
			Viol("C13/call-panicked", err.Error(), in)
			return nil, "", true
		case strings.Contains(err.Error(), "already started"):
			Viol("C13/start-refused-while-not-started", "the first start of a Server value returned the already-started error: "+err.Error(), in)
			return nil, "", true
		}
		in["failing_start_returned"] = err.Error()
	case <-time.After(waitLong):
		Viol("C13/failed-start-blocks", "ListenAndServe with a configuration that cannot serve did not return", in)
		realHangs++
		return nil, "", true
	}
	if variant%2 == 1 {
		if r, txt := expectNotStarted(srv); r != "2" {
			Viol("C13/shutdown-blocks-after-failed-start", "Shutdown of a Server value whose start failed did not return the not-started error at once: "+txt, in)
		}
	}
	closeHolder()
	// nothing of the failed start remains: no goroutine ...
	for d := time.Now().Add(5 * time.Second); runtime.NumGoroutine() > base; {
		if time.Now().After(d) {
			verdicts["C13/goroutine-leak"] = fmt.Sprintf("%d goroutines before the failing ListenAndServe, %d five seconds after it returned its error", base, runtime.NumGoroutine())
			break
		}
		time.Sleep(time.Millisecond)
	}
	// ... no socket this process did not hold before ...
	if haveProc {
		if fresh := newBoundSockets(before); len(fresh) > 0 {
			verdicts["C13/failed-start-leaves-socket"] = "after ListenAndServe had returned its error the process held bound socket(s) it did not hold before the call: " + strings.Join(fresh, "; ")
		}
		st["failing_start_socket_table_checked"]++
	}
	// ... nothing listens on the address ...
	if fc.kind != "tls-config-nil-port-0" {
		if fam == "udp" || fc.kind == "unknown-net" {
			pc, err := net.ListenPacket("udp", good)
			if err == nil {
				pc.Close()
			} else if strings.Contains(err.Error(), "in use") {
				verdicts["C13/failed-start-leaves-socket"] += " [udp " + good + " cannot be bound after the failed start: " + err.Error() + "]"
			}
		}
		if fam != "udp" || fc.kind == "unknown-net" {
			c, err := net.DialTimeout("tcp", good, 3*time.Second)
			if err == nil {
				c.Close()
				verdicts["C13/failed-start-leaves-listener"] = "ListenAndServe returned its error, yet a client can still connect to " + good + " (nothing will ever accept it)"
			} else if !strings.Contains(err.Error(), "refused") {
				st["failing_start_dial_other_error"]++
			}
		}
		st["failing_start_address_probed_checked"]++
	}
	// ... and the same Server value, put right, starts on the same address and serves a life
	srv.Addr = good
	if fc.kind == "tls-config-nil-port-0" {
		srv.Addr = net.JoinHostPort(host, "0")
	}
	res2 := realOnce(srv, 2, "LA", goodNet, 1+variant%2, variant%8 >= 6)
	switch {
	case res2 == "":
		st["corrected_start_same_address_lives_checked"]++
	case res2 == "hang":
		return nil, "", true
	case strings.Contains(res2, "in use"):
		verdicts["C13/restart-after-failed-start-refused"] = "after the failing start had returned its error, the corrected start of the same Server value on the same address " + good + " failed: " + res2
	default:
		return verdicts, res2, false
	}
	return verdicts, "", false
}

func describeTLS(c *tls.Config) string {
	switch {
	case c == nil:
		return "nil"
	case c.Certificates == nil && c.GetCertificate == nil:
		return fmt.Sprintf("no Certificates (nil), no GetCertificate, MinVersion %d, NextProtos %v", c.MinVersion, c.NextProtos)
	case len(c.Certificates) == 0 && c.GetCertificate == nil:
		return "Certificates empty, no GetCertificate"
	}
	return fmt.Sprintf("%d certificate(s)", len(c.Certificates))
}

func haveIPv6() bool {
	l, err := net.Listen("tcp", "[::1]:0")
	if err != nil {
		return false
	}
	l.Close()
	return true
}

func failingStartsAtKnownAddresses(r *Rng) {
	t0 := time.Now()
	defer func() { st["wall_ms_failing_starts_at_known_addresses"] = int(time.Since(t0).Milliseconds()) }()
	v6 := haveIPv6()
	for ci, fc := range failAtCases() {
		if realHangs >= 2 {
			st["real_histories_skipped_after_confirmed_hangs"]++
			return
		}
		if strings.Contains(fc.net, "6") && fc.kind != "unknown-net" && !v6 {
			st["failing_start_skipped_no_ipv6"]++
			continue
		}
		if fc.kind == "address-of-the-other-family" && !v6 {
			st["failing_start_skipped_no_ipv6"]++
			continue
		}
		variant := ci + r.Intn(8)
		// a verdict must repeat on three different ports
		var last map[string]string
		var lastIn map[string]any
		confirmed, clean := 0, false
		for attempt := 0; attempt < 5 && confirmed < 3; attempt++ {
			in := map[string]any{"scenario": "failing ListenAndServe, then the address, then the corrected start on the same address", "attempt": attempt}
			verdicts, infra, fatal := failAtOnce(fc, variant, in)
			if fatal {
				return
			}
			if infra != "" {
				fmt.Fprintln(os.Stderr, "C13 failing start at a known address", fc, "infrastructure problem:", infra)
				st["failing_start_infra_problems"]++
			}
			if len(verdicts) == 0 {
				if infra == "" {
					clean = true
					break
				}
				continue
			}
			confirmed++
			last, lastIn = verdicts, in
		}
		switch {
		case confirmed >= 3:
			keys := make([]string, 0, len(last))
			for k := range last {
				keys = append(keys, k)
			}
			sort.Strings(keys)
			for _, k := range keys {
				Viol(k, last[k], lastIn)
			}
		case confirmed > 0:
			st["failing_start_unconfirmed_observations"]++
		case clean:
			st["failing_starts_at_known_addresses_checked"]++
			st["failing_start_"+fc.kind]++
		}
	}
}
