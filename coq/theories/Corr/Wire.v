(* Corr/Wire.v — reading and printing records and messages in the textual form of
   harness/common/rrconv.go, and the case functions shared by the wire
   properties (C01, C02, C04, C08, C09, C16, C20). *)
From Dns Require Import Model.Msg Model.Truncate Model.Heap Model.Dup Gen.Structs.
Open Scope N_scope.

Fixpoint split_go (c : ascii) (s : string) (cur : string) : list string :=
  match s with
  | EmptyString => [cur]
  | String a r => if Ascii.eqb a c then cur :: split_go c r EmptyString
                  else split_go c r (cur +++ String a EmptyString)
  end.
Definition split_on (c : ascii) (s : string) : list string := split_go c s EmptyString.
(* an empty text denotes the empty list, not one empty element *)
Definition split_list (c : ascii) (s : string) : list string :=
  match s with EmptyString => [] | _ => split_on c s end.

Definition tl_str (s : string) : string := match s with String _ r => r | _ => s end.
Definition hd_chr (s : string) : ascii := match s with String a _ => a | _ => "000"%char end.

Definition parse_pair (s : string) : N * bytes * N :=
  match split_on ":" s with
  | [a; b; c] => (undec a, unhex b, undec c)
  | _ => (0, [], 0)
  end.
Definition parse_aplp (s : string) : bool * N * bytes :=
  match split_on ":" s with
  | [a; b; c] => (String.eqb a "1", undec b, unhex c)
  | _ => (false, 0, [])
  end.

Definition parse_fval (s : string) : fval :=
  let body := tl_str s in
  match hd_chr s with
  | "n"%char => V_n (undec body)
  | "s"%char => V_s (unhex body)
  | "S"%char =>
    match split_on ":" body with
    | [cnt; items] => if undec cnt =? 0 then V_ss [] else V_ss (map unhex (split_on "|" items))
    | _ => V_ss []
    end
  | "b"%char => V_b (unhex body)
  | "e"%char => V_enc (unhex body)
  | "N"%char => V_ns (map undec (split_list "," body))
  | "P"%char => V_pairs (map parse_pair (split_list ";" body))
  | "A"%char => V_apl (map parse_aplp (split_list ";" body))
  | _ => V_n 0
  end.

Fixpoint find_struct (l : list tstruct) (k : string) : list string :=
  match l with
  | [] => []
  | t :: r => if String.eqb (st_name t) k
              then map (fun x => fst (fst x)) (filter (fun x => negb (String.eqb (fst (fst x)) "Hdr")) (st_fields t))
              else find_struct r k
  end.
Definition field_names (kind : string) : list string := find_struct structs kind.

Definition parse_rr (s : string) : rr :=
  match split_on "/" s with
  | kind :: name :: ty :: cl :: ttl :: rdl :: fs =>
    {| rr_name := unhex name; rr_type := undec ty; rr_class := undec cl; rr_ttl := undec ttl;
       rr_rdlength := undec rdl; rr_kind := kind;
       rr_data := combine (field_names kind) (map parse_fval fs) |}
  | _ => {| rr_name := []; rr_type := 0; rr_class := 0; rr_ttl := 0; rr_rdlength := 0; rr_kind := ""; rr_data := [] |}
  end.
Definition parse_question (s : string) : question :=
  match split_on "/" s with
  | [n; t; c] => {| q_name := unhex n; q_type := undec t; q_class := undec c |}
  | _ => {| q_name := []; q_type := 0; q_class := 0 |}
  end.
Definition is1 (s : string) : bool := String.eqb s "1".
Definition parse_msg (s : string) : msg :=
  match split_on "#" s with
  | [hdr; qs; an; ns; ex] =>
    match split_on "," hdr with
    | [id; qr; op; aa; tc; rd; ra; z; ad; cd; rc; cp] =>
      {| m_id := undec id; m_response := is1 qr; m_opcode := undec op; m_aa := is1 aa; m_tc := is1 tc;
         m_rd := is1 rd; m_ra := is1 ra; m_z := is1 z; m_ad := is1 ad; m_cd := is1 cd; m_rcode := undec rc;
         m_compress := is1 cp;
         m_question := map parse_question (split_list "+" qs);
         m_answer := map parse_rr (split_list "+" an);
         m_ns := map parse_rr (split_list "+" ns);
         m_extra := map parse_rr (split_list "+" ex) |}
    | _ => {| m_id := 0; m_response := false; m_opcode := 0; m_aa := false; m_tc := false; m_rd := false; m_ra := false;
              m_z := false; m_ad := false; m_cd := false; m_rcode := 0; m_compress := false;
              m_question := []; m_answer := []; m_ns := []; m_extra := [] |}
    end
  | _ => {| m_id := 0; m_response := false; m_opcode := 0; m_aa := false; m_tc := false; m_rd := false; m_ra := false;
            m_z := false; m_ad := false; m_cd := false; m_rcode := 0; m_compress := false;
            m_question := []; m_answer := []; m_ns := []; m_extra := [] |}
  end.

(* ---------- printing ---------- *)
Definition show_fval (v : fval) : string :=
  match v with
  | V_n n => "n" +++ dec n
  | V_s s => "s" +++ hex s
  | V_ss l => "S" +++ decn (length l) +++ ":" +++ join "|" (map hex l)
  | V_b b => "b" +++ hex b
  | V_enc b => "e" +++ hex b
  | V_ns l => "N" +++ join "," (map dec l)
  | V_pairs l => "P" +++ join ";" (map (fun p : N * bytes * N => dec (fst (fst p)) +++ ":" +++ hex (snd (fst p)) +++ ":" +++ dec (snd p)) l)
  | V_apl l => "A" +++ join ";" (map (fun p : bool * N * bytes => (if fst (fst p) then "1" else "0") +++ ":" +++ dec (snd (fst p)) +++ ":" +++ hex (snd p)) l)
  end%string.
Definition is_zero_fval (v : fval) : bool :=
  match v with
  | V_n 0 => true | V_s [] => true | V_ss [] => true | V_b [] => true | V_enc [] => true
  | V_ns [] => true | V_pairs [] => true | V_apl [] => true | _ => false
  end.
Fixpoint drop_zero_rev (l : list fval) : list fval :=
  match l with v :: r => if is_zero_fval v then drop_zero_rev r else l | [] => [] end.
Definition trim_zero (l : list fval) : list fval := rev (drop_zero_rev (rev l)).
Definition show_rr (r : rr) : string :=
  join "/"%string (List.app [rr_kind r; hex (rr_name r); dec (rr_type r); dec (rr_class r); dec (rr_ttl r); dec (rr_rdlength r)]
            (map show_fval (trim_zero (map snd (rr_data r))))).
Definition show_question (q : question) : string :=
  (hex (q_name q) +++ "/" +++ dec (q_type q) +++ "/" +++ dec (q_class q))%string.
Definition b01 (b : bool) : string := if b then "1"%string else "0"%string.
Definition show_msg (m : msg) : string :=
  (join "," [dec (m_id m); b01 (m_response m); dec (m_opcode m); b01 (m_aa m); b01 (m_tc m); b01 (m_rd m);
             b01 (m_ra m); b01 (m_z m); b01 (m_ad m); b01 (m_cd m); dec (m_rcode m); b01 (m_compress m)]
   +++ "#" +++ join "+" (map show_question (m_question m))
   +++ "#" +++ join "+" (map show_rr (m_answer m))
   +++ "#" +++ join "+" (map show_rr (m_ns m))
   +++ "#" +++ join "+" (map show_rr (m_extra m)))%string.

(* outcome classes only: the message text of Go errors is not compared *)
Definition show_r {A} (f : A -> string) (r : res A) : string :=
  match r with
  | Ok a => ("ok:" +++ f a)%string
  | Err _ => "err"%string
  | Panic => "panic"%string
  | OutOfFuel => "outoffuel"%string
  end.

(* ---------- case functions ---------- *)
Definition st_plain : pn_state := {| pn_out := []; pn_cm := None |}.

(* PackRR(rr, make([]byte, cap), 0, nil, false) *)
Definition c_pack_rr (rrs cap : string) : string :=
  show_r (fun st => hex (pn_out st)) (pack_rr (parse_rr rrs) (undec cap) false st_plain).
(* UnpackRR(msg, off) *)
Definition c_unpack_rr (m off : string) : string :=
  show_r (fun p : rr * N => show_rr (fst p) +++ "@" +++ dec (snd p))%string (unpack_rr (unhex m) (undec off)).
Definition c_pack_msg (ms : string) : string := show_r hex (pack_msg (parse_msg ms)).
Definition c_unpack_msg (m : string) : string :=
  match unpack_msg (unhex m) with
  | Ok (x, false) => ("ok:" +++ show_msg x)%string
  | Ok (_, true) => "err"%string
  | Err _ => "err"%string
  | Panic => "panic"%string
  | OutOfFuel => "outoffuel"%string
  end.
Definition c_len_msg (ms : string) : string := dec (msg_len (parse_msg ms)).
Definition c_len_rr (rrs : string) : string := dec (rr_len (parse_rr rrs)).

Definition c_truncate (ms size : string) : string := show_msg (truncate (parse_msg ms) (undecZ size)).
(* PackBuffer(make([]byte, buflen)): octets and whether the caller's buffer was used *)
Definition c_pack_buf (ms buflen : string) : string :=
  show_r (fun p : bytes * bool => hex (fst p) +++ "," +++ showb (snd p))%string (pack_msg_buf (parse_msg ms) (undec buflen)).

(* a sequence of packDomainName calls sharing one internal compression map,
   starting at offset pad in a buffer of cap octets: "name:flag" items *)
Fixpoint pack_name_seq (items : list string) (cap : N) (st : pn_state) : res pn_state :=
  match items with
  | [] => Ok st
  | it :: r =>
    match split_on ":" it with
    | [n; f] => do st' <- pack_name (unhex n) cap (is1 f) st; pack_name_seq r cap st'
    | _ => Err "bad-item"
    end
  end.
Fixpoint ins_sorted (x : string) (l : list string) : list string :=
  match l with
  | [] => [x]
  | y :: r => if String.leb x y then x :: l else y :: ins_sorted x r
  end.
Definition sort_strings (l : list string) : list string := fold_left (fun a x => ins_sorted x a) l [].
Definition show_cmap (cm : option cmap) : string :=
  match cm with
  | None => "nomap"%string
  | Some l => join ";"%string (sort_strings (map (fun p : bytes * N => hex (fst p) +++ "=" +++ dec (snd p))%string l))
  end.
Definition c_pack_names (pad cap items : string) : string :=
  let p := undec pad in
  let st0 := {| pn_out := repeat 0 (N.to_nat p); pn_cm := Some [] |} in
  show_r (fun st => hex (dropN p (pn_out st)) +++ "#" +++ show_cmap (pn_cm st))%string
         (pack_name_seq (split_list "," items) (undec cap) st0).

(* which fields of kind k does copy() leave sharing memory with the original,
   according to the translated copy body and struct definition? *)
Definition c_copy_shared (k : string) : string :=
  match procs_of table_fuel k with
  | None => "untranslated"%string
  | Some ps =>
    let fields := match find_fields structs k with Some fs => map (fun x => fst (fst x)) fs | None => [] end in
    let ss := shape_of_fields table_fuel k in
    join ","%string
         (map (fun x : string * (cproc * mshape) => fst x)
              (filter (fun x : string * (cproc * mshape) => negb (deep (fst (snd x)) (snd (snd x))))
                      (combine fields (combine ps ss))))
  end.

Definition c_is_dup (a b : string) : string := show_r showb (is_duplicate (parse_rr a) (parse_rr b)).
Definition c_normalize (t : string) : string := hex (normalized_string (unhex t)).
Definition parse_kt (s : string) : bytes * N :=
  match split_on ":" s with [k; t] => (unhex k, undec t) | _ => ([], 0) end.
Definition c_dedup (items : string) : string :=
  join ","%string (map (fun p : nat * N => decn (fst p) +++ ":" +++ dec (snd p))%string
                       (dedup (map parse_kt (split_list "," items)))).

Definition run_wire (fn : string) (args : list string) : option string :=
  if String.eqb fn "pack_rr" then Some (c_pack_rr (arg args 0) (arg args 1))
  else if String.eqb fn "unpack_rr" then Some (c_unpack_rr (arg args 0) (arg args 1))
  else if String.eqb fn "pack_msg" then Some (c_pack_msg (arg args 0))
  else if String.eqb fn "unpack_msg" then Some (c_unpack_msg (arg args 0))
  else if String.eqb fn "len_msg" then Some (c_len_msg (arg args 0))
  else if String.eqb fn "len_rr" then Some (c_len_rr (arg args 0))
  else if String.eqb fn "pack_names" then Some (c_pack_names (arg args 0) (arg args 1) (arg args 2))
  else if String.eqb fn "is_dup" then Some (c_is_dup (arg args 0) (arg args 1))
  else if String.eqb fn "normalize" then Some (c_normalize (arg args 0))
  else if String.eqb fn "dedup" then Some (c_dedup (arg args 0))
  else if String.eqb fn "copy_shared" then Some (c_copy_shared (arg args 0))
  else if String.eqb fn "truncate" then Some (c_truncate (arg args 0) (arg args 1))
  else if String.eqb fn "pack_buf" then Some (c_pack_buf (arg args 0) (arg args 1))
  else None.
