package main

import (
	"encoding/base64"
	"strconv"
	"strings"
	"time"

	"github.com/miekg/dns"
	. "verif/harness/common"
)

// SIG values whose header and remaining fields are filled by the caller before
// Sign (round 7). Sign's documentation asks for SignerName, KeyTag, Algorithm,
// Inception and Expiration; everything else of the value - the RR header (owner
// name, type, class, TTL, Rdlength) and TypeCovered / Labels / OrigTtl - is the
// caller's to leave alone or to fill the way an RRSIG is filled, or left over from
// an earlier use of the same value (a SIG unpacked from a request and reused to
// sign the reply). The property does not depend on them: the signed octets are the
// packed message followed by ONE SIG record with ARCOUNT incremented, and they
// verify. So every template goes through oracleMessageT (expected size, layout by
// the independent walker, SIG = last record `. SIG ANY 0` with RDATA made of the
// five named fields, Unpack, crypto/* check of the signature, Verify, wrong keys,
// altered bits, truncations) and, for a part, through the sign model, whose input
// is the five fields only.

type sigTemplate struct {
	kind string
	fill func(s *dns.SIG, kp keyPair)
}

func (t *sigTemplate) describe(s *dns.SIG) string {
	h := s.Hdr
	return t.kind + ": Hdr{Name:" + strconv.Quote(h.Name) + " Rrtype:" + Itoa(int(h.Rrtype)) + " Class:" + Itoa(int(h.Class)) +
		" Ttl:" + u(uint64(h.Ttl)) + " Rdlength:" + Itoa(int(h.Rdlength)) + "} TypeCovered:" + Itoa(int(s.TypeCovered)) +
		" Labels:" + Itoa(int(s.Labels)) + " OrigTtl:" + u(uint64(s.OrigTtl)) + " Signature:" + strconv.Quote(s.Signature)
}

// owner names a caller may leave in the template: absent, root, the key's, the
// question's, relative, one octet either side of every length limit, names that
// are no names, escapes, raw octets above 127.
func templateOwners(r *Rng, kp keyPair, m *dns.Msg) []string {
	o := []string{"", ".", kp.key.Hdr.Name, strings.ToUpper(kp.key.Hdr.Name), "update-key.example.", "a.", "relative", "rel.ative",
		"*.", "*.example.org.", strings.Repeat("l", 63) + ".", strings.Repeat("l", 64) + ".", nameOfWire(3), nameOfWire(4),
		nameOfWire(127), nameOfWire(254), nameOfWire(255), nameOfWire(255) + "k.", "a..b.", "..", `a\.b.example.`, `\000.`,
		`\255\254.example.`, "\xe2\x84\xaa.example.", "a b.example.", `tab\009.`, `a\`, genOwner(r), genOwner(r)}
	if len(m.Question) > 0 {
		o = append(o, m.Question[0].Name, "sig."+m.Question[0].Name)
	}
	return o
}

func sigTemplates(r *Rng, kp keyPair, m *dns.Msg) []sigTemplate {
	var ts []sigTemplate
	add := func(kind string, f func(s *dns.SIG, kp keyPair)) { ts = append(ts, sigTemplate{kind, f}) }
	for _, n := range templateOwners(r, kp, m) {
		n := n
		add("owner", func(s *dns.SIG, _ keyPair) { s.Hdr.Name = n })
	}
	for _, t := range []uint16{dns.TypeSIG, dns.TypeRRSIG, dns.TypeA, dns.TypeOPT, dns.TypeTSIG, dns.TypeKEY, 65535} {
		t := t
		add("rrtype", func(s *dns.SIG, _ keyPair) { s.Hdr.Rrtype = t })
	}
	for _, c := range []uint16{dns.ClassINET, dns.ClassNONE, dns.ClassANY, dns.ClassCHAOS, 65535} {
		c := c
		add("class", func(s *dns.SIG, _ keyPair) { s.Hdr.Class = c })
	}
	for _, t := range []uint32{1, 300, 1<<31 - 1, 1 << 31, 1<<32 - 1} {
		t := t
		add("ttl", func(s *dns.SIG, _ keyPair) { s.Hdr.Ttl = t })
		add("origttl", func(s *dns.SIG, _ keyPair) { s.OrigTtl = t })
	}
	for _, l := range []uint16{1, 18, 19, 255, 256, 65535} {
		l := l
		add("rdlength", func(s *dns.SIG, _ keyPair) { s.Hdr.Rdlength = l })
	}
	for _, t := range []uint16{dns.TypeA, dns.TypeSOA, dns.TypeSIG, dns.TypeANY, 65535} {
		t := t
		add("typecovered", func(s *dns.SIG, _ keyPair) { s.TypeCovered = t })
	}
	for _, l := range []uint8{1, 3, 127, 255} {
		l := l
		add("labels", func(s *dns.SIG, _ keyPair) { s.Labels = l })
	}
	// filled like an RRSIG over the key's own RRset / over the question
	add("like-rrsig", func(s *dns.SIG, kp keyPair) {
		s.Hdr = dns.RR_Header{Name: kp.key.Hdr.Name, Rrtype: dns.TypeRRSIG, Class: dns.ClassINET, Ttl: 3600}
		s.TypeCovered, s.Labels, s.OrigTtl = dns.TypeKEY, uint8(dns.CountLabel(kp.key.Hdr.Name)), 3600
	})
	add("like-sig-rr", func(s *dns.SIG, kp keyPair) {
		s.Hdr = dns.RR_Header{Name: kp.key.Hdr.Name, Rrtype: dns.TypeSIG, Class: dns.ClassINET, Ttl: 300, Rdlength: 18}
	})
	add("header-of-rfc2931", func(s *dns.SIG, _ keyPair) {
		s.Hdr = dns.RR_Header{Name: ".", Rrtype: dns.TypeSIG, Class: dns.ClassANY, Ttl: 0}
	})
	// everything at once, drawn
	for i := 0; i < 6; i++ {
		own := templateOwners(r, kp, m)
		h := dns.RR_Header{Name: own[r.Intn(len(own))], Rrtype: uint16(r.Next()), Class: uint16(r.Next()), Ttl: uint32(r.Next()), Rdlength: uint16(r.Next())}
		tc, lb, ot := uint16(r.Next()), uint8(r.Next()), uint32(r.Next())
		add("random", func(s *dns.SIG, _ keyPair) {
			s.Hdr = h
			s.TypeCovered, s.Labels, s.OrigTtl = tc, lb, ot
		})
	}
	return ts
}

func templateMsg(r *Rng, i int) *dns.Msg {
	var m *dns.Msg
	switch i % 4 {
	case 0: // a dynamic update, what SIG(0) is used for
		m = new(dns.Msg)
		m.SetUpdate("example.")
		rr, _ := dns.NewRR("www.example. 300 IN A 192.0.2.1")
		m.Insert([]dns.RR{rr})
	case 1:
		m = new(dns.Msg)
		m.SetQuestion("example.org.", dns.TypeSOA)
	default:
		m = genMsg(r, []int{1, 3, 6}[r.Intn(3)])
	}
	m.Id = uint16(r.Next())
	m.Compress = i%2 == 1
	return m
}

func oracleTemplates(r *Rng, keys []keyPair, tier string) {
	t0 := time.Now()
	defer func() { st["wall_ms_templates"] = int(time.Since(t0).Milliseconds()) }()
	now := uint32(time.Now().Unix())
	idx := 0
	for ki, kp := range keys {
		ts := sigTemplates(r, kp, templateMsg(r, 0))
		for ti := range ts {
			t := &ts[ti]
			// slow keys (P-384, RSA of 2048 bits and more) take every third template
			// (every second owner name); the other four keys take them all
			if lightFor(kp, modeAll) == modeLight && t.kind != "like-rrsig" && tier != "thorough" {
				if (t.kind == "owner" && (ti+ki)%2 != 0) || (t.kind != "owner" && (ti+ki)%3 != 0) {
					continue
				}
			}
			idx++
			m := templateMsg(r, idx)
			st["template_"+t.kind]++
			out := oracleMessageT(r, m, kp, nil, modeLight, t)
			// the model sees the five fields only: whatever else the value holds, the octets are the model's
			if out != nil && (idx%7 == 0 || t.kind == "like-rrsig") {
				s := newSig(kp, now-3000, now+3000)
				t.fill(s, kp)
				emitSign(m, s, kp)
				st["template_model_cases"]++
			}
			// the value reused: a second message signed with the same value (Signature
			// cleared, see below), as a responder does with the SIG it took from the request
			if out != nil && idx%5 == 0 {
				var um dns.Msg
				if um.Unpack(out) == nil && len(um.Extra) > 0 {
					if us, ok := um.Extra[len(um.Extra)-1].(*dns.SIG); ok {
						us.Signature = ""
						wire := *us
						fillWire := sigTemplate{"unpacked-from-a-signed-message+" + t.kind, func(s *dns.SIG, _ keyPair) {
							s.Hdr, s.TypeCovered, s.Labels, s.OrigTtl = wire.Hdr, wire.TypeCovered, wire.Labels, wire.OrigTtl
							t.fill(s, kp)
						}}
						st["template_reused"]++
						oracleMessageT(r, templateMsg(r, idx+1), kp, nil, modeLight, &fillWire)
					}
				}
			}
		}
	}
	// One value, several Sign calls in a row, Signature cleared in between: each call
	// is judged like the first (the header Sign left in the value is the next template).
	for ki, kp := range keys {
		s := newSig(kp, now-3000, now+3000)
		s.Hdr.Name = kp.key.Hdr.Name
		for j := 0; j < 3; j++ {
			prev := *s
			prev.Signature = ""
			keep := sigTemplate{"same-value-call-" + Itoa(j+1), func(x *dns.SIG, _ keyPair) {
				x.Hdr, x.TypeCovered, x.Labels, x.OrigTtl = prev.Hdr, prev.TypeCovered, prev.Labels, prev.OrigTtl
			}}
			m := templateMsg(r, ki+j)
			oracleMessageT(r, m, kp, nil, modeLight, &keep)
			// what Sign leaves in the value is what the next call starts from
			x := prev
			if _, err := doSign(&x, kp, m); err == nil {
				*s = x
			}
		}
	}
	// Signature still set from an earlier call (or filled by the caller). NOT judged:
	// on the unchanged tree Sign packs and hashes the old field and appends the new
	// signature behind it, and the result does not verify - a known observation
	// (docs/C18.md, Findings 3), counted here. Only a panic is a violation.
	for ki, kp := range keys {
		m := templateMsg(r, ki)
		first := newSig(kp, now-3000, now+3000)
		if _, err := doSign(first, kp, m); err != nil {
			continue
		}
		for _, old := range []string{first.Signature, "AAAA", base64.StdEncoding.EncodeToString(r.Bytes(1)), "!not base64!", strings.Repeat("A", 400)} {
			s := newSig(kp, now-3000, now+3000)
			s.Signature = old
			var out []byte
			var err error
			if Protect(func() string { out, err = s.Sign(kp.priv, m); return "" }) == "panic" {
				Viol("C18/Sign/panic", "SIG.Sign panics on a SIG value whose Signature field is set",
					c18in{Alg: kp.name, Compress: m.Compress, Template: "Signature:" + strconv.Quote(old), KeyRR: kp.key.String()})
				continue
			}
			st["template_signature_preset"]++
			switch {
			case err != nil:
				st["template_signature_preset_sign_error"]++
			default:
				if got, _, _, _ := receive(out, s, kp.key); got == "ok:" {
					st["template_signature_preset_verifies"]++
				} else {
					st["template_signature_preset_does_not_verify"]++
				}
			}
		}
	}
}
