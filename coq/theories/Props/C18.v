(* Props/C18.v — property C18 (SIG(0): any message can be signed; only
   untampered, timely messages verify; malformed input of header size or more
   yields an error, not a panic).  Only statements; proofs in
   Proofs/Sig0Proofs.v.  Hash-then-sign [ss] and hash-then-verify [sc] are
   universally quantified (Section variables of Model/Sig0.v).  The model is
   that of the code after the fixes 2fe1c25 (buffer sized from the uncompressed
   length) and 2307360 (high octet of ARCOUNT-1). *)
From Dns Require Import Model.Sig0 Model.Tsig Proofs.WireProofs Proofs.TsigProofs Proofs.Sig0Proofs.
Open Scope N_scope.

(* --- the signed octets are the packed message followed by one SIG record
   (owner ".", class ANY, TTL 0, RDLENGTH covering RDATA and signature) with
   ARCOUNT incremented; the signature is computed over SIG RDATA | message *)
Theorem sign_layout :
  forall ss ulen h body r out,
    sig0_sign ss ulen (hdr_wire h ++ body) r = Ok out ->
    exists sg,
      key_fields_bad r = false /\ valid_wire (s_signer r) = true /\ has_hash (s_alg r) = true /\
      ss (s_alg r) (sig_rdata r ++ hdr_wire h ++ body) = Ok sg /\
      lenN out <= 65535 /\
      out = hdr_wire (set_ar h ((h_ar h mod 65536 + 1) mod 65536)) ++ body ++
            sig_rr_hdr ((lenN (sig_rdata r) mod 65536 + lenN sg) mod 65536) ++ sig_rdata r ++ sg.
Proof. exact sign_spec. Qed.

(* --- any message can be signed, whatever its content, size or compression
   setting: the buffer is sized from the UNCOMPRESSED length [ulen] plus one
   plus the SIG, so PackBuffer never reallocates and PackRR has room whenever
   the packed octets are not longer than ulen + 1 (compression only shortens;
   Len >= |Pack| is property C08).  With usable SIG fields and a working
   signer, Sign succeeds exactly up to the 65535-octet limit of a message. *)
Theorem sign_succeeds :
  forall ss ulen mbuf r sg,
    key_fields_bad r = false -> valid_wire (s_signer r) = true -> has_hash (s_alg r) = true ->
    12 <= lenN mbuf -> lenN mbuf <= ulen + 1 ->
    ss (s_alg r) (sig_rdata r ++ mbuf) = Ok sg ->
    lenN mbuf + lenN (sig_rr_wire r) + lenN sg <= 65535 ->
    exists out, sig0_sign ss ulen mbuf r = Ok out.
Proof. exact Sig0Proofs.sign_succeeds. Qed.

(* --- and ErrBuf has one cause left: the signed message would not fit 65535
   octets (or the signer itself returned that error) *)
Theorem sign_errbuf_only_when_too_large :
  forall ss ulen mbuf r,
    sig0_sign ss ulen mbuf r = Err "buf" ->
    ss (s_alg r) (sig_rdata r ++ mbuf) = Err "buf" \/
    exists sg, ss (s_alg r) (sig_rdata r ++ mbuf) = Ok sg /\
               65535 < lenN mbuf + lenN (sig_rr_wire r) + lenN sg.
Proof. exact sign_errbuf_cause. Qed.

(* --- a signed message verifies against a key with the signer's name (case
   ignored) at any time inside the window, for every well-framed message with
   any number of records the counts can express, given that signatures by the
   private key check under the public key *)
Theorem sign_verify :
  forall ss sc chk h body r kname ulen out now,
    hdr_ok h -> h_an h + h_ns h + h_ar h + 1 < 65536 -> wf_body chk h body ->
    s_expire r < 4294967296 -> s_incept r < 4294967296 -> s_keytag r < 65536 ->
    (forall d s, ss (s_alg r) d = Ok s -> sc (s_alg r) d s = Ok tt) ->
    sig0_sign ss ulen (hdr_wire h ++ body) r = Ok out ->
    s_incept r <= now <= s_expire r -> name_equal (s_signer r) kname = true ->
    sig0_verify sc r kname out now = Ok tt.
Proof. exact sign_verify_ok. Qed.

(* --- Verify = nil only if: the SIG has key tag, signer and a hashable
   algorithm; now is inside [inception, expiration] as plain unsigned numbers;
   the signer name in the message equals the key's owner name up to ASCII case;
   and the signature check accepted, for the octets after the signer name,
   exactly: SIG RDATA up to the signer name | header octets 0..9 | ARCOUNT-1
   (16 bits, big endian) | octets 12..start of the last record *)
Theorem verify_sound :
  forall sc r kname buf now,
    sig0_verify sc r kname buf now = Ok tt ->
    exists adc bodyend sigstart sigend rd h10 body sg expire incept signer,
      key_fields_bad r = false /\ has_hash (s_alg r) = true /\
      be_at 2 buf 10 = Ok adc /\ 12 <= bodyend /\
      slice buf sigstart sigend = Ok rd /\ slice buf 0 10 = Ok h10 /\
      slice buf 12 bodyend = Ok body /\ slice buf sigend (lenN buf) = Ok sg /\
      be_at 4 buf (sigstart + 8) = Ok expire /\ be_at 4 buf (sigstart + 8 + 4) = Ok incept /\
      incept <= now <= expire /\
      unpack_name buf (sigstart + 8 + 8 + 2) = Ok (signer, sigend) /\ name_equal signer kname = true /\
      sc (s_alg r) (rd ++ h10 ++ [(adc + 65535) mod 65536 / 256; (adc + 65535) mod 65536 mod 256] ++ body) sg = Ok tt.
Proof. exact verify_sound0. Qed.

(* --- on ANY octet string of at least header size, with any SIG and key name,
   at any time: an error or a verdict, never a panic (every index and slice of
   SIG.Verify is guarded), and the model's recursion budget is never the cause *)
Theorem verify_no_panic :
  forall sc r kname buf now,
    12 <= lenN buf ->
    (forall a d s, sc a d s <> Panic /\ sc a d s <> OutOfFuel) ->
    sig0_verify sc r kname buf now <> Panic /\ sig0_verify sc r kname buf now <> OutOfFuel.
Proof. intros sc r kname buf now. exact (verify_safe (fun _ _ => Ok []) sc r kname buf now). Qed.

(* --- any alteration fails (idealised signature scheme): what Sign hashes
   determines every SIG field and every octet of the message ... *)
Theorem signed_data_injective :
  forall r1 r2 m1 m2,
    s_alg r1 < 256 -> s_alg r2 < 256 -> s_expire r1 < 4294967296 -> s_expire r2 < 4294967296 ->
    s_incept r1 < 4294967296 -> s_incept r2 < 4294967296 -> s_keytag r1 < 65536 -> s_keytag r2 < 65536 ->
    valid_wire (s_signer r1) = true -> valid_wire (s_signer r2) = true ->
    sig_rdata r1 ++ m1 = sig_rdata r2 ++ m2 ->
    s_alg r1 = s_alg r2 /\ s_expire r1 = s_expire r2 /\ s_incept r1 = s_incept r2 /\
    s_keytag r1 = s_keytag r2 /\ s_signer r1 = s_signer r2 /\ m1 = m2.
Proof. exact sign_data_injective. Qed.

(* --- ... and under [sig_binding] (a signature fits one digest input only) two
   accepted buffers carrying the same signature octets were hashed to the same
   input *)
Theorem same_signature_same_data :
  forall sc r1 r2 k1 k2 buf1 buf2 now1 now2,
    (forall a1 a2 d1 d2 s, sc a1 d1 s = Ok tt -> sc a2 d2 s = Ok tt -> d1 = d2) ->
    sig0_verify sc r1 k1 buf1 now1 = Ok tt -> sig0_verify sc r2 k2 buf2 now2 = Ok tt ->
    forall e1 e2 sg, slice buf1 e1 (lenN buf1) = Ok sg -> slice buf2 e2 (lenN buf2) = Ok sg ->
    (forall adc bodyend sigstart rd h10 body,
        be_at 2 buf1 10 = Ok adc -> slice buf1 sigstart e1 = Ok rd -> slice buf1 0 10 = Ok h10 ->
        slice buf1 12 bodyend = Ok body ->
        sc (s_alg r1) (rd ++ h10 ++ [(adc + 65535) mod 65536 / 256; (adc + 65535) mod 65536 mod 256] ++ body) sg = Ok tt ->
        forall adc' bodyend' sigstart' rd' h10' body',
          be_at 2 buf2 10 = Ok adc' -> slice buf2 sigstart' e2 = Ok rd' -> slice buf2 0 10 = Ok h10' ->
          slice buf2 12 bodyend' = Ok body' ->
          sc (s_alg r2) (rd' ++ h10' ++ [(adc' + 65535) mod 65536 / 256; (adc' + 65535) mod 65536 mod 256] ++ body') sg = Ok tt ->
          rd ++ h10 ++ [(adc + 65535) mod 65536 / 256; (adc + 65535) mod 65536 mod 256] ++ body =
          rd' ++ h10' ++ [(adc' + 65535) mod 65536 / 256; (adc' + 65535) mod 65536 mod 256] ++ body').
Proof. exact same_sig_same_data. Qed.

(* --- errors named by the property: missing key fields *)
Theorem verify_requires_key_fields :
  forall sc r kname buf now, key_fields_bad r = true -> sig0_verify sc r kname buf now = Err "key".
Proof. intros sc r kname buf now H. unfold sig0_verify. now rewrite H. Qed.
