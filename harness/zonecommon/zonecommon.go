// Package zonecommon is shared by the C06 and C07 harnesses: it runs the zone
// lexer and ZoneParser of /repo on a text with an instrumented include file
// system and renders what was observed in the textual form Corr/C07.v prints.
package zonecommon

import (
	"bytes"
	"fmt"
	"io"
	"io/fs"
	"net"
	"os"
	"path/filepath"
	"sort"
	"strconv"
	"strings"
	"syscall"
	"time"
	"unsafe"

	"github.com/miekg/dns"
	. "verif/harness/common"
)

// ---------- recipes: texts too long to be sent as literals ----------

// Item is hex octets repeated N times.
type Item struct {
	B []byte
	N int
}

// Recipe describes a text as a sequence of repeated pieces.
type Recipe []Item

func Lit(s string) Recipe { return Recipe{{[]byte(s), 1}} }

func (r Recipe) Expand() []byte {
	var o []byte
	for _, it := range r {
		for i := 0; i < it.N; i++ {
			o = append(o, it.B...)
		}
	}
	return o
}

func (r Recipe) String() string {
	var p []string
	for _, it := range r {
		if len(it.B) == 0 || it.N == 0 {
			continue
		}
		if it.N == 1 {
			p = append(p, Hx(it.B))
		} else {
			p = append(p, Hx(it.B)+"x"+Itoa(it.N))
		}
	}
	return strings.Join(p, ".")
}

// ---------- rendering ----------

func cksum(l []byte) int {
	acc := 0
	for i, b := range l {
		acc = (acc + (i%251+1)*(int(b)+1)) % 65521
	}
	return acc
}

// ShowBytes prints short octet strings in hex and long ones by length and checksum.
func ShowBytes(l []byte) string {
	if len(l) <= 48 {
		return Hx(l)
	}
	return "L" + Itoa(len(l)) + "c" + Itoa(cksum(l))
}

// Slug is the error class of a message: the text up to the first colon,
// alphanumerics lower-cased, anything else a single '-'.
func Slug(m string) string {
	var o []byte
	for i := 0; i < len(m); i++ {
		c := m[i]
		if c == ':' {
			break
		}
		switch {
		case c >= '0' && c <= '9', c >= 'a' && c <= 'z':
			o = append(o, c)
		case c >= 'A' && c <= 'Z':
			o = append(o, c+32)
		default:
			if len(o) > 0 && o[len(o)-1] != '-' {
				o = append(o, '-')
			}
		}
	}
	return strings.TrimSuffix(string(o), "-")
}

// LexDump is the token stream of text as Corr/C07.v "lex" prints it.
func LexDump(text []byte, max int) string {
	return Protect(func() string {
		toks := dns.VerifLexTokens(string(text), max)
		p := make([]string, len(toks))
		for i, t := range toks {
			e := "0"
			if t.Err {
				e = "1"
			}
			p[i] = strings.Join([]string{Itoa(int(t.Value)), ShowBytes([]byte(t.Token)), e, Itoa(int(t.Torc)),
				Itoa(t.Line), Itoa(t.Column), ShowBytes([]byte(t.Comment))}, ",")
		}
		return strings.Join(p, "|")
	})
}

// ---------- the types whose RDATA grammar the model covers ----------

var nameTypes = map[uint16]bool{dns.TypeNS: true, dns.TypeMD: true, dns.TypeMF: true, dns.TypeCNAME: true,
	dns.TypeMB: true, dns.TypeMG: true, dns.TypeMR: true, dns.TypePTR: true, dns.TypeNSAPPTR: true, dns.TypeDNAME: true}
var txtTypes = map[uint16]bool{dns.TypeTXT: true, dns.TypeSPF: true, dns.TypeAVC: true, dns.TypeNINFO: true, dns.TypeRESINFO: true}

// InScope tells whether the model has the RDATA grammar of type t.
func InScope(t uint16) bool {
	if _, known := dns.TypeToRR[t]; !known {
		return true
	}
	return nameTypes[t] || txtTypes[t] || t == dns.TypeA || t == dns.TypeAAAA
}

// ---------- instrumented include file systems ----------

type memFile struct {
	name string
	r    *bytes.Reader
}

func (f *memFile) Stat() (fs.FileInfo, error) { return nil, fs.ErrInvalid }
func (f *memFile) Read(p []byte) (int, error) { return f.r.Read(p) }
func (f *memFile) Close() error               { return nil }

// LogFS serves Files and appends every Open call to the event list.
type LogFS struct {
	Files map[string]string
	Log   func(path string, found bool)
}

func (l *LogFS) Open(name string) (fs.File, error) {
	c, ok := l.Files[name]
	l.Log(name, ok)
	if !ok {
		return nil, &fs.PathError{Op: "open", Path: name, Err: fs.ErrNotExist}
	}
	return &memFile{name, bytes.NewReader([]byte(c))}, nil
}

// the directory the no-FS cases run in; opens inside it are seen through inotify
var (
	workDir   string
	inoFd     = -1
	inoWatch  = map[string]bool{}
	inoWd2dir = map[int32]string{}
)

// InitWorkDir creates a scratch directory, makes it the current directory and
// starts watching opens in it.
func InitWorkDir() {
	d, err := os.MkdirTemp("", "verif-zone-")
	if err != nil {
		panic(err)
	}
	workDir = d
	if err := os.Chdir(d); err != nil {
		panic(err)
	}
	fd, err := syscall.InotifyInit1(syscall.IN_NONBLOCK | syscall.IN_CLOEXEC)
	if err != nil {
		panic("inotify unavailable: " + err.Error())
	}
	inoFd = fd
}

// CleanupWorkDir removes the scratch directory.
func CleanupWorkDir() {
	if workDir != "" {
		os.Chdir("/")
		os.RemoveAll(workDir)
	}
}

func watchDir(rel string) {
	if inoWatch[rel] {
		return
	}
	wd, err := syscall.InotifyAddWatch(inoFd, filepath.Join(workDir, rel), syscall.IN_OPEN)
	if err != nil {
		panic(err)
	}
	inoWatch[rel] = true
	inoWd2dir[int32(wd)] = rel
}

// drainOpens returns the relative paths of the files opened since the last call.
func drainOpens() []string {
	var out []string
	buf := make([]byte, 1<<16)
	for {
		n, err := syscall.Read(inoFd, buf)
		if n <= 0 || err != nil {
			return out
		}
		off := 0
		for off+syscall.SizeofInotifyEvent <= n {
			ev := (*syscall.InotifyEvent)(unsafe.Pointer(&buf[off]))
			nm := buf[off+syscall.SizeofInotifyEvent : off+syscall.SizeofInotifyEvent+int(ev.Len)]
			if i := bytes.IndexByte(nm, 0); i >= 0 {
				nm = nm[:i]
			}
			if ev.Mask&syscall.IN_ISDIR == 0 && len(nm) > 0 {
				dir := inoWd2dir[ev.Wd]
				p := string(nm)
				if dir != "." {
					p = dir + "/" + p
				}
				out = append(out, p)
			}
			off += syscall.SizeofInotifyEvent + int(ev.Len)
		}
	}
}

// ---------- running the parser ----------

// Config is one parser run. Files are served by the LogFS when HasFS, else
// written below the scratch directory (relative, clean paths only).
type Config struct {
	Origin string
	File   string
	DefTTL int64 // -1: SetDefaultTTL not called
	Inc    bool
	HasFS  bool
	Text   Recipe
	Files  map[string]Recipe
}

// Args are the arguments of the model case "parse".
func (c *Config) Args() []string {
	dt := "-"
	if c.DefTTL >= 0 {
		dt = strconv.FormatInt(c.DefTTL, 10)
	}
	var ks []string
	for k := range c.Files {
		ks = append(ks, k)
	}
	sort.Strings(ks)
	var fl []string
	for _, k := range ks {
		fl = append(fl, Hs(k)+"="+c.Files[k].String())
	}
	b := func(x bool) string {
		if x {
			return "1"
		}
		return "0"
	}
	return []string{Hs(c.Origin), Hs(c.File), dt, b(c.Inc), b(c.HasFS), c.Text.String(), strings.Join(fl, ",")}
}

// JSON is the replayable form of the configuration.
func (c *Config) JSON() map[string]any {
	fl := map[string]string{}
	for k, v := range c.Files {
		fl[k] = v.String()
	}
	return map[string]any{"origin": c.Origin, "file": c.File, "defttl": c.DefTTL, "include_allowed": c.Inc,
		"include_fs": c.HasFS, "text_recipe_hex": c.Text.String(), "files": fl}
}

// Rec is a returned record in the model's projection.
type Rec struct {
	Name  string
	Type  uint16
	Class uint16
	TTL   uint32
	Rd    string // N<name> A<addr> T<strings> G<hex> E
	Rdlen uint16
	InScp bool
	Size  int // octets of text held by the record
}

// Outcome is everything observed in one run.
type Outcome struct {
	Events     []string // R:, O:, X: in the order observed
	Recs       []Rec
	Opens      []string // paths opened (FS: every call; no FS: successful opens seen by inotify)
	OpensFS    int
	OpensOS    int
	Err        error
	ErrIsParse bool
	ErrFile    string
	ErrMsg     string
	ErrTok     string
	ErrLine    int
	ErrCol     int
	ErrWrapped bool
	Panicked   bool
	PanicVal   string
	TimedOut   bool
	Skipped    bool // not run: an earlier run hung
	LateRecs   int  // records returned after Next had returned false
	ErrChanged bool // Err() changed after further Next calls
	InScope    bool
	Elapsed    time.Duration
}

func showRR(rr dns.RR) Rec {
	h := rr.Header()
	r := Rec{Name: h.Name, Type: h.Rrtype, Class: h.Class, TTL: h.Ttl, Rdlen: h.Rdlength, InScp: true}
	r.Size = len(h.Name)
	switch v := rr.(type) {
	case *dns.A:
		r.Rd = showIP(v.A, 4)
	case *dns.AAAA:
		r.Rd = showIP(v.AAAA, 16)
	case *dns.NS:
		r.Rd = showName(v.Ns, h.Rdlength)
	case *dns.MD:
		r.Rd = showName(v.Md, h.Rdlength)
	case *dns.MF:
		r.Rd = showName(v.Mf, h.Rdlength)
	case *dns.CNAME:
		r.Rd = showName(v.Target, h.Rdlength)
	case *dns.MB:
		r.Rd = showName(v.Mb, h.Rdlength)
	case *dns.MG:
		r.Rd = showName(v.Mg, h.Rdlength)
	case *dns.MR:
		r.Rd = showName(v.Mr, h.Rdlength)
	case *dns.PTR:
		r.Rd = showName(v.Ptr, h.Rdlength)
	case *dns.NSAPPTR:
		r.Rd = showName(v.Ptr, h.Rdlength)
	case *dns.DNAME:
		r.Rd = showName(v.Target, h.Rdlength)
	case *dns.TXT:
		r.Rd = showTxt(v.Txt, h.Rdlength)
	case *dns.SPF:
		r.Rd = showTxt(v.Txt, h.Rdlength)
	case *dns.AVC:
		r.Rd = showTxt(v.Txt, h.Rdlength)
	case *dns.NINFO:
		r.Rd = showTxt(v.ZSData, h.Rdlength)
	case *dns.RESINFO:
		r.Rd = showTxt(v.Txt, h.Rdlength)
	case *dns.RFC3597:
		r.Rd = "G" + ShowBytes([]byte(v.Rdata))
	default:
		r.InScp = false
		r.Rd = "U"
	}
	if r.Rd == "U" {
		r.InScp = false
	}
	r.Size += len(r.Rd)
	return r
}

func showIP(ip net.IP, n int) string {
	if ip == nil {
		return "E"
	}
	if n == 4 {
		if v4 := ip.To4(); v4 != nil {
			return "A" + Hx(v4)
		}
		return "A" + Hx(ip)
	}
	return "A" + Hx(ip.To16())
}

// a name or string list parsed from \# generic RDATA is outside the model
func showName(n string, rdlen uint16) string {
	if rdlen != 0 {
		return "U"
	}
	if n == "" {
		return "E"
	}
	return "N" + ShowBytes([]byte(n))
}

func showTxt(t []string, rdlen uint16) string {
	if rdlen != 0 {
		return "U"
	}
	if t == nil {
		return "E"
	}
	if len(t) > 6 {
		var all []byte
		for _, s := range t {
			all = append(all, s...)
			all = append(all, 0)
		}
		return "Tn" + Itoa(len(t)) + "c" + Itoa(cksum(all))
	}
	p := make([]string, len(t))
	for i, s := range t {
		p[i] = ShowBytes([]byte(s))
	}
	return "T" + strings.Join(p, "_")
}

func (r Rec) String() string {
	return "R:" + strings.Join([]string{ShowBytes([]byte(r.Name)), Itoa(int(r.Type)), Itoa(int(r.Class)),
		strconv.FormatUint(uint64(r.TTL), 10), r.Rd, Itoa(int(r.Rdlen))}, ",")
}

// messages of RDATA parsers outside the model look like "bad <TYPE> ..." or
// "<TYPE>: ..." for a type the model does not cover
func msgInScope(msg string) bool {
	f := strings.Fields(msg)
	if len(f) >= 2 && f[0] == "bad" {
		if t, ok := dns.StringToType[f[1]]; ok && !InScope(t) {
			return false
		}
	}
	if i := strings.IndexByte(msg, ':'); i > 0 {
		if t, ok := dns.StringToType[msg[:i]]; ok && t != dns.TypeA && t != dns.TypeAAAA {
			return false
		}
	}
	return true
}

// Deadline for one parser run.
var Deadline = 10 * time.Second

// MaxRecs bounds the records kept in Events (all are counted in Recs).
var MaxRecs = 1 << 20

// Aborted is set once a run has hung (its goroutine keeps spinning): all
// further runs are skipped so that the harness can report and exit.
var Aborted bool

// Run executes one configuration. extraNext further calls of Next are made
// after the first one that returns false.
func Run(c *Config, extraNext int) *Outcome {
	if Aborted {
		return &Outcome{Skipped: true}
	}
	o := &Outcome{InScope: true}
	text := c.Text.Expand()
	var lfs *LogFS
	if c.HasFS {
		m := map[string]string{}
		for k, v := range c.Files {
			m[k] = string(v.Expand())
		}
		lfs = &LogFS{Files: m, Log: func(p string, found bool) {
			f := "0"
			if found {
				f = "1"
			}
			o.Events = append(o.Events, "O:1,"+Hs(p)+","+f)
			o.Opens = append(o.Opens, p)
			o.OpensFS++
		}}
	} else if len(c.Files) > 0 {
		for k, v := range c.Files {
			if err := os.MkdirAll(filepath.Dir(k), 0o755); err != nil {
				panic(err)
			}
			if err := os.WriteFile(k, v.Expand(), 0o644); err != nil {
				panic(err)
			}
			watchDir(filepath.Dir(k))
		}
		drainOpens()
		defer func() {
			for k := range c.Files {
				os.Remove(k)
			}
		}()
	}
	osOpens := func() {
		if c.HasFS || inoFd < 0 {
			return
		}
		for _, p := range drainOpens() {
			// inotify merges identical successive events: show adjacent identical opens once
			if e := "O:0," + Hs(p) + ",1"; len(o.Events) > 0 && o.Events[len(o.Events)-1] == e {
				continue
			}
			o.Events = append(o.Events, "O:0,"+Hs(p)+",1")
			o.Opens = append(o.Opens, p)
			o.OpensOS++
		}
	}
	done := make(chan struct{})
	t0 := time.Now()
	go func() {
		defer close(done)
		defer func() {
			if r := recover(); r != nil {
				o.Panicked = true
				o.PanicVal = fmt.Sprint(r)
			}
		}()
		zp := dns.NewZoneParser(bytes.NewReader(text), c.Origin, c.File)
		if c.DefTTL >= 0 {
			zp.SetDefaultTTL(uint32(c.DefTTL))
		}
		zp.SetIncludeAllowed(c.Inc)
		if lfs != nil {
			zp.SetIncludeFS(lfs)
		}
		for {
			rr, ok := zp.Next()
			osOpens()
			if !ok {
				break
			}
			r := showRR(rr)
			if !r.InScp {
				o.InScope = false
			}
			o.Recs = append(o.Recs, r)
			if len(o.Recs) <= MaxRecs {
				o.Events = append(o.Events, r.String())
			}
		}
		o.Err = zp.Err()
		for i := 0; i < extraNext; i++ {
			rr, ok := zp.Next()
			osOpens()
			if ok || rr != nil {
				o.LateRecs++
				if rr != nil {
					o.Events = append(o.Events, "LATE:"+showRR(rr).String())
				}
			}
		}
		if e2 := zp.Err(); (e2 == nil) != (o.Err == nil) || (e2 != nil && e2.Error() != o.Err.Error()) {
			o.ErrChanged = true
		}
	}()
	select {
	case <-done:
	case <-time.After(Deadline):
		Aborted = true
		o.TimedOut = true
		o.Elapsed = time.Since(t0)
		return o
	}
	o.Elapsed = time.Since(t0)
	if o.Panicked {
		return o
	}
	if o.Err != nil {
		file, msg, tok, line, col, wrapped, ok := dns.VerifParseError(o.Err)
		o.ErrIsParse = ok
		if ok {
			o.ErrFile, o.ErrMsg, o.ErrTok, o.ErrLine, o.ErrCol, o.ErrWrapped = file, msg, tok, line, col, wrapped
			cls := Slug(msg)
			if wrapped {
				cls = "failed-to-open"
			}
			if !msgInScope(msg) {
				o.InScope = false
			}
			o.Events = append(o.Events, "X:"+strings.Join([]string{Hs(file), cls, Itoa(line), Itoa(col), ShowBytes([]byte(tok))}, ","))
		} else {
			o.Events = append(o.Events, "X:other-error")
			if _, isIO := o.Err.(interface{ Timeout() bool }); isIO || o.Err == io.ErrUnexpectedEOF {
				o.InScope = false
			}
		}
	}
	return o
}

// Show is the outcome as the model case "parse" prints it.
func (o *Outcome) Show() string {
	if o.Panicked {
		return "panic"
	}
	return strings.Join(o.Events, "|")
}

// EmitD is Emit with long outputs replaced by length and checksum (as
// Corr/C07.v digest does).
func EmitD(fn string, args []string, out string) {
	if len(out) > 4000 {
		out = "D" + Itoa(len(out)) + "c" + Itoa(cksum([]byte(out)))
	}
	Emit(fn, args, out)
}
