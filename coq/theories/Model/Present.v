(* Model/Present.v — presentation text of resource records (property C05).

   Hand model, function by function, of
     types.go   nextByte, writeTXTStringByte, escapeByte, sprintTxt,
                sprintTxtOctet, sprintName, Type.String, Class.String
                (defaults.go), RR_Header.String (dns.go), RFC3597.String,
                the regular per-type String() methods (through a layout table)
     msg.go     packTxtString / packOctetString (escape interpretation),
                unpackString (msg_helpers.go, escaping of wire octets)
     scan.go    zlexer.Next for one logical line without comments,
                typeToInt, classToInt, stringToTTL, toAbsoluteName,
                slurpRemainder, the header part of ZoneParser.Next
     scan_rr.go escapedStringOffset, endingToTxtSlice, endingToString,
                RFC3597.parse and the regular per-type parse() methods
   Definitions only. *)
From Dns Require Export Base.Bytes Model.Name Model.Labels.
Open Scope N_scope.

(* ------------------------------------------------------------------ *)
(* 1. escapes                                                          *)
(* ------------------------------------------------------------------ *)

(* types.go nextByte(s, offset) on the suffix s[offset:]: (octet, width);
   width 0 = end of string or dangling backslash *)
Definition next_byte (s : bytes) : N * nat :=
  match s with
  | [] => (0, 0%nat)
  | b :: r =>
    if b =? 92 then
      match r with
      | [] => (0, 0%nat)
      | d :: _ => if is_ddd r then (ddd_to_byte r, 4%nat) else (d, 2%nat)
      end
    else (b, 1%nat)
  end.

(* types.go writeTXTStringByte; also the per-octet escaping of unpackString *)
Definition write_txt_byte (b : N) : bytes :=
  if (b =? 34) || (b =? 92) then [92; b]
  else if (b <? 32) || (126 <? b) then ddd b
  else [b].

(* msg_helpers.go unpackString: the in-memory form of a wire character-string *)
Definition esc_wire (w : bytes) : bytes := flat_map write_txt_byte w.

(* msg.go packTxtString / packOctetString: the octets an in-memory string denotes *)
Fixpoint unescape (s : bytes) : bytes :=
  match s with
  | [] => []
  | b :: r =>
    if b =? 92 then
      match r with
      | [] => []
      | d1 :: r1 =>
        match r1 with
        | d2 :: d3 :: r3 =>
          if is_digit d1 && is_digit d2 && is_digit d3
          then ((d1 - 48) * 100 + (d2 - 48) * 10 + (d3 - 48)) mod 256 :: unescape r3
          else d1 :: unescape r1
        | _ => d1 :: unescape r1
        end
      end
    else b :: unescape r
  end.

(* packTxtString with its two limits: len(s) > 256*4+1 -> ErrBuf, more than 255 octets -> error *)
Definition pack_txt_string (s : bytes) : res bytes :=
  if 1025 <? lenN s then Err "buf"
  else let w := unescape s in
       if 255 <? lenN w then Err "toolong" else Ok (lenN w :: w).

(* the loop of sprintTxt over one string *)
Fixpoint stxt_loop (fuel : nat) (s : bytes) : bytes :=
  match fuel with
  | O => []
  | S f =>
    let '(b, n) := next_byte s in
    match n with
    | O => []
    | _ => write_txt_byte b ++ stxt_loop f (skipn n s)
    end
  end.
Definition sprint_txt_body (s : bytes) : bytes := stxt_loop (S (length s)) s.
Fixpoint sprint_txt_go (first : bool) (l : list bytes) : bytes :=
  match l with
  | [] => []
  | s :: r => (if first then [34] else [32; 34]) ++ sprint_txt_body s ++ [34] ++ sprint_txt_go false r
  end.
Definition sprint_txt (l : list bytes) : bytes := sprint_txt_go true l.

(* sprintTxtOctet: backslash-dot is copied, a dangling backslash is dropped *)
Fixpoint stxo_loop (fuel : nat) (s : bytes) : bytes :=
  match fuel with
  | O => []
  | S f =>
    match s with
    | [] => []
    | a :: r =>
      let generic :=
        let '(b, n) := next_byte s in
        match n with
        | O => stxo_loop f r
        | _ => write_txt_byte b ++ stxo_loop f (skipn n s)
        end in
      match r with
      | c :: r' => if (a =? 92) && (c =? 46) then 92 :: 46 :: stxo_loop f r' else generic
      | [] => generic
      end
    end
  end.
Definition sprint_txt_octet (s : bytes) : bytes := [34] ++ stxo_loop (S (length s)) s ++ [34].

(* sprintName.  pre = s[:i], s = s[i:], dst = the strings.Builder (empty until
   the first octet that needs escaping is met) *)
Definition is_nil (l : bytes) : bool := match l with [] => true | _ => false end.
Fixpoint sname_loop (fuel : nat) (pre s dst : bytes) : bytes :=
  match fuel with
  | O => dst
  | S f =>
    match s with
    | [] => if is_nil dst then pre else dst
    | c :: r =>
      if c =? 46 then sname_loop f (pre ++ [46]) r (if is_nil dst then dst else dst ++ [46])
      else
        let '(b, n) := next_byte s in
        match n with
        | O => if is_nil dst then pre else dst
        | _ =>
          let pre' := pre ++ firstn n s in
          let s' := skipn n s in
          let started := if is_nil dst then pre else dst in
          if label_special b then sname_loop f pre' s' (started ++ [92; b])
          else if (b <? 32) || (126 <? b) then sname_loop f pre' s' (started ++ ddd b)
          else sname_loop f pre' s' (if is_nil dst then dst else dst ++ [b])
        end
    end
  end.
Definition sprint_name (s : bytes) : bytes := sname_loop (S (length s)) [] s [].

(* the meaning of a presentation name: its octets, with the separating dots
   marked (what packDomainName splits on).  (octet, true) = a separator *)
Fixpoint name_units (s : bytes) : list (N * bool) :=
  match s with
  | [] => []
  | b :: r =>
    if b =? 46 then (46, true) :: name_units r
    else if b =? 92 then
      match r with
      | [] => []
      | d1 :: r1 =>
        match r1 with
        | d2 :: d3 :: r3 =>
          if is_digit d1 && is_digit d2 && is_digit d3
          then (((d1 - 48) * 100 + (d2 - 48) * 10 + (d3 - 48)) mod 256, false) :: name_units r3
          else (d1, false) :: name_units r1
        | _ => (d1, false) :: name_units r1
        end
      end
    else (b, false) :: name_units r
  end.

(* ------------------------------------------------------------------ *)
(* 2. decimal numbers, type and class mnemonics                        *)
(* ------------------------------------------------------------------ *)

Definition dec_bytes (n : N) : bytes := bytes_of_string (dec n).

(* strconv.ParseUint(s, 10, bits) *)
Fixpoint digits_val (s : bytes) (acc : N) : N :=
  match s with [] => acc | c :: r => digits_val r (acc * 10 + (c - 48)) end.
Definition parse_uint (s : bytes) (bits : N) : option N :=
  match s with
  | [] => None
  | _ => if forallb is_digit s
         then let v := digits_val s 0 in if v <? 2 ^ bits then Some v else None
         else None
  end.

Definition upper (b : N) : N := if (97 <=? b) && (b <=? 122) then b - 32 else b.
Definition upper_bytes (s : bytes) : bytes := map upper s.

(* ztypes.go TypeToString.  Compared with the real map on every run. *)
Definition type_table_s : list (N * string) :=
  [ (0, "None"); (1, "A"); (2, "NS"); (3, "MD"); (4, "MF"); (5, "CNAME"); (6, "SOA"); (7, "MB"); (8, "MG");
    (9, "MR"); (10, "NULL"); (12, "PTR"); (13, "HINFO"); (14, "MINFO"); (15, "MX"); (16, "TXT"); (17, "RP");
    (18, "AFSDB"); (19, "X25"); (20, "ISDN"); (21, "RT"); (23, "NSAP-PTR"); (24, "SIG"); (25, "KEY"); (26, "PX");
    (27, "GPOS"); (28, "AAAA"); (29, "LOC"); (30, "NXT"); (31, "EID"); (32, "NIMLOC"); (33, "SRV"); (34, "ATMA");
    (35, "NAPTR"); (36, "KX"); (37, "CERT"); (39, "DNAME"); (41, "OPT"); (42, "APL"); (43, "DS"); (44, "SSHFP");
    (45, "IPSECKEY"); (46, "RRSIG"); (47, "NSEC"); (48, "DNSKEY"); (49, "DHCID"); (50, "NSEC3"); (51, "NSEC3PARAM");
    (52, "TLSA"); (53, "SMIMEA"); (55, "HIP"); (56, "NINFO"); (57, "RKEY"); (58, "TALINK"); (59, "CDS");
    (60, "CDNSKEY"); (61, "OPENPGPKEY"); (62, "CSYNC"); (63, "ZONEMD"); (64, "SVCB"); (65, "HTTPS"); (99, "SPF");
    (100, "UINFO"); (101, "UID"); (102, "GID"); (103, "UNSPEC"); (104, "NID"); (105, "L32"); (106, "L64");
    (107, "LP"); (108, "EUI48"); (109, "EUI64"); (128, "NXNAME"); (249, "TKEY"); (250, "TSIG"); (251, "IXFR");
    (252, "AXFR"); (253, "MAILB"); (254, "MAILA"); (255, "ANY"); (256, "URI"); (257, "CAA"); (258, "AVC");
    (260, "AMTRELAY"); (261, "RESINFO"); (32768, "TA"); (32769, "DLV"); (65535, "Reserved") ]%string.
(* ztypes.go TypeToRR: the registered type codes.  Compared with the real map on every run. *)
Definition registered_types : list N :=
  [1; 2; 3; 4; 5; 6; 7; 8; 9; 10; 12; 13; 14; 15; 16; 17; 18; 19; 20; 21; 23; 24; 25; 26; 27; 28; 29; 30; 31; 32; 33;
   35; 36; 37; 39; 41; 42; 43; 44; 45; 46; 47; 48; 49; 50; 51; 52; 53; 55; 56; 57; 58; 59; 60; 61; 62; 63; 64; 65;
   99; 100; 101; 102; 104; 105; 106; 107; 108; 109; 128; 249; 250; 255; 256; 257; 258; 260; 261; 32768; 32769].
Definition is_registered (t : N) : bool := existsb (N.eqb t) registered_types.
(* msg.go ClassToString *)
Definition class_table_s : list (N * string) :=
  [ (1, "IN"); (2, "CS"); (3, "CH"); (4, "HS"); (254, "NONE"); (255, "ANY") ]%string.

Definition type_table : list (N * bytes) :=
  Eval vm_compute in map (fun p => (fst p, bytes_of_string (snd p))) type_table_s.
Definition class_table : list (N * bytes) :=
  Eval vm_compute in map (fun p => (fst p, bytes_of_string (snd p))) class_table_s.

Fixpoint lookup_code (tbl : list (N * bytes)) (c : N) : option bytes :=
  match tbl with
  | [] => None
  | (k, v) :: r => if k =? c then Some v else lookup_code r c
  end.
(* reverse.go StringToType / StringToClass: exact (case sensitive) match on the mnemonic *)
Fixpoint lookup_name (tbl : list (N * bytes)) (s : bytes) : option N :=
  match tbl with
  | [] => None
  | (k, v) :: r => if bytes_eqb v s then Some k else lookup_name r s
  end.
Definition string_to_type (s : bytes) : option N := lookup_name type_table s.
Definition string_to_class (s : bytes) : option N := lookup_name class_table s.

Definition b_TYPE : bytes := [84; 89; 80; 69].
Definition b_CLASS : bytes := [67; 76; 65; 83; 83].
(* defaults.go Type.String *)
Definition show_type (t : N) : bytes :=
  match lookup_code type_table t with Some m => m | None => b_TYPE ++ dec_bytes t end.
(* defaults.go Class.String: the mnemonic only when it is not also a type mnemonic *)
Definition show_class (c : N) : bytes :=
  match lookup_code class_table c with
  | Some m => match string_to_type m with None => m | Some _ => b_CLASS ++ dec_bytes c end
  | None => b_CLASS ++ dec_bytes c
  end.

Fixpoint has_prefix (p s : bytes) : bool :=
  match p, s with
  | [], _ => true
  | a :: p', b :: s' => (a =? b) && has_prefix p' s'
  | _, [] => false
  end.
(* scan.go typeToInt / classToInt: the token itself (not upper-cased), offset 4 / 5 *)
Definition type_to_int (tok : bytes) : option N :=
  if (length tok <? 5)%nat then None else parse_uint (skipn 4 tok) 16.
Definition class_to_int (tok : bytes) : option N :=
  if (length tok <? 6)%nat then None else parse_uint (skipn 5 tok) 16.

(* scan.go stringToTTL; Go's uint is 64 bits wide *)
Definition w64 (n : N) : N := n mod 18446744073709551616.
Fixpoint ttl_loop (s : bytes) (acc i : N) : option (N * N) :=
  match s with
  | [] => Some (acc, i)
  | c :: r =>
    if (c =? 115) || (c =? 83) then ttl_loop r (w64 (acc + i)) 0
    else if (c =? 109) || (c =? 77) then ttl_loop r (w64 (acc + w64 (i * 60))) 0
    else if (c =? 104) || (c =? 72) then ttl_loop r (w64 (acc + w64 (i * 3600))) 0
    else if (c =? 100) || (c =? 68) then ttl_loop r (w64 (acc + w64 (i * 86400))) 0
    else if (c =? 119) || (c =? 87) then ttl_loop r (w64 (acc + w64 (i * 604800))) 0
    else if is_digit c then ttl_loop r acc (w64 (w64 (i * 10) + (c - 48)))
    else None
  end.
Definition string_to_ttl (s : bytes) : option N :=
  match ttl_loop s 0 0 with
  | Some (acc, i) => let v := w64 (acc + i) in if 4294967295 <? v then None else Some v
  | None => None
  end.

(* ------------------------------------------------------------------ *)
(* 3. the zone lexer on one logical line                               *)
(* ------------------------------------------------------------------ *)

Inductive tok :=
| TStr (s : bytes)               (* zString *)
| TBlank                         (* zBlank *)
| TQuote                         (* zQuote *)
| TNewline                       (* zNewline *)
| TOwner (s : bytes)             (* zOwner *)
| TRrtype (t : N) (s : bytes)    (* zRrtpe, torc = t *)
| TClass (c : N) (s : bytes)     (* zClass, torc = c *)
| TErr (msg : string)            (* a token with l.err set; the lexer stops *)
| TUnmodelled (what : string).   (* comment or directive: outside this model *)

Record lstate := mkL { l_quote : bool; l_space : bool; l_owner : bool; l_rrtype : bool; l_brace : N }.
Definition l_init : lstate := mkL false false true false 0.
(* after "owner TTL class type<blank>": where per-type parse() starts reading *)
Definition l_rdata : lstate := mkL false true false true 0.

Definition is_directive (up : bytes) : bool :=
  bytes_eqb up (bytes_of_string "$TTL") || bytes_eqb up (bytes_of_string "$ORIGIN") ||
  bytes_eqb up (bytes_of_string "$INCLUDE") || bytes_eqb up (bytes_of_string "$GENERATE").

(* classification of a word delivered at a blank (scan.go, case ' ', '\t').
   Returns the token and the new rrtype flag. *)
Definition classify (rrtype : bool) (w : bytes) : tok * bool :=
  if rrtype then (TStr w, true)
  else
    let up := upper_bytes w in
    let ty : option (tok * bool) :=   (* None = lexer error *)
      match string_to_type up with
      | Some t => Some (TRrtype t w, true)
      | None =>
        if has_prefix b_TYPE up then
          match type_to_int w with
          | Some t => Some (TRrtype t w, true)
          | None => None
          end
        else Some (TStr w, false)
      end in
    match ty with
    | None => (TErr "unknown RR type", false)
    | Some (t1, rr1) =>
      match string_to_class up with
      | Some c => (TClass c w, rr1)
      | None =>
        if has_prefix b_CLASS up then
          match class_to_int w with
          | Some c => (TClass c w, rr1)
          | None => (TErr "unknown class", rr1)
          end
        else (t1, rr1)
      end
    end.

Definition is_err (t : tok) : bool := match t with TErr _ | TUnmodelled _ => true | _ => false end.

(* acc holds the token text gathered so far, reversed *)
Fixpoint lex_go (st : lstate) (acc : bytes) (esc : bool) (s : bytes) : list tok :=
  match s with
  | [] =>
    (if is_nil acc then [] else [TStr (rev acc)]) ++
    (if l_brace st =? 0 then [] else [TErr "unbalanced brace"])
  | x :: r =>
    if (x =? 32) || (x =? 9) then
      if esc || l_quote st then lex_go st (x :: acc) false r
      else
        let st1 := mkL (l_quote st) true false (l_rrtype st) (l_brace st) in
        let blank := if l_space st then [] else [TBlank] in
        if is_nil acc then blank ++ lex_go st1 [] false r
        else if l_owner st then
          let w := rev acc in
          if is_directive (upper_bytes w) then [TUnmodelled "directive"]
          else TOwner w :: blank ++ lex_go st1 [] false r
        else
          let '(t, rr) := classify (l_rrtype st) (rev acc) in
          if is_err t then [t]
          else t :: blank ++ lex_go (mkL (l_quote st) true false rr (l_brace st)) [] false r
    else if x =? 59 then
      if esc || l_quote st then lex_go st (x :: acc) false r
      else [TUnmodelled "comment"]
    else if x =? 13 then
      if l_quote st then lex_go st (x :: acc) false r else lex_go st acc false r
    else if x =? 10 then
      if l_quote st then lex_go st (x :: acc) false r
      else if l_brace st =? 0 then
        (if is_nil acc then []
         else if l_rrtype st then [TStr (rev acc)]
         else match string_to_type (upper_bytes (rev acc)) with
              | Some t => [TRrtype t (rev acc)]
              | None => [TStr (rev acc)]
              end) ++ [TNewline]
      else lex_go st acc false r
    else if x =? 92 then
      if esc then lex_go st (x :: acc) false r else lex_go st (x :: acc) true r
    else if x =? 34 then
      if esc then lex_go st (x :: acc) false r
      else
        (if is_nil acc then [] else [TStr (rev acc)]) ++ TQuote ::
        lex_go (mkL (negb (l_quote st)) false (l_owner st) (l_rrtype st) (l_brace st)) [] false r
    else if (x =? 40) || (x =? 41) then
      if esc || l_quote st then lex_go st (x :: acc) false r
      else if x =? 41 then
        if l_brace st =? 0 then [TErr "extra closing brace"]
        else lex_go (mkL (l_quote st) (l_space st) (l_owner st) (l_rrtype st) (l_brace st - 1)) acc esc r
      else lex_go (mkL (l_quote st) (l_space st) (l_owner st) (l_rrtype st) (l_brace st + 1)) acc esc r
    else
      lex_go (mkL (l_quote st) false (l_owner st) (l_rrtype st) (l_brace st)) (x :: acc) false r
  end.

Definition lex_line (s : bytes) : list tok := lex_go l_init [] false s.
Definition lex_rdata (s : bytes) : list tok := lex_go l_rdata [] false s.

(* ------------------------------------------------------------------ *)
(* 4. endingToTxtSlice, endingToString, slurpRemainder                 *)
(* ------------------------------------------------------------------ *)

(* escapedStringOffset(s, desired): None = (0, false); Some (-1) = not reached *)
Fixpoint eso_loop (fuel : nat) (s : bytes) (i cur desired : N) : option Z :=
  match fuel with
  | O => Some (-1)%Z
  | S f =>
    match s with
    | [] => Some (-1)%Z
    | b :: r =>
      let step : option nat :=
        if negb (b =? 92) then Some 1%nat
        else if is_ddd r then Some 4%nat
        else match r with [] => None | _ => Some 2%nat end in
      match step with
      | None => None
      | Some n =>
        let i' := i + N.of_nat n in
        if desired <=? cur + 1 then Some (Z.of_N i')
        else eso_loop f (skipn n s) i' (cur + 1) desired
      end
    end
  end.
Definition escaped_string_offset (s : bytes) (desired : N) : option Z :=
  if desired =? 0 then Some 0%Z else eso_loop (S (length s)) s 0 0 desired.

(* the 255-chunking of one zString token *)
Fixpoint chunks_loop (fuel : nat) (s : bytes) : res (list bytes) :=
  match fuel with
  | O => OutOfFuel
  | S f =>
    match escaped_string_offset s 255 with
    | None => Err "txt"
    | Some i =>
      if (i =? -1)%Z || (Z.to_nat i =? length s)%nat then Ok [s]
      else do l <- chunks_loop f (skipn (Z.to_nat i) s); Ok (firstn (Z.to_nat i) s :: l)
    end
  end.
Definition txt_chunks (s : bytes) : res (list bytes) := chunks_loop (S (length s)) s.

(* a token stream ends at TNewline or at its end (zEOF) *)
Fixpoint etts_go (ts : list tok) (acc : list bytes) (quote empty : bool) : res (list bytes) :=
  match ts with
  | [] => if quote then Err "txt" else Ok acc
  | t :: r =>
    match t with
    | TNewline => if quote then Err "txt" else Ok acc
    | TErr _ | TUnmodelled _ => Err "txt"
    | TStr s => do c <- txt_chunks s; etts_go r (acc ++ c) quote false
    | TBlank => if quote then Err "txt" else etts_go r acc quote empty
    | TQuote => etts_go r (if empty && quote then acc ++ [[]] else acc) (negb quote) true
    | _ => Err "txt"
    end
  end.
Definition ending_to_txt_slice (ts : list tok) : res (list bytes) := etts_go ts [] false false.

Fixpoint ets_go (ts : list tok) (acc : bytes) : res bytes :=
  match ts with
  | [] => Ok acc
  | t :: r =>
    match t with
    | TNewline => Ok acc
    | TStr s => ets_go r (acc ++ s)
    | TBlank => ets_go r acc
    | _ => Err "rdata"
    end
  end.
Definition ending_to_string (ts : list tok) : res bytes := ets_go ts [].

(* slurpRemainder *)
Definition slurp_remainder (ts : list tok) : res unit :=
  match ts with
  | [] => Ok tt
  | TNewline :: _ => Ok tt
  | TBlank :: r => match r with [] | TNewline :: _ => Ok tt | _ => Err "garbage" end
  | _ => Err "garbage"
  end.

(* ------------------------------------------------------------------ *)
(* 5. names as the parsers take them                                   *)
(* ------------------------------------------------------------------ *)

(* defaults.go IsDomainName on Fqdn(s); lablen = i - begin *)
Fixpoint idn_loop (fuel : nat) (s : bytes) (first : bool) (total : nat)
         (off lablen : N) (wasdot esc : bool) : bool :=
  match fuel with
  | O => false
  | S f =>
    match s with
    | [] => negb esc
    | c :: r =>
      if c =? 92 then
        if 254 <? off + 1 then false
        else if is_ddd r then idn_loop f (skipn 3 r) false total off (lablen + 1) false (negb esc)
        else idn_loop f (skipn 1 r) false total off (lablen + 1) false (negb esc)
      else if c =? 46 then
        if first && (1 <? total)%nat then false
        else if wasdot then false
        else if 64 <=? lablen then false
        else if 254 <? off + 1 + lablen then false
        else idn_loop f r false total (off + 1 + lablen) 0 true false
      else idn_loop f r false total off (lablen + 1) false false
    end
  end.
Definition is_domain_name (s : bytes) : bool :=
  match s with
  | [] => false
  | _ => let q := fqdn s in idn_loop (S (length q)) q true (length q) 0 0 false false
  end.

(* scan.go toAbsoluteName with origin "." *)
Definition to_absolute_name (tok : bytes) : option bytes :=
  if bytes_eqb tok [64] then Some [46]
  else if bytes_eqb tok [10] then None
  else if negb (is_domain_name tok) then None
  else if is_fqdn tok then Some tok else Some (tok ++ [46]).

(* ------------------------------------------------------------------ *)
(* 6. the header                                                       *)
(* ------------------------------------------------------------------ *)

Record hdr := mkH { h_name : bytes; h_ttl : N; h_class : N; h_type : N }.

(* dns.go RR_Header.String (types other than OPT) *)
Definition present_hdr (h : hdr) : bytes :=
  sprint_name (h_name h) ++ [9] ++ dec_bytes (h_ttl h) ++ [9] ++
  show_class (h_class h) ++ [9] ++ show_type (h_type h) ++ [9].
(* types.go rfc3597Header *)
Definition present_hdr_3597 (h : hdr) : bytes :=
  sprint_name (h_name h) ++ [9] ++ dec_bytes (h_ttl h) ++ [9] ++
  b_CLASS ++ dec_bytes (h_class h) ++ [9] ++ b_TYPE ++ dec_bytes (h_type h) ++ [9].

(* ZoneParser.Next up to zExpectRdata, for a parser made by NewRR: default TTL
   3600 (not by directive), origin ".".  Returns the header and the tokens from
   the one the zExpectRdata case sees. *)
Inductive pstate := SOwnerDir | SOwnerBl | SAny | SAnyNoClassBl | SAnyNoClass
                  | SAnyNoTTLBl | SAnyNoTTL | SRrtypeBl | SRrtype | SRdata.

Fixpoint hdr_go (st : pstate) (h : hdr) (ts : list tok) : res (hdr * list tok) :=
  match st with
  | SRdata => Ok (h, ts)
  | _ =>
  match ts with
  | [] => Err "eof"
  | t :: r =>
    match t with
    | TErr _ => Err "lex"
    | TUnmodelled _ => Err "unmodelled"
    | _ =>
    match st with
    | SOwnerDir =>
      let h0 := mkH (h_name h) 3600 1 (h_type h) in
      match t with
      | TNewline => Err "unmodelled"
      | TOwner s => match to_absolute_name s with
                    | Some n => hdr_go SOwnerBl (mkH n 3600 1 (h_type h)) r
                    | None => Err "owner"
                    end
      | TRrtype ty _ => hdr_go SRdata (mkH (h_name h0) (h_ttl h0) (h_class h0) ty) r
      | TClass c _ => hdr_go SAnyNoClassBl (mkH (h_name h0) (h_ttl h0) c (h_type h0)) r
      | TBlank => hdr_go SOwnerDir h0 r
      | TStr s => match string_to_ttl s with
                  | Some v => hdr_go SAnyNoTTLBl (mkH (h_name h0) v (h_class h0) (h_type h0)) r
                  | None => Err "ttl"
                  end
      | _ => Err "syntax"
      end
    | SOwnerBl => match t with TBlank => hdr_go SAny h r | _ => Err "noblank" end
    | SAny =>
      match t with
      | TRrtype ty _ => hdr_go SRdata (mkH (h_name h) (h_ttl h) (h_class h) ty) r
      | TClass c _ => hdr_go SAnyNoClassBl (mkH (h_name h) (h_ttl h) c (h_type h)) r
      | TStr s => match string_to_ttl s with
                  | Some v => hdr_go SAnyNoTTLBl (mkH (h_name h) v (h_class h) (h_type h)) r
                  | None => Err "ttl"
                  end
      | _ => Err "expecting"
      end
    | SAnyNoClassBl => match t with TBlank => hdr_go SAnyNoClass h r | _ => Err "noblank" end
    | SAnyNoTTLBl => match t with TBlank => hdr_go SAnyNoTTL h r | _ => Err "noblank" end
    | SAnyNoTTL =>
      match t with
      | TClass c _ => hdr_go SRrtypeBl (mkH (h_name h) (h_ttl h) c (h_type h)) r
      | TRrtype ty _ => hdr_go SRdata (mkH (h_name h) (h_ttl h) (h_class h) ty) r
      | _ => Err "expecting"
      end
    | SAnyNoClass =>
      match t with
      | TStr s => match string_to_ttl s with
                  | Some v => hdr_go SRrtypeBl (mkH (h_name h) v (h_class h) (h_type h)) r
                  | None => Err "ttl"
                  end
      | TRrtype ty _ => hdr_go SRdata (mkH (h_name h) (h_ttl h) (h_class h) ty) r
      | _ => Err "expecting"
      end
    | SRrtypeBl => match t with TBlank => hdr_go SRrtype h r | _ => Err "noblank" end
    | SRrtype =>
      match t with
      | TRrtype ty _ => hdr_go SRdata (mkH (h_name h) (h_ttl h) (h_class h) ty) r
      | _ => Err "unknowntype"
      end
    | SRdata => Ok (h, ts)
    end
    end
  end
  end.
Definition parse_hdr (ts : list tok) : res (hdr * list tok) :=
  hdr_go SOwnerDir (mkH [] 0 0 0) ts.

(* ------------------------------------------------------------------ *)
(* 6b. helpers of the irregular printers and parsers                   *)
(* ------------------------------------------------------------------ *)

Fixpoint join_bytes (sep : bytes) (l : list bytes) : bytes :=
  match l with
  | [] => []
  | [x] => x
  | x :: r => x ++ sep ++ join_bytes sep r
  end.

(* types.go CertTypeToString, dnssec.go AlgorithmToString; reverse.go
   StringToCertType / StringToAlgorithm are their inverses.  Compared with the
   real maps on every run (case tables2). *)
Definition cert_table_s : list (N * string) :=
  [ (1, "PKIX"); (2, "SPKI"); (3, "PGP"); (4, "IPIX"); (5, "ISPKI"); (6, "IPGP"); (7, "ACPKIX"); (8, "IACPKIX");
    (253, "URI"); (254, "OID") ]%string.
Definition alg_table_s : list (N * string) :=
  [ (1, "RSAMD5"); (2, "DH"); (3, "DSA"); (5, "RSASHA1"); (6, "DSA-NSEC3-SHA1"); (7, "RSASHA1-NSEC3-SHA1");
    (8, "RSASHA256"); (10, "RSASHA512"); (12, "ECC-GOST"); (13, "ECDSAP256SHA256"); (14, "ECDSAP384SHA384");
    (15, "ED25519"); (16, "ED448"); (252, "INDIRECT"); (253, "PRIVATEDNS"); (254, "PRIVATEOID") ]%string.
Definition cert_table : list (N * bytes) :=
  Eval vm_compute in map (fun p => (fst p, bytes_of_string (snd p))) cert_table_s.
Definition alg_table : list (N * bytes) :=
  Eval vm_compute in map (fun p => (fst p, bytes_of_string (snd p))) alg_table_s.
Inductive mtable := MCert | MAlg.
Definition mtab (m : mtable) : list (N * bytes) := match m with MCert => cert_table | MAlg => alg_table end.
(* CERT.String: the mnemonic when the map has one, strconv.Itoa otherwise *)
Definition show_mnem (m : mtable) (n : N) : bytes :=
  match lookup_code (mtab m) n with Some s => s | None => dec_bytes n end.

(* types.go splitN *)
Fixpoint splitn_loop (fuel : nat) (s : bytes) (n : nat) : list bytes :=
  match fuel with
  | O => [s]
  | S f => if (n <=? length s)%nat then firstn n s :: splitn_loop f (skipn n s) n else [s]
  end.
Definition split_n (s : bytes) (n : nat) : list bytes :=
  if (length s <? n)%nat then [s] else splitn_loop (S (length s)) s n.

(* strings.Fields on a string of ASCII octets *)
Definition ascii_space (b : N) : bool :=
  (b =? 9) || (b =? 10) || (b =? 11) || (b =? 12) || (b =? 13) || (b =? 32).
Fixpoint fields_go (s cur : bytes) : list bytes :=
  match s with
  | [] => if is_nil cur then [] else [rev cur]
  | c :: r => if ascii_space c then (if is_nil cur then [] else [rev cur]) ++ fields_go r []
              else fields_go r (c :: cur)
  end.

(* time: the proleptic Gregorian calendar as package time computes it for UTC *)
Definition year68 : Z := 2147483648%Z.
Definition civil_from_days (z0 : Z) : Z * Z * Z :=
  (let z := z0 + 719468 in
   let era := z / 146097 in
   let doe := z - era * 146097 in
   let yoe := (doe - doe / 1460 + doe / 36524 - doe / 146096) / 365 in
   let y := yoe + era * 400 in
   let doy := doe - (365 * yoe + yoe / 4 - yoe / 100) in
   let mp := (5 * doy + 2) / 153 in
   let d := doy - (153 * mp + 2) / 5 + 1 in
   let m := if mp <? 10 then mp + 3 else mp - 9 in
   ((if m <=? 2 then y + 1 else y), m, d))%Z.
Definition days_from_civil (y m d : Z) : Z :=
  (let y' := if m <=? 2 then y - 1 else y in
   let era := y' / 400 in
   let yoe := y' - era * 400 in
   let doy := (153 * (if 2 <? m then m - 3 else m + 9) + 2) / 5 + d - 1 in
   let doe := yoe * 365 + yoe / 4 - yoe / 100 + doy in
   era * 146097 + doe - 719468)%Z.
Definition is_leap (y : Z) : bool :=
  (((y mod 4 =? 0) && negb (y mod 100 =? 0)) || (y mod 400 =? 0))%Z.
Definition days_in (m y : Z) : Z :=
  (if m =? 2 then (if is_leap y then 29 else 28)
   else if (m =? 4) || (m =? 6) || (m =? 9) || (m =? 11) then 30 else 31)%Z.
(* time/format.go appendInt *)
Definition pad_dec (w : nat) (n : N) : bytes := let d := dec_bytes n in repeat 48 (w - length d) ++ d.
Definition append_int (x : Z) (w : nat) : bytes :=
  if (x <? 0)%Z then 45 :: pad_dec w (Z.to_N (- x)) else pad_dec w (Z.to_N x).
(* time.Unix(ti, 0).UTC().Format("20060102150405") *)
Definition format_time (ti : Z) : bytes :=
  (let days := ti / 86400 in
   let sod := ti mod 86400 in
   let '(y, m, d) := civil_from_days days in
   append_int y 4 ++ append_int m 2 ++ append_int d 2 ++
   append_int (sod / 3600) 2 ++ append_int (sod / 60 mod 60) 2 ++ append_int (sod mod 60) 2)%Z.
(* types.go TimeToString with time.Now().Unix() = now; Go's / truncates *)
Definition time_to_string (now : Z) (t : N) : bytes :=
  (let m0 := Z.quot (Z.of_N t - now) year68 - 1 in
   let md := if m0 <? 0 then 0 else m0 in
   format_time (Z.of_N t - md * year68))%Z.
(* types.go StringToTime: time.Parse("20060102150405", s) accepts exactly 14
   digits with valid ranges, optionally followed by a fractional second *)
Definition dval (a b : N) : Z := Z.of_N ((a - 48) * 10 + (b - 48)).
Definition stt_core (y mo d h mi se : Z) : option N :=
  (if (mo <? 1) || (12 <? mo) || (24 <=? h) || (60 <=? mi) || (60 <=? se) || (d <? 1) || (days_in mo y <? d)
   then None
   else
     let T := days_from_civil y mo d * 86400 + h * 3600 + mi * 60 + se in
     let m0 := Z.quot T year68 - 1 in
     let md := if m0 <? 0 then 0 else m0 in
     Some (Z.to_N ((T - md * year68) mod 4294967296)))%Z.
Definition string_to_time (s : bytes) : option N :=
  match s with
  | y1 :: y2 :: y3 :: y4 :: m1 :: m2 :: d1 :: d2 :: h1 :: h2 :: i1 :: i2 :: s1 :: s2 :: rest =>
    if negb (forallb is_digit [y1; y2; y3; y4; m1; m2; d1; d2; h1; h2; i1; i2; s1; s2]) then None
    else if negb (match rest with
                  | [] => true
                  | c :: ds => ((c =? 46) || (c =? 44)) && negb (is_nil ds) && forallb is_digit ds
                  end) then None
    else stt_core (dval y1 y2 * 100 + dval y3 y4) (dval m1 m2) (dval d1 d2) (dval h1 h2) (dval i1 i2) (dval s1 s2)
  | _ => None
  end.

(* strconv.ParseFloat(s, 64) accepts (among others: exponents, hex floats,
   inf, nan - outside this model) every plain decimal: an optional sign,
   digits with at most one point and at least one digit; up to 300 octets
   the value is in range *)
Fixpoint float_body (s : bytes) (point digit : bool) : bool :=
  match s with
  | [] => digit
  | c :: r => if is_digit c then float_body r point true
              else if (c =? 46) && negb point then float_body r true digit
              else false
  end.
Definition float_simple (s : bytes) : bool :=
  (length s <=? 300)%nat &&
  match s with
  | c :: r => if (c =? 43) || (c =? 45) then float_body r false false else float_body s false false
  | [] => false
  end.

(* hexadecimal numbers: fmt %x / %X with a fixed width, strconv.ParseUint(s, 16, _) *)
Definition hex_bytes (w : bytes) : bytes := bytes_of_string (hex w).
Definition is_hexdigit (c : N) : bool :=
  is_digit c || ((97 <=? c) && (c <=? 102)) || ((65 <=? c) && (c <=? 70)).
Definition hexval (c : N) : N := unhexdigit (ascii_of_N c).
Fixpoint hexnum (s : bytes) (acc : N) : N :=
  match s with [] => acc | c :: r => hexnum r (acc * 16 + hexval c) end.
(* at most 16 digits here, so the 64-bit range is never exceeded *)
Definition parse_hex (s : bytes) : option N :=
  match s with [] => None | _ => if forallb is_hexdigit s then Some (hexnum s 0) else None end.
(* types.go euiToString: octet pairs joined by a dash (k = 6 or 8 octets) *)
Definition eui_to_string (k : nat) (n : N) : bytes :=
  join_bytes [45] (map (fun b => hex_bytes [b]) (if (k =? 6)%nat then u48 n else u64 n)).
(* EUI48.parse / EUI64.parse: the digits when the token is k pairs with a dash after each but the last *)
Fixpoint eui_digits (k : nat) (s : bytes) : option bytes :=
  match k with
  | O => None
  | S k' =>
    match k' with
    | O => match s with [a; b] => Some [a; b] | _ => None end
    | _ => match s with
           | a :: b :: c :: r => if c =? 45 then match eui_digits k' r with Some d => Some (a :: b :: d) | None => None end
                                 else None
           | _ => None
           end
    end
  end.
Definition parse_eui (k : nat) (s : bytes) : option N :=
  match eui_digits k s with Some d => parse_hex d | None => None end.
(* NID.String / L64.String: four groups of four digits joined by a colon *)
Definition nodeid_to_string (up : bool) (n : N) : bytes :=
  match u64 n with
  | [a; b; c; d; e; f; g; h] =>
    let x := hex_bytes [a; b] ++ [58] ++ hex_bytes [c; d] ++ [58] ++ hex_bytes [e; f] ++ [58] ++ hex_bytes [g; h] in
    if up then upper_bytes x else x
  | _ => []
  end.
(* scan.go stringToNodeID: at least 19 octets, one of the three colons in place *)
Definition parse_nodeid (s : bytes) : option N :=
  if (length s <? 19)%nat then None
  else if negb (nth 4 s 0 =? 58) && negb (nth 9 s 0 =? 58) && negb (nth 14 s 0 =? 58) then None
  else parse_hex (firstn 4 s ++ firstn 4 (skipn 5 s) ++ firstn 4 (skipn 10 s) ++ firstn 4 (skipn 15 s)).

(* ------------------------------------------------------------------ *)
(* 7. regular RDATA: a presentation grammar                            *)
(* ------------------------------------------------------------------ *)

Inductive pfield :=
| P_uint (bits : N)      (* strconv.Itoa / ParseUint(…, 10, bits) *)
| P_u32ttl               (* SOA refresh..minttl: decimal, read by ParseUint else stringToTTL *)
| P_name                 (* sprintName / toAbsoluteName *)
| P_ip4                  (* net.IP.String of 4 octets / net.ParseIP without colon *)
| P_qstrs                (* sprintTxt / endingToTxtSlice, to the end of the line *)
| P_octet                (* sprintTxtOctet / endingToTxtSlice with exactly one string *)
| P_hex (up : bool)      (* hex text to the end of the line, upper-cased by the printer if up *)
| P_b64                  (* base64 text to the end of the line *)
| P_types                (* type bitmap mnemonics to the end of the line *)
(* the irregular printers / parsers (B05) *)
| P_word (strict : bool) (* printed verbatim (X25 address, CAA tag); strict: the token must be a zString *)
| P_rawname              (* NAPTR replacement: printed verbatim, read by toAbsoluteName *)
| P_qstr                 (* NAPTR flags, service, regexp: quote, verbatim, quote / zQuote [zString] zQuote *)
| P_hinfo                (* HINFO, ISDN: sprintTxt of two strings / endingToTxtSlice and the Fields repair *)
| P_uinfo                (* UINFO: sprintTxt of one string / first string of endingToTxtSlice *)
| P_salt (strict : bool) (* saltToString / "-" or the token; strict (NSEC3): an empty token is refused *)
| P_b32                  (* NSEC3 next hashed owner: verbatim / the token, HashLength := 20 *)
| P_hexsplit             (* SMIMEA: hex text in 1024-character words / endingToString *)
| P_mnem (tbl : mtable) (bits : N)  (* CERT type and algorithm: mnemonic or decimal / exact mnemonic, else ParseUint *)
| P_algnum               (* RRSIG algorithm: decimal / ParseUint, else exact mnemonic *)
| P_type                 (* RRSIG type covered: Type.String / mnemonic in any case, else TYPEnnn *)
| P_eui (k : nat)         (* EUI48 / EUI64: euiToString / dashed pairs, ParseUint base 16 *)
| P_nodeid (up : bool)   (* NID / L64: %0.16x, %0.16X in four groups / stringToNodeID *)
| P_float                (* GPOS: printed verbatim / strconv.ParseFloat must accept it (modelled for plain decimals) *)
| P_time                 (* RRSIG expiration, inception: TimeToString / StringToTime, else ParseUint 32 *)
(* B05b *)
| P_hit                  (* HIP HIT: printed verbatim / a non-empty token, HitLength := uint8(len/2) *)
| P_pk                   (* HIP public key: verbatim / a non-empty token that base64-decodes, PublicKeyLength := uint16(len decoded) *)
| P_names                (* HIP rendezvous servers: sprintName each / toAbsoluteName of every zString to the end of the line *)
| P_ip6                  (* AAAA: "::ffff:" + dotted quad when To4() != nil, else net.IP.String / net.ParseIP and a colon in the token *)
| P_ipsecgw              (* IPSECKEY: gateway type, algorithm, gateway in the form the type selects / parseAddrHostUnion *)
| P_amtgw.               (* AMTRELAY: discovery bit, type (low 7 bits), gateway / "0" or "1", ParseUint 8, parseAddrHostUnion *)

(* field values as the Go structs hold them *)
Inductive pval :=
| V_int (n : N)
| V_name (s : bytes)
| V_ip4 (a : bytes)
| V_strs (l : list bytes)
| V_octet (s : bytes)
| V_word (s : bytes)
| V_types (l : list N)
| V_sized (n : N) (s : bytes)     (* a length octet of the struct (SaltLength, HashLength) and its text *)
| V_time (now : Z) (t : N)        (* a 32-bit time and the clock reading (Unix seconds) TimeToString sees *)
| V_gw (gt alg : N) (addr host : bytes).  (* GatewayType (all 8 bits), Algorithm (IPSECKEY), GatewayAddr.To16() or nil, GatewayHost *)

Definition is_rest (f : pfield) : bool :=
  match f with P_qstrs | P_octet | P_hex _ | P_b64 | P_types | P_hinfo | P_uinfo | P_hexsplit | P_names => true | _ => false end.

Definition present_ip4 (a : bytes) : bytes := join_bytes [46] (map dec_bytes a).

(* net.ParseIP on a dotted quad: four decimal fields 0..255 of one to three
   digits, no leading zero *)
Fixpoint split_on (sep : N) (s : bytes) (cur : bytes) : list bytes :=
  match s with
  | [] => [rev cur]
  | c :: r => if c =? sep then rev cur :: split_on sep r [] else split_on sep r (c :: cur)
  end.
Definition parse_ip4_field (f : bytes) : option N :=
  match f with
  | [] => None
  | c :: r =>
    if (3 <? length f)%nat then None
    else if (c =? 48) && negb (is_nil r) then None
    else match parse_uint f 8 with Some v => Some v | None => None end
  end.
Definition parse_ip4 (s : bytes) : option bytes :=
  match map parse_ip4_field (split_on 46 s []) with
  | [Some a; Some b; Some c; Some d] => Some [a; b; c; d]
  | _ => None
  end.

(* ---- 16-octet addresses (net.IP values are seen through To16(): nil is the
   empty list, a 4-octet slice is its IPv4-mapped form) ---- *)
Definition is_v4mapped (a : bytes) : bool :=
  match a with
  | [a0; a1; a2; a3; a4; a5; a6; a7; a8; a9; a10; a11; _; _; _; _] =>
    forallb (N.eqb 0) [a0; a1; a2; a3; a4; a5; a6; a7; a8; a9] && (a10 =? 255) && (a11 =? 255)
  | _ => false
  end.
Definition v4mapped (q : bytes) : bytes := [0; 0; 0; 0; 0; 0; 0; 0; 0; 0; 255; 255] ++ q.
Fixpoint groups16 (a : bytes) : list N :=
  match a with hi :: lo :: r => (hi * 256 + lo) :: groups16 r | _ => [] end.
Definition hexdig (x : N) : N := if x <? 10 then 48 + x else 87 + x.
(* netip appendHex: lower case, no leading zeros *)
Definition hex_word (g : N) : bytes :=
  if g <? 16 then [hexdig g]
  else if g <? 256 then [hexdig (g / 16); hexdig (g mod 16)]
  else if g <? 4096 then [hexdig (g / 256); hexdig (g / 16 mod 16); hexdig (g mod 16)]
  else [hexdig (g / 4096 mod 16); hexdig (g / 256 mod 16); hexdig (g / 16 mod 16); hexdig (g mod 16)].
Fixpoint zrun (gs : list N) : nat :=
  match gs with g :: r => if g =? 0 then S (zrun r) else O | [] => O end.
(* netip.Addr.AppendTo (string6): the longest run of two or more zero groups, the leftmost of equals *)
Fixpoint best_run (gs : list N) (i zs ze : nat) : nat * nat :=
  match gs with
  | [] => (zs, ze)
  | _ :: r => let l := zrun gs in
              if (2 <=? l)%nat && (ze - zs <? l)%nat then best_run r (S i) i (i + l) else best_run r (S i) zs ze
  end.
Fixpoint ip6_go (fuel i : nat) (gs : list N) (zs ze : nat) : bytes :=
  match fuel with
  | O => []
  | S f =>
    if (8 <=? i)%nat then []
    else if (i =? zs)%nat then
      [58; 58] ++ (if (8 <=? ze)%nat then [] else hex_word (nth ze gs 0) ++ ip6_go f (S ze) gs zs ze)
    else (if (0 <? i)%nat then [58] else []) ++ hex_word (nth i gs 0) ++ ip6_go f (S i) gs zs ze
  end.
Definition present_ip6 (a : bytes) : bytes :=
  let gs := groups16 a in let '(zs, ze) := best_run gs 0 255 255 in ip6_go 9 0 gs zs ze.
(* net.IP.String *)
Definition b_nil : bytes := [60; 110; 105; 108; 62].
Definition ip_string (a : bytes) : bytes :=
  if is_nil a then b_nil
  else if is_v4mapped a then present_ip4 (skipn 12 a)
  else present_ip6 a.
(* AAAA.String *)
Definition b_v4in6 : bytes := [58; 58; 102; 102; 102; 102; 58].
Definition present_aaaa (a : bytes) : bytes :=
  if is_nil a then [] else if is_v4mapped a then b_v4in6 ++ present_ip4 (skipn 12 a) else present_ip6 a.

(* netip.parseIPv6 (no zone: net.ParseIP refuses every '%'): up to four hex
   digits per group, one "::", an embedded dotted quad in the last four octets *)
Fixpoint hexrun (s : bytes) (off : nat) (acc : N) : option (nat * N * bytes) :=
  match s with
  | c :: r => if is_hexdigit c then (if (3 <? off)%nat then None else hexrun r (S off) (acc * 16 + hexval c))
              else Some (off, acc, s)
  | [] => Some (off, acc, [])
  end.
Definition is_some {A} (o : option A) : bool := match o with Some _ => true | None => false end.
Fixpoint ip6_parse_go (fuel : nat) (s : bytes) (ell : option nat) (acc : bytes) : option (bytes * option nat) :=
  match fuel with
  | O => None
  | S f =>
    if (16 <=? length acc)%nat then (if is_nil s then Some (acc, ell) else None)
    else match hexrun s 0 0 with
    | None => None
    | Some (off, v, rest) =>
      if (off =? 0)%nat then None else
      let acc' := acc ++ [v / 256; v mod 256] in
      match rest with
      | [] => Some (acc', ell)
      | c :: r1 =>
        if c =? 46 then
          if negb (is_some ell) && negb (length acc =? 12)%nat then None
          else if (16 <? length acc + 4)%nat then None
          else match parse_ip4 s with Some q => Some (acc ++ q, ell) | None => None end
        else if negb (c =? 58) then None
        else match r1 with
             | [] => None
             | c2 :: r2 =>
               if c2 =? 58 then
                 if is_some ell then None
                 else if is_nil r2 then Some (acc', Some (length acc'))
                 else ip6_parse_go f r2 (Some (length acc')) acc'
               else ip6_parse_go f r1 ell acc'
             end
      end
    end
  end.
(* at most eight groups are stored before the loop ends: fuel 9 is never exhausted *)
Definition parse_ip6 (s : bytes) : option bytes :=
  let lead := match s with c1 :: c2 :: _ => (c1 =? 58) && (c2 =? 58) | _ => false end in
  let s1 := if lead then skipn 2 s else s in
  let ell0 := if lead then Some O else None in
  if lead && is_nil s1 then Some (repeat 0 16) else
  match ip6_parse_go 9 s1 ell0 [] with
  | None => None
  | Some (acc, ell) =>
    if (length acc <? 16)%nat then
      match ell with
      | None => None
      | Some e => Some (firstn e acc ++ repeat 0 (16 - length acc) ++ skipn e acc)
      end
    else match ell with Some _ => None | None => Some acc end
  end.
(* netip.ParseAddr dispatches on the first of '.', ':', '%'; the result in 16-octet form *)
Fixpoint first_sep (s : bytes) : N :=
  match s with [] => 0 | c :: r => if (c =? 46) || (c =? 58) || (c =? 37) then c else first_sep r end.
Definition parse_ip (s : bytes) : option bytes :=
  let c := first_sep s in
  if c =? 46 then match parse_ip4 s with Some q => Some (v4mapped q) | None => None end
  else if c =? 58 then parse_ip6 s
  else None.
(* AAAA.parse: net.ParseIP and a colon in the token *)
Definition parse_aaaa (s : bytes) : option bytes :=
  match parse_ip s with Some a => if existsb (N.eqb 58) s then Some a else None | None => None end.

(* IPSECKEY / AMTRELAY: what String() prints for the gateway; scan_rr.go parseAddrHostUnion *)
Definition gateway_text (k : N) (addr host : bytes) : bytes :=
  if (k =? 1) || (k =? 2) then ip_string addr else if k =? 3 then host else [46].
Definition parse_gateway (text : bytes) (k : N) : res (bytes * bytes) :=
  if k =? 0 then (if bytes_eqb text [46] then Ok ([], []) else Err "gateway")
  else if (k =? 1) || (k =? 2) then
    match parse_ip text with
    | None => Err "gateway"
    | Some a => if Bool.eqb (negb (is_v4mapped a)) (k =? 1) then Err "gateway" else Ok (a, [])
    end
  else if k =? 3 then match to_absolute_name text with Some n => Ok ([], n) | None => Err "gateway" end
  else Ok ([], []).

(* one field, without the blank that precedes it *)
Definition present_field (f : pfield) (v : pval) : bytes :=
  match f, v with
  | P_uint _, V_int n => dec_bytes n
  | P_u32ttl, V_int n => dec_bytes n
  | P_name, V_name s => sprint_name s
  | P_ip4, V_ip4 a => present_ip4 a
  | P_qstrs, V_strs l => sprint_txt l
  | P_octet, V_octet s => sprint_txt_octet s
  | P_hex up, V_word h => if up then upper_bytes h else h
  | P_b64, V_word w => w
  | P_types, V_types l => join_bytes [32] (map show_type l)
  | P_word _, V_word s => s
  | P_rawname, V_name s => s
  | P_qstr, V_word s => [34] ++ s ++ [34]
  | P_hinfo, V_strs l => sprint_txt l
  | P_uinfo, V_octet s => sprint_txt [s]
  | P_salt _, V_sized _ h => if is_nil h then [45] else upper_bytes h
  | P_b32, V_sized _ w => w
  | P_hexsplit, V_word h => join_bytes [32] (split_n h 1024)
  | P_mnem m _, V_int n => show_mnem m n
  | P_algnum, V_int n => dec_bytes n
  | P_type, V_int t => show_type t
  | P_time, V_time now t => time_to_string now t
  | P_eui k, V_int n => eui_to_string k n
  | P_nodeid up, V_int n => nodeid_to_string up n
  | P_float, V_word s => s
  | P_hit, V_sized _ h => h
  | P_pk, V_sized _ w => w
  | P_names, V_strs l => join_bytes [32] (map sprint_name l)
  | P_ip6, V_ip4 a => present_aaaa a
  | P_ipsecgw, V_gw gt alg addr host => dec_bytes gt ++ [32] ++ dec_bytes alg ++ [32] ++ gateway_text gt addr host
  | P_amtgw, V_gw gt _ addr host =>
    (if 128 <=? gt then [49] else [48]) ++ [32] ++ dec_bytes (gt mod 128) ++ [32] ++ gateway_text (gt mod 128) addr host
  | _, _ => []
  end.

(* fields are joined by one blank; an empty type list prints no blank *)
Fixpoint present_fields_go (first : bool) (G : list pfield) (vs : list pval) : bytes :=
  match G, vs with
  | f :: G', v :: vs' =>
    let sep := if first then []
               else match f, v with P_types, V_types [] => [] | P_names, V_strs [] => [] | _, _ => [32] end in
    sep ++ present_field f v ++ present_fields_go false G' vs'
  | _, _ => []
  end.
Definition present_fields (G : list pfield) (vs : list pval) : bytes := present_fields_go true G vs.

(* the type list of NSEC / CSYNC: mnemonic (any case) or typeToInt of the token *)
Fixpoint parse_types_go (ts : list tok) (acc : list N) : res (list N) :=
  match ts with
  | [] => Ok acc
  | t :: r =>
    match t with
    | TNewline => Ok acc
    | TBlank => parse_types_go r acc
    | TStr s =>
      match string_to_type (upper_bytes s) with
      | Some k => parse_types_go r (acc ++ [k])
      | None => match type_to_int s with
                | Some k => parse_types_go r (acc ++ [k])
                | None => Err "bitmap"
                end
      end
    | _ => Err "bitmap"
    end
  end.

(* HIP rendezvous servers: every zString through toAbsoluteName, blanks skipped *)
Fixpoint parse_names_go (ts : list tok) (acc : list bytes) : res (list bytes) :=
  match ts with
  | [] => Ok acc
  | t :: r =>
    match t with
    | TNewline => Ok acc
    | TBlank => parse_names_go r acc
    | TStr s =>
      match to_absolute_name s with
      | Some n => parse_names_go r (acc ++ [n])
      | None => Err "names"
      end
    | _ => Err "names"
    end
  end.

(* encoding/base64 StdEncoding.DecodeString (padded, not strict): CR and LF are
   skipped anywhere; quanta of four alphabet characters; the last quantum may
   end in one or two '='; nothing may follow the padding.  The number of
   octets decoded, None when DecodeString reports an error. *)
Definition b64_char (c : N) : bool :=
  ((65 <=? c) && (c <=? 90)) || ((97 <=? c) && (c <=? 122)) || is_digit c || (c =? 43) || (c =? 47).
Fixpoint b64_len_go (s : bytes) (acc : N) : option N :=
  match s with
  | [] => Some acc
  | a :: b :: c :: d :: r =>
    if negb (b64_char a && b64_char b) then None
    else if b64_char c && b64_char d then b64_len_go r (acc + 3)
    else if negb (is_nil r) then None
    else if c =? 61 then (if d =? 61 then Some (acc + 1) else None)
    else if b64_char c && (d =? 61) then Some (acc + 2)
    else None
  | _ => None
  end.
Definition b64_declen (s : bytes) : option N :=
  b64_len_go (filter (fun c => negb ((c =? 13) || (c =? 10))) s) 0.

Definition tok_text (t : tok) : bytes :=
  match t with
  | TStr s | TOwner s | TRrtype _ s | TClass _ s => s
  | TBlank => [32]
  | TQuote => [34]
  | TNewline => [10]
  | _ => []
  end.

(* HINFO.parse / ISDN.parse after endingToTxtSlice.  strings.Fields is
   modelled for ASCII; a lone chunk with other octets is outside the model. *)
Definition hinfo_chunks (l : list bytes) : res (list bytes) :=
  match l with
  | [] => Ok [[]; []]
  | [c] =>
    if forallb (fun b => b <? 128) c then
      match fields_go c [] with
      | a :: b :: r => Ok [a; join_bytes [32] (b :: r)]
      | _ => Ok [c; []]
      end
    else OutOfFuel
  | a :: rest => Ok [a; join_bytes [32] rest]
  end.

(* Go reads "the next token" for a simple field whatever its kind and looks
   at its text only (a few parsers also look at the kind); at the end of the
   input the lexer keeps delivering zEOF, whose text is empty.  NAPTR reads
   its quoted strings token by token. *)
Definition next_text (ts : list tok) : res (bytes * list tok) :=
  match ts with [] => Ok ([], []) | t :: r => if is_err t then Err "lex" else Ok (tok_text t, r) end.
(* three tokens with the tokens between them dropped unseen: c.Next() // zBlank *)
Definition read_gw (amt : bool) (ts : list tok) : res (pval * list tok) :=
  do p1 <- next_text ts; let '(t1, r1) := p1 in
  do p2 <- next_text (tl r1); let '(t2, r2) := p2 in
  if amt then
    if negb (bytes_eqb t1 [48] || bytes_eqb t1 [49]) then Err "discovery" else
    match parse_uint t2 8 with
    | None => Err "int"
    | Some n =>
      (* GatewayType = 0x80 | n, written without bit operations *)
      let gt := if bytes_eqb t1 [49] && (n <? 128) then n + 128 else n in
      do p3 <- next_text (tl r2); let '(t3, r3) := p3 in
      do g <- parse_gateway t3 (gt mod 128); Ok (V_gw gt 0 (fst g) (snd g), r3)
    end
  else
    match parse_uint t1 8 with
    | None => Err "int"
    | Some gt =>
      match parse_uint t2 8 with
      | None => Err "int"
      | Some alg =>
        do p3 <- next_text (tl r2); let '(t3, r3) := p3 in
        do g <- parse_gateway t3 gt; Ok (V_gw gt alg (fst g) (snd g), r3)
      end
    end.

Definition read_single (f : pfield) (ts : list tok) : res (pval * list tok) :=
  match f with
  | P_ipsecgw => read_gw false ts
  | P_amtgw => read_gw true ts
  | P_qstr =>
    match ts with
    | TQuote :: TStr s :: TQuote :: r => Ok (V_word s, r)
    | TQuote :: TQuote :: r => Ok (V_word [], r)
    | _ => Err "qstr"
    end
  | _ =>
    let '(t, r) := match ts with [] => (None, []) | t :: r => (Some t, r) end in
    if match t with Some t => is_err t | None => false end then Err "lex" else
    let text := match t with Some t => tok_text t | None => [] end in
    let is_str := match t with Some (TStr _) => true | _ => false end in
    do v <- match f with
            | P_uint bits => match parse_uint text bits with Some n => Ok (V_int n) | None => Err "int" end
            | P_u32ttl => match parse_uint text 32 with
                          | Some n => Ok (V_int n)
                          | None => match string_to_ttl text with Some n => Ok (V_int n) | None => Err "int" end
                          end
            | P_name | P_rawname => match to_absolute_name text with Some n => Ok (V_name n) | None => Err "name" end
            | P_ip4 => match parse_ip4 text with Some a => Ok (V_ip4 a) | None => Err "ip" end
            | P_word strict => if strict && negb is_str then Err "word" else Ok (V_word text)
            | P_salt strict =>
              if strict && is_nil text then Err "salt"
              else if bytes_eqb text [45] then Ok (V_sized 0 [])
              else Ok (V_sized ((lenN text / 2) mod 256) text)
            | P_b32 => if is_nil text then Err "b32" else Ok (V_sized 20 text)
            | P_mnem m bits =>
              match lookup_name (mtab m) text with
              | Some n => Ok (V_int n)
              | None => match parse_uint text bits with Some n => Ok (V_int n) | None => Err "mnem" end
              end
            | P_algnum =>
              match parse_uint text 8 with
              | Some n => Ok (V_int n)
              | None => match lookup_name alg_table text with Some n => Ok (V_int n) | None => Err "alg" end
              end
            | P_type =>
              let up := upper_bytes text in
              match string_to_type up with
              | Some t => Ok (V_int t)
              | None => if has_prefix b_TYPE up
                        then match type_to_int text with Some t => Ok (V_int t) | None => Err "type" end
                        else Err "type"
              end
            | P_eui k => match parse_eui k text with Some n => Ok (V_int n) | None => Err "eui" end
            | P_nodeid _ => match parse_nodeid text with Some n => Ok (V_int n) | None => Err "nodeid" end
            | P_float => if float_simple text then Ok (V_word text)
                         else if is_nil text then Err "float" else OutOfFuel
            | P_time =>
              match string_to_time text with
              | Some t => Ok (V_int t)
              | None => match parse_uint text 32 with Some t => Ok (V_int t) | None => Err "time" end
              end
            | P_ip6 => match parse_aaaa text with Some a => Ok (V_ip4 a) | None => Err "ip6" end
            | P_hit => if is_nil text then Err "hit" else Ok (V_sized ((lenN text / 2) mod 256) text)
            | P_pk => if is_nil text then Err "pk"
                      else match b64_declen text with
                           | Some n => Ok (V_sized (n mod 65536) text)
                           | None => Err "pk"
                           end
            | _ => Err "field"
            end;
    Ok (v, r)
  end.

Fixpoint parse_fields (G : list pfield) (ts : list tok) : res (list pval) :=
  match G with
  | [] => do _ <- slurp_remainder ts; Ok []
  | f :: G' =>
    match f with
    | P_qstrs => do l <- ending_to_txt_slice ts; Ok [V_strs l]
    | P_octet =>
      do l <- ending_to_txt_slice ts;
      match l with [s] => Ok [V_octet s] | _ => Err "octet" end
    | P_hex _ | P_b64 | P_hexsplit => do w <- ending_to_string ts; Ok [V_word w]
    | P_types => do l <- parse_types_go ts []; Ok [V_types l]
    | P_names => do l <- parse_names_go ts []; Ok [V_strs l]
    | P_hinfo => do l <- ending_to_txt_slice ts; do c <- hinfo_chunks l; Ok [V_strs c]
    | P_uinfo => do l <- ending_to_txt_slice ts; Ok [V_octet (match l with [] => [] | s :: _ => s end)]
    | _ =>
      do p <- read_single f ts;
      let '(v, r) := p in
      (* a following field: simple fields skip the blank; rest fields read on *)
      let r' := match G' with
                | [] => r
                | g :: _ => if is_rest g then (match g with P_octet => tl r | _ => r end) else tl r
                end in
      do vs <- parse_fields G' r';
      Ok (v :: vs)
    end
  end.

(* what the text denotes on the wire, field by field *)
Inductive mval :=
| M_int (n : N) | M_name (u : list (N * bool)) | M_ip4 (a : bytes)
| M_strs (l : list bytes) | M_octets (w : bytes) | M_types (l : list N)
| M_names (l : list (list (N * bool)))
| M_gw (gt alg : N) (addr : bytes) (host : list (N * bool)).
Definition meaning (f : pfield) (v : pval) : option mval :=
  match f, v with
  | P_uint _, V_int n => Some (M_int n)
  | P_u32ttl, V_int n => Some (M_int n)
  | P_name, V_name s => Some (M_name (name_units s))
  | P_ip4, V_ip4 a => Some (M_ip4 a)
  | P_qstrs, V_strs l => Some (M_strs (map unescape l))
  | P_octet, V_octet s => Some (M_octets (unescape s))
  | P_hex _, V_word h => Some (M_octets (unhex (string_of_bytes h)))
  | P_b64, V_word w => Some (M_octets w)
  | P_types, V_types l => Some (M_types l)
  | P_word _, V_word s => Some (M_octets (unescape s))
  | P_qstr, V_word s => Some (M_octets (unescape s))
  | P_rawname, V_name s => Some (M_name (name_units s))
  | P_hinfo, V_strs l => Some (M_strs (map unescape l))
  | P_uinfo, V_octet s => Some (M_octets (unescape s))
  | P_salt _, V_sized _ h => Some (M_octets (unhex (string_of_bytes h)))
  | P_b32, V_sized _ w => Some (M_octets w)
  | P_hexsplit, V_word h => Some (M_octets (unhex (string_of_bytes h)))
  | P_mnem _ _, V_int n | P_algnum, V_int n | P_type, V_int n | P_time, V_int n
  | P_eui _, V_int n | P_nodeid _, V_int n => Some (M_int n)
  | P_float, V_word s => Some (M_octets (unescape s))
  | P_time, V_time _ t => Some (M_int t)
  | P_hit, V_sized _ h => Some (M_octets (unhex (string_of_bytes h)))
  | P_pk, V_sized _ w => Some (M_octets w)
  | P_names, V_strs l => Some (M_names (map name_units l))
  | P_ip6, V_ip4 a => Some (M_ip4 a)
  (* the member of the gateway union that the type selects goes to the wire *)
  | P_ipsecgw, V_gw gt alg addr host =>
    Some (M_gw gt alg (if (gt =? 1) || (gt =? 2) then addr else []) (name_units (if gt =? 3 then host else [])))
  | P_amtgw, V_gw gt _ addr host =>
    let k := gt mod 128 in
    Some (M_gw gt 0 (if (k =? 1) || (k =? 2) then addr else []) (name_units (if k =? 3 then host else [])))
  | _, _ => None
  end.

(* the layouts of the regular types (types.go String() / scan_rr.go parse()) *)
Definition playout (t : N) : option (list pfield) :=
  let one_name := [2; 3; 4; 5; 7; 8; 9; 12; 23; 39] in
  let two_names := [14; 17; 58] in
  let u16_name := [15; 18; 21; 36; 107] in
  let ds_like := [43; 59; 32769; 32768] in
  let key_like := [48; 25; 60; 57] in
  let txt_like := [16; 99; 258; 56; 261] in
  let mem := fun l => existsb (N.eqb t) l in
  if mem one_name then Some [P_name]
  else if mem two_names then Some [P_name; P_name]
  else if mem u16_name then Some [P_uint 16; P_name]
  else if t =? 26 then Some [P_uint 16; P_name; P_name]
  else if t =? 33 then Some [P_uint 16; P_uint 16; P_uint 16; P_name]
  else if t =? 6 then Some [P_name; P_name; P_uint 32; P_u32ttl; P_u32ttl; P_u32ttl; P_u32ttl]
  else if (t =? 101) || (t =? 102) then Some [P_uint 32]
  else if mem ds_like then Some [P_uint 16; P_uint 8; P_uint 8; P_hex true]
  else if t =? 44 then Some [P_uint 8; P_uint 8; P_hex true]
  else if t =? 52 then Some [P_uint 8; P_uint 8; P_uint 8; P_hex false]
  else if t =? 63 then Some [P_uint 32; P_uint 8; P_uint 8; P_hex false]
  else if (t =? 31) || (t =? 32) then Some [P_hex true]
  else if mem key_like then Some [P_uint 16; P_uint 8; P_uint 8; P_b64]
  else if (t =? 49) || (t =? 61) then Some [P_b64]
  else if mem txt_like then Some [P_qstrs]
  else if t =? 256 then Some [P_uint 16; P_uint 16; P_octet]
  else if t =? 1 then Some [P_ip4]
  else if t =? 105 then Some [P_uint 16; P_ip4]
  else if (t =? 47) || (t =? 30) then Some [P_name; P_types]
  else if t =? 62 then Some [P_uint 32; P_uint 16; P_types]
  (* the irregular types (B05) *)
  else if (t =? 13) || (t =? 20) then Some [P_hinfo]
  else if t =? 100 then Some [P_uinfo]
  else if t =? 19 then Some [P_word false]
  else if t =? 257 then Some [P_uint 8; P_word true; P_octet]
  else if t =? 35 then Some [P_uint 16; P_uint 16; P_qstr; P_qstr; P_qstr; P_rawname]
  else if t =? 53 then Some [P_uint 8; P_uint 8; P_uint 8; P_hexsplit]
  else if t =? 51 then Some [P_uint 8; P_uint 8; P_uint 16; P_salt false]
  else if t =? 50 then Some [P_uint 8; P_uint 8; P_uint 16; P_salt true; P_b32; P_types]
  else if t =? 37 then Some [P_mnem MCert 16; P_uint 16; P_mnem MAlg 8; P_b64]
  else if t =? 27 then Some [P_float; P_float; P_float]
  else if t =? 108 then Some [P_eui 6]
  else if t =? 109 then Some [P_eui 8]
  else if t =? 104 then Some [P_uint 16; P_nodeid false]
  else if t =? 106 then Some [P_uint 16; P_nodeid true]
  else if (t =? 46) || (t =? 24)
  then Some [P_type; P_algnum; P_uint 8; P_uint 32; P_time; P_time; P_uint 16; P_name; P_b64]
  (* B05b *)
  else if t =? 55 then Some [P_uint 8; P_hit; P_pk; P_names]
  else if t =? 45 then Some [P_uint 8; P_ipsecgw; P_b64]
  else if t =? 260 then Some [P_uint 8; P_amtgw]
  else if t =? 28 then Some [P_ip6]
  else None.

(* ------------------------------------------------------------------ *)
(* 8. RFC 3597 generic RDATA                                           *)
(* ------------------------------------------------------------------ *)

Definition b_generic : bytes := [92; 35].   (* backslash hash *)
(* RFC3597.String: the RDATA part *)
Definition present_3597 (w : bytes) : bytes :=
  b_generic ++ [32] ++ dec_bytes (lenN w) ++ [32] ++ hex_bytes w.
(* RFC3597.parse (the hex text is kept; fromRFC3597 / pack decode it) *)
Definition parse_3597 (ts : list tok) : res bytes :=
  match ts with
  | t :: r =>
    if negb (bytes_eqb (tok_text t) b_generic) then Err "rfc3597" else
    match tl r with
    | [] => Err "rfc3597"
    | t2 :: r2 =>
      if is_err t2 then Err "rfc3597" else
      match parse_uint (tok_text t2) 16 with
      | None => Err "rfc3597"
      | Some n =>
        do s <- ending_to_string r2;
        if (N.to_nat n * 2 =? length s)%nat then Ok s else Err "rfc3597"
      end
    end
  | [] => Err "rfc3597"
  end.

(* ------------------------------------------------------------------ *)
(* 9. a whole record line, as NewRR reads it                           *)
(* ------------------------------------------------------------------ *)

Inductive rdata :=
| R_none                          (* no RDATA: dynamic update *)
| R_fields (vs : list pval)       (* a regular type read by its own parse() *)
| R_generic (hex_text : bytes)    (* \# form: the RDATA octets as hex text *)
| R_unmodelled.                   (* an irregular type read natively *)

Definition peek_text (ts : list tok) : bytes := match ts with t :: _ => tok_text t | [] => [] end.

(* zExpectRdata: l is the token after the type (normally the blank), Peek is
   the one after it.  The lexer delivers nothing after TNewline here, so an
   empty remainder is zEOF whose token text is empty. *)
(* NewRR appends the closing newline when it is missing *)
Definition with_newline (s : bytes) : bytes :=
  match s with
  | [] => []
  | _ => if last s 0 =? 10 then s else s ++ [10]
  end.
Definition parse_rr (s : bytes) : res (hdr * rdata) :=
  do p <- parse_hdr (lex_line (with_newline s));
  let '(h, ts) := p in
  match ts with
  | [] => Err "eof"
  | l :: rest =>
    if is_err l || match rest with t :: _ => is_err t | [] => false end then Err "lex" else
    let generic := bytes_eqb (peek_text rest) b_generic in
    if is_nil (peek_text rest) then
      (* dynamic update: Peek returned zEOF *)
      do _ <- slurp_remainder rest; Ok (h, R_none)
    else match l with
    | TNewline => Err "newline"
    | _ =>
      if generic then do w <- parse_3597 rest; Ok (h, R_generic w)
      else if negb (is_registered (h_type h)) then Err "rfc3597"  (* RFC3597.parse demands the generic form *)
      else match playout (h_type h) with
           | Some G => do vs <- parse_fields G rest; Ok (h, R_fields vs)
           | None => Ok (h, R_unmodelled)
           end
    end
  end.

Definition present_rr (h : hdr) (G : list pfield) (vs : list pval) : bytes :=
  present_hdr h ++ present_fields G vs.
Definition present_rr_3597 (h : hdr) (w : bytes) : bytes :=
  present_hdr_3597 h ++ present_3597 w.

(* ------------------------------------------------------------------ *)
(* 10. the shape of printed RDATA: words and quoted strings            *)
(* ------------------------------------------------------------------ *)

(* A word the lexer delivers as one zString when it stands between blanks
   outside quotes: no unescaped blank, tab, quote, semicolon, parenthesis, CR
   or LF, no escaped CR or LF, no dangling backslash.  The result is the blank
   suppression flag afterwards (only an ordinary character resets it). *)
Definition word_special (x : N) : bool :=
  (x =? 32) || (x =? 9) || (x =? 59) || (x =? 13) || (x =? 10) || (x =? 34) || (x =? 40) || (x =? 41).
Fixpoint wscan (esc sp : bool) (s : bytes) : option bool :=
  match s with
  | [] => if esc then None else Some sp
  | x :: r =>
    if esc then
      if (x =? 13) || (x =? 10) then None
      else if word_special x || (x =? 92) then wscan false sp r
      else wscan false false r
    else if word_special x then None
    else if x =? 92 then wscan true sp r
    else wscan false false r
  end.
Definition word_ok (w : bytes) : bool :=
  match wscan false true w with Some false => true | _ => false end.

(* the inside of a quoted string: every double quote escaped, no dangling backslash *)
Fixpoint qbody_ok (esc : bool) (s : bytes) : bool :=
  match s with
  | [] => negb esc
  | x :: r =>
    if esc then qbody_ok false r
    else if x =? 92 then qbody_ok true r
    else if x =? 34 then false
    else qbody_ok false r
  end.

Inductive item := IWord (w : bytes) | IQuoted (q : bytes).
Definition item_ok (i : item) : bool :=
  match i with IWord w => word_ok w | IQuoted q => qbody_ok false q end.
Definition render_item (i : item) : bytes :=
  match i with IWord w => w | IQuoted q => 34 :: q ++ [34] end.
Definition item_toks (i : item) : list tok :=
  match i with
  | IWord w => [TStr w]
  | IQuoted q => TQuote :: (if is_nil q then [] else [TStr q]) ++ [TQuote]
  end.
(* items separated by one blank *)
Fixpoint render_items (l : list item) : bytes :=
  match l with
  | [] => []
  | i :: r => match r with [] => render_item i | _ => render_item i ++ 32 :: render_items r end
  end.
Fixpoint items_toks (l : list item) : list tok :=
  match l with
  | [] => []
  | i :: r => match r with [] => item_toks i | _ => item_toks i ++ TBlank :: items_toks r end
  end.
