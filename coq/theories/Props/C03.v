(* Props/C03.v — property C03: domain names, text and wire forms correspond;
   63/255-octet limits enforced.  Only statements; proofs in Proofs/.

   Vocabulary.  [ls : list label] is a wire name (labels without the root);
   [valid_wire ls] = every label has 1..63 octets (each < 256) and the wire form
   incl. the root octet is at most 255 octets.  [wire_name ls] is the
   uncompressed wire form, [show_name ls] the presentation text
   UnpackDomainName prints.  [parse_name s] (Spec/NameSpec.v) is what a
   fully-qualified text denotes, read left to right: an unescaped dot ends a
   label, \DDD and \c are single octets.  [pack_name_plain s cap] models
   PackDomainName(s, make([]byte, cap), 0, nil, false); [unpack_name msg off]
   models UnpackDomainName; [is_domain_name] models IsDomainName. *)
From Dns Require Import Model.NameWire Spec.NameSpec
  Proofs.NameWireProofs Proofs.NameRoundtripProofs Gen.Consts.
Open Scope N_scope.

(* wire -> text: every valid wire name unpacks to its presentation form,
   consuming exactly the name (whatever follows it in the message) *)
Theorem wire_name_unpacks_to_presentation :
  forall (ls : list label) (post : bytes),
    valid_wire ls = true ->
    unpack_name (wire_name ls ++ post) 0 = Ok (show_name ls, wire_len ls).
Proof. exact unpack_wire_name. Qed.

(* ... and that text packs back to the identical octets *)
Theorem presentation_packs_back_to_identical_octets :
  forall (ls : list label) (cap : N),
    valid_wire ls = true -> 320 <= cap ->
    pack_name_plain (show_name ls) cap = Ok (wire_name ls).
Proof. exact pack_show_name. Qed.

(* the escaping is unambiguous for all octet values in every position *)
Theorem escaping_is_unambiguous :
  forall a b : list label,
    valid_wire a = true -> valid_wire b = true -> show_name a = show_name b -> a = b.
Proof. exact show_name_injective. Qed.

Theorem presentation_denotes_its_labels :
  forall ls : list label, valid_wire ls = true -> parse_name (show_name ls) = Some ls.
Proof. exact parse_show_name. Qed.

(* a fully-qualified name is judged valid by IsDomainName exactly when it has no
   empty label and respects the 63/255 limits ... *)
Theorem is_domain_name_iff_no_empty_label_and_limits :
  forall (s : bytes) (ls : list label),
    is_fqdn s = true -> parse_name s = Some ls ->
    snd (is_domain_name s) = name_len_ok ls.
Proof. exact is_domain_name_iff_limits. Qed.

(* ... and that is exactly when PackDomainName accepts it (given room), in which
   case it emits the wire form of the denoted labels *)
Theorem pack_accepts_iff_limits :
  forall (s : bytes) (ls : list label) (cap : N),
    is_fqdn s = true -> parse_name s = Some ls -> 320 <= cap ->
    (name_len_ok ls = true -> pack_name_plain s cap = Ok (wire_name ls)) /\
    (name_len_ok ls = false -> exists e, pack_name_plain s cap = Err e).
Proof. exact pack_name_plain_spec. Qed.

(* every fully-qualified text denotes some label sequence (so the two theorems
   above apply to every FQDN text) *)
Theorem every_fqdn_text_denotes_labels :
  forall s : bytes, is_fqdn s = true -> exists ls, parse_name s = Some ls.
Proof. exact fqdn_parses. Qed.

(* the library never emits a name it would itself reject *)
Theorem packed_name_is_accepted_by_unpacker :
  forall (s : bytes) (cap : N) (w : bytes),
    is_fqdn s = true -> wfb s -> 320 <= cap -> pack_name_plain s cap = Ok w ->
    exists ls, parse_name s = Some ls /\ valid_wire ls = true /\ w = wire_name ls /\
               unpack_name w 0 = Ok (show_name ls, lenN w).
Proof. exact packed_name_unpacks. Qed.

(* names that are not fully qualified are refused by the packer *)
Theorem nonfqdn_refused :
  forall s cap compress st, s <> [] -> is_fqdn s = false -> pack_name s cap compress st = Err "fqdn".
Proof. intros s cap compress st Hs Hf. unfold pack_name. destruct s; [congruence|]. now rewrite Hf. Qed.

(* the limits of the model are the constants of the current source (Gen/Consts.v is
   regenerated from msg.go on every run): a changed limit breaks this obligation *)
Theorem name_limits_are_the_source_constants :
  max_name_wire = Gen.Consts.c_maxDomainNameWireOctets /\
  max_compression_offset = Gen.Consts.c_maxCompressionOffset /\
  max_pointers = Gen.Consts.c_maxCompressionPointers.
Proof. repeat split; reflexivity. Qed.
