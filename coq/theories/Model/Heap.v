(* Model/Heap.v — mutable memory reachable from a Go value, and what the copy()
   methods do to it.

   A value is a tree.  [HCell id es] is one piece of mutable memory with identity
   [id]: the backing array of a slice (elements [es]) or the struct behind a
   pointer (fields [es]).  Strings and integers are immutable leaves.  An
   interface value carries the name of its dynamic type.

   A copy procedure [cproc] says, level by level, what copy() does: keep the
   value as it is (a slice header copy shares the backing array), allocate a new
   cell and copy the elements with a further procedure, go field by field, or
   call the dynamic type's own copy().

   In the result of [apply], cells allocated by the copy carry [inr tt], cells
   taken over from the original carry [inl id].  "The copy shares no mutable
   memory with the original" = no [inl] occurs.  Definitions only. *)
From Dns Require Export Model.Tables.
From Dns Require Import Gen.Copies Gen.Structs.
Open Scope N_scope.

Inductive hval (A : Type) :=
| HLeaf
| HCell (id : A) (elems : list (hval A))
| HStruct (fields : list (hval A))
| HDyn (tag : string) (v : hval A).
Arguments HLeaf {A}.
Arguments HCell {A} id elems.
Arguments HStruct {A} fields.
Arguments HDyn {A} tag v.

Fixpoint ids {A} (v : hval A) : list A :=
  match v with
  | HLeaf => []
  | HCell id es => id :: flat_map ids es
  | HStruct fs => flat_map ids fs
  | HDyn _ x => ids x
  end.

Inductive cproc :=
| P_share                        (* copied as is *)
| P_fresh (elem : cproc)         (* new cell, every element copied with elem (cloneSlice, make+loop) *)
| P_new (fields : list cproc)    (* new struct behind a pointer, field by field (&T{...}) *)
| P_struct (fields : list cproc) (* struct by value, field by field *)
| P_dyn.                         (* e.copy() through the interface *)

Fixpoint keep {A} (v : hval A) : hval (A + unit) :=
  match v with
  | HLeaf => HLeaf
  | HCell id es => HCell (inl id) (map keep es)
  | HStruct fs => HStruct (map keep fs)
  | HDyn t x => HDyn t (keep x)
  end.

Section Apply.
  Context {A : Type}.
  (* the copy procedure of each dynamic type (EDNS0 options, SVCB parameters): these do not
     contain further interface values *)
  Variable env : string -> cproc.

  (* without dynamic dispatch *)
  Fixpoint apply_nd (p : cproc) (v : hval A) : hval (A + unit) :=
    match p, v with
    | P_fresh pe, HCell _ es => HCell (inr tt) (map (apply_nd pe) es)
    | P_new ps, HCell _ fs =>
      HCell (inr tt)
            ((fix go (ps : list cproc) (fs : list (hval A)) : list (hval (A + unit)) :=
                match ps, fs with
                | p :: ps', f :: fs' => apply_nd p f :: go ps' fs'
                | _, _ => map keep fs
                end) ps fs)
    | P_struct ps, HStruct fs =>
      HStruct
            ((fix go (ps : list cproc) (fs : list (hval A)) : list (hval (A + unit)) :=
                match ps, fs with
                | p :: ps', f :: fs' => apply_nd p f :: go ps' fs'
                | _, _ => map keep fs
                end) ps fs)
    | _, _ => keep v
    end.

  Fixpoint apply (p : cproc) (v : hval A) : hval (A + unit) :=
    match p, v with
    | P_dyn, HDyn t x => HDyn t (apply_nd (env t) x)
    | P_fresh pe, HCell _ es => HCell (inr tt) (map (apply pe) es)
    | P_new ps, HCell _ fs =>
      HCell (inr tt)
            ((fix go (ps : list cproc) (fs : list (hval A)) : list (hval (A + unit)) :=
                match ps, fs with
                | p :: ps', f :: fs' => apply p f :: go ps' fs'
                | _, _ => map keep fs
                end) ps fs)
    | P_struct ps, HStruct fs =>
      HStruct
            ((fix go (ps : list cproc) (fs : list (hval A)) : list (hval (A + unit)) :=
                match ps, fs with
                | p :: ps', f :: fs' => apply p f :: go ps' fs'
                | _, _ => map keep fs
                end) ps fs)
    | _, _ => keep v
    end.
End Apply.

(* ---- shapes: where a value of a given Go type has mutable memory ---- *)
Inductive mshape :=
| M0                               (* immutable *)
| MSlice (elem : mshape)
| MPtr (fields : list mshape)
| MStruct (fields : list mshape)
| MDyn.

(* does the procedure reach every piece of mutable memory of a value of this shape? *)
Fixpoint deep_nd (p : cproc) (s : mshape) {struct s} : bool :=
  match p, s with
  | P_share, M0 => true
  | P_share, MStruct ss => forallb (deep_nd P_share) ss
  | P_fresh pe, MSlice e => deep_nd pe e
  | P_new ps, MPtr ss =>
    (fix go (ss : list mshape) (ps : list cproc) {struct ss} : bool :=
       match ss, ps with
       | [], [] => true
       | s :: ss', p :: ps' => deep_nd p s && go ss' ps'
       | _, _ => false
       end) ss ps
  | P_struct ps, MStruct ss =>
    (fix go (ss : list mshape) (ps : list cproc) {struct ss} : bool :=
       match ss, ps with
       | [], [] => true
       | s :: ss', p :: ps' => deep_nd p s && go ss' ps'
       | _, _ => false
       end) ss ps
  | _, _ => false
  end.
Fixpoint deep (p : cproc) (s : mshape) {struct s} : bool :=
  match p, s with
  | P_dyn, MDyn => true             (* the dynamic types are checked one by one *)
  | P_share, M0 => true
  | P_share, MStruct ss => forallb (deep P_share) ss
  | P_fresh pe, MSlice e => deep pe e
  | P_new ps, MPtr ss =>
    (fix go (ss : list mshape) (ps : list cproc) {struct ss} : bool :=
       match ss, ps with
       | [], [] => true
       | s :: ss', p :: ps' => deep p s && go ss' ps'
       | _, _ => false
       end) ss ps
  | P_struct ps, MStruct ss =>
    (fix go (ss : list mshape) (ps : list cproc) {struct ss} : bool :=
       match ss, ps with
       | [], [] => true
       | s :: ss', p :: ps' => deep p s && go ss' ps'
       | _, _ => false
       end) ss ps
  | _, _ => false
  end.

(* ---- from the translated tables (Gen/Copies.v, Gen/Structs.v) to procedures and shapes ---- *)
Fixpoint find_copy (l : list tcopy) (k : string) : option (list (string * caction)) :=
  match l with [] => None | t :: r => if String.eqb (cp_name t) k then Some (cp_fields t) else find_copy r k end.
Fixpoint find_fields (l : list tstruct) (k : string) : option (list (string * gotype * string)) :=
  match l with [] => None | t :: r => if String.eqb (st_name t) k then Some (st_fields t) else find_fields r k end.

Definition ipnet_shape : mshape := MStruct [MSlice M0; MSlice M0].
Definition aplprefix_shape : mshape := MStruct [M0; ipnet_shape].

Fixpoint shape_of_fields (fuel : nat) (k : string) : list mshape :=
  match fuel with
  | O => []
  | S f =>
    match find_fields structs k with
    | None => []
    | Some fs =>
      map (fun x : string * gotype * string =>
             match snd (fst x) with
             | G_scalar | G_header => M0
             | G_slice_scalar => MSlice M0
             | G_slice_slices => MSlice (MSlice M0)
             | G_slice_iface t => if String.eqb t "APLPrefix" then MSlice aplprefix_shape else MSlice MDyn
             | G_embedded t => MStruct (shape_of_fields f t)
             | G_struct _ => ipnet_shape
             | G_unknown _ => MDyn      (* never deep: forces the table check to fail *)
             end) fs
    end
  end.

Fixpoint procs_of (fuel : nat) (k : string) : option (list cproc) :=
  match fuel with
  | O => None
  | S f =>
    match find_copy copies k with
    | None => None
    | Some acts =>
      let tys := match find_fields structs k with Some fs => fs | None => [] end in
      let ty_of (n : string) : gotype :=
        match find (fun x : string * gotype * string => String.eqb (fst (fst x)) n) tys with
        | Some x => snd (fst x) | None => G_scalar end in
      let one (na : string * caction) : option cproc :=
        match snd na, ty_of (fst na) with
        | C_share, _ => Some P_share
        | C_clone, _ => Some (P_fresh P_share)
        | C_clone_each, _ => Some (P_fresh (P_fresh P_share))
        | C_copy_each, G_slice_iface t =>
          if String.eqb t "APLPrefix"
          then match procs_of f "APLPrefix" with Some ps => Some (P_fresh (P_struct ps)) | None => None end
          else Some (P_fresh P_dyn)
        | C_deep_fn fn, _ => match procs_of f fn with Some ps => Some (P_struct ps) | None => None end
        | C_embedded t, _ => match procs_of f t with Some ps => Some (P_struct ps) | None => None end
        | _, _ => None
        end in
      let ps := map one acts in
      if forallb (fun o : option cproc => match o with Some _ => true | None => false end) ps
      then Some (map (fun o : option cproc => match o with Some p => p | None => P_share end) ps)
      else None
    end
  end.
Definition table_fuel : nat := 5.

(* a record, an EDNS0 option or an SVCB parameter is a pointer to its struct *)
Definition proc_of (k : string) : cproc :=
  match procs_of table_fuel k with Some ps => P_new ps | None => P_share end.
Definition shape_of (k : string) : mshape := MPtr (shape_of_fields table_fuel k).

Definition has_prefix (p s : string) : bool := String.eqb (String.substring 0 (String.length p) s) p.
(* the dynamic types behind []EDNS0 and []SVCBKeyValue *)
Definition is_dyn_type (k : string) : bool :=
  has_prefix "EDNS0_" k || (has_prefix "SVCB" k && negb (String.eqb k "SVCB")).
(* helpers that are not types held behind a pointer, and the user-extensible PrivateRR *)
Definition not_a_pointer_type (k : string) : bool :=
  String.eqb k "copyNet" || String.eqb k "APLPrefix" || String.eqb k "PrivateRR".

Definition in_copies (k : string) : bool := existsb (fun t => String.eqb (cp_name t) k) copies.
(* the copy procedure and shape of the dynamic type t; a name that is not an
   option/parameter type of the tables denotes an empty struct *)
Definition dyn_env (t : string) : cproc := if is_dyn_type t && in_copies t then proc_of t else P_new [].
Definition dyn_shape (t : string) : mshape := if is_dyn_type t && in_copies t then shape_of t else MPtr [].

(* the record / option / parameter types whose copy() the tables describe *)
Definition copy_kinds : list string := filter (fun k => negb (not_a_pointer_type k)) (map cp_name copies).
