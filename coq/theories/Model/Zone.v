(* Model/Zone.v — scan.go ZoneParser (Next with its zExpect* state machine,
   $ORIGIN/$TTL/$INCLUDE/$GENERATE, stringToTTL, toAbsoluteName,
   slurpRemainder), generate.go (generate, generateReader.ReadByte,
   modToPrintf), defaults.go IsDomainName, and the three RDATA parser families
   of scan_rr.go that C06 covers (one domain name, an address, quoted
   character-string lists) plus RFC 3597 generic RDATA.  Definitions only.

   The parser consumes the token stream of Model/Lexer.v.  What a program sees
   from successive calls of ZoneParser.Next followed by Err is modelled as a
   list of events: records in the order returned, files opened, and, last, the
   error Err reports. *)
From Dns Require Export Model.Lexer Model.Labels.
Open Scope N_scope.

(* ---------- defaults.go IsDomainName (only the ok result) ---------- *)
(* lenmsg = maxDomainNameWireOctets - 1: the length octets and labels without the root *)
Definition idn_lenmsg : N := 254.
Fixpoint idn_go (s : bytes) (i : N) (skip : nat) (total off begin : N) (wasDot esc : bool) : bool :=
  match s with
  | [] => negb esc
  | c :: r =>
    match skip with
    | S k => idn_go r (i + 1) k total off begin wasDot esc
    | O =>
      if c =? 92 then
        if idn_lenmsg <? off + 1 then false
        else if is_ddd r then idn_go r (i + 1) 3 total off (begin + 3) false (negb esc)
        else idn_go r (i + 1) 1 total off (begin + 1) false (negb esc)
      else if c =? 46 then
        if (i =? 0) && (1 <? total) then false
        else if wasDot then false
        else
          let ll := i - begin in
          if 64 <=? ll then false
          else
            let off' := off + 1 + ll in
            if idn_lenmsg <? off' then false
            else idn_go r (i + 1) 0 total off' (i + 1) true false
      else idn_go r (i + 1) 0 total off begin false false
    end
  end.
Definition is_domain_name (s : bytes) : bool :=
  match s with
  | [] => false
  | _ => let f := fqdn s in idn_go f 0 0 (lenN f) 0 0 false false
  end.

(* ---------- scan.go toAbsoluteName / appendOrigin ---------- *)
Definition append_origin (name origin : bytes) : bytes :=
  if bytes_eqb origin [46] then name ++ origin else name ++ [46] ++ origin.
Definition to_absolute_name (name origin : bytes) : option bytes :=
  if bytes_eqb name [64] then
    match origin with [] => None | _ => Some origin end
  else if bytes_eqb name [10] then None
  else if negb (is_domain_name name) then None
  else if is_fqdn name then Some name
  else match origin with [] => None | _ => Some (append_origin name origin) end.

(* ---------- scan.go stringToTTL (uint is 64 bits wide and wraps) ---------- *)
Definition two64 : N := 18446744073709551616.
Fixpoint ttl_go (s : bytes) (acc i : N) : option (N * N) :=
  match s with
  | [] => Some (acc, i)
  | c :: r =>
    if (c =? 115) || (c =? 83) then ttl_go r ((acc + i) mod two64) 0
    else if (c =? 109) || (c =? 77) then ttl_go r ((acc + i * 60) mod two64) 0
    else if (c =? 104) || (c =? 72) then ttl_go r ((acc + i * 3600) mod two64) 0
    else if (c =? 100) || (c =? 68) then ttl_go r ((acc + i * 86400) mod two64) 0
    else if (c =? 119) || (c =? 87) then ttl_go r ((acc + i * 604800) mod two64) 0
    else if is_digit c then ttl_go r acc ((i * 10 + (c - 48)) mod two64)
    else None
  end.
Definition string_to_ttl (token : bytes) : option N :=
  match ttl_go token 0 0 with
  | Some (acc, i) => let v := (acc + i) mod two64 in if 4294967295 <? v then None else Some v
  | None => None
  end.

(* ---------- net.ParseIP (netip.ParseAddr) ---------- *)
(* parseIPv4Fields over a whole string: the four fields *)
Fixpoint ip4_go (s : bytes) (first prevdot : bool) (val digLen pos : N) (acc : list N) : option (list N) :=
  match s with
  | [] => if pos <? 3 then None else Some (rev (val :: acc))
  | c :: r =>
    if is_digit c then
      if (digLen =? 1) && (val =? 0) then None
      else
        let v := val * 10 + (c - 48) in
        if 255 <? v then None else ip4_go r false false v (digLen + 1) pos acc
    else if c =? 46 then
      if first || prevdot then None
      else match r with
           | [] => None
           | _ => if pos =? 3 then None else ip4_go r false true 0 0 (pos + 1) (val :: acc)
           end
    else None
  end.
Definition parse_ipv4 (s : bytes) : option (list N) := ip4_go s true false 0 0 0 [].

Definition hexval (c : N) : option N :=
  if is_digit c then Some (c - 48)
  else if (97 <=? c) && (c <=? 102) then Some (c - 87)
  else if (65 <=? c) && (c <=? 70) then Some (c - 55)
  else None.
(* one group of hex digits: (number of digits, value, rest); None when a fifth digit shows up *)
Fixpoint hexgroup (s : bytes) (off acc : N) : option (N * N * bytes) :=
  match s with
  | [] => Some (off, acc, [])
  | c :: r =>
    match hexval c with
    | None => Some (off, acc, s)
    | Some d => if 3 <? off then None else hexgroup r (off + 1) (acc * 16 + d)
    end
  end.
(* the loop of parseIPv6; ip holds the i octets written so far *)
Fixpoint ip6_go (fuel : nat) (s : bytes) (ip : list N) (ell : option N) : option (bytes * list N * option N) :=
  match fuel with
  | O => Some (s, ip, ell)
  | S f =>
    let i := lenN ip in
    if 16 <=? i then Some (s, ip, ell)
    else
      match hexgroup s 0 0 with
      | None => None
      | Some (off, acc, rest) =>
        if off =? 0 then None
        else
          match rest with
          | 46 :: _ =>
            if (match ell with None => true | Some _ => false end) && negb (i =? 12) then None
            else if 16 <? i + 4 then None
            else match parse_ipv4 s with
                 | None => None
                 | Some f4 => Some ([], ip ++ f4, ell)
                 end
          | _ =>
            let ip1 := ip ++ [acc / 256; acc mod 256] in
            match rest with
            | [] => Some ([], ip1, ell)
            | c :: r1 =>
              if negb (c =? 58) then None
              else match r1 with
                   | [] => None
                   | c2 :: r2 =>
                     if c2 =? 58 then
                       match ell with
                       | Some _ => None
                       | None =>
                         match r2 with
                         | [] => Some ([], ip1, Some (lenN ip1))
                         | _ => ip6_go f r2 ip1 (Some (lenN ip1))
                         end
                       end
                     else ip6_go f r1 ip1 ell
                   end
            end
          end
      end
  end.
Definition parse_ipv6 (s : bytes) : option (list N) :=
  if existsb (N.eqb 37) s then None
  else
    let '(s1, ell0, done) :=
      match s with
      | 58 :: 58 :: r => (r, Some 0, match r with [] => true | _ => false end)
      | _ => (s, None, false)
      end in
    if done then Some (repeat 0 16)
    else
      match ip6_go 9 s1 [] ell0 with
      | None => None
      | Some (rest, ip, ell) =>
        match rest with
        | _ :: _ => None
        | [] =>
          let i := lenN ip in
          if i <? 16 then
            match ell with
            | None => None
            | Some e => Some (takeN e ip ++ repeat 0 (N.to_nat (16 - i)) ++ dropN e ip)
            end
          else match ell with Some _ => None | None => Some ip end
        end
      end.
Definition has_colon (s : bytes) : bool := existsb (N.eqb 58) s.
(* ParseAddr dispatches on the first of '.', ':' or '%' *)
Fixpoint first_special (s : bytes) : N :=
  match s with
  | [] => 0
  | c :: r => if (c =? 46) || (c =? 58) || (c =? 37) then c else first_special r
  end.
Definition parse_a (token : bytes) : option (list N) :=
  if has_colon token then None
  else if first_special token =? 46 then parse_ipv4 token else None.
Definition parse_aaaa (token : bytes) : option (list N) :=
  if first_special token =? 58 then parse_ipv6 token else None.

(* ---------- records, errors, events ---------- *)
Record hdr := mkHdr { h_name : bytes; h_type : N; h_class : N; h_ttl : N }.
Inductive rdata :=
| RName (n : bytes)            (* NS, MD, MF, CNAME, MB, MG, MR, PTR, NSAP-PTR, DNAME *)
| RAddr (a : list N)           (* A (4 octets), AAAA (16 octets) *)
| RTxt (l : list bytes)        (* TXT, SPF, AVC, NINFO, RESINFO: the strings as written (escapes kept) *)
| RGen (hexs : bytes)          (* RFC3597 record of an unregistered type: the hex text *)
| REmpty.                      (* no RDATA (dynamic update form) *)
Record rr := mkRR { r_hdr : hdr; r_rd : rdata; r_rdlen : N }.
(* a ParseError: file, message, the token it points at *)
Record perr := mkErr { e_file : bytes; e_msg : bytes; e_tok : tok }.

Inductive ev :=
| ERec (r : rr)
| EOpen (viafs : bool) (path : bytes) (found : bool) (depth : nat)   (* depth: includeDepth of the parser that reads the file *)
| EErr (e : perr)
| EUnmodelled          (* an RDATA grammar outside the three families *)
| EFuel.               (* the model's own budget; excluded by parse_no_fuel *)

Definition ev_is_stop (e : ev) : bool :=
  match e with EErr _ | EUnmodelled | EFuel => true | _ => false end.
Definition failed (l : list ev) : bool := existsb ev_is_stop l.

(* ---------- token consumers ---------- *)
Definition next_tok (ts : list tok) : tok * list tok :=
  match ts with [] => (eof_tok, []) | t :: r => (t, r) end.
Definition peek_tok (ts : list tok) : tok := fst (next_tok ts).
Definition is_val (t : tok) (v : tval) : bool := tval_eqb (t_val t) v.

(* slurpRemainder *)
Definition slurp_remainder (ts : list tok) : option (bytes * tok) * list tok :=
  let '(l, r) := next_tok ts in
  if is_val l ZBlank then
    let '(l2, r2) := next_tok r in
    if negb (is_val l2 ZNewline) && negb (is_val l2 ZEOF)
    then (Some (B "garbage after rdata", l2), r2) else (None, r2)
  else if is_val l ZNewline || is_val l ZEOF then (None, r)
  else (Some (B "garbage after rdata", l), r).

Inductive rdres :=
| RdOk (rd : rdata) (rdlen : N) (rest : list tok)
| RdErr (msg : bytes) (t : tok)
| RdUnmodelled.

Definition after_slurp (rd : rdata) (ts : list tok) : rdres :=
  match slurp_remainder ts with
  | (Some (m, t), _) => RdErr m t
  | (None, rest) => RdOk rd 0 rest
  end.

(* NS and the other single-name types *)
Definition parse_name_rd (errmsg : string) (origin : bytes) (ts : list tok) : rdres :=
  let '(l, r) := next_tok ts in
  match to_absolute_name (t_text l) origin with
  | Some n => if t_err l then RdErr (B errmsg) l else after_slurp (RName n) r
  | None => RdErr (B errmsg) l
  end.
Definition parse_a_rd (ts : list tok) : rdres :=
  let '(l, r) := next_tok ts in
  match parse_a (t_text l) with
  | Some a => if t_err l then RdErr (B "bad A A") l else after_slurp (RAddr a) r
  | None => RdErr (B "bad A A") l
  end.
Definition parse_aaaa_rd (ts : list tok) : rdres :=
  let '(l, r) := next_tok ts in
  match parse_aaaa (t_text l) with
  | Some a => if t_err l then RdErr (B "bad AAAA AAAA") l else after_slurp (RAddr a) r
  | None => RdErr (B "bad AAAA AAAA") l
  end.

(* escapedStringOffset(s, n): n units (an octet, backslash+octet, backslash+DDD) *)
Fixpoint take_units (n : nat) (s : bytes) (acc : bytes) : option (option (bytes * bytes)) :=
  match n with
  | O => Some (Some (frev acc, s))
  | S n' =>
    match s with
    | [] => Some None
    | c :: r =>
      if c =? 92 then
        if is_ddd r then
          match r with
          | a :: b :: d :: r' => take_units n' r' (d :: b :: a :: c :: acc)
          | _ => None
          end
        else match r with
             | [] => None
             | x :: r' => take_units n' r' (x :: c :: acc)
             end
      else take_units n' r (c :: acc)
    end
  end.
(* the 255-unit chunking loop of endingToTxtSlice *)
Fixpoint split255 (fuel : nat) (s : bytes) : option (list bytes) :=
  match fuel with
  | O => Some [s]
  | S f =>
    match take_units 255 s [] with
    | None => None
    | Some None => Some [s]
    | Some (Some (ch, rest)) =>
      match rest with
      | [] => Some [s]
      | _ => match split255 f rest with Some l => Some (ch :: l) | None => None end
      end
    end
  end.

(* endingToTxtSlice: the loop, entered with the first token already read *)
Fixpoint txt_go (errmsg : bytes) (l : tok) (ts : list tok) (acc : list bytes) (quote empty : bool) : rdres :=
  if is_val l ZNewline || is_val l ZEOF then
    if quote then RdErr errmsg l else RdOk (RTxt acc) 0 ts
  else if t_err l then RdErr errmsg l
  else
    let cont (acc' : list bytes) (q e : bool) : rdres :=
      match ts with
      | [] => (* Next now yields the zero token *)
        if q then RdErr errmsg eof_tok else RdOk (RTxt acc') 0 []
      | l' :: ts' => txt_go errmsg l' ts' acc' q e
      end in
    if is_val l ZString then
      match split255 (length (t_text l)) (t_text l) with
      | None => RdErr errmsg l
      | Some sx => cont (acc ++ sx) quote false
      end
    else if is_val l ZBlank then
      if quote then RdErr errmsg l else cont acc quote empty
    else if is_val l ZQuote then
      cont (if empty && quote then acc ++ [[]] else acc) (negb quote) true
    else RdErr errmsg l.
Definition parse_txt_rd (errmsg : string) (ts : list tok) : rdres :=
  let '(l, r) := next_tok ts in
  if t_err l then RdErr (B errmsg) l else txt_go (B errmsg) l r [] false false.

(* endingToString *)
Fixpoint ending_to_string (errmsg : bytes) (l : tok) (ts : list tok) (acc : bytes) : (bytes * tok) + (bytes * list tok) :=
  if is_val l ZNewline || is_val l ZEOF then inr (acc, ts)
  else if t_err l then inl (errmsg, l)
  else
    let cont (acc' : bytes) :=
      match ts with
      | [] => inr (acc', [])
      | l' :: ts' => ending_to_string errmsg l' ts' acc'
      end in
    if is_val l ZString then cont (acc ++ t_text l)
    else if is_val l ZBlank then cont acc
    else inl (errmsg, l).
(* RFC3597.parse: the hex text *)
Definition parse_3597 (ts : list tok) : (bytes * tok) + (bytes * list tok) :=
  let '(l, r) := next_tok ts in
  if negb (bytes_eqb (t_text l) [92; 35]) then inl (B "bad RFC3597 Rdata", l)
  else
    let '(_, r1) := next_tok r in
    let '(l2, r2) := next_tok r1 in
    match parse_uint (t_text l2) 16 with
    | None => inl (B "bad RFC3597 Rdata ", l2)
    | Some rdlength =>
      if t_err l2 then inl (B "bad RFC3597 Rdata ", l2)
      else
        let '(l3, r3) := next_tok r2 in
        match ending_to_string (B "bad RFC3597 Rdata") l3 r3 [] with
        | inl e => inl e
        | inr (s, rest) =>
          if rdlength * 2 =? lenN s then inr (s, rest) else inl (B "bad RFC3597 Rdata", l2)
        end
    end.
(* encoding/hex DecodeString on an even-length string *)
Fixpoint hex_decode (s : bytes) : option bytes :=
  match s with
  | [] => Some []
  | a :: b :: r =>
    match hexval a, hexval b, hex_decode r with
    | Some x, Some y, Some t => Some (x * 16 + y :: t)
    | _, _, _ => None
    end
  | _ => None
  end.

(* which RDATA grammar a registered type uses *)
Inductive family := FName (errmsg : string) | FA | FAAAA | FTxt (errmsg : string) | FOther.
Definition family_of (t : N) : family :=
  if t =? 2 then FName "bad NS Ns" else if t =? 3 then FName "bad MD Md"
  else if t =? 4 then FName "bad MF Mf" else if t =? 5 then FName "bad CNAME Target"
  else if t =? 7 then FName "bad MB Mb" else if t =? 8 then FName "bad MG Mg"
  else if t =? 9 then FName "bad MR Mr" else if t =? 12 then FName "bad PTR Ptr"
  else if t =? 23 then FName "bad NSAP-PTR Ptr" else if t =? 39 then FName "bad DNAME Target"
  else if t =? 1 then FA else if t =? 28 then FAAAA
  else if t =? 16 then FTxt "bad TXT Txt" else if t =? 99 then FTxt "bad SPF Txt"
  else if t =? 258 then FTxt "bad AVC Txt" else if t =? 56 then FTxt "bad NINFO ZSData"
  else if t =? 261 then FTxt "bad RESINFO Resinfo"
  else FOther.

(* ---------- parser state ---------- *)
Record ttlst := mkTtl { ttl_v : N; ttl_dir : bool }.
Record pst := mkPst { p_origin : bytes; p_defttl : option ttlst; p_h : hdr }.
Record cfg := mkCfg {
  c_file : bytes;        (* zp.file *)
  c_inc : bool;          (* includeAllowed *)
  c_fs : bool;           (* fsys != nil *)
  c_gd : bool;           (* generateDisallowed *)
  c_depth : nat }.       (* includeDepth *)

Inductive zst :=
| XOwnerDir | XOwnerBl | XAny | XAnyNoClass | XAnyNoClassBl | XAnyNoTTL | XAnyNoTTLBl
| XRrtype | XRrtypeBl | XRdata | XDirTTLBl | XDirTTL | XDirOriginBl | XDirOrigin
| XDirIncludeBl | XDirInclude | XDirGenerate | XDirGenerateBl.

Definition set_h (p : pst) (h : hdr) : pst := mkPst (p_origin p) (p_defttl p) h.
Definition h_set_name (h : hdr) (n : bytes) := mkHdr n (h_type h) (h_class h) (h_ttl h).
Definition h_set_type (h : hdr) (t : N) := mkHdr (h_name h) t (h_class h) (h_ttl h).
Definition h_set_class (h : hdr) (c : N) := mkHdr (h_name h) (h_type h) c (h_ttl h).
Definition h_set_ttl (h : hdr) (t : N) := mkHdr (h_name h) (h_type h) (h_class h) t.

(* an explicit TTL on a record line: h.Ttl = ttl, and it becomes the default
   unless a $TTL directive has set one *)
Definition stated_ttl (p : pst) (ttl : N) : pst :=
  let d := match p_defttl p with
           | Some d0 => if ttl_dir d0 then Some d0 else Some (mkTtl ttl false)
           | None => Some (mkTtl ttl false)
           end in
  mkPst (p_origin p) d (h_set_ttl (p_h p) ttl).

(* outcome of one run of the loop in ZoneParser.Next *)
Inductive nres :=
| NRec (r : rr) (p : pst) (rest : list tok)
| NEnd
| NErr (msg : bytes) (t : tok)
| NInclude (l : tok) (neworigin : bytes) (p : pst) (rest : list tok)
| NGenerate (l : tok) (p : pst) (rest : list tok)
| NUnmodelled.

Inductive zact :=
| ZGo (st : zst) (p : pst) (skip : nat)
| ZRet (r : nres).

(* slurpRemainder inside the loop: how many tokens it takes, or its error *)
Definition slurp_count (ts : list tok) : (bytes * tok) + nat :=
  match slurp_remainder ts with
  | (Some e, _) => inl e
  | (None, rest) => inr (length ts - length rest)%nat
  end.

(* zExpectRdata *)
Definition rdata_step (p : pst) (l : tok) (r : list tok) : nres :=
  let h := p_h p in
  let known := known_type (h_type h) in
  let pk := peek_tok r in
  let as3597 := known && bytes_eqb (t_text pk) [92; 35] in
  let fix_tok (t : tok) := if tok_is_zero t then l else t in
  match t_text pk with
  | [] =>
    match slurp_remainder r with
    | (Some (m, t), _) => NErr m t
    | (None, rest) => NRec (mkRR h (if known then REmpty else RGen []) 0) p rest
    end
  | _ =>
    if is_val l ZNewline then NErr (B "unexpected newline") l
    else if negb known || as3597 then
      match parse_3597 r with
      | inl (m, t) => NErr m (fix_tok t)
      | inr (s, rest) =>
        if negb known then NRec (mkRR h (RGen s) 0) p rest
        else
          let rdlen := (lenN s / 2) mod 65536 in
          if rdlen =? 0 then NRec (mkRR h REmpty 0) p rest
          else
            match hex_decode s with
            | None => NErr (B "encoding/hex") l
            | Some msg =>
              match family_of (h_type h) with
              | FA => if lenN msg <? 4 then NErr (B "A") l
                      else NRec (mkRR h (RAddr (takeN 4 msg)) rdlen) p rest
              | FAAAA => if lenN msg <? 16 then NErr (B "AAAA") l
                         else NRec (mkRR h (RAddr (takeN 16 msg)) rdlen) p rest
              | _ => NUnmodelled
              end
            end
      end
    else
      let res :=
        match family_of (h_type h) with
        | FName m => parse_name_rd m (p_origin p) r
        | FA => parse_a_rd r
        | FAAAA => parse_aaaa_rd r
        | FTxt m => parse_txt_rd m r
        | FOther => RdUnmodelled
        end in
      match res with
      | RdOk rd n rest => NRec (mkRR h rd n) p rest
      | RdErr m t => NErr m (fix_tok t)
      | RdUnmodelled => NUnmodelled
      end
  end.

Definition zerr (m : string) (l : tok) : zact := ZRet (NErr (B m) l).
Definition ttl_then (p : pst) (l : tok) (st' : zst) (m : string) : zact :=
  match string_to_ttl (t_text l) with
  | None => zerr m l
  | Some ttl => ZGo st' (stated_ttl p ttl) 0
  end.

(* one token in state st; r are the tokens after it *)
Definition zstep (cf : cfg) (p : pst) (st : zst) (l : tok) (r : list tok) : zact :=
  let h := p_h p in
  match st with
  | XOwnerDir =>
    let h1 := h_set_class (match p_defttl p with Some d => h_set_ttl h (ttl_v d) | None => h end) 1 in
    let p1 := set_h p h1 in
    match t_val l with
    | ZNewline => ZGo XOwnerDir p1 0
    | ZOwner =>
      match to_absolute_name (t_text l) (p_origin p) with
      | None => zerr "bad owner name" l
      | Some n => ZGo XOwnerBl (set_h p1 (h_set_name h1 n)) 0
      end
    | ZDirTTL => ZGo XDirTTLBl p1 0
    | ZDirOrigin => ZGo XDirOriginBl p1 0
    | ZDirInclude => ZGo XDirIncludeBl p1 0
    | ZDirGenerate => ZGo XDirGenerateBl p1 0
    | ZRrtpe => ZGo XRdata (set_h p1 (h_set_type h1 (t_torc l))) 0
    | ZClass => ZGo XAnyNoClassBl (set_h p1 (h_set_class h1 (t_torc l))) 0
    | ZBlank => ZGo XOwnerDir p1 0
    | ZString =>
      match string_to_ttl (t_text l) with
      | None => zerr "not a TTL" l
      | Some ttl => ZGo XAnyNoTTLBl (stated_ttl p1 ttl) 0
      end
    | _ => zerr "syntax error at beginning" l
    end
  | XDirIncludeBl => if is_val l ZBlank then ZGo XDirInclude p 0 else zerr "no blank after $INCLUDE-directive" l
  | XDirInclude =>
    if negb (is_val l ZString) then zerr "expecting $INCLUDE value, not this..." l
    else
      let '(l2, r2) := next_tok r in
      let res : (bytes * tok) + (bytes * list tok) :=
        if is_val l2 ZBlank then
          let '(l3, r3) := next_tok r2 in
          if is_val l3 ZString then
            match to_absolute_name (t_text l3) (p_origin p) with
            | None => inl (B "bad origin name", l3)
            | Some n => inr (n, r3)
            end
          else inr (p_origin p, r3)
        else if is_val l2 ZNewline || is_val l2 ZEOF then inr (p_origin p, r2)
        else inl (B "garbage after $INCLUDE", l2) in
      match res with
      | inl (m, t) => ZRet (NErr m t)
      | inr (neworigin, rest) =>
        if negb (c_inc cf) then zerr "$INCLUDE directive not allowed" l
        else ZRet (NInclude l neworigin p rest)
      end
  | XDirTTLBl => if is_val l ZBlank then ZGo XDirTTL p 0 else zerr "no blank after $TTL-directive" l
  | XDirTTL =>
    if negb (is_val l ZString) then zerr "expecting $TTL value, not this..." l
    else
      match slurp_count r with
      | inl (m, t) => ZRet (NErr m t)
      | inr k =>
        match string_to_ttl (t_text l) with
        | None => zerr "expecting $TTL value, not this..." l
        | Some ttl => ZGo XOwnerDir (mkPst (p_origin p) (Some (mkTtl ttl true)) h) k
        end
      end
  | XDirOriginBl => if is_val l ZBlank then ZGo XDirOrigin p 0 else zerr "no blank after $ORIGIN-directive" l
  | XDirOrigin =>
    if negb (is_val l ZString) then zerr "expecting $ORIGIN value, not this..." l
    else
      match slurp_count r with
      | inl (m, t) => ZRet (NErr m t)
      | inr k =>
        match to_absolute_name (t_text l) (p_origin p) with
        | None => zerr "bad origin name" l
        | Some n => ZGo XOwnerDir (mkPst n (p_defttl p) h) k
        end
      end
  | XDirGenerateBl => if is_val l ZBlank then ZGo XDirGenerate p 0 else zerr "no blank after $GENERATE-directive" l
  | XDirGenerate =>
    if c_gd cf then zerr "nested $GENERATE directive not allowed" l
    else if negb (is_val l ZString) then zerr "expecting $GENERATE value, not this..." l
    else ZRet (NGenerate l p r)
  | XOwnerBl => if is_val l ZBlank then ZGo XAny p 0 else zerr "no blank after owner" l
  | XAny =>
    match t_val l with
    | ZRrtpe =>
      match p_defttl p with
      | None => zerr "missing TTL with no previous value" l
      | Some _ => ZGo XRdata (set_h p (h_set_type h (t_torc l))) 0
      end
    | ZClass => ZGo XAnyNoClassBl (set_h p (h_set_class h (t_torc l))) 0
    | ZString => ttl_then p l XAnyNoTTLBl "not a TTL"
    | _ => zerr "expecting RR type, TTL or class, not this..." l
    end
  | XAnyNoClassBl => if is_val l ZBlank then ZGo XAnyNoClass p 0 else zerr "no blank before class" l
  | XAnyNoTTLBl => if is_val l ZBlank then ZGo XAnyNoTTL p 0 else zerr "no blank before TTL" l
  | XAnyNoTTL =>
    match t_val l with
    | ZClass => ZGo XRrtypeBl (set_h p (h_set_class h (t_torc l))) 0
    | ZRrtpe => ZGo XRdata (set_h p (h_set_type h (t_torc l))) 0
    | _ => zerr "expecting RR type or class, not this..." l
    end
  | XAnyNoClass =>
    match t_val l with
    | ZString => ttl_then p l XRrtypeBl "not a TTL"
    | ZRrtpe => ZGo XRdata (set_h p (h_set_type h (t_torc l))) 0
    | _ => zerr "expecting RR type or TTL, not this..." l
    end
  | XRrtypeBl => if is_val l ZBlank then ZGo XRrtype p 0 else zerr "no blank before RR type" l
  | XRrtype =>
    if is_val l ZRrtpe then ZGo XRdata (set_h p (h_set_type h (t_torc l))) 0 else zerr "unknown RR type" l
  | XRdata => ZRet (rdata_step p l r)
  end.

(* the for-loop of Next: one token per turn; [skip] tokens were already taken
   by slurpRemainder *)
Fixpoint zloop (cf : cfg) (p : pst) (st : zst) (skip : nat) (toks : list tok) : nres :=
  match toks with
  | [] => NEnd
  | l :: r =>
    match skip with
    | S k => zloop cf p st k r
    | O =>
      if t_err l then NErr (t_text l) l
      else match zstep cf p st l r with
           | ZGo st' p' k => zloop cf p' st' k r
           | ZRet x => x
           end
    end
  end.

(* ---------- generate.go ---------- *)
Open Scope Z_scope.
Definition two63 : Z := 9223372036854775808.
(* int64 arithmetic wraps *)
Definition wrap64 (z : Z) : Z := (z + two63) mod (2 * two63) - two63.

(* strconv.ParseInt(s, 10, 64) *)
Definition parse_int64 (s : bytes) : option Z :=
  let '(neg, d) :=
    match s with
    | 43%N :: r => (false, r)
    | 45%N :: r => (true, r)
    | _ => (false, s)
    end in
  match d with
  | [] => None
  | _ =>
    if all_digits d then
      let v := Z.of_N (dec_value d 0) in
      if neg then (if v <=? two63 then Some (- v) else None)
      else (if v <? two63 then Some v else None)
    else None
  end.

Fixpoint index_of (c : N) (s : bytes) (i : nat) : option nat :=
  match s with
  | [] => None
  | x :: r => if (x =? c)%N then Some i else index_of c r (S i)
  end.
(* strings.Cut(s, sep) for a one-octet separator *)
Definition cut (s : bytes) (c : N) : bytes * bytes * bool :=
  match index_of c s O with
  | None => (s, [], false)
  | Some i => (firstn i s, skipn (S i) s, true)
  end.

(* the range token of $GENERATE: (start, end, step) or the error message *)
Definition parse_range (token : bytes) : string + (Z * Z * Z) :=
  let stepr : string + (Z * bytes) :=
    match index_of 47%N token O with
    | None => inr (1, token)
    | Some i =>
      if Nat.eqb (S i) (length token) then inl "bad step in $GENERATE range"%string
      else match parse_int64 (skipn (S i) token) with
           | None => inl "bad step in $GENERATE range"%string
           | Some s => if s <=? 0 then inl "bad step in $GENERATE range"%string
                       else inr (s, firstn i token)
           end
    end in
  match stepr with
  | inl e => inl e
  | inr (step, token1) =>
    let '(startStr, endStr, ok) := cut token1 45%N in
    if negb ok then inl "bad start-stop in $GENERATE range"%string
    else match parse_int64 startStr with
         | None => inl "bad start in $GENERATE range"%string
         | Some start =>
           match parse_int64 endStr with
           | None => inl "bad stop in $GENERATE range"%string
           | Some stop =>
             if (stop <? 0) || (start <? 0) || (stop <? start) || (65535 <? (stop - start) / step)
             then inl "bad range in $GENERATE range"%string
             else inr (start, stop, step)
           end
         end
  end.

(* modToPrintf: (width, base, offset) or the error message; width 0 = no padding *)
Definition mod_to_printf (s : bytes) : string + (N * N * Z) :=
  let '(offStr, s1, ok0) := cut s 44%N in
  let '(widthStr0, s2, ok1) := cut s1 44%N in
  let '(base0, _, ok2) := cut s2 44%N in
  let widthStr := if ok0 then widthStr0 else [48%N] in
  let base := if ok1 then base0 else [100%N] in
  if ok2 then inl "bad modifier in $GENERATE"%string
  else
    match base with
    | [b] =>
      if ((b =? 111) || (b =? 100) || (b =? 120) || (b =? 88))%N then
        match parse_int64 offStr with
        | None => inl "bad offset in $GENERATE"%string
        | Some offset =>
          match parse_uint widthStr 8 with
          | None => inl "bad width in $GENERATE"%string
          | Some w => inr (w, b, offset)
          end
        end
      else inl "bad base in $GENERATE"%string
    | _ => inl "bad base in $GENERATE"%string
    end.

(* fmt.Sprintf("%0<w><base>", v) for an int64 v *)
Fixpoint digits_go (fuel : nat) (radix : N) (upper : bool) (n : N) (acc : bytes) : bytes :=
  match fuel with
  | O => acc
  | S f =>
    let d := (n mod radix)%N in
    let c := (if d <? 10 then 48 + d else (if upper then 55 else 87) + d)%N in
    if (n <? radix)%N then c :: acc else digits_go f radix upper (n / radix)%N (c :: acc)
  end.
Definition fmt_int (w : N) (base : N) (v : Z) : bytes :=
  let radix := (if base =? 100 then 10 else if base =? 111 then 8 else 16)%N in
  let ds := digits_go 70 radix (base =? 88)%N (Z.abs_N v) [] in
  let neg := v <? 0 in
  let prec := (if neg then w - 1 else w)%N in
  let pad := repeat 48%N (N.to_nat (prec - lenN ds)) in
  (if neg then [45%N] else []) ++ pad ++ ds.

(* the error a generateReader ends with: message, token text, column offset *)
Record gerr := mkGerr { ge_msg : string; ge_text : bytes; ge_col : N }.

(* one pass of ReadByte over r.s for iterator value cur; [rest] = r.s[si:],
   [whole] = r.s.  Result: the octets delivered, then the escape flag or the
   error. *)
Fixpoint gen_line (whole rest : bytes) (si : N) (skip : nat) (esc : bool)
         (cur start stop : Z) (acc : bytes) : bytes * (bool + gerr) :=
  match rest with
  | [] => (frev acc, inl esc)
  | c :: r =>
    match skip with
    | S k => gen_line whole r (si + 1)%N k esc cur start stop acc
    | O =>
      if (c =? 92)%N then
        if esc then gen_line whole r (si + 1)%N O false cur start stop (92%N :: acc)
        else gen_line whole r (si + 1)%N O true cur start stop acc
      else if (c =? 36)%N then
        if esc then gen_line whole r (si + 1)%N O false cur start stop (36%N :: acc)
        else
          match r with
          | [] => (frev acc ++ fmt_int 0 100 cur, inl esc)
          | c1 :: r1 =>
            if (c1 =? 36)%N then gen_line whole r (si + 1)%N 1 esc cur start stop (36%N :: acc)
            else if (c1 =? 123)%N then
              match index_of 125%N r1 O with
              | None => (frev acc, inr (mkGerr "bad modifier in $GENERATE" (dropN si whole) (si + 1)))
              | Some sep =>
                let stop_i := (si + 3 + N.of_nat sep)%N in
                let etext := takeN (stop_i - si) (dropN si whole) in
                match mod_to_printf (firstn sep r1) with
                | inl m => (frev acc, inr (mkGerr m etext (si + 1)))
                | inr (w, b, offset) =>
                  if (wrap64 (start + offset) <? 0) || (2147483647 <? wrap64 (stop + offset))
                  then (frev acc, inr (mkGerr "bad offset in $GENERATE" etext (si + 1)))
                  else gen_line whole r (si + 1)%N (2 + sep) esc cur start stop
                                (frev (fmt_int w b (wrap64 (cur + offset))) ++ acc)
                end
              end
            else gen_line whole r (si + 1)%N O esc cur start stop (frev (fmt_int 0 100 cur) ++ acc)
          end
      else
        if esc then gen_line whole r (si + 1)%N O false cur start stop acc
        else gen_line whole r (si + 1)%N O false cur start stop (c :: acc)
    end
  end.

(* all octets the reader delivers: one line per iterator value, at most [fuel] lines *)
Fixpoint gen_iter (fuel : nat) (s : bytes) (esc : bool) (cur start stop step : Z) : bytes * option gerr :=
  match fuel with
  | O => ([], None)
  | S f =>
    match gen_line s s 0%N O esc cur start stop [] with
    | (out, inr e) => (out, Some e)
    | (out, inl esc') =>
      let cur' := wrap64 (cur + step) in
      if (stop <? cur') || (cur' <? 0) then (out ++ [10%N], None)
      else let '(more, e) := gen_iter f s esc' cur' start stop step in (out ++ 10%N :: more, e)
    end
  end.
Definition gen_count (start stop step : Z) : nat := Z.to_nat ((stop - start) / step + 1).
Definition gen_bytes (s : bytes) (start stop step : Z) : bytes * option gerr :=
  gen_iter (gen_count start stop step) s false start start stop step.
Open Scope N_scope.

(* the text generate() assembles from the tokens up to the newline: the
   concatenation, the tokens left, or the lexer error token met *)
Fixpoint gen_collect (ts : list tok) (acc : bytes) : tok + (bytes * list tok) :=
  match ts with
  | [] => inr (acc, [])
  | l :: r =>
    if t_err l then inl l
    else if is_val l ZNewline then inr (acc, r)
    else gen_collect r (acc ++ t_text l)
  end.

(* ---------- path (Unix filepath has the same lexical rules) ---------- *)
Fixpoint split_slash (s : bytes) (cur : bytes) : list bytes :=
  match s with
  | [] => [rev cur]
  | c :: r => if c =? 47 then rev cur :: split_slash r [] else split_slash r (c :: cur)
  end.
Definition is_dotdot (e : bytes) : bool := bytes_eqb e [46; 46].
(* stack of cleaned elements, innermost first *)
Fixpoint clean_go (rooted : bool) (elems : list bytes) (stack : list bytes) : list bytes :=
  match elems with
  | [] => rev stack
  | e :: r =>
    if bytes_eqb e [] || bytes_eqb e [46] then clean_go rooted r stack
    else if is_dotdot e then
      match stack with
      | top :: st' => if is_dotdot top then clean_go rooted r (e :: stack) else clean_go rooted r st'
      | [] => if rooted then clean_go rooted r [] else clean_go rooted r [e]
      end
    else clean_go rooted r (e :: stack)
  end.
Fixpoint join_slash (l : list bytes) : bytes :=
  match l with
  | [] => []
  | [x] => x
  | x :: r => x ++ 47 :: join_slash r
  end.
Definition path_clean (p : bytes) : bytes :=
  match p with
  | [] => [46]
  | c :: _ =>
    let rooted := c =? 47 in
    let body := join_slash (clean_go rooted (split_slash p []) []) in
    if rooted then 47 :: body else match body with [] => [46] | _ => body end
  end.
Definition path_is_abs (p : bytes) : bool := match p with 47 :: _ => true | _ => false end.
(* path.Dir: everything up to and including the last slash, cleaned *)
Fixpoint drop_last_elem (rv : bytes) : bytes :=
  match rv with [] => [] | c :: r => if c =? 47 then rv else drop_last_elem r end.
Definition path_dir (p : bytes) : bytes := path_clean (rev (drop_last_elem (rev p))).
Definition path_join (a b : bytes) : bytes :=
  match a, b with
  | [], [] => []
  | [], _ => path_clean b
  | _, [] => path_clean a
  | _, _ => path_clean (a ++ 47 :: b)
  end.
Fixpoint trim_left_slash (p : bytes) : bytes :=
  match p with 47 :: r => trim_left_slash r | _ => p end.
(* the path $INCLUDE opens *)
Definition include_path (hasfs : bool) (file token : bytes) : bytes :=
  let p := if path_is_abs token then token else path_join (path_dir file) token in
  if hasfs then trim_left_slash (path_clean p) else p.

(* ---------- the parser as a whole ---------- *)
Definition maxIncludeDepth : nat := 7.
Definition defaultTtl : N := 3600.
Definition zero_hdr : hdr := mkHdr [] 0 0 0.

(* the lexer's error token, if the stream ends in one *)
Definition lex_err_tok (toks : list tok) : option tok :=
  match rev toks with
  | t :: _ => if t_err t then Some t else None
  | [] => None
  end.

Section WithFiles.
  (* fsys.Open and os.Open: the content of the file, or None when opening fails *)
  Variable fs_open : bytes -> option bytes.
  Variable os_open : bytes -> option bytes.

  (* a sub parser: NewZoneParser(r, origin, file) then Next until it stops;
     [rerr] is the error the reader ended with *)
  Definition sub_sig := cfg -> bytes -> option ttlst -> list tok -> option perr -> list ev.

  (* NewZoneParser's check of the initial origin *)
  Definition new_parser (run : cfg -> nat -> pst -> list tok -> option perr -> list ev)
             (cf : cfg) (origin : bytes) (dt : option ttlst) (toks : list tok) (rerr : option perr) : list ev :=
    let o := match origin with [] => [] | _ => fqdn origin end in
    if match o with [] => false | _ => negb (is_domain_name o) end
    then [EErr (mkErr (c_file cf) (B "bad initial origin name") eof_tok)]
    else
      let evs := run cf (S (length toks)) (mkPst o dt zero_hdr) toks rerr in
      (* a lexer error is sticky: the error token is handed out once (it is the last token of the stream) and
         an RDATA or directive parser that skips over tokens may have consumed it; when the parser reaches
         the end of its input without having reported anything it reports that token (fix be621f4 of the
         library; before, the rest of the zone was dropped silently) *)
      if failed evs then evs
      else match lex_err_tok toks with
           | Some t => evs ++ [EErr (mkErr (c_file cf) (t_text t) t)]
           | None => evs
           end.

  (* one call of Next on a parser whose sub parser is exhausted, and what follows
     it; [k] stands for the calls after this one, inc/gen build the sub parsers *)
  Definition level_body (inc : option sub_sig) (gen : sub_sig) (cf : cfg) (rerr : option perr)
             (k : pst -> list tok -> list ev) (p : pst) (toks : list tok) : list ev :=
    match zloop cf p XOwnerDir 0 toks with
    | NRec r p' rest => ERec r :: k p' rest
    | NEnd => match rerr with Some e => [EErr e] | None => [] end
    | NErr m t => [EErr (mkErr (c_file cf) m t)]
    | NUnmodelled => [EUnmodelled]
    | NInclude l neworigin p' rest =>
      if Nat.leb maxIncludeDepth (c_depth cf)
      then [EErr (mkErr (c_file cf) (B "too deeply nested $INCLUDE") l)]
      else
        match inc with
        | None => [EFuel]
        | Some sub =>
          let path := include_path (c_fs cf) (c_file cf) (t_text l) in
          match (if c_fs cf then fs_open path else os_open path) with
          | None => [EOpen (c_fs cf) path false (S (c_depth cf));
                     EErr (mkErr (c_file cf) (B "failed to open") l)]
          | Some content =>
            let evs := sub (mkCfg path true (c_fs cf) false (S (c_depth cf))) neworigin (p_defttl p')
                           (lex content) None in
            EOpen (c_fs cf) path true (S (c_depth cf)) ::
            (if failed evs then evs else evs ++ k p' rest)
          end
        end
    | NGenerate l p' rest =>
      match parse_range (t_text l) with
      | inl m => [EErr (mkErr (c_file cf) (B m) l)]
      | inr (start, stop, step) =>
        let '(bl, r1) := next_tok rest in
        if negb (is_val bl ZBlank) then [EErr (mkErr (c_file cf) (B "garbage after $GENERATE range") bl)]
        else
          match gen_collect r1 [] with
          | inl t => [EErr (mkErr (c_file cf) (B "bad data in $GENERATE directive") t)]
          | inr (s, rest') =>
            let '(octets, ge) := gen_bytes s start stop step in
            let rerr' :=
              match ge with
              | None => None
              | Some g => Some (mkErr (c_file cf) (B (ge_msg g))
                            (mkTok (t_val bl) (ge_text g) (t_err bl) (t_torc bl) (t_line bl)
                                   (t_col bl + ge_col g) (t_com bl)))
              end in
            let toks' := fst (lex_full octets (match ge with Some _ => true | None => false end)) in
            (* the TTL state is handed down as for $INCLUDE (fix a7abe93 of the library; before, the sub
               parser always started from the internal default); with no TTL known the default stays *)
            let evs := gen (mkCfg (c_file cf) (c_inc cf) false true (c_depth cf)) (p_origin p')
                           (match p_defttl p' with Some d => Some d | None => Some (mkTtl defaultTtl false) end)
                           toks' rerr' in
            if failed evs then evs else evs ++ k p' rest'
          end
      end
    end.

  (* successive calls of Next on one parser *)
  Definition level (inc : option sub_sig) (gen : sub_sig)
    : cfg -> nat -> pst -> list tok -> option perr -> list ev :=
    fix run (cf : cfg) (fuel : nat) (p : pst) (toks : list tok) (rerr : option perr) : list ev :=
      match fuel with
      | O => [EFuel]
      | S f => level_body inc gen cf rerr (fun p' t' => run cf f p' t' rerr) p toks
      end.

  (* [d] bounds the nesting of sub parsers made by $INCLUDE (the recursion is
     on it); the parser itself stops at includeDepth >= maxIncludeDepth, and
     include_depth_enough shows d = maxIncludeDepth - includeDepth is never
     used up.  A parser made by $GENERATE may not $GENERATE again but may
     $INCLUDE (one level deeper); one made by $INCLUDE may do both. *)
  Fixpoint run_d (d : nat) : sub_sig :=
    let inc : option sub_sig := match d with O => None | S d' => Some (run_d d') end in
    let lvl_g : sub_sig := new_parser (level inc (fun _ _ _ _ _ => [])) in
    new_parser (level inc lvl_g).

  (* NewZoneParser(text, origin, file), SetDefaultTTL if dt is given,
     SetIncludeAllowed(inc), SetIncludeFS if hasfs; Next until it returns
     false; Err. *)
  Definition parse_zone (origin file : bytes) (dt : option N) (inc hasfs : bool) (text : bytes) : list ev :=
    run_d maxIncludeDepth (mkCfg file inc hasfs false O) origin
          (match dt with Some t => Some (mkTtl t false) | None => None end) (lex text) None.
End WithFiles.
