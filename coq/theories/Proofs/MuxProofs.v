(* Proofs/MuxProofs.v — lemmas about Model/Mux.v (property C14: routing). *)
From Dns Require Import Base.ListX Model.Labels Model.Mux.
From Coq Require Import Lia ZifyN ZifyNat ZifyBool Sorted.
Open Scope N_scope.

(* ------------------------------------------------------------------ *)
(* NextLabel finds the next separating dot                              *)
(* ------------------------------------------------------------------ *)

Lemma firstn_rev_app (pre rest : bytes) :
  firstn (length pre) (rev pre ++ rest) = rev pre.
Proof. rewrite <- (rev_length pre). apply firstn_app_exact. Qed.

Lemma nth_error_rev_app (pre rest : bytes) :
  nth_error (rev pre ++ rest) (length pre) = nth_error rest 0.
Proof.
  rewrite nth_error_app2 by (rewrite rev_length; lia).
  rewrite rev_length, Nat.sub_diag. reflexivity.
Qed.

Lemma sep_at_here (pre : bytes) c r :
  sep_at (rev pre ++ c :: r) (length pre) <-> (c = 46 /\ Nat.even (bs_run pre) = true).
Proof.
  unfold sep_at. rewrite nth_error_rev_app, firstn_rev_app, rev_involutive. cbn.
  split; intros [H1 H2]; split; congruence.
Qed.

Lemma nl_go_spec : forall (rest pre : bytes) (i p : nat) (fin : bool),
  length pre = i -> nl_go pre rest i = (p, fin) ->
  let s := rev pre ++ rest in
  (fin = false ->
     exists j, p = S j /\ (i <= j)%nat /\ sep_at s j /\ (S j < length s)%nat /\
               forall k, (i <= k < j)%nat -> ~ sep_at s k) /\
  (fin = true -> forall k, (i <= k)%nat -> (S k < length s)%nat -> ~ sep_at s k).
Proof.
  induction rest as [|c r' IH]; intros pre i p fin Hlen Hgo s; subst s.
  - cbn in Hgo. injection Hgo as <- <-. split; [discriminate|].
    intros _ k Hk Hlt. rewrite app_length, rev_length in Hlt. cbn in Hlt. lia.
  - cbn [nl_go] in Hgo. destruct r' as [|c2 r2].
    + injection Hgo as <- <-. split; [discriminate|].
      intros _ k Hk Hlt. rewrite app_length, rev_length in Hlt. cbn in Hlt. lia.
    + destruct ((c =? 46) && Nat.even (bs_run pre)) eqn:Esep.
      * injection Hgo as <- <-. split; [|discriminate]. intros _.
        exists i. apply andb_true_iff in Esep. destruct Esep as [Ec Eev]. apply N.eqb_eq in Ec.
        split; [reflexivity|]. split; [lia|]. split.
        { subst i. apply sep_at_here. auto. }
        split.
        { rewrite app_length, rev_length. cbn. lia. }
        intros k Hk. lia.
      * assert (Hs : rev (c :: pre) ++ c2 :: r2 = rev pre ++ c :: c2 :: r2).
        { cbn [rev]. rewrite <- app_assoc. reflexivity. }
        specialize (IH (c :: pre) (S i) p fin).
        assert (Hl' : length (c :: pre) = S i) by (cbn; lia).
        specialize (IH Hl' Hgo). cbv zeta in IH. rewrite Hs in IH.
        destruct IH as [IHf IHt].
        assert (Hnot : ~ sep_at (rev pre ++ c :: c2 :: r2) i).
        { subst i. rewrite sep_at_here. intros [Hc Hev]. subst c. rewrite Hev in Esep. discriminate. }
        split.
        { intro Hfin. destruct (IHf Hfin) as [j [Hp [Hij [Hsep [Hlt Hnone]]]]].
          exists j. split; [exact Hp|]. split; [lia|]. split; [exact Hsep|]. split; [exact Hlt|].
          intros k Hk. destruct (Nat.eq_dec k i) as [->|Hne]; [exact Hnot|]. apply Hnone. lia. }
        { intros Hfin k Hk Hlt. destruct (Nat.eq_dec k i) as [->|Hne]; [exact Hnot|].
          apply IHt; [exact Hfin|lia|exact Hlt]. }
Qed.

Lemma next_label_spec (s : bytes) (off p : nat) (fin : bool) :
  s <> [] -> (off <= length s)%nat -> next_label s off = (p, fin) ->
  (fin = false ->
     exists j, p = S j /\ (off <= j)%nat /\ sep_at s j /\ (S j < length s)%nat /\
               forall k, (off <= k < j)%nat -> ~ sep_at s k) /\
  (fin = true -> forall k, (off <= k)%nat -> (S k < length s)%nat -> ~ sep_at s k).
Proof.
  intros Hne Hoff Hnl. unfold next_label in Hnl.
  destruct s as [|c0 s0]; [congruence|]. set (s := c0 :: s0) in *.
  assert (Hlen : length (rev (firstn off s)) = off).
  { rewrite rev_length, firstn_length. lia. }
  pose proof (nl_go_spec (skipn off s) (rev (firstn off s)) off p fin Hlen Hnl) as H.
  cbv zeta in H. rewrite rev_involutive, firstn_skipn in H. exact H.
Qed.

(* ------------------------------------------------------------------ *)
(* the offsets the loop visits are exactly the label starts, in order    *)
(* ------------------------------------------------------------------ *)

Lemma walk_spec : forall (fuel : nat) (q : bytes) (off : nat) (w : list nat),
  q <> [] -> (off <= length q)%nat -> walk fuel q off = Some w ->
  exists tl, w = off :: tl /\ StronglySorted lt w /\
             (forall p, In p tl <-> (off < p)%nat /\ label_start q p) /\
             Forall (fun p => (p <= length q)%nat) w.
Proof.
  induction fuel as [|f IH]; intros q off w Hne Hoff Hw; [discriminate|].
  cbn [walk] in Hw. destruct (next_label q off) as [off' fin] eqn:Enl.
  destruct (next_label_spec q off off' fin Hne Hoff Enl) as [Hf Ht].
  destruct fin.
  - injection Hw as <-. exists []. split; [reflexivity|]. split.
    { constructor; constructor. }
    split.
    { intro p. split; [intros []|]. intros [Hlt [->|[i [-> [Hsep Hl]]]]]; [lia|].
      exfalso. apply (Ht eq_refl i); [lia|exact Hl|exact Hsep]. }
    { constructor; [exact Hoff|constructor]. }
  - destruct (Hf eq_refl) as [j [-> [Hoj [Hsep [Hlt Hnone]]]]].
    destruct (walk f q (S j)) as [w'|] eqn:Ew'; [|discriminate]. injection Hw as <-.
    destruct (IH q (S j) w' Hne ltac:(lia) Ew') as [tl' [-> [Hsorted [Hin Hall]]]].
    exists (S j :: tl'). split; [reflexivity|]. split.
    { constructor; [exact Hsorted|]. constructor; [lia|].
      apply Forall_forall. intros p Hp. apply Hin in Hp. lia. }
    split.
    { intro p. split.
      - intros [<-|Hp].
        + split; [lia|]. right. exists j. auto.
        + apply Hin in Hp. destruct Hp as [Hlt' Hls]. split; [lia|exact Hls].
      - intros [Hlt' Hls]. destruct Hls as [->|[i [-> [Hsepi Hli]]]]; [lia|].
        destruct (Nat.lt_trichotomy i j) as [Hij|[->|Hij]].
        + exfalso. apply (Hnone i); [lia|exact Hsepi].
        + left. reflexivity.
        + right. apply Hin. split; [lia|]. right. exists i. auto. }
    { constructor; [exact Hoff|exact Hall]. }
Qed.

Lemma walk_fuel : forall (fuel : nat) (q : bytes) (off : nat),
  q <> [] -> (off <= length q)%nat -> (length q - off < fuel)%nat ->
  exists w, walk fuel q off = Some w.
Proof.
  induction fuel as [|f IH]; intros q off Hne Hoff Hfuel; [lia|].
  cbn [walk]. destruct (next_label q off) as [off' fin] eqn:Enl.
  destruct (next_label_spec q off off' fin Hne Hoff Enl) as [Hf _].
  destruct fin; [eauto|].
  destruct (Hf eq_refl) as [j [-> [Hoj [_ [Hlt _]]]]].
  destruct (IH q (S j) Hne ltac:(lia) ltac:(lia)) as [w' ->]. eauto.
Qed.

(* label starts of q, as the list the loop visits *)
Lemma walk_all (q : bytes) :
  q <> [] ->
  exists w, walk (S (length q)) q 0 = Some w /\ StronglySorted lt w /\
            (forall p, In p w <-> label_start q p) /\
            Forall (fun p => (p <= length q)%nat) w.
Proof.
  intro Hne.
  destruct (walk_fuel (S (length q)) q 0 Hne ltac:(lia) ltac:(lia)) as [w Hw].
  destruct (walk_spec _ q 0 w Hne ltac:(lia) Hw) as [tl [-> [Hs [Hin Hall]]]].
  exists (O :: tl). split; [exact Hw|]. split; [exact Hs|]. split; [|exact Hall].
  intro p. split.
  - intros [<-|Hp]; [left; reflexivity|]. apply Hin in Hp. tauto.
  - intro Hls. destruct (Nat.eq_dec p 0) as [->|Hp]; [left; reflexivity|].
    right. apply Hin. split; [lia|exact Hls].
Qed.

(* ------------------------------------------------------------------ *)
(* the loop of match as a function of the visited offsets               *)
(* ------------------------------------------------------------------ *)
Section MatchList.
  Context {H : Type}.
  Implicit Types z : mux H.

  Fixpoint match_list z (q : bytes) (t : N) (w : list nat) (acc : option H) : option H :=
    match w with
    | [] => match_finish z acc
    | off :: r =>
      match lookup z (skipn off q) with
      | Some h => if negb (t =? TypeDS) then Some h else match_list z q t r (Some h)
      | None => match_list z q t r acc
      end
    end.

  Lemma match_go_walk : forall fuel z q t off acc w,
    walk fuel q off = Some w -> Forall (fun p => (p <= length q)%nat) w ->
    match_go fuel z q t off acc = Ok (match_list z q t w acc).
  Proof.
    induction fuel as [|f IH]; intros z q t off acc w Hw Hall; [discriminate|].
    cbn [walk] in Hw. cbn [match_go].
    destruct (next_label q off) as [off' fin] eqn:Enl.
    destruct fin.
    - injection Hw as <-. inversion Hall as [|? ? Hoff _]; subst.
      destruct (Nat.ltb_spec (length q) off); [lia|].
      cbn [match_list]. destruct (lookup z (skipn off q)); [|reflexivity].
      destruct (negb (t =? TypeDS)); reflexivity.
    - destruct (walk f q off') as [w'|] eqn:Ew'; [|discriminate]. injection Hw as <-.
      inversion Hall as [|? ? Hoff Hall']; subst.
      destruct (Nat.ltb_spec (length q) off); [lia|].
      cbn [match_list]. destruct (lookup z (skipn off q)).
      + destruct (negb (t =? TypeDS)); [reflexivity|]. apply IH; assumption.
      + apply IH; assumption.
  Qed.

  (* non-DS: the first visited offset whose suffix is registered wins *)
  Lemma match_list_first z q t w acc off h :
    t <> TypeDS -> StronglySorted lt w -> In off w ->
    lookup z (skipn off q) = Some h ->
    (forall o, In o w -> (o < off)%nat -> lookup z (skipn o q) = None) ->
    match_list z q t w acc = Some h.
  Proof.
    intros Ht. apply N.eqb_neq in Ht.
    induction w as [|a tl IH]; intros Hs Hin Hl Hnone; [destruct Hin|].
    cbn [match_list]. destruct Hin as [->|Hin].
    - rewrite Hl, Ht. reflexivity.
    - apply StronglySorted_inv in Hs. destruct Hs as [Hs Hlt].
      rewrite Forall_forall in Hlt. pose proof (Hlt off Hin) as Haoff.
      rewrite (Hnone a (or_introl eq_refl) Haoff).
      apply IH; auto. intros o Ho. apply Hnone. right. exact Ho.
  Qed.

  (* no visited suffix registered: the root pattern, else what was kept *)
  Lemma match_list_none z q t w acc :
    (forall o, In o w -> lookup z (skipn o q) = None) ->
    match_list z q t w acc = match_finish z acc.
  Proof.
    induction w as [|a tl IH]; intro Hnone; [reflexivity|].
    cbn [match_list]. rewrite (Hnone a (or_introl eq_refl)).
    apply IH. intros o Ho. apply Hnone. right. exact Ho.
  Qed.

  (* DS: the loop never returns early; the last registered suffix is kept *)
  Fixpoint last_hit z (q : bytes) (w : list nat) (acc : option H) : option H :=
    match w with
    | [] => acc
    | off :: r =>
      match lookup z (skipn off q) with
      | Some h => last_hit z q r (Some h)
      | None => last_hit z q r acc
      end
    end.

  Lemma match_list_ds z q w acc :
    match_list z q TypeDS w acc = match_finish z (last_hit z q w acc).
  Proof.
    revert acc. induction w as [|a tl IH]; intro acc; [reflexivity|].
    cbn [match_list last_hit]. destruct (lookup z (skipn a q)); cbn; apply IH.
  Qed.

  Lemma last_hit_none z q w acc :
    (forall o, In o w -> lookup z (skipn o q) = None) -> last_hit z q w acc = acc.
  Proof.
    revert acc. induction w as [|a tl IH]; intros acc Hnone; [reflexivity|].
    cbn [last_hit]. rewrite (Hnone a (or_introl eq_refl)).
    apply IH. intros o Ho. apply Hnone. right. exact Ho.
  Qed.

  Lemma last_hit_last z q w acc off h :
    StronglySorted lt w -> In off w -> lookup z (skipn off q) = Some h ->
    (forall o, In o w -> (off < o)%nat -> lookup z (skipn o q) = None) ->
    last_hit z q w acc = Some h.
  Proof.
    revert acc. induction w as [|a tl IH]; intros acc Hs Hin Hl Hnone; [destruct Hin|].
    apply StronglySorted_inv in Hs. destruct Hs as [Hs Hlt]. rewrite Forall_forall in Hlt.
    cbn [last_hit]. destruct Hin as [->|Hin].
    - rewrite Hl. apply last_hit_none. intros o Ho. apply Hnone; [right; exact Ho|].
      apply Hlt. exact Ho.
    - assert (Htl : forall o, In o tl -> (off < o)%nat -> lookup z (skipn o q) = None).
      { intros o Ho. apply Hnone. right. exact Ho. }
      destruct (lookup z (skipn a q)); apply IH; auto.
  Qed.

  Definition hits z (q : bytes) (o : nat) : bool :=
    match lookup z (skipn o q) with Some _ => true | None => false end.

  (* when some visited suffix is registered there is a last one *)
  Lemma last_hit_exists z q w :
    StronglySorted lt w -> (exists o, In o w /\ lookup z (skipn o q) <> None) ->
    exists om h, In om w /\ lookup z (skipn om q) = Some h /\
                 (forall o, In o w -> (om < o)%nat -> lookup z (skipn o q) = None).
  Proof.
    induction w as [|a tl IH]; intros Hs [o [Hin Hhit]]; [destruct Hin|].
    apply StronglySorted_inv in Hs. destruct Hs as [Hs Hlt]. rewrite Forall_forall in Hlt.
    destruct (existsb (hits z q) tl) eqn:Eex.
    - apply existsb_exists in Eex. destruct Eex as [o' [Ho' Hh']].
      assert (Hex : exists o, In o tl /\ lookup z (skipn o q) <> None).
      { exists o'. split; [exact Ho'|]. unfold hits in Hh'. destruct (lookup z (skipn o' q)); congruence. }
      destruct (IH Hs Hex) as [om [h [Hom [Hl Hnone]]]].
      exists om, h. split; [right; exact Hom|]. split; [exact Hl|].
      intros o2 [<-|Ho2] Hlt2; [pose proof (Hlt om Hom); lia|]. apply Hnone; assumption.
    - assert (Hnone : forall o, In o tl -> lookup z (skipn o q) = None).
      { intros o2 Ho2. destruct (lookup z (skipn o2 q)) eqn:El; [|reflexivity].
        exfalso. assert (Ht : existsb (hits z q) tl = true).
        { apply existsb_exists. exists o2. split; [exact Ho2|]. unfold hits. rewrite El. reflexivity. }
        congruence. }
      destruct Hin as [->|Hin]; [|exfalso; apply Hhit; apply Hnone; exact Hin].
      destruct (lookup z (skipn o q)) as [h|] eqn:El; [|congruence].
      exists o, h. split; [left; reflexivity|]. split; [exact El|].
      intros o2 [<-|Ho2] Hlt2; [lia|]. apply Hnone. exact Ho2.
  Qed.
End MatchList.

(* ------------------------------------------------------------------ *)
(* CanonicalName                                                        *)
(* ------------------------------------------------------------------ *)

Lemma fqdn_nonempty s : fqdn s <> [].
Proof.
  unfold fqdn. destruct (is_fqdn s) eqn:E.
  - destruct s; [discriminate|discriminate].
  - destruct s; discriminate.
Qed.

Lemma canonical_nonempty s : canonical_name s <> [].
Proof.
  unfold canonical_name, lower_bytes. pose proof (fqdn_nonempty s) as H.
  destruct (fqdn s); [congruence|discriminate].
Qed.

Lemma lower_46 b : lower b = 46 <-> b = 46.
Proof.
  unfold lower. destruct ((65 <=? b) && (b <=? 90)) eqn:E; [|tauto].
  apply andb_true_iff in E. destruct E as [E1 E2].
  apply N.leb_le in E1. apply N.leb_le in E2. lia.
Qed.

Lemma lower_92 b : lower b = 92 <-> b = 92.
Proof.
  unfold lower. destruct ((65 <=? b) && (b <=? 90)) eqn:E; [|tauto].
  apply andb_true_iff in E. destruct E as [E1 E2].
  apply N.leb_le in E1. apply N.leb_le in E2. lia.
Qed.

Lemma lower_idem b : lower (lower b) = lower b.
Proof.
  unfold lower. destruct ((65 <=? b) && (b <=? 90)) eqn:E.
  - apply andb_true_iff in E. destruct E as [E1 E2].
    apply N.leb_le in E1. apply N.leb_le in E2.
    destruct ((65 <=? b + 32) && (b + 32 <=? 90)) eqn:E'; [|reflexivity].
    apply andb_true_iff in E'. destruct E' as [E3 E4]. apply N.leb_le in E4. lia.
  - rewrite E. reflexivity.
Qed.

Lemma lower_bytes_idem s : lower_bytes (lower_bytes s) = lower_bytes s.
Proof.
  unfold lower_bytes. rewrite map_map. apply map_ext. apply lower_idem.
Qed.

Lemma bs_run_lower r : bs_run (lower_bytes r) = bs_run r.
Proof.
  unfold lower_bytes. induction r as [|b r IH]; [reflexivity|]. cbn [map bs_run].
  destruct (N.eqb_spec b 92) as [->|Hb].
  - change (lower 92) with 92. rewrite N.eqb_refl, IH. reflexivity.
  - destruct (N.eqb_spec (lower b) 92) as [Hl|Hl]; [|reflexivity].
    apply (proj1 (lower_92 b)) in Hl. congruence.
Qed.

Lemma is_fqdn_lower s : is_fqdn (lower_bytes s) = is_fqdn s.
Proof.
  unfold is_fqdn, lower_bytes. rewrite <- map_rev.
  destruct (rev s) as [|c r]; [reflexivity|]. cbn [map].
  destruct (N.eq_dec c 46) as [->|Hc].
  - cbn. apply f_equal. apply bs_run_lower.
  - assert (Hl : lower c <> 46) by (rewrite lower_46; exact Hc).
    destruct (lower c) as [|p] eqn:El.
    + destruct c as [|pc]; [reflexivity|].
      repeat (destruct pc as [pc|pc|]; try reflexivity; try congruence).
    + assert (forall (x : N) (A : Type) (a b : A), x <> 46 ->
                match x with 46 => a | _ => b end = b) as Hm.
      { intros x A a b Hx. destruct x as [|px]; [reflexivity|].
        repeat (destruct px as [px|px|]; try reflexivity). congruence. }
      rewrite (Hm (N.pos p)) by exact Hl. rewrite (Hm c) by exact Hc. reflexivity.
Qed.

(* CanonicalName depends on its argument only up to ASCII case *)
Lemma canonical_name_lower s : canonical_name s = canonical_name (lower_bytes s).
Proof.
  unfold canonical_name, fqdn. rewrite is_fqdn_lower.
  destruct (is_fqdn s).
  - rewrite lower_bytes_idem. reflexivity.
  - unfold lower_bytes. rewrite !map_app, map_map. cbn.
    f_equal. apply map_ext. intro b. symmetry. apply lower_idem.
Qed.

Lemma canonical_name_case s1 s2 :
  lower_bytes s1 = lower_bytes s2 -> canonical_name s1 = canonical_name s2.
Proof.
  intro H. rewrite (canonical_name_lower s1), (canonical_name_lower s2), H. reflexivity.
Qed.

Lemma bytes_eqb_refl s : bytes_eqb s s = true.
Proof.
  induction s as [|b s IH]; [reflexivity|]. cbn. rewrite N.eqb_refl. exact IH.
Qed.

Lemma bytes_eqb_eq a b : bytes_eqb a b = true <-> a = b.
Proof.
  split; [|intros ->; apply bytes_eqb_refl].
  revert b. induction a as [|x a IH]; intros [|y b]; cbn; try discriminate; [reflexivity|].
  intro H. apply andb_true_iff in H. destruct H as [H1 H2].
  apply N.eqb_eq in H1. apply IH in H2. congruence.
Qed.

(* ------------------------------------------------------------------ *)
(* ServeMux.match                                                       *)
(* ------------------------------------------------------------------ *)
Section MatchFacts.
  Context {H : Type}.
  Implicit Types z : mux H.

  Lemma mux_match_list z q t :
    exists w, mux_match z q t = Ok (match_list z (canonical_name q) t w None) /\
              StronglySorted lt w /\
              (forall p, In p w <-> label_start (canonical_name q) p).
  Proof.
    destruct (walk_all (canonical_name q) (canonical_nonempty q)) as [w [Hw [Hs [Hin Hall]]]].
    exists w. split; [|split; assumption].
    unfold mux_match. apply match_go_walk; assumption.
  Qed.

  (* match is total: no panic (q[off:] always in range), no fuel exhaustion *)
  Lemma mux_match_total z q t : exists r, mux_match z q t = Ok r.
  Proof. destruct (mux_match_list z q t) as [w [Hm _]]. eauto. Qed.

  Lemma mux_match_longest z q t off h :
    t <> TypeDS ->
    label_start (canonical_name q) off ->
    lookup z (skipn off (canonical_name q)) = Some h ->
    (forall o, (o < off)%nat -> label_start (canonical_name q) o ->
               lookup z (skipn o (canonical_name q)) = None) ->
    mux_match z q t = Ok (Some h).
  Proof.
    intros Ht Hls Hl Hnone. destruct (mux_match_list z q t) as [w [-> [Hs Hin]]].
    f_equal. apply (match_list_first z _ t w None off h Ht Hs); [apply Hin; exact Hls|exact Hl|].
    intros o Ho Hlt. apply Hnone; [exact Hlt|apply Hin; exact Ho].
  Qed.

  Lemma mux_match_none z q t :
    (forall o, label_start (canonical_name q) o -> lookup z (skipn o (canonical_name q)) = None) ->
    mux_match z q t = Ok (lookup z [46]).
  Proof.
    intros Hnone. destruct (mux_match_list z q t) as [w [-> [Hs Hin]]].
    f_equal. rewrite match_list_none.
    - unfold match_finish. destruct (lookup z [46]); reflexivity.
    - intros o Ho. apply Hnone. apply Hin. exact Ho.
  Qed.

  Lemma mux_match_ds_root z q h :
    lookup z [46] = Some h -> mux_match z q TypeDS = Ok (Some h).
  Proof.
    intro Hr. destruct (mux_match_list z q TypeDS) as [w [-> _]].
    rewrite match_list_ds. unfold match_finish. rewrite Hr. reflexivity.
  Qed.

  Lemma mux_match_ds_topmost z q off h :
    lookup z [46] = None ->
    label_start (canonical_name q) off ->
    lookup z (skipn off (canonical_name q)) = Some h ->
    (forall o, (off < o)%nat -> label_start (canonical_name q) o ->
               lookup z (skipn o (canonical_name q)) = None) ->
    mux_match z q TypeDS = Ok (Some h).
  Proof.
    intros Hr Hls Hl Hnone. destruct (mux_match_list z q TypeDS) as [w [-> [Hs Hin]]].
    rewrite match_list_ds. unfold match_finish. rewrite Hr. f_equal.
    apply (last_hit_last z _ w None off h Hs); [apply Hin; exact Hls|exact Hl|].
    intros o Ho Hlt. apply Hnone; [exact Hlt|apply Hin; exact Ho].
  Qed.

  (* DS: when the root pattern or the pattern of a proper ancestor (a suffix
     starting at a later label) is registered, the query goes to one of those *)
  Lemma mux_match_ds_ancestor z q :
    (lookup z [46] <> None \/
     exists off, (0 < off)%nat /\ label_start (canonical_name q) off /\
                 lookup z (skipn off (canonical_name q)) <> None) ->
    exists h, mux_match z q TypeDS = Ok (Some h) /\
              (lookup z [46] = Some h \/
               exists off, (0 < off)%nat /\ label_start (canonical_name q) off /\
                           lookup z (skipn off (canonical_name q)) = Some h).
  Proof.
    intro Hanc. destruct (lookup z [46]) as [hr|] eqn:Er.
    - exists hr. split; [apply mux_match_ds_root; exact Er|left; reflexivity].
    - destruct Hanc as [Hc|[off [Hpos [Hls Hhit]]]]; [congruence|].
      destruct (mux_match_list z q TypeDS) as [w [Hm [Hs Hin]]].
      assert (Hex : exists o, In o w /\ lookup z (skipn o (canonical_name q)) <> None).
      { exists off. split; [apply Hin; exact Hls|exact Hhit]. }
      destruct (last_hit_exists z _ w Hs Hex) as [om [h [Hom [Hl Hnone]]]].
      exists h. split.
      + apply (mux_match_ds_topmost z q om h Er); [apply Hin; exact Hom|exact Hl|].
        intros o Hlt Hlso. apply Hnone; [apply Hin; exact Hlso|exact Hlt].
      + right. exists om. split; [|split; [apply Hin; exact Hom|exact Hl]].
        destruct (Nat.le_gt_cases om off) as [Hle|Hgt]; [|lia].
        destruct (Nat.eq_dec om off) as [->|Hne]; [exact Hpos|].
        exfalso. apply Hhit. apply Hnone; [apply Hin; exact Hls|lia].
  Qed.

  (* DS with no registered proper ancestor: the child (the name itself) if
     registered, else nothing *)
  Lemma mux_match_ds_child z q :
    lookup z [46] = None ->
    (forall o, (0 < o)%nat -> label_start (canonical_name q) o ->
               lookup z (skipn o (canonical_name q)) = None) ->
    mux_match z q TypeDS = Ok (lookup z (canonical_name q)).
  Proof.
    intros Hr Hnone. destruct (lookup z (canonical_name q)) as [h|] eqn:El.
    - apply (mux_match_ds_topmost z q 0 h Hr); [left; reflexivity|exact El|exact Hnone].
    - rewrite mux_match_none; [rewrite Hr; reflexivity|].
      intros o Hls. destruct (Nat.eq_dec o 0) as [->|Ho]; [exact El|].
      apply Hnone; [lia|exact Hls].
  Qed.

  (* the question name is matched ignoring ASCII case *)
  Lemma mux_match_case z q1 q2 t :
    lower_bytes q1 = lower_bytes q2 -> mux_match z q1 t = mux_match z q2 t.
  Proof.
    intro Hq. unfold mux_match. rewrite (canonical_name_case q1 q2 Hq). reflexivity.
  Qed.

  (* ... and so is the pattern: Handle registers the canonical form *)
  Lemma mux_handle_lookup z p p' h z' :
    mux_handle z p h = Ok z' -> lower_bytes p = lower_bytes p' ->
    lookup z' (canonical_name p') = Some h.
  Proof.
    intros Hh Hp. unfold mux_handle in Hh. destruct p as [|b p]; [discriminate|].
    injection Hh as <-. cbn [lookup]. rewrite (canonical_name_case _ _ Hp), bytes_eqb_refl. reflexivity.
  Qed.

  Lemma mux_handle_other z p h z' k :
    mux_handle z p h = Ok z' -> k <> canonical_name p -> lookup z' k = lookup z k.
  Proof.
    intros Hh Hk. unfold mux_handle in Hh. destruct p as [|b p]; [discriminate|].
    injection Hh as <-. cbn [lookup].
    destruct (bytes_eqb (canonical_name (b :: p)) k) eqn:E; [|reflexivity].
    apply bytes_eqb_eq in E. congruence.
  Qed.

  Lemma lookup_filter_neq (z : mux H) key k :
    lookup (filter (fun e => negb (bytes_eqb (fst e) key)) z) k =
    if bytes_eqb key k then None else lookup z k.
  Proof.
    induction z as [|[p h] z IH]; cbn.
    - destruct (bytes_eqb key k); reflexivity.
    - destruct (bytes_eqb p key) eqn:Epk; cbn.
      + rewrite IH. apply bytes_eqb_eq in Epk. subst p.
        destruct (bytes_eqb key k); reflexivity.
      + destruct (bytes_eqb p k) eqn:Ek.
        * apply bytes_eqb_eq in Ek. subst p.
          assert (Hkk : bytes_eqb key k = false).
          { destruct (bytes_eqb key k) eqn:E; [|reflexivity]. apply bytes_eqb_eq in E. subst key.
            rewrite bytes_eqb_refl in Epk. discriminate. }
          rewrite Hkk. reflexivity.
        * exact IH.
  Qed.

  Lemma mux_remove_lookup z p z' k :
    mux_remove z p = Ok z' ->
    lookup z' k = if bytes_eqb (canonical_name p) k then None else lookup z k.
  Proof.
    intro Hr. unfold mux_remove in Hr. destruct p as [|b p]; [discriminate|].
    injection Hr as <-. apply lookup_filter_neq.
  Qed.

  (* ServeDNS: REFUSED exactly when there is no question or nothing matches *)
  Lemma mux_serve_refused_iff z qs :
    mux_serve z qs = Ok Refused <->
    (qs = [] \/ exists name qtype rest, qs = (name, qtype) :: rest /\ mux_match z name qtype = Ok None).
  Proof.
    unfold mux_serve. destruct qs as [|[name qtype] rest].
    - split; auto.
    - destruct (mux_match_total z name qtype) as [r Hr]. rewrite Hr. cbn [bind].
      split.
      + destruct r; [discriminate|]. intros _. right. exists name, qtype, rest. auto.
      + intros [Hc|[n [t [r' [Heq Hm]]]]]; [discriminate|].
        inversion Heq; subst n t r'. rewrite Hr in Hm. injection Hm as ->. reflexivity.
  Qed.

  Lemma mux_serve_handler z name qtype rest h :
    mux_match z name qtype = Ok (Some h) -> mux_serve z ((name, qtype) :: rest) = Ok (ToHandler h).
  Proof. intro Hm. unfold mux_serve. rewrite Hm. reflexivity. Qed.

  Lemma mux_serve_total z qs : exists d, mux_serve z qs = Ok d.
  Proof.
    unfold mux_serve. destruct qs as [|[name qtype] rest]; [eauto|].
    destruct (mux_match_total z name qtype) as [r ->]. cbn. destruct r; eauto.
  Qed.
End MatchFacts.

(* ------------------------------------------------------------------ *)
(* non-vacuity examples                                                 *)
(* ------------------------------------------------------------------ *)
Definition ex_org : bytes := bytes_of_string "org.".
Definition ex_example_org : bytes := bytes_of_string "example.org.".
Definition ex_www : bytes := bytes_of_string "WWW.Example.ORG.".
Definition ex_mux : mux N := [(ex_example_org, 1); (ex_org, 2)].

Example ex_label_start_4 : label_start (canonical_name ex_www) 4.
Proof. right. exists 3%nat. repeat split. cbn. lia. Qed.
Example ex_label_start_12 : label_start (canonical_name ex_www) 12.
Proof. right. exists 11%nat. repeat split. cbn. lia. Qed.

Example ex_match_longest : mux_match ex_mux ex_www 1 = Ok (Some 1).
Proof. reflexivity. Qed.
Example ex_match_ds : mux_match ex_mux ex_www TypeDS = Ok (Some 2).
Proof. reflexivity. Qed.
Example ex_match_ds_child : mux_match [(ex_example_org, 1)] ex_example_org TypeDS = Ok (Some 1).
Proof. reflexivity. Qed.
Example ex_match_root : mux_match (ex_mux ++ [([46], 9)]) (bytes_of_string "nothing.invalid.") 1 = Ok (Some 9).
Proof. reflexivity. Qed.
Example ex_match_refused : mux_serve ex_mux [(bytes_of_string "nothing.invalid.", 1)] = Ok Refused.
Proof. reflexivity. Qed.
(* not a label boundary: ample.org. is a suffix of the text but not of the labels *)
Example ex_match_boundary :
  mux_match [(bytes_of_string "ample.org.", 5)] ex_www 1 = Ok None.
Proof. reflexivity. Qed.
(* an escaped dot does not separate labels *)
Example ex_match_escaped :
  mux_match [(bytes_of_string "b.org.", 5)] (bytes_of_string "a\.b.org.") 1 = Ok None.
Proof. reflexivity. Qed.

(* Observation recorded in docs/C14.md: with three nested registered zones a DS
   query is routed to the top-most one, not to the closest enclosing parent. *)
Example ex_ds_topmost_not_closest :
  mux_match [(bytes_of_string "a.example.org.", 1); (ex_example_org, 2); (ex_org, 3)]
            (bytes_of_string "a.example.org.") TypeDS = Ok (Some 3).
Proof. reflexivity. Qed.

(* The property's reading "DS queries go to the enclosing parent zone" fails on
   the faithful model: a.example.org. is itself a registered zone, its enclosing
   parent zone example.org. (the closest registered proper ancestor, at label
   start 2) and org. are registered, no root pattern, and the DS query is routed
   to org. (known finding C14/Mux/ds-not-closest-parent). *)
Lemma ds_closest_parent_refuted_witness :
  exists (z : mux N) (q : bytes) (off : nat) (h : N),
    lookup z [46] = None /\ lookup z (canonical_name q) <> None /\
    (0 < off)%nat /\ label_start (canonical_name q) off /\
    lookup z (skipn off (canonical_name q)) = Some h /\
    (forall o, (0 < o < off)%nat -> label_start (canonical_name q) o ->
               lookup z (skipn o (canonical_name q)) = None) /\
    mux_match z q TypeDS <> Ok (Some h).
Proof.
  exists [(bytes_of_string "a.example.org.", 1); (ex_example_org, 2); (ex_org, 3)],
         (bytes_of_string "a.example.org."), 2%nat, 2.
  split; [reflexivity|]. split; [discriminate|]. split; [lia|].
  split; [right; exists 1%nat; repeat split; cbn; lia|].
  split; [reflexivity|]. split.
  - intros o Ho _. assert (o = 1%nat) by lia. subst o. reflexivity.
  - discriminate.
Qed.
