From Dns Require Import Model.NameWire.
Open Scope N_scope.
(* placeholder until Proofs/NameWireProofs.v lands: names not fully qualified are refused *)
Theorem nonfqdn_refused :
  forall s cap compress st, s <> [] -> is_fqdn_b s = false -> pack_name s cap compress st = Err "fqdn".
Proof. intros s cap compress st Hs Hf. unfold pack_name. destruct s; [congruence|]. now rewrite Hf. Qed.
