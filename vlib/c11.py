from .core import Check


class C11(Check):
    prop = "C11"
    props_rel = "Props/C11"
    corr_module = "Corr.C11"
    corr_rel = "Corr/C11"
    model_desc = ("Model/Wire.v: UnpackDomainName, unpackUint16/32/48, unpackMsgHdr, unpackQuestion, unpackHeader + "
                  "UnpackRRWithHeader framing, unpackRRslice, TSIG RDATA decoder; Model/Tsig.v: tsigBuffer (digest input), "
                  "stripTsig, tsigVerify with both HMAC providers, TsigGenerateWithProvider, envelope chains; HMAC, key store "
                  "and the other types' RDATA decoders are Section variables (instantiated for A, NS, CNAME, SOA, PTR, MX, TXT, private use)")
    rule = ("direct oracles on the implementation: sign random messages (all record kinds, compressed or not) with each of the "
            "five HMAC-SHA algorithms, both providers, request MAC absent/short/long, timers-only on/off; check layout against "
            "an independent framing walker, MAC against crypto/hmac over an independently built RFC 8945 4.3 digest, verdicts at "
            "now = signed +- {0,1,fudge,fudge+1}, every single-bit flip and every prefix of the signed octets, single-field "
            "re-encodings, wrong secret/request MAC/timers flag/key store, messages without TSIG, chains of 1..6 envelopes with "
            "removal/reordering/duplication/alteration. Sessions over scripted in-memory connections: Transfer.In (AXFR and IXFR, "
            "1..9 envelopes, every split, TsigSecret or TsigProvider, signed or unsigned request), Transfer.ReadMsg loops, "
            "Conn.ReadMsg and Client.ExchangeWithConn over stream and datagram conns, Server (TCP connection with several "
            "queries, UDP) with TsigStatus, response.WriteMsg and Transfer.Out; the peer signs with an independent RFC 8945 "
            "signer; for every envelope position (first, middle, last) and 29 tamperings (TSIG removed/moved/followed by a "
            "record, forged content, MAC altered or computed with another secret, prior MAC or variable mode, key or algorithm "
            "renamed, timer fields, stale/post-dated, envelope dropped/duplicated/reordered/injected/replayed from another "
            "session) the receiver must report an error at that position, deliver every envelope in front of it as verified and "
            "never deliver as verified content nobody signed; untampered chains must verify; what the library writes "
            "(requests, responses, outgoing envelopes) must be the RFC chain MAC. Key stores: every receive path x 14 receiver "
            "configurations (no store, empty map, other names, the name with another secret, in another case, without the dot, "
            "undecodable secret, right store, TsigProvider right / other secret / failing) x 5 message kinds (signed, garbage MAC, "
            "unknown key, unknown algorithm, no TSIG): verified iff the independent verifier accepts under the receiver's own "
            "store, and an error status whenever any store is configured. Header-count boundaries: messages of hundreds to thousands of "
            "tiny root-owner records whose answer/authority/additional counts sit at and around every carry between the low and the "
            "high octet of the header fields (254..258, 510..513, 256k-1/256k up to 5887 records below 64 KiB, ARCOUNT 65535 above it): "
            "TsigGenerate output equals octet for octet what an independent RFC 8945 signer builds (ARCOUNT+1 computed as an integer, MAC "
            "over the message with its original counts), verifies, strips back to the original message and counts, re-parses into the "
            "original sections; every single-bit and carry-shaped alteration of the four counts and every shift of a section boundary "
            "fails; the same messages as requests, replies and envelopes through Transfer, Conn, Client and Server (with all tamperings). "
            "Server sessions answer every request whose TSIG fails as RFC 8945 5.3.2 says (NOTAUTH + TSIG with BADTIME / BADSIG / "
            "BADKEY): the signed BADTIME reply to a request with a right MAC and a time outside the fudge window must be the RFC MAC "
            "over the MAC of ITS request (UDP, first and later request of a TCP connection), and the requests after it are served as before. "
            "Fudge window over the whole range of its operands: messages with a RIGHT MAC (TsigGenerate with TimeSigned preset, or the "
            "independent signer) whose TimeSigned covers the 48-bit field (both ends, around 2^15/2^16/2^31/2^32/2^33/2^40/2^47, upper 16 bits "
            "in use) and whose fudge is 0 (default 300), 1, 2, 299..301, 32767, 32768, 65535; clock at TimeSigned +- (B +- {0, 1, fudge, fudge+1}) "
            "for B = 0, every power of two up to 2^63 and multiples of 2^32: success iff the distance is <= fudge, ErrTime otherwise, through "
            "tsigVerify(now), TsigVerify and TsigVerifyWithProvider (wall clock, 120 s margin), and as a tampering of every session receive path. "
            "Model cases: name decoder, stripTsig, tsigBuffer, digest, verify, generate, "
            "chain on boundary-directed hand-made octets (both sides of every bounds check) and on sampled alterations; chain and verify "
            "cases whose implementation verdict is the one Transfer.In / Transfer.ReadMsg / Conn.ReadMsg / TsigStatus reported. A case is "
            "non-trivial when its input is longer than a DNS header; distinct by hash of (function, arguments, output).")
    partial = ["HMAC is a Section variable: unforgeability is the named hypothesis mac_binding (hmac a k injective in its data), "
               "not a theorem; crypto/hmac itself is exercised by the harness only",
               "the RDATA decoders of record types other than TSIG are a Section variable (theorems hold for every decoder); the "
               "correspondence instantiates A, NS, CNAME, PTR, MX, TXT and private-use types",
               "m.Pack() is an input of the generate model (octets mbuf); the theorems assume it is well framed (wf_packed)",
               "names longer than 255 octets and TSIG RDATA above 65535 octets are outside the correspondence"]
    trusted = ["label-list view of names: CanonicalName on a presentation string equals lower-casing A-Z in the labels "
               "(exact for the strings UnpackDomainName produces)"]
    shard_size = 300

    def nontrivial(self, c):
        return len(c["args"][0]) > 24


CHECK = C11()
