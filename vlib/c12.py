from .core import Check


class C12(Check):
    prop = "C12"
    props_rel = "Props/C12"
    corr_module = "Corr.C12"
    corr_rel = "Corr/C12"
    model_desc = ("Model/Frame.v: io.ReadFull over a chunked stream, server readTCP, Conn.ReadMsgHeader, Conn.Read, the "
                  "serveTCPConn loop with its query limit, Conn.Write / response.Write (refusal above 65535 octets, one "
                  "Write per frame), Client.ExchangeWithConnContext for streams (ErrId) and datagrams (skip loop, receive "
                  "buffer size, deadline; exchange_dgram_timed: arrivals with their times, the read deadline fixed once as the "
                  "earlier of Client.Timeout/ReadTimeout/2 s and the context's deadline; exchange_session: several exchanges on one Conn - "
                  "the receive size is a field of the Conn set per exchange from the query's OPT size, else Client.UDPSize, else kept; "
                  "unread datagrams stay queued for the next exchange); Model/PoolLts.v: labelled transition system of the UDP receive-buffer pool "
                  "(receive into a pooled buffer / decode-then-Put / drop / handle) for any number of interleaved requests")
    rule = ("model cases: streams given as recipes (frames of 0..4095 octets and 32768/65534/65535 octets, raw tails, early "
            "EOF) x chunkings (whole, octet by octet, cuts at frame boundaries +-1, split length octets, random with empty "
            "reads) through the real server TCP loop (DecorateReader records what readTCP returned), Conn.ReadMsgHeader and "
            "Conn.Read; Conn.Write and response.Write for sizes 0..70000; Client.ExchangeWithConn over scripted stream and "
            "datagram conns with foreign/stale/duplicate/short/undecodable/over-long replies in random order; the same "
            "schedules against EVERY exported exchange entry point (enumerated at run time from the library's source and "
            "by reflection: Exchange, ExchangeContext, ExchangeConn, Client.Exchange, ExchangeContext, ExchangeWithConn, "
            "ExchangeWithConnContext; an entry point without a driver is reported) over scripted stream/datagram conns "
            "resp. scripted UDP/TCP peers on 127.0.0.1. Exhaustive: "
            "every EOF offset x every single split point of a four-frame stream (741 runs). Direct oracles restate the "
            "property on the implementation (reference frame parser, ID rule, cross-talk checks). Timed exchanges: paced "
            "scripted peers (and a peer on 127.0.0.1) send a never-ending stream of foreign/stale/duplicate replies at rates "
            "from a flood to just under the timeout, with no matching reply, a matching reply long after and long before "
            "the deadline, for every way of configuring the deadline (Timeout, ReadTimeout, default, context earlier/later); "
            "the exchange must end at the deadline (never before, at most 4 s after) - model cases xtimed. Kept requests: "
            "requests whose every variable-length part (all EDNS0 option kinds incl. local/unknown codes, TXT, NULL, "
            "unknown-type RDATA, long names, a record of every registered type) is unique per request; handlers keep them "
            "while the server receives on (one P with forced buffer recycling, all Ps, TCP connections, real sockets), then "
            "compare with an independent decode of what the client sent and reply from them. Histories with non-accepted "
            "datagrams: accepted requests preceded and interleaved by every other outcome of the accept policy (FORMERR, "
            "NOTIMP, ignore, undecodable body, shorter than a header, custom policy), each accepted request held in "
            "MsgAcceptFunc while the next two datagrams are received; kept-request and reply-octet oracles plus: no read "
            "returns a buffer whose datagram has not left MsgAcceptFunc yet (DecorateReader). The same histories behind "
            "decorated readers (header/trailer stripped: sub-slice, capacity cut, copy) and writers (header, trailer, two "
            "datagrams) with on-wire sizes directed at UDPSize. Wildcard UDP listeners (udp4, udp6, dual-stack) reached "
            "through several local addresses at once, handlers writing 1-3 replies with other requests in between: every "
            "reply arrives from the address its client sent to. Sessions: 2-6 exchanges on ONE datagram Conn with one Client "
            "where the advertised size (OPT none / below 512 / 511..513 / 600 / 800 / 1232 / 4096 / 8192 / 65535), "
            "Client.UDPSize, the Conn's initial UDPSize and the reply size (both sides of every limit in play) change from "
            "exchange to exchange, stale and duplicate replies staying queued for the next one - model cases xsession, "
            "oracle: a matching reply within the advertised size is returned intact whatever came before; the same against "
            "real UDP/TCP servers. Kept writers: handlers that use their ResponseWriter after returning (Hijack + goroutine, "
            "Transfer.Out, late writes on an open and on a closed connection, late UDP replies) while other connections "
            "are accepted, served and closed: every reply on its own connection, in order, nothing anywhere else. "
            "Servers that need the raw datagram after decoding it: scripted UDP histories against servers with TsigSecret "
            "or an application TsigProvider, rich requests signed (five HMAC algorithms, per-request keys) correctly / "
            "correctly and forwarded (ID differs from the TSIG original ID) / with another secret / an unknown key / a "
            "stale time / not at all, each parked - inside the first decode or inside TSIG verification (Unpack callback "
            "of a privately registered type), in TsigProvider.Verify, in MsgAcceptFunc, in the handler - while the next "
            "two datagrams are received (one P and all Ps): the handler sees its client's request and TsigStatus() == nil "
            "exactly when that client's signature is right, the client gets the echo signed in continuation of its own "
            "request MAC, and no read returns a buffer whose datagram has not reached TsigProvider.Verify yet. "
            "Histories on one long-lived object: requests with differing TSIG situations (every ordered pair of unsigned / "
            "signed / forwarded / bad-mac / unknown-key / bad-time, and longer sequences) on ONE stream connection of a "
            "TSIG-configured server - each handler is told the verdict about ITS request only, each reply is signed over "
            "its own request's MAC; 2-10 replies read from ONE connection through Conn.ReadMsgHeader / Read / ReadMsg "
            "(stream and datagram) with all earlier results still held - each still is its reply after the last read "
            "(also in every readclient case); ONE Server value shut down, reconfigured (UDPSize up and down, Handler, "
            "TsigSecret, MsgAcceptFunc) and started again, 2-4 lives, UDP and TCP, with and without a garbage collection "
            "in between - every request within the UDPSize of its life reaches that life's handler intact and is answered by it. "
            "Non-trivial = at least "
            "one message delivered or an ok exchange; distinct by hash.")
    partial = [
        "no mixing across requests, connections or recycled buffers under real concurrency is a RUNTIME OBSERVATION: "
        "scripted UDP server with 300 queued datagrams x8, 8 concurrent scripted TCP connections x8, 8 concurrent "
        "clients x 25 requests against real UDP and TCP servers on 127.0.0.1, the decoded-request-does-not-alias-the-"
        "buffer test, the single-P buffer-recycling-order test, the kept-request tests (handlers parked while the "
        "receive buffer of their request is recycled) and the TSIG histories (requests parked inside decoding and inside "
        "TSIG verification while the following datagrams are received; the LTS step StDecode stands for everything "
        "serveDNS does with the raw octets before the Put, verification included); the Go scheduler and kernel sockets "
        "are outside the model",
        "one response writer per connection/request - what a handler writes through a writer it kept beyond its call "
        "(Hijack, Transfer.Out, late writes) goes to its own connection only - is a RUNTIME OBSERVATION over scripted "
        "connections/datagrams and real TCP sockets (writer identity is not part of the model)",
        "deadline behaviour in wall-clock time is a RUNTIME OBSERVATION with 4 s tolerance (verdicts are dropped when the "
        "harness' own timers ran more than 1 s late); the theorems about exchange_dgram_timed hold for the model in which "
        "the deadline is fixed when the request is written",
        "handler_sees_own_request is proved for the transition system of Model/PoolLts.v (every interleaving, any number "
        "of requests); that serveDNS performs decode -> Put -> handler in this order and that Msg.unpack copies what it "
        "keeps (C16) is read off the code and observed, not proved about the Go code",
        "[decodes] (does Msg.Unpack succeed) is a parameter of the exchange model (property C02 is about the decoder)",
        "short writes: dns.Conn issues exactly one Write per frame and returns the transport's error; a transport that "
        "accepts fewer octets without reporting an error violates io.Writer and is outside the model",
        "the deprecated ExchangeConn over a datagram conn returns ErrId for a foreign first reply instead of skipping it "
        "(known finding C12/Exchange/ExchangeConn-udp-no-skip; it never returns a foreign reply without an error); the "
        "model and the theorems describe the skipping exchange of Client.ExchangeWithConnContext",
        "exchanges against peers on 127.0.0.1 are judged only on outcomes that do not depend on time (reply, ErrId, "
        "decode error, EOF); a timeout where a reply was due is counted, not reported",
        "over datagrams a short (<12 octets) or undecodable datagram ends the exchange with that error instead of being "
        "skipped (modelled and proved as the code does it; the property text speaks of replies with other IDs)",
    ]
    trusted = ["netfake scripted conns implement net.Conn / net.PacketConn read semantics (one chunk per Read, EOF after the script)"]
    shard_size = 100

    def nontrivial(self, c):
        o = c.get("out", "")
        return not (o.startswith("|") or o.startswith("err:"))


CHECK = C12()
