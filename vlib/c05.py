from .core import Check


class C05(Check):
    prop = "C05"
    props_rel = "Props/C05"
    corr_module = "Corr.C05"
    corr_rel = "Corr/C05"
    model_desc = (
        "Model/Present.v, hand model function by function: types.go nextByte, writeTXTStringByte/escapeByte, sprintTxt, "
        "sprintTxtOctet, sprintName; msg.go packTxtString/packOctetString (escape interpretation) and msg_helpers.go "
        "unpackString; defaults.go Type.String/Class.String with the TypeToString/ClassToString/TypeToRR tables written "
        "out by hand (compared with the real maps on every run); dns.go RR_Header.String, types.go rfc3597Header and "
        "RFC3597.String; scan.go zlexer.Next for one logical line (quotes, escapes, blanks, parentheses, type/class "
        "classification incl. TYPEnnn/CLASSnnn; comments and directives are reported as outside the model), "
        "typeToInt/classToInt, stringToTTL, toAbsoluteName with IsDomainName, slurpRemainder and the header part of "
        "ZoneParser.Next as NewRR drives it; scan_rr.go escapedStringOffset, endingToTxtSlice (255-chunking), "
        "endingToString, RFC3597.parse; a presentation grammar (uint, name, IPv4, quoted strings, octet string, hex, "
        "base64, type list) with a layout table for 49 regular types covering their String() and parse() methods; "
        "and further atoms for 17 irregular types (HINFO, ISDN, UINFO, X25, GPOS, CAA, NAPTR, SMIMEA, NSEC3PARAM, NSEC3, CERT, "
        "RRSIG, SIG, EUI48, EUI64, NID, L64): strings printed verbatim with or without quotes, the HINFO/ISDN chunk "
        "repair with strings.Fields (ASCII), saltToString and the recomputed SaltLength, NSEC3 HashLength := 20, "
        "splitN, the CertTypeToString/AlgorithmToString tables (compared with the real maps and their reverse maps on "
        "every run), RRSIG type covered / algorithm mnemonics, TimeToString for a clock reading given as a parameter "
        "and StringToTime (time.Format/time.Parse of layout 20060102150405 by calendar arithmetic, the RFC 1982 "
        "serial arithmetic and the uint32 truncation), euiToString and the EUI parsers, the NID/L64 groups and "
        "stringToNodeID; B05b: HIP (HIT and key verbatim with the recomputed lengths, base64.StdEncoding.DecodeString as a "
        "length function, the rendezvous server list), IPSECKEY and AMTRELAY (compound three-token atoms, net.IP.String, "
        "parseAddrHostUnion with the To4() family test, AMTRELAY discovery bit) and AAAA (netip.Addr.AppendTo zero-run "
        "compression, netip.parseIPv6 in full, the ParseAddr dispatch, the ::ffff: prefix of AAAA.String).")
    rule = (
        "direct oracles on the implementation alone: for every type in dns.TypeToRR with a presentation format (all but "
        "ANY, NULL, NXNAME, OPT, TSIG, TKEY; the exclusion list is re-checked against the code at run time) records are "
        "built from wire RDATA assembled field by field from the struct tags by an encoder independent of the library; "
        "systematic sweep with one field at a time drawn from a named value class (owner/TTL/class included; strings "
        "with blank, quote, backslash, backslash-digits, semicolon, parenthesis, other punctuation, non-printable and "
        "non-ASCII octets, empty, 255 octets plain and all-escaped; names with every special; integers 0/max; blobs "
        "empty/1/long; type lists with unknown, meta and window-boundary types; every SVCB key kind, APL, gateway kinds, "
        "LOC ranges) x 4 placements (16 thorough), then all fields random. Each record: UnpackRR, String(), NewRR, "
        "PackRR must give the original octets (header and RDATA), also after TYPEnnn/CLASSnnn/lower-case respelling of "
        "the header, as RFC 3597 generic form with both header spellings and through ToRFC3597; the text must consist "
        "of printable ASCII and TAB and be tokenised by an independent RFC 1035 reader (no comment, parenthesis, "
        "unbalanced quote) whose header columns decode to the record's header; the record re-read from text must "
        "itself print re-readably (a variant of the struct holding raw instead of escaped strings is tried too but "
        "only counted: it comes neither from the wire nor from text). All 65536 type and class codes: TYPEnnn, CLASSnnn (both letter cases), mnemonic and Type.String/"
        "Class.String must be read as that code, out-of-range and malformed numbers refused. Records without RDATA, "
        "unregistered types, and an independent reader decoding the quoted strings of TXT-like types. Model cases: "
        "escaping functions on all 256 octets raw and escaped, bounded-exhaustive short strings over the escape "
        "alphabet, random strings, the 255/1025 limits; lexer tokens on bounded-exhaustive short inputs, hand-written "
        "lines and every printed record; endingToTxtSlice/endingToString; Type.String/Class.String of all 65536 codes "
        "by block checksum (sampled blocks in quick); CertTypeToString/AlgorithmToString; TimeToString at the clock "
        "reading of the run and StringToTime on boundary dates, invalid dates, fractions and random times; header and RDATA text of generated records of the 70 covered "
        "types (model present = String()) and the parse result of NewRR on them and on hand-written header shapes, "
        "generic forms and malformed lines (model parse = NewRR). A case is non-trivial when its arguments are not "
        "empty; distinct by hash of (function, arguments, output).")
    partial = [
        "four irregular printers are not modelled; they are covered by the Go oracles only (modelled: false): "
        "LOC, APL, SVCB, HTTPS",
        "B05b rows: net.IP values are seen through To16() (nil = empty, four octets = IPv4-mapped; other lengths outside the "
        "model); HIP round trip under HitLength = uint8(len/2), PublicKeyLength = uint16(decoded length), HIT/key one word; "
        "gateway under gw_wf (type 1 IPv4(-mapped), type 2 not IPv4-mapped, type 3 an absolute one-word host); IPv6 text is "
        "proved for every 16-octet address (c05_ip6_roundtrip, c05_aaaa_roundtrip)",
        "c05_ipseckey_v4mapped_refuted / c05_ipseckey_v4_reread and c05_hip_empty_hit_refuted prove two more known findings "
        "on the model (IPv4-mapped gateway under type 2; empty HIP HIT)",
        "GPOS: strconv.ParseFloat is modelled as accepting plain decimals (sign, digits, at most one point, up to 300 "
        "octets) and rejecting the empty token; for any other token the model gives no answer (OutOfFuel) and the round "
        "trip is proved for plain decimals only",
        "RRSIG/SIG time rendering depends on the wall clock (TimeToString): the model takes the clock reading as a "
        "parameter, c05_time_roundtrip holds for every reading from 1970 on (c05_time_before_1970_refuted shows the "
        "hypothesis is needed); the correspondence exercises the reading of the run only",
        "the round trip of the irregular rows holds under the row's well-formedness (wf_val): verbatim strings that are "
        "one word / have every quote escaped, NSEC3 HashLength 20, SMIMEA text whose 1024-character pieces are words "
        "(a length that is a multiple of 1024 prints a trailing blank: outside the theorem), EUI48 below 2^48; "
        "c05_x25_empty_refuted, c05_caa_empty_tag_refuted, c05_nsec3_hash_length_refuted prove three known findings on the model",
        "HINFO/ISDN: strings.Fields is modelled for ASCII; a lone chunk with an octet >= 0x80 is outside the model (OutOfFuel)",
        "octet-identical RDATA is proved as equality of what each printed field denotes (unescape, name_units, unhex, "
        "numbers, type codes); the wire codecs themselves are C01's; the harness checks real PackRR octets",
        "c05_record_roundtrip assumes toAbsoluteName accepts the printed names (IsDomainName); that valid wire names "
        "satisfy it is C03's theorem",
        "sprintName on non-canonical spellings put into a struct by a caller is covered by correspondence and the "
        "second-generation oracle, not by a theorem (the theorem covers every name UnpackDomainName can produce)",
        "the general zone lexer (comments, directives, multi-record input) belongs to C06/C07; here one record line",
        "Type.String of codes 0, 255, 65535 is refuted on the model (c05_type_string_refuted), not proved",
    ]
    trusted = [
        "the model's strings.ToUpper is ASCII only (Go's is Unicode aware; differs only for non-ASCII letters in a type/class token)",
        "net.IP.String / net.ParseIP: dotted-quad IPv4 and (B05b) IPv6 by hand models of netip.Addr.AppendTo / "
        "netip.parseIPv6; encoding/base64 DecodeString as a hand-written acceptance and length function",
        "time.Unix/Format/Parse (layout 20060102150405) are modelled by proleptic Gregorian calendar arithmetic; fmt %x/%X, "
        "strconv.ParseUint base 16, strings.Fields (ASCII)",
        "strconv.Itoa/ParseUint, strings.Builder, reflect-based field extraction in the harness",
    ]
    shard_size = 220

    def nontrivial(self, c):
        return len("".join(c.get("args", []))) > 2


CHECK = C05()
