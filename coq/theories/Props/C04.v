(* Props/C04.v — property C04 (name compression).  Only statements.
   The clauses about the packer's compression map (transparency, never longer,
   pointer validity) are carried by the correspondence check and its independent
   wire reader until Proofs/CompressProofs.v lands (partial); the clauses below
   are complete checks of the tables regenerated from zmsg.go on every run. *)
From Dns Require Import Model.Msg Spec.RfcSets Proofs.LayoutProofs Gen.Layouts.
Open Scope N_scope.

(* names inside RDATA are packed with compression only for the RFC 1035 types
   (RFC 3597 section 4) ... *)
Theorem rdata_names_compressed_only_for_rfc1035_types :
  forallb (fun L => negb (existsb (fun pf : pfield => compresses (snd pf)) (tl_pack L))
                    || existsb (String.eqb (tl_name L)) rfc1035_compressible) layouts = true.
Proof. exact only_rfc1035_types_compress_rdata. Qed.

(* ... and every one of those types does compress all its RDATA names *)
Theorem rfc1035_types_compress_their_names :
  forallb (fun n => match find_layout layouts n with
                    | Some L => forallb (fun pf : pfield => match snd pf with K_name c => c | _ => true end) (tl_pack L)
                    | None => false end) rfc1035_compressible = true.
Proof. exact rfc1035_types_do_compress. Qed.

(* compressed names are accepted on input for every type: every name field of
   every generated unpack() is read by the one name decoder that follows
   pointers (the pack and unpack sides walk the same fields) *)
Theorem unpack_sides_read_the_same_fields :
  forallb (fun L => sides_agree (tl_pack L) (tl_unpack L)) layouts = true.
Proof. exact pack_unpack_sides_agree. Qed.
