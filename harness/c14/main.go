package main

// C14: server admission and routing. The harness drives the REAL code:
//   * dns.DefaultMsgAcceptFunc on header combinations,
//   * (*Server).serveDNS through the hook VerifServeDNS with recording conns,
//     and the real serveUDP / serveTCPConn loops through ActivateAndServe on
//     scripted (kernel-free) net.PacketConn / net.Listener objects,
//   * (*ServeMux).match (hook) and ServeMux.ServeDNS,
//   * Msg.SetReply / SetRcode / SetRcodeFormatError and handleRefused,
// prints model cases for Corr/C14.v and evaluates the property's clauses
// directly on what the implementation did (Viol lines).

import (
	"bytes"
	"crypto/sha1"
	"encoding/binary"
	"errors"
	"fmt"
	"net"
	"reflect"
	"sort"
	"strings"
	"sync"
	"time"

	"github.com/miekg/dns"
	. "verif/harness/common"
	"verif/harness/netfake"
)

func main() { Main(runC14) }

var stat = map[string]int{}

const infraWait = 20 * time.Second

// ------------------------------------------------------------------ helpers

func digest(m *dns.Msg) string {
	s := Protect(func() string { return fmt.Sprintf("%+v|%+v|%s", m.MsgHdr, m.Question, m.String()) })
	h := sha1.Sum([]byte(s))
	return Hx(h[:6])
}

func packQ(q dns.Question) []byte {
	buf := make([]byte, 600)
	off, err := dns.PackDomainName(q.Name, buf, 0, nil, false)
	if err != nil {
		return []byte{0xff}
	}
	buf = buf[:off]
	buf = binary.BigEndian.AppendUint16(buf, q.Qtype)
	buf = binary.BigEndian.AppendUint16(buf, q.Qclass)
	return buf
}

// unpackOracle renders what (*Msg).Unpack says about m, as the model's
// [unpack] parameter: ok:<digest of the decoded message> or err:<questions
// decoded before the error, each in wire form>.
func unpackOracle(m []byte) (string, *dns.Msg, error) {
	um := new(dns.Msg)
	var err error
	if Protect(func() string { err = um.Unpack(m); return "" }) == "panic" {
		return "panic", new(dns.Msg), errors.New("the decoder panicked")
	}
	if err == nil {
		return "ok:" + digest(um), um, nil
	}
	var qs []string
	for _, q := range um.Question {
		qs = append(qs, Hx(packQ(q)))
	}
	return "err:" + strings.Join(qs, ","), um, err
}

func classifyInvalid(err error) string {
	if errors.Is(err, dns.ErrShortRead) {
		return "short-read"
	}
	s := err.Error()
	switch {
	case strings.HasPrefix(s, "bad header id"):
		return "hdr-id"
	case strings.HasPrefix(s, "bad header bits"):
		return "hdr-bits"
	case strings.HasPrefix(s, "bad header question count"):
		return "hdr-qd"
	case strings.HasPrefix(s, "bad header answer count"):
		return "hdr-an"
	case strings.HasPrefix(s, "bad header ns count"):
		return "hdr-ns"
	case strings.HasPrefix(s, "bad header extra count"):
		return "hdr-ar"
	}
	return "unpack"
}

// recorder collects the events of ONE inbound message in order.
type recorder struct {
	mu        sync.Mutex
	ev        []string
	inHandler bool
	reqs      []*dns.Msg
	in        []byte
	// stream mode (several messages on one connection, see stream.go): the
	// octets given to MsgInvalidFunc are kept and attributed to a message later.
	multi bool
	invs  [][]byte
}

func (r *recorder) add(s string) {
	r.mu.Lock()
	r.ev = append(r.ev, s)
	r.mu.Unlock()
}
func (r *recorder) write(b []byte, tcp bool) {
	if tcp {
		if len(b) < 2 || int(binary.BigEndian.Uint16(b)) != len(b)-2 {
			r.add("w:BADFRAME" + Hx(b))
			return
		}
		b = b[2:]
	}
	r.mu.Lock()
	if r.inHandler {
		r.ev = append(r.ev, "hw:"+Hx(b))
	} else {
		r.ev = append(r.ev, "w:"+Hx(b))
	}
	r.mu.Unlock()
}
func (r *recorder) invalid(m []byte, err error) {
	s := "inv:" + classifyInvalid(err)
	if r.multi {
		r.mu.Lock()
		r.invs = append(r.invs, append([]byte(nil), m...))
		r.ev = append(r.ev, s)
		r.mu.Unlock()
		return
	}
	if !bytes.Equal(m, r.in) {
		s += ":OTHERBYTES"
	}
	r.add(s)
}
func (r *recorder) handler(w dns.ResponseWriter, req *dns.Msg) {
	r.mu.Lock()
	r.ev = append(r.ev, "h:"+digest(req))
	r.reqs = append(r.reqs, req.Copy())
	r.inHandler = true
	r.mu.Unlock()
	m := new(dns.Msg)
	m.SetReply(req)
	w.WriteMsg(m)
	r.mu.Lock()
	r.inHandler = false
	r.mu.Unlock()
}

// modelEvents drops the handler's own writes (the model's event list ends at
// the handler call).
func modelEvents(ev []string) string {
	var o []string
	for _, e := range ev {
		if !strings.HasPrefix(e, "hw:") {
			o = append(o, e)
		}
	}
	if len(o) == 0 {
		return "none"
	}
	return strings.Join(o, ";")
}

var policies = map[string]dns.MsgAcceptFunc{
	"default": nil,
	"accept":  func(dns.Header) dns.MsgAcceptAction { return dns.MsgAccept },
	"reject":  func(dns.Header) dns.MsgAcceptAction { return dns.MsgReject },
	"ignore":  func(dns.Header) dns.MsgAcceptAction { return dns.MsgIgnore },
	"notimp":  func(dns.Header) dns.MsgAcceptAction { return dns.MsgRejectNotImplemented },
}

func newServer(pol string, rec *recorder) *dns.Server {
	return &dns.Server{
		Handler:        dns.HandlerFunc(rec.handler),
		MsgAcceptFunc:  policies[pol],
		MsgInvalidFunc: rec.invalid,
		UDPSize:        4096,
	}
}

// asReceived: a private copy of m in a slice shaped as the server's readers
// shape it: readTCP allocates exactly the announced length (capacity = length, so
// an over-read by a decoder is out of range), readUDP hands out the first n octets
// of a receive buffer of UDPSize octets.
func asReceived(tr string, m []byte) []byte {
	if tr == "udp" && len(m) <= 4096 {
		b := make([]byte, 4096)
		return b[:copy(b, m)]
	}
	b := make([]byte, len(m))
	copy(b, m)
	return b
}

// serveHook runs serveDNS directly (hook). The UDP short-packet test lives in
// serveUDP, so for len < 12 over UDP the hook path is not applicable.
func serveHook(tr, pol string, m []byte) (string, *recorder) {
	rec := &recorder{in: m}
	srv := newServer(pol, rec)
	dns.VerifServerInit(srv)
	res := Protect(func() string {
		if tr == "udp" {
			pc := netfake.NewPacketConn(nil, nil)
			pc.OnWrite = func(_ net.Addr, b []byte) { rec.write(b, false) }
			dns.VerifServeDNS(srv, asReceived("udp", m), pc, netfake.Addr{N: 1}, nil)
		} else {
			c := netfake.NewConn(nil)
			c.OnWrite = func(b []byte) { rec.write(b, true) }
			dns.VerifServeDNS(srv, asReceived("tcp", m), nil, nil, c)
		}
		return ""
	})
	if res == "panic" {
		return "panic", rec
	}
	return modelEvents(rec.ev), rec
}

// serveLoop runs the real serve loop (serveUDP -> serveUDPPacket, or serveTCP
// -> serveTCPConn -> readTCP) on scripted conns carrying the messages ms of one
// peer, and returns the event log. ok=false means the test infrastructure
// timed out (not a property violation).
func serveLoop(tr, pol string, ms [][]byte, rec *recorder) (ok bool) {
	if !decoderSafe(tr, pol, ms...) {
		return false
	}
	srv := newServer(pol, rec)
	done := make(chan error, 1)
	if tr == "udp" {
		pc := netfake.NewPacketConn(ms, nil)
		pc.OnWrite = func(_ net.Addr, b []byte) { rec.write(b, false) }
		srv.PacketConn = pc
		go func() { done <- srv.ActivateAndServe() }()
		if !netfake.WaitChan(pc.Drained, infraWait) {
			return false
		}
	} else {
		var stream []byte
		for _, m := range ms {
			stream = binary.BigEndian.AppendUint16(stream, uint16(len(m)))
			stream = append(stream, m...)
		}
		return serveLoopChunks(srv, [][]byte{stream}, rec)
	}
	return finishServe(srv, done)
}

// decoderSafe: the goroutines of the real serve loops cannot be recovered from
// here, a panic in one of them ends the harness (and loses its output). So every
// message goes through the decoder on this goroutine first; a panic there is
// reported with the message and the loops are not run on it.
var decoderVerdict = map[string]bool{}

func decoderSafe(tr, pol string, ms ...[]byte) bool {
	all := true
	for _, m := range ms {
		safe, known := decoderVerdict[string(m)]
		if !known {
			safe = Protect(func() string { new(dns.Msg).Unpack(asReceived("tcp", m)); return "" }) != "panic"
			if len(decoderVerdict) < 1<<17 {
				decoderVerdict[string(m)] = safe
			}
			if !safe {
				Viol("C14/Serve/panic", "the message decoder the server runs on every admitted message panicked (message in a buffer of exactly its length, as readTCP allocates it)", serveIn{"tcp", pol, Hx(m), ""})
			}
		}
		if !safe {
			stat["serve_loop_skipped_decoder_panics"]++
			all = false
		}
	}
	return all
}

// serveLoopChunks runs serveTCP -> serveTCPConn -> readTCP on ONE scripted
// stream connection whose Read calls return exactly the given segments, one
// per call (a segment longer than the reader's buffer is continued by the next
// call), then io.EOF.
func serveLoopChunks(srv *dns.Server, chunks [][]byte, rec *recorder) (ok bool) {
	done := make(chan error, 1)
	{
		c := netfake.NewConn(chunks)
		c.OnWrite = func(b []byte) { rec.write(b, true) }
		l := netfake.NewListener(c)
		srv.Listener = l
		go func() { done <- srv.ActivateAndServe() }()
		if !netfake.WaitClosed(c, infraWait) {
			return false
		}
	}
	return finishServe(srv, done)
}

func finishServe(srv *dns.Server, done chan error) bool {
	sd := make(chan error, 1)
	go func() { sd <- srv.Shutdown() }()
	select {
	case <-sd:
	case <-time.After(infraWait):
		return false
	}
	select {
	case <-done:
	case <-time.After(infraWait):
		return false
	}
	return true
}

type serveIn struct {
	Transport string `json:"transport"`
	Policy    string `json:"policy"`
	Msg       string `json:"msg_hex"`
	Events    string `json:"events,omitempty"`
}

func hdrOf(m []byte) (dns.Header, bool) {
	if len(m) < 12 {
		return dns.Header{}, false
	}
	be := binary.BigEndian
	return dns.Header{Id: be.Uint16(m), Bits: be.Uint16(m[2:]), Qdcount: be.Uint16(m[4:]), Ancount: be.Uint16(m[6:]),
		Nscount: be.Uint16(m[8:]), Arcount: be.Uint16(m[10:])}, true
}

// expectedDefault is the default policy written from the property text and the
// documented limits (independent of defaultMsgAcceptFunc).
func expectedDefault(h dns.Header) dns.MsgAcceptAction {
	if h.Bits&0x8000 != 0 {
		return dns.MsgIgnore
	}
	op := (h.Bits >> 11) & 15
	if op != 0 && op != 4 {
		return dns.MsgRejectNotImplemented
	}
	if h.Qdcount != 1 || h.Ancount > 1 || h.Nscount > 1 || h.Arcount > 2 {
		return dns.MsgReject
	}
	return dns.MsgAccept
}

func policyAction(pol string, h dns.Header) dns.MsgAcceptAction {
	switch pol {
	case "accept":
		return dns.MsgAccept
	case "reject":
		return dns.MsgReject
	case "ignore":
		return dns.MsgIgnore
	case "notimp":
		return dns.MsgRejectNotImplemented
	}
	return expectedDefault(h)
}

// oracleSink, when set, receives the verdicts of serveOracleIn instead of Viol.
var oracleSink func(key, desc string)

// serveOracle states the admission clauses of C14 on the observed event log.
func serveOracle(tr, pol string, m []byte, ev []string, rec *recorder, path string) {
	serveOracleIn(tr, pol, m, ev, rec, path, serveIn{tr, pol, Hx(m), strings.Join(ev, ";")})
}

// serveOracleIn: the same with the replay input given by the caller (a whole
// stream history for messages that arrive on a shared connection).
func serveOracleIn(tr, pol string, m []byte, ev []string, rec *recorder, path string, in any) {
	stat["serve_oracle_checked"]++
	bad := func(key, desc string) {
		if oracleSink != nil { // verdicts collected by the caller (udpsize.go: real sockets, reported only when they repeat)
			oracleSink("C14/Serve/"+key, path+": "+desc)
			return
		}
		Viol("C14/Serve/"+key, path+": "+desc, in)
	}
	var nh, ninv int
	var libWrites [][]byte
	for _, e := range ev {
		switch {
		case strings.HasPrefix(e, "h:"):
			nh++
		case strings.HasPrefix(e, "inv:"):
			ninv++
			if strings.HasSuffix(e, ":OTHERBYTES") {
				bad("invalid-callback-bytes", "MsgInvalidFunc got octets different from the inbound message")
			}
		case strings.HasPrefix(e, "w:BADFRAME"):
			bad("tcp-frame", "reply on the stream is not length-prefixed correctly")
		case strings.HasPrefix(e, "w:"):
			libWrites = append(libWrites, Unhx(e[2:]))
		}
	}
	h, hok := hdrOf(m)
	_, um, uerr := unpackOracle(m)
	act := policyAction(pol, h)
	wantHandler := hok && act == dns.MsgAccept && uerr == nil
	// exactly once / not at all
	if wantHandler && nh != 1 {
		bad("handler-not-once", fmt.Sprintf("message passes the policy and decodes but handler ran %d times", nh))
	}
	if !wantHandler && nh != 0 {
		bad("handler-unexpected", fmt.Sprintf("handler ran %d times for a message that is refused, ignored or undecodable", nh))
	}
	_ = reflect.DeepEqual
	if wantHandler && nh == 1 && len(rec.reqs) == 1 && digest(rec.reqs[0]) != digest(um) {
		bad("handler-request", "handler saw a request different from the decoded message")
	}
	// accounted
	if nh == 0 {
		byPolicy := hok && act != dns.MsgAccept
		if !byPolicy && ninv == 0 {
			bad("unaccounted", "message neither handled, nor refused/ignored by the policy, nor reported to MsgInvalidFunc")
		}
	}
	if hok && act != dns.MsgAccept && ninv != 0 {
		bad("invalid-on-policy", "MsgInvalidFunc called for a message the policy refused/ignored")
	}
	if ninv > 1 {
		bad("invalid-twice", "MsgInvalidFunc called more than once")
	}
	// replies constructed by the library
	wantReply := hok && (act == dns.MsgReject || act == dns.MsgRejectNotImplemented || (act == dns.MsgAccept && uerr != nil))
	if wantReply && len(libWrites) != 1 {
		bad("reject-reply-count", fmt.Sprintf("expected one FORMERR/NOTIMP reply, saw %d", len(libWrites)))
	}
	if !wantReply && len(libWrites) != 0 {
		bad("reply-unexpected", fmt.Sprintf("library wrote %d replies where none is due (QR set / ignored / short / handled)", len(libWrites)))
	}
	for _, w := range libWrites {
		rh, ok := hdrOf(w)
		if !ok {
			bad("reply-short", "reply shorter than a header")
			continue
		}
		if rh.Id != h.Id {
			bad("reply-id", "reply does not carry the request's ID")
		}
		if rh.Bits&0x8000 == 0 {
			bad("reply-qr", "reply without QR")
		}
		if rh.Ancount != 0 || rh.Nscount != 0 || rh.Arcount != 0 {
			bad("reply-records", "reject reply carries answer/authority/additional records")
		}
		wantRc := uint16(dns.RcodeFormatError)
		if act == dns.MsgRejectNotImplemented {
			wantRc = dns.RcodeNotImplemented
			if (rh.Bits>>11)&15 != (h.Bits>>11)&15 {
				bad("notimp-opcode", "NOTIMP reply does not echo the opcode")
			}
		}
		if rh.Bits&15 != wantRc {
			bad("reply-rcode", fmt.Sprintf("reply rcode %d, want %d", rh.Bits&15, wantRc))
		}
		var rm dns.Msg
		if err := rm.Unpack(w); err != nil {
			bad("reply-undecodable", "reply does not decode: "+err.Error())
		}
	}
	if pol == "default" && hok && h.Bits&0x8000 != 0 && (len(libWrites) != 0 || nh != 0) {
		bad("qr-answered", "message with QR set was answered or handled under the default policy")
	}
}

// ------------------------------------------------------------------ message generators

func randName(r *Rng) string {
	n := r.Intn(4)
	var sb strings.Builder
	for i := 0; i < n; i++ {
		l := 1 + r.Intn(6)
		for j := 0; j < l; j++ {
			sb.WriteByte("abcXYZ019-_"[r.Intn(11)])
		}
		sb.WriteByte('.')
	}
	if n == 0 {
		return "."
	}
	return sb.String()
}

func baseQuery(r *Rng) *dns.Msg {
	m := new(dns.Msg)
	m.Id = uint16(r.Next())
	m.Question = []dns.Question{{Name: randName(r), Qtype: []uint16{1, 2, 6, 15, 16, 28, 43, 251, 252, 255}[r.Intn(10)], Qclass: 1}}
	m.RecursionDesired = r.Bool()
	m.CheckingDisabled = r.Bool()
	m.AuthenticatedData = r.Bool()
	m.Truncated = r.Intn(8) == 0
	m.RecursionAvailable = r.Intn(8) == 0
	m.Authoritative = r.Intn(8) == 0
	m.Zero = r.Intn(8) == 0
	return m
}

func mustPack(m *dns.Msg) []byte {
	b, err := m.Pack()
	if err != nil {
		panic(err)
	}
	return b
}

func soa(name string) dns.RR {
	return &dns.SOA{Hdr: dns.RR_Header{Name: name, Rrtype: dns.TypeSOA, Class: 1, Ttl: 5}, Ns: "ns." + strings.TrimPrefix(name, "."), Mbox: "m.", Serial: 7}
}
func arec(name string) dns.RR {
	return &dns.A{Hdr: dns.RR_Header{Name: name, Rrtype: dns.TypeA, Class: 1, Ttl: 5}, A: net.IPv4(192, 0, 2, 1)}
}

// genMessages returns inbound messages: valid queries of several shapes, every
// truncation of some of them, header rewrites, mutations, short and random strings.
func genMessages(r *Rng, n int) [][]byte {
	var out [][]byte
	add := func(b []byte) { out = append(out, b) }
	for i := 0; i < n; i++ {
		m := baseQuery(r)
		switch r.Intn(8) {
		case 0: // EDNS0
			m.SetEdns0(1232, r.Bool())
		case 1: // NOTIFY with SOA in the answer section
			m.Opcode = dns.OpcodeNotify
			m.Answer = []dns.RR{soa(m.Question[0].Name)}
		case 2: // IXFR-style: SOA in the authority section
			m.Ns = []dns.RR{soa(m.Question[0].Name)}
		case 3: // over-populated
			for k := r.Intn(4); k >= 0; k-- {
				switch r.Intn(3) {
				case 0:
					m.Answer = append(m.Answer, arec(m.Question[0].Name))
				case 1:
					m.Ns = append(m.Ns, arec(m.Question[0].Name))
				default:
					m.Extra = append(m.Extra, arec(m.Question[0].Name))
				}
			}
		case 4: // two questions
			m.Question = append(m.Question, dns.Question{Name: randName(r), Qtype: 1, Qclass: 1})
		case 5: // other opcodes
			m.Opcode = r.Intn(16)
		case 6:
			m.Response = true
		}
		if r.Intn(3) == 0 {
			m.Compress = true
		}
		b := mustPack(m)
		add(b)
		switch r.Intn(6) {
		case 0: // all truncations
			for k := 0; k < len(b); k++ {
				add(append([]byte(nil), b[:k]...))
			}
		case 1: // lying counts
			c := append([]byte(nil), b...)
			c[4+2*r.Intn(4)+1] = byte(r.Intn(4))
			add(c)
			c = append([]byte(nil), b...)
			c[4+2*r.Intn(4)] = 0xff
			add(c)
		case 2: // byte mutation
			c := append([]byte(nil), b...)
			c[r.Intn(len(c))] ^= byte(1 << r.Intn(8))
			add(c)
			c = append([]byte(nil), b...)
			c[r.Intn(len(c))] = byte(r.Next())
			add(c)
		case 3: // trailing garbage
			add(append(append([]byte(nil), b...), r.Bytes(1+r.Intn(5))...))
		case 4: // pointer loop in the question name
			c := append([]byte(nil), b[:12]...)
			c = append(c, 0xc0, 0x0c, 0, 1, 0, 1)
			add(c)
		}
	}
	for l := 0; l <= 13; l++ { // short and header-only strings
		add(r.Bytes(l))
		z := make([]byte, l)
		add(z)
	}
	for i := 0; i < n/4; i++ {
		add(r.Bytes(12 + r.Intn(40)))
	}
	return out
}

// headerSweep: one fixed body, header rewritten to every opcode x QR x count
// class combination (counts in {0,1,2,3}).
func headerSweep(r *Rng) [][]byte {
	q := new(dns.Msg)
	q.SetQuestion("sweep.example.", dns.TypeA)
	body := mustPack(q)[12:]
	var out [][]byte
	for op := 0; op < 16; op++ {
		for qr := 0; qr < 2; qr++ {
			for c := 0; c < 256; c++ {
				h := make([]byte, 12)
				binary.BigEndian.PutUint16(h, uint16(r.Next()))
				bits := uint16(qr)<<15 | uint16(op)<<11 | uint16(r.Next())&0x07ff
				binary.BigEndian.PutUint16(h[2:], bits)
				h[5] = byte(c & 3)
				h[7] = byte(c >> 2 & 3)
				h[9] = byte(c >> 4 & 3)
				h[11] = byte(c >> 6 & 3)
				out = append(out, append(h, body...))
			}
		}
	}
	return out
}

func runServe(r *Rng, tier string) {
	n := 60
	if tier == "thorough" {
		n = 600
	}
	msgs := genMessages(r, n)
	one := func(tr, pol string, m []byte, emit bool) { serveOne(tr, pol, m, emit) }
	pols := []string{"default", "accept", "reject", "ignore", "notimp"}
	for i, m := range msgs {
		if len(m) > 300 {
			continue
		}
		tr := []string{"udp", "tcp"}[i&1]
		one(tr, "default", m, true)
		if i%3 == 0 {
			one([]string{"tcp", "udp"}[i&1], pols[1+r.Intn(4)], m, true)
		}
	}
	// exhaustive header sweep: oracle on all, model case on a sample
	for i, m := range headerSweep(r) {
		tr := []string{"udp", "tcp"}[(i>>3)&1]
		one(tr, "default", m, i%11 == 0)
	}
	// several frames on one TCP connection / several datagrams on one socket
	for k := 0; k < 12; k++ {
		var ms [][]byte
		var want []string
		for j := 0; j < 2+r.Intn(5); j++ {
			m := msgs[r.Intn(len(msgs))]
			if len(m) > 300 {
				continue
			}
			ms = append(ms, m)
			o, _ := serveHook("tcp", "default", m)
			if o != "none" {
				want = append(want, o)
			}
		}
		rec := &recorder{}
		if !serveLoop("tcp", "default", ms, rec) {
			stat["infra_timeout"]++
			continue
		}
		stat["serve_multi_checked"]++
		var got []string
		for _, e := range rec.ev {
			if !strings.HasPrefix(e, "hw:") {
				got = append(got, strings.TrimSuffix(e, ":OTHERBYTES"))
			}
		}
		if strings.Join(got, ";") != strings.Join(want, ";") {
			var hx []string
			for _, m := range ms {
				hx = append(hx, Hx(m))
			}
			Viol("C14/Serve/tcp-sequence", "frames on one connection are not each handled once in order: got "+strings.Join(got, ";")+" want "+strings.Join(want, ";"), hx)
		}
	}
	stat["serve_cases"] = serveEmitted
}

var serveEmitted int

// serveOne serves ONE inbound message: through serveDNS directly (hook, on this
// goroutine, so that a panic of the server code is recovered and reported with
// its input instead of killing the harness) and, when that did not panic,
// through the real serve loop on scripted conns (whose serving goroutines nobody
// can recover). Both logs go through the admission oracles and must agree.
func serveOne(tr, pol string, m []byte, emit bool) {
	hookOut := ""
	var hrec *recorder
	hookApplies := !(tr == "udp" && len(m) < 12) // the short-packet test lives in serveUDP
	if hookApplies {
		hookOut, hrec = serveHook(tr, pol, m)
		if hookOut == "panic" {
			Viol("C14/Serve/panic", "serveDNS panicked", serveIn{tr, pol, Hx(m), ""})
			return
		}
	} else if Protect(func() string { new(dns.Msg).Unpack(m); return "" }) == "panic" {
		Viol("C14/Serve/panic", "the message decoder panicked", serveIn{tr, pol, Hx(m), ""})
		return
	}
	// real serve loop on scripted conns
	rec := &recorder{in: m}
	ok := false
	res := Protect(func() string { ok = serveLoop(tr, pol, [][]byte{m}, rec); return "" })
	if res == "panic" {
		Viol("C14/Serve/panic", "server panicked", serveIn{tr, pol, Hx(m), ""})
		return
	}
	if !ok {
		stat["infra_timeout"]++
		return
	}
	stat["serve_loop_"+tr]++
	loopOut := modelEvents(rec.ev)
	serveOracle(tr, pol, m, rec.ev, rec, "serve-loop")
	if hookApplies {
		serveOracle(tr, pol, m, hrec.ev, hrec, "serveDNS")
		if hookOut != loopOut {
			Viol("C14/Serve/paths-disagree", "serve loop and direct serveDNS disagree: "+loopOut+" vs "+hookOut, serveIn{tr, pol, Hx(m), ""})
		}
	}
	if emit {
		unp, _, _ := unpackOracle(m)
		Emit("serve", []string{tr, pol, Hx(m), unp}, loopOut)
		serveEmitted++
		cls := "other"
		switch {
		case loopOut == "none":
			cls = "ignored"
		case strings.HasPrefix(loopOut, "h:"):
			cls = "handler"
		case strings.HasPrefix(loopOut, "w:"):
			cls = "reject"
		case strings.HasPrefix(loopOut, "inv:") && strings.Contains(loopOut, ";w:"):
			cls = "invalid_reply"
		case strings.HasPrefix(loopOut, "inv:"):
			cls = "invalid"
		}
		stat["serve_case_"+cls]++
	}
}

// ------------------------------------------------------------------ accept policy

func runAccept(r *Rng) {
	cvals := []uint16{0, 1, 2, 3, 65535}
	letter := map[dns.MsgAcceptAction]string{dns.MsgAccept: "A", dns.MsgReject: "R", dns.MsgIgnore: "I", dns.MsgRejectNotImplemented: "N"}
	for op := 0; op < 16; op++ {
		for qr := 0; qr < 2; qr++ {
			for rep := 0; rep < 2; rep++ {
				bits := uint16(qr)<<15 | uint16(op)<<11
				if rep == 1 {
					bits |= uint16(r.Next()) & 0x07ff
				}
				var sb strings.Builder
				for _, qd := range cvals {
					for _, an := range cvals {
						for _, ns := range cvals {
							for _, ar := range cvals {
								h := dns.Header{Id: 7, Bits: bits, Qdcount: qd, Ancount: an, Nscount: ns, Arcount: ar}
								a := dns.DefaultMsgAcceptFunc(h)
								sb.WriteString(letter[a])
								stat["accept_checked"]++
								if a != expectedDefault(h) {
									Viol("C14/Accept/default-policy", fmt.Sprintf("DefaultMsgAcceptFunc = %d, property says %d", a, expectedDefault(h)),
										map[string]any{"bits": bits, "qd": qd, "an": an, "ns": ns, "ar": ar})
								}
							}
						}
					}
				}
				Emit("accept", []string{Itoa(int(bits))}, sb.String())
			}
		}
	}
	// header word <-> MsgHdr, through the real Pack/Unpack
	for i := 0; i < 160; i++ {
		id, bits := uint16(r.Next()), uint16(r.Next())
		if i < 16 {
			bits = 1 << i
		}
		b := make([]byte, 12)
		binary.BigEndian.PutUint16(b, id)
		binary.BigEndian.PutUint16(b[2:], bits)
		var m dns.Msg
		if err := m.Unpack(b); err != nil {
			continue
		}
		Emit("sethdr", []string{Itoa(int(id)), Itoa(int(bits))}, showHdr(m.MsgHdr))
		p := mustPack(&m)
		Emit("packbits", []string{showHdr(m.MsgHdr)}, Itoa(int(binary.BigEndian.Uint16(p[2:]))))
		if binary.BigEndian.Uint16(p[2:]) != bits || binary.BigEndian.Uint16(p) != id {
			Viol("C14/Header/roundtrip", "header word does not survive Unpack/Pack", Hx(b))
		}
	}
}

func b01(b bool) string {
	if b {
		return "1"
	}
	return "0"
}
func showHdr(h dns.MsgHdr) string {
	return strings.Join([]string{Itoa(int(h.Id)), b01(h.Response), Itoa(h.Opcode), b01(h.Authoritative), b01(h.Truncated),
		b01(h.RecursionDesired), b01(h.RecursionAvailable), b01(h.Zero), b01(h.AuthenticatedData), b01(h.CheckingDisabled), Itoa(h.Rcode)}, ",")
}

// ------------------------------------------------------------------ mux

type hid int

func (h hid) ServeDNS(w dns.ResponseWriter, r *dns.Msg) {
	if rw, ok := w.(*recWriter); ok {
		rw.handler = int(h)
	}
}

type recWriter struct {
	handler int
	msgs    []*dns.Msg
}

func (w *recWriter) LocalAddr() net.Addr         { return netfake.Addr{N: -1} }
func (w *recWriter) RemoteAddr() net.Addr        { return netfake.Addr{N: 1} }
func (w *recWriter) WriteMsg(m *dns.Msg) error   { w.msgs = append(w.msgs, m.Copy()); return nil }
func (w *recWriter) Write(b []byte) (int, error) { return len(b), nil }
func (w *recWriter) Close() error                { return nil }
func (w *recWriter) TsigStatus() error           { return nil }
func (w *recWriter) TsigTimersOnly(bool)         {}
func (w *recWriter) Hijack()                     {}

// refShowLabel: presentation of one wire label, written independently of the library.
func refShowLabel(l []byte) string {
	var sb strings.Builder
	for _, b := range l {
		switch {
		case strings.IndexByte(`. '@;()"\`, b) >= 0:
			sb.WriteByte('\\')
			sb.WriteByte(b)
		case b < ' ' || b > '~':
			fmt.Fprintf(&sb, "\\%03d", b)
		default:
			sb.WriteByte(b)
		}
	}
	return sb.String()
}
func showLabels(ls [][]byte) string {
	if len(ls) == 0 {
		return "."
	}
	var sb strings.Builder
	for _, l := range ls {
		sb.WriteString(refShowLabel(l))
		sb.WriteByte('.')
	}
	return sb.String()
}
func lowerASCII(s string) string {
	b := []byte(s)
	for i, c := range b {
		if c >= 'A' && c <= 'Z' {
			b[i] = c + 32
		}
	}
	return string(b)
}
func flipCase(r *Rng, s string) string {
	b := []byte(s)
	for i, c := range b {
		if r.Intn(3) == 0 {
			if c >= 'a' && c <= 'z' {
				b[i] = c - 32
			} else if c >= 'A' && c <= 'Z' {
				b[i] = c + 32
			}
		}
	}
	return string(b)
}

var labelPool = [][]byte{[]byte("a"), []byte("B"), []byte("example"), []byte("ORG"), []byte("www"), []byte("_udp"), []byte("*"),
	[]byte("a.b"), []byte("x\\"), []byte("\\"), []byte("."), []byte("c d"), []byte("\\."), []byte("ab"), []byte("b"), []byte("7")}

type muxOp struct {
	handle  bool
	pattern string
	id      int
}

func opsString(ops []muxOp) string {
	var s []string
	for _, o := range ops {
		if o.handle {
			s = append(s, "h:"+Hs(o.pattern)+":"+Itoa(o.id))
		} else {
			s = append(s, "r:"+Hs(o.pattern))
		}
	}
	return strings.Join(s, ",")
}

// buildMux applies ops to a real ServeMux and, independently, to a plain map
// keyed by lower-cased fully qualified pattern (reg).
func buildMux(ops []muxOp) (*dns.ServeMux, map[string]int, bool) {
	mux := dns.NewServeMux()
	reg := map[string]int{}
	res := Protect(func() string {
		for _, o := range ops {
			if o.handle {
				mux.Handle(o.pattern, hid(o.id))
			} else {
				mux.HandleRemove(o.pattern)
			}
		}
		return ""
	})
	for _, o := range ops {
		key := lowerASCII(o.pattern)
		if !endsInUnescapedDot(key) {
			key += "."
		}
		if o.handle {
			reg[key] = o.id
		} else {
			delete(reg, key)
		}
	}
	return mux, reg, res != "panic"
}

// endsInUnescapedDot: trailing dot preceded by an even number of backslashes
// (written independently of dns.IsFqdn).
func endsInUnescapedDot(s string) bool {
	if !strings.HasSuffix(s, ".") {
		return false
	}
	n := 0
	for i := len(s) - 2; i >= 0 && s[i] == '\\'; i-- {
		n++
	}
	return n%2 == 0
}

type muxIn struct {
	Ops    string   `json:"ops"`
	Labels []string `json:"labels_hex"`
	Name   string   `json:"name"`
	Qtype  uint16   `json:"qtype"`
}

func runMux(r *Rng, tier string) {
	rounds := 160
	if tier == "thorough" {
		rounds = 3000
	}
	qtypes := []uint16{dns.TypeA, dns.TypeDS, dns.TypeDS, dns.TypeNS, dns.TypeSOA, 42, 44, dns.TypeANY}
	for round := 0; round < rounds; round++ {
		// a question name from labels
		nl := r.Intn(6)
		var ls [][]byte
		for i := 0; i < nl; i++ {
			ls = append(ls, labelPool[r.Intn(len(labelPool))])
		}
		name := showLabels(ls)
		// patterns: label suffixes, non-boundary suffixes, unrelated, root
		var ops []muxOp
		id := 1
		addH := func(p string) { ops = append(ops, muxOp{true, p, id}); id++ }
		for i := 0; i <= nl; i++ {
			if r.Intn(3) == 0 {
				p := flipCase(r, showLabels(ls[i:]))
				if i < nl && r.Intn(4) == 0 {
					p = p[:len(p)-1] // not fully qualified: Handle adds the dot
				}
				addH(p)
			}
		}
		if r.Intn(3) == 0 && len(name) > 2 { // a suffix of the text that does not start on a label boundary
			k := 1 + r.Intn(len(name)-1)
			addH(name[k:])
		}
		if r.Intn(3) == 0 {
			addH(showLabels([][]byte{labelPool[r.Intn(len(labelPool))], []byte("other")}))
		}
		if r.Intn(4) == 0 { // the same labels with the dot moved into a label
			if nl >= 2 {
				merged := append(append(append([]byte(nil), ls[nl-2]...), '.'), ls[nl-1]...)
				addH(showLabels([][]byte{merged}))
			}
		}
		if r.Intn(5) == 0 && len(ops) > 0 { // remove / overwrite
			o := ops[r.Intn(len(ops))]
			if r.Bool() {
				ops = append(ops, muxOp{false, flipCase(r, o.pattern), 0})
			} else {
				addH(flipCase(r, o.pattern))
			}
		}
		r2 := r.Intn(len(ops) + 1) // shuffle a little
		if r2 < len(ops) {
			ops[0], ops[r2] = ops[r2], ops[0]
		}
		mux, reg, ok := buildMux(ops)
		if !ok {
			Viol("C14/Mux/handle-panic", "Handle/HandleRemove panicked on a non-empty pattern", opsString(ops))
			continue
		}
		for _, qn := range []string{name, flipCase(r, name)} {
			for _, t := range []uint16{qtypes[r.Intn(len(qtypes))], dns.TypeDS} {
				got := Protect(func() string {
					h := dns.VerifMuxMatch(mux, qn, t)
					if h == nil {
						return "none"
					}
					return "some:" + Itoa(int(h.(hid)))
				})
				Emit("mux", []string{opsString(ops), Hs(qn), Itoa(int(t))}, got)
				stat["mux_cases"]++
				muxOracle(ops, reg, ls, qn, t, got)
			}
		}
		// through ServeDNS
		req := new(dns.Msg)
		req.Id = uint16(r.Next())
		req.Opcode = []int{0, 0, 0, 4, 5, 2}[r.Intn(6)]
		req.RecursionDesired, req.CheckingDisabled = r.Bool(), r.Bool()
		nq := []int{1, 1, 1, 0, 2}[r.Intn(5)]
		var qs []string
		for i := 0; i < nq; i++ {
			q := dns.Question{Name: name, Qtype: qtypes[r.Intn(len(qtypes))], Qclass: 1}
			if i == 1 {
				q.Name = "second.question."
			}
			req.Question = append(req.Question, q)
			qs = append(qs, Hs(q.Name)+":"+Itoa(int(q.Qtype)))
		}
		w := &recWriter{handler: -1}
		res := Protect(func() string { mux.ServeDNS(w, req); return "" })
		out := "refused"
		if res == "panic" {
			out = "panic"
		} else if w.handler >= 0 {
			out = "handler:" + Itoa(w.handler)
		}
		Emit("muxserve", []string{opsString(ops), strings.Join(qs, ",")}, out)
		stat["muxserve_cases"]++
		in := map[string]any{"ops": opsString(ops), "request": req.String()}
		if w.handler >= 0 && len(w.msgs) != 0 {
			Viol("C14/Mux/dispatch-and-reply", "ServeDNS both dispatched and replied", in)
		}
		if w.handler < 0 {
			if nq >= 1 {
				if exp := muxExpected(reg, ls, req.Question[0].Qtype); exp != 0 {
					Viol("C14/Mux/refused-though-registered", "REFUSED although a pattern matches", in)
				}
			}
			if len(w.msgs) != 1 {
				Viol("C14/Mux/refused-missing", "no handler matched but no single REFUSED reply was written", in)
			} else {
				refusedOracle(req, w.msgs[0], in)
			}
		}
		if nq == 0 && w.handler >= 0 {
			Viol("C14/Mux/no-question-dispatched", "request without a question was dispatched", in)
		}
	}
}

// muxExpected: the handler the property text designates for a non-DS query
// (longest registered suffix on label boundaries ignoring ASCII case, root as
// last resort), 0 for none; for DS: -1 when any registered proper ancestor is
// acceptable (checked by the caller), else the child / none.
func muxExpected(reg map[string]int, ls [][]byte, t uint16) int {
	if t != dns.TypeDS {
		for i := 0; i <= len(ls); i++ {
			if id, ok := reg[lowerASCII(showLabels(ls[i:]))]; ok {
				return id
			}
		}
		return 0
	}
	for i := 1; i <= len(ls); i++ {
		if _, ok := reg[lowerASCII(showLabels(ls[i:]))]; ok {
			return -1
		}
	}
	if id, ok := reg[lowerASCII(showLabels(ls))]; ok {
		return id
	}
	return 0
}

func muxOracle(ops []muxOp, reg map[string]int, ls [][]byte, qn string, t uint16, got string) {
	stat["mux_oracle_checked"]++
	in := muxIn{Ops: opsString(ops), Name: qn, Qtype: t}
	for _, l := range ls {
		in.Labels = append(in.Labels, Hx(l))
	}
	if got == "panic" {
		Viol("C14/Mux/match-panic", "match panicked", in)
		return
	}
	exp := muxExpected(reg, ls, t)
	switch {
	case exp == 0:
		if got != "none" {
			Viol("C14/Mux/match-without-pattern", "a handler was chosen although no registered pattern is a label suffix of the name: "+got, in)
		}
	case exp > 0:
		if got != "some:"+Itoa(exp) {
			key := "longest-suffix"
			if t == dns.TypeDS {
				key = "ds-child"
			}
			Viol("C14/Mux/"+key, "got "+got+" want some:"+Itoa(exp), in)
		}
	default: // DS with a registered proper ancestor: the result must be one of them
		okAnc := false
		closest := ""
		nonRootAnc := 0
		for i := len(ls); i >= 1; i-- {
			if id, ok := reg[lowerASCII(showLabels(ls[i:]))]; ok {
				if got == "some:"+Itoa(id) {
					okAnc = true
				}
				closest = "some:" + Itoa(id)
				if i < len(ls) {
					nonRootAnc++
				}
			}
		}
		_, rootReg := reg["."]
		_, selfReg := reg[lowerASCII(showLabels(ls))]
		switch {
		case !okAnc:
			Viol("C14/Mux/ds-parent", "DS query not routed to a registered proper ancestor: got "+got, in)
		case got == closest:
		case selfReg && !rootReg && nonRootAnc >= 2 && len(ls) > 0:
			// known finding: the name is itself a registered zone apex, two or more
			// proper ancestors are registered (no root pattern) and the DS query goes
			// to the top-most of them instead of the enclosing parent zone
			Viol("C14/Mux/ds-not-closest-parent", "DS query for a registered zone apex routed to "+got+", the enclosing parent zone is "+closest, in)
		default:
			// a registered ancestor other than the closest one, outside the class
			// above (root pattern registered, or the name itself is not a registered
			// zone): counted, not reported (docs/C14.md)
			stat["mux_ds_other_ancestor_observed"]++
		}
	}
}

// runMuxDirected: fixed DS scenarios (the random rounds reach them only by chance).
func runMuxDirected() {
	lab := func(ss ...string) [][]byte {
		var o [][]byte
		for _, s := range ss {
			o = append(o, []byte(s))
		}
		return o
	}
	h := func(p string, id int) muxOp { return muxOp{true, p, id} }
	for _, c := range []struct {
		ops []muxOp
		ls  [][]byte
	}{
		{[]muxOp{h("a.example.org.", 1), h("example.org.", 2), h("org.", 3)}, lab("a", "example", "org")}, // three nested zones
		{[]muxOp{h("a.example.org.", 1), h("example.org.", 2)}, lab("a", "example", "org")},               // exactly one ancestor
		{[]muxOp{h("a.example.org.", 1)}, lab("a", "example", "org")},                                     // child only
		{[]muxOp{h("example.org.", 2), h("org.", 3)}, lab("a", "example", "org")},                         // name itself not a zone
		{[]muxOp{h("a.example.org.", 1), h("example.org.", 2), h(".", 9)}, lab("a", "example", "org")},    // root pattern registered
		{[]muxOp{h("b.a.example.org.", 1), h("a.example.org.", 2), h("example.org.", 3), h("org.", 4)}, lab("B", "a", "Example", "org")},
	} {
		mux, reg, ok := buildMux(c.ops)
		if !ok {
			continue
		}
		qn := showLabels(c.ls)
		for _, t := range []uint16{dns.TypeDS, dns.TypeA} {
			got := Protect(func() string {
				hd := dns.VerifMuxMatch(mux, qn, t)
				if hd == nil {
					return "none"
				}
				return "some:" + Itoa(int(hd.(hid)))
			})
			Emit("mux", []string{opsString(c.ops), Hs(qn), Itoa(int(t))}, got)
			stat["mux_cases"]++
			muxOracle(c.ops, reg, c.ls, qn, t, got)
		}
	}
}

func refusedOracle(req, rep *dns.Msg, in any) {
	stat["refused_checked"]++
	bad := func(k, d string) { Viol("C14/Refused/"+k, d, in) }
	if rep.Id != req.Id {
		bad("id", "REFUSED reply does not carry the request's ID")
	}
	if !rep.Response {
		bad("qr", "REFUSED reply without QR")
	}
	if rep.Rcode != dns.RcodeRefused {
		bad("rcode", "rcode is not REFUSED")
	}
	if rep.Opcode != req.Opcode {
		bad("opcode", "opcode not echoed")
	}
	if req.Opcode == dns.OpcodeQuery && (rep.RecursionDesired != req.RecursionDesired || rep.CheckingDisabled != req.CheckingDisabled) {
		bad("rd-cd", "RD/CD of a query not echoed")
	}
	if len(req.Question) > 0 && (len(rep.Question) != 1 || rep.Question[0] != req.Question[0]) {
		bad("question", "first question not echoed")
	}
	if len(rep.Answer)+len(rep.Ns)+len(rep.Extra) != 0 {
		bad("records", "REFUSED reply carries records")
	}
}

// ------------------------------------------------------------------ skeletons

func randHdr(r *Rng) dns.MsgHdr {
	return dns.MsgHdr{Id: uint16(r.Next()), Response: r.Bool(), Opcode: r.Intn(16), Authoritative: r.Bool(), Truncated: r.Bool(),
		RecursionDesired: r.Bool(), RecursionAvailable: r.Bool(), Zero: r.Bool(), AuthenticatedData: r.Bool(), CheckingDisabled: r.Bool(),
		Rcode: r.Intn(16)}
}

func qOf(id int) dns.Question {
	return dns.Question{Name: fmt.Sprintf("q%d.example.", id), Qtype: uint16(id), Qclass: 1}
}
func idsOf(qs []dns.Question) string {
	var s []string
	for _, q := range qs {
		s = append(s, Itoa(int(q.Qtype)))
	}
	return strings.Join(s, ",")
}

func runSkel(r *Rng, tier string) {
	n := 240
	if tier == "thorough" {
		n = 4000
	}
	for i := 0; i < n; i++ {
		mk := func(base int) *dns.Msg {
			m := new(dns.Msg)
			m.MsgHdr = randHdr(r)
			if r.Intn(3) == 0 {
				m.Opcode = 0
			}
			for k := r.Intn(3); k > 0; k-- {
				m.Question = append(m.Question, qOf(base+k))
			}
			return m
		}
		d, req := mk(100), mk(200)
		d.Answer, d.Ns, d.Extra = []dns.RR{arec("a.")}, []dns.RR{arec("b.")}, []dns.RR{arec("c.")}
		dh, dq, rh, rq := showHdr(d.MsgHdr), idsOf(d.Question), showHdr(req.MsgHdr), idsOf(req.Question)
		kind := []string{"reply", "fe", "refused", "rcode:"}[i%4]
		var out *dns.Msg
		switch kind {
		case "reply":
			out = d.SetReply(req)
		case "fe":
			out = d.SetRcodeFormatError(req)
		case "refused":
			w := &recWriter{}
			dns.VerifHandleRefused(w, req)
			if len(w.msgs) != 1 {
				Viol("C14/Refused/not-written", "handleRefused wrote no reply", req.String())
				continue
			}
			out = w.msgs[0]
			refusedOracle(req, out, map[string]any{"request_hdr": rh, "request_q": rq})
		default:
			rc := r.Intn(16)
			kind += Itoa(rc)
			out = d.SetRcode(req, rc)
			if out.Rcode != rc {
				Viol("C14/Skeleton/rcode", "SetRcode did not set the rcode", rh)
			}
		}
		stat["skeleton_checked"]++
		if out.Id != req.Id || !out.Response {
			Viol("C14/Skeleton/id-qr", kind+": reply skeleton does not carry the request's ID with QR set", map[string]any{"dns": dh, "request": rh})
		}
		Emit("skel", []string{kind, dh, dq, rh, rq},
			showHdr(out.MsgHdr)+"|"+idsOf(out.Question)+"|"+Itoa(len(out.Answer))+","+Itoa(len(out.Ns))+","+Itoa(len(out.Extra)))
	}
}

// ------------------------------------------------------------------ concurrency (runtime observation)

func runConcurrent(r *Rng, tier string) {
	iters := 3000
	if tier == "thorough" {
		iters = 60000
	}
	mux := dns.NewServeMux()
	mux.Handle("stable.example.", hid(1))
	mux.Handle("example.", hid(2))
	var wg sync.WaitGroup
	var mu sync.Mutex
	bad := map[string]bool{}
	for g := 0; g < 4; g++ {
		wg.Add(2)
		go func(g int) {
			defer wg.Done()
			for i := 0; i < iters; i++ {
				p := fmt.Sprintf("scratch%d-%d.test.", g, i%7)
				mux.Handle(p, hid(100+g))
				mux.HandleRemove(p)
			}
		}(g)
		go func(g int) {
			defer wg.Done()
			for i := 0; i < iters; i++ {
				for _, c := range []struct {
					q    string
					t    uint16
					want int
				}{{"www.stable.example.", dns.TypeA, 1}, {"WWW.STABLE.EXAMPLE.", dns.TypeDS, 2}, {"x.example.", dns.TypeA, 2}, {"nothing.invalid.", dns.TypeA, 0}} {
					h := dns.VerifMuxMatch(mux, c.q, c.t)
					got := 0
					if h != nil {
						got = int(h.(hid))
					}
					if got != c.want {
						mu.Lock()
						bad[fmt.Sprintf("%s/%d: got %d want %d", c.q, c.t, got, c.want)] = true
						mu.Unlock()
					}
				}
				if i%64 == 0 {
					w := &recWriter{handler: -1}
					req := new(dns.Msg)
					req.SetQuestion("a.stable.example.", dns.TypeA)
					mux.ServeDNS(w, req)
					if w.handler != 1 {
						mu.Lock()
						bad[fmt.Sprintf("ServeDNS dispatched to %d", w.handler)] = true
						mu.Unlock()
					}
				}
			}
		}(g)
	}
	wg.Wait()
	stat["concurrent_match_checked"] = 4 * iters * 4
	var keys []string
	for k := range bad {
		keys = append(keys, k)
	}
	sort.Strings(keys)
	if len(keys) > 0 {
		Viol("C14/Mux/concurrent", "match gave a wrong handler while unrelated patterns were added/removed concurrently", keys)
	}
}

// ------------------------------------------------------------------ real sockets on loopback (runtime observation)

func runLoopback(r *Rng) {
	rec := &recorder{}
	var hcount sync.Map
	handler := dns.HandlerFunc(func(w dns.ResponseWriter, req *dns.Msg) {
		v, _ := hcount.LoadOrStore(req.Id, new(int))
		rec.mu.Lock()
		*(v.(*int))++
		rec.mu.Unlock()
		m := new(dns.Msg)
		m.SetReply(req)
		w.WriteMsg(m)
	})
	type probe struct {
		m    *dns.Msg
		want int // expected rcode, -1 silence, -2 handled
	}
	mk := func(f func(m *dns.Msg)) *dns.Msg {
		m := new(dns.Msg)
		m.SetQuestion("loop.example.", dns.TypeA)
		m.Id = uint16(r.Next())
		f(m)
		return m
	}
	probes := []probe{
		{mk(func(m *dns.Msg) {}), -2},
		{mk(func(m *dns.Msg) { m.Opcode = dns.OpcodeUpdate }), dns.RcodeNotImplemented},
		{mk(func(m *dns.Msg) { m.Question = append(m.Question, m.Question[0]) }), dns.RcodeFormatError},
		{mk(func(m *dns.Msg) { m.Response = true }), -1},
		{mk(func(m *dns.Msg) { m.Opcode = dns.OpcodeNotify }), -2},
	}
	for _, network := range []string{"udp", "tcp"} {
		srv := &dns.Server{Handler: handler}
		started := make(chan struct{})
		srv.NotifyStartedFunc = func() { close(started) }
		var addr string
		if network == "udp" {
			pc, err := net.ListenPacket("udp", "127.0.0.1:0")
			if err != nil {
				stat["infra_loopback_unavailable"]++
				continue
			}
			srv.PacketConn = pc
			addr = pc.LocalAddr().String()
		} else {
			l, err := net.Listen("tcp", "127.0.0.1:0")
			if err != nil {
				stat["infra_loopback_unavailable"]++
				continue
			}
			srv.Listener = l
			addr = l.Addr().String()
		}
		done := make(chan error, 1)
		go func() { done <- srv.ActivateAndServe() }()
		if !netfake.WaitChan(started, infraWait) {
			stat["infra_timeout"]++
			continue
		}
		for _, p := range probes {
			c, err := dns.DialTimeout(network, addr, 5*time.Second)
			if err != nil {
				stat["infra_timeout"]++
				continue
			}
			c.SetDeadline(time.Now().Add(10 * time.Second))
			if err := c.WriteMsg(p.m); err != nil {
				stat["infra_timeout"]++
				c.Close()
				continue
			}
			in := map[string]any{"network": network, "request": p.m.String()}
			if p.want == -1 {
				// silence expected: a following valid query on the same socket must be
				// the only thing answered
				follow := mk(func(m *dns.Msg) {})
				c.WriteMsg(follow)
				rep, err := c.ReadMsg()
				if err != nil {
					stat["infra_timeout"]++
				} else if rep.Id == p.m.Id {
					Viol("C14/Serve/qr-answered", "a message with QR set was answered (loopback "+network+")", in)
				}
				stat["loopback_checked"]++
				c.Close()
				continue
			}
			rep, err := c.ReadMsg()
			c.Close()
			if err != nil {
				var ne net.Error
				if errors.As(err, &ne) && ne.Timeout() {
					stat["infra_timeout"]++
					continue
				}
				Viol("C14/Serve/loopback-reply", "reply unreadable: "+err.Error(), in)
				continue
			}
			stat["loopback_checked"]++
			if rep.Id != p.m.Id || !rep.Response {
				Viol("C14/Serve/reply-id", "reply without the request's ID / QR (loopback "+network+")", in)
			}
			wantRc := p.want
			if p.want == -2 {
				wantRc = 0
			}
			if rep.Rcode != wantRc {
				Viol("C14/Serve/reply-rcode", fmt.Sprintf("loopback %s: rcode %d want %d", network, rep.Rcode, wantRc), in)
			}
			if p.want >= 0 && len(rep.Answer)+len(rep.Ns)+len(rep.Extra) != 0 {
				Viol("C14/Serve/reply-records", "reject reply with records (loopback "+network+")", in)
			}
		}
		sd := make(chan error, 1)
		go func() { sd <- srv.Shutdown() }()
		select {
		case <-sd:
		case <-time.After(infraWait):
			stat["infra_timeout"]++
		}
		for _, p := range probes {
			v, ok := hcount.Load(p.m.Id)
			n := 0
			if ok {
				rec.mu.Lock()
				n = *(v.(*int))
				rec.mu.Unlock()
			}
			if p.want == -2 && n > 1 || p.want != -2 && n != 0 {
				Viol("C14/Serve/handler-not-once", fmt.Sprintf("loopback %s: handler ran %d times", network, n), p.m.String())
			}
			hcount.Delete(p.m.Id)
		}
	}
}

func runC14(r *Rng, tier string, n int) {
	runAccept(r)
	runServe(r, tier)
	runStreams(r, tier)
	runRdataBounds(r, tier)
	runUDPSizes(r, tier)
	runShutdownWindow(r, tier)
	runParkedHandlers(r, tier)
	runMuxReentrant(r, tier)
	runMuxDirected()
	runMuxCaseSweep()
	runMux(r, tier)
	runSkel(r, tier)
	runConcurrent(r, tier)
	runLoopback(r)
	Stat(stat)
}
