package main

// C06, several independent parsers at the same time.
//
// "Parsing a zone file yields exactly the records it denotes": the records are a
// function of the text and the parser options alone. A server loads its zones in
// parallel, each goroutine with its own ZoneParser, its own reader and its own
// include FS; nothing is shared by the callers, so whatever the schedule, every
// parser must deliver the records its own text denotes. The other streams run one
// parser at a time and can never see state that leaks from one parser into
// another (a package-level scratch buffer, a shared table that is written to).
//
// concurrentParsers builds rounds of N texts (plain records from the abstract
// zone generator in a random rendering, $ORIGIN/$TTL, a long $GENERATE with
// ${offset,width,base} modifiers, an $INCLUDE through an include FS whose file
// has records and a $GENERATE of its own, records after the include), computes
// for each its denotation (independent Go denotation + independent $GENERATE
// expansion), parses every text alone first, and then all of them at once:
// goroutines released by one barrier, GOMAXPROCS >= 4, expansions of 20000 and
// more steps so that the parsers overlap for their whole run. Beside the long
// ones, further goroutines parse many short zones (few-step $GENERATEs,
// includes) over and over while the long ones run; their first concurrent
// outcome is a model case of the whole parser ("parse").
//
// Oracles (a correct library satisfies them under every schedule):
//   C06/concurrent/differs-from-sequential  outcome of the parser run next to the
//       others != outcome of the same text parsed alone beforehand
//   C06/concurrent/records-differ           outcome != the denoted records
//   C06/concurrent/panic, C06/concurrent/hang (120 s for work of well under 1 s)

import (
	"fmt"
	"runtime"
	"strconv"
	"strings"
	"sync"
	"sync/atomic"
	"time"

	"github.com/miekg/dns"
	. "verif/harness/common"
	z "verif/harness/zonecommon"
)

type conJob struct {
	c    *z.Config
	want []string // denoted records, as Rec.String()
	seq  []string // outcome alone: records then the error event, if any
}

// conGenLine: one $GENERATE line with random templates and its expansion under origin.
func conGenLine(r *Rng, origin string, dttl uint32, start, stop, step int64) (string, []rec) {
	rg := fmt.Sprintf("%d-%d", start, stop)
	if step != 1 || r.Bool() {
		rg += fmt.Sprintf("/%d", step)
	}
	owner := []piece{{lit: []string{"h", "host-", "n"}[r.Intn(3)]}, genIterPiece(r)}
	if r.Bool() {
		owner = append(owner, piece{lit: ".sub"})
	}
	var typ uint16
	var rhs []piece
	switch r.Intn(3) {
	case 0:
		typ = dns.TypeTXT
		rhs = []piece{{lit: "\"v="}, genIterPiece(r), {lit: " cost=$5 "}, genIterPiece(r), {lit: "\""}}
	case 1:
		typ = dns.TypePTR
		rhs = []piece{{lit: "p"}, genIterPiece(r), {lit: ".example.net."}}
	default:
		typ = dns.TypeCNAME
		rhs = []piece{genIterPiece(r), {lit: ".target"}}
	}
	// the TTL is always stated here: what a $GENERATE line without TTL inherits is the subject of
	// generateTTLInheritance (genttl.go), not of this class
	_ = dttl
	ttlv := ttlVals[r.Intn(6)]
	ttl := " " + strconv.FormatUint(uint64(ttlv), 10)
	text := "$GENERATE " + rg + " " + renderTemplate(owner) + ttl + " " + dns.TypeToString[typ] + " " + renderTemplate(rhs) + "\n"
	var want []rec
	for v := start; v <= stop; v += step {
		o := complete(origin, substTemplate(owner, v))
		rd := substTemplate(rhs, v)
		var rds string
		if typ == dns.TypeTXT {
			rds = "T" + z.ShowBytes([]byte(strings.Trim(rd, "\"")))
		} else {
			rds = "N" + z.ShowBytes([]byte(complete(origin, rd)))
		}
		want = append(want, rec{o, typ, 1, ttlv, rds})
	}
	return text, want
}

// conZone: abstract zone whose first record names its owner.
func conZone(r *Rng, owner string) []entry {
	es := genZone(r, true)
	for k := range es {
		if es[k].kind == 'r' {
			if es[k].owner == nil {
				es[k].owner = ptr(owner)
			}
			break
		}
	}
	return es
}

func nl(s string) string {
	if s != "" && !strings.HasSuffix(s, "\n") {
		return s + "\n"
	}
	return s
}

// conJobFor builds one text: before; $TTL; $GENERATE (steps); $INCLUDE file [origin] with the
// file = records + $GENERATE (incSteps) ; after.  ok=false when a part has no denotation.
func conJobFor(r *Rng, k int, steps, incSteps int64) (*conJob, bool) {
	origin := fmt.Sprintf("g%d.", k) + origins[r.Intn(len(origins))]
	if strings.HasSuffix(origin, "..") {
		origin = origin[:len(origin)-1]
	}
	deflt := ptr(ttlVals[1+r.Intn(8)])
	before := conZone(r, "first")
	inner := conZone(r, "inc")
	after := conZone(r, "tail")
	recs0, st1, ok := denoteSt(dstate{origin: origin, deflt: deflt}, before)
	if !ok {
		return nil, false
	}
	dollar := ttlVals[1+r.Intn(8)]
	st1.dollar = ptr(dollar)
	start := int64(r.Intn(3)) * int64(r.Intn(100000))
	step := int64(1 + r.Intn(3))
	gline, grecs := conGenLine(r, st1.origin, dollar, start, start+(steps-1)*step+int64(r.Intn(int(step))), step)
	incOriginArg := ""
	if r.Bool() {
		incOriginArg = pickName(r)
		for mnemonicLike(incOriginArg) {
			incOriginArg = pickName(r)
		}
	}
	incOrigin := st1.origin
	if incOriginArg != "" {
		incOrigin = complete(st1.origin, incOriginArg)
	}
	innerRecs, st2, ok := denoteSt(dstate{origin: incOrigin, dollar: st1.dollar, stated: st1.stated, deflt: st1.deflt}, inner)
	if !ok {
		return nil, false
	}
	var igline string
	var igrecs []rec
	if incSteps > 0 {
		d := dollar
		if st2.dollar != nil {
			d = *st2.dollar
		}
		igline, igrecs = conGenLine(r, st2.origin, d, 1, incSteps, 1)
	}
	afterRecs, _, ok := denoteSt(st1, after)
	if !ok {
		return nil, false
	}
	incName := fmt.Sprintf("inc%d.zone", k)
	incLine := "$INCLUDE " + incName
	if incOriginArg != "" {
		incLine += " " + incOriginArg
	}
	text := nl(render(style{r}, origin, before)) + "$TTL " + strconv.FormatUint(uint64(dollar), 10) + "\n" + gline + incLine + "\n" +
		render(style{r}, st1.origin, after)
	c := cfgFor(origin, deflt, text)
	c.File = "z/main.zone"
	c.Inc, c.HasFS = true, true // the FS is per parser; no scratch directory, no inotify (shared by the process)
	c.Files = map[string]z.Recipe{"z/" + incName: z.Lit(nl(render(style{r}, incOrigin, inner)) + igline)}
	j := &conJob{c: c}
	for _, l := range [][]rec{recs0, grecs, innerRecs, igrecs, afterRecs} {
		for _, x := range l {
			j.want = append(j.want, x.String())
		}
	}
	return j, true
}

// conOutcome: records (and the error event) of one run, without the O: events of the FS.
func conOutcome(c *z.Config) (res []string, show string, panicked, timedOut bool) {
	o := z.Run(c, 1)
	if o.Panicked {
		return nil, "", true, false
	}
	if o.TimedOut || o.Skipped {
		return nil, "", false, true
	}
	show = o.Show()
	for _, e := range o.Events {
		if !strings.HasPrefix(e, "O:") {
			res = append(res, e)
		}
	}
	return res, show, false, false
}

func firstDiff(a, b []string) string {
	for i := 0; i < len(a) || i < len(b); i++ {
		var x, y string = "<none>", "<none>"
		if i < len(a) {
			x = a[i]
		}
		if i < len(b) {
			y = b[i]
		}
		if x != y {
			return fmt.Sprintf("%d vs %d entries, first difference at entry %d: %s vs %s", len(a), len(b), i, x, y)
		}
	}
	return ""
}

func concurrentParsers(r *Rng, tier string) {
	rounds, nLong, nShortG, nShort := 2, 8, 4, 12
	if tier == "thorough" {
		rounds = 6
	}
	if old := runtime.GOMAXPROCS(0); old < 4 {
		runtime.GOMAXPROCS(4)
		defer runtime.GOMAXPROCS(old)
	}
	oldDeadline := z.Deadline
	z.Deadline = 120 * time.Second
	defer func() { z.Deadline = oldDeadline }()

	for round := 0; round < rounds; round++ {
		var long []*conJob
		for k := 0; len(long) < nLong; k++ {
			if j, ok := conJobFor(r, k, 20000+int64(r.Intn(3))*5000, 3000); ok {
				long = append(long, j)
			}
		}
		short := make([][]*conJob, nShortG)
		for g := range short {
			for k := 0; len(short[g]) < nShort; k++ {
				if j, ok := conJobFor(r, 100*(g+1)+k, int64(1+r.Intn(6)), int64(r.Intn(4))); ok {
					short[g] = append(short[g], j)
				}
			}
		}
		all := append([]*conJob{}, long...)
		for _, s := range short {
			all = append(all, s...)
		}
		var cfgs []any
		for _, j := range all {
			cfgs = append(cfgs, j.c.JSON())
		}
		input := func(j *conJob) map[string]any {
			return map[string]any{"parser": j.c.JSON(), "all_parsers_of_the_round": cfgs,
				"schedule": fmt.Sprintf("the first %d parsers in one goroutine each, the others in %d goroutines of %d, repeated while the first run; all released together", nLong, nShortG, nShort)}
		}
		// alone first
		bad := false
		for _, j := range all {
			res, _, p, t := conOutcome(j.c)
			stat["concurrent_sequential_checked"]++
			if p || t {
				Viol("C06/concurrent/panic", "parser alone: panic or no end", input(j))
				bad = true
				continue
			}
			j.seq = res
			if d := firstDiff(j.want, res); d != "" {
				Viol("C06/concurrent/records-differ", "parsed alone, denoted vs parsed: "+d, input(j))
			}
		}
		if bad {
			continue
		}
		// all at once
		type result struct {
			j        *conJob
			res      []string
			show     string
			p, t     bool
			pass     int
		}
		var mu sync.Mutex
		var results []*result
		startCh := make(chan struct{})
		var wg, ready sync.WaitGroup
		var longLeft atomic.Int32
		longLeft.Store(int32(len(long)))
		ready.Add(len(long) + len(short))
		for _, j := range long {
			wg.Add(1)
			go func(j *conJob) {
				defer wg.Done()
				ready.Done()
				<-startCh
				res, show, p, t := conOutcome(j.c)
				longLeft.Add(-1)
				mu.Lock()
				results = append(results, &result{j: j, res: res, show: show, p: p, t: t})
				mu.Unlock()
			}(j)
		}
		for _, s := range short {
			wg.Add(1)
			go func(s []*conJob) {
				defer wg.Done()
				ready.Done()
				<-startCh
				for pass := 0; pass < 200; pass++ {
					for _, j := range s {
						res, show, p, t := conOutcome(j.c)
						// keep the first pass, and any later pass that differs from the outcome alone
						if pass == 0 || p || t || firstDiff(j.seq, res) != "" {
							mu.Lock()
							results = append(results, &result{j: j, res: res, show: show, p: p, t: t, pass: pass})
							mu.Unlock()
						}
					}
					if longLeft.Load() == 0 {
						break
					}
				}
			}(s)
		}
		ready.Wait()
		close(startCh)
		done := make(chan struct{})
		go func() { wg.Wait(); close(done) }()
		select {
		case <-done:
		case <-time.After(150 * time.Second):
			Viol("C06/concurrent/hang", "parsers running at the same time did not finish within 150 s", map[string]any{"all_parsers_of_the_round": cfgs})
			return
		}
		seen := map[*conJob]bool{}
		for _, x := range results {
			stat["concurrent_parsers_checked"]++
			if x.p || x.t {
				if !seen[x.j] {
					Viol("C06/concurrent/panic", fmt.Sprintf("parser next to others: panic=%v no-end=%v", x.p, x.t), input(x.j))
				}
				seen[x.j] = true
				continue
			}
			if d := firstDiff(x.j.seq, x.res); d != "" && !seen[x.j] {
				seen[x.j] = true
				Viol("C06/concurrent/differs-from-sequential", "the same text parsed alone vs next to other parsers: "+d, input(x.j))
			}
			if d := firstDiff(x.j.want, x.res); d != "" && !seen[x.j] {
				seen[x.j] = true
				Viol("C06/concurrent/records-differ", "parsed next to other parsers, denoted vs parsed: "+d, input(x.j))
			}
		}
		// model cases: the first concurrent outcome of the short zones
		for _, x := range results {
			if x.pass == 0 && !x.p && !x.t && len(x.j.want) < 40 {
				z.EmitD("parse", x.j.c.Args(), x.show)
				stat["case_parse_concurrent"]++
			}
		}
	}
}
