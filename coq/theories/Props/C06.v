(* Props/C06.v — property C06 (zone files denote what RFC 1035 section 5 says).
   Only statements; each is closed by [exact] of a lemma proved in Proofs/.
   The specification is Model/ZoneSpec.v: abstract zones, [denote] (a fold over
   origin, previous owner, $TTL value, last stated TTL, configured default),
   token skeletons [sk_zone] (what the lexer hands over, positions, comments and
   mnemonic spellings aside), $GENERATE templates.  The parser model is
   Model/Zone.v, shared with C07. *)
From Dns Require Import Model.ZoneSpec Proofs.ZoneProofs Proofs.ZoneSpecProofs.
Open Scope N_scope.

(* Relative names are completed with the current origin, @ is the origin,
   absolute names are kept: for every name that may be written. *)
Theorem name_completion :
  forall (origin n : bytes),
    origin <> [] -> (n = [64] \/ (is_domain_name n = true /\ n <> [10])) ->
    to_absolute_name n origin = Some (complete origin n).
Proof. exact to_absolute_complete. Qed.

(* TTL unit suffixes: the parser's value of a TTL text is the weighted sum
   (w d h m s, either case, a trailing number counts seconds) whenever the
   64-bit computation does not wrap; values above 2^32-1 are rejected. *)
Theorem ttl_units :
  forall s : bytes,
    ttl_nowrap s 0 0 = true ->
    string_to_ttl s = match ttl_of_text s with
                      | Some v => if 4294967295 <? v then None else Some v
                      | None => None
                      end.
Proof. exact string_to_ttl_spec. Qed.

(* The parser refines the denotation.  For every abstract zone whose entries are
   well formed (names valid, TTL texts meaningful and below 2^32, RDATA of the
   family of its type) and every token list with the zone's skeleton, whatever
   the positions, comments and spellings of mnemonics: the parser yields exactly
   the records the zone denotes - relative names completed with the current
   origin, @ the origin, an omitted owner the previous owner, an omitted TTL the
   $TTL value else the most recently stated TTL else the configured default, an
   omitted class IN, TTL and class in either order.  (Zones without a
   denotation - no owner to repeat, no TTL to take - are outside: [denote] is
   None for them.) *)
Theorem zp_refines :
  forall (fs_open os_open : bytes -> option bytes) (d : nat) (cf : cfg)
         (origin : bytes) (default : option N) (es : list entry) (toks : list tok) (recs : list rr),
    origin <> [] -> is_fqdn origin = true -> is_domain_name origin = true ->
    Forall wf_entry es ->
    Forall2 realizes toks (sk_zone es) ->
    denote origin default es = Some recs ->
    run_d fs_open os_open d cf origin
          (match default with Some t => Some (mkTtl t false) | None => None end) toks None
    = map ERec recs.
Proof. exact zp_refines_tokens. Qed.

(* $GENERATE: for a well-formed template (literal text without $ and backslash,
   the bare $, ${...} blocks whose modifier parses and passes the offset guard)
   the text handed to the sub parser is one line per iterator value start,
   start+step, ... <= stop, with every $ and ${offset,width,base} replaced by
   the value, formatted as the modifier says. *)
Theorem generate_expand :
  forall (tpl : list gpiece) (start stop step : Z),
    wf_tpl start stop tpl -> (0 < step < two63)%Z -> (0 <= start <= stop)%Z -> (stop < two63)%Z ->
    gen_bytes (render_tpl tpl) start stop step =
    (flat_map (fun i => subst_tpl i tpl ++ [10])
              (gen_values (gen_count start stop step) start stop step), None).
Proof. exact generate_expands. Qed.

(* ... and these are all the values of the range. *)
Theorem generate_values :
  forall (start stop step : Z),
    (0 < step)%Z -> (0 <= start <= stop)%Z ->
    length (gen_values (gen_count start stop step) start stop step) = gen_count start stop step /\
    (forall v, In v (gen_values (gen_count start stop step) start stop step) ->
               exists k : nat, (v = start + Z.of_nat k * step)%Z).
Proof. exact gen_values_all. Qed.

(* $INCLUDE: the origin argument of the directive is completed with the
   includer's origin, and the includer's own origin and TTL state are what they
   were ... *)
Theorem include_keeps_origin :
  forall (cf : cfg) (p : pst) (tD tB tF tB2 tO tNl : tok) (rest : list tok) (file o : bytes),
    c_inc cf = true -> p_origin p <> [] -> wf_name o -> file <> [] ->
    realizes tD (mkSk ZDirInclude [] 0) -> realizes tB sk_blank -> realizes tF (sk_str file) ->
    realizes tB2 sk_blank -> realizes tO (sk_str o) -> realizes tNl sk_nl ->
    exists p', zloop cf p XOwnerDir 0 (tD :: tB :: tF :: tB2 :: tO :: tNl :: rest)
               = NInclude tF (complete (p_origin p) o) p' (tNl :: rest) /\
               p_origin p' = p_origin p /\ p_defttl p' = p_defttl p.
Proof. exact include_line. Qed.

(* ... and the records of the file are spliced in: after the open come the
   events of the file's parser (run under the stated origin), then the
   includer continues in its own state. *)
Theorem include_splice :
  forall (fs_open os_open : bytes -> option bytes) (sub gen : sub_sig) (cf : cfg) (rerr : option perr)
         (k : pst -> list tok -> list ev) (p : pst) (toks : list tok) (l : tok) (neworigin : bytes)
         (p' : pst) (rest : list tok) (content : bytes),
    zloop cf p XOwnerDir 0 toks = NInclude l neworigin p' rest ->
    Nat.leb maxIncludeDepth (c_depth cf) = false ->
    (if c_fs cf then fs_open (include_path (c_fs cf) (c_file cf) (t_text l))
     else os_open (include_path (c_fs cf) (c_file cf) (t_text l))) = Some content ->
    let path := include_path (c_fs cf) (c_file cf) (t_text l) in
    let evs := sub (mkCfg path true (c_fs cf) false (S (c_depth cf))) neworigin (p_defttl p')
                   (lex content) None in
    failed evs = false ->
    level_body fs_open os_open (Some sub) gen cf rerr k p toks
    = EOpen (c_fs cf) path true (S (c_depth cf)) :: evs ++ k p' rest.
Proof. exact include_splices. Qed.
