(* Corr/C01.v — case runner for C01 (wire encoding of records and messages), plus
   the struct-level unpack cases of Model/OptValUnpack.v: option code / SVCB key
   and value octets -> error class or the decoded VALUE, printed in the encoding
   the optval / svcbval cases of Corr/C08.v read. *)
From Dns Require Import Base.Bytes Corr.Wire Model.OptValUnpack.
Open Scope N_scope.

Definition c1 (k : string) (l : list string) : string := (k +++ ":" +++ join ":" l)%string.
Definition show_xlist (l : list bytes) : string := join "," (map (fun e => ("x" +++ hex e)%string) l).

Definition show_optval (v : optval) : string :=
  match v with
  | O_LLQ a b c d e => c1 "LLQ" [dec a; dec b; dec c; dec d; dec e]
  | O_UL l k => c1 "UL" [dec l; dec k]
  | O_NSID t => c1 "NSID" [hex t]
  | O_ESU t => c1 "ESU" [hex t]
  | O_DAU t => c1 "DAU" [hex t]
  | O_DHU t => c1 "DHU" [hex t]
  | O_N3U t => c1 "N3U" [hex t]
  | O_SUBNET f m s a => c1 "SUBNET" [dec f; dec m; dec s; hex a]
  | O_EXPIRE e empty => c1 "EXPIRE" [dec e; if empty then "1" else "0"]%string
  | O_COOKIE t => c1 "COOKIE" [hex t]
  | O_KEEPALIVE t => c1 "KEEPALIVE" [dec t]
  | O_PADDING t => c1 "PADDING" [hex t]
  | O_EDE c t => c1 "EDE" [dec c; hex t]
  | O_REPORTING a => c1 "REPORTING" [hex a]
  | O_ZONEVERSION l t x => c1 "ZONEVERSION" [dec l; dec t; hex x]
  | O_LOCAL c d => c1 "LOCAL" [dec c; hex d]
  end.

Definition show_svcbval (v : svcbval) : string :=
  match v with
  | S_MANDATORY cs => c1 "MANDATORY" [show_ns cs]
  | S_ALPN ids => c1 "ALPN" [show_xlist ids]
  | S_NODEFAULTALPN => "NODEFAULTALPN"%string
  | S_PORT p => c1 "PORT" [dec p]
  | S_IPV4HINT h => c1 "IPV4HINT" [show_xlist h]
  | S_ECH d => c1 "ECH" [hex d]
  | S_IPV6HINT h => c1 "IPV6HINT" [show_xlist h]
  | S_DOHPATH d => c1 "DOHPATH" [hex d]
  | S_OHTTP => "OHTTP"%string
  | S_LOCAL k d => c1 "SLOCAL" [dec k; hex d]
  end.

(* value; then what pack() of the decoded value returns (the model of the
   repacking the harness does with the real methods) *)
Definition c_optunpack (code data : string) : string :=
  match opt_unpack (undec code) (unhex data) with
  | Ok v => ("ok:" +++ show_optval v +++ ";" +++ show_res hex (opt_pack v))%string
  | r => show_res (fun _ => EmptyString) r
  end.
Definition c_svcbunpack (key data : string) : string :=
  match svcb_unpack (undec key) (unhex data) with
  | Ok v => ("ok:" +++ show_svcbval v +++ ";" +++ show_res hex (svcb_pack v))%string
  | r => show_res (fun _ => EmptyString) r
  end.

Definition run (fn : string) (args : list string) : string :=
  if String.eqb fn "optunpack" then c_optunpack (arg args 0) (arg args 1)
  else if String.eqb fn "svcbunpack" then c_svcbunpack (arg args 0) (arg args 1)
  else match run_wire fn args with Some s => s | None => "unknown-fn"%string end.
