from .core import Check


class C18(Check):
    prop = "C18"
    props_rel = "Props/C18"
    corr_module = "Corr.C18"
    corr_rel = "Corr/C18"
    model_desc = ("Model/Sig0.v: SIG.Sign (buffer sized from the uncompressed length + 1 + Len(rr), PackBuffer reallocation "
                  "test, PackRR, digest input, RDLENGTH/ARCOUNT patch) and SIG.Verify (question and record skipping by raw "
                  "offsets, window, signer, digest input with the 16-bit ARCOUNT-1) on octet strings with Go's slice/index "
                  "panics as explicit Panic results; "
                  "Model/Wire.v: UnpackDomainName and the strict framing predicate; hash-then-sign / hash-then-verify are "
                  "Section variables over the digest input octets")
    rule = ("direct oracles on the implementation: sign random messages (all record kinds, with and without compression, up to "
            "65 KiB, 254..513 additional records) with fresh Ed25519, ECDSA P-256/P-384, RSA-SHA1/256/512 keys; layout against an "
            "independent framing walker; signature checked with crypto/* directly over SIG RDATA | Pack(m); real Verify of the "
            "result, of every single-bit flip (unpack, take the trailing SIG, verify), of every truncation >= 12 octets, with "
            "other keys, other signer names, windows around the clock; hand-made and random malformed buffers >= 12 octets "
            "under Protect. Size limits from both sides for every key: signed size 65534/65535/65536 (four message shapes, "
            "compressed and not, incl. uncompressed length above 65535), 511..49153, the 12-octet header alone, SIG RDLENGTH "
            "255/256/257 and 255-octet signer names, 254/255/256 records in one and in three sections, the most records 65535 "
            "octets hold; oracle: the signed size is known beforehand (Pack + SIG record + signature length of the key), "
            "whatever fits must be signed and verify. Concurrency: 24 goroutines (four per key) sign, verify and verify an "
            "altered copy of their own message 30..1200 times at once; each result against the same call made alone (equal "
            "octets, equal signature for RSA/Ed25519, signer handed exactly the digest of RDATA | message, crypto/* check, "
            "Verify ok, altered rejected) - no oracle depends on time or schedule. KEY objects changing between calls (same "
            "object re-generated, PublicKey / owner / algorithm replaced and restored, two objects with equal tag, owner, "
            "algorithm used alternately and exchanged): Verify judged by what the KEY holds at the call. Window with "
            "inception/expiration at now-1, now, now+1 for every key and all pairs over 0, 1, 2^31-1, 2^31, 2^32-1, now+-1: "
            "clock read around the call, judged when both readings agree, repeated until the call ran in the second the "
            "window was built from. Names as octet strings: signer names holding every octet value; against each a KEY owner "
            "with every one of the 256 values at every position (canonical, raw, \\DDD), every character the Unicode case "
            "tables relate to an ASCII letter (U+212A, U+017F, U+0130, U+0131, fullwidth) as raw UTF-8 and escaped, ASCII case "
            "flips, XOR 0x20 on every octet, labels added / dropped / split / merged; oracle from the wire forms: any difference "
            "other than ASCII letter case must fail, ASCII case only must verify. Verify only reads its inputs: buffer (with "
            "capacity behind its length), SIG and KEY compared before / after every Verify call of the harness; an observing hash "
            "put into the crypto registry (and AlgorithmToHash for Ed25519) checks them at every Write / Sum during the call and "
            "runs a second Verify of the same octets there; six goroutines per buffer verify 14 shared buffers at once behind a "
            "start barrier (matching key, other material, other owner), a reader compares the octets all along. Signature field "
            "length: appended / prepended / cut / r and s padded or stripped, RDLENGTH adjusted, every key: must fail. SIG values "
            "whose header and remaining fields the caller filled before Sign (owner name absent / root / the key's / the "
            "question's / relative / 63-64-octet labels / 254-255-256 octets / no name at all / escapes / raw high octets; "
            "Rrtype, Class, Ttl, Rdlength, TypeCovered, Labels, OrigTtl at their corners; filled like an RRSIG; a SIG unpacked "
            "from a signed message reused; one value signing three messages in a row), every key: all oracles of a plain "
            "message (exact size, Pack() with ARCOUNT+1 followed by one trailing `. SIG ANY 0` record whose RDATA holds the "
            "five documented fields only, Unpack, crypto/* check, Verify, altered bits, truncations) and sign model cases. Model cases: sign (key-field errors, unknown algorithm, compression on/off) and verify (valid, "
            "bit flips steering the counts and offsets, truncations, malformed buffers, mismatched caller SIG); messages above 3000 octets as run-length recipes both sides expand (signbig/verifybig, "
            "long octet strings compared by length.sum.sum-of-prefix-sums); the last result of each goroutine. Non-trivial: "
            "input longer than a header; distinct by hash of (function, arguments, output).")
    partial = ["signing and signature checking are Section variables: that a signature by the private key verifies under the "
               "public key (sig_sound) and that a signature fits one digest input only (sig_binding) are named hypotheses",
               "the uncompressed length and m.Pack() are inputs of the sign model; |Pack| <= uncompressed length + 1 is property C08",
               "the clock cannot be injected into SIG.Verify: window cases are judged only when the clock did not tick during "
               "the call",
               "a KEY owner that spells the signer's own name another way (raw octets above 127, a letter as \\DDD) is not judged: "
               "Verify compares presentation strings and rejects it (counted in same_name_other_presentation_rejected)",
               "messages above 3000 octets reach the model only when their octets have a run-length recipe of at most 16000 "
               "characters (the generated size-limit messages do; random large ones are checked by the direct oracles only), and "
               "the verify model is run on them only up to 40 records (it costs ~5 ms per record in a 64 KiB message)",
               "concurrency is not part of the Gallina model (a pure function has no shared state): the concurrent results are "
               "tied to it by comparing each with the sequential call and emitting the last one of each goroutine as a model case; "
               "whether two calls overlap is up to the scheduler - the round counts make a shared-buffer change fail within the "
               "first tenth of the rounds on 1..16 CPUs"]
    trusted = ["label-list view of names; labels.go equal = equality of lower-cased labels on the strings UnpackDomainName produces"]
    shard_size = 190

    def nontrivial(self, c):
        a = c["args"]
        return len(a[1] if c["fn"].startswith("sign") else a[7]) > 24


CHECK = C18()
