package main

// Model cases for C05: the implementation's outputs on concrete inputs, in
// the canonical text form the Coq runner (Corr/C05.v) produces.

import (
	"net"
	"reflect"
	"sort"
	"strconv"
	"strings"
	"time"

	"github.com/miekg/dns"
	. "verif/harness/common"
)

// types whose String()/parse() follow the presentation grammar of Model/Present.v
// (playout); tied to the model by the "covered" case.
var coveredTypes = []uint16{1, 2, 3, 4, 5, 6, 7, 8, 9, 12, 13, 14, 15, 16, 17, 18, 19, 20, 21, 23, 24, 25, 26, 27, 28, 30, 31, 32, 33, 35, 36, 37, 39, 43, 44,
	45, 46, 47, 48, 49, 50, 51, 52, 53, 55, 56, 57, 58, 59, 60, 61, 62, 63, 99, 100, 101, 102, 104, 105, 106, 107, 108, 109, 256, 257, 258, 260, 261, 32768, 32769}

func isCovered(t uint16) bool {
	for _, c := range coveredTypes {
		if c == t {
			return true
		}
	}
	return false
}

// floatSimple: the plain decimals for which the model knows that
// strconv.ParseFloat accepts them (Model/Present.v float_simple).
func floatSimple(s string) bool {
	if len(s) == 0 || len(s) > 300 {
		return false
	}
	if s[0] == '+' || s[0] == '-' {
		s = s[1:]
	}
	point, digit := false, false
	for i := 0; i < len(s); i++ {
		switch {
		case s[i] >= '0' && s[i] <= '9':
			digit = true
		case s[i] == '.' && !point:
			point = true
		default:
			return false
		}
	}
	return digit
}

func hexList(ss []string) string {
	o := make([]string, len(ss))
	for i, s := range ss {
		o[i] = "x" + Hs(s)
	}
	return strings.Join(o, ",")
}

func ckStep(h uint64, b byte) uint64 { return (h*31 + uint64(b) + 1) % 4294967291 }
func ckList(ss []string) uint64 {
	h := uint64(7)
	for _, s := range ss {
		for i := 0; i < len(s); i++ {
			h = ckStep(h, s[i])
		}
		h = ckStep(h, 44)
	}
	return h
}

func showToks(ts []dns.VerifC05Tok) string {
	var o []string
	for _, t := range ts {
		switch {
		case t.Err:
			o = append(o, "E:"+strings.ReplaceAll(t.Token, " ", "_"))
		case t.Value == dns.VerifC05ZString:
			o = append(o, "S:"+Hs(t.Token))
		case t.Value == dns.VerifC05ZBlank:
			o = append(o, "B")
		case t.Value == dns.VerifC05ZQuote:
			o = append(o, "Q")
		case t.Value == dns.VerifC05ZNewline:
			o = append(o, "N")
		case t.Value == dns.VerifC05ZOwner:
			o = append(o, "O:"+Hs(t.Token))
		case t.Value == dns.VerifC05ZRrtpe:
			o = append(o, "T:"+Itoa(int(t.Torc))+":"+Hs(t.Token))
		case t.Value == dns.VerifC05ZClass:
			o = append(o, "C:"+Itoa(int(t.Torc))+":"+Hs(t.Token))
		default:
			o = append(o, "U")
		}
	}
	return strings.Join(o, "|")
}

// field values of rr in the model's notation (by struct tag, independent of
// the model's layout table)
//
// now >= 0: the values as the printer sees them (RRSIG times carry the clock
// reading); now < 0: the values as a parser returns them.
func pvals(rr dns.RR, now int64) []string {
	var out []string
	tm := func(t uint32) string {
		if now < 0 {
			return "i:" + strconv.FormatUint(uint64(t), 10)
		}
		return "m:" + strconv.FormatInt(now, 10) + ":" + strconv.FormatUint(uint64(t), 10)
	}
	u := func(v uint64) string { return "i:" + strconv.FormatUint(v, 10) }
	sized := func(n uint8, s string) string { return "z:" + Itoa(int(n)) + ":" + Hs(s) }
	types := func(ts []uint16) string {
		var o []string
		for _, x := range ts {
			o = append(o, Itoa(int(x)))
		}
		return "t:" + strings.Join(o, ",")
	}
	rrsig := func(x *dns.RRSIG) []string {
		return []string{u(uint64(x.TypeCovered)), u(uint64(x.Algorithm)), u(uint64(x.Labels)), u(uint64(x.OrigTtl)), tm(x.Expiration), tm(x.Inception),
			u(uint64(x.KeyTag)), "n:" + Hs(x.SignerName), "w:" + Hs(x.Signature)}
	}
	var walk func(v reflect.Value)
	walk = func(v reflect.Value) {
		t := v.Type()
		for i := 0; i < t.NumField(); i++ {
			f := t.Field(i)
			if f.Name == "Hdr" {
				continue
			}
			if f.Anonymous && f.Type.Kind() == reflect.Struct {
				walk(v.Field(i))
				continue
			}
			tag := f.Tag.Get("dns")
			fv := v.Field(i)
			switch {
			case tag == "cdomain-name" || tag == "domain-name":
				out = append(out, "n:"+Hs(fv.String()))
			case tag == "txt":
				out = append(out, "s:"+hexList(fv.Interface().([]string)))
			case tag == "octet":
				out = append(out, "o:"+Hs(fv.String()))
			case tag == "hex" || tag == "base64":
				out = append(out, "w:"+Hs(fv.String()))
			case tag == "nsec":
				var o []string
				for _, x := range fv.Interface().([]uint16) {
					o = append(o, Itoa(int(x)))
				}
				out = append(out, "t:"+strings.Join(o, ","))
			case fv.Kind() >= reflect.Uint8 && fv.Kind() <= reflect.Uint64:
				out = append(out, "i:"+strconv.FormatUint(fv.Uint(), 10))
			case tag == "" && fv.Kind() == reflect.String:
				// printed verbatim (X25, NAPTR, CAA tag)
				out = append(out, "w:"+Hs(fv.String()))
			default:
				out = append(out, "?:"+f.Name)
			}
		}
	}
	switch x := rr.(type) {
	case *dns.A:
		return []string{"a:" + Hx(x.A.To4())}
	case *dns.L32:
		return []string{"i:" + Itoa(int(x.Preference)), "a:" + Hx(x.Locator32.To4())}
	case *dns.HINFO:
		return []string{"s:" + hexList([]string{x.Cpu, x.Os})}
	case *dns.ISDN:
		return []string{"s:" + hexList([]string{x.Address, x.SubAddress})}
	case *dns.UINFO:
		return []string{"o:" + Hs(x.Uinfo)}
	case *dns.NSEC3PARAM:
		return []string{u(uint64(x.Hash)), u(uint64(x.Flags)), u(uint64(x.Iterations)), sized(x.SaltLength, x.Salt)}
	case *dns.NSEC3:
		return []string{u(uint64(x.Hash)), u(uint64(x.Flags)), u(uint64(x.Iterations)), sized(x.SaltLength, x.Salt), sized(x.HashLength, x.NextDomain), types(x.TypeBitMap)}
	case *dns.RRSIG:
		return rrsig(x)
	case *dns.SIG:
		return rrsig(&x.RRSIG)
	case *dns.AAAA:
		// net.IP seen through To16(): nil is empty, four octets are the IPv4-mapped form
		return []string{"a:" + Hx(x.AAAA.To16())}
	case *dns.IPSECKEY:
		return []string{u(uint64(x.Precedence)), "g:" + Itoa(int(x.GatewayType)) + ":" + Itoa(int(x.Algorithm)) + ":" + Hx(x.GatewayAddr.To16()) + ":" + Hs(x.GatewayHost),
			"w:" + Hs(x.PublicKey)}
	case *dns.AMTRELAY:
		return []string{u(uint64(x.Precedence)), "g:" + Itoa(int(x.GatewayType)) + ":0:" + Hx(x.GatewayAddr.To16()) + ":" + Hs(x.GatewayHost)}
	case *dns.HIP:
		return []string{u(uint64(x.PublicKeyAlgorithm)), sized(x.HitLength, x.Hit), "z:" + Itoa(int(x.PublicKeyLength)) + ":" + Hs(x.PublicKey),
			"s:" + hexList(x.RendezvousServers)}
	}
	walk(reflect.ValueOf(rr).Elem())
	return out
}

// showRRAs renders the parse result of line; form says how the RDATA is to be
// shown: "none", "generic" (packed RDATA as hex), "fields", "unmodelled".
func showRRAs(line, form string) string {
	var rr dns.RR
	var err error
	if Protect(func() string { rr, err = dns.NewRR(line); return "" }) == "panic" {
		return "panic"
	}
	if err != nil || rr == nil {
		return "err"
	}
	h := rr.Header()
	s := "ok:name=" + Hs(h.Name) + ";ttl=" + strconv.FormatUint(uint64(h.Ttl), 10) + ";class=" + Itoa(int(h.Class)) + ";type=" + Itoa(int(h.Rrtype)) + ";rd="
	switch form {
	case "none":
		// a record without RDATA: every field other than the header is zero
		c := dns.Copy(rr)
		*c.Header() = dns.RR_Header{}
		z := dns.TypeToRR[h.Rrtype]
		if z != nil && !reflect.DeepEqual(c, z()) {
			return s + "notempty"
		}
		return s + "none"
	case "generic":
		p, e := packRR(rr)
		if e != nil {
			return "err"
		}
		_, _, rd, _ := splitPacked(p)
		return s + "generic:" + Hx(rd)
	case "fields":
		return s + "fields:" + strings.Join(pvals(rr, -1), ";")
	}
	return s + "unmodelled"
}

func rdataText(rr dns.RR) (string, bool) {
	_, rest, ok := splitHeader(rr.String())
	return rest, ok
}

func enumAlpha(alpha string, maxLen int, f func(s string)) {
	var gen func(cur []byte)
	gen = func(cur []byte) {
		f(string(cur))
		if len(cur) == maxLen {
			return
		}
		for i := 0; i < len(alpha); i++ {
			gen(append(append([]byte{}, cur...), alpha[i]))
		}
	}
	gen(nil)
}

func randFrom(r *Rng, alpha string, n int) string {
	b := make([]byte, n)
	for i := range b {
		b[i] = alpha[r.Intn(len(alpha))]
	}
	return string(b)
}

func emitEscapes(r *Rng, tier string) {
	nb := func(s string) {
		b, n := dns.VerifC05NextByte(s, 0)
		Emit("nextbyte", []string{Hs(s)}, Itoa(int(b))+","+Itoa(n))
	}
	all := func(s string) {
		nb(s)
		Emit("sprinttxt", []string{Hs(s)}, Hs(dns.VerifC05SprintTxt([]string{s})))
		Emit("sprintoctet", []string{Hs(s)}, Hs(dns.VerifC05SprintTxtOctet(s)))
		Emit("sprintname", []string{Hs(s)}, Hs(dns.VerifC05SprintName(s)))
		p, err := dns.VerifC05PackTxtString(s)
		switch {
		case err == nil:
			Emit("packtxt", []string{Hs(s)}, "ok:"+Hx(p))
		default:
			Emit("packtxt", []string{Hs(s)}, "err")
		}
		if q, err := dns.VerifC05PackOctetString(s); err == nil {
			Emit("packoctet", []string{Hs(s)}, Hx(q))
		}
	}
	// nextByte: every string over the alphabet that matters, with an offset
	maxLen := 3
	if tier == "thorough" {
		maxLen = 5
	}
	enumAlpha("\\09/:a", maxLen, nb)
	enumAlpha("09/:a", 3, func(s string) { nb("\\" + s + "5") })
	for _, s := range []string{`\000`, `\255`, `\256`, `\999`, `\300x`, `\12`, `\1`, `a\`, `\\`, `\"`, `\.`, `\ `} {
		nb(s)
		b, n := dns.VerifC05NextByte("xy"+s, 2)
		Emit("nextbyte", []string{Hs(s)}, Itoa(int(b))+","+Itoa(n))
	}
	// all 256 octets, raw (followed by a letter) and as \DDD
	for base := 0; base < 256; base += 16 {
		raw, ddd := "", ""
		for b := base; b < base+16; b++ {
			raw += string([]byte{byte(b)}) + "x"
			ddd += "\\" + string([]byte{byte('0' + b/100), byte('0' + b/10%10), byte('0' + b%10)})
		}
		all(raw)
		all(ddd)
		w := make([]byte, 16)
		for i := range w {
			w[i] = byte(base + i)
		}
		s, _, _ := dns.VerifC05UnpackString(append([]byte{16}, w...))
		Emit("unpackstr", []string{Hx(w)}, Hs(s))
	}
	// every single octet on its own (the dangling backslash among them) and escaped
	for b := 0; b < 256; b++ {
		if b%32 == 0 || strings.IndexByte("\\\". ;()@'$\t\n\r", byte(b)) >= 0 || b == 31 || b == 32 || b == 126 || b == 127 {
			all(string([]byte{byte(b)}))
			all("\\" + string([]byte{byte(b)}))
			all("a." + string([]byte{byte(b)}) + ".b.")
		}
	}
	// short strings over the escape alphabet
	n := 0
	enumAlpha("\\.1a\" ", 4, func(s string) {
		n++
		if len(s) <= 2 || n%13 == 0 {
			all(s)
		}
	})
	// names: dots, escapes, dangling escapes, leading dots
	for _, s := range []string{".", "..", "a.", "a", ".a.", "a..b.", `a\.b.`, `a\\.b.`, `a\`, `a.b\`, `\`, `a\ b.c.`, "a b.", `\097.`, `\065\.x.`, `x\046y.`,
		`é.`, "a\tb.", `a\009b.`, `\a\b.`, `a.\`, `"a".`, `a;b.`, `(a).`, `a@b.`, `it's.`, `$a.`, `\#.`, "A.B.", `..\ `, `.\ .`} {
		all(s)
	}
	// random strings with specials; long ones around the 255 / 1025 limits
	alpha := "\\\\\\\"\" ..;()@'019azAZ\t\n\r\x00\x7f\x80\xff"
	cnt := 30
	if tier == "thorough" {
		cnt = 3000
	}
	for i := 0; i < cnt; i++ {
		all(randFrom(r, alpha, 1+r.Intn(24)))
	}
	for _, l := range []int{254, 255, 256, 257} {
		s := randFrom(r, "ab1", l)
		all(s)
		all(strings.Repeat(`\1`, 0) + strings.Repeat(`\200`, l)[:4*l])
	}
	for _, l := range []int{1024, 1025, 1026} {
		p, err := dns.VerifC05PackTxtString(strings.Repeat("\\", l))
		o := "err"
		if err == nil {
			o = "ok:" + Hx(p)
		}
		Emit("packtxt", []string{Hs(strings.Repeat("\\", l))}, o)
	}
	// several strings
	for _, ss := range [][]string{{}, {""}, {"", ""}, {"a", ""}, {"a b", `c"d`, `e\f`}, {`\`, "x"}, {"\x00\xff", `\000\255`}} {
		hs := make([]string, len(ss))
		for i, s := range ss {
			hs[i] = Hs(s)
		}
		Emit("sprinttxt", hs, Hs(dns.VerifC05SprintTxt(ss)))
	}
	// escapedStringOffset
	eso := func(s string, d int) {
		i, ok := dns.VerifC05EscapedStringOffset(s, d)
		o := "err"
		if ok {
			o = Itoa(i)
		}
		Emit("eso", []string{Hs(s), Itoa(d)}, o)
	}
	for _, s := range []string{"", "a", "abc", `\`, `a\`, `\\`, `\065b`, `\06`, `a\"b`, `\1234`, `ab\`, `\a\b\c`} {
		for _, d := range []int{0, 1, 2, 3, 4, 255} {
			eso(s, d)
		}
	}
	for _, l := range []int{254, 255, 256} {
		eso(strings.Repeat("a", l), 255)
		eso(strings.Repeat(`\200`, l), 255)
		eso(strings.Repeat(`\"`, l), 255)
		eso(strings.Repeat("a", l-1)+`\`, 255)
	}
}

func emitLexer(r *Rng, tier string, printed []string) {
	lexCase := func(mode, s string) {
		if Protect(func() string {
			Emit("lex", []string{mode, Hs(s)}, showToks(dns.VerifC05Lex(s, mode == "rdata")))
			return ""
		}) == "panic" {
			Emit("lex", []string{mode, Hs(s)}, "panic")
		}
	}
	slice := func(s string) {
		ss, ok := dns.VerifC05TxtSlice(s)
		o := "err"
		if ok {
			o = "ok:" + hexList(ss)
		}
		Emit("txtslice", []string{Hs(s)}, o)
		e, ok := dns.VerifC05EndingToString(s)
		o = "err"
		if ok {
			o = "ok:" + Hs(e)
		}
		Emit("endstr", []string{Hs(s)}, o)
	}
	// bounded-exhaustive over the characters the lexer distinguishes (no comment start)
	n := 0
	maxLen, keep := 4, 15
	if tier == "thorough" {
		maxLen, keep = 5, 3
	}
	enumAlpha("a \"\\(\n", maxLen, func(s string) {
		n++
		if len(s) <= 2 || n%keep == 0 {
			lexCase("rdata", s)
			lexCase("line", s)
		}
	})
	enumAlpha("a\t)\r1", 3, func(s string) {
		lexCase("rdata", s+"\n")
		lexCase("line", "x "+s+"\n")
	})
	for _, s := range []string{
		"x.\t5\tIN\tA\t1.2.3.4\n", "x. 5 in a 1.2.3.4\n", "x. IN 5 A 1.2.3.4\n", "x. A 1.2.3.4\n", "x. 5 A 1.2.3.4\n", "x. IN A 1.2.3.4\n",
		"A 1.2.3.4\n", " A 1.2.3.4\n", "x. 5 ANY A 1.2.3.4\n", "x. 5 IN ANY\n", "x. 5 IN None x\n", "x. 5 NONE A\n", "x. 5 CLASS255 TYPE255 \\# 0\n",
		"x. 5 IN TYPE1 1.2.3.4\n", "x. 5 IN type1 1.2.3.4\n", "x. 5 IN TYPE65536 1\n", "x. 5 IN TYPE 1\n", "x. 5 IN TYPEx 1\n", "x. 5 CLASS1 A 1\n",
		"x. 5 CLASS65536 A 1\n", "x. 5 CLASS A 1\n", "x. 5 class12 type12 \\# 0\n", "x. 5 IN A\n", "x. 5 IN A", "x. 5 IN TYPE1\n", "x. 5 IN A\t\n",
		"x. 5 IN TXT \"a b\" \"c\"\n", "x. 5 IN TXT \"a\\\"b\" c\\ d \"\"\n", "x. 5 IN TXT \"a;b\" \\;c\n", "x. 5 IN TXT (a\nb)\n", "x. 5 IN TXT (a\n", "x. 5 IN TXT a)\n",
		"x. 5 IN TXT \"a\nb\"\n", "x. 5 IN TXT \"a\r\nb\"\r\n", "x. 5 IN TXT a\\\nb\n", "x. 5 IN TXT \"unterminated\n", "\"x\". 5 IN A 1\n", "x\\ y. 5 IN A 1\n",
		"@ 5 IN A 1.2.3.4\n", "x.\t\t5  IN \t A   1.2.3.4  \n", "\n", "", " \n", "x.\n", "x. \n", "IN A 1\n", "5 IN A 1\n", "x. 1h IN A 1\n", "x. IN 1h A 1\n",
		"x. 5 IN IN A 1\n", "x. 5 5 A 1\n", "x. 5 IN A A 1\n", "x. 5 IN NSEC y. A TYPE1 MX\n", "x. 5 IN A (\n1.2.3.4\n)\n", "a\\(b. 5 IN A 1\n", "x. 5 IN A \\(\n",
	} {
		lexCase("line", s)
	}
	for _, s := range []string{`"a" "b"`, `"a""b"`, `"a"b"c"`, `a b`, `"a b" c`, `""`, `"" ""`, `" "`, `"a`, `a"`, `"a" "`, `\"a\"`, `"\""`, `"\\"`, `"\\\""`,
		`a\ b`, `"a\`, "\"a\tb\"", `"a;b"`, `a\;b`, `(a b)`, `"(a)"`, `a\)`, `)`, `(`, "a\n", "\"a\"\n\"b\"", `a\`, `\#`, `\# 2 abcd`, "ab  cd\t ef", ""} {
		lexCase("rdata", s)
		slice(s)
		slice(s + "\n")
	}
	// long tokens: the 255-chunking
	for _, l := range []int{254, 255, 256, 510, 511, 600} {
		slice(`"` + strings.Repeat("a", l) + `"`)
		slice(strings.Repeat("a", l))
		slice(`"` + strings.Repeat(`\200`, l) + `"`)
		slice(`"` + strings.Repeat("a", l-1) + `\"` + `"`)
		slice(`"` + strings.Repeat("a", l) + `\` + `"`)
	}
	// text the printers produced
	for _, p := range printed {
		lexCase("line", p+"\n")
		if _, rest, ok := splitHeader(p); ok {
			lexCase("rdata", rest+"\n")
			slice(rest + "\n")
		}
	}
}

func emitCodes(r *Rng, tier string) {
	// the tables themselves
	tbl := func(m map[uint16]string) string {
		var ks []int
		for k := range m {
			ks = append(ks, int(k))
		}
		sort.Ints(ks)
		var o []string
		for _, k := range ks {
			o = append(o, Itoa(k)+"="+Hs(m[uint16(k)]))
		}
		return strings.Join(o, ",")
	}
	var reg []int
	for k := range dns.TypeToRR {
		reg = append(reg, int(k))
	}
	sort.Ints(reg)
	var regs []string
	for _, k := range reg {
		regs = append(regs, Itoa(k))
	}
	Emit("tables", nil, tbl(dns.TypeToString)+";"+tbl(dns.ClassToString)+";"+strings.Join(regs, ","))
	tbl8 := func(m map[uint8]string) string {
		m16 := map[uint16]string{}
		for k, v := range m {
			m16[uint16(k)] = v
		}
		return tbl(m16)
	}
	// CERT mnemonics; the reverse maps must be the inverses
	revOK := len(dns.StringToCertType) == len(dns.CertTypeToString) && len(dns.StringToAlgorithm) == len(dns.AlgorithmToString)
	for k, v := range dns.CertTypeToString {
		if dns.StringToCertType[v] != k {
			revOK = false
		}
	}
	for k, v := range dns.AlgorithmToString {
		if dns.StringToAlgorithm[v] != k {
			revOK = false
		}
	}
	if revOK {
		Emit("tables2", nil, tbl(dns.CertTypeToString)+";"+tbl8(dns.AlgorithmToString))
	} else {
		Emit("tables2", nil, "reverse-maps-differ")
	}
	// RRSIG times: TimeToString at the present clock reading, StringToTime
	now := time.Now().Unix()
	for _, t := range []uint32{0, 1, 59, 60, 86399, 86400, 951782400, 951868799, 1<<31 - 1, 1 << 31, 1<<31 + 1, 1<<32 - 1, 4107542399, 4107542400,
		uint32(now), uint32(now) + 1<<31, uint32(now) + 1<<31 - 1, uint32(now) - 1, uint32(r.Next()), uint32(r.Next()), uint32(r.Next()), uint32(r.Next())} {
		Emit("timetostr", []string{strconv.FormatInt(now, 10), strconv.FormatUint(uint64(t), 10)}, Hs(dns.TimeToString(t)))
	}
	for _, s := range []string{"20110403154150", "19700101000000", "19691231235959", "21060207062815", "21060207062816", "20380119031407", "20380119031408",
		"20000229000000", "19000229000000", "21000229000000", "20240229235959", "20230229000000", "20231301000000", "20230001000000", "20230100000000",
		"20230132000000", "20230431000000", "20230101240000", "20230101236000", "20230101235960", "20230101235959", "00000101000000", "99991231235959",
		"2023010123595", "202301012359599", "20230101235959.5", "20230101235959,123456789012", "20230101235959.", "20230101235959.x", "20230101235959x",
		"2023010a235959", "+0230101235959", "", "1", "4294967295", "20110403 154150", "22420101000000", "30000101000000", "01000101000000"} {
		v, err := dns.StringToTime(s)
		o := "none"
		if err == nil {
			o = strconv.FormatUint(uint64(v), 10)
		}
		Emit("strtotime", []string{Hs(s)}, o)
	}
	for i := 0; i < 40; i++ {
		t := uint32(r.Next())
		s := time.Unix(int64(t), 0).UTC().Format("20060102150405")
		v, err := dns.StringToTime(s)
		o := "none"
		if err == nil {
			o = strconv.FormatUint(uint64(v), 10)
		}
		Emit("strtotime", []string{Hs(s)}, o)
	}
	var cov []string
	for _, t := range coveredTypes {
		cov = append(cov, Itoa(int(t)))
	}
	Emit("covered", nil, strings.Join(cov, ","))
	// Type.String / Class.String for all 65536 codes, by checksum over blocks
	const blk = 2048
	for lo := 0; lo < 65536; lo += blk {
		// quick: the blocks holding registered codes and the ends of the code space, and two more
		if tier != "thorough" && lo != 0 && lo != 32768 && lo != 65536-blk && lo != blk*(1+r.Intn(14)) && lo != blk*(17+r.Intn(14)) {
			continue
		}
		ts := make([]string, blk)
		cs := make([]string, blk)
		for i := 0; i < blk; i++ {
			ts[i] = dns.Type(uint16(lo + i)).String()
			cs[i] = dns.Class(uint16(lo + i)).String()
		}
		Emit("showtypes", []string{Itoa(lo), Itoa(lo + blk)}, strconv.FormatUint(ckList(ts), 10))
		Emit("showclasses", []string{Itoa(lo), Itoa(lo + blk)}, strconv.FormatUint(ckList(cs), 10))
	}
	for _, t := range []int{0, 1, 10, 11, 22, 255, 256, 259, 262, 32767, 32768, 32770, 65280, 65534, 65535} {
		Emit("showtype", []string{Itoa(t)}, Hs(dns.Type(uint16(t)).String()))
		Emit("showclass", []string{Itoa(t)}, Hs(dns.Class(uint16(t)).String()))
	}
	opt := func(v uint16, ok bool) string {
		if !ok {
			return "none"
		}
		return Itoa(int(v))
	}
	for _, s := range []string{"TYPE1", "TYPE65535", "TYPE65536", "TYPE", "TYPE01", "TYPE0", "type12", "TYPEx", "ABCD12", "TYPE-1", "TYPE+1", "TYPE 1", "TYPE1 ", "T", "",
		"CLASS1", "CLASS65535", "CLASS65536", "CLASS", "CLASS007", "class3", "CLASSx", "ABCDE9", "CLAS1", "TYPE99999999999999999999", "TYPE1_0", "TYPE1.0"} {
		v, ok := dns.VerifC05TypeToInt(s)
		Emit("typetoint", []string{Hs(s)}, opt(v, ok))
		v, ok = dns.VerifC05ClassToInt(s)
		Emit("classtoint", []string{Hs(s)}, opt(v, ok))
	}
}

func emitRecords(r *Rng, tier string, types []uint16) (printed []string) {
	hdrCase := func(rr dns.RR) {
		h := rr.Header()
		s := h.String()
		Emit("hdr", []string{Hs(h.Name), strconv.FormatUint(uint64(h.Ttl), 10), Itoa(int(h.Class)), Itoa(int(h.Rrtype))}, Hs(s))
	}
	per := 5
	if tier == "thorough" {
		per = 60
	}
	for _, t := range types {
		for i := 0; i < per; i++ {
			variant = i
			var g *grec
			switch {
			case i == 0:
				g = genRecord(r, t, nil, false)
			default:
				g = genRecord(r, t, nil, true)
			}
			w := g.wire()
			rr, off, err := dns.UnpackRR(w, 0)
			if err != nil || off != len(w) {
				continue
			}
			now := time.Now().Unix()
			text := rr.String()
			if i < 3 || tier == "thorough" {
				hdrCase(rr)
			}
			if !isCovered(t) {
				if i < 2 && checkRecord(rr, nil).Kind == "" {
					printed = append(printed, text)
				}
				continue
			}
			_, rest, ok := splitHeader(text)
			if !ok {
				continue
			}
			Emit("present", append([]string{Itoa(int(t))}, pvals(rr, now)...), Hs(rest))
			// parse: only text that the oracle accepts (the defects are reported by the oracles)
			if g, ok := rr.(*dns.GPOS); ok && !(floatSimple(g.Longitude) && floatSimple(g.Latitude) && floatSimple(g.Altitude)) {
				continue // ParseFloat is modelled for plain decimals only
			}
			if o := checkRecord(rr, nil); o.Kind == "" || strings.HasPrefix(o.Kind, "generic") || strings.HasPrefix(o.Kind, "torfc") {
				Emit("rr", []string{Hs(text + "\n")}, showRRAs(text+"\n", "fields"))
				if i < 3 {
					printed = append(printed, text)
				}
			}
		}
	}
	// B05b: addresses the generator rarely draws (IPv4-mapped, zero runs), as struct values
	for i, ip := range []string{"::ffff:1.2.3.4", "::ffff:255.0.10.100", "::", "::1", "1::", "1:0:0:2:0:0:0:3", "1:0:0:0:2:0:0:0", "0:0:1:0:0:1:0:0", "1:2:3:4:5:6:7:8", "1:2:3:4:5:6:7:0",
		"0:2:3:4:5:6:7:8", "1:0:3:4:5:6:7:8", "abcd:ef01:2345:6789:0:0:fff:ff", "::ffff:0:0", "0:0:0:0:0:ffff::", "64:ff9b::1.2.3.4", "fe80::"} {
		addr := net.ParseIP(ip)
		hd := func(t uint16) dns.RR_Header {
			return dns.RR_Header{Name: "b.example.", Rrtype: t, Class: 1, Ttl: uint32(i)}
		}
		gt := uint8(2)
		if addr.To4() != nil && i%2 == 0 {
			gt = 1
		}
		for _, rr := range []dns.RR{&dns.AAAA{Hdr: hd(dns.TypeAAAA), AAAA: addr},
			&dns.IPSECKEY{Hdr: hd(dns.TypeIPSECKEY), Precedence: uint8(i), GatewayType: gt, Algorithm: 2, GatewayAddr: addr, PublicKey: "AQNR"},
			&dns.AMTRELAY{Hdr: hd(dns.TypeAMTRELAY), Precedence: uint8(i), GatewayType: gt | uint8(i%2)<<7, GatewayAddr: addr}} {
			text := rr.String()
			if _, rest, ok := splitHeader(text); ok {
				Emit("present", append([]string{Itoa(int(rr.Header().Rrtype))}, pvals(rr, 0)...), Hs(rest))
				Emit("rr", []string{Hs(text + "\n")}, showRRAs(text+"\n", "fields"))
			}
		}
	}
	// unknown types: native RFC 3597 text
	for i := 0; i < 12; i++ {
		t := []uint16{65280, 999, 0, 65535, 11, 22}[i%6]
		rd := r.Bytes([]int{0, 1, 7, 40}[i%4])
		ttl := uint32(i)
		if i%3 == 2 {
			ttl = 4294967295 - uint32(i)
		}
		u := &dns.RFC3597{Hdr: dns.RR_Header{Name: "u.example.", Rrtype: t, Class: uint16(1 + i), Ttl: ttl}, Rdata: Hx(rd)}
		text := u.String()
		cols, rest, _ := splitHeader(text)
		Emit("present3597", []string{Hx(rd)}, Hs(rest))
		Emit("hdr3597", []string{Hs(u.Hdr.Name), strconv.FormatUint(uint64(ttl), 10), Itoa(1 + i), Itoa(int(t))}, Hs(strings.Join(cols[:], "\t")+"\t"))
		Emit("rr", []string{Hs(text + "\n")}, showRRAs(text+"\n", "generic"))
		printed = append(printed, text)
	}
	// header shapes, generic form for registered types, no RDATA
	for _, c := range []struct{ line, form string }{
		{"x. 5 IN A 1.2.3.4\n", "fields"}, {"x. IN 5 A 1.2.3.4\n", "fields"}, {"x. A 1.2.3.4\n", "fields"}, {"x. 5 A 1.2.3.4\n", "fields"},
		{"x. IN A 1.2.3.4\n", "fields"}, {"x. CH A 1.2.3.4\n", "fields"}, {"x. 1h2m IN A 1.2.3.4\n", "fields"}, {"x 5 IN A 1.2.3.4\n", "fields"},
		{"@ 5 IN A 1.2.3.4\n", "fields"}, {"x. 5 CLASS3 TYPE1 1.2.3.4\n", "fields"}, {"x. 5 class3 type1 1.2.3.4\n", "fields"},
		{"x. 5 IN MX 10 mail\n", "fields"}, {"x. 5 IN MX 10 mail.\n", "fields"}, {"x. 5 IN MX 10 @\n", "fields"}, {"x. 5 IN MX 65536 m.\n", "fields"},
		{"x. 5 IN MX 10 m. extra\n", "fields"}, {"x. 5 IN MX 10 m. \n", "fields"}, {"x. 5 IN MX 010 m.\n", "fields"}, {"x. 5 IN MX +1 m.\n", "fields"},
		{"x. 5 IN A 1.2.3\n", "fields"}, {"x. 5 IN A 1.2.3.04\n", "fields"}, {"x. 5 IN A 1.2.3.256\n", "fields"}, {"x. 5 IN A 1.2.3.4.5\n", "fields"}, {"x. 5 IN A 0.0.0.0\n", "fields"},
		{"x. 5 IN A 1..3.4\n", "fields"}, {"x. 5 IN A 255.255.255.255\n", "fields"}, {"x. 5 IN A 1.2.3.4 5\n", "fields"},
		{"x. 5 IN SOA a. b. 1 2 3 4 5\n", "fields"}, {"x. 5 IN SOA a. b. 1 1h 2m 3d 1w\n", "fields"}, {"x. 5 IN SOA a. b. 1h 2 3 4 5\n", "fields"},
		{"x. 5 IN SOA a. b. 4294967295 4294967295 0 0 0\n", "fields"}, {"x. 5 IN SOA a. b. 4294967296 1 1 1 1\n", "fields"},
		{"x. 5 IN TXT a b c\n", "fields"}, {"x. 5 IN TXT \"a b\" c\n", "fields"}, {"x. 5 IN TXT \"\"\n", "fields"}, {"x. 5 IN TXT \"a\n", "fields"},
		{"x. 5 IN DS 1 2 3 ab cd EF\n", "fields"}, {"x. 5 IN DS 1 2 3\n", "fields"}, {"x. 5 IN DS 1 2 3 \n", "fields"}, {"x. 5 IN DS 1 256 3 ab\n", "fields"},
		{"x. 5 IN NSEC y. A ns TYPE65 type7\n", "fields"}, {"x. 5 IN NSEC y.\n", "fields"}, {"x. 5 IN NSEC y. BOGUS\n", "fields"}, {"x. 5 IN NSEC y. ABCD12\n", "fields"},
		{"x. 5 IN URI 1 2 \"http://x\"\n", "fields"}, {"x. 5 IN URI 1 2 \"a\" \"b\"\n", "fields"}, {"x. 5 IN URI 1 2 a\n", "fields"}, {"x. 5 IN URI 1 2\n", "fields"},
		{"x. 5 IN DNSKEY 256 3 8 AwEA AQ==\n", "fields"}, {"x. 5 IN UID 4294967295\n", "fields"}, {"x. 5 IN UID 4294967296\n", "fields"},
		{"x. 5 IN A \\# 4 01020304\n", "generic"}, {"x. 5 IN MX \\# 4 000a 0161 00\n", "generic"}, {"x. 5 IN MX \\# 5 000a016100\n", "generic"},
		{"x. 5 IN TYPE1 \\# 4 0A0B0C0D\n", "generic"}, {"x. 5 IN TYPE999 \\# 0\n", "generic"}, {"x. 5 IN TYPE999 \\# 3 abcdef\n", "generic"},
		{"x. 5 IN TYPE999 \\# 2 abcdef\n", "generic"}, {"x. 5 IN TYPE999 1 2 3\n", "generic"}, {"x. 5 IN TYPE999 \\# 65535\n", "generic"}, {"x. 5 IN TYPE999 \\# 65536\n", "generic"},
		{"x. 5 IN TYPE999 \\# x\n", "generic"}, {"x. 5 IN TYPE999 \\#\n", "generic"}, {"x. 5 IN A \\# 0\n", "generic"},
		{"x. 5 IN A\n", "none"}, {"x. 5 IN A", "none"}, {"x. 5 IN A\t\n", "none"}, {"x. 5 IN A \n", "none"}, {"x. IN A\n", "none"}, {"x. 5 IN TYPE999\n", "none"},
		{"x. 5 IN MX\n", "none"}, {"x. 5 ANY A 1.2.3.4\n", "fields"}, {"x. 5 NONE A 1.2.3.4\n", "fields"}, {"x. 5 IN ANY \\# 0\n", "generic"},
		{"x. 5 IN None \\# 0\n", "generic"}, {"x. 5 IN LOC 1 2 3 N 4 5 6 E 7m\n", "unmodelled"}, {"x. 5 IN HINFO a b\n", "fields"},
		{"x.. 5 IN A 1.2.3.4\n", "fields"}, {".x. 5 IN A 1.2.3.4\n", "fields"}, {"x\\. 5 IN A 1.2.3.4\n", "fields"}, {"x\\.. 5 IN A 1.2.3.4\n", "fields"},
		{strings.Repeat("a", 63) + ". 5 IN A 1.2.3.4\n", "fields"}, {strings.Repeat("a", 64) + ". 5 IN A 1.2.3.4\n", "fields"},
		// the irregular parsers
		{"x. 5 IN HINFO a\n", "fields"}, {"x. 5 IN HINFO \"a b\"\n", "fields"}, {"x. 5 IN HINFO \"a  b\tc\"\n", "fields"}, {"x. 5 IN HINFO \"a\" \"b\" \"c d\"\n", "fields"},
		{"x. 5 IN HINFO \"\"\n", "fields"}, {"x. 5 IN HINFO \" \"\n", "fields"}, {"x. 5 IN HINFO \"a\" \"\"\n", "fields"}, {"x. 5 IN HINFO a b c\n", "fields"}, {"x. 5 IN HINFO \"a\n", "fields"},
		{"x. 5 IN ISDN \"150862028003217\" \"004\"\n", "fields"}, {"x. 5 IN ISDN \"150862028003217\"\n", "fields"}, {"x. 5 IN ISDN 1 2\n", "fields"},
		{"x. 5 IN UINFO \"a b\"\n", "fields"}, {"x. 5 IN UINFO a b\n", "fields"}, {"x. 5 IN UINFO \"\"\n", "fields"},
		{"x. 5 IN X25 311061700956\n", "fields"}, {"x. 5 IN X25 \"311061700956\"\n", "fields"}, {"x. 5 IN X25 a b\n", "fields"}, {"x. 5 IN X25 a \n", "fields"},
		{"x. 5 IN CAA 0 issue \"ca.example.net\"\n", "fields"}, {"x. 5 IN CAA 0 issue ca.example.net\n", "fields"}, {"x. 5 IN CAA 0 \"issue\" \"x\"\n", "fields"},
		{"x. 5 IN CAA 256 issue \"x\"\n", "fields"}, {"x. 5 IN CAA 0 issue \"a\" \"b\"\n", "fields"}, {"x. 5 IN CAA 0 issue\n", "fields"}, {"x. 5 IN CAA 0 issue \"\"\n", "fields"},
		{"x. 5 IN NAPTR 100 10 \"u\" \"E2U+sip\" \"!^.*$!sip:a@b!\" .\n", "fields"}, {"x. 5 IN NAPTR 100 10 \"\" \"\" \"\" r.example.\n", "fields"},
		{"x. 5 IN NAPTR 100 10 u \"\" \"\" .\n", "fields"}, {"x. 5 IN NAPTR 100 10 \"u\" \"\" \"\"\n", "fields"}, {"x. 5 IN NAPTR 100 10 \"a b\" \"c\\\"d\" \"\" rel\n", "fields"},
		{"x. 5 IN NAPTR 100 10 \"u\"\"v\" \"\" .\n", "fields"}, {"x. 5 IN NAPTR 65536 10 \"\" \"\" \"\" .\n", "fields"}, {"x. 5 IN NAPTR 1 1 \"\" \"\" \"\" . x\n", "fields"},
		{"x. 5 IN SMIMEA 3 1 1 abcd ef\n", "fields"}, {"x. 5 IN SMIMEA 3 1 1\n", "fields"}, {"x. 5 IN SMIMEA 3 1 256 ab\n", "fields"},
		{"x. 5 IN NSEC3PARAM 1 0 5 -\n", "fields"}, {"x. 5 IN NSEC3PARAM 1 0 5 aabb\n", "fields"}, {"x. 5 IN NSEC3PARAM 1 0 5\n", "fields"}, {"x. 5 IN NSEC3PARAM 1 0 5 ab cd\n", "fields"},
		{"x. 5 IN NSEC3PARAM 1 0 5 abc\n", "fields"}, {"x. 5 IN NSEC3PARAM 1 0 65536 -\n", "fields"}, {"x. 5 IN NSEC3PARAM 1 0 5 \"-\"\n", "fields"},
		{"x. 5 IN NSEC3 1 1 12 aabbccdd 2vptu5timamqttgl4luu9kg21e0aor3s A RRSIG\n", "fields"}, {"x. 5 IN NSEC3 1 1 12 - 2vptu5timamqttgl4luu9kg21e0aor3s\n", "fields"},
		{"x. 5 IN NSEC3 1 1 12 -\n", "fields"}, {"x. 5 IN NSEC3 1 1 12\n", "fields"}, {"x. 5 IN NSEC3 1 1 12 - 2vptu5timamqttgl4luu9kg21e0aor3s a type65 BOGUS\n", "fields"},
		{"x. 5 IN CERT PKIX 1 RSASHA256 AAAA\n", "fields"}, {"x. 5 IN CERT 1 1 8 AAAA BBBB\n", "fields"}, {"x. 5 IN CERT pkix 1 8 AAAA\n", "fields"}, {"x. 5 IN CERT 65535 65535 255 AAAA\n", "fields"},
		{"x. 5 IN CERT 65536 1 8 AAAA\n", "fields"}, {"x. 5 IN CERT URI 1 256 AAAA\n", "fields"}, {"x. 5 IN CERT OID 1 PRIVATEOID AAAA\n", "fields"}, {"x. 5 IN CERT 1 1 rsasha256 AAAA\n", "fields"},
		{"x. 5 IN CERT PKIX 1 8\n", "fields"}, {"x. 5 IN CERT PKIX 1\n", "fields"},
		{"x. 5 IN RRSIG A 8 2 3600 20110403154150 20110303154150 12345 example. AAAA BBBB\n", "fields"}, {"x. 5 IN RRSIG TYPE1 RSASHA256 2 3600 1301845310 0 12345 example. AAAA\n", "fields"},
		{"x. 5 IN RRSIG type65 8 2 3600 20110403154150.5 4294967295 12345 example AAAA\n", "fields"}, {"x. 5 IN RRSIG a 8 2 3600 4294967296 0 1 e. AAAA\n", "fields"},
		{"x. 5 IN RRSIG ANY rsasha256 2 3600 1 0 1 e. AAAA\n", "fields"}, {"x. 5 IN RRSIG BOGUS 8 2 3600 1 0 1 e. AAAA\n", "fields"}, {"x. 5 IN RRSIG TYPE65536 8 2 3600 1 0 1 e. AAAA\n", "fields"},
		{"x. 5 IN RRSIG A 8 2 3600 20230229000000 0 1 e. AAAA\n", "fields"}, {"x. 5 IN RRSIG A 8 2 3600 22420101000000 19700101000000 1 e. AAAA\n", "fields"},
		{"x. 5 IN GPOS -32.6882 116.2 10.0\n", "fields"}, {"x. 5 IN GPOS +1 .5 1.\n", "fields"}, {"x. 5 IN GPOS 1 2\n", "fields"}, {"x. 5 IN GPOS 1 2 3 4\n", "fields"},
		{"x. 5 IN GPOS 0 0 0\n", "fields"},
		{"x. 5 IN EUI48 00-00-5e-00-53-2a\n", "fields"}, {"x. 5 IN EUI48 00-00-5E-00-53-2A\n", "fields"}, {"x. 5 IN EUI48 00-00-5e-00-53\n", "fields"}, {"x. 5 IN EUI48 00-00-5e-00-53-2a-\n", "fields"},
		{"x. 5 IN EUI48 00:00:5e:00:53:2a\n", "fields"}, {"x. 5 IN EUI48 00-00-5e-00-53-2g\n", "fields"}, {"x. 5 IN EUI48 00-00-5e-00-53-_a\n", "fields"}, {"x. 5 IN EUI48 00-00-5e-00-53-+a\n", "fields"},
		{"x. 5 IN EUI48 00005e-00-53-2a-11\n", "fields"}, {"x. 5 IN EUI48 00-00-5e-00-53-2a x\n", "fields"},
		{"x. 5 IN EUI64 00-00-5e-ef-10-00-00-2a\n", "fields"}, {"x. 5 IN EUI64 FF-FF-FF-FF-FF-FF-FF-FF\n", "fields"}, {"x. 5 IN EUI64 00-00-5e-ef-10-00-00\n", "fields"}, {"x. 5 IN EUI64 00-00-5e-ef-10-00-00-2\n", "fields"},
		{"x. 5 IN NID 10 0014:4fff:ff20:ee64\n", "fields"}, {"x. 5 IN NID 10 0014:4FFF:FF20:EE64\n", "fields"}, {"x. 5 IN NID 10 0014:4fff:ff20:ee6\n", "fields"}, {"x. 5 IN NID 10 0014:4fff:ff20:ee64ab\n", "fields"},
		{"x. 5 IN NID 10 0014x4fff:ff20yee64\n", "fields"}, {"x. 5 IN NID 10 0014x4fffxff20xee64\n", "fields"}, {"x. 5 IN NID 10 0014:4fff:ff20:eg64\n", "fields"}, {"x. 5 IN NID 65536 0014:4fff:ff20:ee64\n", "fields"},
		{"x. 5 IN NID 10\n", "fields"}, {"x. 5 IN L64 10 2001:0DB8:1140:1000\n", "fields"}, {"x. 5 IN L64 10 2001:0db8:1140:1000\n", "fields"}, {"x. 5 IN L64 10 2001:0db8:1140:1000 x\n", "fields"},
		// B05b: AAAA, IPSECKEY, AMTRELAY
		{"x. 5 IN AAAA 2001:db8::1\n", "fields"}, {"x. 5 IN AAAA ::\n", "fields"}, {"x. 5 IN AAAA ::1\n", "fields"}, {"x. 5 IN AAAA 1::\n", "fields"}, {"x. 5 IN AAAA 1:2:3:4:5:6:7:8\n", "fields"}, {"x. 5 IN AAAA 1:2:3:4:5:6:7::\n", "fields"},
		{"x. 5 IN AAAA ::2:3:4:5:6:7:8\n", "fields"}, {"x. 5 IN AAAA 1:2:3:4:5:6:7:8::\n", "fields"}, {"x. 5 IN AAAA 1::2:3:4:5:6:7:8\n", "fields"}, {"x. 5 IN AAAA ::ffff:1.2.3.4\n", "fields"}, {"x. 5 IN AAAA ::FFFF:1.2.3.4\n", "fields"}, {"x. 5 IN AAAA 1:2:3:4:5:6:1.2.3.4\n", "fields"},
		{"x. 5 IN AAAA 1:2:3:4:5:1.2.3.4\n", "fields"}, {"x. 5 IN AAAA 1::1.2.3.4\n", "fields"}, {"x. 5 IN AAAA ::1.2.3.4\n", "fields"}, {"x. 5 IN AAAA 1.2.3.4\n", "fields"}, {"x. 5 IN AAAA 1.2.3.4::\n", "fields"}, {"x. 5 IN AAAA 12345::\n", "fields"},
		{"x. 5 IN AAAA 0001:0002::\n", "fields"}, {"x. 5 IN AAAA 00001::\n", "fields"}, {"x. 5 IN AAAA 1:::2\n", "fields"}, {"x. 5 IN AAAA 1:2\n", "fields"}, {"x. 5 IN AAAA :1:2:3:4:5:6:7:8\n", "fields"}, {"x. 5 IN AAAA 1:2:3:4:5:6:7:8:9\n", "fields"},
		{"x. 5 IN AAAA 1:2:3:4:5:6:7:\n", "fields"}, {"x. 5 IN AAAA ABCD:Ef01::\n", "fields"}, {"x. 5 IN AAAA g::\n", "fields"}, {"x. 5 IN AAAA fe80::1%eth0\n", "fields"}, {"x. 5 IN AAAA fe80::1%\n", "fields"}, {"x. 5 IN AAAA ::1.2.3\n", "fields"},
		{"x. 5 IN AAAA ::1.2.3.04\n", "fields"}, {"x. 5 IN AAAA ::1.2.3.256\n", "fields"}, {"x. 5 IN AAAA 1::2::3\n", "fields"}, {"x. 5 IN AAAA ::1 x\n", "fields"}, {"x. 5 IN AAAA ::1 \n", "fields"}, {"x. 5 IN AAAA\n", "none"},
		{"x. 5 IN AAAA 1:0:0:2:0:0:0:3\n", "fields"}, {"x. 5 IN AAAA 1:0:0:0:2:0:0:0\n", "fields"}, {"x. 5 IN AAAA 0:0:1:0:0:1:0:0\n", "fields"}, {"x. 5 IN AAAA ::ffff:0:0\n", "fields"}, {"x. 5 IN AAAA 64:ff9b::1.2.3.4\n", "fields"}, {"x. 5 IN AAAA ::1.2.3.4.5\n", "fields"},
		{"x. 5 IN AAAA 1:2:3:4:5:6:7:1.2.3.4\n", "fields"}, {"x. 5 IN AAAA \"::1\"\n", "fields"}, {"x. 5 IN IPSECKEY 10 0 2 . AQNRU3mG7TVTO2BkR47usntb102uFJtugbo6BSGvgqt4AQ==\n", "fields"}, {"x. 5 IN IPSECKEY 10 1 2 192.0.2.38 AQNR U3mG\n", "fields"}, {"x. 5 IN IPSECKEY 10 2 2 2001:db8:0:8002::2000:1 AQNR\n", "fields"}, {"x. 5 IN IPSECKEY 10 3 2 mygateway.example.com. AQNR\n", "fields"},
		{"x. 5 IN IPSECKEY 10 3 2 rel AQNR\n", "fields"}, {"x. 5 IN IPSECKEY 10 3 2 @ AQNR\n", "fields"}, {"x. 5 IN IPSECKEY 10 0 2 x AQNR\n", "fields"}, {"x. 5 IN IPSECKEY 10 1 2 2001:db8::1 AQNR\n", "fields"}, {"x. 5 IN IPSECKEY 10 2 2 192.0.2.38 AQNR\n", "fields"}, {"x. 5 IN IPSECKEY 10 1 2 ::ffff:192.0.2.38 AQNR\n", "fields"},
		{"x. 5 IN IPSECKEY 10 2 2 ::ffff:192.0.2.38 AQNR\n", "fields"}, {"x. 5 IN IPSECKEY 10 2 2 ::ffff:c000:226 AQNR\n", "fields"}, {"x. 5 IN IPSECKEY 10 4 2 anything AQNR\n", "fields"}, {"x. 5 IN IPSECKEY 10 255 2 . AQNR\n", "fields"}, {"x. 5 IN IPSECKEY 10 3 2 1.2.3.4 AQNR\n", "fields"}, {"x. 5 IN IPSECKEY 10 1 2 1.2.3 AQNR\n", "fields"},
		{"x. 5 IN IPSECKEY 256 0 2 . AQNR\n", "fields"}, {"x. 5 IN IPSECKEY 10 256 2 . AQNR\n", "fields"}, {"x. 5 IN IPSECKEY 10 0 256 . AQNR\n", "fields"}, {"x. 5 IN IPSECKEY 10 0 2 .\n", "fields"}, {"x. 5 IN IPSECKEY 10 0 2 . \n", "fields"}, {"x. 5 IN IPSECKEY 10 0 2\n", "fields"},
		{"x. 5 IN IPSECKEY 10 0\n", "fields"}, {"x. 5 IN IPSECKEY 10 3 2 a..b AQNR\n", "fields"}, {"x. 5 IN IPSECKEY 10 0 2 \".\" AQNR\n", "fields"}, {"x. 5 IN IPSECKEY 10  0 2 . AQNR\n", "fields"}, {"x. 5 IN AMTRELAY 10 0 0 .\n", "fields"}, {"x. 5 IN AMTRELAY 10 1 0 .\n", "fields"},
		{"x. 5 IN AMTRELAY 10 0 1 203.0.113.15\n", "fields"}, {"x. 5 IN AMTRELAY 10 1 2 2001:db8::15\n", "fields"}, {"x. 5 IN AMTRELAY 10 0 3 amtrelays.example.com.\n", "fields"}, {"x. 5 IN AMTRELAY 10 1 3 rel\n", "fields"}, {"x. 5 IN AMTRELAY 10 2 0 .\n", "fields"}, {"x. 5 IN AMTRELAY 10 x 0 .\n", "fields"},
		{"x. 5 IN AMTRELAY 10 0 128 .\n", "fields"}, {"x. 5 IN AMTRELAY 10 1 128 .\n", "fields"}, {"x. 5 IN AMTRELAY 10 0 129 1.2.3.4\n", "fields"}, {"x. 5 IN AMTRELAY 10 1 255 .\n", "fields"}, {"x. 5 IN AMTRELAY 10 0 256 .\n", "fields"}, {"x. 5 IN AMTRELAY 10 0 4 zzz\n", "fields"},
		{"x. 5 IN AMTRELAY 10 0 0 x\n", "fields"}, {"x. 5 IN AMTRELAY 10 0 1 ::1\n", "fields"}, {"x. 5 IN AMTRELAY 10 0 2 1.2.3.4\n", "fields"}, {"x. 5 IN AMTRELAY 10 0 1 ::ffff:1.2.3.4\n", "fields"}, {"x. 5 IN AMTRELAY 10 0 0 . x\n", "fields"}, {"x. 5 IN AMTRELAY 10 0 0 . \n", "fields"},
		{"x. 5 IN AMTRELAY 10 0 0\n", "fields"}, {"x. 5 IN AMTRELAY 10 0\n", "fields"}, {"x. 5 IN AMTRELAY 256 0 0 .\n", "fields"}, {"x. 5 IN AMTRELAY 10 00 0 .\n", "fields"}, {"x. 5 IN AMTRELAY 10 01 0 .\n", "fields"},
		// B05b: HIP
		{"x. 5 IN HIP 2 200100107B1A74DF365639CC39F1D578 AwEAAbdx rvs.example.com.\n", "fields"}, {"x. 5 IN HIP 2 2001 AwEAAbdx\n", "fields"}, {"x. 5 IN HIP 2 2001 AwEAAbdx \n", "fields"},
		{"x. 5 IN HIP 2 2001 AwEAAbdx a b. @ c.d\n", "fields"}, {"x. 5 IN HIP 2 2001 AwEAAbd= a.\n", "fields"}, {"x. 5 IN HIP 2 2001 AwEAAb== a.\n", "fields"}, {"x. 5 IN HIP 2 2001 AwEAA=== a.\n", "fields"},
		{"x. 5 IN HIP 2 2001 AwEAAbd a.\n", "fields"}, {"x. 5 IN HIP 2 2001 AwEA=bdx a.\n", "fields"}, {"x. 5 IN HIP 2 2001 AwEAAb==AAAA a.\n", "fields"}, {"x. 5 IN HIP 2 2001 Aw_A a.\n", "fields"},
		{"x. 5 IN HIP 2 2001 Aw-A a.\n", "fields"}, {"x. 5 IN HIP 2 2001 = a.\n", "fields"}, {"x. 5 IN HIP 2 2001 A=== a.\n", "fields"}, {"x. 5 IN HIP 2 2001 AA=A a.\n", "fields"}, {"x. 5 IN HIP 2 2001 ++// a.\n", "fields"},
		{"x. 5 IN HIP 2 2001\n", "fields"}, {"x. 5 IN HIP 2\n", "fields"}, {"x. 5 IN HIP 256 2001 AwEA\n", "fields"}, {"x. 5 IN HIP 2 xyz AwEA\n", "fields"}, {"x. 5 IN HIP 2 2 AwEA a..b\n", "fields"},
		{"x. 5 IN HIP 2 2001 AwEA \"a.\"\n", "fields"}, {"x. 5 IN HIP 2 \"2001\" AwEA\n", "fields"}, {"x. 5 IN HIP 2 " + strings.Repeat("ab", 256) + " AwEA\n", "fields"}, {"x. 5 IN HIP 2 " + strings.Repeat("ab", 255) + "a AwEA\n", "fields"},
		{"x. 5 IN HIP 2  2001 AwEA\n", "fields"}, {"x. 5 IN HIP 2 2001 AwEA\\010AwEA\n", "fields"}, {"x. 5 IN HIP 2 2001 AwEA\\\rAwEA\n", "fields"},
		{"x. 5 IN RRSIG A 8 2 3600 1 0 1 e.\n", "fields"}, {"x. 5 IN RRSIG A 256 2 3600 1 0 1 e. AAAA\n", "fields"}, {"x. 5 IN SIG A 8 2 3600 20110403154150 20110303154150 12345 example. AAAA\n", "fields"},
	} {
		Emit("rr", []string{Hs(c.line)}, showRRAs(c.line, c.form))
	}
	// names at the limits, as the parsers see them
	nm := func(s string) {
		_, ok := dns.IsDomainName(s)
		Emit("isname", []string{Hs(s)}, Btoa(ok))
	}
	lab := func(n int) string { return strings.Repeat("a", n) }
	for _, s := range []string{"", ".", "a", "a.", "..", "a..", ".a", `a\.`, `a\`, `a\\`, `\\`, `\`, `a\.b.`, `\000.`, `\00.`, lab(63) + ".", lab(64) + ".", lab(63) + `\a.`, `\097` + lab(62) + ".", `\097` + lab(63) + ".",
		strings.Repeat(lab(63)+".", 3) + lab(61) + ".", strings.Repeat(lab(63)+".", 3) + lab(62) + ".", strings.Repeat(lab(63)+".", 3) + lab(63) + ".", strings.Repeat("a.", 127), strings.Repeat("a.", 128), strings.Repeat(`\a.`, 127) + `\a`,
		strings.Repeat(lab(63)+".", 3) + lab(61), strings.Repeat(lab(63)+".", 3) + lab(62), strings.Repeat(`\200`, 63) + ".", strings.Repeat(`\200`, 64) + ".", "a b.", "@", "é."} {
		nm(s)
	}
	for _, s := range []string{"3600", "0", "1h", "1H2m", "1w1d1h1m1s", "4294967295", "4294967296", "18446744073709551616", "18446744073709551615", "71582788m", "71582789m", "x", "", "-1", "1.5", "10S5"} {
		// stringToTTL through the parser: a $TTL-free line "x. <ttl> IN A 1.2.3.4"
		rr, err := dns.NewRR("x. " + s + " IN A 1.2.3.4")
		if s == "" {
			continue
		}
		o := "none"
		if err == nil && rr != nil {
			o = strconv.FormatUint(uint64(rr.Header().Ttl), 10)
		}
		Emit("strtottl", []string{Hs(s)}, o)
	}
	return printed
}

func modelCases(r *Rng, tier string) {
	types := presentableTypes()
	emitEscapes(r, tier)
	emitCodes(r, tier)
	printed := emitRecords(r, tier, types)
	emitLexer(r, tier, printed)
}
