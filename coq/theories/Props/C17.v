(* Props/C17.v — property C17: key tags, DS digests, NSEC3 hash / Match / Cover,
   key encodings and BIND private-key text, signature validity period.
   Only statements; each is closed by [exact] of a lemma proved in Proofs/.
   Hash functions are universally quantified (H). *)
From Dns Require Import Model.Nsec3 Model.KeyEnc Proofs.Nsec3Proofs Proofs.KeyEncProofs.
Open Scope N_scope.

(* ---- key tag: the loop of DNSKEY.KeyTag equals RFC 4034 Appendix B for RDATA
   of any length (the sum of the 2-octet groups, carry folded in once). *)
Theorem keytag_rfc4034_appendix_b :
  forall rdata : bytes, keytag rdata = keytag_rfc rdata.
Proof. exact keytag_eq_rfc. Qed.

(* ... and does not depend on the width of the accumulator, as long as it has
   at least 32 bits (the RFC's "unsigned long ... 32 bits or larger"; Go's int). *)
Theorem keytag_accumulator_width_independent :
  forall (W : N) (rdata : bytes), 32 <= W -> keytag_w W rdata = keytag rdata.
Proof. exact keytag_width. Qed.

(* DNSKEY.KeyTag() for a key other than RSA/MD5 whose RDATA fits the
   4096-octet scratch buffer *)
Theorem key_tag_is_rfc :
  forall flags proto alg pub, alg <> 1 -> 4 + lenN pub <= 4096 ->
    key_tag flags proto alg pub = keytag_rfc (dnskey_rdata flags proto alg pub).
Proof. intros flags proto alg pub _. apply key_tag_rfc. Qed.

(* deviation: a longer RDATA gets tag 0 *)
Theorem key_tag_oversize_is_zero :
  forall flags proto alg pub, 4096 < 4 + lenN pub -> key_tag flags proto alg pub = 0.
Proof. exact key_tag_oversize. Qed.

(* ---- DS: digest over canonical (lower-cased, uncompressed) owner | DNSKEY RDATA *)
Theorem ds_digest_rfc4034_5_1_4 :
  forall (H : N -> bytes -> bytes) owner flags proto alg pub dt,
    4 + lenN pub <= 4096 -> valid_wire owner = true -> ds_supported dt = true ->
    to_ds H owner flags proto alg pub dt =
    Some {| ds_keytag := keytag_rfc (dnskey_rdata flags proto alg pub);
            ds_alg := alg; ds_dt := dt;
            ds_digest := H dt (wire_name (map lower_bytes owner) ++ dnskey_rdata flags proto alg pub) |}.
Proof. exact to_ds_some. Qed.

Theorem ds_unsupported_digest_is_nil :
  forall (H : N -> bytes -> bytes) owner flags proto alg pub dt,
    ds_supported dt = false -> to_ds H owner flags proto alg pub dt = None.
Proof. exact to_ds_unsupported. Qed.

Theorem ds_owner_case_independent :
  forall (H : N -> bytes -> bytes) o1 o2 flags proto alg pub dt,
    map lower_bytes o1 = map lower_bytes o2 ->
    to_ds H o1 flags proto alg pub dt = to_ds H o2 flags proto alg pub dt.
Proof. exact to_ds_ci. Qed.

(* ---- NSEC3 hash: RFC 5155 section 5, IH(salt, x, k) with x the lower-cased
   owner name in wire format, printed in base32hex *)
Theorem nsec3_hash_rfc5155 :
  forall (H : bytes -> bytes) name iter salt,
    valid_wire name = true ->
    hash_name H name 1 iter (Some salt) =
    b32hex (IH H salt (wire_name (map lower_bytes name)) (N.to_nat iter)).
Proof. exact hash_name_value. Qed.

Theorem nsec3_hash_case_independent :
  forall (H : bytes -> bytes) n1 n2 ha iter salt,
    map lower_bytes n1 = map lower_bytes n2 ->
    hash_name H n1 ha iter salt = hash_name H n2 ha iter salt.
Proof. exact hash_name_ci. Qed.

(* ---- inside the zone: the zone's labels are the last labels of the name *)
Theorem in_zone_is_label_suffix :
  forall zone name,
    in_zone zone name = true <->
    exists pre suf, name = pre ++ suf /\ map lower_bytes suf = map lower_bytes zone.
Proof. exact in_zone_iff. Qed.

(* ---- Match: exactly when the name's hash equals the owner hash, inside the zone *)
Theorem match_iff_hash_equals_owner :
  forall (H : bytes -> bytes) r name oh z zs,
    n3_owner r = oh :: z :: zs -> in_zone (z :: zs) name = true ->
    (nsec3_match H r name = true <->
     hash_name H name (n3_alg r) (n3_iter r) (n3_salt r) = owner_hash_text oh).
Proof. exact match_iff. Qed.

Theorem match_false_outside_zone :
  forall (H : bytes -> bytes) r name oh zone,
    n3_owner r = oh :: zone -> in_zone zone name = false -> nsec3_match H r name = false.
Proof. exact match_outside. Qed.

(* ---- Cover: exactly when the name's hash lies strictly between the owner hash
   and the next hash in circular order (both as the upper-case base32hex texts
   of the record), inside the zone *)
Theorem cover_iff :
  forall (H : bytes -> bytes) r name oh z zs,
    n3_owner r = oh :: z :: zs -> in_zone (z :: zs) name = true ->
    hash_name H name (n3_alg r) (n3_iter r) (n3_salt r) <> [] ->
    (nsec3_cover H r name = true <->
     strictly_between_circular (owner_hash_text oh)
       (hash_name H name (n3_alg r) (n3_iter r) (n3_salt r)) (next_hash_text r)).
Proof. exact Nsec3Proofs.cover_iff. Qed.

(* the comparison chain of Cover alone *)
Theorem cover_chain_iff :
  forall o n x, cover_chain o n x = true <-> strictly_between_circular o x n.
Proof. exact cover_chain_spec. Qed.

Theorem cover_false_outside_zone :
  forall (H : bytes -> bytes) r name oh zone,
    n3_owner r = oh :: zone -> in_zone zone name = false -> nsec3_cover H r name = false.
Proof. exact cover_outside. Qed.

(* a name that has no hash (hash algorithm other than SHA-1, undecodable salt,
   invalid name) is never covered *)
Theorem cover_false_without_hash :
  forall (H : bytes -> bytes) r name,
    hash_name H name (n3_alg r) (n3_iter r) (n3_salt r) = [] -> nsec3_cover H r name = false.
Proof. exact cover_without_hash. Qed.

Theorem no_hash_for_unsupported_algorithm :
  forall (H : bytes -> bytes) name ha iter salt, ha <> 1 -> hash_name H name ha iter salt = [].
Proof. exact hash_name_unsupported. Qed.

(* a name the record matches is not covered by it *)
Theorem match_excludes_cover :
  forall (H : bytes -> bytes) r name oh z zs,
    n3_owner r = oh :: z :: zs ->
    nsec3_match H r name = true -> nsec3_cover H r name = false.
Proof. exact match_not_cover. Qed.

(* deviation of the model of the code (known finding C17/Match|Cover/root-zone-owner):
   an NSEC3 RR of the root zone (owner = one label) never matches or covers *)
Theorem nsec3_root_zone_never_matches_or_covers :
  forall (H : bytes -> bytes) r name oh,
    n3_owner r = [oh] -> nsec3_match H r name = false /\ nsec3_cover H r name = false.
Proof. exact root_zone_never. Qed.

(* ---- validity period: ValidityPeriod(t) is the plain comparison of the two
   32-bit fields with the 64-bit time, for every t *)
Theorem validity_is_plain_comparison :
  forall i e t, validity_period i e t = ((Z.of_N i <=? t) && (t <=? Z.of_N e))%Z.
Proof. exact validity_plain. Qed.

Theorem validity_iff :
  forall i e t,
    (Z.abs (Z.of_N i - t) < 2147483648)%Z -> (Z.abs (Z.of_N e - t) < 2147483648)%Z ->
    (validity_period i e t = true <-> (Z.of_N i <= t <= Z.of_N e)%Z).
Proof. exact KeyEncProofs.validity_iff. Qed.

(* for 32-bit times the same holds in RFC 1982 serial arithmetic.  (Across the 2^32 wrap the
   plain comparison and serial arithmetic differ: an observation outside the property text,
   see docs/C17.md and KeyEncProofs.validity_serial_wrap_refuted.) *)
Theorem validity_iff_serial_without_wrap :
  forall i e t,
    (0 <= t < 4294967296)%Z -> i < 4294967296 -> e < 4294967296 ->
    (Z.abs (Z.of_N i - t) < 2147483648)%Z -> (Z.abs (Z.of_N e - t) < 2147483648)%Z ->
    (validity_period i e t = true <-> serial_le (Z.of_N i) t /\ serial_le t (Z.of_N e)).
Proof. exact validity_serial_nowrap. Qed.

(* ---- key encodings *)
Theorem rsa_public_key_rfc3110_roundtrip :
  forall e n, 0 < e -> e <= 2147483647 ->
    (64 <= length (be_bytes n) <= 512)%nat ->
    rsa_pub_dec (rsa_pub_enc e n) = Some (e, n).
Proof. exact rsa_pub_roundtrip. Qed.

Theorem ecdsa_public_key_roundtrip :
  forall alg intlen x y,
    (alg = 13 /\ intlen = 32%nat) \/ (alg = 14 /\ intlen = 48%nat) ->
    x < 256 ^ N.of_nat intlen -> y < 256 ^ N.of_nat intlen ->
    ecdsa_pub_dec alg (curve_to_buf x y intlen) = Some (x, y).
Proof. exact ecdsa_pub_roundtrip. Qed.

Theorem int_to_bytes_fixed_width :
  forall n len, n < 256 ^ N.of_nat len ->
    length (int_to_bytes n len) = len /\ be (int_to_bytes n len) 0 = n.
Proof. intros n len Hn. split; [now apply int_to_bytes_len|apply int_to_bytes_be]. Qed.

(* BIND private-key text: what PrivateKeyString prints is read back field by field *)
Theorem private_key_text_roundtrip :
  forall m : list (bytes * bytes),
    forallb (fun kv => key_ok (fst kv) && val_ok (snd kv)) m = true ->
    parse_key (print_kv m) = Some (map (fun kv => (lower_bytes (fst kv), snd kv)) m).
Proof. exact parse_print_kv. Qed.
