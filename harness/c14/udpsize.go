package main

// C14, datagrams whose size sits at the server's receive-buffer size.
//
// "For every datagram ... a server receives, the handler is invoked exactly once
// with the decoded request if the message passes the accept policy and decodes,
// and not at all otherwise; every message that does not reach the handler was
// refused or ignored by the policy or is reported to the invalid-message
// callback" -- quantified over ALL byte strings as inbound packets. A UDP server
// reads every datagram into a buffer of Server.UDPSize octets (512 when unset),
// so what it receives of a datagram of L octets are its first min(L, UDPSize)
// octets. Every other generator of this harness runs a server with UDPSize 4096
// and messages of at most a few hundred octets: no datagram ever came near the
// end of its receive buffer, let alone filled it, and the default size (which is
// what Server{} gives) was never the one in use on a scripted conn.
//
// This file adds that boundary as a class: for the default UDPSize and for
// configured ones (512, 513, 700, 1232, 4096, 65535), messages of every size
// UDPSize-2 .. UDPSize+2 (and half of it), padded in three ways (EDNS0 PADDING
// option, TXT record, record of an unknown type in the additional section), in
// every admission class (acceptable query; QR set; other opcode; two questions
// announced; a record whose RDLENGTH overruns the message) --
//   * through the REAL serveUDP loop on a scripted net.PacketConn (the generic
//     readPacketConn path, no kernel), with and without a DecorateReader, with
//     the per-message oracles of main.go AND as model cases (`serve`);
//   * through the REAL serveUDP loop on a real UDP socket on 127.0.0.1, once
//     handed to the server as the *net.UDPConn it is (readUDP /
//     ReadFromSessionUDP path) and once wrapped so that it is only a
//     net.PacketConn (readPacketConn path over the kernel).
// The oracle is serveOracle (the property's clauses) applied to the octets the
// server received: min(L, UDPSize) of them.
//
// Real sockets without timing assumptions: every probe is followed by a small
// control query from the same client socket; the session reads replies until the
// control's reply arrives (the loopback queue is FIFO, so the server has read the
// probe by then), Shutdown then waits for every serving goroutine, and only then
// the events of each probe (handler calls, invalid-message callbacks, replies
// received) are counted. A control that is not answered within infraWait makes
// its probe unverifiable (counted, not reported); a probe whose verdict is bad is
// replayed in two further sessions and reported only if it is bad every time.

import (
	"encoding/binary"
	"fmt"
	"net"
	"sort"
	"strings"
	"sync"
	"time"

	"github.com/miekg/dns"
	. "verif/harness/common"
	"verif/harness/netfake"
)

const (
	padOPT = iota
	padTXT
	padUnknown
	nPadKinds
)

var padNames = []string{"opt-padding", "txt", "unknown-type"}

// sizedQuery: a query of exactly n octets (n >= 48) that the default policy
// accepts and the decoder decodes: question `rd.example. A IN`, one record in the
// additional section whose RDATA takes up the rest.
func sizedQuery(r *Rng, id uint16, kind, n int) []byte {
	const base = 39 // header 12 + question 16 + record header 11
	R := n - base
	var typ, class uint16
	rd := make([]byte, 0, R)
	switch kind {
	case padOPT: // OPT, one PADDING option (code 12)
		typ, class = dns.TypeOPT, 1232
		rd = append(rd, 0, 12, byte((R-4)>>8), byte(R-4))
		rd = append(rd, make([]byte, R-4)...)
	case padTXT: // character-strings of 255 octets, the last one shorter
		typ, class = dns.TypeTXT, 1
		for left := R; left > 0; {
			l := left - 1
			if l > 255 {
				l = 255
			}
			rd = append(rd, byte(l))
			for i := 0; i < l; i++ {
				rd = append(rd, "abcdefghijklmnopqrstuvwxyz"[r.Intn(26)])
			}
			left -= 1 + l
		}
	default: // RFC 3597 unknown type, opaque RDATA
		typ, class = 65280, 1
		rd = append(rd, r.Bytes(R)...)
	}
	return framedQuery(id, secAdditional, false, typ, class, rd, len(rd), false)
}

// admission classes of a sized message (rewrites that keep its length)
var sizedClasses = []string{"query", "qr", "opcode", "two-questions", "rdlength-overrun"}

func sizedVariant(m []byte, cls string) []byte {
	c := append([]byte(nil), m...)
	switch cls {
	case "qr":
		c[2] |= 0x80
	case "opcode":
		c[2] |= 5 << 3 // UPDATE
	case "two-questions":
		c[5] = 2
	case "rdlength-overrun": // RDLENGTH one more than the octets that follow
		p := 28 + 9
		binary.BigEndian.PutUint16(c[p:], binary.BigEndian.Uint16(c[p:])+1)
	}
	return c
}

func effUDPSize(u int) int {
	if u == 0 {
		return dns.MinMsgSize
	}
	return u
}

type sizedIn struct {
	Path      string `json:"path"`
	UDPSize   int    `json:"server_udpsize"`
	Decorated bool   `json:"decorate_reader,omitempty"`
	Padding   string `json:"padding"`
	Class     string `json:"class"`
	Len       int    `json:"datagram_octets"`
	Policy    string `json:"policy"`
	Msg       string `json:"datagram_hex"`
	Events    string `json:"events"`
}

func short2k(h string) string {
	if len(h) > 2400 {
		return h[:1200] + "..." + h[len(h)-1200:]
	}
	return h
}

// serveSizedScripted: one datagram through ActivateAndServe -> serveUDP ->
// readPacketConn -> serveUDPPacket -> serveDNS on a scripted PacketConn, server
// configured with UDPSize u.
func serveSizedScripted(u int, deco bool, pol string, m []byte, rec *recorder) bool {
	srv := newServer(pol, rec)
	srv.UDPSize = u
	if deco {
		srv.DecorateReader = func(rd dns.Reader) dns.Reader { return rd }
	}
	pc := netfake.NewPacketConn([][]byte{m}, nil)
	pc.OnWrite = func(_ net.Addr, b []byte) { rec.write(b, false) }
	srv.PacketConn = pc
	done := make(chan error, 1)
	go func() { done <- srv.ActivateAndServe() }()
	if !netfake.WaitChan(pc.Drained, infraWait) {
		return false
	}
	return finishServe(srv, done)
}

func runUDPSizes(r *Rng, tier string) {
	sizes := []int{0, 512, 513, 700, 1232, 4096, 65535}
	n := 0
	for _, u := range sizes {
		eff := effUDPSize(u)
		lens := []int{eff / 2, eff - 2, eff - 1, eff, eff + 1, eff + 2}
		for kind := 0; kind < nPadKinds; kind++ {
			for _, l := range lens {
				if l > 65535 {
					continue
				}
				base := sizedQuery(r, uint16(r.Next()), kind, l)
				for _, cls := range sizedClasses {
					n++
					m := sizedVariant(base, cls)
					pol := "default"
					if n%7 == 0 {
						pol = "accept"
					}
					deco := n%3 == 0
					seen := m
					if len(seen) > eff {
						seen = seen[:eff]
					}
					if !decoderSafe("udp", pol, seen) {
						continue
					}
					rec := &recorder{in: seen}
					ok := false
					in := sizedIn{"scripted PacketConn", u, deco, padNames[kind], cls, len(m), pol, short2k(Hx(m)), ""}
					if Protect(func() string { ok = serveSizedScripted(u, deco, pol, m, rec); return "" }) == "panic" {
						Viol("C14/Serve/panic", "server panicked", in)
						continue
					}
					if !ok {
						stat["infra_timeout"]++
						continue
					}
					stat["udpsize_scripted"]++
					switch {
					case l < eff:
						stat["udpsize_below"]++
					case l == eff:
						stat["udpsize_exact"]++
					default:
						stat["udpsize_above"]++
					}
					in.Events = strings.Join(rec.ev, ";")
					serveOracleIn("udp", pol, seen, rec.ev, rec, fmt.Sprintf("serve-loop (UDPSize %d, datagram of %d octets)", u, len(m)), in)
					// model case: what the server received (the model knows no buffer size).
					// Kept small: every acceptable query up to 1300 octets, the other classes
					// at the exact size, three 4 KiB ones.
					if (len(seen) <= 1300 && (cls == "query" || l == eff)) ||
						(len(seen) <= 4096 && cls == "query" && kind == padOPT && l >= eff-1 && l <= eff+1) {
						unp, _, _ := unpackOracle(seen)
						Emit("serve", []string{"udp", pol, Hx(seen), unp}, modelEvents(rec.ev))
						serveEmitted++
						stat["udpsize_cases"]++
					}
				}
			}
		}
	}
	runUDPSizeSockets(r, tier)
	stat["serve_cases"] = serveEmitted
}

// ------------------------------------------------------------------ real sockets

// onlyPacketConn hides the concrete *net.UDPConn, so that serveUDP takes the
// generic net.PacketConn path over a kernel socket.
type onlyPacketConn struct{ net.PacketConn }

type sockProbe struct {
	id        uint16 // the control's ID is id+1
	m, seen   []byte
	kind, cls string
	u         int
}

type sockObs struct {
	mu      sync.Mutex
	handled map[uint16][]*dns.Msg
	invalid map[uint16][]string // event strings
}

func (o *sockObs) handler(w dns.ResponseWriter, req *dns.Msg) {
	o.mu.Lock()
	o.handled[req.Id] = append(o.handled[req.Id], req.Copy())
	o.mu.Unlock()
	m := new(dns.Msg)
	m.SetReply(req)
	// marks the reply as the handler's (the library's own replies carry no records)
	m.Answer = []dns.RR{&dns.TXT{Hdr: dns.RR_Header{Name: ".", Rrtype: dns.TypeTXT, Class: 1}, Txt: []string{"handled"}}}
	w.WriteMsg(m)
}

// sockSession serves the probes on one real socket and returns, per probe
// index, the event list (nil: unverifiable).
func sockSession(u int, generic bool, probes []sockProbe) (evs [][]string, reqs [][]*dns.Msg, ok bool) {
	obs := &sockObs{handled: map[uint16][]*dns.Msg{}, invalid: map[uint16][]string{}}
	byID := map[uint16]*sockProbe{}
	for i := range probes {
		byID[probes[i].id] = &probes[i]
	}
	srv := &dns.Server{Handler: dns.HandlerFunc(obs.handler), UDPSize: u}
	srv.MsgInvalidFunc = func(m []byte, err error) {
		s := "inv:" + classifyInvalid(err)
		var id uint16
		if len(m) >= 2 {
			id = binary.BigEndian.Uint16(m)
		}
		if p := byID[id]; p == nil || string(p.seen) != string(m) {
			s += ":OTHERBYTES"
		}
		obs.mu.Lock()
		obs.invalid[id] = append(obs.invalid[id], s)
		obs.mu.Unlock()
	}
	pc, err := net.ListenPacket("udp", "127.0.0.1:0")
	if err != nil {
		stat["infra_loopback_unavailable"]++
		return nil, nil, false
	}
	if generic {
		srv.PacketConn = onlyPacketConn{pc}
	} else {
		srv.PacketConn = pc
	}
	started := make(chan struct{})
	srv.NotifyStartedFunc = func() { close(started) }
	done := make(chan error, 1)
	go func() { done <- srv.ActivateAndServe() }()
	if !netfake.WaitChan(started, infraWait) {
		pc.Close()
		return nil, nil, false
	}
	cl, err := net.Dial("udp", pc.LocalAddr().String())
	if err != nil {
		finishServe(srv, done)
		stat["infra_loopback_unavailable"]++
		return nil, nil, false
	}
	defer cl.Close()
	replies := map[uint16][][]byte{}
	answered := make([]bool, len(probes))
	buf := make([]byte, 65535)
	for i, p := range probes {
		ctl := new(dns.Msg)
		ctl.SetQuestion("control.example.", dns.TypeA)
		ctl.Id = p.id + 1
		if _, err := cl.Write(p.m); err != nil {
			continue
		}
		if _, err := cl.Write(mustPack(ctl)); err != nil {
			continue
		}
		cl.SetReadDeadline(time.Now().Add(infraWait))
		for {
			k, err := cl.Read(buf)
			if err != nil {
				break
			}
			if k < 2 {
				replies[0] = append(replies[0], append([]byte(nil), buf[:k]...))
				continue
			}
			id := binary.BigEndian.Uint16(buf)
			replies[id] = append(replies[id], append([]byte(nil), buf[:k]...))
			if id == ctl.Id {
				answered[i] = true
				break
			}
		}
	}
	// every probe whose control was answered has been read by the server; wait
	// for the serving goroutines, then collect late replies
	if !finishServe(srv, done) {
		return nil, nil, false
	}
	// Every reply has been handed to the kernel by now (Shutdown waits for the
	// serving goroutines). Read on until the socket has been quiet for 300 ms; as
	// long as a probe that is due a reply has none, keep reading for up to 3 s.
	for start := time.Now(); ; {
		missing := false
		for i, p := range probes {
			if answered[i] && p.cls != "qr" && len(replies[p.id]) == 0 {
				missing = true
			}
		}
		cl.SetReadDeadline(time.Now().Add(300 * time.Millisecond))
		k, err := cl.Read(buf)
		if err != nil {
			if !missing || time.Since(start) > 3*time.Second {
				break
			}
			continue
		}
		if k >= 2 {
			id := binary.BigEndian.Uint16(buf)
			replies[id] = append(replies[id], append([]byte(nil), buf[:k]...))
		}
	}
	evs = make([][]string, len(probes))
	reqs = make([][]*dns.Msg, len(probes))
	obs.mu.Lock()
	defer obs.mu.Unlock()
	for i, p := range probes {
		if !answered[i] {
			stat["udpsize_socket_unverifiable"]++
			continue
		}
		ev := []string{}
		for _, q := range obs.handled[p.id] {
			ev = append(ev, "h:"+digest(q))
		}
		reqs[i] = obs.handled[p.id]
		ev = append(ev, obs.invalid[p.id]...)
		for _, w := range replies[p.id] {
			if h, hok := hdrOf(w); hok && h.Ancount > 0 {
				ev = append(ev, "hw:"+Hx(w))
			} else {
				ev = append(ev, "w:"+Hx(w))
			}
		}
		evs[i] = ev
	}
	return evs, reqs, true
}

func runUDPSizeSockets(r *Rng, tier string) {
	id := uint16(1000)
	for _, u := range []int{0, 700, 1232} {
		eff := effUDPSize(u)
		var probes []sockProbe
		for kind := 0; kind < nPadKinds; kind++ {
			for _, l := range []int{eff - 2, eff - 1, eff, eff + 1} {
				base := sizedQuery(r, 0, kind, l)
				for _, cls := range []string{"query", "qr", "two-questions", "rdlength-overrun"} {
					m := sizedVariant(base, cls)
					binary.BigEndian.PutUint16(m, id)
					seen := m
					if len(seen) > eff {
						seen = seen[:eff]
					}
					if decoderSafe("udp", "default", seen) {
						probes = append(probes, sockProbe{id: id, m: m, seen: seen, kind: padNames[kind], cls: cls, u: u})
					}
					id += 2
				}
			}
		}
		for _, generic := range []bool{false, true} {
			path := "real socket, *net.UDPConn"
			if generic {
				path = "real socket as plain net.PacketConn"
			}
			todo := probes
			bad := map[uint16]map[string]string{} // probe id -> key -> desc, intersected over the attempts
			lastEv := map[uint16]string{}
			for attempt := 0; attempt < 3 && len(todo) > 0; attempt++ {
				evs, reqs, ok := sockSession(u, generic, todo)
				if !ok {
					stat["infra_timeout"]++
					break
				}
				var again []sockProbe
				for i, p := range todo {
					if evs[i] == nil {
						delete(bad, p.id)
						continue
					}
					got := map[string]string{}
					oracleSink = func(key, desc string) { got[key] = desc }
					rec := &recorder{in: p.seen, reqs: reqs[i]}
					serveOracleIn("udp", "default", p.seen, evs[i], rec, fmt.Sprintf("%s (UDPSize %d, datagram of %d octets)", path, u, len(p.m)), nil)
					oracleSink = nil
					if attempt == 0 {
						stat["udpsize_socket_checked"]++
					}
					if prev, seenBefore := bad[p.id]; seenBefore {
						for k := range prev {
							if _, still := got[k]; !still {
								delete(prev, k)
							}
						}
						got = prev
					}
					if len(got) == 0 {
						delete(bad, p.id)
						continue
					}
					bad[p.id] = got
					lastEv[p.id] = strings.Join(evs[i], ";")
					again = append(again, p)
					if attempt == 2 {
						keys := make([]string, 0, len(got))
						for k := range got {
							keys = append(keys, k)
						}
						sort.Strings(keys)
						stat["udpsize_socket_violations"] += len(keys)
						for _, k := range keys {
							Viol(k, got[k]+" [same verdict in three sessions]",
								sizedIn{path, u, false, p.kind, p.cls, len(p.m), "default", short2k(Hx(p.m)), lastEv[p.id]})
						}
					}
				}
				if attempt > 0 {
					stat["udpsize_socket_replayed"] += len(todo)
				}
				todo = again
			}
		}
	}
}
